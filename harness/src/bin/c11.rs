//! C11: views (UnionGraph, PartialUnionGraph, DatasetGraph, GraphAsDataset) vs the Coq model
//! and vs a naive set oracle, over mixed histories, for every set-like store type; generalized datasets (graph names of every
//! kind of term); error paths of bulk mutations through views (failing sources, stores failing at the k-th call; ModelErr.v);
//! read errors in the MIDDLE of the store's enumerations (Err items followed by further Ok items), relayed one for one by every
//! view and every enumeration / pattern method (Op::SetErrs, Op::Seq; ModelSeq.v).
use sophia_api::dataset::adapter::GraphAsDataset;
use sophia_api::dataset::adapter::GraphAsDatasetMutationError;
use sophia_api::graph::adapter::{DatasetGraph, PartialUnionGraph, UnionGraph};
use sophia_api::prelude::*;
use sophia_api::quad::Spog;
use sophia_api::term::matcher::{GraphNameMatcher, TermMatcher};
use sophia_api::term::GraphName;
use std::collections::{BTreeSet, HashSet};
use verif_harness::*;
use sophia_api::source::IntoSource;
use sophia_api::source::{StreamError, StreamResult, QuadSource, TripleSource};
use sophia_api::quad::Gspo;
use sophia_api::graph::GTerm;
use sophia_api::dataset::DTerm;
use std::convert::Infallible;

type Tid = u64;
type T3 = [Tid; 3];
type Q4 = (T3, Option<Tid>);

#[derive(Clone, Debug)]
enum MD { Any, OneOf(Vec<Tid>), NotOneOf(Vec<Tid>) }
#[derive(Clone, Debug)]
enum GD { Any, OneOf(Vec<Option<Tid>>), NotOneOf(Vec<Option<Tid>>) }

#[derive(Clone, Debug)]
enum Op {
    DInsert(Q4), DRemove(Q4), VInsert(Option<Tid>, T3), VRemove(Option<Tid>, T3),
    QUnion(MD, MD, MD), QPUnion(GD, MD, MD, MD), QGraph(Option<Tid>, MD, MD, MD),
    QGraphAll(Option<Tid>), QUnionAll, QPUnionAll(GD), QDirect(MD, MD, MD, GD),
    VRemoveMatching(Option<Tid>, MD, MD, MD), VRetainMatching(Option<Tid>, MD, MD, MD), QUnionAtoms(u64), QGraphAtoms(Option<Tid>, u64),
    /// Graph::contains through a view: union, partial union (selector), one graph
    CUnion(T3), CPUnion(GD, T3), CGraph(Option<Tid>, T3),
    // ---------- widened alphabet ----------
    /// a Graph method on the graph-valued view store.path[0]().as_dataset().path[1]()...as_dataset().hop();
    /// `how` selects among equivalent routes (constructor / method, &D / &&D / &mut D / owned, as_dataset variants),
    /// `dr` the way the iterator is consumed
    GObs { path: Vec<Hop>, hop: Hop, how: u8, obs: GObs, dr: u8 },
    /// a Dataset method on the dataset-valued view store.path[0]().as_dataset()... (empty path: the store itself)
    DObs { path: Vec<Hop>, how: u8, obs: DObs, dr: u8 },
    /// insert / remove of the triple `t` through graph_mut(gs[0]).as_dataset_mut().graph_mut(gs[1])...
    /// (on a graph store gs[0] is None and stands for the store itself)
    Ins { gs: Vec<Option<Tid>>, t: T3, how: u8 }, Rem { gs: Vec<Option<Tid>>, t: T3, how: u8 },
    /// insert_all / remove_all through the view named by `gs`; quads = the view is dataset-valued and every item
    /// carries its own graph name, otherwise it is graph-valued and the items are triples
    InsAll { gs: Vec<Option<Tid>>, quads: bool, items: Vec<Q4>, how: u8 }, RemAll { gs: Vec<Option<Tid>>, quads: bool, items: Vec<Q4>, how: u8 },
    /// MutableGraph::remove_matching / retain_matching through graph_mut(g), by other routes than VRemoveMatching
    RemMatching { g: Option<Tid>, m: (MD, MD, MD), how: u8 }, RetMatching { g: Option<Tid>, m: (MD, MD, MD), how: u8 },
    /// MutableDataset::remove_matching / retain_matching on the store itself
    DRemMatching(MD, MD, MD, GD), DRetMatching(MD, MD, MD, GD),
    /// only on the stores whose enumerations can fail (Flaky, FlakyG): from now on every enumeration of the STORE
    /// yields Err(MyErr(7)) first (true) / behaves normally (false)
    SetFail(bool),
    // ---------- error paths of bulk mutations ----------
    /// insert_all / remove_all through the view named by `gs` (as InsAll / RemAll, same routes) from a source that yields
    /// items[..fail_at] and then FAILS with MyErr(5): the call must report the source error (or the sink error it met
    /// earlier) and the store must hold exactly what the elementary operations on items[..fail_at] produce
    InsAllF { gs: Vec<Option<Tid>>, quads: bool, items: Vec<Q4>, fail_at: usize, how: u8 }, RemAllF { gs: Vec<Option<Tid>>, quads: bool, items: Vec<Q4>, fail_at: usize, how: u8 },
    /// only on the flaky stores: Some((k, sticky)) = the (k+1)-th elementary insert / remove call that reaches the STORE from
    /// now on fails with MyErr(9) (once; if sticky, every call from then on, until the next SetBudget); None = disarm
    SetBudget(Option<(usize, bool)>),
    // ---------- read errors in the MIDDLE of an enumeration ----------
    /// only on the flaky stores: from now on every enumeration of the STORE yields, besides its statements, the error items of
    /// this plan: (p, code) = Err(MyErr(code)) just before the statement of rank p (at the very end when there are fewer
    /// statements), several errors at the same place in the order of the plan; the empty plan switches that off.
    /// The statements that FOLLOW an error item belong to the store as much as the ones before it
    SetErrs(Plan),
    /// the observation `GObs` / `DObs` inside, by the same routes, but keeping EVERY item of the iterator in order, errors
    /// included (nothing stops at the first error): a view must relay the store's own sequence of Ok / Err items one for
    /// one, restricted to its graphs and to the pattern
    Seq(Box<Op>),
}
/// see Op::SetErrs
type Plan = Vec<(usize, u64)>;
/// an item of a fallible enumeration: a statement / term, or the code of the error
type It<X> = Result<X, u64>;
#[derive(Clone, Debug)]
enum Hop { Union, PUnion(GD), Graph(Option<Tid>) }
#[derive(Clone, Debug)]
enum GObs { Matching(MD, MD, MD), All, Contains(T3), /** 0 subjects 1 predicates 2 objects */ Terms(u8), /** 0 bnodes 1 iris 2 literals 3 quoted triples 4 variables */ Atoms(u64) }
#[derive(Clone, Debug)]
enum DObs { Matching(MD, MD, MD, GD), All, Contains(Q4), /** ... 3 graph_names */ Terms(u8), Atoms(u64) }
#[derive(Clone, Debug, PartialEq)]
enum Out { Flag(bool), Triples(Vec<T3>), Quads(Vec<Q4>), Count(u64), Terms(Vec<Tid>), Err(String), Has(bool), OnlyDefault,
           /// a bulk mutation reported the error of its source (MyErr(5)) / the error of the store's insert or remove (MyErr(9))
           SrcErr, SinkErr,
           /// the answer of a mutation, and the whole content of the STORE (read directly, not through a view) right after it
           After(Box<Out>, Vec<Q4>),
           /// the complete sequence of items of an enumeration of triples / quads (Op::Seq)
           SeqT(Vec<It<T3>>), SeqQ(Vec<It<Q4>>),
           /// the complete sequence of an enumeration of TERMS, canonical form: the set of the terms yielded (duplicates and the
           /// place of a term are not part of the contract) and the codes of the errors in the order they came
           SeqTerms(Vec<Tid>, Vec<u64>),
           /// the answer of an Op::Seq, and the STORE's own enumeration (quads() / triples() called on the store itself) at that time
           Seq(Box<Out>, Vec<It<Q4>>) }

#[derive(Clone, Debug)]
enum GOp { Insert(Q4), Remove(Q4), Contains(Q4), Query(MD, MD, MD, GD), All, DirectInsert(T3), DirectRemove(T3),
           /// bulk mutations through the dataset view (inherited MutableDataset methods, or overrides of them)
           RemoveAll(Vec<Q4>), InsertAll(Vec<T3>) }
#[derive(Clone, Debug, PartialEq)]
enum GOut { Ok(bool), OnlyDefault, Bool(bool), Quads(Vec<Q4>), Err(String), Count(u64) }

struct Ctx { pool: Vec<Vec<ST>>, /** findings that are recorded but are not violations of C11 (see `soft_hint`) */ notes: std::cell::RefCell<std::collections::BTreeMap<String, u64>> }
impl Ctx {
    fn term(&self, id: Tid, r: &mut Rng) -> ST { r.pick(&self.pool[(id - 1) as usize]).clone() }
    fn id<T: Term>(&self, t: T) -> Tid { class_id(&self.pool, t) }
}

struct TM { d: MD, terms: Vec<ST> }
impl TermMatcher for TM {
    type Term = ST;
    fn matches<T2: Term + ?Sized>(&self, term: &T2) -> bool {
        let hit = self.terms.iter().any(|m| Term::eq(m, term.borrow_term()));
        match self.d { MD::Any => true, MD::OneOf(_) => hit, MD::NotOneOf(_) => !hit }
    }
    fn constant(&self) -> Option<&ST> {
        match &self.d { MD::OneOf(l) if l.len() == 1 => Some(&self.terms[0]), _ => None }
    }
}
struct GM { d: GD, names: Vec<Option<ST>> }
impl GraphNameMatcher for GM {
    type Term = ST;
    fn matches<T2: Term + ?Sized>(&self, g: GraphName<&T2>) -> bool {
        let hit = self.names.iter().any(|m| match (m, g) {
            (None, None) => true,
            (Some(a), Some(b)) => Term::eq(a, b.borrow_term()),
            _ => false,
        });
        match self.d { GD::Any => true, GD::OneOf(_) => hit, GD::NotOneOf(_) => !hit }
    }
    fn constant(&self) -> Option<GraphName<&ST>> {
        match &self.d { GD::OneOf(l) if l.len() == 1 => Some(self.names[0].as_ref()), _ => None }
    }
}
fn tm(c: &Ctx, d: &MD, r: &mut Rng) -> TM {
    let terms = match d { MD::Any => vec![], MD::OneOf(l) | MD::NotOneOf(l) => l.iter().map(|i| c.term(*i, r)).collect() };
    TM { d: d.clone(), terms }
}
fn gm(c: &Ctx, d: &GD, r: &mut Rng) -> GM {
    let names = match d { GD::Any => vec![], GD::OneOf(l) | GD::NotOneOf(l) => l.iter().map(|i| i.map(|i| c.term(i, r))).collect() };
    GM { d: d.clone(), names }
}

fn sort3(mut v: Vec<T3>) -> Vec<T3> { v.sort(); v }
fn sort4(mut v: Vec<Q4>) -> Vec<Q4> { v.sort(); v }

macro_rules! terms_of { ($c:expr, $g:expr, $kind:expr) => {{
    let mut v: Vec<Tid> = vec![]; let mut err: Option<String> = None;
    macro_rules! coll { ($it:expr) => { for t in $it { match t { Ok(t) => v.push($c.id(t)), Err(e) => { err = Some(format!("{e:?}")); break } } } }; }
    match $kind { 0 => coll!($g.blank_nodes()), 1 => coll!($g.iris()), 2 => coll!($g.literals()), 3 => coll!($g.quoted_triples()), _ => coll!($g.variables()) }
    v.sort(); v.dedup(); match err { Some(e) => Out::Err(e), None => Out::Terms(v) }
}}; }
/// one operation of the FIRST alphabet (unchanged), on any store
fn old_step<D>(c: &Ctx, d: &mut D, op: &Op, r: &mut Rng) -> Out
where D: MutableDataset, D::Error: std::fmt::Debug, D::MutationError: std::fmt::Debug + From<D::Error>, for<'x> sophia_api::dataset::DTerm<'x, D>: Clone,
{
    macro_rules! triples { ($it:expr) => {{
        let mut v = vec![]; let mut err = None;
        for t in $it { match t { Ok(t) => v.push([c.id(t.s()), c.id(t.p()), c.id(t.o())]), Err(e) => { err = Some(format!("{e:?}")); break } } }
        match err { Some(e) => Out::Err(e), None => Out::Triples(sort3(v)) }
    }}; }
    {
        let o = match op {
            Op::DInsert((t, g)) => match d.insert(c.term(t[0], r), c.term(t[1], r), c.term(t[2], r), g.map(|g| c.term(g, r))) { Ok(b) => Out::Flag(b), Err(e) => Out::Err(format!("{e:?}")) },
            Op::DRemove((t, g)) => match d.remove(c.term(t[0], r), c.term(t[1], r), c.term(t[2], r), g.map(|g| c.term(g, r))) { Ok(b) => Out::Flag(b), Err(e) => Out::Err(format!("{e:?}")) },
            Op::VInsert(g, t) => {
                let mut v = DatasetGraph::new(&mut *d, g.map(|g| c.term(g, r)));
                match v.insert(c.term(t[0], r), c.term(t[1], r), c.term(t[2], r)) { Ok(b) => Out::Flag(b), Err(e) => Out::Err(format!("{e:?}")) }
            }
            Op::VRemove(g, t) => {
                let mut v = DatasetGraph::new(&mut *d, g.map(|g| c.term(g, r)));
                match v.remove(c.term(t[0], r), c.term(t[1], r), c.term(t[2], r)) { Ok(b) => Out::Flag(b), Err(e) => Out::Err(format!("{e:?}")) }
            }
            Op::QUnion(s, p, o) => { let v = UnionGraph::new(&*d); triples!(v.triples_matching(tm(c, s, r), tm(c, p, r), tm(c, o, r))) }
            Op::QPUnion(g, s, p, o) => { let m = gm(c, g, r); let v = PartialUnionGraph::new(&*d, m.matcher_ref()); triples!(v.triples_matching(tm(c, s, r), tm(c, p, r), tm(c, o, r))) }
            Op::QGraph(g, s, p, o) => { let v = DatasetGraph::new(&*d, g.map(|g| c.term(g, r))); triples!(v.triples_matching(tm(c, s, r), tm(c, p, r), tm(c, o, r))) }
            Op::CUnion(t) => { let v = UnionGraph::new(&*d); match v.contains(c.term(t[0], r), c.term(t[1], r), c.term(t[2], r)) { Ok(b) => Out::Has(b), Err(e) => Out::Err(format!("{e:?}")) } }
            Op::CPUnion(g, t) => { let m = gm(c, g, r); let v = PartialUnionGraph::new(&*d, m.matcher_ref()); match v.contains(c.term(t[0], r), c.term(t[1], r), c.term(t[2], r)) { Ok(b) => Out::Has(b), Err(e) => Out::Err(format!("{e:?}")) } }
            Op::CGraph(g, t) => { let v = DatasetGraph::new(&*d, g.map(|g| c.term(g, r))); match v.contains(c.term(t[0], r), c.term(t[1], r), c.term(t[2], r)) { Ok(b) => Out::Has(b), Err(e) => Out::Err(format!("{e:?}")) } }
            Op::QGraphAll(g) => { let v = DatasetGraph::new(&*d, g.map(|g| c.term(g, r))); triples!(v.triples()) }
            Op::QUnionAll => { let v = UnionGraph::new(&*d); triples!(v.triples()) }
            Op::QPUnionAll(g) => { let m = gm(c, g, r); let v = PartialUnionGraph::new(&*d, m.matcher_ref()); triples!(v.triples()) }
            Op::VRemoveMatching(g, s, p, o) => {
                let mut v = DatasetGraph::new(&mut *d, g.map(|g| c.term(g, r)));
                match v.remove_matching(tm(c, s, r), tm(c, p, r), tm(c, o, r)) { Ok(n) => Out::Count(n as u64), Err(e) => Out::Err(format!("{e:?}")) }
            }
            Op::VRetainMatching(g, s, p, o) => {
                let mut v = DatasetGraph::new(&mut *d, g.map(|g| c.term(g, r)));
                match v.retain_matching(tm(c, s, r), tm(c, p, r), tm(c, o, r)) { Ok(()) => Out::Flag(true), Err(e) => Out::Err(format!("{e:?}")) }
            }
            Op::QUnionAtoms(k) => { let v = UnionGraph::new(&*d); terms_of!(c, v, *k) }
            Op::QGraphAtoms(g, k) => { let v = DatasetGraph::new(&*d, g.map(|g| c.term(g, r))); terms_of!(c, v, *k) }
            Op::QDirect(s, p, o, g) => {
                let mut v = vec![]; let mut err = None;
                for q in d.quads_matching(tm(c, s, r), tm(c, p, r), tm(c, o, r), gm(c, g, r)) {
                    match q { Ok(q) => v.push(([c.id(q.s()), c.id(q.p()), c.id(q.o())], q.g().map(|g| c.id(g)))), Err(e) => { err = Some(format!("{e:?}")); break } }
                }
                match err { Some(e) => Out::Err(e), None => Out::Quads(sort4(v)) }
            }
            _ => unreachable!("widened operations are run by the per-store runners"),
        };
        o
    }
}

fn run_gad<G>(c: &Ctx, init: &[T3], ops: &[GOp], r: &mut Rng) -> Vec<GOut>
where G: MutableGraph + Default, G::Error: std::fmt::Debug + std::error::Error, G::MutationError: std::fmt::Debug + std::error::Error,
{
    let mut g = G::default();
    for t in init { g.insert(c.term(t[0], r), c.term(t[1], r), c.term(t[2], r)).unwrap(); }
    let mut d = GraphAsDataset::new(g);
    let mut outs = vec![];
    for op in ops {
        let o = match op {
            GOp::Insert((t, gn)) => match d.insert(c.term(t[0], r), c.term(t[1], r), c.term(t[2], r), gn.map(|g| c.term(g, r))) {
                Ok(b) => GOut::Ok(b), Err(GraphAsDatasetMutationError::OnlyDefaultGraph) => GOut::OnlyDefault, Err(e) => GOut::Err(format!("{e:?}")) },
            GOp::Remove((t, gn)) => match d.remove(c.term(t[0], r), c.term(t[1], r), c.term(t[2], r), gn.map(|g| c.term(g, r))) {
                Ok(b) => GOut::Ok(b), Err(GraphAsDatasetMutationError::OnlyDefaultGraph) => GOut::OnlyDefault, Err(e) => GOut::Err(format!("{e:?}")) },
            GOp::Contains((t, gn)) => match d.contains(c.term(t[0], r), c.term(t[1], r), c.term(t[2], r), gn.map(|g| c.term(g, r))) { Ok(b) => GOut::Bool(b), Err(e) => GOut::Err(format!("{e:?}")) },
            GOp::Query(s, p, o, gm_) => {
                let mut v = vec![];
                for q in d.quads_matching(tm(c, s, r), tm(c, p, r), tm(c, o, r), gm(c, gm_, r)) { let q = q.unwrap(); v.push(([c.id(q.s()), c.id(q.p()), c.id(q.o())], q.g().map(|g| c.id(g)))); }
                GOut::Quads(sort4(v))
            }
            GOp::All => { let mut v = vec![]; for q in d.quads() { let q = q.unwrap(); v.push(([c.id(q.s()), c.id(q.p()), c.id(q.o())], q.g().map(|g| c.id(g)))); } GOut::Quads(sort4(v)) }
            GOp::RemoveAll(l) => { let qs: Vec<([ST; 3], Option<ST>)> = l.iter().map(|(t, gn)| ([c.term(t[0], r), c.term(t[1], r), c.term(t[2], r)], gn.map(|g| c.term(g, r)))).collect();
                match d.remove_all(qs.into_iter().into_source()) { Ok(n) => GOut::Count(n as u64), Err(e) => GOut::Err(format!("{e:?}")) } }
            GOp::InsertAll(l) => { let qs: Vec<([ST; 3], Option<ST>)> = l.iter().map(|t| ([c.term(t[0], r), c.term(t[1], r), c.term(t[2], r)], None)).collect();
                match d.insert_all(qs.into_iter().into_source()) { Ok(n) => GOut::Count(n as u64), Err(e) => GOut::Err(format!("{e:?}")) } }
            GOp::DirectInsert(t) => { let mut g = d.unwrap(); let b = g.insert(c.term(t[0], r), c.term(t[1], r), c.term(t[2], r)).unwrap(); d = GraphAsDataset::new(g); GOut::Ok(b) }
            GOp::DirectRemove(t) => { let mut g = d.unwrap(); let b = g.remove(c.term(t[0], r), c.term(t[1], r), c.term(t[2], r)).unwrap(); d = GraphAsDataset::new(g); GOut::Ok(b) }
        };
        outs.push(o);
    }
    outs
}

// ================= widened alphabet: generic observations and per-store runners =================

/// consume an iterator in one of several ways (the adapters return `impl Iterator`s whose size_hint / nth / fold /
/// collect come from the wrapped store's iterators and from the mapping layers); every size_hint seen on the way is
/// checked against what the iterator then really yields
fn drain<I: Iterator>(mut it: I, mode: u8, bad: &mut Vec<String>) -> Vec<I::Item> {
    let (lo, hi) = it.size_hint();
    let v: Vec<I::Item> = match mode % 5 {
        0 => { let mut v = vec![]; for x in it { v.push(x) } v }
        1 => it.collect(),
        2 => it.fold(vec![], |mut v, x| { v.push(x); v }),
        3 => { let mut v = vec![]; let mut flip = false; loop { let x = if flip { it.next() } else { it.nth(0) }; flip = !flip; match x { Some(x) => v.push(x), None => break } } v }
        _ => { // the hint must stay truthful after every step
            let mut v = vec![];
            loop {
                let (l, h) = it.size_hint();
                match it.next() {
                    Some(x) => { if h == Some(0) { bad.push(format!("size_hint upper bound 0 after {} items but another item came", v.len())) } v.push(x) }
                    None => { if l > 0 { bad.push(format!("size_hint lower bound {l} after {} items but the iterator was exhausted", v.len())) } break }
                }
            }
            v
        }
    };
    if v.len() < lo { bad.push(format!("size_hint ({lo},{hi:?}) but {} items: lower bound not reached", v.len())) }
    if hi.map_or(false, |h| v.len() > h) { bad.push(format!("size_hint ({lo},{hi:?}) but {} items: upper bound exceeded", v.len())) }
    v
}
fn ids3<T: Triple>(c: &Ctx, t: &T) -> T3 { [c.id(t.s()), c.id(t.p()), c.id(t.o())] }
fn ids4<Q: Quad>(c: &Ctx, q: &Q) -> Q4 { ([c.id(q.s()), c.id(q.p()), c.id(q.o())], q.g().map(|g| c.id(g))) }
/// canonical result of a fallible iterator of triples / quads / terms
fn fin<X, E: std::fmt::Debug, Y>(items: Vec<Result<X, E>>, f: impl Fn(&X) -> Y) -> Result<Vec<Y>, String> {
    let mut v = vec![];
    for i in items { match i { Ok(x) => v.push(f(&x)), Err(e) => return Err(format!("{e:?}")) } }
    Ok(v)
}
/// a second and third iterator built by the same call must agree with the drained one on count / nth / last
fn cross<Y: PartialEq + std::fmt::Debug>(what: &str, v: &[Y], count: usize, k: usize, nth: Option<Y>, last: Option<Y>, bad: &mut Vec<String>) {
    if count != v.len() { bad.push(format!("{what}: count() = {count} but {} items were yielded", v.len())) }
    if nth.as_ref() != v.get(k) { bad.push(format!("{what}: nth({k}) = {nth:?} but item {k} of {} is {:?}", v.len(), v.get(k))) }
    if last.as_ref() != v.last() { bad.push(format!("{what}: last() = {last:?} but the final item is {:?}", v.last())) }
}
/// resiter 0.5.0's FlatMapOk::size_hint and FilterMapOk::size_hint return the hint of the wrapped iterator unchanged (the
/// former's own TODO says so), so the iterators of iris() / blank_nodes() / literals() / variables() / quoted_triples()
/// (provided methods of Graph and Dataset) can yield more items than their upper bound, and the one of
/// Dataset::graph_names() fewer than its lower bound. That is a defect of the dependency and not of the views
/// (the same method on the store itself has it): it is counted in the summary and reported, not treated as a violation
fn soft_hint(c: &Ctx, what: &str, hints: &[String]) {
    for h in hints {
        let kind = if h.contains("lower bound") { "lower bound not reached" } else { "upper bound exceeded" };
        *c.notes.borrow_mut().entry(format!("finding (resiter 0.5.0 FlatMapOk/FilterMapOk::size_hint passes the wrapped hint through): {what}(): {kind}")).or_insert(0) += 1;
    }
}
fn set_of(mut v: Vec<Tid>) -> Vec<Tid> { v.sort(); v.dedup(); v }

/// every Graph method the property talks about except quoted_triples (see `qt_of!`), on any view type
fn obs_graph<G: Graph>(c: &Ctx, g: &G, o: &GObs, dr: u8, r: &mut Rng) -> Out {
    let mut bad: Vec<String> = vec![];
    macro_rules! tri { ($what:expr, $mk:expr) => {{
        match fin(drain($mk, dr, &mut bad), |t| ids3(c, t)) {
            Err(e) => Out::Err(e),
            Ok(v) => {
                let k = r.below(v.len() + 2);
                let count = $mk.count();
                let nth = $mk.nth(k).map(|t| t.map(|t| ids3(c, &t)).ok()).flatten();
                let last = $mk.last().map(|t| t.map(|t| ids3(c, &t)).ok()).flatten();
                cross($what, &v, count, k, nth, last, &mut bad);
                Out::Triples(sort3(v))
            }
        }
    }}; }
    macro_rules! terms { ($what:expr, $mk:expr) => {{
        // the atom enumerations are built on resiter's flat_map_ok and graph_names() on its filter_map_ok, whose size_hints
        // are the inner iterator's: see soft_hint
        let soft = matches!($what, "blank_nodes" | "iris" | "literals" | "variables" | "graph_names");
        let mut hints: Vec<String> = vec![];
        let drained = drain($mk, dr, &mut hints);
        if soft { soft_hint(c, $what, &hints) } else { bad.extend(hints) }
        match fin(drained, |t| c.id(t.borrow_term())) {
            Err(e) => Out::Err(e),
            Ok(v) => {
                let k = r.below(v.len() + 2);
                let count = $mk.count();
                let nth = $mk.nth(k).map(|t| t.map(|t| c.id(t)).ok()).flatten();
                let last = $mk.last().map(|t| t.map(|t| c.id(t)).ok()).flatten();
                cross($what, &v, count, k, nth, last, &mut bad);
                Out::Terms(set_of(v))
            }
        }
    }}; }
    let out = match o {
        GObs::Matching(s, p, ob) => {
            let (ms, mp, mo) = (tm(c, s, r), tm(c, p, r), tm(c, ob, r));
            tri!("triples_matching", g.triples_matching(ms.matcher_ref(), mp.matcher_ref(), mo.matcher_ref()))
        }
        GObs::All => tri!("triples", g.triples()),
        GObs::Contains(t) => match g.contains(c.term(t[0], r), c.term(t[1], r), c.term(t[2], r)) { Ok(b) => Out::Flag(b), Err(e) => Out::Err(format!("{e:?}")) },
        GObs::Terms(0) => terms!("subjects", g.subjects()),
        GObs::Terms(1) => terms!("predicates", g.predicates()),
        GObs::Terms(_) => terms!("objects", g.objects()),
        GObs::Atoms(0) => terms!("blank_nodes", g.blank_nodes()),
        GObs::Atoms(1) => terms!("iris", g.iris()),
        GObs::Atoms(2) => terms!("literals", g.literals()),
        GObs::Atoms(_) => terms!("variables", g.variables()),
    };
    if bad.is_empty() { out } else { Out::Err(bad.join("; ")) }
}
/// every Dataset method the property talks about except quoted_triples, on any view type
fn obs_dataset<D: Dataset>(c: &Ctx, d: &D, o: &DObs, dr: u8, r: &mut Rng) -> Out {
    let mut bad: Vec<String> = vec![];
    macro_rules! qua { ($what:expr, $mk:expr) => {{
        match fin(drain($mk, dr, &mut bad), |q| ids4(c, q)) {
            Err(e) => Out::Err(e),
            Ok(v) => {
                let k = r.below(v.len() + 2);
                let count = $mk.count();
                let nth = $mk.nth(k).map(|q| q.map(|q| ids4(c, &q)).ok()).flatten();
                let last = $mk.last().map(|q| q.map(|q| ids4(c, &q)).ok()).flatten();
                cross($what, &v, count, k, nth, last, &mut bad);
                Out::Quads(sort4(v))
            }
        }
    }}; }
    macro_rules! terms { ($what:expr, $mk:expr) => {{
        // the atom enumerations are built on resiter's flat_map_ok and graph_names() on its filter_map_ok, whose size_hints
        // are the inner iterator's: see soft_hint
        let soft = matches!($what, "blank_nodes" | "iris" | "literals" | "variables" | "graph_names");
        let mut hints: Vec<String> = vec![];
        let drained = drain($mk, dr, &mut hints);
        if soft { soft_hint(c, $what, &hints) } else { bad.extend(hints) }
        match fin(drained, |t| c.id(t.borrow_term())) {
            Err(e) => Out::Err(e),
            Ok(v) => {
                let k = r.below(v.len() + 2);
                let count = $mk.count();
                let nth = $mk.nth(k).map(|t| t.map(|t| c.id(t)).ok()).flatten();
                let last = $mk.last().map(|t| t.map(|t| c.id(t)).ok()).flatten();
                cross($what, &v, count, k, nth, last, &mut bad);
                Out::Terms(set_of(v))
            }
        }
    }}; }
    let out = match o {
        DObs::Matching(s, p, ob, gn) => {
            let (ms, mp, mo, mg) = (tm(c, s, r), tm(c, p, r), tm(c, ob, r), gm(c, gn, r));
            qua!("quads_matching", d.quads_matching(ms.matcher_ref(), mp.matcher_ref(), mo.matcher_ref(), mg.matcher_ref()))
        }
        DObs::All => qua!("quads", d.quads()),
        DObs::Contains((t, gn)) => match d.contains(c.term(t[0], r), c.term(t[1], r), c.term(t[2], r), gn.map(|x| c.term(x, r))) { Ok(b) => Out::Flag(b), Err(e) => Out::Err(format!("{e:?}")) },
        DObs::Terms(0) => terms!("subjects", d.subjects()),
        DObs::Terms(1) => terms!("predicates", d.predicates()),
        DObs::Terms(2) => terms!("objects", d.objects()),
        DObs::Terms(_) => terms!("graph_names", d.graph_names()),
        DObs::Atoms(0) => terms!("blank_nodes", d.blank_nodes()),
        DObs::Atoms(1) => terms!("iris", d.iris()),
        DObs::Atoms(2) => terms!("literals", d.literals()),
        DObs::Atoms(_) => terms!("variables", d.variables()),
    };
    if bad.is_empty() { out } else { Out::Err(bad.join("; ")) }
}
/// quoted_triples() has a `Term: Clone` bound that a generic function cannot state for a borrowing view, hence a macro
macro_rules! qt_of { ($c:expr, $v:expr, $dr:expr) => {{
    let mut bad: Vec<String> = vec![];
    let mut hints: Vec<String> = vec![];
    let drained = drain($v.quoted_triples(), $dr, &mut hints);
    soft_hint($c, "quoted_triples", &hints);
    match fin(drained, |t| $c.id(t.borrow_term())) {
        Err(e) => Out::Err(e),
        Ok(v) => {
            let n = $v.quoted_triples().count();
            if n != v.len() { bad.push(format!("quoted_triples: count() = {n} but {} items were yielded", v.len())) }
            if bad.is_empty() { Out::Terms(set_of(v)) } else { Out::Err(bad.join("; ")) }
        }
    }
}}; }
// ---------- the same observations keeping EVERY item, errors included (Op::Seq) ----------
thread_local! {
    /// is the observation being run an Op::Seq (the complete sequence of items is the answer)?
    static SEQ: std::cell::Cell<bool> = std::cell::Cell::new(false);
}
fn seq_mode() -> bool { SEQ.with(|s| s.get()) }
/// the code of an injected error, whatever wraps it
fn code<E: std::fmt::Debug>(e: &E) -> u64 { format!("{e:?}").chars().filter(|ch| ch.is_ascii_digit()).collect::<String>().parse().unwrap_or(u64::MAX) }
fn it1<X, E: std::fmt::Debug, Y>(i: Result<X, E>, f: impl Fn(&X) -> Y) -> It<Y> { match i { Ok(x) => Ok(f(&x)), Err(e) => Err(code(&e)) } }
fn its<X, E: std::fmt::Debug, Y>(items: Vec<Result<X, E>>, f: impl Fn(&X) -> Y) -> Vec<It<Y>> { items.into_iter().map(|i| it1(i, &f)).collect() }
fn seq_terms(v: Vec<It<Tid>>) -> Out { Out::SeqTerms(set_of(v.iter().filter_map(|i| i.as_ref().ok().cloned()).collect()), v.iter().filter_map(|i| i.as_ref().err().cloned()).collect()) }
fn seq_graph<G: Graph>(c: &Ctx, g: &G, o: &GObs, dr: u8, r: &mut Rng) -> Out {
    let mut bad: Vec<String> = vec![];
    macro_rules! tri { ($what:expr, $mk:expr) => {{
        let v: Vec<It<T3>> = its(drain($mk, dr, &mut bad), |t| ids3(c, t));
        let k = r.below(v.len() + 2);
        let count = $mk.count();
        let nth = $mk.nth(k).map(|t| it1(t, |t| ids3(c, t)));
        let last = $mk.last().map(|t| it1(t, |t| ids3(c, t)));
        cross($what, &v, count, k, nth, last, &mut bad);
        Out::SeqT(v)
    }}; }
    macro_rules! terms { ($what:expr, $mk:expr) => {{
        let soft = matches!($what, "blank_nodes" | "iris" | "literals" | "variables" | "graph_names");
        let mut hints: Vec<String> = vec![];
        let drained = drain($mk, dr, &mut hints);
        if soft { soft_hint(c, $what, &hints) } else { bad.extend(hints) }
        let v: Vec<It<Tid>> = its(drained, |t| c.id(t.borrow_term()));
        let k = r.below(v.len() + 2);
        let count = $mk.count();
        let nth = $mk.nth(k).map(|t| it1(t, |t| c.id(t.borrow_term())));
        let last = $mk.last().map(|t| it1(t, |t| c.id(t.borrow_term())));
        cross($what, &v, count, k, nth, last, &mut bad);
        seq_terms(v)
    }}; }
    let out = match o {
        GObs::Matching(s, p, ob) => {
            let (ms, mp, mo) = (tm(c, s, r), tm(c, p, r), tm(c, ob, r));
            tri!("triples_matching", g.triples_matching(ms.matcher_ref(), mp.matcher_ref(), mo.matcher_ref()))
        }
        GObs::All => tri!("triples", g.triples()),
        GObs::Contains(t) => match g.contains(c.term(t[0], r), c.term(t[1], r), c.term(t[2], r)) { Ok(b) => Out::Flag(b), Err(e) => Out::Err(format!("{e:?}")) },
        GObs::Terms(0) => terms!("subjects", g.subjects()),
        GObs::Terms(1) => terms!("predicates", g.predicates()),
        GObs::Terms(_) => terms!("objects", g.objects()),
        GObs::Atoms(0) => terms!("blank_nodes", g.blank_nodes()),
        GObs::Atoms(1) => terms!("iris", g.iris()),
        GObs::Atoms(2) => terms!("literals", g.literals()),
        GObs::Atoms(_) => terms!("variables", g.variables()),
    };
    if bad.is_empty() { out } else { Out::Err(bad.join("; ")) }
}
fn seq_dataset<D: Dataset>(c: &Ctx, d: &D, o: &DObs, dr: u8, r: &mut Rng) -> Out {
    let mut bad: Vec<String> = vec![];
    macro_rules! qua { ($what:expr, $mk:expr) => {{
        let v: Vec<It<Q4>> = its(drain($mk, dr, &mut bad), |q| ids4(c, q));
        let k = r.below(v.len() + 2);
        let count = $mk.count();
        let nth = $mk.nth(k).map(|q| it1(q, |q| ids4(c, q)));
        let last = $mk.last().map(|q| it1(q, |q| ids4(c, q)));
        cross($what, &v, count, k, nth, last, &mut bad);
        Out::SeqQ(v)
    }}; }
    macro_rules! terms { ($what:expr, $mk:expr) => {{
        let soft = matches!($what, "blank_nodes" | "iris" | "literals" | "variables" | "graph_names");
        let mut hints: Vec<String> = vec![];
        let drained = drain($mk, dr, &mut hints);
        if soft { soft_hint(c, $what, &hints) } else { bad.extend(hints) }
        let v: Vec<It<Tid>> = its(drained, |t| c.id(t.borrow_term()));
        let k = r.below(v.len() + 2);
        let count = $mk.count();
        let nth = $mk.nth(k).map(|t| it1(t, |t| c.id(t.borrow_term())));
        let last = $mk.last().map(|t| it1(t, |t| c.id(t.borrow_term())));
        cross($what, &v, count, k, nth, last, &mut bad);
        seq_terms(v)
    }}; }
    let out = match o {
        DObs::Matching(s, p, ob, gn) => {
            let (ms, mp, mo, mg) = (tm(c, s, r), tm(c, p, r), tm(c, ob, r), gm(c, gn, r));
            qua!("quads_matching", d.quads_matching(ms.matcher_ref(), mp.matcher_ref(), mo.matcher_ref(), mg.matcher_ref()))
        }
        DObs::All => qua!("quads", d.quads()),
        DObs::Contains((t, gn)) => match d.contains(c.term(t[0], r), c.term(t[1], r), c.term(t[2], r), gn.map(|x| c.term(x, r))) { Ok(b) => Out::Flag(b), Err(e) => Out::Err(format!("{e:?}")) },
        DObs::Terms(0) => terms!("subjects", d.subjects()),
        DObs::Terms(1) => terms!("predicates", d.predicates()),
        DObs::Terms(2) => terms!("objects", d.objects()),
        DObs::Terms(_) => terms!("graph_names", d.graph_names()),
        DObs::Atoms(0) => terms!("blank_nodes", d.blank_nodes()),
        DObs::Atoms(1) => terms!("iris", d.iris()),
        DObs::Atoms(2) => terms!("literals", d.literals()),
        DObs::Atoms(_) => terms!("variables", d.variables()),
    };
    if bad.is_empty() { out } else { Out::Err(bad.join("; ")) }
}
macro_rules! qt_seq { ($c:expr, $v:expr, $dr:expr) => {{
    let mut hints: Vec<String> = vec![];
    let drained = drain($v.quoted_triples(), $dr, &mut hints);
    soft_hint($c, "quoted_triples", &hints);
    let v: Vec<It<Tid>> = its(drained, |t| $c.id(t.borrow_term()));
    let n = $v.quoted_triples().count();
    if n != v.len() { Out::Err(format!("quoted_triples: count() = {n} but {} items were yielded", v.len())) } else { seq_terms(v) }
}}; }
macro_rules! gobs { ($c:expr, $r:expr, $v:expr, $obs:expr, $dr:expr) => {{
    let vref = &$v;
    if seq_mode() { match $obs { GObs::Atoms(3) => qt_seq!($c, vref, $dr), o => seq_graph($c, vref, o, $dr, $r) } }
    else { match $obs { GObs::Atoms(3) => qt_of!($c, vref, $dr), o => obs_graph($c, vref, o, $dr, $r) } }
}}; }
macro_rules! dobs { ($c:expr, $r:expr, $v:expr, $obs:expr, $dr:expr) => {{
    let vref = &$v;
    if seq_mode() { match $obs { DObs::Atoms(3) => qt_seq!($c, vref, $dr), o => seq_dataset($c, vref, o, $dr, $r) } }
    else { match $obs { DObs::Atoms(3) => qt_of!($c, vref, $dr), o => obs_dataset($c, vref, o, $dr, $r) } }
}}; }
/// one step from a dataset-valued expression (a reference) to a graph-valued view, by the Dataset methods
macro_rules! with_hop { ($ds:expr, $hop:expr, $c:expr, $r:expr, $v:ident => $body:expr) => {
    match $hop {
        Hop::Union => { let $v = $ds.union_graph(); $body }
        Hop::PUnion(gd) => { let m = gm($c, gd, $r); let $v = $ds.partial_union_graph(m.matcher_ref()); $body }
        Hop::Graph(g) => { let name: Option<ST> = g.map(|g| $c.term(g, $r)); let $v = DatasetGraph::new($ds, name); $body }
    }
}; }
/// walk `path` from the dataset-valued expression `root` (a reference), binding `ds` to a reference to the view reached
macro_rules! at_path { ($root:expr, $path:expr, $how:expr, $c:expr, $r:expr, $ds:ident => $body:expr) => {
    match &$path[..] {
        [] => { let $ds = $root; $body }
        [h1] => with_hop!($root, h1, $c, $r, v1 => match $how % 3 {
            0 => { let x = v1.as_dataset(); let $ds = &x; $body }
            1 => { let mut v1 = v1; let x = v1.as_dataset_mut(); let $ds = &x; $body }
            _ => { let x = v1.into_dataset(); let $ds = &x; $body }
        }),
        [h1, h2] => with_hop!($root, h1, $c, $r, v1 => { let x1 = v1.as_dataset(); with_hop!(&x1, h2, $c, $r, v2 => { let x = v2.into_dataset(); let $ds = &x; $body }) }),
        _ => unreachable!(),
    }
}; }

/// does a mutation error mean "this view only has a default graph"?
trait OnlyDef { fn only_default(&self) -> bool; }
impl OnlyDef for Infallible { fn only_default(&self) -> bool { false } }
impl OnlyDef for sophia_inmem::index::TermIndexFullError { fn only_default(&self) -> bool { false } }
impl<E: std::error::Error + OnlyDef> OnlyDef for GraphAsDatasetMutationError<E> {
    fn only_default(&self) -> bool { match self { GraphAsDatasetMutationError::OnlyDefaultGraph => true, GraphAsDatasetMutationError::Graph(e) => e.only_default() } }
}
/// the store's own mutation error, however many GraphAsDataset layers wrapped it
fn is_store_err(dbg: &str) -> bool { dbg.trim_start_matches("Graph(").trim_end_matches(')') == "MyErr(9" }
/// canonical form of an answer: the injected mutation error of the store is a value of its own
fn canon(o: Out) -> Out { match o { Out::Err(e) if is_store_err(&e) => Out::SinkErr, o => o } }
fn flag<E: OnlyDef + std::fmt::Debug>(x: Result<bool, E>) -> Out {
    match x { Ok(b) => Out::Flag(b), Err(e) if e.only_default() => Out::OnlyDefault, Err(e) => canon(Out::Err(format!("{e:?}"))) }
}
fn count<SE: std::error::Error, E: OnlyDef + std::fmt::Debug + std::error::Error>(x: Result<usize, StreamError<SE, E>>) -> Out {
    match x {
        Ok(n) => Out::Count(n as u64),
        Err(StreamError::SinkError(e)) if e.only_default() => Out::OnlyDefault,
        Err(StreamError::SinkError(e)) => canon(Out::Err(format!("{e:?}"))),
        Err(StreamError::SourceError(e)) => if format!("{e:?}") == "MyErr(5)" { Out::SrcErr } else { Out::Err(format!("source error {e:?}")) },
    }
}
/// a source that yields the first `left` items of `it` and then fails (once) with MyErr(5)
struct FSrc<X> { it: std::vec::IntoIter<X>, left: usize, done: bool }
impl<X> FSrc<X> { fn new(v: Vec<X>, fail_at: usize) -> Self { FSrc { it: v.into_iter(), left: fail_at, done: false } } }
impl<X> Iterator for FSrc<X> {
    type Item = Result<X, MyErr>;
    fn next(&mut self) -> Option<Self::Item> {
        if self.done { return None }
        if self.left == 0 { self.done = true; return Some(Err(MyErr(5))) }
        self.left -= 1;
        match self.it.next() { Some(x) => Some(Ok(x)), None => { self.done = true; Some(Err(MyErr(5))) } }
    }
}
// mutations through the `&mut T` forwarding impls (which forward EVERY method, provided ones included)
fn fwd_dinsert<M: MutableDataset>(mut m: M, [s, p, o]: [ST; 3], g: Option<ST>) -> Result<bool, M::MutationError> { m.insert(s, p, o, g) }
fn fwd_dremove<M: MutableDataset>(mut m: M, [s, p, o]: [ST; 3], g: Option<ST>) -> Result<bool, M::MutationError> { m.remove(s, p, o, g) }
fn fwd_ginsert<M: MutableGraph>(mut m: M, [s, p, o]: [ST; 3]) -> Result<bool, M::MutationError> { m.insert(s, p, o) }
fn fwd_gremove<M: MutableGraph>(mut m: M, [s, p, o]: [ST; 3]) -> Result<bool, M::MutationError> { m.remove(s, p, o) }
fn fwd_dinsert_all<M: MutableDataset, S: QuadSource>(mut m: M, qs: S) -> StreamResult<usize, S::Error, M::MutationError> { m.insert_all(qs) }
fn fwd_dremove_all<M: MutableDataset, S: QuadSource>(mut m: M, qs: S) -> StreamResult<usize, S::Error, M::MutationError> { m.remove_all(qs) }
fn fwd_ginsert_all<M: MutableGraph, S: TripleSource>(mut m: M, ts: S) -> StreamResult<usize, S::Error, M::MutationError> { m.insert_all(ts) }
fn fwd_gremove_all<M: MutableGraph, S: TripleSource>(mut m: M, ts: S) -> StreamResult<usize, S::Error, M::MutationError> { m.remove_all(ts) }
fn fwd_gremove_matching<M: MutableGraph>(mut m: M, a: TM, b: TM, cc: TM) -> Result<usize, M::MutationError> where M::MutationError: From<M::Error> { m.remove_matching(a, b, cc) }
fn fwd_gretain_matching<M: MutableGraph>(mut m: M, a: TM, b: TM, cc: TM) -> Result<(), M::MutationError> where M::MutationError: From<M::Error> { m.retain_matching(a, b, cc) }
fn fwd_dremove_matching<M: MutableDataset>(mut m: M, a: TM, b: TM, cc: TM, g: GM) -> Result<usize, M::MutationError> where M::MutationError: From<M::Error> { m.remove_matching(a, b, cc, g) }
fn fwd_dretain_matching<M: MutableDataset>(mut m: M, a: TM, b: TM, cc: TM, g: GM) -> Result<(), M::MutationError> where M::MutationError: From<M::Error> { m.retain_matching(a, b, cc, g) }

fn spo(c: &Ctx, t: &T3, r: &mut Rng) -> [ST; 3] { [c.term(t[0], r), c.term(t[1], r), c.term(t[2], r)] }
fn name(c: &Ctx, g: &Option<Tid>, r: &mut Rng) -> Option<ST> { g.map(|g| c.term(g, r)) }
fn triples_of(c: &Ctx, items: &[Q4], r: &mut Rng) -> Vec<[ST; 3]> { items.iter().map(|(t, _)| spo(c, t, r)).collect() }
fn quads_of(c: &Ctx, items: &[Q4], r: &mut Rng) -> Vec<([ST; 3], Option<ST>)> { items.iter().map(|(t, g)| (spo(c, t, r), name(c, g, r))).collect() }
fn unit<E: std::fmt::Debug>(x: Result<(), E>) -> Out { match x { Ok(()) => Out::Flag(true), Err(e) => canon(Out::Err(format!("{e:?}"))) } }
fn cnt<E: std::fmt::Debug>(x: Result<usize, E>) -> Out { match x { Ok(n) => Out::Count(n as u64), Err(e) => canon(Out::Err(format!("{e:?}"))) } }

/// a dataset store whose enumerations can fail: a view must pass the error on (and a bulk mutation through a view must
/// give up before changing anything); everything except quads / insert / remove is the trait's provided code
#[derive(Default)]
struct Flaky { inner: BTreeSet<Spog<ST>>, fail: bool, /** see Op::SetBudget */ budget: Option<(usize, bool)>, /** see Op::SetErrs */ errs: Plan }
/// the items of `it` as Ok items, with the error items of the plan in between (see Op::SetErrs)
struct Inter<'p, I: Iterator> { it: std::iter::Peekable<I>, plan: &'p [(usize, u64)], pos: usize, /** errors already yielded at this place */ k: usize }
fn inter<I: Iterator>(it: I, plan: &[(usize, u64)]) -> Inter<'_, I> { Inter { it: it.peekable(), plan, pos: 0, k: 0 } }
impl<'p, I: Iterator> Iterator for Inter<'p, I> {
    type Item = Result<I::Item, MyErr>;
    fn next(&mut self) -> Option<Self::Item> {
        let at_end = self.it.peek().is_none();
        let mut seen = 0;
        for (p, code) in self.plan {
            if *p == self.pos || (at_end && *p > self.pos) { if seen == self.k { self.k += 1; return Some(Err(MyErr(*code))) } seen += 1 }
        }
        match self.it.next() { Some(x) => { self.pos += 1; self.k = 0; Some(Ok(x)) } None => None }
    }
}
/// one elementary mutation call reaching a flaky store: does it fail?
fn tick(b: &mut Option<(usize, bool)>) -> Result<(), MyErr> {
    match *b { None => Ok(()), Some((0, sticky)) => { if !sticky { *b = None } Err(MyErr(9)) } Some((k, sticky)) => { *b = Some((k - 1, sticky)); Ok(()) } }
}
impl Dataset for Flaky {
    type Quad<'x> = Spog<&'x ST>;
    type Error = MyErr;
    fn quads(&self) -> impl Iterator<Item = Result<Self::Quad<'_>, MyErr>> + '_ {
        let head: Option<Result<Self::Quad<'_>, MyErr>> = if self.fail { Some(Err(MyErr(7))) } else { None };
        head.into_iter().chain(inter(self.inner.iter().map(|q| q.spog()), &self.errs))
    }
}
impl sophia_api::dataset::SetDataset for Flaky {}
impl MutableDataset for Flaky {
    type MutationError = MyErr;
    fn insert<TS: Term, TP: Term, TO: Term, TG: Term>(&mut self, s: TS, p: TP, o: TO, g: GraphName<TG>) -> Result<bool, MyErr> { tick(&mut self.budget)?; Ok(MutableDataset::insert(&mut self.inner, s, p, o, g).unwrap()) }
    fn remove<TS: Term, TP: Term, TO: Term, TG: Term>(&mut self, s: TS, p: TP, o: TO, g: GraphName<TG>) -> Result<bool, MyErr> { tick(&mut self.budget)?; Ok(MutableDataset::remove(&mut self.inner, s, p, o, g).unwrap()) }
}
/// the same for a graph store
#[derive(Default)]
struct FlakyG { inner: BTreeSet<[ST; 3]>, fail: bool, budget: Option<(usize, bool)>, errs: Plan }
impl Graph for FlakyG {
    type Triple<'x> = [&'x ST; 3];
    type Error = MyErr;
    fn triples(&self) -> impl Iterator<Item = Result<Self::Triple<'_>, MyErr>> + '_ {
        let head: Option<Result<Self::Triple<'_>, MyErr>> = if self.fail { Some(Err(MyErr(7))) } else { None };
        head.into_iter().chain(inter(self.inner.iter().map(|t| t.spo()), &self.errs))
    }
}
impl sophia_api::graph::SetGraph for FlakyG {}
impl MutableGraph for FlakyG {
    type MutationError = MyErr;
    fn insert<TS: Term, TP: Term, TO: Term>(&mut self, s: TS, p: TP, o: TO) -> Result<bool, MyErr> { tick(&mut self.budget)?; Ok(MutableGraph::insert(&mut self.inner, s, p, o).unwrap()) }
    fn remove<TS: Term, TP: Term, TO: Term>(&mut self, s: TS, p: TP, o: TO) -> Result<bool, MyErr> { tick(&mut self.budget)?; Ok(MutableGraph::remove(&mut self.inner, s, p, o).unwrap()) }
}
impl OnlyDef for MyErr { fn only_default(&self) -> bool { false } }
trait MaybeFlaky {
    fn set_fail(&mut self, _b: bool) { unreachable!("SetFail is generated for the flaky stores only") }
    fn set_budget(&mut self, _b: Option<(usize, bool)>) { unreachable!("SetBudget is generated for the flaky stores only") }
    fn set_errs(&mut self, _p: Plan) { unreachable!("SetErrs is generated for the flaky stores only") }
    /// is a failure of the store's insert / remove pending?
    fn armed(&self) -> bool { false }
    /// switch every injected failure off (to read the content of the store) / back on
    fn pause(&mut self) -> Saved { (false, None, vec![]) }
    fn resume(&mut self, _saved: Saved) {}
}
type Saved = (bool, Option<(usize, bool)>, Plan);
impl MaybeFlaky for Flaky {
    fn set_fail(&mut self, b: bool) { self.fail = b } fn set_budget(&mut self, b: Option<(usize, bool)>) { self.budget = b } fn armed(&self) -> bool { self.budget.is_some() }
    fn set_errs(&mut self, p: Plan) { self.errs = p }
    fn pause(&mut self) -> Saved { let x = (self.fail, self.budget, std::mem::take(&mut self.errs)); self.fail = false; self.budget = None; x } fn resume(&mut self, x: Saved) { self.fail = x.0; self.budget = x.1; self.errs = x.2 }
}
impl MaybeFlaky for FlakyG {
    fn set_fail(&mut self, b: bool) { self.fail = b } fn set_budget(&mut self, b: Option<(usize, bool)>) { self.budget = b } fn armed(&self) -> bool { self.budget.is_some() }
    fn set_errs(&mut self, p: Plan) { self.errs = p }
    fn pause(&mut self) -> Saved { let x = (self.fail, self.budget, std::mem::take(&mut self.errs)); self.fail = false; self.budget = None; x } fn resume(&mut self, x: Saved) { self.fail = x.0; self.budget = x.1; self.errs = x.2 }
}
/// is this operation a mutation (whatever its route)?
fn is_mutation(op: &Op) -> bool {
    matches!(op, Op::DInsert(..) | Op::DRemove(..) | Op::VInsert(..) | Op::VRemove(..) | Op::VRemoveMatching(..) | Op::VRetainMatching(..) | Op::Ins { .. } | Op::Rem { .. } | Op::InsAll { .. } | Op::RemAll { .. }
        | Op::InsAllF { .. } | Op::RemAllF { .. } | Op::RemMatching { .. } | Op::RetMatching { .. } | Op::DRemMatching(..) | Op::DRetMatching(..))
}
/// the operations whose answer comes with the content of the store right after the call: the bulk mutations fed by a
/// failing source, and every mutation issued while a failure of the store's insert / remove is pending
fn wants_after(op: &Op, armed: bool) -> bool { matches!(op, Op::InsAllF { .. } | Op::RemAllF { .. }) || (armed && is_mutation(op)) }
fn snap_ds<D: Dataset>(c: &Ctx, d: &D) -> Vec<Q4> where D::Error: std::fmt::Debug { sort4(d.quads().map(|q| ids4(c, &q.expect("reading the store"))).collect()) }
fn snap_gr<G: Graph>(c: &Ctx, g: &G) -> Vec<Q4> where G::Error: std::fmt::Debug { sort4(g.triples().map(|t| (ids3(c, &t.expect("reading the store")), None)).collect()) }

/// the store's own enumeration, item by item, errors included
fn own_ds<D: Dataset>(c: &Ctx, d: &D) -> Vec<It<Q4>> { d.quads().map(|q| it1(q, |q| ids4(c, q))).collect() }
fn own_gr<G: Graph>(c: &Ctx, g: &G) -> Vec<It<Q4>> { g.triples().map(|t| it1(t, |t| (ids3(c, t), None))).collect() }
/// the source of a bulk mutation: the items as they are / the first `fa` items and then a failure
macro_rules! plain_src { ($v:expr, $fa:expr) => { $v.into_iter().into_source() }; }
macro_rules! fail_src { ($v:expr, $fa:expr) => { FSrc::new($v, $fa) }; }
/// insert_all / remove_all on a dataset store, directly or through the mutable view named by `gs`, by every route
macro_rules! ds_bulk { ($d:ident, $c:expr, $r:expr, $ins:expr, $gs:expr, $quads:expr, $items:expr, $how:expr, $fa:expr, $src:ident) => {{
    let (c, ins, gs, items) = ($c, $ins, $gs, $items); let r: &mut Rng = &mut *$r;
    match (gs.len(), $quads, $how % 3) {
        (0, _, 0) => { let qs = $src!(quads_of(c, items, r), $fa); count(if ins { $d.insert_all(qs) } else { $d.remove_all(qs) }) }
        (0, _, 1) => { let qs = $src!(quads_of(c, items, r), $fa); count(if ins { fwd_dinsert_all(&mut $d, qs) } else { fwd_dremove_all(&mut $d, qs) }) }
        (0, _, _) => { let qs: Vec<Gspo<ST>> = quads_of(c, items, r).into_iter().map(|(t, g)| (g, t)).collect(); let qs = $src!(qs, $fa); count(if ins { $d.insert_all(qs) } else { $d.remove_all(qs) }) }
        (1, false, h) => {
            let g0 = name(c, &gs[0], r); let ts = triples_of(c, items, r);
            match h {
                0 => { let mut v = $d.graph_mut(g0); let ts = $src!(ts, $fa); count(if ins { v.insert_all(ts) } else { v.remove_all(ts) }) }
                1 => { let mut v = DatasetGraph::new(std::mem::take(&mut $d), g0); let ts = $src!(ts, $fa); let x = count(if ins { v.insert_all(ts) } else { v.remove_all(ts) }); $d = v.unwrap().0; x }
                _ => { let mut v = $d.graph_mut(g0); let ts = $src!(ts, $fa); count(if ins { fwd_ginsert_all(&mut v, ts) } else { fwd_gremove_all(&mut v, ts) }) }
            }
        }
        (1, true, h) => {
            let g0 = name(c, &gs[0], r); let qs = quads_of(c, items, r);
            let mut v = $d.graph_mut(g0);
            match h {
                0 => { let mut x = v.as_dataset_mut(); let qs = $src!(qs, $fa); count(if ins { x.insert_all(qs) } else { x.remove_all(qs) }) }
                1 => { let mut x = v.into_dataset(); let qs = $src!(qs, $fa); count(if ins { x.insert_all(qs) } else { x.remove_all(qs) }) }
                _ => { let mut x = v.as_dataset_mut(); let qs = $src!(qs, $fa); count(if ins { fwd_dinsert_all(&mut x, qs) } else { fwd_dremove_all(&mut x, qs) }) }
            }
        }
        (_, false, _) => {
            let (g0, g1) = (name(c, &gs[0], r), name(c, &gs[1], r)); let ts = $src!(triples_of(c, items, r), $fa);
            let mut v = $d.graph_mut(g0); let mut x = v.as_dataset_mut(); let mut v2 = DatasetGraph::new(&mut x, g1);
            count(if ins { v2.insert_all(ts) } else { v2.remove_all(ts) })
        }
        (_, true, _) => {
            let (g0, g1) = (name(c, &gs[0], r), name(c, &gs[1], r)); let qs = $src!(quads_of(c, items, r), $fa);
            let mut v = $d.graph_mut(g0); let mut x = v.as_dataset_mut(); let mut v2 = DatasetGraph::new(&mut x, g1); let mut x2 = v2.as_dataset_mut();
            count(if ins { x2.insert_all(qs) } else { x2.remove_all(qs) })
        }
    }
}}; }
/// the same on a graph store (every view goes through GraphAsDataset first)
macro_rules! gr_bulk { ($g:ident, $c:expr, $r:expr, $ins:expr, $gs:expr, $quads:expr, $items:expr, $how:expr, $fa:expr, $src:ident) => {{
    let (c, ins, gs, items) = ($c, $ins, $gs, $items); let r: &mut Rng = &mut *$r;
    match (gs.len(), $quads, $how % 2) {
        (1, false, 0) => { let ts = $src!(triples_of(c, items, r), $fa); count(if ins { $g.insert_all(ts) } else { $g.remove_all(ts) }) }
        (1, false, _) => { let ts = $src!(triples_of(c, items, r), $fa); count(if ins { fwd_ginsert_all(&mut $g, ts) } else { fwd_gremove_all(&mut $g, ts) }) }
        (1, true, 0) => { let qs = $src!(quads_of(c, items, r), $fa); let mut x = $g.as_dataset_mut(); count(if ins { x.insert_all(qs) } else { x.remove_all(qs) }) }
        (1, true, _) => { let qs = $src!(quads_of(c, items, r), $fa); let mut x = std::mem::take(&mut $g).into_dataset(); let y = count(if ins { x.insert_all(qs) } else { x.remove_all(qs) }); $g = x.unwrap(); y }
        (_, false, _) => { let g1 = name(c, &gs[1], r); let ts = $src!(triples_of(c, items, r), $fa); let mut x = $g.as_dataset_mut(); let mut v = DatasetGraph::new(&mut x, g1); count(if ins { v.insert_all(ts) } else { v.remove_all(ts) }) }
        (_, true, _) => { let g1 = name(c, &gs[1], r); let qs = $src!(quads_of(c, items, r), $fa); let mut x = $g.as_dataset_mut(); let mut v = DatasetGraph::new(&mut x, g1); let mut x2 = v.as_dataset_mut(); count(if ins { x2.insert_all(qs) } else { x2.remove_all(qs) }) }
    }
}}; }

/// the runner of a mixed history on one concrete dataset store type
macro_rules! mk_ds_runner { ($fname:ident, $D:ty) => {
fn $fname(c: &Ctx, init: &[Q4], ops: &[Op], r: &mut Rng) -> Vec<Out> {
    let mut d: $D = <$D>::default();
    for (t, g) in init { MutableDataset::insert(&mut d, c.term(t[0], r), c.term(t[1], r), c.term(t[2], r), g.map(|g| c.term(g, r))).unwrap(); }
    let mut outs = vec![];
    for op0 in ops {
        let (op, seq) = match op0 { Op::Seq(inner) => (&**inner, true), o => (o, false) };
        SEQ.with(|s| s.set(seq));
        let armed = d.armed();
        let o = match op {
            Op::GObs { path, hop, how, obs, dr } if path.is_empty() => {
                // the view directly on the store, by every route
                let (how, dr) = (*how, *dr);
                match (hop, how % 7) {
                    (Hop::Union, 0) => { let v = UnionGraph::new(&d); gobs!(c, r, v, obs, dr) }
                    (Hop::Union, 1) => { let v = d.union_graph(); gobs!(c, r, v, obs, dr) }
                    (Hop::Union, 2) => { let dd = &d; let v = UnionGraph::new(&dd); gobs!(c, r, v, obs, dr) }
                    (Hop::Union, 3) => { let v = UnionGraph::new(&mut d); gobs!(c, r, v, obs, dr) }
                    (Hop::Union, 4) => { let v = std::mem::take(&mut d).into_union_graph(); let o = gobs!(c, r, v, obs, dr); d = v.unwrap(); o }
                    (Hop::Union, 5) => { let v0 = d.union_graph(); let v1 = v0; let _still_usable = v0; let vr = &v1; gobs!(c, r, vr, obs, dr) }
                    (Hop::Union, _) => { let mut v = d.union_graph(); let vm = &mut v; gobs!(c, r, vm, obs, dr) }
                    (Hop::PUnion(gd), 0) => { let m = gm(c, gd, r); let v = PartialUnionGraph::new(&d, m.matcher_ref()); gobs!(c, r, v, obs, dr) }
                    (Hop::PUnion(gd), 1) => { let m = gm(c, gd, r); let v = d.partial_union_graph(m.matcher_ref()); gobs!(c, r, v, obs, dr) }
                    (Hop::PUnion(gd), 2) => { let m = gm(c, gd, r); let dd = &d; let v = PartialUnionGraph::new(&dd, m.matcher_ref()); gobs!(c, r, v, obs, dr) }
                    (Hop::PUnion(gd), 3) => { let m = gm(c, gd, r); let v = PartialUnionGraph::new(&mut d, m.matcher_ref()); gobs!(c, r, v, obs, dr) }
                    (Hop::PUnion(gd), 4) => { let m = gm(c, gd, r); let v = PartialUnionGraph::new(std::mem::take(&mut d), m.matcher_ref()); let o = gobs!(c, r, v, obs, dr); d = v.unwrap().0; o }
                    (Hop::PUnion(gd), 5) => { let m = gm(c, gd, r); let v0 = d.partial_union_graph(m.matcher_ref()); let v1 = v0; let _still_usable = v0; let vr = &v1; gobs!(c, r, vr, obs, dr) }
                    (Hop::PUnion(gd), _) => { let m = gm(c, gd, r); let mut v = d.partial_union_graph(m.matcher_ref()); let vm = &mut v; gobs!(c, r, vm, obs, dr) }
                    (Hop::Graph(g), 0) => { let v = DatasetGraph::new(&d, name(c, g, r)); gobs!(c, r, v, obs, dr) }
                    (Hop::Graph(g), 1) => { let v = d.graph(name(c, g, r)); gobs!(c, r, v, obs, dr) }
                    (Hop::Graph(g), 2) => { let dd = &d; let n = name(c, g, r); let v = DatasetGraph::new(&dd, n.as_ref()); gobs!(c, r, v, obs, dr) } // the name is a borrowed term
                    (Hop::Graph(g), 3) => { let v = d.graph_mut(name(c, g, r)); gobs!(c, r, v, obs, dr) }
                    (Hop::Graph(g), 4) => { let v = DatasetGraph::new(std::mem::take(&mut d), name(c, g, r)); let o = gobs!(c, r, v, obs, dr); d = v.unwrap().0; o }
                    (Hop::Graph(g), 5) => { let v0 = d.graph(name(c, g, r)); let v1 = v0.clone(); let vr = &v1; let o = gobs!(c, r, vr, obs, dr); drop(v0); o }
                    (Hop::Graph(g), _) => { let mut v = d.graph_mut(name(c, g, r)); let vm = &mut v; gobs!(c, r, vm, obs, dr) }
                }
            }
            Op::GObs { path, hop, how, obs, dr } => {
                let (how, dr) = (*how, *dr);
                at_path!(&d, path, how, c, r, ds => with_hop!(ds, hop, c, r, v => gobs!(c, r, v, obs, dr)))
            }
            Op::DObs { path, how, obs, dr } if path.is_empty() => {
                let (how, dr) = (*how, *dr);
                match how % 3 {
                    0 => dobs!(c, r, d, obs, dr),
                    1 => { let dd = &d; dobs!(c, r, dd, obs, dr) }
                    _ => { let dm = &mut d; dobs!(c, r, dm, obs, dr) }
                }
            }
            Op::DObs { path, how, obs, dr } => {
                let (how, dr) = (*how, *dr);
                at_path!(&d, path, how, c, r, ds => { let x = ds; match how % 2 { 0 => dobs!(c, r, *x, obs, dr), _ => dobs!(c, r, x, obs, dr) } })
            }
            Op::Ins { gs, t, how } | Op::Rem { gs, t, how } => {
                let ins = matches!(op, Op::Ins { .. });
                let [s, p, o] = spo(c, t, r);
                let g0 = name(c, &gs[0], r);
                match (gs.len(), *how % 8) {
                    (1, 0) => flag(if ins { MutableDataset::insert(&mut d, s, p, o, g0) } else { MutableDataset::remove(&mut d, s, p, o, g0) }),
                    (1, 1) => flag(if ins { d.insert_quad(([s, p, o], g0)) } else { d.remove_quad(([s, p, o], g0)) }),
                    (1, 2) => flag(if ins { fwd_dinsert(&mut d, [s, p, o], g0) } else { fwd_dremove(&mut d, [s, p, o], g0) }),
                    (1, 3) => { let mut v = d.graph_mut(g0); flag(if ins { v.insert(s, p, o) } else { v.remove(s, p, o) }) }
                    (1, 4) => { let mut v = DatasetGraph::new(&mut d, g0.as_ref()); flag(if ins { v.insert_triple([s, p, o]) } else { v.remove_triple([s, p, o]) }) }
                    (1, 5) => { let mut v = DatasetGraph::new(std::mem::take(&mut d), g0); let x = flag(if ins { v.insert(s, p, o) } else { v.remove(s, p, o) }); d = v.unwrap().0; x }
                    (1, 6) => { let mut dd = &mut d; let mut v = DatasetGraph::new(&mut dd, g0); flag(if ins { v.insert(s, p, o) } else { v.remove(s, p, o) }) }
                    (1, _) => { let mut v = d.graph_mut(g0); flag(if ins { fwd_ginsert(&mut v, [s, p, o]) } else { fwd_gremove(&mut v, [s, p, o]) }) }
                    (2, h) => {
                        let g1 = name(c, &gs[1], r);
                        match h % 4 {
                            0 => { let mut v = d.graph_mut(g0); let mut x = v.as_dataset_mut(); flag(if ins { x.insert(s, p, o, g1) } else { x.remove(s, p, o, g1) }) }
                            1 => { let mut v = d.graph_mut(g0); let mut x = v.as_dataset_mut(); flag(if ins { x.insert_quad(([s, p, o], g1)) } else { x.remove_quad(([s, p, o], g1)) }) }
                            2 => { let mut x = DatasetGraph::new(&mut d, g0).into_dataset(); flag(if ins { x.insert(s, p, o, g1) } else { x.remove(s, p, o, g1) }) }
                            _ => { let mut v = d.graph_mut(g0); let mut x = v.as_dataset_mut(); let mut v2 = DatasetGraph::new(&mut x, g1); flag(if ins { v2.insert(s, p, o) } else { v2.remove(s, p, o) }) }
                        }
                    }
                    (_, h) => {
                        let (g1, g2) = (name(c, &gs[1], r), name(c, &gs[2], r));
                        let mut v = d.graph_mut(g0); let mut x = v.as_dataset_mut(); let mut v2 = DatasetGraph::new(&mut x, g1);
                        match h % 2 {
                            0 => { let mut x2 = v2.as_dataset_mut(); flag(if ins { x2.insert(s, p, o, g2) } else { x2.remove(s, p, o, g2) }) }
                            _ => { let mut x2 = v2.into_dataset(); flag(if ins { fwd_dinsert(&mut x2, [s, p, o], g2) } else { fwd_dremove(&mut x2, [s, p, o], g2) }) }
                        }
                    }
                }
            }
            Op::InsAll { gs, quads, items, how } | Op::RemAll { gs, quads, items, how } => {
                let ins = matches!(op, Op::InsAll { .. });
                ds_bulk!(d, c, r, ins, gs, *quads, items, *how, 0usize, plain_src)
            }
            Op::InsAllF { gs, quads, items, fail_at, how } | Op::RemAllF { gs, quads, items, fail_at, how } => {
                let ins = matches!(op, Op::InsAllF { .. });
                ds_bulk!(d, c, r, ins, gs, *quads, items, *how, *fail_at, fail_src)
            }
            Op::RemMatching { g, m, how } | Op::RetMatching { g, m, how } => {
                let rem = matches!(op, Op::RemMatching { .. });
                let g0 = name(c, g, r); let (a, b, cc) = (tm(c, &m.0, r), tm(c, &m.1, r), tm(c, &m.2, r));
                match *how % 4 {
                    0 => { let mut v = d.graph_mut(g0); if rem { cnt(v.remove_matching(a, b, cc)) } else { unit(v.retain_matching(a, b, cc)) } }
                    1 => { let mut v = DatasetGraph::new(std::mem::take(&mut d), g0); let x = if rem { cnt(v.remove_matching(a, b, cc)) } else { unit(v.retain_matching(a, b, cc)) }; d = v.unwrap().0; x }
                    2 => { let mut v = d.graph_mut(g0); if rem { cnt(fwd_gremove_matching(&mut v, a, b, cc)) } else { unit(fwd_gretain_matching(&mut v, a, b, cc)) } }
                    _ => { let mut dd = &mut d; let mut v = DatasetGraph::new(&mut dd, g0); if rem { cnt(v.remove_matching(a, b, cc)) } else { unit(v.retain_matching(a, b, cc)) } }
                }
            }
            Op::DRemMatching(s, p, o, g) => { let (a, b, cc, gg) = (tm(c, s, r), tm(c, p, r), tm(c, o, r), gm(c, g, r)); if r.chance(1, 2) { cnt(d.remove_matching(a, b, cc, gg)) } else { cnt(fwd_dremove_matching(&mut d, a, b, cc, gg)) } }
            Op::DRetMatching(s, p, o, g) => { let (a, b, cc, gg) = (tm(c, s, r), tm(c, p, r), tm(c, o, r), gm(c, g, r)); if r.chance(1, 2) { unit(d.retain_matching(a, b, cc, gg)) } else { unit(fwd_dretain_matching(&mut d, a, b, cc, gg)) } }
            Op::SetFail(b) => { d.set_fail(*b); Out::Flag(*b) }
            Op::SetBudget(b) => { d.set_budget(*b); Out::Flag(b.is_some()) }
            Op::SetErrs(p) => { d.set_errs(p.clone()); Out::Flag(!p.is_empty()) }
            old => old_step::<$D>(c, &mut d, old, r),
        };
        SEQ.with(|s| s.set(false));
        let o = canon(o);
        let o = if seq { Out::Seq(Box::new(o), own_ds(c, &d)) } else { o };
        let o = if wants_after(op, armed) { let saved = d.pause(); let st = snap_ds(c, &d); d.resume(saved); Out::After(Box::new(o), st) } else { o };
        outs.push(o);
    }
    outs
}
}; }
mk_ds_runner!(run_ds_fast, sophia_inmem::dataset::FastDataset);
mk_ds_runner!(run_ds_light, sophia_inmem::dataset::LightDataset);
mk_ds_runner!(run_ds_sfast, sophia_inmem::dataset::small::FastDataset);
mk_ds_runner!(run_ds_slight, sophia_inmem::dataset::small::LightDataset);
mk_ds_runner!(run_ds_hs, HashSet<Spog<ST>>);
mk_ds_runner!(run_ds_bt, BTreeSet<Spog<ST>>);
mk_ds_runner!(run_ds_hsg, HashSet<Gspo<ST>>);
mk_ds_runner!(run_ds_btg, BTreeSet<Gspo<ST>>);
mk_ds_runner!(run_ds_vec, Vec<Spog<ST>>);
mk_ds_runner!(run_ds_vecg, Vec<Gspo<ST>>);
mk_ds_runner!(run_ds_flaky, Flaky);
impl MaybeFlaky for sophia_inmem::dataset::FastDataset {} impl MaybeFlaky for sophia_inmem::dataset::LightDataset {}
impl MaybeFlaky for sophia_inmem::dataset::small::FastDataset {} impl MaybeFlaky for sophia_inmem::dataset::small::LightDataset {}
impl MaybeFlaky for HashSet<Spog<ST>> {} impl MaybeFlaky for BTreeSet<Spog<ST>> {} impl MaybeFlaky for HashSet<Gspo<ST>> {} impl MaybeFlaky for BTreeSet<Gspo<ST>> {}
impl MaybeFlaky for Vec<Spog<ST>> {} impl MaybeFlaky for Vec<Gspo<ST>> {}

/// the runner of a widened history on one concrete GRAPH store type: every view goes through GraphAsDataset first
/// (the state is the dataset whose only graph, the default one, is the store)
macro_rules! mk_gr_runner { ($fname:ident, $G:ty) => {
fn $fname(c: &Ctx, init: &[Q4], ops: &[Op], r: &mut Rng) -> Vec<Out> {
    let mut g: $G = <$G>::default();
    for (t, _) in init { MutableGraph::insert(&mut g, c.term(t[0], r), c.term(t[1], r), c.term(t[2], r)).unwrap(); }
    let mut outs = vec![];
    for op0 in ops {
        let (op, seq) = match op0 { Op::Seq(inner) => (&**inner, true), o => (o, false) };
        SEQ.with(|s| s.set(seq));
        let armed = g.armed();
        let o = match op {
            Op::GObs { path, hop, how, obs, dr } => {
                let (how, dr) = (*how, *dr);
                if path.is_empty() {
                    match how % 4 {
                        0 => { let x = g.as_dataset(); with_hop!(&x, hop, c, r, v => gobs!(c, r, v, obs, dr)) }
                        1 => { let x = g.as_dataset_mut(); with_hop!(&x, hop, c, r, v => gobs!(c, r, v, obs, dr)) }
                        2 => { let x = std::mem::take(&mut g).into_dataset(); let o = with_hop!(&x, hop, c, r, v => gobs!(c, r, v, obs, dr)); g = x.unwrap(); o }
                        _ => { let x = GraphAsDataset::new(&g); let xr = &x; with_hop!(&xr, hop, c, r, v => gobs!(c, r, v, obs, dr)) }
                    }
                } else { let x = g.as_dataset(); at_path!(&x, path, how, c, r, ds => with_hop!(ds, hop, c, r, v => gobs!(c, r, v, obs, dr))) }
            }
            Op::DObs { path, how, obs, dr } => {
                let (how, dr) = (*how, *dr);
                if path.is_empty() {
                    match how % 5 {
                        0 => { let x = g.as_dataset(); dobs!(c, r, x, obs, dr) }
                        1 => { let x = g.as_dataset_mut(); dobs!(c, r, x, obs, dr) }
                        2 => { let x = std::mem::take(&mut g).into_dataset(); let o = dobs!(c, r, x, obs, dr); g = x.unwrap(); o }
                        3 => { let x = GraphAsDataset::new(&g); let xr = &x; dobs!(c, r, xr, obs, dr) }
                        _ => { let x = g.as_dataset(); let x2 = x; let _still_usable = x; dobs!(c, r, x2, obs, dr) }
                    }
                } else { let x = g.as_dataset(); at_path!(&x, path, how, c, r, ds => { let y = ds; dobs!(c, r, *y, obs, dr) }) }
            }
            Op::Ins { gs, t, how } | Op::Rem { gs, t, how } => {
                let ins = matches!(op, Op::Ins { .. });
                let [s, p, o] = spo(c, t, r);
                match (gs.len(), *how % 4) {
                    (1, 0) => flag(if ins { MutableGraph::insert(&mut g, s, p, o) } else { MutableGraph::remove(&mut g, s, p, o) }),
                    (1, 1) => flag(if ins { g.insert_triple([s, p, o]) } else { g.remove_triple([s, p, o]) }),
                    (1, 2) => flag(if ins { fwd_ginsert(&mut g, [s, p, o]) } else { fwd_gremove(&mut g, [s, p, o]) }),
                    (1, _) => { let mut x = g.as_dataset_mut(); let mut v = DatasetGraph::new(&mut x, None::<ST>); flag(if ins { v.insert(s, p, o) } else { v.remove(s, p, o) }) }
                    (2, h) => {
                        let g1 = name(c, &gs[1], r);
                        match h {
                            0 => { let mut x = g.as_dataset_mut(); flag(if ins { x.insert(s, p, o, g1) } else { x.remove(s, p, o, g1) }) }
                            1 => { let mut x = std::mem::take(&mut g).into_dataset(); let y = flag(if ins { x.insert_quad(([s, p, o], g1)) } else { x.remove_quad(([s, p, o], g1)) }); g = x.unwrap(); y }
                            2 => { let mut x = g.as_dataset_mut(); flag(if ins { fwd_dinsert(&mut x, [s, p, o], g1) } else { fwd_dremove(&mut x, [s, p, o], g1) }) }
                            _ => { let mut x = g.as_dataset_mut(); let mut v = DatasetGraph::new(&mut x, g1); flag(if ins { v.insert(s, p, o) } else { v.remove(s, p, o) }) }
                        }
                    }
                    (_, h) => {
                        let (g1, g2) = (name(c, &gs[1], r), name(c, &gs[2], r));
                        let mut x = g.as_dataset_mut(); let mut v = DatasetGraph::new(&mut x, g1);
                        match h % 2 {
                            0 => { let mut x2 = v.as_dataset_mut(); flag(if ins { x2.insert(s, p, o, g2) } else { x2.remove(s, p, o, g2) }) }
                            _ => { let mut x2 = v.as_dataset_mut(); let mut v2 = DatasetGraph::new(&mut x2, g2); flag(if ins { v2.insert_triple([s, p, o]) } else { v2.remove_triple([s, p, o]) }) }
                        }
                    }
                }
            }
            Op::InsAll { gs, quads, items, how } | Op::RemAll { gs, quads, items, how } => {
                let ins = matches!(op, Op::InsAll { .. });
                gr_bulk!(g, c, r, ins, gs, *quads, items, *how, 0usize, plain_src)
            }
            Op::InsAllF { gs, quads, items, fail_at, how } | Op::RemAllF { gs, quads, items, fail_at, how } => {
                let ins = matches!(op, Op::InsAllF { .. });
                gr_bulk!(g, c, r, ins, gs, *quads, items, *how, *fail_at, fail_src)
            }
            Op::RemMatching { m, how, .. } | Op::RetMatching { m, how, .. } => {
                // on the store itself (a view over GraphAsDataset cannot offer them: its mutation error has no From<Error>)
                let rem = matches!(op, Op::RemMatching { .. });
                let (a, b, cc) = (tm(c, &m.0, r), tm(c, &m.1, r), tm(c, &m.2, r));
                match *how % 2 {
                    0 => if rem { cnt(g.remove_matching(a, b, cc)) } else { unit(g.retain_matching(a, b, cc)) },
                    _ => if rem { cnt(fwd_gremove_matching(&mut g, a, b, cc)) } else { unit(fwd_gretain_matching(&mut g, a, b, cc)) },
                }
            }
            Op::SetFail(b) => { g.set_fail(*b); Out::Flag(*b) }
            Op::SetBudget(b) => { g.set_budget(*b); Out::Flag(b.is_some()) }
            Op::SetErrs(p) => { g.set_errs(p.clone()); Out::Flag(!p.is_empty()) }
            other => unreachable!("not generated for graph stores: {other:?}"),
        };
        SEQ.with(|s| s.set(false));
        let o = canon(o);
        let o = if seq { Out::Seq(Box::new(o), own_gr(c, &g)) } else { o };
        let o = if wants_after(op, armed) { let saved = g.pause(); let st = snap_gr(c, &g); g.resume(saved); Out::After(Box::new(o), st) } else { o };
        outs.push(o);
    }
    outs
}
}; }
mk_gr_runner!(run_gr_fast, sophia_inmem::graph::FastGraph);
mk_gr_runner!(run_gr_light, sophia_inmem::graph::LightGraph);
mk_gr_runner!(run_gr_sfast, sophia_inmem::graph::small::FastGraph);
mk_gr_runner!(run_gr_slight, sophia_inmem::graph::small::LightGraph);
mk_gr_runner!(run_gr_hs, HashSet<[ST; 3]>);
mk_gr_runner!(run_gr_bt, BTreeSet<[ST; 3]>);
mk_gr_runner!(run_gr_vec, Vec<[ST; 3]>);
mk_gr_runner!(run_gr_flaky, FlakyG);
impl MaybeFlaky for sophia_inmem::graph::FastGraph {} impl MaybeFlaky for sophia_inmem::graph::LightGraph {}
impl MaybeFlaky for sophia_inmem::graph::small::FastGraph {} impl MaybeFlaky for sophia_inmem::graph::small::LightGraph {}
impl MaybeFlaky for HashSet<[ST; 3]> {} impl MaybeFlaky for BTreeSet<[ST; 3]> {} impl MaybeFlaky for Vec<[ST; 3]> {}

// ---------- naive oracle (independent of the Coq model) ----------
fn md_ok(m: &MD, t: Tid) -> bool { match m { MD::Any => true, MD::OneOf(l) => l.contains(&t), MD::NotOneOf(l) => !l.contains(&t) } }
fn gd_ok(m: &GD, g: Option<Tid>) -> bool { match m { GD::Any => true, GD::OneOf(l) => l.contains(&g), GD::NotOneOf(l) => !l.contains(&g) } }
fn t_ok(s: &MD, p: &MD, o: &MD, t: &T3) -> bool { md_ok(s, t[0]) && md_ok(p, t[1]) && md_ok(o, t[2]) }
/// (kind, atoms, triple constituents) of each pool identifier
fn pool_info(id: Tid) -> (u64, Vec<Tid>, Vec<Tid>) {
    match id {
        17 | 20 => (2, vec![id], vec![]), 18 | 23 => (4, vec![id], vec![]), 24 => (0, vec![id], vec![]),
        19 => (3, vec![1, 3, 20], vec![19]), 22 => (3, vec![1, 3, 23], vec![22]), 21 => (3, vec![1, 3, 23, 3, 5], vec![21, 22]),
        4 | 5 => (0, vec![id], vec![]), 1 | 2 | 3 | 12 | 13 => (1, vec![id], vec![]), 6 | 7 | 8 | 9 | 15 => (2, vec![id], vec![]), 11 => (4, vec![id], vec![]),
        10 => (3, vec![1, 3, 4], vec![10]), 16 => (3, vec![1, 3, 7], vec![16]), 14 => (3, vec![1, 3, 7, 3, 15], vec![14, 16]),
        _ => unreachable!(),
    }
}
fn atoms_oracle(ts: Vec<T3>, kind: u64) -> Vec<Tid> {
    let mut v: Vec<Tid> = vec![];
    for t in ts { for x in t { let (_, atoms, tc) = pool_info(x); if kind == 3 { v.extend(tc) } else { v.extend(atoms.into_iter().filter(|a| pool_info(*a).0 == kind)) } } }
    v.sort(); v.dedup(); v
}
fn atoms_of_terms(terms: impl Iterator<Item = Tid>, kind: u64) -> Vec<Tid> {
    let mut v: Vec<Tid> = vec![];
    for x in terms { let (_, atoms, tc) = pool_info(x); if kind == 3 { v.extend(tc) } else { v.extend(atoms.into_iter().filter(|a| pool_info(*a).0 == kind)) } }
    v.sort(); v.dedup(); v
}
/// what a graph-valued view shows: a multiset of triples
fn hop_triples(qs: &[Q4], h: &Hop) -> Vec<T3> {
    qs.iter().filter(|q| match h { Hop::Union => true, Hop::PUnion(gd) => gd_ok(gd, q.1), Hop::Graph(g) => q.1 == *g }).map(|q| q.0).collect()
}
/// what the dataset-valued view store.p0().as_dataset().p1().as_dataset()... shows: each graph view seen as a
/// dataset has its triples in the default graph, and nothing else
fn path_quads(qs: &[Q4], p: &[Hop]) -> Vec<Q4> {
    let mut cur = qs.to_vec();
    for h in p { cur = hop_triples(&cur, h).into_iter().map(|t| (t, None)).collect() }
    cur
}
fn gobs_oracle(ts: &[T3], o: &GObs) -> Out {
    match o {
        GObs::Matching(s, p, ob) => Out::Triples(sort3(ts.iter().filter(|t| t_ok(s, p, ob, t)).cloned().collect())),
        GObs::All => Out::Triples(sort3(ts.to_vec())),
        GObs::Contains(t) => Out::Flag(ts.contains(t)),
        GObs::Terms(k) => Out::Terms(set_of(ts.iter().map(|t| t[(*k).min(2) as usize]).collect())),
        GObs::Atoms(k) => Out::Terms(atoms_of_terms(ts.iter().flat_map(|t| t.iter().cloned()), *k)),
    }
}
fn dobs_oracle(qs: &[Q4], o: &DObs) -> Out {
    match o {
        DObs::Matching(s, p, ob, g) => Out::Quads(sort4(qs.iter().filter(|q| gd_ok(g, q.1) && t_ok(s, p, ob, &q.0)).cloned().collect())),
        DObs::All => Out::Quads(sort4(qs.to_vec())),
        DObs::Contains(q) => Out::Flag(qs.contains(q)),
        DObs::Terms(k) if *k < 3 => Out::Terms(set_of(qs.iter().map(|q| q.0[*k as usize]).collect())),
        DObs::Terms(_) => Out::Terms(set_of(qs.iter().filter_map(|q| q.1).collect())),
        DObs::Atoms(k) => Out::Terms(atoms_of_terms(qs.iter().flat_map(|q| q.0.iter().cloned().chain(q.1)), *k)),
    }
}
/// the graph of the store in which a mutation through graph_mut(gs[0]).as_dataset_mut().graph_mut(gs[1])... lands:
/// a graph seen as a dataset has a default graph only
fn lands(gs: &[Option<Tid>]) -> Option<Option<Tid>> { if gs[1..].iter().all(|g| g.is_none()) { Some(gs[0]) } else { None } }
/// the store's own semantics (what C01 is about): a set; or a Vec-backed bag whose insert always adds and answers true and
/// whose remove either deletes every copy and answers true (Vec<Spog>, Vec<[T;3]>) or deletes one copy and answers
/// whether there was one (Vec<Gspo>)
#[derive(Clone, Copy, PartialEq, Debug)]
enum Kind { Set, BagAll, BagOne }
fn o_insert(set: &mut Vec<Q4>, bag: Kind, q: Q4) -> bool { if bag == Kind::Set && set.contains(&q) { false } else { set.push(q); true } }
fn o_remove(set: &mut Vec<Q4>, bag: Kind, q: Q4) -> bool {
    let pos = set.iter().position(|x| *x == q);
    match bag { Kind::BagOne => { if let Some(i) = pos { set.remove(i); } pos.is_some() } Kind::BagAll => { set.retain(|x| *x != q); true } Kind::Set => { set.retain(|x| *x != q); pos.is_some() } }
}
/// a graph seen as a dataset answers without looking at the graph when only named graphs are asked for
fn excludes_default(h: &Hop) -> bool { match h { Hop::Union => false, Hop::PUnion(gd) => !gd_ok(gd, None), Hop::Graph(g) => g.is_some() } }
/// while the store's enumerations fail: does this operation report the error (true), or does it answer normally because it
/// never enumerates the store (single insertions and removals; a question about named graphs put to a graph-as-dataset view)?
fn fails(op: &Op, graph_store: bool) -> bool {
    let skip = if graph_store { 0 } else { 1 };
    match op {
        Op::DInsert(..) | Op::DRemove(..) | Op::VInsert(..) | Op::VRemove(..) | Op::Ins { .. } | Op::Rem { .. } | Op::InsAll { .. } | Op::RemAll { .. } | Op::InsAllF { .. } | Op::RemAllF { .. } | Op::SetFail(..) | Op::SetBudget(..) | Op::SetErrs(..) | Op::Seq(..) => false,
        Op::GObs { path, hop, .. } => !path.iter().chain(std::iter::once(hop)).skip(skip).any(excludes_default),
        Op::DObs { path, obs, .. } => {
            if path.is_empty() && !graph_store { return true }
            let answered_by_the_adapter = match obs { DObs::Matching(_, _, _, g) => !gd_ok(g, None), DObs::Contains((_, g)) => g.is_some(), DObs::Terms(k) => *k >= 3, _ => false };
            !answered_by_the_adapter && !path.iter().skip(skip).any(excludes_default)
        }
        _ => true,
    }
}
// ---------- oracle of the complete sequences (Op::Seq): the store's own enumeration, filtered ----------
/// the store's own enumeration as the plan prescribes it, given its statements in the order the store enumerates them
fn with_plan(oks: &[Q4], plan: &Plan) -> Vec<It<Q4>> {
    let n = oks.len(); let mut v = vec![];
    for i in 0..=n { for (p, code) in plan { if *p == i || (i == n && *p > n) { v.push(Err(*code)) } } if i < n { v.push(Ok(oks[i])) } }
    v
}
fn oks_of<X: Copy>(v: &[It<X>]) -> Vec<X> { v.iter().filter_map(|i| i.ok()).collect() }
fn errs_of<X: Copy>(v: &[It<X>]) -> Vec<u64> { v.iter().filter_map(|i| i.err()).collect() }
/// a filter lets every error item through: nobody knows what the unreadable statement was
fn filter_ok<X: Copy>(v: &[It<X>], f: impl Fn(&X) -> bool) -> Vec<It<X>> { v.iter().filter(|i| match i { Ok(x) => f(x), Err(_) => true }).cloned().collect() }
/// what a graph-valued view shows of the enumeration `cur` of a dataset: the statements of its graphs and every error item;
/// `adapter` = that dataset is a graph seen as a dataset, which answers by itself (nothing, hence no error either) when only
/// named graphs are asked for
fn hop_seq(cur: &[It<Q4>], h: &Hop, adapter: bool) -> Vec<It<T3>> {
    if adapter && excludes_default(h) { return vec![] }
    filter_ok(cur, |q| match h { Hop::Union => true, Hop::PUnion(gd) => gd_ok(gd, q.1), Hop::Graph(g) => q.1 == *g }).into_iter().map(|i| i.map(|q| q.0)).collect()
}
fn path_seq(own: &[It<Q4>], p: &[Hop], graph_store: bool) -> (Vec<It<Q4>>, bool) {
    let (mut cur, mut adapter) = (own.to_vec(), graph_store);
    for h in p { cur = hop_seq(&cur, h, adapter).into_iter().map(|i| i.map(|t| (t, None))).collect(); adapter = true }
    (cur, adapter)
}
/// contains(): the statement is there if it comes first, absent if nothing comes, unknown if an error comes first -- unless the
/// implementation read on and found it (`seen`), which nothing forbids
fn first_rule<X: Copy>(s: &[It<X>], seen: Option<&Out>) -> Out {
    match s.first() {
        None => Out::Flag(false), Some(Ok(_)) => Out::Flag(true),
        Some(Err(code)) => if s.iter().any(|i| i.is_ok()) && matches!(seen, Some(Out::Flag(true))) { Out::Flag(true) } else { Out::Err(format!("MyErr({code})")) },
    }
}
fn seq_oracle(own: &[It<Q4>], inner: &Op, graph_store: bool, seen: Option<&Out>) -> Out {
    match inner {
        Op::GObs { path, hop, obs, .. } => {
            let (cur, adapter) = path_seq(own, path, graph_store);
            let ts = hop_seq(&cur, hop, adapter);
            match obs {
                GObs::All => Out::SeqT(ts),
                GObs::Matching(s, p, o) => Out::SeqT(filter_ok(&ts, |t| t_ok(s, p, o, t))),
                GObs::Contains(t) => first_rule(&filter_ok(&ts, |x| x == t), seen),
                GObs::Terms(k) => Out::SeqTerms(set_of(oks_of(&ts).iter().map(|t| t[(*k).min(2) as usize]).collect()), errs_of(&ts)),
                GObs::Atoms(k) => Out::SeqTerms(atoms_of_terms(oks_of(&ts).iter().flat_map(|t| t.iter().cloned()), *k), errs_of(&ts)),
            }
        }
        Op::DObs { path, obs, .. } => {
            let (cur, adapter) = path_seq(own, path, graph_store);
            match obs {
                DObs::All => Out::SeqQ(cur),
                DObs::Matching(s, p, o, g) => if adapter && !gd_ok(g, None) { Out::SeqQ(vec![]) } else { Out::SeqQ(filter_ok(&cur, |q| gd_ok(g, q.1) && t_ok(s, p, o, &q.0))) },
                DObs::Contains(q) => if adapter && q.1.is_some() { Out::Flag(false) } else { first_rule(&filter_ok(&cur, |x| x == q), seen) },
                DObs::Terms(k) if *k < 3 => Out::SeqTerms(set_of(oks_of(&cur).iter().map(|q| q.0[*k as usize]).collect()), errs_of(&cur)),
                DObs::Terms(_) => if adapter { Out::SeqTerms(vec![], vec![]) } else { Out::SeqTerms(set_of(oks_of(&cur).iter().filter_map(|q| q.1).collect()), errs_of(&cur)) },
                DObs::Atoms(k) => Out::SeqTerms(atoms_of_terms(oks_of(&cur).iter().flat_map(|q| q.0.iter().cloned().chain(q.1)), *k), errs_of(&cur)),
            }
        }
        other => unreachable!("only observations are wrapped in Seq: {other:?}"),
    }
}
/// the oracle's store: its content and the pending failure of its insert / remove (see Op::SetBudget)
struct OStore { set: Vec<Q4>, bag: Kind, budget: Option<(usize, bool)> }
impl OStore {
    /// one elementary call reaching the store: Err = it fails (and changes nothing)
    fn tick(&mut self) -> Result<(), ()> { match self.budget { None => Ok(()), Some((0, sticky)) => { if !sticky { self.budget = None } Err(()) } Some((k, sticky)) => { self.budget = Some((k - 1, sticky)); Ok(()) } } }
    fn insert(&mut self, q: Q4) -> Out { match self.tick() { Ok(()) => Out::Flag(o_insert(&mut self.set, self.bag, q)), Err(()) => Out::SinkErr } }
    fn remove(&mut self, q: Q4) -> Out { match self.tick() { Ok(()) => Out::Flag(o_remove(&mut self.set, self.bag, q)), Err(()) => Out::SinkErr } }
    /// insert_all / remove_all: the items one by one, in the order of the source, until the first error of the sink;
    /// `fail_at` = the source fails after that many items
    fn bulk(&mut self, ins: bool, gs: &[Option<Tid>], quads: bool, items: &[Q4], fail_at: Option<usize>) -> Out {
        let mut n = 0;
        for (t, g) in &items[..fail_at.unwrap_or(items.len()).min(items.len())] {
            let mut full = gs.to_vec(); if quads { full.push(*g) }
            let x = match (lands(&full), ins) { (Some(g0), true) => self.insert((*t, g0)), (Some(g0), false) => self.remove((*t, g0)), (None, true) => Out::OnlyDefault, (None, false) => Out::Flag(false) };
            match x { Out::Flag(b) => if b { n += 1 }, e => return e }
        }
        if fail_at.is_some() { Out::SrcErr } else { Out::Count(n) }
    }
    /// remove_matching / retain_matching (of a view or of the store): the victims are collected first, then removed one by
    /// one. The ORDER in which the store enumerates them is not part of the property: when the store fails after k removals,
    /// any k of the victims may be the ones that are gone, and the content observed after the call (`seen`) is accepted iff
    /// it is the old content minus exactly k of the victims. Second component: the quads removed by a call that failed
    fn remove_victims(&mut self, victim: impl Fn(&Q4) -> bool, ok: Out, seen: Option<&Out>) -> (Out, Option<Vec<Q4>>) {
        let m = self.set.iter().filter(|q| victim(q)).count();
        match self.budget {
            Some((k, sticky)) if k < m => {
                debug_assert!(self.bag == Kind::Set);
                let before = self.set.clone();
                let fallback: Vec<Q4> = { let mut left = k; before.iter().filter(|q| if victim(q) && left > 0 { left -= 1; false } else { true }).cloned().collect() };
                let after = match seen {
                    Some(Out::After(_, st)) if st.iter().all(|q| before.contains(q)) && { let mut u = st.clone(); u.dedup(); u.len() == st.len() }
                        && before.iter().filter(|q| !st.contains(q)).all(|q| victim(q)) && before.len() - st.len() == k => st.clone(),
                    _ => fallback,
                };
                let removed: Vec<Q4> = before.iter().filter(|q| !after.contains(q)).cloned().collect();
                self.set = after; self.budget = if sticky { Some((0, true)) } else { None };
                (Out::SinkErr, Some(removed))
            }
            b => {
                if let Some((k, sticky)) = b { self.budget = Some((k - m, sticky)) }
                self.set.retain(|q| !victim(q));
                (match ok { Out::Count(_) => Out::Count(m as u64), o => o }, None)
            }
        }
    }
}
/// second component: for each operation, the quads removed by a remove_matching / retain_matching that failed half-way
fn oracle_ds(init: &[Q4], ops: &[Op], bag: Kind, graph_store: bool, observed: &[Out]) -> (Vec<Out>, Vec<Option<Vec<Q4>>>) {
    let mut st = OStore { set: vec![], bag, budget: None };
    for q in init { o_insert(&mut st.set, bag, *q); }
    let mut outs = vec![]; let mut partial = vec![];
    let mut failing = false;
    let mut plan: Plan = vec![];
    for (k, op) in ops.iter().enumerate() {
        let armed = st.budget.is_some();
        let mut part = None;
        let set = &st.set;
        let o = if failing && fails(op, graph_store) { Out::Err("MyErr(7)".into()) } else { match op {
            Op::SetFail(b) => { failing = *b; Out::Flag(*b) }
            Op::SetBudget(b) => { st.budget = *b; Out::Flag(b.is_some()) }
            Op::SetErrs(p) => { plan = p.clone(); Out::Flag(!p.is_empty()) }
            Op::Seq(inner) => {
                let (seen_view, seen_own) = match observed.get(k) { Some(Out::Seq(v, own)) => (Some(&**v), Some(own)), _ => (None, None) };
                // the store's own enumeration: its statements (all of them, once each) in ITS order, which is not part of the
                // property, and the error items where the plan puts them
                let own = match seen_own {
                    Some(own) if sort4(oks_of(own)) == sort4(set.clone()) && *own == with_plan(&oks_of(own), &plan) => own.clone(),
                    _ => with_plan(&sort4(set.clone()), &plan),
                };
                Out::Seq(Box::new(seq_oracle(&own, inner, graph_store, seen_view)), own)
            }
            Op::DInsert(q) => st.insert(*q),
            Op::DRemove(q) => st.remove(*q),
            Op::VInsert(g, t) => st.insert((*t, *g)),
            Op::VRemove(g, t) => st.remove((*t, *g)),
            Op::QUnion(s, p, o) => Out::Triples(sort3(set.iter().filter(|q| t_ok(s, p, o, &q.0)).map(|q| q.0).collect())),
            Op::QPUnion(g, s, p, o) => Out::Triples(sort3(set.iter().filter(|q| gd_ok(g, q.1) && t_ok(s, p, o, &q.0)).map(|q| q.0).collect())),
            Op::QGraph(g, s, p, o) => Out::Triples(sort3(set.iter().filter(|q| q.1 == *g && t_ok(s, p, o, &q.0)).map(|q| q.0).collect())),
            Op::CUnion(t) => Out::Has(set.iter().any(|q| q.0 == *t)),
            Op::CPUnion(g, t) => Out::Has(set.iter().any(|q| gd_ok(g, q.1) && q.0 == *t)),
            Op::CGraph(g, t) => Out::Has(set.iter().any(|q| q.1 == *g && q.0 == *t)),
            Op::QGraphAll(g) => Out::Triples(sort3(set.iter().filter(|q| q.1 == *g).map(|q| q.0).collect())),
            Op::QUnionAll => Out::Triples(sort3(set.iter().map(|q| q.0).collect())),
            Op::QPUnionAll(g) => Out::Triples(sort3(set.iter().filter(|q| gd_ok(g, q.1)).map(|q| q.0).collect())),
            Op::QDirect(s, p, o, g) => Out::Quads(sort4(set.iter().filter(|q| gd_ok(g, q.1) && t_ok(s, p, o, &q.0)).cloned().collect())),
            Op::VRemoveMatching(g, s, p, o) | Op::RemMatching { g, m: (s, p, o), .. } => { let (x, pr) = st.remove_victims(|q| q.1 == *g && t_ok(s, p, o, &q.0), Out::Count(0), observed.get(k)); part = pr; x }
            Op::VRetainMatching(g, s, p, o) | Op::RetMatching { g, m: (s, p, o), .. } => { let (x, pr) = st.remove_victims(|q| q.1 == *g && !t_ok(s, p, o, &q.0), Out::Flag(true), observed.get(k)); part = pr; x }
            Op::QUnionAtoms(k) => Out::Terms(atoms_oracle(set.iter().map(|q| q.0).collect(), *k)),
            Op::QGraphAtoms(g, k) => Out::Terms(atoms_oracle(set.iter().filter(|q| q.1 == *g).map(|q| q.0).collect(), *k)),
            Op::GObs { path, hop, obs, .. } => gobs_oracle(&hop_triples(&path_quads(set, path), hop), obs),
            Op::DObs { path, obs, .. } => dobs_oracle(&path_quads(set, path), obs),
            Op::Ins { gs, t, .. } => match lands(gs) { Some(g) => st.insert((*t, g)), None => Out::OnlyDefault },
            Op::Rem { gs, t, .. } => match lands(gs) { Some(g) => st.remove((*t, g)), None => Out::Flag(false) },
            Op::InsAll { gs, quads, items, .. } => st.bulk(true, gs, *quads, items, None),
            Op::RemAll { gs, quads, items, .. } => st.bulk(false, gs, *quads, items, None),
            Op::InsAllF { gs, quads, items, fail_at, .. } => st.bulk(true, gs, *quads, items, Some(*fail_at)),
            Op::RemAllF { gs, quads, items, fail_at, .. } => st.bulk(false, gs, *quads, items, Some(*fail_at)),
            Op::DRemMatching(s, p, o, g) => { let (x, pr) = st.remove_victims(|q| gd_ok(g, q.1) && t_ok(s, p, o, &q.0), Out::Count(0), observed.get(k)); part = pr; x }
            Op::DRetMatching(s, p, o, g) => { let (x, pr) = st.remove_victims(|q| !(gd_ok(g, q.1) && t_ok(s, p, o, &q.0)), Out::Flag(true), observed.get(k)); part = pr; x }
        } };
        outs.push(if wants_after(op, armed) { Out::After(Box::new(o), sort4(st.set.clone())) } else { o });
        partial.push(part);
    }
    (outs, partial)
}
/// the plain-set oracle; second component: for each BULK operation, the sequence of single removals / insertions
/// (with their flags) it must be equivalent to -- that is what the Coq model is given for it
fn oracle_gad(init: &[T3], ops: &[GOp]) -> (Vec<GOut>, Vec<Vec<(GOp, GOut)>>) {
    let mut set: Vec<T3> = vec![];
    for t in init { if !set.contains(t) { set.push(*t) } }
    let mut outs = vec![]; let mut prim: Vec<Vec<(GOp, GOut)>> = vec![];
    for op in ops {
        let mut ex: Vec<(GOp, GOut)> = vec![];
        outs.push(match op {
            GOp::RemoveAll(l) => { let mut n = 0; for (t, g) in l { let b = g.is_none() && set.contains(t); if b { set.retain(|x| x != t); n += 1; } ex.push((GOp::Remove((*t, *g)), GOut::Ok(b))); } GOut::Count(n) }
            GOp::InsertAll(l) => { let mut n = 0; for t in l { let b = !set.contains(t); if b { set.push(*t); n += 1; } ex.push((GOp::Insert((*t, None)), GOut::Ok(b))); } GOut::Count(n) }
            GOp::Insert((t, None)) | GOp::DirectInsert(t) => { let b = !set.contains(t); if b { set.push(*t) } GOut::Ok(b) }
            GOp::Insert((_, Some(_))) => GOut::OnlyDefault,
            GOp::Remove((t, None)) | GOp::DirectRemove(t) => { let b = set.contains(t); set.retain(|x| x != t); GOut::Ok(b) }
            GOp::Remove((_, Some(_))) => GOut::Ok(false),
            GOp::Contains((t, g)) => GOut::Bool(g.is_none() && set.contains(t)),
            GOp::Query(s, p, o, g) => GOut::Quads(sort4(set.iter().filter(|t| gd_ok(g, None) && t_ok(s, p, o, t)).map(|t| (*t, None)).collect())),
            GOp::All => GOut::Quads(sort4(set.iter().map(|t| (*t, None)).collect())),
        });
        prim.push(ex);
    }
    (outs, prim)
}

// ---------- generation ----------
const NT: u64 = 24; // pool size
const NT_CLASSIC: u64 = 16; // the terms of the shared pool; 17.. are the ones added for GENERALIZED datasets
/// the shared pool plus terms that are meant to occur (almost) only as graph NAMES, or nested in one:
/// 17 a literal, 18 a variable, 19 a quoted triple whose object is the literal 20, 21 a quoted triple whose subject is the
/// quoted triple 22 = << a p ?w >> (23 = ?w) and whose object is _:y, 24 a blank node
fn c11_pool() -> Vec<Vec<ST>> {
    let mut p = small_pool();
    let (a, pp) = (iri("http://example.org/a"), iri("http://example.org/p"));
    p.push(vec![lit_dt("only a graph name", &format!("{XSD}string"))]);
    p.push(vec![var("g")]);
    p.push(vec![triple(a.clone(), pp.clone(), lit_dt("nested in a graph name", &format!("{XSD}string")))]);
    p.push(vec![lit_dt("nested in a graph name", &format!("{XSD}string"))]);
    p.push(vec![triple(triple(a.clone(), pp.clone(), var("w")), pp.clone(), bnode("y"))]);
    p.push(vec![triple(a.clone(), pp.clone(), var("w"))]);
    p.push(vec![var("w")]);
    p.push(vec![bnode("gb")]);
    p
}
thread_local! {
    /// is the case being generated about a GENERALIZED dataset (graph names of every kind of term)?
    static GENERALIZED: std::cell::Cell<bool> = std::cell::Cell::new(false);
}
fn generalized() -> bool { GENERALIZED.with(|g| g.get()) }
/// a graph name that is a literal, a variable, a quoted triple (possibly nested), or a blank node / IRI / literal / variable /
/// quoted triple that also occurs inside triples
const GEN_NAMES: [Option<Tid>; 12] = [Some(17), Some(17), Some(18), Some(18), Some(19), Some(21), Some(24), Some(7), Some(11), Some(10), Some(14), Some(22)];
fn gen_tid(r: &mut Rng) -> Tid { // skewed towards few terms so that collisions are common
    if generalized() && r.chance(1, 12) { return 17 + r.below(8) as u64 }
    if r.chance(3, 4) { 1 + r.below(6) as u64 } else { 1 + r.below(NT_CLASSIC as usize) as u64 }
}
fn gen_t3(r: &mut Rng) -> T3 { [gen_tid(r), *r.pick(&[3, 3, 1, 2, 12]), gen_tid(r)] }
fn gen_g(r: &mut Rng) -> Option<Tid> {
    if generalized() && r.chance(2, 5) { return *r.pick(&GEN_NAMES) }
    *r.pick(&[None, None, Some(12), Some(12), Some(4), Some(13), Some(1)])
}
/// a name for a graph of a graph-as-dataset view (only the default one is inhabited)
fn gen_g_nested(r: &mut Rng) -> Option<Tid> { if generalized() && r.chance(1, 3) { *r.pick(&GEN_NAMES) } else { *r.pick(&[Some(12), Some(4), Some(1)]) } }
/// the graph names of the first alphabet's graph-as-dataset histories
fn gen_g_gad(r: &mut Rng, classic: &[Option<Tid>]) -> Option<Tid> { if generalized() && r.chance(1, 4) { *r.pick(&GEN_NAMES) } else { *r.pick(classic) } }
fn gen_md(r: &mut Rng) -> MD {
    match r.below(10) { 0..=4 => MD::Any, 5..=6 => MD::OneOf(vec![gen_tid(r)]), 7 => MD::OneOf(vec![gen_tid(r), gen_tid(r)]), 8 => MD::NotOneOf(vec![gen_tid(r)]), _ => MD::OneOf(vec![]) }
}
fn gen_gd(r: &mut Rng) -> GD {
    match r.below(10) { 0..=2 => GD::Any, 3..=5 => GD::OneOf(vec![gen_g(r)]), 6..=7 => GD::OneOf(vec![gen_g(r), gen_g(r)]), 8 => GD::NotOneOf(vec![gen_g(r)]), _ => GD::OneOf(vec![]) }
}
fn gen_op(r: &mut Rng) -> Op {
    match r.below(21) {
        16 => Op::VRemoveMatching(gen_g(r), gen_md(r), gen_md(r), gen_md(r)), 17 => Op::VRetainMatching(gen_g(r), gen_md(r), gen_md(r), gen_md(r)),
        18 | 19 => Op::QUnionAtoms(r.below(5) as u64), 20 => Op::QGraphAtoms(gen_g(r), r.below(5) as u64),
        0..=2 => Op::DInsert((gen_t3(r), gen_g(r))), 3 => Op::DRemove((gen_t3(r), gen_g(r))),
        4..=5 => Op::VInsert(gen_g(r), gen_t3(r)), 6..=7 => Op::VRemove(gen_g(r), gen_t3(r)),
        8 => Op::QUnion(gen_md(r), gen_md(r), gen_md(r)), 9 => Op::QPUnion(gen_gd(r), gen_md(r), gen_md(r), gen_md(r)),
        10..=11 => Op::QGraph(gen_g(r), gen_md(r), gen_md(r), gen_md(r)), 12 => Op::QGraphAll(gen_g(r)),
        13 => Op::QUnionAll, 14 => Op::QPUnionAll(gen_gd(r)), _ => Op::QDirect(gen_md(r), gen_md(r), gen_md(r), gen_gd(r)),
    }
}
fn gen_gop(r: &mut Rng) -> GOp {
    match r.below(14) {
        12 => GOp::RemoveAll((0..r.range(1, 5)).map(|_| (gen_t3(r), gen_g_gad(r, &[None, None, Some(12), Some(4), Some(13)]))).collect()),
        13 => GOp::InsertAll((0..r.range(1, 5)).map(|_| gen_t3(r)).collect()),
        0..=2 => GOp::Insert((gen_t3(r), gen_g_gad(r, &[None, None, None, Some(12), Some(4)]))),
        3..=5 => GOp::Remove((gen_t3(r), gen_g_gad(r, &[None, None, None, Some(12), Some(4)]))),
        6 => GOp::Contains((gen_t3(r), gen_g_gad(r, &[None, None, Some(12)]))),
        7..=8 => GOp::Query(gen_md(r), gen_md(r), gen_md(r), gen_gd(r)), 9 => GOp::All,
        10 => GOp::DirectInsert(gen_t3(r)), _ => GOp::DirectRemove(gen_t3(r)),
    }
}

// ---------- generation of the widened alphabet ----------
fn gen_hop(r: &mut Rng) -> Hop { match r.below(6) { 0 => Hop::Union, 1 | 2 => Hop::PUnion(gen_gd(r)), _ => Hop::Graph(gen_g(r)) } }
/// a hop taken from a graph-as-dataset view: only the default graph is inhabited there
fn gen_hop_nested(r: &mut Rng) -> Hop {
    match r.below(8) { 0 | 1 => Hop::Union, 2 => Hop::PUnion(gen_gd(r)), 3 => Hop::PUnion(GD::OneOf(vec![None, gen_g(r)])), 4 => Hop::PUnion(GD::NotOneOf(vec![None])), 5 | 6 => Hop::Graph(None), _ => Hop::Graph(gen_g(r)) }
}
fn gen_path(r: &mut Rng, graph_store: bool) -> Vec<Hop> {
    let n = match r.below(20) { 0..=9 => 0, 10..=16 => 1, _ => 2 };
    (0..n).map(|k| if k == 0 && !graph_store { gen_hop(r) } else { gen_hop_nested(r) }).collect()
}
fn one(x: Tid) -> MD { MD::OneOf(vec![x]) }
fn gen_gobs(r: &mut Rng, known: &[Q4]) -> GObs {
    let hit = if !known.is_empty() && r.chance(2, 3) { Some(r.pick(known).0) } else { None };
    match r.below(12) {
        0 | 1 => GObs::Matching(gen_md(r), gen_md(r), gen_md(r)),
        2 => match hit { Some(t) => GObs::Matching(one(t[0]), if r.chance(1, 2) { MD::Any } else { one(t[1]) }, one(t[2])), None => GObs::Matching(gen_md(r), gen_md(r), gen_md(r)) },
        3 => GObs::All,
        4 | 5 => GObs::Contains(hit.unwrap_or_else(|| gen_t3(r))),
        6 | 7 => GObs::Terms(r.below(3) as u8),
        _ => GObs::Atoms(r.below(5) as u64),
    }
}
fn gen_dobs(r: &mut Rng, known: &[Q4], nested: bool) -> DObs {
    let hit = if !known.is_empty() && r.chance(2, 3) { Some(*r.pick(known)) } else { None };
    match r.below(12) {
        0 | 1 => DObs::Matching(gen_md(r), gen_md(r), gen_md(r), gen_gd(r)),
        2 => match hit { Some((t, g)) => DObs::Matching(one(t[0]), one(t[1]), one(t[2]), if r.chance(1, 2) { GD::OneOf(vec![g]) } else { GD::OneOf(vec![None, gen_g(r)]) }), None => DObs::Matching(gen_md(r), gen_md(r), gen_md(r), gen_gd(r)) },
        3 => DObs::All,
        4 | 5 => { let (t, g) = hit.unwrap_or_else(|| (gen_t3(r), gen_g(r))); DObs::Contains((t, if nested && r.chance(2, 3) { None } else { g })) }
        6 | 7 => DObs::Terms(r.below(4) as u8),
        _ => DObs::Atoms(r.below(5) as u64),
    }
}
fn gen_gs(r: &mut Rng, graph_store: bool, n: usize) -> Vec<Option<Tid>> {
    (0..n).map(|k| if k == 0 { if graph_store { None } else { gen_g(r) } } else if r.chance(2, 3) { None } else { gen_g_nested(r) }).collect()
}
fn gen_items(r: &mut Rng, known: &[Q4], quads: bool, nested: bool) -> Vec<Q4> {
    (0..r.range(1, 5)).map(|_| {
        let t = if !known.is_empty() && r.chance(1, 2) { r.pick(known).0 } else { gen_t3(r) };
        (t, if !quads { None } else if nested { if r.chance(4, 5) { None } else if generalized() { gen_g_nested(r) } else { Some(12) } } else { gen_g(r) })
    }).collect()
}
/// one operation of the widened alphabet; `known` approximates what has been inserted so far
fn gen_xop(r: &mut Rng, known: &mut Vec<Q4>, graph_store: bool) -> Op {
    let (how, dr) = (r.below(256) as u8, r.below(5) as u8);
    match r.below(27) {
        24..=26 => {
            // a bulk mutation through a view (or on the store) whose source fails: the items re-yield statements that are already
            // there (in the graph addressed, in another graph) more often than not
            let ins = r.chance(3, 5);
            let (n, quads) = if graph_store { *r.pick(&[(1, false), (1, true), (1, true), (2, false), (2, true)]) } else { *r.pick(&[(0, true), (1, false), (1, false), (1, false), (1, true), (1, true), (2, false), (2, true)]) };
            let mut gs = gen_gs(r, graph_store, n);
            // aim at a graph that is known to hold something
            if !graph_store && n > 0 && !known.is_empty() && r.chance(2, 3) { gs[0] = r.pick(known).1 }
            let mut items = gen_items(r, known, quads, n > 0);
            let here: Vec<Q4> = known.iter().filter(|q| n == 0 || q.1 == gs[0]).cloned().collect();
            if !here.is_empty() { for it in items.iter_mut() { if r.chance(1, 2) { let q = *r.pick(&here); *it = (q.0, if n == 0 { q.1 } else { it.1 }) } } }
            let fail_at = r.below(items.len() + 1);
            if ins { for (t, g) in &items[..fail_at] { let mut full = gs.clone(); if quads { full.push(*g) } match lands(&full) { Some(g0) => known.push((*t, g0)), None => break } } }
            if ins { Op::InsAllF { gs, quads, items, fail_at, how } } else { Op::RemAllF { gs, quads, items, fail_at, how } }
        }
        0..=5 => { let path = gen_path(r, graph_store); let hop = if path.is_empty() && !graph_store { gen_hop(r) } else { gen_hop_nested(r) }; Op::GObs { path, hop, how, obs: gen_gobs(r, known), dr } }
        6..=9 => { let path = gen_path(r, graph_store); let nested = graph_store || !path.is_empty(); Op::DObs { path, how, obs: gen_dobs(r, known, nested), dr } }
        10..=14 => {
            let depth = match r.below(10) { 0..=4 => 1, 5..=8 => 2, _ => 3 }; let gs = gen_gs(r, graph_store, depth);
            let t = if !known.is_empty() && r.chance(1, 3) { r.pick(known).0 } else { gen_t3(r) };
            if let Some(g) = lands(&gs) { known.push((t, g)) }
            Op::Ins { gs, t, how }
        }
        15..=17 => {
            let (t, g) = if !known.is_empty() && r.chance(2, 3) { *r.pick(known) } else { (gen_t3(r), gen_g(r)) };
            let depth = match r.below(10) { 0..=4 => 1, 5..=8 => 2, _ => 3 }; let mut gs = gen_gs(r, graph_store, depth);
            if !graph_store && r.chance(3, 4) { gs[0] = g }
            Op::Rem { gs, t, how }
        }
        18 | 19 => {
            // dataset stores: directly (no name), through graph_mut(g) (triples), through graph_mut(g).as_dataset_mut() (quads), one level deeper
            let (n, quads) = if graph_store { *r.pick(&[(1, false), (1, true), (1, true), (2, false), (2, true)]) } else { *r.pick(&[(0, true), (1, false), (1, false), (1, true), (1, true), (2, false), (2, true)]) };
            let gs = gen_gs(r, graph_store, n);
            let items = gen_items(r, known, quads, n > 0);
            for (t, g) in &items { let mut full = gs.clone(); if quads { full.push(*g) } match lands(&full) { Some(g0) => known.push((*t, g0)), None => break } }
            Op::InsAll { gs, quads, items, how }
        }
        20 => {
            let (n, quads) = if graph_store { *r.pick(&[(1, false), (1, true), (2, false), (2, true)]) } else { *r.pick(&[(0, true), (1, false), (1, true), (2, false), (2, true)]) };
            Op::RemAll { gs: gen_gs(r, graph_store, n), quads, items: gen_items(r, known, quads, n > 0), how }
        }
        21 => Op::RemMatching { g: if graph_store { None } else { gen_g(r) }, m: (gen_md(r), gen_md(r), gen_md(r)), how },
        22 => Op::RetMatching { g: if graph_store { None } else { gen_g(r) }, m: (gen_md(r), if r.chance(1, 2) { MD::Any } else { gen_md(r) }, gen_md(r)), how },
        _ => if graph_store { Op::DObs { path: vec![], how, obs: DObs::All, dr } } else if r.chance(2, 3) { Op::DRemMatching(gen_md(r), gen_md(r), gen_md(r), gen_gd(r)) } else { Op::DRetMatching(gen_md(r), MD::Any, gen_md(r), if r.chance(1, 2) { GD::Any } else { gen_gd(r) }) },
    }
}
/// arm (mostly) or disarm the failure of the store's insert / remove
fn gen_budget(r: &mut Rng) -> Op { if r.chance(1, 6) { Op::SetBudget(None) } else { Op::SetBudget(Some((r.below(4), r.chance(1, 4)))) } }
/// the operation that follows the arming of the store: a BULK mutation through a view (or on the store) that makes several calls,
/// aimed at a graph that is known to hold something, so that the store fails half-way
fn gen_after_budget(r: &mut Rng, known: &mut Vec<Q4>, graph_store: bool) -> Op {
    let how = r.below(256) as u8;
    let g = if graph_store { None } else if !known.is_empty() && r.chance(3, 4) { r.pick(known).1 } else { gen_g(r) };
    let wide = |r: &mut Rng| if r.chance(2, 3) { MD::Any } else { gen_md(r) };
    match r.below(if graph_store { 6 } else { 9 }) {
        0 | 1 => Op::RemMatching { g, m: (wide(r), wide(r), wide(r)), how },
        2 => Op::RetMatching { g, m: (gen_md(r), wide(r), gen_md(r)), how },
        3 | 4 => {
            let (n, quads) = if graph_store { *r.pick(&[(1, false), (1, true), (2, false), (2, true)]) } else { *r.pick(&[(0, true), (1, false), (1, false), (1, true), (2, false), (2, true)]) };
            let mut gs = gen_gs(r, graph_store, n); if n > 0 && !graph_store { gs[0] = g }
            let items: Vec<Q4> = (0..r.range(2, 5)).map(|_| (if !known.is_empty() && r.chance(1, 2) { r.pick(known).0 } else { gen_t3(r) }, if quads && n == 0 { gen_g(r) } else { None })).collect();
            // NB: `known` over-approximates (the store may fail before the last item)
            for (t, gi) in &items { let mut full = gs.clone(); if quads { full.push(*gi) } if let Some(g0) = lands(&full) { known.push((*t, g0)) } }
            if r.chance(1, 4) { let fail_at = r.below(items.len() + 1); Op::InsAllF { gs, quads, items, fail_at, how } } else { Op::InsAll { gs, quads, items, how } }
        }
        5 => {
            let (n, quads) = if graph_store { *r.pick(&[(1, false), (1, true), (2, false)]) } else { *r.pick(&[(0, true), (1, false), (1, false), (1, true), (2, false)]) };
            let mut gs = gen_gs(r, graph_store, n); if n > 0 && !graph_store { gs[0] = g }
            let here: Vec<Q4> = known.iter().filter(|q| n == 0 || q.1 == g).cloned().collect();
            let items: Vec<Q4> = (0..r.range(2, 5)).map(|_| if !here.is_empty() && r.chance(3, 4) { let q = *r.pick(&here); (q.0, if quads && n == 0 { q.1 } else { None }) } else { (gen_t3(r), None) }).collect();
            if r.chance(1, 4) { let fail_at = r.below(items.len() + 1); Op::RemAllF { gs, quads, items, fail_at, how } } else { Op::RemAll { gs, quads, items, how } }
        }
        6 => Op::VRemoveMatching(g, wide(r), wide(r), wide(r)),
        7 => Op::DRemMatching(wide(r), wide(r), wide(r), if r.chance(1, 2) { GD::Any } else { gen_gd(r) }),
        _ => Op::DRetMatching(gen_md(r), MD::Any, gen_md(r), if r.chance(1, 2) { GD::Any } else { gen_gd(r) }),
    }
}
/// a plan of read errors for a store of about `n` statements: one to three errors, at the very start, among the first
/// statements, anywhere, at the very end; several of them may share a place
fn gen_plan(r: &mut Rng, n: usize) -> Plan {
    let k = match r.below(6) { 0..=2 => 1, 3 | 4 => 2, _ => 3 };
    (0..k).map(|i| (match r.below(5) { 0 => 0, 1 | 2 => r.below(n / 2 + 1), 3 => r.below(n + 1), _ => 1000 }, 20 + i as u64)).collect()
}
/// an observation that keeps the complete sequence of items, through any view and by any method
fn gen_seq_obs(r: &mut Rng, known: &[Q4], graph_store: bool) -> Op {
    let (how, dr) = (r.below(256) as u8, r.below(5) as u8);
    let path = gen_path(r, graph_store);
    if r.chance(2, 3) {
        let hop = if path.is_empty() && !graph_store { gen_hop(r) } else { gen_hop_nested(r) };
        let obs = if r.chance(1, 3) { GObs::All } else { gen_gobs(r, known) };
        Op::Seq(Box::new(Op::GObs { path, hop, how, obs, dr }))
    } else {
        let nested = graph_store || !path.is_empty();
        let obs = if r.chance(1, 3) { DObs::All } else { gen_dobs(r, known, nested) };
        Op::Seq(Box::new(Op::DObs { path, how, obs, dr }))
    }
}
/// one operation while a plan of read errors is in force: mostly observations of complete sequences, single insertions and
/// removals through views in between (they do not enumerate the store), a new plan, the end of the phase
fn gen_seq_phase(r: &mut Rng, known: &mut Vec<Q4>, graph_store: bool, plan_on: &mut bool) -> Op {
    let how = r.below(256) as u8;
    match r.below(20) {
        0 | 1 => { *plan_on = false; Op::SetErrs(vec![]) }
        2 | 3 => Op::SetErrs(gen_plan(r, known.len())),
        4..=6 => {
            let depth = match r.below(10) { 0..=5 => 1, 6..=8 => 2, _ => 3 }; let gs = gen_gs(r, graph_store, depth);
            let t = if !known.is_empty() && r.chance(1, 3) { r.pick(known).0 } else { gen_t3(r) };
            if let Some(g) = lands(&gs) { known.push((t, g)) }
            Op::Ins { gs, t, how }
        }
        7 => {
            let (t, g) = if !known.is_empty() && r.chance(2, 3) { *r.pick(known) } else { (gen_t3(r), gen_g(r)) };
            let depth = match r.below(10) { 0..=5 => 1, 6..=8 => 2, _ => 3 }; let mut gs = gen_gs(r, graph_store, depth);
            if !graph_store && r.chance(3, 4) { gs[0] = g }
            Op::Rem { gs, t, how }
        }
        _ => gen_seq_obs(r, known, graph_store),
    }
}
/// did this operation go through a view (and not straight to the store)?
fn through_view(op: &Op, graph_store: bool) -> bool {
    match op {
        Op::VInsert(..) | Op::VRemove(..) | Op::VRemoveMatching(..) | Op::VRetainMatching(..) => true,
        Op::Ins { gs, how, .. } | Op::Rem { gs, how, .. } => gs.len() > 1 || if graph_store { how % 4 == 3 } else { how % 8 >= 3 },
        Op::InsAll { gs, quads, .. } | Op::RemAll { gs, quads, .. } | Op::InsAllF { gs, quads, .. } | Op::RemAllF { gs, quads, .. } => if graph_store { gs.len() > 1 || *quads } else { !gs.is_empty() },
        Op::RemMatching { .. } | Op::RetMatching { .. } => !graph_store,
        _ => false,
    }
}

// ---------- Coq printing ----------
fn c_t3(t: &T3) -> String { format!("(mkT {} {} {})", t[0], t[1], t[2]) }
fn c_g(g: &Option<Tid>) -> String { coq_opt(g.map(|g| g.to_string())) }
fn c_q4(q: &Q4) -> String { format!("(mkQ {} {})", c_t3(&q.0), c_g(&q.1)) }
fn c_md(m: &MD) -> String { match m { MD::Any => "MAny".into(), MD::OneOf(l) => format!("(MOneOf {})", coq_list(l.iter().map(|x| x.to_string()))), MD::NotOneOf(l) => format!("(MNotOneOf {})", coq_list(l.iter().map(|x| x.to_string()))) } }
fn c_gd(m: &GD) -> String { match m { GD::Any => "GAny".into(), GD::OneOf(l) => format!("(GOneOf {})", coq_list(l.iter().map(c_g))), GD::NotOneOf(l) => format!("(GNotOneOf {})", coq_list(l.iter().map(c_g))) } }
fn c_op(o: &Op) -> String {
    match o {
        Op::DInsert(q) => format!("DInsert {}", c_q4(q)), Op::DRemove(q) => format!("DRemove {}", c_q4(q)),
        Op::VInsert(g, t) => format!("VInsert {} {}", c_g(g), c_t3(t)), Op::VRemove(g, t) => format!("VRemove {} {}", c_g(g), c_t3(t)),
        Op::QUnion(s, p, o) => format!("QUnion {} {} {}", c_md(s), c_md(p), c_md(o)),
        Op::QPUnion(g, s, p, o) => format!("QPUnion {} {} {} {}", c_gd(g), c_md(s), c_md(p), c_md(o)),
        Op::QGraph(g, s, p, o) => format!("QGraph {} {} {} {}", c_g(g), c_md(s), c_md(p), c_md(o)),
        Op::QGraphAll(g) => format!("QGraphAll {}", c_g(g)), Op::QUnionAll => "QUnionAll".into(),
        Op::QPUnionAll(g) => format!("QPUnionAll {}", c_gd(g)),
        Op::QDirect(s, p, o, g) => format!("QDirect {} {} {} {}", c_md(s), c_md(p), c_md(o), c_gd(g)),
        Op::VRemoveMatching(g, s, p, o) => format!("VRemoveMatching {} {} {} {}", c_g(g), c_md(s), c_md(p), c_md(o)),
        Op::VRetainMatching(g, s, p, o) => format!("VRetainMatching {} {} {} {}", c_g(g), c_md(s), c_md(p), c_md(o)),
        Op::QUnionAtoms(k) => format!("QUnionAtoms {k}"), Op::QGraphAtoms(g, k) => format!("QGraphAtoms {} {k}", c_g(g)),
        Op::CUnion(..) | Op::CPUnion(..) | Op::CGraph(..) => unreachable!("printed in the widened alphabet"),
        _ => unreachable!("printed in the widened alphabet"),
    }
}
fn c_hop(h: &Hop) -> String { match h { Hop::Union => "HUnion".into(), Hop::PUnion(g) => format!("(HPUnion {})", c_gd(g)), Hop::Graph(g) => format!("(HGraph {})", c_g(g)) } }
fn c_gobs(o: &GObs) -> String {
    match o { GObs::Matching(s, p, ob) => format!("(GOMatching {} {} {})", c_md(s), c_md(p), c_md(ob)), GObs::All => "GOAll".into(), GObs::Contains(t) => format!("(GOContains {})", c_t3(t)),
              GObs::Terms(k) => format!("(GOTerms {k})"), GObs::Atoms(k) => format!("(GOAtoms {k})") }
}
fn c_dobs(o: &DObs) -> String {
    match o { DObs::Matching(s, p, ob, g) => format!("(DOMatching {} {} {} {})", c_md(s), c_md(p), c_md(ob), c_gd(g)), DObs::All => "DOAll".into(), DObs::Contains(q) => format!("(DOContains {})", c_q4(q)),
              DObs::Terms(k) => format!("(DOTerms {k})"), DObs::Atoms(k) => format!("(DOAtoms {k})") }
}
fn c_gs(gs: &[Option<Tid>]) -> String { coq_list(gs.iter().map(c_g)) }
fn c_items(gs: &[Option<Tid>], quads: bool, items: &[Q4]) -> String {
    coq_list(items.iter().map(|(t, g)| { let mut full = gs.to_vec(); if quads { full.push(*g) } format!("({}, {})", c_gs(&full), c_t3(t)) }))
}
/// an operation of a mixed history, in the model's two alphabets
fn c_hop_op(o: &Op) -> String {
    match o {
        Op::CUnion(t) => format!("HNew (XGObs [] HUnion (GOContains {}))", c_t3(t)),
        Op::CPUnion(g, t) => format!("HNew (XGObs [] (HPUnion {}) (GOContains {}))", c_gd(g), c_t3(t)),
        Op::CGraph(g, t) => format!("HNew (XGObs [] (HGraph {}) (GOContains {}))", c_g(g), c_t3(t)),
        Op::GObs { path, hop, obs, .. } => format!("HNew (XGObs {} {} {})", coq_list(path.iter().map(c_hop)), c_hop(hop), c_gobs(obs)),
        Op::DObs { path, obs, .. } => format!("HNew (XDObs {} {})", coq_list(path.iter().map(c_hop)), c_dobs(obs)),
        Op::Ins { gs, t, .. } => format!("HNew (XIns {} {})", c_gs(gs), c_t3(t)),
        Op::Rem { gs, t, .. } => format!("HNew (XRem {} {})", c_gs(gs), c_t3(t)),
        Op::InsAll { gs, quads, items, .. } => format!("HNew (XInsAll {})", c_items(gs, *quads, items)),
        Op::RemAll { gs, quads, items, .. } => format!("HNew (XRemAll {})", c_items(gs, *quads, items)),
        Op::RemMatching { g, m, .. } => format!("HNew (XRemMatching {} {} {} {})", c_g(g), c_md(&m.0), c_md(&m.1), c_md(&m.2)),
        Op::RetMatching { g, m, .. } => format!("HNew (XRetMatching {} {} {} {})", c_g(g), c_md(&m.0), c_md(&m.1), c_md(&m.2)),
        Op::DRemMatching(s, p, ob, g) => format!("HNew (XDRemMatching {} {} {} {})", c_md(s), c_md(p), c_md(ob), c_gd(g)),
        Op::DRetMatching(s, p, ob, g) => format!("HNew (XDRetMatching {} {} {} {})", c_md(s), c_md(p), c_md(ob), c_gd(g)),
        old => format!("HOld ({})", c_op(old)),
    }
}
fn c_xout(o: &Out) -> String {
    match o {
        Out::Has(b) => format!("XO (OFlag {})", coq_bool(*b)),
        Out::OnlyDefault => "XOnlyDefault".into(),
        Out::Err(_) | Out::SrcErr | Out::SinkErr | Out::After(..) | Out::SeqT(..) | Out::SeqQ(..) | Out::SeqTerms(..) | Out::Seq(..) => "XOnlyDefault; XOnlyDefault".into(), // an error never matches the model: length differs
        o => format!("XO ({})", c_out(o)),
    }
}
fn c_out(o: &Out) -> String {
    match o {
        Out::Flag(b) => format!("OFlag {}", coq_bool(*b)),
        Out::Triples(l) => format!("OTriples {}", coq_list(l.iter().map(c_t3))),
        Out::Quads(l) => format!("OQuads {}", coq_list(l.iter().map(c_q4))),
        Out::Count(n) => format!("OCount {n}"), Out::Terms(l) => format!("OTerms {}", coq_list(l.iter().map(|x| x.to_string()))),
        Out::Has(_) | Out::OnlyDefault => unreachable!(),
        Out::Err(_) | Out::SrcErr | Out::SinkErr | Out::After(..) | Out::SeqT(..) | Out::SeqQ(..) | Out::SeqTerms(..) | Out::Seq(..) => "OFlag true; OFlag false".into(), // an error never matches the model: length differs
    }
}
// ---------- the complete sequences (ModelSeq.v) ----------
fn c_it<X>(i: &It<X>, f: impl Fn(&X) -> String) -> String { match i { Ok(x) => format!("IOk {}", f(x)), Err(code) => format!("IErr {code}") } }
fn c_plan(p: &Plan) -> String { coq_list(p.iter().map(|(pos, code)| format!("({pos}, {code})"))) }
/// the answer of an Op::Seq
fn c_qout(o: &Out) -> String {
    match o {
        Out::SeqT(l) => format!("QT {}", coq_list(l.iter().map(|i| c_it(i, c_t3)))),
        Out::SeqQ(l) => format!("QQ {}", coq_list(l.iter().map(|i| c_it(i, c_q4)))),
        Out::SeqTerms(set, errs) => format!("QTerms {}", coq_list(set.iter().map(|x| format!("IOk {x}")).chain(errs.iter().map(|e| format!("IErr {e}"))))),
        Out::Flag(b) => format!("QFlag {}", coq_bool(*b)),
        Out::Err(e) if e.starts_with("MyErr(") => format!("QErr {}", code(e)),
        _ => "QNone".into(), // never equal to anything
    }
}
fn c_seq_xop(o: &Op) -> String {
    match o {
        Op::GObs { path, hop, obs, .. } => format!("(XGObs {} {} {})", coq_list(path.iter().map(c_hop)), c_hop(hop), c_gobs(obs)),
        Op::DObs { path, obs, .. } => format!("(XDObs {} {})", coq_list(path.iter().map(c_hop)), c_dobs(obs)),
        other => unreachable!("only observations are wrapped in Seq: {other:?}"),
    }
}
fn c_sout(o: &Out) -> String { match o { Out::Err(_) => "SX (EX XOnlyDefault); SX (EX XOnlyDefault)".into(), o => format!("SX ({})", c_eout(o)) } }
/// the matching removals as the model's xop (both alphabets): what EPartial is given
fn c_matching_xop(o: &Op) -> Option<String> {
    match o {
        Op::VRemoveMatching(g, s, p, ob) | Op::RemMatching { g, m: (s, p, ob), .. } => Some(format!("(XRemMatching {} {} {} {})", c_g(g), c_md(s), c_md(p), c_md(ob))),
        Op::VRetainMatching(g, s, p, ob) | Op::RetMatching { g, m: (s, p, ob), .. } => Some(format!("(XRetMatching {} {} {} {})", c_g(g), c_md(s), c_md(p), c_md(ob))),
        Op::DRemMatching(s, p, ob, g) => Some(format!("(XDRemMatching {} {} {} {})", c_md(s), c_md(p), c_md(ob), c_gd(g))),
        Op::DRetMatching(s, p, ob, g) => Some(format!("(XDRetMatching {} {} {} {})", c_md(s), c_md(p), c_md(ob), c_gd(g))),
        _ => None,
    }
}
/// an operation of a history with error paths (ModelErr.v); `removed` = what a matching removal that failed half-way took out
fn c_eop(o: &Op, removed: &Option<Vec<Q4>>) -> String {
    match (o, removed) {
        (Op::InsAllF { gs, quads, items, fail_at, .. }, _) => format!("EInsAllF {} {fail_at}", c_items(gs, *quads, items)),
        (Op::RemAllF { gs, quads, items, fail_at, .. }, _) => format!("ERemAllF {} {fail_at}", c_items(gs, *quads, items)),
        (Op::SetBudget(b), _) => format!("ESetBudget {}", coq_opt(b.map(|(k, sticky)| format!("({k}, {})", coq_bool(sticky))))),
        (o, Some(rm)) => format!("EPartial {} {}", c_matching_xop(o).expect("only matching removals fail half-way"), coq_list(rm.iter().map(c_q4))),
        (o, None) => format!("EH ({})", c_hop_op(o)),
    }
}
fn c_eout(o: &Out) -> String {
    match o {
        Out::SrcErr => "ESrcErr".into(), Out::SinkErr => "ESinkErr".into(),
        Out::Err(_) => "EX XOnlyDefault; EX XOnlyDefault".into(), // an error never matches the model: length differs
        Out::After(..) => unreachable!("split by the caller"),
        o => format!("EX ({})", c_xout(o)),
    }
}
/// the Coq case of a history: `xcase_ok` (Model.v) when it has no error path, `ecase_ok` (ModelErr.v) otherwise; an answer that
/// comes with the content of the store is given to the model as the operation followed by quads() on the store
fn c_case(bag: Kind, graph_store: bool, init: &[Q4], ops: &[Op], outs: &[Out], exp: &[Out], partial: &[Option<Vec<Q4>>]) -> String {
    // the model has no failing ENUMERATIONS: the operations that are EXPECTED to report that injected error (they leave the
    // state alone) and the switches are left out of the Coq case; an unexpected error stays in and disagrees
    let injected = |o: &Out| match o { Out::After(x, _) => **x == Out::Err("MyErr(7)".into()), x => *x == Out::Err("MyErr(7)".into()) };
    let keep: Vec<usize> = (0..ops.len()).filter(|k| !matches!(ops[*k], Op::SetFail(..)) && !injected(&exp[*k])).collect();
    let sk = match bag { Kind::Set => "SSet", Kind::BagAll => "SBagAll", Kind::BagOne => "SBagOne" };
    let errs = ops.iter().any(|o| matches!(o, Op::InsAllF { .. } | Op::RemAllF { .. } | Op::SetBudget(..)));
    if ops.iter().any(|o| matches!(o, Op::SetErrs(..) | Op::Seq(..))) {
        // scase_ok (ModelSeq.v): the histories of ModelErr.v, the plans of read errors, and the observations of complete sequences,
        // each given with the store's own enumeration at that time
        let (mut cops, mut couts) = (vec![], vec![]);
        for k in keep {
            match (&ops[k], &outs[k]) {
                (Op::SetErrs(p), x) => { cops.push(format!("SSetErrs {}", c_plan(p))); couts.push(c_sout(x)); }
                (Op::Seq(inner), Out::Seq(view, own)) => { cops.push(format!("SSeq {} {}", coq_list(own.iter().map(|i| c_it(i, c_q4))), c_seq_xop(inner))); couts.push(format!("SQ ({})", c_qout(view))); }
                (Op::Seq(inner), _) => { cops.push(format!("SSeq [] {}", c_seq_xop(inner))); couts.push("SQ QNone".into()); }
                (o, x) => {
                    let half = if matches!(&exp[k], Out::After(x, _) if **x == Out::SinkErr) { &partial[k] } else { &None };
                    cops.push(format!("SE ({})", c_eop(o, half)));
                    match x {
                        Out::After(x, st) => { couts.push(c_sout(x)); cops.push("SE (EH (HNew (XDObs [] DOAll)))".into()); couts.push(format!("SX (EX (XO (OQuads {})))", coq_list(st.iter().map(c_q4)))); }
                        x => couts.push(c_sout(x)),
                    }
                }
            }
        }
        return format!("scase_ok {sk} {} the_pool {} {} {}", coq_bool(graph_store), coq_list(init.iter().map(c_q4)), coq_list(cops), coq_list(couts));
    }
    if !errs {
        return format!("xcase_ok {sk} the_pool {} {} {}", coq_list(init.iter().map(c_q4)), coq_list(keep.iter().map(|k| c_hop_op(&ops[*k]))), coq_list(keep.iter().map(|k| c_xout(&outs[*k]))));
    }
    let (mut cops, mut couts) = (vec![], vec![]);
    for k in keep {
        // a matching removal is printed as EPartial iff the ORACLE says it failed half-way
        let half = if matches!(&exp[k], Out::After(x, _) if **x == Out::SinkErr) { &partial[k] } else { &None };
        cops.push(c_eop(&ops[k], half));
        match &outs[k] {
            Out::After(x, st) => { couts.push(c_eout(x)); cops.push("EH (HNew (XDObs [] DOAll))".into()); couts.push(format!("EX (XO (OQuads {}))", coq_list(st.iter().map(c_q4)))); }
            x => couts.push(c_eout(x)),
        }
    }
    format!("ecase_ok {sk} the_pool {} {} {}", coq_list(init.iter().map(c_q4)), coq_list(cops), coq_list(couts))
}
fn c_gop(o: &GOp) -> String {
    match o {
        GOp::Insert(q) => format!("GInsert {}", c_q4(q)), GOp::Remove(q) => format!("GRemove {}", c_q4(q)),
        GOp::Contains(q) => format!("GContains {}", c_q4(q)),
        GOp::Query(s, p, o, g) => format!("GQuery {} {} {} {}", c_md(s), c_md(p), c_md(o), c_gd(g)),
        GOp::RemoveAll(..) | GOp::InsertAll(..) => unreachable!("bulk operations are given to Coq through their expansion"),
        GOp::All => "GAll".into(), GOp::DirectInsert(t) => format!("GDirectInsert {}", c_t3(t)), GOp::DirectRemove(t) => format!("GDirectRemove {}", c_t3(t)),
    }
}
fn c_gout(o: &GOut) -> String {
    match o {
        GOut::Ok(b) => format!("GORes (GadOk {})", coq_bool(*b)), GOut::OnlyDefault => "GORes GadOnlyDefaultGraph".into(),
        GOut::Bool(b) => format!("GOBool {}", coq_bool(*b)), GOut::Quads(l) => format!("GOQuads {}", coq_list(l.iter().map(c_q4))),
        GOut::Count(_) => unreachable!(),
        GOut::Err(_) => "GOBool true; GOBool false".into(),
    }
}

const DS_STORES: [&str; 11] = ["FastDataset", "LightDataset", "small::FastDataset", "small::LightDataset", "HashSet<Spog>", "BTreeSet<Spog>", "HashSet<Gspo>", "BTreeSet<Gspo>", "Vec<Spog>", "Vec<Gspo>", "Flaky(BTreeSet<Spog>)"];
const GR_STORES: [&str; 6] = ["FastGraph", "LightGraph", "small::FastGraph", "small::LightGraph", "HashSet<[T;3]>", "BTreeSet<[T;3]>"];
const GX_STORES: [&str; 8] = ["FastGraph", "LightGraph", "small::FastGraph", "small::LightGraph", "HashSet<[T;3]>", "BTreeSet<[T;3]>", "Vec<[T;3]>", "Flaky(BTreeSet<[T;3]>)"];
/// histogram of the routes taken by the widened operations
fn bump_routes(sum: &mut Summary, o: &Op) {
    let hk = |h: &Hop| match h { Hop::Union => "union", Hop::PUnion(_) => "punion", Hop::Graph(None) => "graph(default)", Hop::Graph(Some(_)) => "graph(named)" };
    match o {
        Op::GObs { path, hop, obs, dr, how } => {
            sum.bump(&format!("graph view:{}{}{}", path.first().map_or(String::new(), |h| format!("{}.as_dataset.", hk(h))), if path.len() == 2 { "[one more hop].as_dataset." } else { "" }, hk(hop)));
            if path.is_empty() { sum.bump(&format!("graph view route:{}", how % 7)) }
            sum.bump(&format!("gobs:{}", format!("{obs:?}").split('(').next().unwrap())); sum.bump(&format!("drain:{dr}"));
        }
        Op::DObs { path, obs, .. } => {
            sum.bump(&format!("dataset view:{}", match path.len() { 0 => "store".to_string(), n => format!("{}.as_dataset{}", hk(&path[0]), if n == 2 { ".[one more hop].as_dataset" } else { "" }) }));
            sum.bump(&format!("dobs:{}", format!("{obs:?}").split('(').next().unwrap()));
        }
        Op::Ins { gs, .. } | Op::Rem { gs, .. } => { sum.bump(&format!("mutation depth:{} {}", gs.len(), if lands(gs).is_some() { "lands" } else { "named graph of a graph view" })); }
        Op::InsAll { gs, quads, .. } | Op::RemAll { gs, quads, .. } => { sum.bump(&format!("bulk depth:{} {}", gs.len(), if *quads { "quads" } else { "triples" })); }
        Op::InsAllF { gs, quads, items, fail_at, .. } | Op::RemAllF { gs, quads, items, fail_at, .. } => {
            sum.bump(&format!("failing source, bulk depth:{} {}", gs.len(), if *quads { "quads" } else { "triples" }));
            sum.bump(&format!("failing source: fails {}", if *fail_at == 0 { "at once" } else if *fail_at >= items.len() { "after the last item" } else { "half-way" }));
        }
        _ => {}
    }
}
/// the answer itself, without the content of the store that may come with it
fn plain(o: &Out) -> &Out { match o { Out::After(x, _) => x, x => x } }
fn after_note(exp: Option<&Out>, partial: Option<&Option<Vec<Q4>>>) -> String {
    match (exp, partial) {
        (Some(Out::After(..)), Some(Some(_))) => " (answer, then the content of the store right after the call; the store failed half-way: ANY choice of that many victims is accepted, the one shown is an example)".into(),
        (Some(Out::After(..)), _) => " (answer, then the content of the store right after the call: it must be what the elementary operations up to the failure produce)".into(),
        _ => String::new(),
    }
}
/// histogram of the error paths that were really taken
fn bump_errors(sum: &mut Summary, ops: &[Op], exp: &[Out]) {
    for (o, x) in ops.iter().zip(exp.iter()) {
        if let Out::After(x, _) = x {
            let what = match **x { Out::SrcErr => "the source failed", Out::SinkErr => "the store's insert/remove failed", Out::OnlyDefault => "a named graph of a graph view was addressed", Out::Err(_) => "the store's enumeration failed", _ => "no error" };
            sum.bump(&format!("error path:{}: {what}", op_name(o)));
        }
    }
}
/// histogram of the complete sequences that were really observed: where the errors sat, and what followed them
fn bump_seq(sum: &mut Summary, ops: &[Op], exp: &[Out]) {
    for (o, x) in ops.iter().zip(exp.iter()) {
        if let (Op::Seq(inner), Out::Seq(view, own)) = (o, x) {
            let n_err = own.iter().filter(|i| i.is_err()).count();
            sum.bump(&format!("complete sequence: the store's enumeration has {} error item(s)", n_err.min(3)));
            if n_err > 0 {
                let first = own.iter().position(|i| i.is_err()).unwrap(); let last = own.iter().rposition(|i| i.is_err()).unwrap();
                if first == 0 { sum.bump("complete sequence: the store's enumeration STARTS with an error") }
                if own[first..].iter().any(|i| i.is_ok()) { sum.bump("complete sequence: statements FOLLOW an error in the store's enumeration") }
                if last + 1 == own.len() { sum.bump("complete sequence: the store's enumeration ENDS with an error") }
            }
            let follow = |v: &[bool]| v.iter().position(|e| *e).map_or(false, |k| v[k..].iter().any(|e| !*e));
            let shape: Option<Vec<bool>> = match &**view { Out::SeqT(l) => Some(l.iter().map(|i| i.is_err()).collect()), Out::SeqQ(l) => Some(l.iter().map(|i| i.is_err()).collect()), _ => None };
            let what = match &**inner { Op::GObs { hop, path, obs, .. } => format!("{}{} {}", if path.is_empty() { "" } else { "view of view, " }, match hop { Hop::Union => "union", Hop::PUnion(_) => "partial union", Hop::Graph(_) => "one graph" }, format!("{obs:?}").split('(').next().unwrap().to_lowercase()),
                                         Op::DObs { path, obs, .. } => format!("{} {}", if path.is_empty() { "dataset (the store / the graph store as a dataset)" } else { "graph view as a dataset" }, format!("{obs:?}").split('(').next().unwrap().to_lowercase()), _ => String::new() };
            sum.bump(&format!("complete sequence through:{what}"));
            match (&**view, shape) {
                (_, Some(sh)) if follow(&sh) => sum.bump(&format!("complete sequence, items FOLLOW an error in the view's answer:{what}")),
                (Out::SeqTerms(_, e), _) if !e.is_empty() => sum.bump(&format!("complete sequence, errors relayed in an enumeration of terms:{what}")),
                (Out::Err(_), _) => sum.bump(&format!("complete sequence, contains() answers with the error:{what}")),
                _ => {}
            }
        }
    }
}
fn op_name(o: &Op) -> String { format!("{o:?}").split(|ch| ch == '(' || ch == ' ').next().unwrap().to_string() }

fn main() {
    let a = parse_args();
    let ctx = Ctx { pool: c11_pool(), notes: Default::default() };
    assert_eq!(ctx.pool.len() as u64, NT);
    let mut sum = Summary::default();
    sum.rule = "case = (store type, initial content, history of 1..40 mixed ops applied alternately through the store and through views, in two alphabets: the first one and the widened one \
(views of views, every provided method of Graph/Dataset/MutableGraph/MutableDataset through every view type and route, bulk mutations, iterator consumption modes)); case index mod 4: 0 and 2 = a dataset store \
(11 types: the in-memory ones, Hash/BTreeSet of Spog and Gspo, two Vec-backed bags, one whose enumerations fail on demand), 1 = a graph-as-dataset history in the first alphabet, \
3 = a graph store (8 types, one a bag, one failing on demand) driven through GraphAsDataset in the widened alphabet; \
every other case of each kind is about a GENERALIZED dataset (graph names that are literals, variables, quoted triples, with terms occurring nowhere else, in every matcher / view / mutation); \
error paths: insert_all / remove_all through every mutable view from a source that fails after k items (re-yielding quads already present in that graph or another one), and on the flaky stores \
an insert / remove that fails at the (k+1)-th call (once or for ever) under every mutation incl. remove_matching / retain_matching through views: the answer is compared together with the content of the store right after the call; \
read errors in the MIDDLE of the store's enumerations (flaky stores): plans of 1..3 error items at the start / among the first statements / anywhere / at the end, \
and observations that keep the complete sequence of Ok / Err items of every enumeration and pattern method of every view (views of views included, every route and way of consuming the iterator), \
compared item by item with the store's own enumeration filtered by the oracle (enumerations of terms: set of terms and sequence of error codes), with single mutations through views in between; \
non-trivial = at least one mutation through a view that changes the store AND at least one non-empty query result; distinct = distinct (store, init, ops) after printing".into();
    let mut cases: Vec<(usize, String)> = vec![];
    let mut seen = HashSet::new();
    let base = Rng::new(a.seed);
    let range: Vec<usize> = match a.only { Some(i) => vec![i], None => (0..a.n).collect() };
    for idx in range {
        let mut r = base.fork(idx as u64);
        let nops = r.range(1, 40);
        let ninit = r.below(9);
        // every other case of each kind is about a GENERALIZED dataset: graph names that are literals, variables, quoted triples
        GENERALIZED.with(|g| g.set(if idx % 2 == 0 { idx % 4 == 2 } else { (idx / 4) % 2 == 1 }));
        sum.bump(if generalized() { "graph names:of every kind of term (generalized dataset)" } else { "graph names:IRIs and blank nodes" });
        if idx % 2 == 0 {
            let store = match r.below(13) { x if x < 11 => x, _ => 10 };
            let bag = match store { 8 => Kind::BagAll, 9 => Kind::BagOne, _ => Kind::Set };
            let mut init: Vec<Q4> = (0..ninit).map(|_| (gen_t3(&mut r), gen_g(&mut r))).collect();
            // triples shared by several graphs (a union view then shows them several times)
            for k in 0..init.len() { if r.chance(1, 3) { let t = init[k].0; init.push((t, gen_g(&mut r))); } }
            // state-aware generation: `known` approximates the quads inserted so far (removals ignored)
            let mut known: Vec<Q4> = init.clone();
            let mut fail_now = false; let mut just_armed = false; let mut plan_on = false;
            let ops: Vec<Op> = (0..nops).map(|_| {
                // read errors in the middle of the store's enumerations (Op::SetErrs / Op::Seq)
                if store == 10 && plan_on { return gen_seq_phase(&mut r, &mut known, false, &mut plan_on) }
                if store == 10 && !fail_now && r.chance(1, 6) { plan_on = true; return Op::SetErrs(gen_plan(&mut r, known.len())) }
                if store == 10 && !fail_now && r.chance(1, 12) { return gen_seq_obs(&mut r, &known, false) }
                if store == 10 && r.chance(1, if fail_now { 4 } else { 8 }) { fail_now = !fail_now; return Op::SetFail(fail_now) }
                if store == 10 && just_armed { just_armed = false; if r.chance(3, 4) { return gen_after_budget(&mut r, &mut known, false) } }
                if store == 10 && r.chance(1, 5) { let o = gen_budget(&mut r); just_armed = matches!(o, Op::SetBudget(Some(_))); return o }
                if r.chance(1, 2) { return gen_xop(&mut r, &mut known, false) }
                if !known.is_empty() && r.chance(1, 6) {
                    let (t, g) = *r.pick(&known);
                    match r.below(11) {
                        // the same triple in another graph, directly or through a view
                        0 => { let q = (t, gen_g(&mut r)); known.push(q); Op::DInsert(q) }
                        1 => { let g2 = gen_g(&mut r); known.push((t, g2)); Op::VInsert(g2, t) }
                        // fully bound patterns on a triple that exists (possibly in several graphs)
                        2 => Op::QUnion(one(t[0]), one(t[1]), one(t[2])),
                        3 => Op::QPUnion(if r.chance(1, 2) { GD::Any } else { GD::OneOf(vec![g, gen_g(&mut r)]) }, one(t[0]), one(t[1]), one(t[2])),
                        4 => Op::QGraph(g, one(t[0]), one(t[1]), one(t[2])),
                        5 => Op::QDirect(one(t[0]), one(t[1]), one(t[2]), gen_gd(&mut r)),
                        6 => Op::VRemove(gen_g(&mut r), t),
                        7 => Op::CUnion(t),
                        8 | 9 => Op::CPUnion(match r.below(4) { 0 => GD::Any, 1 => GD::OneOf(vec![None, g]), 2 => GD::OneOf(vec![g, gen_g(&mut r)]), _ => gen_gd(&mut r) }, t),
                        _ => Op::CGraph(if r.chance(2, 3) { g } else { gen_g(&mut r) }, t),
                    }
                } else { let o = gen_op(&mut r); match &o { Op::DInsert(q) => known.push(*q), Op::VInsert(g, t) => known.push((*t, *g)), _ => {} } o }
            }).collect();
            let outs = match store {
                0 => run_ds_fast(&ctx, &init, &ops, &mut r),
                1 => run_ds_light(&ctx, &init, &ops, &mut r),
                2 => run_ds_sfast(&ctx, &init, &ops, &mut r),
                3 => run_ds_slight(&ctx, &init, &ops, &mut r),
                4 => run_ds_hs(&ctx, &init, &ops, &mut r),
                5 => run_ds_bt(&ctx, &init, &ops, &mut r),
                6 => run_ds_hsg(&ctx, &init, &ops, &mut r),
                7 => run_ds_btg(&ctx, &init, &ops, &mut r),
                8 => run_ds_vec(&ctx, &init, &ops, &mut r),
                9 => run_ds_vecg(&ctx, &init, &ops, &mut r),
                _ => run_ds_flaky(&ctx, &init, &ops, &mut r),
            };
            let (exp, partial) = oracle_ds(&init, &ops, bag, false, &outs);
            let text = format!("{} init={:?} ops={:?}", DS_STORES[store], init, ops);
            if a.only.is_some() { println!("CASE {idx}: {text}\nIMPL   {outs:?}\nORACLE {exp:?}"); }
            if outs != exp {
                let k = outs.iter().zip(exp.iter()).position(|(x, y)| x != y).unwrap_or(0);
                sum.oracle_failures.push((idx.to_string(), format!("store={} op#{k} {:?}: implementation returned {:?}, a plain {} store gives {:?}{}; full case: {text}", DS_STORES[store], ops.get(k), outs.get(k), format!("{bag:?}"), exp.get(k), after_note(exp.get(k), partial.get(k)))));
            }
            let changed = ops.iter().zip(outs.iter()).any(|(o, x)| { let x = plain(x); through_view(o, false) && (*x == Out::Flag(true) && !matches!(o, Op::VRetainMatching(..) | Op::RetMatching { .. }) || matches!(x, Out::Count(n) if *n > 0)) });
            let nonempty = outs.iter().any(|x| matches!(x, Out::Triples(l) if !l.is_empty()) || matches!(x, Out::Quads(l) if !l.is_empty()));
            if seen.insert(text.clone()) && changed && nonempty { sum.distinct_nontrivial += 1; }
            sum.bump(&format!("store:{}", DS_STORES[store]));
            for o in &ops { sum.bump(&format!("op:{}", op_name(o))); bump_routes(&mut sum, o); }
            bump_errors(&mut sum, &ops, &exp); bump_seq(&mut sum, &ops, &exp);
            if sum.samples.len() < 3 { sum.samples.push(format!("case {idx}: {text} => {outs:?}")); }
            cases.push((idx, c_case(bag, false, &init, &ops, &outs, &exp, &partial)));
        } else if idx % 4 == 3 {
            // a graph store behind GraphAsDataset, widened alphabet: the state is the dataset whose default graph is the store
            let store = r.below(8);
            let bag = if store == 6 { Kind::BagAll } else { Kind::Set };
            let init: Vec<Q4> = (0..ninit).map(|_| (gen_t3(&mut r), None)).collect();
            let mut known: Vec<Q4> = init.clone();
            let mut fail_now = false; let mut just_armed = false; let mut plan_on = false;
            let ops: Vec<Op> = (0..nops).map(|_| {
                if store == 7 && plan_on { return gen_seq_phase(&mut r, &mut known, true, &mut plan_on) }
                if store == 7 && !fail_now && r.chance(1, 6) { plan_on = true; return Op::SetErrs(gen_plan(&mut r, known.len())) }
                if store == 7 && !fail_now && r.chance(1, 12) { return gen_seq_obs(&mut r, &known, true) }
                if store == 7 && r.chance(1, if fail_now { 4 } else { 8 }) { fail_now = !fail_now; return Op::SetFail(fail_now) }
                if store == 7 && just_armed { just_armed = false; if r.chance(3, 4) { return gen_after_budget(&mut r, &mut known, true) } }
                if store == 7 && r.chance(1, 5) { let o = gen_budget(&mut r); just_armed = matches!(o, Op::SetBudget(Some(_))); return o }
                gen_xop(&mut r, &mut known, true)
            }).collect();
            let outs = match store {
                0 => run_gr_fast(&ctx, &init, &ops, &mut r),
                1 => run_gr_light(&ctx, &init, &ops, &mut r),
                2 => run_gr_sfast(&ctx, &init, &ops, &mut r),
                3 => run_gr_slight(&ctx, &init, &ops, &mut r),
                4 => run_gr_hs(&ctx, &init, &ops, &mut r),
                5 => run_gr_bt(&ctx, &init, &ops, &mut r),
                6 => run_gr_vec(&ctx, &init, &ops, &mut r),
                _ => run_gr_flaky(&ctx, &init, &ops, &mut r),
            };
            let (exp, partial) = oracle_ds(&init, &ops, bag, true, &outs);
            let text = format!("as_dataset of {} init={:?} ops={:?}", GX_STORES[store], init, ops);
            if a.only.is_some() { println!("CASE {idx}: {text}\nIMPL   {outs:?}\nORACLE {exp:?}"); }
            if outs != exp {
                let k = outs.iter().zip(exp.iter()).position(|(x, y)| x != y).unwrap_or(0);
                sum.oracle_failures.push((idx.to_string(), format!("store=as_dataset of {} op#{k} {:?}: implementation returned {:?}, a plain {} store gives {:?}{}; full case: {text}", GX_STORES[store], ops.get(k), outs.get(k), format!("{bag:?}"), exp.get(k), after_note(exp.get(k), partial.get(k)))));
            }
            let changed = ops.iter().zip(outs.iter()).any(|(o, x)| { let x = plain(x); through_view(o, true) && (*x == Out::Flag(true) || matches!(x, Out::Count(n) if *n > 0)) });
            let nonempty = outs.iter().any(|x| matches!(x, Out::Triples(l) if !l.is_empty()) || matches!(x, Out::Quads(l) if !l.is_empty()));
            if seen.insert(text.clone()) && changed && nonempty { sum.distinct_nontrivial += 1; }
            sum.bump(&format!("store:as_dataset of {}", GX_STORES[store]));
            for o in &ops { sum.bump(&format!("xop:{}", op_name(o))); bump_routes(&mut sum, o); }
            bump_errors(&mut sum, &ops, &exp); bump_seq(&mut sum, &ops, &exp);
            if sum.samples.len() < 4 { sum.samples.push(format!("case {idx}: {text} => {outs:?}")); }
            cases.push((idx, c_case(bag, true, &init, &ops, &outs, &exp, &partial)));
        } else {
            let store = r.below(6);
            let init: Vec<T3> = (0..ninit).map(|_| gen_t3(&mut r)).collect();
            let ops: Vec<GOp> = (0..nops).map(|_| gen_gop(&mut r)).collect();
            let outs = match store {
                0 => run_gad::<sophia_inmem::graph::FastGraph>(&ctx, &init, &ops, &mut r),
                1 => run_gad::<sophia_inmem::graph::LightGraph>(&ctx, &init, &ops, &mut r),
                2 => run_gad::<sophia_inmem::graph::small::FastGraph>(&ctx, &init, &ops, &mut r),
                3 => run_gad::<sophia_inmem::graph::small::LightGraph>(&ctx, &init, &ops, &mut r),
                4 => run_gad::<HashSet<[ST; 3]>>(&ctx, &init, &ops, &mut r),
                _ => run_gad::<BTreeSet<[ST; 3]>>(&ctx, &init, &ops, &mut r),
            };
            let (exp, prim) = oracle_gad(&init, &ops);
            let text = format!("GraphAsDataset<{}> init={:?} ops={:?}", GR_STORES[store], init, ops);
            if a.only.is_some() { println!("CASE {idx}: {text}\nIMPL   {outs:?}\nORACLE {exp:?}"); }
            if outs != exp {
                let k = outs.iter().zip(exp.iter()).position(|(x, y)| x != y).unwrap_or(0);
                sum.oracle_failures.push((idx.to_string(), format!("store=GraphAsDataset<{}> op#{k} {:?}: implementation returned {:?}, a plain set gives {:?}; full case: {text}", GR_STORES[store], ops.get(k), outs.get(k), exp.get(k))));
            }
            let changed = ops.iter().zip(outs.iter()).any(|(o, x)| (matches!(o, GOp::Insert(..) | GOp::Remove(..)) && *x == GOut::Ok(true)) || matches!(x, GOut::Count(n) if *n > 0));
            let nonempty = outs.iter().any(|x| matches!(x, GOut::Quads(l) if !l.is_empty()));
            if seen.insert(text.clone()) && changed && nonempty { sum.distinct_nontrivial += 1; }
            sum.bump(&format!("store:GraphAsDataset<{}>", GR_STORES[store]));
            for o in &ops { sum.bump(&format!("gop:{}", format!("{o:?}").split('(').next().unwrap())); }
            if sum.samples.len() < 3 { sum.samples.push(format!("case {idx}: {text} => {outs:?}")); }
            // for Coq: single operations with the implementation's outputs; bulk operations through their expansion into
            // single operations (flags from the plain-set oracle): the model then has to agree on every LATER observation
            let (mut cops, mut couts) = (vec![], vec![]);
            for (k, op) in ops.iter().enumerate() {
                if matches!(op, GOp::RemoveAll(..) | GOp::InsertAll(..)) { for (o, x) in &prim[k] { cops.push(c_gop(o)); couts.push(c_gout(x)); } }
                else { cops.push(c_gop(op)); couts.push(c_gout(&outs[k])); }
            }
            cases.push((idx, format!("gcase_ok {} {} {}", coq_list(init.iter().map(c_t3)), coq_list(cops), coq_list(couts))));
        }
        sum.evaluations += 1;
    }
    for (k, v) in ctx.notes.borrow().iter() { sum.bump_by(k, *v); }
    if a.only.is_none() {
        let pool_def = format!("From Sophia.C11 Require Import Model ModelErr ModelSeq.\nDefinition the_pool : pool := {}.", coq_list((1..=NT).map(|i| { let (k, at, tc) = pool_info(i); format!("({i}, ({k}, {}, {}))", coq_list(at.iter().map(|x| x.to_string())), coq_list(tc.iter().map(|x| x.to_string()))) })));
        sum.shards = write_shards(&a.out, &pool_def, &cases, a.shards);
        std::fs::write(format!("{}/summary.json", a.out), sum.to_json()).unwrap();
    }
    println!("c11: {} cases, {} distinct non-trivial, {} oracle failures", sum.evaluations, sum.distinct_nontrivial, sum.oracle_failures.len());
}
