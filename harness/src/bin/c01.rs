//! C01: every shipped in-memory graph/dataset behaves like a mathematical set (vectors: list) of
//! quads, checked against the Coq model (coq/C01/Model.v) and against a naive oracle, over mixed
//! histories using every shipped matcher implementation.
//!
//! Entry points exercised besides the trait methods called on the store itself: the inherent `new()` and `Default`,
//! `from_quad_source` / `from_triple_source` / `collect_quads` / `collect_triples` of every store type (also from failing
//! sources and into a full term index), `Clone` (the hand-written one of `SimpleTermIndex`), the forwarding impls of
//! `Dataset`/`Graph` for `&T` and `&mut T` and of `MutableDataset`/`MutableGraph` for `&mut T`, the `[Q]` / `[T]` slice
//! impls, `insert_quad`/`remove_quad`/`insert_triple`/`remove_triple` with every shipped quad/triple shape, bulk operations
//! on failing sources, `usize` as index type, and `SimpleTermIndex` used directly through `TermIndex`/`GraphNameIndex`
//! (every twentieth case, checked by `ti_case_ok`).
//!
//! Matchers reach the store in two ways: wrapped in the harness enums `TMK`/`GMK` (any mix of shipped matcher types in one
//! call, but the store sees one type that forwards `matches`/`constant` only), or `direct`: the position(s) named by
//! `QM::direct` hand over the shipped type itself (`[T; N]`, `&[T]`, `Option<T>`, `Any`, `TermKind`, `Not<_>`, `dyn Fn`,
//! `DatatypeMatcher`, `LanguageTagMatcher`, `(S, P, O)`, `TermMatcherGn<_>`, ...), so that anything a store derives from
//! the static type of a matcher is exercised (store types without capacity limit; see `direct_d!`/`direct_g!`). Every
//! tenth case is a directed history about enumeration matchers (`gen_directed_enum`).
use sophia_api::dataset::{CollectibleDataset, DTerm};
use sophia_api::graph::{CollectibleGraph, GTerm};
use sophia_api::prelude::*;
use sophia_api::quad::{Gspo, Spog};
use sophia_api::source::IntoSource;
use sophia_api::term::matcher::{
    DatatypeMatcher, GraphNameMatcher, LanguageTagMatcher, Not, TermMatcher, TermMatcherGn,
};
use sophia_api::term::{GraphName, LanguageTag, SimpleTerm};
use sophia_api::source::StreamError;
use sophia_inmem::index::{GraphNameIndex, Index, SimpleTermIndex, TermIndex};
use std::collections::{BTreeSet, HashSet};
use verif_harness::*;

type Tid = u64;
type Q4 = (Tid, Tid, Tid, Option<Tid>);
const NT: u64 = 16; // pool size

// ---------- matcher descriptions (what Coq sees) ----------
#[derive(Clone, Debug, PartialEq)]
enum MD { Any, Const(Tid), OneOf(Vec<Tid>), NotOneOf(Vec<Tid>) }
#[derive(Clone, Debug, PartialEq)]
enum GD { Any, Const(Option<Tid>), OneOf(Vec<Option<Tid>>), NotOneOf(Vec<Option<Tid>>) }

struct Ctx { pool: Vec<Vec<ST>> }
impl Ctx {
    fn term(&self, id: Tid, r: &mut Rng) -> ST { r.pick(&self.pool[(id - 1) as usize]).clone() }
    fn id<T: Term>(&self, t: T) -> Tid { class_id(&self.pool, t) }
    fn quad(&self, q: &Q4, r: &mut Rng) -> (ST, ST, ST, Option<ST>) {
        (self.term(q.0, r), self.term(q.1, r), self.term(q.2, r), q.3.map(|g| self.term(g, r)))
    }
}

// ---------- custom matchers (as in c11) ----------
/// mode 0: anything, 1: one of `terms`, 2: none of `terms`
struct TM { mode: u8, terms: Vec<ST> }
impl TermMatcher for TM {
    type Term = ST;
    fn matches<T2: Term + ?Sized>(&self, term: &T2) -> bool {
        let hit = self.terms.iter().any(|m| Term::eq(m, term.borrow_term()));
        match self.mode { 0 => true, 1 => hit, _ => !hit }
    }
    fn constant(&self) -> Option<&ST> {
        if self.mode == 1 && self.terms.len() == 1 { Some(&self.terms[0]) } else { None }
    }
}
struct GM { mode: u8, names: Vec<Option<ST>> }
impl GraphNameMatcher for GM {
    type Term = ST;
    fn matches<T2: Term + ?Sized>(&self, g: GraphName<&T2>) -> bool {
        let hit = self.names.iter().any(|m| match (m, g) {
            (None, None) => true,
            (Some(a), Some(b)) => Term::eq(a, b.borrow_term()),
            _ => false,
        });
        match self.mode { 0 => true, 1 => hit, _ => !hit }
    }
    fn constant(&self) -> Option<GraphName<&ST>> {
        if self.mode == 1 && self.names.len() == 1 { Some(self.names[0].as_ref()) } else { None }
    }
}

// ---------- one harness enum per position type, delegating to the REAL sophia matchers ----------
type TClo = Box<dyn Fn(SimpleTerm<'_>) -> bool>;
type GClo = Box<dyn Fn(GraphName<SimpleTerm<'_>>) -> bool>;
enum TMK {
    Any(Any),
    Opt(Option<ST>),
    Arr1([ST; 1]),
    Arr2([ST; 2]),
    Arr3([ST; 3]),
    Slice(&'static [ST]), // the `&[T]` matcher (leaked so that constant() can borrow from it)
    Kind(TermKind),
    NotArr1(Not<[ST; 1]>),
    NotArr2(Not<[ST; 2]>),
    NotKind(Not<TermKind>),
    NotM(Box<Not<TMK>>),
    Closure(TClo),
    Datatype(DatatypeMatcher<String>),
    Lang(LanguageTagMatcher<String>),
    Triple3(Box<(TMK, TMK, TMK)>),
    Custom(TM),
}
impl TermMatcher for TMK {
    type Term = ST;
    fn matches<T2: Term + ?Sized>(&self, t: &T2) -> bool {
        match self {
            TMK::Any(m) => TermMatcher::matches(m, t),
            TMK::Opt(m) => TermMatcher::matches(m, t),
            TMK::Arr1(m) => TermMatcher::matches(m, t),
            TMK::Arr2(m) => TermMatcher::matches(m, t),
            TMK::Arr3(m) => TermMatcher::matches(m, t),
            TMK::Slice(m) => TermMatcher::matches(m, t),
            TMK::Kind(m) => TermMatcher::matches(m, t),
            TMK::NotArr1(m) => TermMatcher::matches(m, t),
            TMK::NotArr2(m) => TermMatcher::matches(m, t),
            TMK::NotKind(m) => TermMatcher::matches(m, t),
            TMK::NotM(m) => TermMatcher::matches(&**m, t),
            TMK::Closure(m) => TermMatcher::matches(&**m, t),
            TMK::Datatype(m) => TermMatcher::matches(m, t),
            TMK::Lang(m) => TermMatcher::matches(m, t),
            TMK::Triple3(m) => TermMatcher::matches(&**m, t),
            TMK::Custom(m) => TermMatcher::matches(m, t),
        }
    }
    fn constant(&self) -> Option<&ST> {
        match self {
            TMK::Any(m) => TermMatcher::constant(m),
            TMK::Opt(m) => TermMatcher::constant(m),
            TMK::Arr1(m) => TermMatcher::constant(m),
            TMK::Arr2(m) => TermMatcher::constant(m),
            TMK::Arr3(m) => TermMatcher::constant(m),
            TMK::Slice(m) => TermMatcher::constant(m),
            TMK::Kind(m) => TermMatcher::constant(m),
            TMK::NotArr1(m) => TermMatcher::constant(m),
            TMK::NotArr2(m) => TermMatcher::constant(m),
            TMK::NotKind(m) => TermMatcher::constant(m),
            TMK::NotM(m) => TermMatcher::constant(&**m),
            TMK::Closure(m) => TermMatcher::constant(&**m),
            TMK::Datatype(m) => TermMatcher::constant(m),
            TMK::Lang(m) => TermMatcher::constant(m),
            TMK::Triple3(m) => TermMatcher::constant(&**m),
            TMK::Custom(m) => TermMatcher::constant(m),
        }
    }
}
enum GMK {
    Any(Any),
    Opt(Option<Option<ST>>),
    Arr1([GraphName<ST>; 1]),
    Arr2([GraphName<ST>; 2]),
    Slice(&'static [GraphName<ST>]),
    Kind(Option<TermKind>),
    Gn(TermMatcherGn<TMK>),
    Not(Box<Not<GMK>>),
    Closure(GClo),
    OptTriple(Option<(TMK, TMK, TMK)>),
    Custom(GM),
}
impl GraphNameMatcher for GMK {
    type Term = ST;
    fn matches<T2: Term + ?Sized>(&self, g: GraphName<&T2>) -> bool {
        match self {
            GMK::Any(m) => GraphNameMatcher::matches(m, g),
            GMK::Opt(m) => GraphNameMatcher::matches(m, g),
            GMK::Arr1(m) => GraphNameMatcher::matches(m, g),
            GMK::Arr2(m) => GraphNameMatcher::matches(m, g),
            GMK::Slice(m) => GraphNameMatcher::matches(m, g),
            GMK::Kind(m) => GraphNameMatcher::matches(m, g),
            GMK::Gn(m) => GraphNameMatcher::matches(m, g),
            GMK::Not(m) => GraphNameMatcher::matches(&**m, g),
            GMK::Closure(m) => GraphNameMatcher::matches(&**m, g),
            GMK::OptTriple(m) => GraphNameMatcher::matches(m, g),
            GMK::Custom(m) => GraphNameMatcher::matches(m, g),
        }
    }
    fn constant(&self) -> Option<GraphName<&ST>> {
        match self {
            GMK::Any(m) => GraphNameMatcher::constant(m),
            GMK::Opt(m) => GraphNameMatcher::constant(m),
            GMK::Arr1(m) => GraphNameMatcher::constant(m),
            GMK::Arr2(m) => GraphNameMatcher::constant(m),
            GMK::Slice(m) => GraphNameMatcher::constant(m),
            GMK::Kind(m) => GraphNameMatcher::constant(m),
            GMK::Gn(m) => GraphNameMatcher::constant(m),
            GMK::Not(m) => GraphNameMatcher::constant(&**m),
            GMK::Closure(m) => GraphNameMatcher::constant(&**m),
            GMK::OptTriple(m) => GraphNameMatcher::constant(m),
            GMK::Custom(m) => GraphNameMatcher::constant(m),
        }
    }
}

/// a real matcher, its derived description and a printable label
struct TMatch { m: TMK, d: MD, label: String }
struct GMatch { m: GMK, d: GD, label: String }

/// RULE: Const(c) iff constant() is Some(c); otherwise the exact extension over the pool classes
fn describe_t(c: &Ctx, m: &TMK, label: &str) -> MD {
    let mut ext: Vec<Tid> = vec![];
    for (i, class) in c.pool.iter().enumerate() {
        let hits: Vec<bool> = class.iter().map(|t| TermMatcher::matches(m, t)).collect();
        assert!(hits.iter().all(|h| *h == hits[0]), "matcher {label} is not invariant under Term::eq on class {}", i + 1);
        if hits[0] { ext.push((i + 1) as Tid) }
    }
    match TermMatcher::constant(m) {
        Some(k) => {
            let k = c.id(k);
            assert!(ext == vec![k], "matcher {label}: constant {k} but extension {ext:?}");
            MD::Const(k)
        }
        None => {
            if ext.len() as u64 == NT { MD::Any }
            else if ext.len() <= 8 { MD::OneOf(ext) }
            else { MD::NotOneOf((1..=NT).filter(|i| !ext.contains(i)).collect()) }
        }
    }
}
fn describe_g(c: &Ctx, m: &GMK, label: &str) -> GD {
    let mut ext: Vec<Option<Tid>> = vec![];
    if GraphNameMatcher::matches(m, None::<&ST>) { ext.push(None) }
    for (i, class) in c.pool.iter().enumerate() {
        let hits: Vec<bool> = class.iter().map(|t| GraphNameMatcher::matches(m, Some(t))).collect();
        assert!(hits.iter().all(|h| *h == hits[0]), "graph matcher {label} is not invariant under Term::eq on class {}", i + 1);
        if hits[0] { ext.push(Some((i + 1) as Tid)) }
    }
    match GraphNameMatcher::constant(m) {
        Some(k) => {
            let k = k.map(|t| c.id(t));
            assert!(ext == vec![k], "graph matcher {label}: constant {k:?} but extension {ext:?}");
            GD::Const(k)
        }
        None => {
            let all: Vec<Option<Tid>> = std::iter::once(None).chain((1..=NT).map(Some)).collect();
            if ext.len() == all.len() { GD::Any }
            else if ext.len() <= 8 { GD::OneOf(ext) }
            else { GD::NotOneOf(all.into_iter().filter(|i| !ext.contains(i)).collect()) }
        }
    }
}
fn tmatch(c: &Ctx, (m, label): (TMK, String)) -> TMatch { let d = describe_t(c, &m, &label); TMatch { m, d, label } }
fn gmatch(c: &Ctx, (m, label): (GMK, String)) -> GMatch { let d = describe_g(c, &m, &label); GMatch { m, d, label } }

// ---------- generation of real matchers ----------
fn leak<T>(v: Vec<T>) -> &'static [T] { Box::leak(v.into_boxed_slice()) }
const KINDS: [TermKind; 5] = [TermKind::Iri, TermKind::Literal, TermKind::BlankNode, TermKind::Triple, TermKind::Variable];
fn pick_id(r: &mut Rng, cands: &[Tid]) -> Tid {
    if !cands.is_empty() && r.chance(3, 4) { *r.pick(cands) } else { 1 + r.below(NT as usize) as u64 }
}
fn pick_gid(r: &mut Rng, cands: &[Option<Tid>]) -> Option<Tid> {
    if !cands.is_empty() && r.chance(3, 4) { *r.pick(cands) } else { *r.pick(&[None, Some(12), Some(4), Some(13), Some(1), Some(7)]) }
}
fn g_txt(g: &Option<Tid>) -> String { match g { None => "D".into(), Some(x) => x.to_string() } }

/// a matcher with a constant
fn gen_const_t(c: &Ctx, r: &mut Rng, id: Tid) -> (TMK, String) {
    let t = c.term(id, r);
    match r.below(4) {
        0 => (TMK::Opt(Some(t)), format!("Some({id})")),
        1 => (TMK::Arr1([t]), format!("[{id}]")),
        2 => (TMK::Slice(leak(vec![t])), format!("&[{id}][..]")),
        _ => (TMK::Custom(TM { mode: 1, terms: vec![t] }), format!("TM-oneof[{id}]")),
    }
}
fn gen_tclo(c: &Ctx, r: &mut Rng, cands: &[Tid]) -> (TClo, String) {
    match r.below(5) {
        0 => { let k = *r.pick(&KINDS); (Box::new(move |t: SimpleTerm<'_>| Term::kind(&t) == k), format!("|t| kind=={k:?}")) }
        1 => (Box::new(|t: SimpleTerm<'_>| t.lexical_form().is_some_and(|l| &*l == "lit")), "|t| lex==lit".into()),
        2 => { let id = pick_id(r, cands); let target = c.term(id, r); (Box::new(move |t: SimpleTerm<'_>| Term::eq(&t, target.borrow_term())), format!("|t| t eq {id}")) }
        3 => (Box::new(|t: SimpleTerm<'_>| t.iri().is_some_and(|i| i.as_str().ends_with('a') || i.as_str().ends_with("g1"))), "|t| iri ends a|g1".into()),
        _ => (Box::new(|t: SimpleTerm<'_>| !t.is_literal() && !t.is_triple()), "|t| !literal && !triple".into()),
    }
}
/// component matcher of a quoted-triple matcher
fn gen_inner_t(c: &Ctx, r: &mut Rng, cands: &[Tid], depth: usize) -> (TMK, String) {
    match r.below(4) {
        0 | 1 => (TMK::Any(Any), "Any".into()),
        2 => { let id = *r.pick(&[1, 3, 4, 7, 15, 16]); gen_const_t(c, r, id) }
        _ => gen_free_t(c, r, cands, depth + 1),
    }
}
/// a matcher without constant
fn gen_free_t(c: &Ctx, r: &mut Rng, cands: &[Tid], depth: usize) -> (TMK, String) {
    match r.below(22) {
        0..=5 => (TMK::Any(Any), "Any".into()),
        6 => (TMK::Opt(None), "None".into()),
        7 | 8 => { let (a, b) = (pick_id(r, cands), pick_id(r, cands)); (TMK::Arr2([c.term(a, r), c.term(b, r)]), format!("[{a},{b}]")) }
        9 => { let (a, b, d) = (pick_id(r, cands), pick_id(r, cands), pick_id(r, cands)); (TMK::Arr3([c.term(a, r), c.term(b, r), c.term(d, r)]), format!("[{a},{b},{d}]")) }
        10 | 11 => {
            let n = *r.pick(&[0usize, 2, 3]);
            let ids: Vec<Tid> = (0..n).map(|_| pick_id(r, cands)).collect();
            (TMK::Slice(leak(ids.iter().map(|i| c.term(*i, r)).collect())), format!("&{ids:?}[..]"))
        }
        12 => { let k = *r.pick(&KINDS); (TMK::Kind(k), format!("{k:?}")) }
        13 => { let a = pick_id(r, cands); (TMK::NotArr1(Not([c.term(a, r)])), format!("Not([{a}])")) }
        14 => { let (a, b) = (pick_id(r, cands), pick_id(r, cands)); (TMK::NotArr2(Not([c.term(a, r), c.term(b, r)])), format!("Not([{a},{b}])")) }
        15 => { let k = *r.pick(&KINDS); (TMK::NotKind(Not(k)), format!("Not({k:?})")) }
        16 => {
            let (m, l) = if depth >= 2 || r.chance(1, 2) { let id = pick_id(r, cands); gen_const_t(c, r, id) } else { gen_free_t(c, r, cands, depth + 1) };
            (TMK::NotM(Box::new(Not(m))), format!("Not({l})"))
        }
        17 => { let (f, l) = gen_tclo(c, r, cands); (TMK::Closure(f), l) }
        18 => {
            let dt = r.ps(&["http://www.w3.org/2001/XMLSchema#string", "http://www.w3.org/2001/XMLSchema#integer", "http://www.w3.org/1999/02/22-rdf-syntax-ns#langString"]);
            (TMK::Datatype(DatatypeMatcher::new(IriRef::new_unchecked(dt.to_string()))), format!("Any*<{dt}>"))
        }
        19 => {
            let tag = r.ps(&["EN", "en", "fr-BE", "en-us", "En-Us", "de"]);
            (TMK::Lang(LanguageTagMatcher::new(LanguageTag::new_unchecked(tag.to_string()))), format!("Any*@{tag}"))
        }
        20 if depth < 2 => {
            let (s, ls) = gen_inner_t(c, r, cands, depth);
            let (p, lp) = gen_inner_t(c, r, cands, depth);
            let (o, lo) = gen_inner_t(c, r, cands, depth);
            (TMK::Triple3(Box::new((s, p, o))), format!("({ls}, {lp}, {lo})"))
        }
        20 => (TMK::Any(Any), "Any".into()),
        _ => {
            let (mode, n) = *r.pick(&[(0u8, 0usize), (1, 0), (1, 2), (1, 3), (2, 1), (2, 2)]);
            let ids: Vec<Tid> = (0..n).map(|_| pick_id(r, cands)).collect();
            (TMK::Custom(TM { mode, terms: ids.iter().map(|i| c.term(*i, r)).collect() }), format!("TM{mode}{ids:?}"))
        }
    }
}
fn gname(c: &Ctx, r: &mut Rng, g: Option<Tid>) -> Option<ST> { g.map(|g| c.term(g, r)) }
fn gen_const_g(c: &Ctx, r: &mut Rng, g: Option<Tid>) -> (GMK, String) {
    let t = g_txt(&g);
    match r.below(5) {
        0 => (GMK::Opt(Some(gname(c, r, g))), format!("Some({t})")),
        1 => (GMK::Arr1([gname(c, r, g)]), format!("[{t}]")),
        2 => (GMK::Slice(leak(vec![gname(c, r, g)])), format!("&[{t}][..]")),
        3 if g.is_some() => { let (m, l) = gen_const_t(c, r, g.unwrap()); (GMK::Gn(m.gn()), format!("{l}.gn()")) }
        3 => (GMK::Opt(Some(None)), "Some(D)".into()),
        _ => (GMK::Custom(GM { mode: 1, names: vec![gname(c, r, g)] }), format!("GM-oneof[{t}]")),
    }
}
fn gen_gclo(c: &Ctx, r: &mut Rng, cands: &[Option<Tid>]) -> (GClo, String) {
    match r.below(5) {
        0 => (Box::new(|g: GraphName<SimpleTerm<'_>>| g.is_some()), "|g| g.is_some()".into()),
        1 => (Box::new(|g: GraphName<SimpleTerm<'_>>| g.is_none()), "|g| g.is_none()".into()),
        2 => (Box::new(|g: GraphName<SimpleTerm<'_>>| g.is_some_and(|t| t.iri().is_some_and(|i| i.as_str().ends_with("g1")))), "|g| iri ends g1".into()),
        3 => (Box::new(|g: GraphName<SimpleTerm<'_>>| match g { None => true, Some(t) => t.is_blank_node() }), "|g| default or bnode".into()),
        _ => {
            let id = pick_gid(r, cands); let target = gname(c, r, id);
            (Box::new(move |g: GraphName<SimpleTerm<'_>>| match (&g, &target) { (None, None) => true, (Some(a), Some(b)) => Term::eq(a, b.borrow_term()), _ => false }), format!("|g| g eq {}", g_txt(&id)))
        }
    }
}
fn gen_free_g(c: &Ctx, r: &mut Rng, cands: &[Option<Tid>], depth: usize) -> (GMK, String) {
    let named: Vec<Tid> = cands.iter().filter_map(|g| *g).collect();
    match r.below(22) {
        0..=5 => (GMK::Any(Any), "Any".into()),
        6 => (GMK::Opt(None), "None".into()),
        7 | 8 => { let (a, b) = (pick_gid(r, cands), pick_gid(r, cands)); (GMK::Arr2([gname(c, r, a), gname(c, r, b)]), format!("[{},{}]", g_txt(&a), g_txt(&b))) }
        9 | 10 => {
            let n = *r.pick(&[0usize, 2, 3]);
            let ids: Vec<Option<Tid>> = (0..n).map(|_| pick_gid(r, cands)).collect();
            (GMK::Slice(leak(ids.iter().map(|i| gname(c, r, *i)).collect())), format!("&[{}][..]", ids.iter().map(g_txt).collect::<Vec<_>>().join(",")))
        }
        11 | 12 => { let k = *r.pick(&[None, None, Some(TermKind::Iri), Some(TermKind::BlankNode), Some(TermKind::Literal)]); (GMK::Kind(k), format!("{k:?}")) }
        13 | 14 => { let (m, l) = gen_free_t(c, r, &named, 1); (GMK::Gn(m.gn()), format!("{l}.gn()")) }
        15 | 16 => {
            let (m, l) = if depth >= 2 || r.chance(1, 2) { let g = pick_gid(r, cands); gen_const_g(c, r, g) } else { gen_free_g(c, r, cands, depth + 1) };
            (GMK::Not(Box::new(Not(m))), format!("Not({l})"))
        }
        17 | 18 => { let (f, l) = gen_gclo(c, r, cands); (GMK::Closure(f), l) }
        19 => {
            if r.chance(1, 2) { (GMK::OptTriple(None), "None::<(S,P,O)>".into()) } else {
                let (s, ls) = gen_inner_t(c, r, &named, 1);
                let (p, lp) = gen_inner_t(c, r, &named, 1);
                let (o, lo) = gen_inner_t(c, r, &named, 1);
                (GMK::OptTriple(Some((s, p, o))), format!("Some(({ls}, {lp}, {lo}))"))
            }
        }
        _ => {
            let (mode, n) = *r.pick(&[(0u8, 0usize), (1, 0), (1, 2), (1, 3), (2, 1), (2, 2)]);
            let ids: Vec<Option<Tid>> = (0..n).map(|_| pick_gid(r, cands)).collect();
            (GMK::Custom(GM { mode, names: ids.iter().map(|i| gname(c, r, *i)).collect() }), format!("GM{mode}[{}]", ids.iter().map(g_txt).collect::<Vec<_>>().join(",")))
        }
    }
}
fn tmk_kind(m: &TMK) -> &'static str {
    match m {
        TMK::Any(_) => "Any", TMK::Opt(Some(_)) => "Option:Some", TMK::Opt(None) => "Option:None", TMK::Arr1(_) => "[T;1]", TMK::Arr2(_) => "[T;2]", TMK::Arr3(_) => "[T;3]",
        TMK::Slice(s) => if s.len() == 1 { "&[T]:len1" } else { "&[T]" }, TMK::Kind(_) => "TermKind", TMK::NotArr1(_) => "Not<[T;1]>", TMK::NotArr2(_) => "Not<[T;2]>",
        TMK::NotKind(_) => "Not<TermKind>", TMK::NotM(_) => "Not<M>", TMK::Closure(_) => "closure", TMK::Datatype(_) => "DatatypeMatcher", TMK::Lang(_) => "LanguageTagMatcher",
        TMK::Triple3(_) => "(S,P,O)", TMK::Custom(t) => if t.mode == 1 && t.terms.len() == 1 { "custom:const" } else { "custom" },
    }
}
fn gmk_kind(m: &GMK) -> &'static str {
    match m {
        GMK::Any(_) => "Any", GMK::Opt(Some(_)) => "Option<Option>:Some", GMK::Opt(None) => "Option<Option>:None", GMK::Arr1(_) => "[G;1]", GMK::Arr2(_) => "[G;2]",
        GMK::Slice(s) => if s.len() == 1 { "&[G]:len1" } else { "&[G]" }, GMK::Kind(_) => "Option<TermKind>", GMK::Gn(_) => "TermMatcherGn", GMK::Not(_) => "Not<G>",
        GMK::Closure(_) => "closure", GMK::OptTriple(_) => "Option<(S,P,O)>", GMK::Custom(t) => if t.mode == 1 && t.names.len() == 1 { "custom:const" } else { "custom" },
    }
}

// ---------- operations and outputs ----------
/// `direct`: which position hands its REAL sophia matcher (the shipped type itself: `[T; N]`, `&[T]`, `Option<T>`, `Any`,
/// `TermKind`, `Not<_>`, a closure, ...) to the store, instead of the harness enum `TMK`/`GMK` (which forwards `matches` and
/// `constant` only, so that whatever else a store may learn from the static type of a matcher stays hidden behind it):
/// 0 none, 1 subject, 2 predicate, 3 object, 4 graph name, 5 every position (all of them in the family `fam_t`/`fam_g`:
/// `Any`, `[T; 2]`, `&[T]`)
struct QM { s: TMatch, p: TMatch, o: TMatch, g: GMatch, direct: u8 }
fn fam_t(m: &TMK) -> bool { matches!(m, TMK::Any(_) | TMK::Arr2(_) | TMK::Slice(_)) }
fn fam_g(m: &GMK) -> bool { matches!(m, GMK::Any(_) | GMK::Arr2(_) | GMK::Slice(_)) }
impl QM {
    fn all_fam(&self, isgraph: bool) -> bool { fam_t(&self.s.m) && fam_t(&self.p.m) && fam_t(&self.o.m) && (isgraph || fam_g(&self.g.m)) }
    /// draws how the matchers reach the store
    fn draw_direct(&mut self, r: &mut Rng, isgraph: bool) {
        self.direct = match r.below(8) {
            0..=2 => 0,
            3 | 4 if self.all_fam(isgraph) => 5,
            _ => 1 + r.below(if isgraph { 3 } else { 4 }) as u8,
        };
    }
}
/// evaluates `$body` with `$x` bound to the real sophia matcher held by the `&TMK` `$m` (by value where the type can be
/// cloned, otherwise behind `matcher_ref()`)
macro_rules! with_real_t { ($m:expr, |$x:ident| $body:expr) => { match $m {
    TMK::Any(m) => { let $x = *m; $body }
    TMK::Opt(m) => { let $x = m.clone(); $body }
    TMK::Arr1(m) => { let $x = m.clone(); $body }
    TMK::Arr2(m) => { let $x = m.clone(); $body }
    TMK::Arr3(m) => { let $x = m.clone(); $body }
    TMK::Slice(m) => { let $x: &[ST] = *m; $body }
    TMK::Kind(m) => { let $x = *m; $body }
    TMK::NotArr1(m) => { let $x = Not(m.0.clone()); $body }
    TMK::NotArr2(m) => { let $x = Not(m.0.clone()); $body }
    TMK::NotKind(m) => { let $x = Not(m.0); $body }
    TMK::NotM(m) => { let $x = (**m).matcher_ref(); $body }
    TMK::Closure(m) => { let $x = (**m).matcher_ref(); $body }
    TMK::Datatype(m) => { let $x = m.clone(); $body }
    TMK::Lang(m) => { let $x = m.clone(); $body }
    TMK::Triple3(m) => { let $x = (**m).matcher_ref(); $body }
    TMK::Custom(m) => { let $x = m.matcher_ref(); $body }
} }; }
macro_rules! with_real_g { ($m:expr, |$x:ident| $body:expr) => { match $m {
    GMK::Any(m) => { let $x = *m; $body }
    GMK::Opt(m) => { let $x = m.clone(); $body }
    GMK::Arr1(m) => { let $x = m.clone(); $body }
    GMK::Arr2(m) => { let $x = m.clone(); $body }
    GMK::Slice(m) => { let $x: &[GraphName<ST>] = *m; $body }
    GMK::Kind(m) => { let $x = *m; $body }
    GMK::Gn(m) => { let $x = m.matcher_ref(); $body }
    GMK::Not(m) => { let $x = (**m).matcher_ref(); $body }
    GMK::Closure(m) => { let $x = (**m).matcher_ref(); $body }
    GMK::OptTriple(m) => { let $x = m.matcher_ref(); $body }
    GMK::Custom(m) => { let $x = m.matcher_ref(); $body }
} }; }
/// the same for the family of `direct == 5`
macro_rules! with_fam_t { ($m:expr, |$x:ident| $body:expr) => { match $m {
    TMK::Any(m) => { let $x = *m; $body }
    TMK::Arr2(m) => { let $x = m.clone(); $body }
    TMK::Slice(m) => { let $x: &[ST] = *m; $body }
    _ => unreachable!("direct == 5 with a matcher outside the family"),
} }; }
macro_rules! with_fam_g { ($m:expr, |$x:ident| $body:expr) => { match $m {
    GMK::Any(m) => { let $x = *m; $body }
    GMK::Arr2(m) => { let $x = m.clone(); $body }
    GMK::Slice(m) => { let $x: &[GraphName<ST>] = *m; $body }
    _ => unreachable!("direct == 5 with a graph-name matcher outside the family"),
} }; }
/// `$call!(s, p, o, g)` with the matchers of the `&QM` `$m` bound as its `direct` field says (dataset flavour)
macro_rules! dispatch_d { ($m:expr, |$s:ident, $p:ident, $o:ident, $g:ident| $body:expr) => { match $m.direct {
    1 => { let ($p, $o, $g) = ($m.p.m.matcher_ref(), $m.o.m.matcher_ref(), $m.g.m.matcher_ref()); with_real_t!(&$m.s.m, |$s| $body) }
    2 => { let ($s, $o, $g) = ($m.s.m.matcher_ref(), $m.o.m.matcher_ref(), $m.g.m.matcher_ref()); with_real_t!(&$m.p.m, |$p| $body) }
    3 => { let ($s, $p, $g) = ($m.s.m.matcher_ref(), $m.p.m.matcher_ref(), $m.g.m.matcher_ref()); with_real_t!(&$m.o.m, |$o| $body) }
    4 => { let ($s, $p, $o) = ($m.s.m.matcher_ref(), $m.p.m.matcher_ref(), $m.o.m.matcher_ref()); with_real_g!(&$m.g.m, |$g| $body) }
    5 => with_fam_t!(&$m.s.m, |$s| with_fam_t!(&$m.p.m, |$p| with_fam_t!(&$m.o.m, |$o| with_fam_g!(&$m.g.m, |$g| $body)))),
    _ => { let ($s, $p, $o, $g) = ($m.s.m.matcher_ref(), $m.p.m.matcher_ref(), $m.o.m.matcher_ref(), $m.g.m.matcher_ref()); $body }
} }; }
/// graph flavour
macro_rules! dispatch_g { ($m:expr, |$s:ident, $p:ident, $o:ident| $body:expr) => { match $m.direct {
    1 => { let ($p, $o) = ($m.p.m.matcher_ref(), $m.o.m.matcher_ref()); with_real_t!(&$m.s.m, |$s| $body) }
    2 => { let ($s, $o) = ($m.s.m.matcher_ref(), $m.o.m.matcher_ref()); with_real_t!(&$m.p.m, |$p| $body) }
    3 => { let ($s, $p) = ($m.s.m.matcher_ref(), $m.p.m.matcher_ref()); with_real_t!(&$m.o.m, |$o| $body) }
    5 => with_fam_t!(&$m.s.m, |$s| with_fam_t!(&$m.p.m, |$p| with_fam_t!(&$m.o.m, |$o| $body))),
    _ => { let ($s, $p, $o) = ($m.s.m.matcher_ref(), $m.p.m.matcher_ref(), $m.o.m.matcher_ref()); $body }
} }; }
#[derive(Clone, Copy, Debug, PartialEq)]
enum EK { Subjects, Predicates, Objects, GraphNames, Blank, Iris, Literals, Variables, Quoted }
enum Op {
    Insert(Q4), Remove(Q4), Contains(Q4), Query(QM), All, RemoveMatching(QM), RetainMatching(QM),
    InsertAll(Vec<Q4>), RemoveAll(Vec<Q4>), Enum(EK),
    // the extended alphabet (Model.v section 13)
    /// d.clone(); the history goes on with the clone (`keep_clone`) or with the original; the other copy gets
    /// `poke` inserted, is emptied, and dropped
    Clone { keep_clone: bool, poke: Q4 },
    /// D::from_quad_source / from_triple_source / collect_quads / collect_triples of `l` (followed by a source error
    /// if `fail`); an Ok result REPLACES the store
    Collect { l: Vec<Q4>, fail: bool },
    /// insert_all / remove_all of a source that yields the list, then fails
    InsertAllFail(Vec<Q4>), RemoveAllFail(Vec<Q4>),
    /// SimpleTermIndex::len() / is_empty() of the store's term index (sophia_inmem stores)
    TermCount,
}
impl Op { fn is_base(&self) -> bool { !matches!(self, Op::Clone { .. } | Op::Collect { .. } | Op::InsertAllFail(_) | Op::RemoveAllFail(_) | Op::TermCount) } }
#[derive(Clone, Debug, PartialEq)]
enum Out { Flag(bool), Count(u64), Err, Unit, Quads(Vec<Q4>), Terms(Vec<Tid>), Unexpected(String) }

fn qm_text(q: &QM, isgraph: bool) -> String {
    let how = ["", " direct=s", " direct=p", " direct=o", " direct=g", " direct=all"][q.direct as usize];
    (if isgraph { format!("s={{{} => {:?}}} p={{{} => {:?}}} o={{{} => {:?}}}", q.s.label, q.s.d, q.p.label, q.p.d, q.o.label, q.o.d) }
    else { format!("s={{{} => {:?}}} p={{{} => {:?}}} o={{{} => {:?}}} g={{{} => {:?}}}", q.s.label, q.s.d, q.p.label, q.p.d, q.o.label, q.o.d, q.g.label, q.g.d) }) + how
}
fn op_name(o: &Op) -> &'static str {
    match o { Op::Insert(_) => "Insert", Op::Remove(_) => "Remove", Op::Contains(_) => "Contains", Op::Query(_) => "Query", Op::All => "All", Op::RemoveMatching(_) => "RemoveMatching",
        Op::RetainMatching(_) => "RetainMatching", Op::InsertAll(_) => "InsertAll", Op::RemoveAll(_) => "RemoveAll", Op::Enum(_) => "Enum",
        Op::Clone { .. } => "Clone", Op::Collect { fail: false, .. } => "Collect", Op::Collect { fail: true, .. } => "CollectFail", Op::InsertAllFail(_) => "InsertAllFail",
        Op::RemoveAllFail(_) => "RemoveAllFail", Op::TermCount => "TermCount" }
}
fn op_text(o: &Op, isgraph: bool) -> String {
    match o {
        Op::Insert(q) | Op::Remove(q) | Op::Contains(q) => format!("{}{q:?}", op_name(o)),
        Op::Query(m) | Op::RemoveMatching(m) | Op::RetainMatching(m) => format!("{}({})", op_name(o), qm_text(m, isgraph)),
        Op::All => "All".into(),
        Op::InsertAll(l) | Op::RemoveAll(l) | Op::InsertAllFail(l) | Op::RemoveAllFail(l) | Op::Collect { l, .. } => format!("{}{l:?}", op_name(o)),
        Op::Enum(k) => format!("Enum({k:?})"),
        Op::Clone { keep_clone, poke } => format!("Clone(keep {}, poke {poke:?})", if *keep_clone { "the clone" } else { "the original" }),
        Op::TermCount => "TermCount".into(),
    }
}
fn sorted<T: Ord>(mut v: Vec<T>) -> Vec<T> { v.sort(); v }
fn sorted_dedup<T: Ord>(mut v: Vec<T>) -> Vec<T> { v.sort(); v.dedup(); v }

// ---------- the real implementations ----------
macro_rules! collect_quads { ($c:expr, $it:expr) => {{
    let mut v: Vec<Q4> = vec![]; let mut err: Option<String> = None;
    for q in $it { match q { Ok(q) => v.push(($c.id(q.s()), $c.id(q.p()), $c.id(q.o()), q.g().map(|g| $c.id(g)))), Err(e) => { err = Some(format!("{e:?}")); break } } }
    match err { Some(e) => Out::Unexpected(e), None => Out::Quads(sorted(v)) }
}}; }
macro_rules! collect_triples { ($c:expr, $it:expr) => {{
    let mut v: Vec<Q4> = vec![]; let mut err: Option<String> = None;
    for t in $it { match t { Ok(t) => v.push(($c.id(t.s()), $c.id(t.p()), $c.id(t.o()), None)), Err(e) => { err = Some(format!("{e:?}")); break } } }
    match err { Some(e) => Out::Unexpected(e), None => Out::Quads(sorted(v)) }
}}; }
macro_rules! collect_terms { ($c:expr, $it:expr) => {{
    let mut v: Vec<Tid> = vec![]; let mut err: Option<String> = None;
    for t in $it { match t { Ok(t) => v.push($c.id(t)), Err(e) => { err = Some(format!("{e:?}")); break } } }
    match err { Some(e) => Out::Unexpected(e), None => Out::Terms(sorted_dedup(v)) }
}}; }

// ---------- what is specific to a store type ----------
trait ProbeD: MutableDataset + CollectibleDataset + Clone + Default {
    /// an empty store: the inherent `new()` where the type has one (and `alt` is drawn), `default()` otherwise
    fn fresh(_alt: bool) -> Self { Self::default() }
    /// (len, is_empty) of the term index
    fn term_count(&self) -> Option<(usize, bool)> { None }
    /// the same query / enumeration through the `[Q]` slice implementation (vector stores)
    fn slice_query(&self, _c: &Ctx, _m: &QM) -> Option<Out> { None }
    fn slice_all(&self, _c: &Ctx) -> Option<Out> { None }
    /// query / remove_matching / retain_matching with the matchers bound as `m.direct` says (store types of `direct_d!`)
    fn direct_op(&mut self, _c: &Ctx, _op: &Op, _via: usize) -> Option<Out> { None }
}
trait ProbeG: MutableGraph + CollectibleGraph + Clone + Default {
    fn fresh(_alt: bool) -> Self { Self::default() }
    fn term_count(&self) -> Option<(usize, bool)> { None }
    fn slice_query(&self, _c: &Ctx, _m: &QM) -> Option<Out> { None }
    fn slice_all(&self, _c: &Ctx) -> Option<Out> { None }
    fn direct_op(&mut self, _c: &Ctx, _op: &Op, _via: usize) -> Option<Out> { None }
}
/// the body of `ProbeD::direct_op` / `ProbeG::direct_op`; `via` 1: the query goes through `&Self`
macro_rules! direct_d { () => {
    fn direct_op(&mut self, c: &Ctx, op: &Op, via: usize) -> Option<Out> {
        Some(match op {
            Op::Query(m) => if via == 1 { let d = &&*self; dispatch_d!(m, |sm, pm, om, gm| collect_quads!(c, d.quads_matching(sm, pm, om, gm))) }
                else { dispatch_d!(m, |sm, pm, om, gm| collect_quads!(c, self.quads_matching(sm, pm, om, gm))) },
            Op::RemoveMatching(m) => match dispatch_d!(m, |sm, pm, om, gm| self.remove_matching(sm, pm, om, gm)) { Ok(n) => Out::Count(n as u64), Err(e) => Out::Unexpected(format!("{e:?}")) },
            Op::RetainMatching(m) => match dispatch_d!(m, |sm, pm, om, gm| self.retain_matching(sm, pm, om, gm)) { Ok(()) => Out::Unit, Err(e) => Out::Unexpected(format!("{e:?}")) },
            _ => return None,
        })
    }
}; }
macro_rules! direct_g { () => {
    fn direct_op(&mut self, c: &Ctx, op: &Op, via: usize) -> Option<Out> {
        Some(match op {
            Op::Query(m) => if via == 1 { let d = &&*self; dispatch_g!(m, |sm, pm, om| collect_triples!(c, d.triples_matching(sm, pm, om))) }
                else { dispatch_g!(m, |sm, pm, om| collect_triples!(c, self.triples_matching(sm, pm, om))) },
            Op::RemoveMatching(m) => match dispatch_g!(m, |sm, pm, om| self.remove_matching(sm, pm, om)) { Ok(n) => Out::Count(n as u64), Err(e) => Out::Unexpected(format!("{e:?}")) },
            Op::RetainMatching(m) => match dispatch_g!(m, |sm, pm, om| self.retain_matching(sm, pm, om)) { Ok(()) => Out::Unit, Err(e) => Out::Unexpected(format!("{e:?}")) },
            _ => return None,
        })
    }
}; }
macro_rules! inmem_probe { ($tr:ident, $direct:ident, $($ty:ident)::+) => {
    inmem_probe!(@one $tr, $direct, u32, $($ty)::+);
    inmem_probe!(@one $tr, $direct, u16, $($ty)::+);
    inmem_probe!(@one $tr, $direct, usize, $($ty)::+);
    // the capacity-limited index types: without the direct hook (the code of a store is generic in the index type, and the
    // build time of this file is proportional to the number of (store type, matcher type) pairs)
    impl<const M: u8> $tr for $($ty)::+<SimpleTermIndex<SmallIdx<M>>> {
        fn fresh(alt: bool) -> Self { if alt { Self::new() } else { Self::default() } }
        fn term_count(&self) -> Option<(usize, bool)> { let t = self.verif_term_index(); Some((t.len(), t.is_empty())) }
    }
};
(@one $tr:ident, $direct:ident, $i:ty, $($ty:ident)::+) => {
    impl $tr for $($ty)::+<SimpleTermIndex<$i>> {
        fn fresh(alt: bool) -> Self { if alt { Self::new() } else { Self::default() } }
        fn term_count(&self) -> Option<(usize, bool)> { let t = self.verif_term_index(); Some((t.len(), t.is_empty())) }
        $direct!();
    }
}; }
inmem_probe!(ProbeD, direct_d, sophia_inmem::dataset::GenericFastDataset);
inmem_probe!(ProbeD, direct_d, sophia_inmem::dataset::GenericLightDataset);
inmem_probe!(ProbeG, direct_g, sophia_inmem::graph::GenericFastGraph);
inmem_probe!(ProbeG, direct_g, sophia_inmem::graph::GenericLightGraph);
impl ProbeD for HashSet<Spog<ST>> { direct_d!(); }
impl ProbeD for BTreeSet<Spog<ST>> { direct_d!(); }
impl ProbeD for HashSet<Gspo<ST>> { direct_d!(); }
impl ProbeD for BTreeSet<Gspo<ST>> { direct_d!(); }
impl ProbeG for HashSet<[ST; 3]> { direct_g!(); }
impl ProbeG for BTreeSet<[ST; 3]> { direct_g!(); }
macro_rules! vec_probe_d { ($q:ty) => {
    impl ProbeD for Vec<$q> {
        fn slice_query(&self, c: &Ctx, m: &QM) -> Option<Out> {
            let sl: &[$q] = &self[..];
            Some(collect_quads!(c, sl.quads_matching(m.s.m.matcher_ref(), m.p.m.matcher_ref(), m.o.m.matcher_ref(), m.g.m.matcher_ref())))
        }
        fn slice_all(&self, c: &Ctx) -> Option<Out> { let sl: &[$q] = &self[..]; Some(collect_quads!(c, sl.quads())) }
        direct_d!();
    }
}; }
vec_probe_d!(Spog<ST>);
vec_probe_d!(Gspo<ST>);
impl ProbeG for Vec<[ST; 3]> {
    fn slice_query(&self, c: &Ctx, m: &QM) -> Option<Out> {
        let sl: &[[ST; 3]] = &self[..];
        Some(collect_triples!(c, sl.triples_matching(m.s.m.matcher_ref(), m.p.m.matcher_ref(), m.o.m.matcher_ref())))
    }
    fn slice_all(&self, c: &Ctx) -> Option<Out> { let sl: &[[ST; 3]] = &self[..]; Some(collect_triples!(c, sl.triples())) }
    direct_g!();
}

/// a source that yields the items, then fails
fn failing<T>(v: Vec<T>) -> impl Iterator<Item = Result<T, MyErr>> { v.into_iter().map(Ok).chain(std::iter::once(Err(MyErr(7)))) }
/// Ok / Err(true) = source error / Err(false) = sink error
fn stream_res<T, E1: std::error::Error, E2: std::error::Error>(x: Result<T, StreamError<E1, E2>>) -> Result<T, bool> {
    match x { Ok(t) => Ok(t), Err(StreamError::SourceError(_)) => Err(true), Err(StreamError::SinkError(_)) => Err(false) }
}
fn bulk_fail_out<E1: std::error::Error, E2: std::error::Error>(x: Result<usize, StreamError<E1, E2>>) -> Out {
    match stream_res(x) { Ok(n) => Out::Unexpected(format!("Ok({n}) from a failing source")), Err(true) => Out::Flag(false), Err(false) => Out::Err }
}
fn spogs(c: &Ctx, l: &[Q4], r: &mut Rng) -> Vec<Spog<ST>> { l.iter().map(|q| { let (s, p, o, g) = c.quad(q, r); ([s, p, o], g) }).collect() }
fn gspos(c: &Ctx, l: &[Q4], r: &mut Rng) -> Vec<Gspo<ST>> { l.iter().map(|q| { let (s, p, o, g) = c.quad(q, r); (g, [s, p, o]) }).collect() }
fn spos(c: &Ctx, l: &[Q4], r: &mut Rng) -> Vec<[ST; 3]> { l.iter().map(|q| { let (s, p, o, _) = c.quad(q, r); [s, p, o] }).collect() }

/// the read-only operations, on any `Dataset` (the store itself, `&store`, `&mut store`)
fn ds_read<'a, R>(c: &Ctx, d: &'a R, op: &Op, r: &mut Rng) -> Out
where R: Dataset, R::Error: std::fmt::Debug, DTerm<'a, R>: Clone,
{
    match op {
        Op::Contains(q) => {
            let (s, p, o, g) = c.quad(q, r);
            let res = if r.chance(1, 2) { d.contains(&s, &p, &o, g.as_ref()) } else { d.contains(s, p, o, g) };
            match res { Ok(b) => Out::Flag(b), Err(e) => Out::Unexpected(format!("{e:?}")) }
        }
        Op::Query(m) => collect_quads!(c, d.quads_matching(m.s.m.matcher_ref(), m.p.m.matcher_ref(), m.o.m.matcher_ref(), m.g.m.matcher_ref())),
        Op::All => collect_quads!(c, d.quads()),
        Op::Enum(k) => match k {
            EK::Subjects => collect_terms!(c, d.subjects()), EK::Predicates => collect_terms!(c, d.predicates()), EK::Objects => collect_terms!(c, d.objects()),
            EK::GraphNames => collect_terms!(c, d.graph_names()), EK::Blank => collect_terms!(c, d.blank_nodes()), EK::Iris => collect_terms!(c, d.iris()),
            EK::Literals => collect_terms!(c, d.literals()), EK::Variables => collect_terms!(c, d.variables()), EK::Quoted => collect_terms!(c, d.quoted_triples()),
        },
        _ => unreachable!("not a read-only operation"),
    }
}
/// the mutations, on any `MutableDataset` (the store itself, `&mut store`)
fn ds_mut<M>(c: &Ctx, d: &mut M, op: &Op, r: &mut Rng) -> Out
where M: MutableDataset, M::Error: std::fmt::Debug, M::MutationError: std::fmt::Debug + From<M::Error>,
{
    match op {
        Op::Insert(q) => {
            let (s, p, o, g) = c.quad(q, r);
            let res = match r.below(6) {
                0 => d.insert_quad(([s, p, o], g)),
                1 => d.insert_quad((g, [s, p, o])),
                2 if g.is_some() => d.insert_quad([s, p, o, g.unwrap()]),
                3 => d.insert(&s, &p, &o, g.as_ref()),
                _ => d.insert(s, p, o, g),
            };
            match res { Ok(b) => Out::Flag(b), Err(_) => Out::Err }
        }
        Op::Remove(q) => {
            let (s, p, o, g) = c.quad(q, r);
            let res = match r.below(6) {
                0 => d.remove_quad(([s, p, o], g)),
                1 => d.remove_quad((g, [s, p, o])),
                2 if g.is_some() => d.remove_quad([s, p, o, g.unwrap()]),
                3 => d.remove(&s, &p, &o, g.as_ref()),
                _ => d.remove(s, p, o, g),
            };
            match res { Ok(b) => Out::Flag(b), Err(e) => Out::Unexpected(format!("{e:?}")) }
        }
        Op::RemoveMatching(m) => match d.remove_matching(m.s.m.matcher_ref(), m.p.m.matcher_ref(), m.o.m.matcher_ref(), m.g.m.matcher_ref()) { Ok(n) => Out::Count(n as u64), Err(e) => Out::Unexpected(format!("{e:?}")) },
        Op::RetainMatching(m) => match d.retain_matching(m.s.m.matcher_ref(), m.p.m.matcher_ref(), m.o.m.matcher_ref(), m.g.m.matcher_ref()) { Ok(()) => Out::Unit, Err(e) => Out::Unexpected(format!("{e:?}")) },
        Op::InsertAll(l) => {
            let res = match r.below(3) {
                0 => stream_res(d.insert_all(gspos(c, l, r).into_iter().into_source())),
                1 if l.iter().all(|q| q.3.is_some()) => stream_res(d.insert_all(spogs(c, l, r).into_iter().map(|([s, p, o], g)| [s, p, o, g.unwrap()]).into_source())),
                _ => stream_res(d.insert_all(spogs(c, l, r).into_iter().into_source())),
            };
            match res { Ok(n) => Out::Count(n as u64), Err(_) => Out::Err }
        }
        Op::RemoveAll(l) => {
            let res = match r.below(3) {
                0 => stream_res(d.remove_all(gspos(c, l, r).into_iter().into_source())),
                1 => stream_res(d.remove_all(spogs(c, l, r).into_iter().into_source().filter_quads(|_| true))),
                _ => stream_res(d.remove_all(spogs(c, l, r).into_iter().into_source())),
            };
            match res { Ok(n) => Out::Count(n as u64), Err(e) => Out::Unexpected(format!("remove_all failed (source error: {e})")) }
        }
        Op::InsertAllFail(l) => if r.chance(1, 2) { bulk_fail_out(d.insert_all(failing(spogs(c, l, r)))) } else { bulk_fail_out(d.insert_all(failing(gspos(c, l, r)))) },
        Op::RemoveAllFail(l) => bulk_fail_out(d.remove_all(failing(spogs(c, l, r)))),
        _ => unreachable!("not a mutation"),
    }
}

fn run_ds<D>(c: &Ctx, ops: &[Op], r: &mut Rng) -> Vec<Out>
where D: ProbeD, D::Error: std::fmt::Debug + std::error::Error, D::MutationError: std::fmt::Debug + From<D::Error>, for<'x> DTerm<'x, D>: Clone,
{
    let mut d = D::fresh(r.chance(1, 2));
    let mut outs = vec![];
    for op in ops {
        // how the store is reached: 0 directly, 1 through `&D` (read) / the slice (vectors), 2 through `&mut D`
        let via = r.below(3);
        let o = match op {
            Op::Contains(_) | Op::Query(_) | Op::All | Op::Enum(_) => {
                let sl = if via == 1 && r.chance(1, 2) { match op { Op::Query(m) => d.slice_query(c, m), Op::All => d.slice_all(c), _ => None } } else { None };
                let sl = match (sl, op) { (None, Op::Query(m)) if m.direct != 0 => d.direct_op(c, op, via), (sl, _) => sl };
                match sl {
                    Some(o) => o,
                    None => match via { 0 => ds_read(c, &d, op, r), 1 => ds_read(c, &&d, op, r), _ => { let m = &mut d; ds_read(c, &m, op, r) } },
                }
            }
            Op::Insert(_) | Op::Remove(_) | Op::RemoveMatching(_) | Op::RetainMatching(_) | Op::InsertAll(_) | Op::RemoveAll(_) | Op::InsertAllFail(_) | Op::RemoveAllFail(_) => {
                let dir = match op { Op::RemoveMatching(m) | Op::RetainMatching(m) if m.direct != 0 => d.direct_op(c, op, via), _ => None };
                match dir { Some(o) => o, None => if via == 2 { let mut m = &mut d; ds_mut(c, &mut m, op, r) } else { ds_mut(c, &mut d, op, r) } }
            }
            Op::Clone { keep_clone, poke } => {
                let mut other = d.clone();
                let same = ds_read(c, &other, &Op::All, r) == ds_read(c, &d, &Op::All, r);
                if *keep_clone { std::mem::swap(&mut d, &mut other) }
                let (s, p, o, g) = c.quad(poke, r);
                let _ = other.insert(s, p, o, g);
                let _ = other.remove_matching(Any, Any, Any, Any);
                drop(other);
                if same { Out::Unit } else { Out::Unexpected("the clone does not hold the quads of the original".into()) }
            }
            Op::Collect { l, fail } => {
                let res: Result<D, bool> = if *fail {
                    if r.chance(1, 2) { stream_res(D::from_quad_source(failing(spogs(c, l, r)))) } else { stream_res(failing(gspos(c, l, r)).collect_quads::<D>()) }
                } else {
                    match r.below(4) {
                        0 => stream_res(spogs(c, l, r).into_iter().into_source().collect_quads::<D>()),
                        1 => stream_res(D::from_quad_source(gspos(c, l, r).into_iter().into_source())),
                        2 => stream_res(D::from_quad_source(spogs(c, l, r).into_iter().into_source().filter_quads(|_| true))),
                        _ => stream_res(D::from_quad_source(spogs(c, l, r).into_iter().into_source())),
                    }
                };
                match res { Ok(nd) => if *fail { Out::Unexpected("Ok from a failing source".into()) } else { d = nd; Out::Flag(true) }, Err(true) => Out::Flag(false), Err(false) => Out::Err }
            }
            Op::TermCount => match d.term_count() {
                Some((n, e)) => if e == (n == 0) { Out::Count(n as u64) } else { Out::Unexpected(format!("len() = {n} but is_empty() = {e}")) },
                None => Out::Unit,
            },
        };
        outs.push(o);
    }
    outs
}

fn gr_read<'a, R>(c: &Ctx, d: &'a R, op: &Op, r: &mut Rng) -> Out
where R: Graph, R::Error: std::fmt::Debug, GTerm<'a, R>: Clone,
{
    match op {
        Op::Contains(q) => {
            let (s, p, o, _) = c.quad(q, r);
            let res = if r.chance(1, 2) { d.contains(&s, &p, &o) } else { d.contains(s, p, o) };
            match res { Ok(b) => Out::Flag(b), Err(e) => Out::Unexpected(format!("{e:?}")) }
        }
        Op::Query(m) => collect_triples!(c, d.triples_matching(m.s.m.matcher_ref(), m.p.m.matcher_ref(), m.o.m.matcher_ref())),
        Op::All => collect_triples!(c, d.triples()),
        Op::Enum(k) => match k {
            EK::Subjects => collect_terms!(c, d.subjects()), EK::Predicates => collect_terms!(c, d.predicates()), EK::Objects => collect_terms!(c, d.objects()),
            EK::GraphNames => Out::Unexpected("graph_names on a graph".into()), EK::Blank => collect_terms!(c, d.blank_nodes()), EK::Iris => collect_terms!(c, d.iris()),
            EK::Literals => collect_terms!(c, d.literals()), EK::Variables => collect_terms!(c, d.variables()), EK::Quoted => collect_terms!(c, d.quoted_triples()),
        },
        _ => unreachable!("not a read-only operation"),
    }
}
fn gr_mut<M>(c: &Ctx, d: &mut M, op: &Op, r: &mut Rng) -> Out
where M: MutableGraph, M::Error: std::fmt::Debug, M::MutationError: std::fmt::Debug + From<M::Error>,
{
    match op {
        Op::Insert(q) => {
            let (s, p, o, _) = c.quad(q, r);
            let res = match r.below(4) { 0 => d.insert_triple([s, p, o]), 1 => d.insert(&s, &p, &o), 2 => d.insert_triple([&s, &p, &o]), _ => d.insert(s, p, o) };
            match res { Ok(b) => Out::Flag(b), Err(_) => Out::Err }
        }
        Op::Remove(q) => {
            let (s, p, o, _) = c.quad(q, r);
            let res = match r.below(4) { 0 => d.remove_triple([s, p, o]), 1 => d.remove(&s, &p, &o), 2 => d.remove_triple([&s, &p, &o]), _ => d.remove(s, p, o) };
            match res { Ok(b) => Out::Flag(b), Err(e) => Out::Unexpected(format!("{e:?}")) }
        }
        Op::RemoveMatching(m) => match d.remove_matching(m.s.m.matcher_ref(), m.p.m.matcher_ref(), m.o.m.matcher_ref()) { Ok(n) => Out::Count(n as u64), Err(e) => Out::Unexpected(format!("{e:?}")) },
        Op::RetainMatching(m) => match d.retain_matching(m.s.m.matcher_ref(), m.p.m.matcher_ref(), m.o.m.matcher_ref()) { Ok(()) => Out::Unit, Err(e) => Out::Unexpected(format!("{e:?}")) },
        Op::InsertAll(l) => {
            let res = if r.chance(1, 3) { stream_res(d.insert_all(spos(c, l, r).into_iter().into_source().filter_triples(|_| true))) } else { stream_res(d.insert_all(spos(c, l, r).into_iter().into_source())) };
            match res { Ok(n) => Out::Count(n as u64), Err(_) => Out::Err }
        }
        Op::RemoveAll(l) => match stream_res(d.remove_all(spos(c, l, r).into_iter().into_source())) { Ok(n) => Out::Count(n as u64), Err(e) => Out::Unexpected(format!("remove_all failed (source error: {e})")) },
        Op::InsertAllFail(l) => bulk_fail_out(d.insert_all(failing(spos(c, l, r)))),
        Op::RemoveAllFail(l) => bulk_fail_out(d.remove_all(failing(spos(c, l, r)))),
        _ => unreachable!("not a mutation"),
    }
}

fn run_gr<G>(c: &Ctx, ops: &[Op], r: &mut Rng) -> Vec<Out>
where G: ProbeG, G::Error: std::fmt::Debug + std::error::Error, G::MutationError: std::fmt::Debug + From<G::Error>, for<'x> GTerm<'x, G>: Clone,
{
    let mut d = G::fresh(r.chance(1, 2));
    let mut outs = vec![];
    for op in ops {
        let via = r.below(3);
        let o = match op {
            Op::Contains(_) | Op::Query(_) | Op::All | Op::Enum(_) => {
                let sl = if via == 1 && r.chance(1, 2) { match op { Op::Query(m) => d.slice_query(c, m), Op::All => d.slice_all(c), _ => None } } else { None };
                let sl = match (sl, op) { (None, Op::Query(m)) if m.direct != 0 => d.direct_op(c, op, via), (sl, _) => sl };
                match sl {
                    Some(o) => o,
                    None => match via { 0 => gr_read(c, &d, op, r), 1 => gr_read(c, &&d, op, r), _ => { let m = &mut d; gr_read(c, &m, op, r) } },
                }
            }
            Op::Insert(_) | Op::Remove(_) | Op::RemoveMatching(_) | Op::RetainMatching(_) | Op::InsertAll(_) | Op::RemoveAll(_) | Op::InsertAllFail(_) | Op::RemoveAllFail(_) => {
                let dir = match op { Op::RemoveMatching(m) | Op::RetainMatching(m) if m.direct != 0 => d.direct_op(c, op, via), _ => None };
                match dir { Some(o) => o, None => if via == 2 { let mut m = &mut d; gr_mut(c, &mut m, op, r) } else { gr_mut(c, &mut d, op, r) } }
            }
            Op::Clone { keep_clone, poke } => {
                let mut other = d.clone();
                let same = gr_read(c, &other, &Op::All, r) == gr_read(c, &d, &Op::All, r);
                if *keep_clone { std::mem::swap(&mut d, &mut other) }
                let (s, p, o, _) = c.quad(poke, r);
                let _ = other.insert(s, p, o);
                let _ = other.remove_matching(Any, Any, Any);
                drop(other);
                if same { Out::Unit } else { Out::Unexpected("the clone does not hold the triples of the original".into()) }
            }
            Op::Collect { l, fail } => {
                let res: Result<G, bool> = if *fail {
                    if r.chance(1, 2) { stream_res(G::from_triple_source(failing(spos(c, l, r)))) } else { stream_res(failing(spos(c, l, r)).collect_triples::<G>()) }
                } else {
                    match r.below(3) {
                        0 => stream_res(spos(c, l, r).into_iter().into_source().collect_triples::<G>()),
                        1 => stream_res(G::from_triple_source(spos(c, l, r).into_iter().into_source().filter_triples(|_| true))),
                        _ => stream_res(G::from_triple_source(spos(c, l, r).into_iter().into_source())),
                    }
                };
                match res { Ok(nd) => if *fail { Out::Unexpected("Ok from a failing source".into()) } else { d = nd; Out::Flag(true) }, Err(true) => Out::Flag(false), Err(false) => Out::Err }
            }
            Op::TermCount => match d.term_count() {
                Some((n, e)) => if e == (n == 0) { Out::Count(n as u64) } else { Out::Unexpected(format!("len() = {n} but is_empty() = {e}")) },
                None => Out::Unit,
            },
        };
        outs.push(o);
    }
    outs
}

// ---------- naive oracle (plain Rust, no sophia, independent of the Coq model) ----------
#[derive(Clone, Copy, Debug, PartialEq)]
enum Mode { Set, ListRemoveAll, ListRemoveFirst }
fn md_ok(m: &MD, t: Tid) -> bool { match m { MD::Any => true, MD::Const(c) => *c == t, MD::OneOf(l) => l.contains(&t), MD::NotOneOf(l) => !l.contains(&t) } }
fn gd_ok(m: &GD, g: Option<Tid>) -> bool { match m { GD::Any => true, GD::Const(c) => *c == g, GD::OneOf(l) => l.contains(&g), GD::NotOneOf(l) => !l.contains(&g) } }
/// (kind, atoms, triple constituents) of each pool identifier
fn pool_info(id: Tid) -> (u64, Vec<Tid>, Vec<Tid>) {
    match id {
        4 | 5 => (0, vec![id], vec![]), 1 | 2 | 3 | 12 | 13 => (1, vec![id], vec![]), 6 | 7 | 8 | 9 | 15 => (2, vec![id], vec![]), 11 => (4, vec![id], vec![]),
        10 => (3, vec![1, 3, 4], vec![10]), 16 => (3, vec![1, 3, 7], vec![16]), 14 => (3, vec![1, 3, 7, 3, 15], vec![14, 16]),
        _ => unreachable!(),
    }
}
struct Oracle { quads: Vec<Q4>, interned: Vec<Tid>, cap: Option<usize>, mode: Mode, isgraph: bool, counted: bool }
impl Oracle {
    fn q_ok(&self, m: &QM, q: &Q4) -> bool { md_ok(&m.s.d, q.0) && md_ok(&m.p.d, q.1) && md_ok(&m.o.d, q.2) && (self.isgraph || gd_ok(&m.g.d, q.3)) }
    fn insert(&mut self, q: &Q4) -> Option<bool> {
        if self.mode != Mode::Set { self.quads.push(*q); return Some(true) }
        let mut ts = vec![q.0, q.1, q.2];
        if let Some(g) = q.3 { ts.push(g) }
        for t in ts {
            if !self.interned.contains(&t) {
                if let Some(cap) = self.cap { if self.interned.len() >= cap { return None } }
                self.interned.push(t);
            }
        }
        let b = !self.quads.contains(q);
        if b { self.quads.push(*q) }
        Some(b)
    }
    fn remove(&mut self, q: &Q4) -> bool {
        match self.mode {
            Mode::Set => { let b = self.quads.contains(q); self.quads.retain(|x| x != q); b }
            Mode::ListRemoveAll => { self.quads.retain(|x| x != q); true }
            Mode::ListRemoveFirst => match self.quads.iter().position(|x| x == q) { Some(i) => { self.quads.remove(i); true } None => false },
        }
    }
    fn remove_each(&mut self, l: &[Q4]) -> u64 { let mut n = 0; for q in l { if self.remove(q) { n += 1 } } n }
    fn step(&mut self, op: &Op) -> Out {
        match op {
            Op::Insert(q) => match self.insert(q) { Some(b) => Out::Flag(b), None => Out::Err },
            Op::Remove(q) => Out::Flag(self.remove(q)),
            Op::Contains(q) => Out::Flag(self.quads.contains(q)),
            Op::Query(m) => Out::Quads(sorted(self.quads.iter().filter(|q| self.q_ok(m, q)).cloned().collect())),
            Op::All => Out::Quads(sorted(self.quads.clone())),
            Op::RemoveMatching(m) => {
                let hit: Vec<Q4> = self.quads.iter().filter(|q| self.q_ok(m, q)).cloned().collect();
                if self.mode == Mode::Set { self.quads.retain(|q| !hit.contains(q)); Out::Count(hit.len() as u64) } else { Out::Count(self.remove_each(&hit)) }
            }
            Op::RetainMatching(m) => {
                let miss: Vec<Q4> = self.quads.iter().filter(|q| !self.q_ok(m, q)).cloned().collect();
                if self.mode == Mode::Set { self.quads.retain(|q| !miss.contains(q)) } else { self.remove_each(&miss); }
                Out::Unit
            }
            Op::InsertAll(l) => { let mut n = 0; for q in l { match self.insert(q) { None => return Out::Err, Some(true) => n += 1, Some(false) => {} } } Out::Count(n) }
            Op::RemoveAll(l) => Out::Count(self.remove_each(l)),
            // a clone is the same set; what happens to the other copy is invisible
            Op::Clone { .. } => Out::Unit,
            // the bulk constructor: the set of the listed quads, built in a NEW store (an empty term index)
            Op::Collect { l, fail } => {
                let mut fresh = Oracle { quads: vec![], interned: vec![], cap: self.cap, mode: self.mode, isgraph: self.isgraph, counted: self.counted };
                for q in l { if fresh.insert(q).is_none() { return Out::Err } }
                if *fail { Out::Flag(false) } else { *self = fresh; Out::Flag(true) }
            }
            // what the source yielded before failing is in (resp. out of) the set
            Op::InsertAllFail(l) => { for q in l { if self.insert(q).is_none() { return Out::Err } } Out::Flag(false) }
            Op::RemoveAllFail(l) => { self.remove_each(l); Out::Flag(false) }
            Op::TermCount => if self.counted { Out::Count(self.interned.len() as u64) } else { Out::Unit },
            Op::Enum(k) => {
                let spog = |q: &Q4| -> Vec<Tid> { let mut v = vec![q.0, q.1, q.2]; if let Some(g) = q.3 { v.push(g) } v };
                let atoms = |kind: u64| -> Vec<Tid> { self.quads.iter().flat_map(spog).flat_map(|t| pool_info(t).1).filter(|a| pool_info(*a).0 == kind).collect() };
                Out::Terms(sorted_dedup(match k {
                    EK::Subjects => self.quads.iter().map(|q| q.0).collect(), EK::Predicates => self.quads.iter().map(|q| q.1).collect(), EK::Objects => self.quads.iter().map(|q| q.2).collect(),
                    EK::GraphNames => self.quads.iter().filter_map(|q| q.3).collect(),
                    EK::Blank => atoms(0), EK::Iris => atoms(1), EK::Literals => atoms(2), EK::Variables => atoms(4),
                    EK::Quoted => self.quads.iter().flat_map(spog).flat_map(|t| pool_info(t).2).collect(),
                }))
            }
        }
    }
}
fn run_oracle(st: &Store, ops: &[Op]) -> Vec<Out> {
    let mut o = Oracle { quads: vec![], interned: vec![], cap: st.cap, mode: st.mode, isgraph: st.isgraph, counted: st.max != 0 };
    ops.iter().map(|op| o.step(op)).collect()
}

// ---------- the stores ----------
#[derive(Clone, Debug)]
struct Store { name: String, config: &'static str, max: u64, cap: Option<usize>, mode: Mode, isgraph: bool, small_m: Option<u8>, fast: bool }
const MS: [u8; 6] = [3, 4, 5, 6, 8, 12];
fn stores() -> Vec<Store> {
    let mut v = vec![];
    for isgraph in [false, true] {
        let (f, l, kind) = if isgraph { ("FastGraph", "LightGraph", "graph") } else { ("FastDataset", "LightDataset", "dataset") };
        let mk = |name: String, config: &'static str, max: u64, cap: Option<usize>, mode: Mode, small_m: Option<u8>, fast: bool| Store { name, config, max, cap, mode, isgraph, small_m, fast };
        v.push(mk(format!("{kind}::{f}"), f, 4294967295, Some(4294967295), Mode::Set, None, true));
        v.push(mk(format!("{kind}::{l}"), l, 4294967295, Some(4294967295), Mode::Set, None, false));
        v.push(mk(format!("{kind}::small::{f}"), f, 65535, Some(65535), Mode::Set, None, true));
        v.push(mk(format!("{kind}::small::{l}"), l, 65535, Some(65535), Mode::Set, None, false));
        v.push(mk(format!("Generic{f}<usize>"), f, u64::MAX, Some(usize::MAX), Mode::Set, None, true));
        v.push(mk(format!("Generic{l}<usize>"), l, u64::MAX, Some(usize::MAX), Mode::Set, None, false));
        for m in MS { v.push(mk(format!("Generic{f}<SmallIdx<{m}>>"), f, m as u64, Some(m as usize), Mode::Set, Some(m), true)); }
        for m in MS { v.push(mk(format!("Generic{l}<SmallIdx<{m}>>"), l, m as u64, Some(m as usize), Mode::Set, Some(m), false)); }
        if isgraph {
            v.push(mk("HashSet<[T;3]>".into(), "SetGraph", 0, None, Mode::Set, None, false));
            v.push(mk("BTreeSet<[T;3]>".into(), "SetGraph", 0, None, Mode::Set, None, false));
            v.push(mk("Vec<[T;3]>".into(), "VecGraph", 0, None, Mode::ListRemoveAll, None, false));
        } else {
            v.push(mk("HashSet<Spog>".into(), "SetDataset", 0, None, Mode::Set, None, false));
            v.push(mk("BTreeSet<Spog>".into(), "SetDataset", 0, None, Mode::Set, None, false));
            v.push(mk("HashSet<Gspo>".into(), "SetDataset", 0, None, Mode::Set, None, false));
            v.push(mk("BTreeSet<Gspo>".into(), "SetDataset", 0, None, Mode::Set, None, false));
            v.push(mk("Vec<Spog>".into(), "VecSpogDataset", 0, None, Mode::ListRemoveAll, None, false));
            v.push(mk("Vec<Gspo>".into(), "VecGspoDataset", 0, None, Mode::ListRemoveFirst, None, false));
        }
    }
    v
}
type Cap<const M: u8> = SimpleTermIndex<SmallIdx<M>>;
fn run_real(c: &Ctx, st: &Store, ops: &[Op], r: &mut Rng) -> Vec<Out> {
    use sophia_inmem::dataset as ds;
    use sophia_inmem::graph as gr;
    match st.name.as_str() {
        "dataset::FastDataset" => run_ds::<ds::FastDataset>(c, ops, r),
        "dataset::LightDataset" => run_ds::<ds::LightDataset>(c, ops, r),
        "dataset::small::FastDataset" => run_ds::<ds::small::FastDataset>(c, ops, r),
        "dataset::small::LightDataset" => run_ds::<ds::small::LightDataset>(c, ops, r),
        "HashSet<Spog>" => run_ds::<HashSet<Spog<ST>>>(c, ops, r),
        "BTreeSet<Spog>" => run_ds::<BTreeSet<Spog<ST>>>(c, ops, r),
        "HashSet<Gspo>" => run_ds::<HashSet<Gspo<ST>>>(c, ops, r),
        "BTreeSet<Gspo>" => run_ds::<BTreeSet<Gspo<ST>>>(c, ops, r),
        "Vec<Spog>" => run_ds::<Vec<Spog<ST>>>(c, ops, r),
        "Vec<Gspo>" => run_ds::<Vec<Gspo<ST>>>(c, ops, r),
        "GenericFastDataset<usize>" => run_ds::<ds::GenericFastDataset<SimpleTermIndex<usize>>>(c, ops, r),
        "GenericLightDataset<usize>" => run_ds::<ds::GenericLightDataset<SimpleTermIndex<usize>>>(c, ops, r),
        "GenericFastGraph<usize>" => run_gr::<gr::GenericFastGraph<SimpleTermIndex<usize>>>(c, ops, r),
        "GenericLightGraph<usize>" => run_gr::<gr::GenericLightGraph<SimpleTermIndex<usize>>>(c, ops, r),
        "graph::FastGraph" => run_gr::<gr::FastGraph>(c, ops, r),
        "graph::LightGraph" => run_gr::<gr::LightGraph>(c, ops, r),
        "graph::small::FastGraph" => run_gr::<gr::small::FastGraph>(c, ops, r),
        "graph::small::LightGraph" => run_gr::<gr::small::LightGraph>(c, ops, r),
        "HashSet<[T;3]>" => run_gr::<HashSet<[ST; 3]>>(c, ops, r),
        "BTreeSet<[T;3]>" => run_gr::<BTreeSet<[ST; 3]>>(c, ops, r),
        "Vec<[T;3]>" => run_gr::<Vec<[ST; 3]>>(c, ops, r),
        _ => match (st.isgraph, st.fast, st.small_m) {
            (false, true, Some(3)) => run_ds::<ds::GenericFastDataset<Cap<3>>>(c, ops, r),
            (false, true, Some(4)) => run_ds::<ds::GenericFastDataset<Cap<4>>>(c, ops, r),
            (false, true, Some(5)) => run_ds::<ds::GenericFastDataset<Cap<5>>>(c, ops, r),
            (false, true, Some(6)) => run_ds::<ds::GenericFastDataset<Cap<6>>>(c, ops, r),
            (false, true, Some(8)) => run_ds::<ds::GenericFastDataset<Cap<8>>>(c, ops, r),
            (false, true, Some(12)) => run_ds::<ds::GenericFastDataset<Cap<12>>>(c, ops, r),
            (false, false, Some(3)) => run_ds::<ds::GenericLightDataset<Cap<3>>>(c, ops, r),
            (false, false, Some(4)) => run_ds::<ds::GenericLightDataset<Cap<4>>>(c, ops, r),
            (false, false, Some(5)) => run_ds::<ds::GenericLightDataset<Cap<5>>>(c, ops, r),
            (false, false, Some(6)) => run_ds::<ds::GenericLightDataset<Cap<6>>>(c, ops, r),
            (false, false, Some(8)) => run_ds::<ds::GenericLightDataset<Cap<8>>>(c, ops, r),
            (false, false, Some(12)) => run_ds::<ds::GenericLightDataset<Cap<12>>>(c, ops, r),
            (true, true, Some(3)) => run_gr::<gr::GenericFastGraph<Cap<3>>>(c, ops, r),
            (true, true, Some(4)) => run_gr::<gr::GenericFastGraph<Cap<4>>>(c, ops, r),
            (true, true, Some(5)) => run_gr::<gr::GenericFastGraph<Cap<5>>>(c, ops, r),
            (true, true, Some(6)) => run_gr::<gr::GenericFastGraph<Cap<6>>>(c, ops, r),
            (true, true, Some(8)) => run_gr::<gr::GenericFastGraph<Cap<8>>>(c, ops, r),
            (true, true, Some(12)) => run_gr::<gr::GenericFastGraph<Cap<12>>>(c, ops, r),
            (true, false, Some(3)) => run_gr::<gr::GenericLightGraph<Cap<3>>>(c, ops, r),
            (true, false, Some(4)) => run_gr::<gr::GenericLightGraph<Cap<4>>>(c, ops, r),
            (true, false, Some(5)) => run_gr::<gr::GenericLightGraph<Cap<5>>>(c, ops, r),
            (true, false, Some(6)) => run_gr::<gr::GenericLightGraph<Cap<6>>>(c, ops, r),
            (true, false, Some(8)) => run_gr::<gr::GenericLightGraph<Cap<8>>>(c, ops, r),
            (true, false, Some(12)) => run_gr::<gr::GenericLightGraph<Cap<12>>>(c, ops, r),
            _ => panic!("unknown store {}", st.name),
        },
    }
}

// ---------- generation of histories ----------
const PREDS: [Tid; 4] = [3, 1, 2, 12];
const GNS: [Tid; 4] = [12, 13, 4, 1];
/// where the terms of generated quads come from (per case); `spread`/16 = chance of leaving the palette
struct Palette { so: Vec<Tid>, p: Vec<Tid>, g: Vec<Option<Tid>>, spread: usize, /** the store type has the direct hook */ direct_ok: bool }
fn palette(r: &mut Rng, st: &Store) -> Palette {
    match st.small_m {
        // as c11's gen_tid / gen_t3 / gen_g
        None => Palette { so: (1..=6).collect(), p: vec![3, 3, 1, 2, 12], g: vec![None, None, Some(12), Some(12), Some(4), Some(13), Some(1)], spread: 4, direct_ok: true },
        // capacity-limited: a palette of about M terms, so that about half of the histories overflow
        Some(m) => {
            let m = m as usize;
            let t = r.range(m.saturating_sub(2).max(3), m + 2);
            let mut pal: Vec<Tid> = vec![*r.pick(&PREDS)];
            if !st.isgraph && r.chance(7, 10) { let g = *r.pick(&GNS); if !pal.contains(&g) { pal.push(g) } }
            while pal.len() < t { let x = 1 + r.below(NT as usize) as u64; if !pal.contains(&x) { pal.push(x) } }
            let p: Vec<Tid> = pal.iter().filter(|x| PREDS.contains(x)).cloned().collect();
            let mut g = vec![None, None];
            g.extend(pal.iter().filter(|x| GNS.contains(x)).map(|x| Some(*x)));
            Palette { so: pal, p, g, spread: *r.pick(&[0, 0, 1]), direct_ok: false }
        }
    }
}
impl Palette {
    fn tid(&self, r: &mut Rng) -> Tid { if r.below(16) < self.spread { 1 + r.below(NT as usize) as u64 } else { *r.pick(&self.so) } }
    fn pred(&self, r: &mut Rng) -> Tid { if r.below(16) < self.spread { *r.pick(&PREDS) } else { *r.pick(&self.p) } }
    fn gname(&self, r: &mut Rng) -> Option<Tid> { if r.below(16) < self.spread { *r.pick(&[None, None, Some(12), Some(12), Some(4), Some(13), Some(1)]) } else { *r.pick(&self.g) } }
    fn quad(&self, r: &mut Rng, isgraph: bool) -> Q4 { (self.tid(r), self.pred(r), self.tid(r), if isgraph { None } else { self.gname(r) }) }
}
fn no_g() -> GMatch { GMatch { m: GMK::Any(Any), d: GD::Any, label: "-".into() } }
/// shape: bit 8 = g bound, 4 = s bound, 2 = p bound, 1 = o bound (bound = matcher with a constant)
fn gen_qm_shape(c: &Ctx, r: &mut Rng, pal: &Palette, base: Q4, shape: usize, isgraph: bool) -> QM {
    let free = |c: &Ctx, r: &mut Rng, cands: &[Tid]| if r.chance(1, 3) { (TMK::Any(Any), "Any".to_string()) } else { gen_free_t(c, r, cands, 0) };
    let s = if shape & 4 != 0 { gen_const_t(c, r, base.0) } else { free(c, r, &pal.so) };
    let p = if shape & 2 != 0 { gen_const_t(c, r, base.1) } else { free(c, r, &pal.p) };
    let o = if shape & 1 != 0 { gen_const_t(c, r, base.2) } else { free(c, r, &pal.so) };
    let g = if isgraph { no_g() } else if shape & 8 != 0 { gmatch(c, gen_const_g(c, r, base.3)) } else if r.chance(1, 3) { gmatch(c, (GMK::Any(Any), "Any".into())) } else { gmatch(c, gen_free_g(c, r, &pal.g, 0)) };
    let mut m = QM { s: tmatch(c, s), p: tmatch(c, p), o: tmatch(c, o), g, direct: 0 };
    if pal.direct_ok { m.draw_direct(r, isgraph) }
    m
}
fn gen_qm(c: &Ctx, r: &mut Rng, pal: &Palette, inserted: &[Q4], isgraph: bool) -> QM {
    let shape = r.below(16);
    let base = if !inserted.is_empty() && r.chance(3, 5) { *r.pick(inserted) } else { pal.quad(r, isgraph) };
    gen_qm_shape(c, r, pal, base, shape, isgraph)
}
/// a bulk construction: mostly fresh quads, some repeated, some already known; one in four from a failing source
fn gen_collect(r: &mut Rng, pal: &Palette, inserted: &mut Vec<Q4>, isgraph: bool) -> Op {
    let n = r.below(9);
    let mut l: Vec<Q4> = vec![];
    for _ in 0..n {
        let q = if !l.is_empty() && r.chance(1, 6) { *r.pick(&l) } else if !inserted.is_empty() && r.chance(1, 4) { *r.pick(inserted) } else { pal.quad(r, isgraph) };
        l.push(q);
    }
    let fail = r.chance(1, 4);
    if !fail { inserted.extend(l.iter().cloned()) }
    Op::Collect { l, fail }
}
fn gen_op(c: &Ctx, r: &mut Rng, pal: &Palette, inserted: &mut Vec<Q4>, isgraph: bool) -> Op {
    let known = |r: &mut Rng, inserted: &[Q4]| if !inserted.is_empty() && r.chance(2, 3) { *r.pick(inserted) } else { pal.quad(r, isgraph) };
    match r.below(112) {
        0..=34 => { let q = if !inserted.is_empty() && r.chance(1, 6) { *r.pick(inserted) } else { pal.quad(r, isgraph) }; inserted.push(q); Op::Insert(q) }
        35..=44 => Op::Remove(known(r, inserted)),
        45..=49 => Op::Contains(known(r, inserted)),
        50..=74 => Op::Query(gen_qm(c, r, pal, inserted, isgraph)),
        75..=77 => Op::All,
        78..=82 => Op::RemoveMatching(gen_qm(c, r, pal, inserted, isgraph)),
        83..=86 => Op::RetainMatching(gen_qm(c, r, pal, inserted, isgraph)),
        87..=91 => { let n = r.below(7); let l: Vec<Q4> = (0..n).map(|_| pal.quad(r, isgraph)).collect(); inserted.extend(l.iter().cloned()); Op::InsertAll(l) }
        92..=94 => { let n = r.below(7); Op::RemoveAll((0..n).map(|_| known(r, inserted)).collect()) }
        100..=103 => Op::Clone { keep_clone: r.chance(1, 2), poke: pal.quad(r, isgraph) },
        104..=105 => gen_collect(r, pal, inserted, isgraph),
        106..=107 => { let n = r.below(5); let l: Vec<Q4> = (0..n).map(|_| pal.quad(r, isgraph)).collect(); inserted.extend(l.iter().cloned()); Op::InsertAllFail(l) }
        108 => { let n = r.below(5); Op::RemoveAllFail((0..n).map(|_| known(r, inserted)).collect()) }
        109..=111 => Op::TermCount,
        _ => Op::Enum(*r.pick(if isgraph { &[EK::Subjects, EK::Predicates, EK::Objects, EK::Blank, EK::Iris, EK::Literals, EK::Variables, EK::Quoted][..] }
                              else { &[EK::Subjects, EK::Predicates, EK::Objects, EK::GraphNames, EK::GraphNames, EK::Blank, EK::Iris, EK::Literals, EK::Variables, EK::Quoted][..] })),
    }
}
/// boundary case on a capacity-limited store: fill the term index exactly, query every shape around the
/// last index, overflow, then check that the store still works
fn gen_directed(c: &Ctx, r: &mut Rng, idx: usize, all: &[Store]) -> (Store, Vec<Op>) {
    let k = idx / 10;
    let (isgraph, fast, m) = (k % 2 == 1, (k / 2) % 2 == 0, [3u8, 4, 5][(k / 4) % 3]);
    let st = all.iter().find(|s| s.isgraph == isgraph && s.fast == fast && s.small_m == Some(m)).unwrap().clone();
    let m = m as usize;
    let p = *r.pick(&PREDS);
    let mut l: Vec<Tid> = vec![];
    while l.len() < m { let x = 1 + r.below(NT as usize) as u64; if x != p && !l.contains(&x) { l.push(x) } }
    l[1] = p;
    let fresh: Vec<Tid> = (1..=NT).filter(|x| !l.contains(x)).collect();
    let newt = *r.pick(&fresh);
    let last = l[m - 1];
    let mut ops = vec![];
    let mut stored: Vec<Q4> = vec![(l[0], l[1], l[2], None)];
    for k in 3..m {
        let old = &l[..k];
        let mut q: Q4 = (*r.pick(old), l[1], *r.pick(old), if isgraph || r.chance(1, 2) { None } else { Some(*r.pick(old)) });
        match r.below(if isgraph { 3 } else { 4 }) { 0 => q.0 = l[k], 1 => q.1 = l[k], 2 => q.2 = l[k], _ => q.3 = Some(l[k]) }
        stored.push(q);
    }
    for _ in 0..r.range(1, 2) { // a few more quads made of interned terms only
        let q: Q4 = (*r.pick(&l), l[1], *r.pick(&l), if isgraph || r.chance(1, 2) { None } else { Some(*r.pick(&l)) });
        if !stored.contains(&q) { stored.push(q) }
    }
    if !isgraph && !stored.iter().any(|q| q.3.is_some()) { stored.push((l[0], l[1], last, Some(*r.pick(&l)))) }
    if !stored.iter().any(|q| q.3.is_none() && (q.0 == last || q.1 == last || q.2 == last)) { stored.push((last, l[1], l[0], None)) }
    for q in &stored { ops.push(Op::Insert(*q)) }
    let with_last = |q: &&Q4| q.0 == last || q.1 == last || q.2 == last || q.3 == Some(last);
    let qd = *stored.iter().filter(|q| q.3.is_none()).filter(with_last).next().unwrap();
    let qn = if isgraph { qd } else { let named: Vec<&Q4> = stored.iter().filter(|q| q.3.is_some()).collect(); **named.iter().find(|q| with_last(q)).unwrap_or(&named[0]) };
    let pal = Palette { so: l.clone(), p: vec![l[1]], g: stored.iter().map(|q| q.3).collect(), spread: 0, direct_ok: false };
    let mut gbound = 0;
    for shape in 0..(if isgraph { 8 } else { 16 }) {
        let base = if shape & 8 != 0 { gbound += 1; if gbound % 2 == 1 { qd } else { qn } } else if r.chance(1, 2) { qd } else { qn };
        ops.push(Op::Query(gen_qm_shape(c, r, &pal, base, shape, isgraph)));
    }
    let mut over: Q4 = (l[0], l[1], l[2], None);
    match r.below(if isgraph { 2 } else { 3 }) { 0 => over.0 = newt, 1 => over.2 = newt, _ => over.3 = Some(newt) }
    ops.push(Op::Insert(over)); // must fail: the term index is full
    ops.push(Op::Contains(over));
    ops.push(Op::Contains(qd));
    ops.push(Op::Query(gen_qm_shape(c, r, &pal, qd, 0, isgraph)));
    let pos = if qd.0 == last { 4 } else if qd.2 == last { 1 } else { 2 };
    ops.push(Op::Query(gen_qm_shape(c, r, &pal, qd, pos, isgraph)));
    ops.push(Op::Remove(qd));
    let again = [(last, l[1], l[0], None), (l[0], l[1], last, None), (last, l[1], last, None), (l[0], l[1], l[0], None), (last, last, last, None)];
    ops.push(Op::Insert(*again.iter().find(|q| !stored.contains(q)).unwrap_or(&again[0]))); // interned terms only: must work
    ops.push(Op::Insert(qd));
    ops.push(Op::All);
    ops.push(Op::Enum(EK::Subjects));
    (st, ops)
}

/// directed histories about ENUMERATION matchers (`[T; N]`, `&[T]` and their graph-name forms): lists with repeated terms,
/// with one term under several spellings, with terms absent from the store, of length 0 to 4, in every position (alone or in
/// several positions at once), handed to the store as the real sophia types (`direct`), in queries, pattern removals and
/// pattern retentions, on every store type in turn
fn shuffle<T>(r: &mut Rng, v: &mut [T]) { for i in (1..v.len()).rev() { let j = r.below(i + 1); v.swap(i, j) } }
fn gen_enum_t(c: &Ctx, r: &mut Rng, must: Option<Tid>, cands: &[Tid]) -> (TMK, String) {
    let n = *r.pick(&[2usize, 2, 2, 3, 3, 4, 0, 1]);
    let mut ids: Vec<Tid> = vec![];
    for k in 0..n {
        let x = if k == 0 && must.is_some() && r.chance(5, 6) { must.unwrap() }
            else if !ids.is_empty() && r.chance(1, 2) { *r.pick(&ids) } // a term listed more than once
            else { pick_id(r, cands) };
        ids.push(x);
    }
    shuffle(r, &mut ids);
    if ids.len() == 2 && r.chance(1, 2) { (TMK::Arr2([c.term(ids[0], r), c.term(ids[1], r)]), format!("[{},{}]", ids[0], ids[1])) }
    else if ids.len() == 3 && r.chance(1, 3) { (TMK::Arr3([c.term(ids[0], r), c.term(ids[1], r), c.term(ids[2], r)]), format!("[{},{},{}]", ids[0], ids[1], ids[2])) }
    else { (TMK::Slice(leak(ids.iter().map(|i| c.term(*i, r)).collect())), format!("&{ids:?}[..]")) }
}
fn gen_enum_g(c: &Ctx, r: &mut Rng, must: Option<Option<Tid>>, cands: &[Option<Tid>]) -> (GMK, String) {
    let n = *r.pick(&[2usize, 2, 2, 3, 3, 4, 0, 1]);
    let mut ids: Vec<Option<Tid>> = vec![];
    for k in 0..n {
        let x = if k == 0 && must.is_some() && r.chance(5, 6) { must.unwrap() }
            else if !ids.is_empty() && r.chance(1, 2) { *r.pick(&ids) }
            else { pick_gid(r, cands) };
        ids.push(x);
    }
    shuffle(r, &mut ids);
    let txt = ids.iter().map(g_txt).collect::<Vec<_>>().join(",");
    if ids.len() == 2 && r.chance(1, 2) { (GMK::Arr2([gname(c, r, ids[0]), gname(c, r, ids[1])]), format!("[{txt}]")) }
    else { (GMK::Slice(leak(ids.iter().map(|i| gname(c, r, *i)).collect())), format!("&[{txt}][..]")) }
}
fn gen_directed_enum(c: &Ctx, r: &mut Rng, idx: usize, all: &[Store]) -> (Store, Vec<Op>) {
    let k = idx / 10;
    let hooked: Vec<&Store> = all.iter().filter(|s| s.small_m.is_none()).collect();
    let st = if k % 3 == 2 { all[(k / 3) % all.len()].clone() } else { hooked[(k - k / 3) % hooked.len()].clone() };
    let isgraph = st.isgraph;
    let pal = palette(r, &st);
    let mut inserted: Vec<Q4> = vec![];
    let mut ops: Vec<Op> = vec![];
    // a few subjects / objects / graph names shared by several quads, so that one listed term selects several quads
    let n0 = r.range(4, 9);
    let l: Vec<Q4> = (0..n0).map(|_| { let mut q = pal.quad(r, isgraph); if !inserted.is_empty() && r.chance(1, 3) { let b: Q4 = *r.pick(&inserted); match r.below(3) { 0 => q.0 = b.0, 1 => q.2 = b.2, _ => q.3 = b.3 } } inserted.push(q); q }).collect();
    if r.chance(1, 3) { ops.push(Op::Collect { l, fail: false }) } else if r.chance(1, 2) { ops.push(Op::InsertAll(l)) } else { ops.extend(l.into_iter().map(Op::Insert)) }
    let npos = if isgraph { 3 } else { 4 };
    for round in 0..r.range(6, 12) {
        let base = if r.chance(5, 6) { *r.pick(&inserted) } else { pal.quad(r, isgraph) };
        let main = round % npos; // the position that gets an enumeration for sure
        let mut t: Vec<(TMK, String)> = vec![];
        for (pos, (id, cands)) in [(base.0, &pal.so), (base.1, &pal.p), (base.2, &pal.so)].into_iter().enumerate() {
            t.push(if pos == main || r.chance(1, 4) { gen_enum_t(c, r, Some(id), cands) }
                else { match r.below(6) { 0..=2 => (TMK::Any(Any), "Any".to_string()), 3 | 4 => gen_const_t(c, r, id), _ => gen_free_t(c, r, cands, 0) } });
        }
        let g = if isgraph { no_g() }
            else if main == 3 || r.chance(1, 4) { gmatch(c, gen_enum_g(c, r, Some(base.3), &pal.g)) }
            else { match r.below(6) { 0..=2 => gmatch(c, (GMK::Any(Any), "Any".into())), 3 | 4 => gmatch(c, gen_const_g(c, r, base.3)), _ => gmatch(c, gen_free_g(c, r, &pal.g, 0)) } };
        let (o, p, s) = (t.pop().unwrap(), t.pop().unwrap(), t.pop().unwrap());
        let mut m = QM { s: tmatch(c, s), p: tmatch(c, p), o: tmatch(c, o), g, direct: 0 };
        if pal.direct_ok { m.direct = match r.below(8) { 0 => 0, 1..=3 if m.all_fam(isgraph) => 5, _ => 1 + main as u8 } }
        match r.below(8) {
            0 => { ops.push(Op::RemoveMatching(m)); ops.push(Op::All) }
            1 => { ops.push(Op::RetainMatching(m)); ops.push(Op::All) }
            _ => ops.push(Op::Query(m)),
        }
        if r.chance(1, 3) { let q = pal.quad(r, isgraph); inserted.push(q); ops.push(Op::Insert(q)) }
    }
    ops.push(Op::All);
    (st, ops)
}

// ---------- Coq printing ----------
fn c_g(g: &Option<Tid>) -> String { coq_opt(g.map(|g| g.to_string())) }
fn c_q4(q: &Q4) -> String { format!("mkQ {} {} {} {}", q.0, q.1, q.2, c_g(&q.3)) }
fn c_ql(l: &[Q4]) -> String { coq_list(l.iter().map(c_q4)) }
fn c_ids(l: &[Tid]) -> String { coq_list(l.iter().map(|x| x.to_string())) }
fn c_gl(l: &[Option<Tid>]) -> String { coq_list(l.iter().map(|g| match g { None => "None".to_string(), Some(x) => format!("Some {x}") })) }
fn c_md(m: &MD) -> String { match m { MD::Any => "(md MAny)".into(), MD::Const(x) => format!("(md (MConst {x}))"), MD::OneOf(l) => format!("(md (MOneOf {}))", c_ids(l)), MD::NotOneOf(l) => format!("(md (MNotOneOf {}))", c_ids(l)) } }
fn c_gd(m: &GD) -> String { match m { GD::Any => "(gd GAny)".into(), GD::Const(g) => format!("(gd (GConst {}))", c_g(g)), GD::OneOf(l) => format!("(gd (GOneOf {}))", c_gl(l)), GD::NotOneOf(l) => format!("(gd (GNotOneOf {}))", c_gl(l)) } }
fn c_qm(m: &QM, isgraph: bool) -> String { format!("{} {} {} {}", c_md(&m.s.d), c_md(&m.p.d), c_md(&m.o.d), if isgraph { "(gd GAny)".to_string() } else { c_gd(&m.g.d) }) }
fn c_op(o: &Op, isgraph: bool) -> String {
    match o {
        Op::Insert(q) => format!("Insert ({})", c_q4(q)), Op::Remove(q) => format!("Remove ({})", c_q4(q)), Op::Contains(q) => format!("Contains ({})", c_q4(q)),
        Op::Query(m) => format!("Query {}", c_qm(m, isgraph)), Op::All => "All".into(),
        Op::RemoveMatching(m) => format!("RemoveMatching {}", c_qm(m, isgraph)), Op::RetainMatching(m) => format!("RetainMatching {}", c_qm(m, isgraph)),
        Op::InsertAll(l) => format!("InsertAll {}", c_ql(l)), Op::RemoveAll(l) => format!("RemoveAll {}", c_ql(l)),
        Op::Enum(k) => format!("Enum {}", match k { EK::Subjects => "ESubjects", EK::Predicates => "EPredicates", EK::Objects => "EObjects", EK::GraphNames => "EGraphNames",
            EK::Blank => "(EAtoms 0)", EK::Iris => "(EAtoms 1)", EK::Literals => "(EAtoms 2)", EK::Variables => "(EAtoms 4)", EK::Quoted => "EQuoted" }),
        _ => unreachable!("not a base operation"),
    }
}
fn c_xop(o: &Op, isgraph: bool) -> String {
    match o {
        Op::Clone { .. } => "XClone".into(),
        Op::Collect { l, fail } => format!("XCollect {} {}", c_ql(l), coq_bool(*fail)),
        Op::InsertAllFail(l) => format!("XInsertAllFail {}", c_ql(l)),
        Op::RemoveAllFail(l) => format!("XRemoveAllFail {}", c_ql(l)),
        Op::TermCount => "XTermCount".into(),
        _ => format!("XBase ({})", c_op(o, isgraph)),
    }
}
fn c_out(o: &Out) -> String {
    match o {
        Out::Flag(b) => format!("OFlag {}", coq_bool(*b)), Out::Count(n) => format!("OCount {n}"), Out::Err => "OErr".into(), Out::Unit => "OUnit".into(),
        Out::Quads(l) => format!("OQuads {}", c_ql(l)), Out::Terms(l) => format!("OTerms {}", c_ids(l)),
        Out::Unexpected(_) => "OErr; OErr".into(), // an unexpected error never matches the model: the length differs
    }
}

// ---------- SimpleTermIndex used directly through TermIndex / GraphNameIndex (Model.v section 14) ----------
#[derive(Clone, Debug, PartialEq)]
enum TiOp { Ensure(Tid), Get(Tid), Term(u64), GraphName(Option<u64>) /* None: the index MAX */, GnIndex(Option<Tid>), DefaultIdx, Len, Clone }
const TI_KINDS: [&str; 9] = ["u16", "u32", "usize", "SmallIdx<3>", "SmallIdx<4>", "SmallIdx<5>", "SmallIdx<6>", "SmallIdx<8>", "SmallIdx<12>"];
fn ti_max(kind: &str) -> u64 {
    match kind { "u16" => 65535, "u32" => 4294967295, "usize" => u64::MAX, "SmallIdx<3>" => 3, "SmallIdx<4>" => 4, "SmallIdx<5>" => 5, "SmallIdx<6>" => 6, "SmallIdx<8>" => 8, "SmallIdx<12>" => 12, _ => unreachable!() }
}
/// the history is generated along the oracle (a list of terms in order of first use), so that get_term is only
/// asked for valid indexes (its precondition)
fn gen_ti(r: &mut Rng, max: u64) -> (Vec<TiOp>, Vec<Option<u64>>) {
    let n = r.range(1, 40);
    let t = if max <= 12 { r.range((max as usize).saturating_sub(1).max(2), max as usize + 3) } else { r.range(3, 12) };
    let mut pal: Vec<Tid> = vec![];
    while pal.len() < t { let x = 1 + r.below(NT as usize) as u64; if !pal.contains(&x) { pal.push(x) } }
    let mut ts: Vec<Tid> = vec![]; // the oracle
    let (mut ops, mut exp) = (vec![], vec![]);
    for _ in 0..n {
        let tid = |r: &mut Rng| if r.chance(1, 8) { 1 + r.below(NT as usize) as u64 } else { *r.pick(&pal) };
        let pos = |ts: &Vec<Tid>, t: Tid| ts.iter().position(|x| *x == t).map(|i| i as u64);
        let (op, e) = match r.below(20) {
            0..=7 => { let t = tid(r); let e = match pos(&ts, t) { Some(i) => Some(i), None => if ts.len() as u64 >= max { None } else { ts.push(t); Some(ts.len() as u64 - 1) } }; (TiOp::Ensure(t), e) }
            8..=10 => { let t = tid(r); (TiOp::Get(t), pos(&ts, t)) }
            11 | 12 if !ts.is_empty() => { let i = r.below(ts.len()); (TiOp::Term(i as u64), Some(ts[i])) }
            13 | 14 => if ts.is_empty() || r.chance(1, 3) { (TiOp::GraphName(None), None) } else { let i = r.below(ts.len()); (TiOp::GraphName(Some(i as u64)), Some(ts[i])) },
            15 | 16 => if r.chance(1, 3) { (TiOp::GnIndex(None), Some(max)) } else { let t = tid(r); (TiOp::GnIndex(Some(t)), pos(&ts, t)) },
            17 => (TiOp::DefaultIdx, Some(max)),
            18 => (TiOp::Clone, None),
            _ => (TiOp::Len, Some(ts.len() as u64)),
        };
        ops.push(op); exp.push(e);
    }
    (ops, exp)
}
fn run_ti<I: Index + Default>(c: &Ctx, ops: &[TiOp], r: &mut Rng) -> Vec<Option<u64>> {
    let mut ti: SimpleTermIndex<I> = if r.chance(1, 2) { SimpleTermIndex::new() } else { Default::default() };
    let idx = |i: &Option<u64>| match i { Some(i) => I::from_usize(*i as usize), None => I::MAX };
    let mut outs = vec![];
    for op in ops {
        outs.push(match op {
            TiOp::Ensure(t) => { let t = c.term(*t, r); let res = if r.chance(1, 2) { ti.ensure_index(&t) } else { ti.ensure_index(t) }; res.ok().map(|i| i.into_usize() as u64) }
            TiOp::Get(t) => { let t = c.term(*t, r); let res = if r.chance(1, 2) { ti.get_index(&t) } else { ti.get_index(t) }; res.map(|i| i.into_usize() as u64) }
            TiOp::Term(i) => Some(c.id(ti.get_term(idx(&Some(*i))))),
            TiOp::GraphName(i) => ti.get_graph_name(idx(i)).map(|t| c.id(t)),
            TiOp::GnIndex(g) => ti.get_graph_name_index(g.map(|g| c.term(g, r))).map(|i| i.into_usize() as u64),
            TiOp::DefaultIdx => Some(ti.get_default_graph_index().into_usize() as u64),
            TiOp::Len => if ti.is_empty() == (ti.len() == 0) { Some(ti.len() as u64) } else { Some(u64::MAX - 1) },
            // go on with the clone; the original gets one more term, then is dropped
            TiOp::Clone => { let mut old = std::mem::replace(&mut ti, SimpleTermIndex::new()); ti = old.clone(); let _ = old.ensure_index(iri("http://example.org/only-in-the-original")); drop(old); None }
        });
    }
    outs
}
fn run_ti_kind(c: &Ctx, kind: &str, ops: &[TiOp], r: &mut Rng) -> Vec<Option<u64>> {
    match kind {
        "u16" => run_ti::<u16>(c, ops, r), "u32" => run_ti::<u32>(c, ops, r), "usize" => run_ti::<usize>(c, ops, r),
        "SmallIdx<3>" => run_ti::<SmallIdx<3>>(c, ops, r), "SmallIdx<4>" => run_ti::<SmallIdx<4>>(c, ops, r), "SmallIdx<5>" => run_ti::<SmallIdx<5>>(c, ops, r),
        "SmallIdx<6>" => run_ti::<SmallIdx<6>>(c, ops, r), "SmallIdx<8>" => run_ti::<SmallIdx<8>>(c, ops, r), "SmallIdx<12>" => run_ti::<SmallIdx<12>>(c, ops, r),
        _ => unreachable!(),
    }
}
fn c_tiop(o: &TiOp, max: u64) -> String {
    match o {
        TiOp::Ensure(t) => format!("TiEnsure {t}"), TiOp::Get(t) => format!("TiGet {t}"), TiOp::Term(i) => format!("TiTerm {i}"),
        TiOp::GraphName(i) => format!("TiGraphName {}", i.unwrap_or(max)), TiOp::GnIndex(g) => format!("TiGnIndex {}", c_g(g)),
        TiOp::DefaultIdx => "TiDefault".into(), TiOp::Len => "TiLen".into(), TiOp::Clone => "TiClone".into(),
    }
}

// ---------- the real 16-bit boundary (not a Coq case) ----------
fn u16_full(sum: &mut Summary) {
    let mut fail = |what: String| sum.oracle_failures.push(("u16-full".into(), what));
    let n = |k: usize| iri(&format!("http://example.org/n{k}"));
    let p = iri("http://example.org/p");
    // graph: 1 predicate + 2 * 32767 nodes = 65535 terms, indices 0..=65534
    {
        let mut g = sophia_inmem::graph::small::FastGraph::default();
        let triples = 32767usize;
        for j in 0..triples {
            match g.insert(n(2 * j), p.clone(), n(2 * j + 1)) { Ok(true) => {} other => { fail(format!("small::FastGraph: insert #{j} of fresh terms returned {other:?}")); break } }
        }
        let last = n(2 * triples - 1); // the term with index 65534
        let count = g.triples().count();
        if count != triples { fail(format!("small::FastGraph: {count} triples after {triples} inserts")) }
        let r = g.insert(last.clone(), p.clone(), n(2 * triples));
        if r.is_ok() { fail(format!("small::FastGraph: inserting the 65536th term returned {r:?} instead of TermIndexFullError")) }
        let r = g.insert(n(2 * triples), p.clone(), last.clone());
        if r.is_ok() { fail(format!("small::FastGraph: inserting the 65536th term (as subject) returned {r:?}")) }
        let count = g.triples().count();
        if count != triples { fail(format!("small::FastGraph: {count} triples after the failed inserts, expected {triples}")) }
        let r = g.insert(last.clone(), p.clone(), n(0));
        if !matches!(r, Ok(true)) { fail(format!("small::FastGraph: insert of interned terms on a full index returned {r:?}")) }
        let got: Vec<[ST; 3]> = g.triples_matching([last.clone()], Any, Any).map(|t| { let t = t.unwrap(); [t.s().into_term(), t.p().into_term(), t.o().into_term()] }).collect();
        if got != vec![[last.clone(), p.clone(), n(0)]] { fail(format!("small::FastGraph: triples_matching([last], Any, Any) = {got:?}")) }
        let got = g.triples_matching(Any, Any, [last.clone()]).count();
        if got != 1 { fail(format!("small::FastGraph: triples_matching(Any, Any, [last]) has {got} items, expected 1")) }
        if !matches!(g.contains(last.clone(), p.clone(), n(0)), Ok(true)) { fail("small::FastGraph: contains(last, p, n0) is not true".into()) }
        let r = g.remove(last.clone(), p.clone(), n(0));
        if !matches!(r, Ok(true)) { fail(format!("small::FastGraph: remove returned {r:?}")) }
        let got = g.triples_matching([last.clone()], Any, Any).count();
        if got != 0 { fail(format!("small::FastGraph: {got} triples with subject `last` after the removal")) }
        if g.triples().count() != triples { fail("small::FastGraph: wrong final triple count".into()) }
    }
    // dataset: p, n0, n1 (default graph) + n2, g1 (named graph) + 2 * 32765 nodes = 65535 terms; the default graph is encoded as 65535
    {
        let mut d = sophia_inmem::dataset::small::LightDataset::default();
        let g1 = iri("http://example.org/g1");
        let mut quads = 0usize;
        let mut ok = true;
        ok &= matches!(d.insert(n(0), p.clone(), n(1), None::<ST>), Ok(true)); quads += 1;
        ok &= matches!(d.insert(n(2), p.clone(), n(0), Some(g1.clone())), Ok(true)); quads += 1;
        let rest = 32765usize;
        for j in 0..rest {
            let g = if j % 2 == 0 { None } else { Some(g1.clone()) };
            ok &= matches!(d.insert(n(3 + 2 * j), p.clone(), n(4 + 2 * j), g), Ok(true)); quads += 1;
        }
        if !ok { fail("small::LightDataset: some insert of fresh terms did not return Ok(true)".into()) }
        let last = n(4 + 2 * (rest - 1)); // index 65534
        let count = d.quads().count();
        if count != quads { fail(format!("small::LightDataset: {count} quads after {quads} inserts")) }
        let fresh = n(4 + 2 * rest);
        let r = d.insert(last.clone(), p.clone(), fresh.clone(), None::<ST>);
        if r.is_ok() { fail(format!("small::LightDataset: inserting the 65536th term returned {r:?}")) }
        let r = d.insert(last.clone(), p.clone(), n(0), Some(fresh.clone()));
        if r.is_ok() { fail(format!("small::LightDataset: inserting the 65536th term as graph name returned {r:?}")) }
        let count = d.quads().count();
        if count != quads { fail(format!("small::LightDataset: {count} quads after the failed inserts, expected {quads}")) }
        let r1 = d.insert(last.clone(), p.clone(), n(0), None::<ST>);
        let r2 = d.insert(last.clone(), p.clone(), n(0), Some(g1.clone()));
        let r3 = d.insert(n(0), p.clone(), n(1), Some(last.clone()));
        if !matches!((&r1, &r2, &r3), (Ok(true), Ok(true), Ok(true))) { fail(format!("small::LightDataset: inserts of interned terms on a full index returned {r1:?} {r2:?} {r3:?}")) }
        let spog = |q: Result<Gspo<&ST>, _>| -> Spog<ST> { let q: Gspo<&ST> = q.map_err(|e: sophia_inmem::index::TermIndexFullError| e).unwrap(); ([q.s().clone(), q.p().clone(), q.o().clone()], q.g().cloned()) };
        let mut got: Vec<Spog<ST>> = d.quads_matching([last.clone()], Any, Any, Any).map(spog).collect();
        got.sort();
        let mut exp: Vec<Spog<ST>> = vec![([last.clone(), p.clone(), n(0)], None), ([last.clone(), p.clone(), n(0)], Some(g1.clone()))];
        exp.sort();
        if got != exp { fail(format!("small::LightDataset: quads_matching([last], Any, Any, Any) = {got:?}")) }
        let got: Vec<Spog<ST>> = d.quads_matching([last.clone()], Any, Any, [None::<ST>]).map(spog).collect();
        if got != vec![([last.clone(), p.clone(), n(0)], None)] { fail(format!("small::LightDataset: quads_matching([last], Any, Any, [default]) = {got:?}")) }
        let got: Vec<Spog<ST>> = d.quads_matching(Any, Any, Any, [Some(last.clone())]).map(spog).collect();
        if got != vec![([n(0), p.clone(), n(1)], Some(last.clone()))] { fail(format!("small::LightDataset: quads_matching(Any, Any, Any, [last]) = {got:?}")) }
        let got = d.quads_matching(Any, Any, Any, [None::<ST>]).count();
        let exp_default = 1 + (rest + 1) / 2 + 1;
        if got != exp_default { fail(format!("small::LightDataset: {got} quads in the default graph, expected {exp_default}")) }
        let r1 = d.remove(last.clone(), p.clone(), n(0), None::<ST>);
        let r2 = d.remove(last.clone(), p.clone(), n(0), Some(g1.clone()));
        let r3 = d.remove(n(0), p.clone(), n(1), Some(last.clone()));
        if !matches!((&r1, &r2, &r3), (Ok(true), Ok(true), Ok(true))) { fail(format!("small::LightDataset: removes returned {r1:?} {r2:?} {r3:?}")) }
        if d.quads_matching([last.clone()], Any, Any, Any).count() != 0 { fail("small::LightDataset: quads with subject `last` remain after the removal".into()) }
        if d.quads().count() != quads { fail("small::LightDataset: wrong final quad count".into()) }
    }
    sum.extra.push(("u16_full".into(), "true".into()));
}

thread_local! { static LAST_PANIC: std::cell::RefCell<String> = std::cell::RefCell::new(String::new()); }
thread_local! { static CUR_CASE: std::cell::Cell<usize> = std::cell::Cell::new(0); }
fn main() {
    let a = parse_args();
    std::panic::set_hook(Box::new(|info| { LAST_PANIC.with(|l| *l.borrow_mut() = format!("{info}").replace('\n', " ")); }));
    // a panic that nothing catches (the harness's own bookkeeping tripping over an answer of the implementation) must
    // not end the run silently: say which case and what
    struct Bomb;
    impl Drop for Bomb { fn drop(&mut self) { if std::thread::panicking() { eprintln!("harness c01: uncaught panic in case {}: {}", CUR_CASE.with(|c| c.get()), LAST_PANIC.with(|l| l.borrow().clone())); } } }
    let _bomb = Bomb;
    let ctx = Ctx { pool: small_pool() };
    assert_eq!(ctx.pool.len() as u64, NT);
    let all = stores();
    let capped: Vec<usize> = (0..all.len()).filter(|i| all[*i].small_m.is_some()).collect();
    let uncapped: Vec<usize> = (0..all.len()).filter(|i| all[*i].small_m.is_none()).collect();
    let mut sum = Summary::default();
    sum.rule = "case = (store type, history of 1..60 mixed ops (then all quads and, every other time, the term count): insert/remove/contains/query/all/remove_matching/retain_matching/insert_all/remove_all/term enumerations, \
clone, from_quad_source/from_triple_source/collect_quads/collect_triples (also from failing sources), insert_all/remove_all from failing sources, length of the term index, \
with real sophia matchers of every shipped kind, described to Coq by constant()/extension over the 16-class pool) run on the real store from empty (new() or default()), each op \
reaching the store directly, through &D / &mut D or (vectors) through the slice; every 10th case is a directed \
term-index-boundary history on a capacity-limited store; every 10th case is a directed enumeration-matcher history (arrays/slices with repeated, respelled, absent \
terms in every position, on every store type in turn); in about 5 queries/pattern mutations of 8 one position (or every position) hands the real sophia matcher type to the store \
instead of the harness enum; every 20th case is a history of a SimpleTermIndex used directly (ensure_index/get_index/get_term/get_graph_name/\
get_graph_name_index/len/clone); non-trivial = at least one mutation that changed the store AND at least one non-empty query result (term-index cases: an index was assigned AND \
a lookup succeeded); distinct = distinct printed case text (store, ops with matcher labels)".into();
    let mut cases: Vec<(usize, String)> = vec![];
    let mut seen = HashSet::new();
    let base = Rng::new(a.seed);
    let range: Vec<usize> = match a.only { Some(i) => vec![i], None => (0..a.n).collect() };
    for idx in range {
        CUR_CASE.with(|c| c.set(idx));
        if a.only.is_none() { let _ = std::fs::create_dir_all(&a.out); let _ = std::fs::write(format!("{}/progress", a.out), idx.to_string()); }
        let mut r = base.fork(idx as u64);
        if idx % 20 == 3 {
            // SimpleTermIndex on its own
            sum.bump("kind:term-index");
            let kind = *r.pick(&TI_KINDS);
            let max = ti_max(kind);
            let (tops, exp) = gen_ti(&mut r, max);
            let text = format!("SimpleTermIndex<{kind}> ops={tops:?}");
            let outs = match std::panic::catch_unwind(std::panic::AssertUnwindSafe(|| run_ti_kind(&ctx, kind, &tops, &mut r))) {
                Ok(o) => o,
                Err(_) => {
                    let msg = LAST_PANIC.with(|l| l.borrow().clone());
                    sum.oracle_failures.push((idx.to_string(), format!("SimpleTermIndex<{kind}> PANICKED ({}); full case: {text}", msg.chars().take(300).collect::<String>())));
                    sum.bump("implementation-panic"); sum.evaluations += 1; continue;
                }
            };
            let c_o = |l: &[Option<u64>]| coq_list(l.iter().map(|x| match x { Some(x) => format!("Some {x}"), None => "None".into() }));
            let coq = format!("ti_case_ok {max} {} {}", coq_list(tops.iter().map(|o| c_tiop(o, max))), c_o(&outs));
            if a.only.is_some() { println!("CASE {idx}: {text}\nIMPL   {outs:?}\nORACLE {exp:?}\nCOQ    {coq}"); }
            if outs != exp {
                let k = outs.iter().zip(exp.iter()).position(|(x, y)| x != y).unwrap_or(0);
                sum.oracle_failures.push((idx.to_string(), format!("SimpleTermIndex<{kind}> op#{k} {:?}: implementation returned {:?}, the oracle gives {:?}; full case: {text}", tops.get(k), outs.get(k), exp.get(k))));
            }
            let assigned = tops.iter().zip(outs.iter()).any(|(o, x)| matches!(o, TiOp::Ensure(_)) && x.is_some());
            let found = tops.iter().zip(outs.iter()).any(|(o, x)| matches!(o, TiOp::Get(_) | TiOp::Term(_) | TiOp::GraphName(Some(_))) && x.is_some());
            if seen.insert(text.clone()) && assigned && found { sum.distinct_nontrivial += 1; }
            sum.bump(&format!("term-index:{kind}"));
            for (o, x) in tops.iter().zip(outs.iter()) {
                sum.bump(&format!("ti-op:{}", match o { TiOp::Ensure(_) => "ensure_index", TiOp::Get(_) => "get_index", TiOp::Term(_) => "get_term", TiOp::GraphName(_) => "get_graph_name",
                    TiOp::GnIndex(_) => "get_graph_name_index", TiOp::DefaultIdx => "get_default_graph_index", TiOp::Len => "len", TiOp::Clone => "clone" }));
                if matches!(o, TiOp::Ensure(_)) && x.is_none() { sum.bump("ti-out:TermIndexFull") }
            }
            cases.push((idx, coq));
            sum.evaluations += 1;
            continue;
        }
        let (st, ops) = if idx % 10 == 7 {
            sum.bump("kind:directed-boundary");
            gen_directed(&ctx, &mut r, idx, &all)
        } else if idx % 10 == 5 {
            sum.bump("kind:directed-enumeration");
            gen_directed_enum(&ctx, &mut r, idx, &all)
        } else {
            sum.bump("kind:random");
            let st = if r.chance(1, 2) { all[*r.pick(&capped)].clone() } else { all[*r.pick(&uncapped)].clone() };
            let nops = r.range(1, 60);
            let pal = palette(&mut r, &st);
            let mut inserted = vec![];
            // one history in four starts with the bulk constructor (its usual place)
            let mut ops: Vec<Op> = if r.chance(1, 4) { vec![gen_collect(&mut r, &pal, &mut inserted, st.isgraph)] } else { vec![] };
            ops.extend((0..nops).map(|_| gen_op(&ctx, &mut r, &pal, &mut inserted, st.isgraph)));
            // the final state is always observed: the whole content, and (every other history) the size of the term index
            ops.push(Op::All);
            if r.chance(1, 2) { ops.push(Op::TermCount) }
            (st, ops)
        };
        let text = format!("{} ops=[{}]", st.name, ops.iter().map(|o| op_text(o, st.isgraph)).collect::<Vec<_>>().join("; "));
        // a panic of the implementation (an internal assertion, an out-of-bounds index ...) is a failure of this case, with the history as replay
        let outs = match std::panic::catch_unwind(std::panic::AssertUnwindSafe(|| run_real(&ctx, &st, &ops, &mut r))) {
            Ok(o) => o,
            Err(_) => {
                let msg = LAST_PANIC.with(|l| l.borrow().clone());
                sum.oracle_failures.push((idx.to_string(), format!("store={}: the implementation PANICKED during the history ({}); full case: {text}", st.name, msg.chars().take(300).collect::<String>())));
                sum.bump("implementation-panic"); sum.evaluations += 1; continue;
            }
        };
        let exp = run_oracle(&st, &ops);
        let coq = if ops.iter().all(Op::is_base) { format!("case_ok the_pool {} {} {} {}", st.config, st.max, coq_list(ops.iter().map(|o| c_op(o, st.isgraph))), coq_list(outs.iter().map(c_out))) }
            else { format!("xcase_ok the_pool {} {} {} {}", st.config, st.max, coq_list(ops.iter().map(|o| c_xop(o, st.isgraph))), coq_list(outs.iter().map(c_out))) };
        if a.only.is_some() { println!("CASE {idx}: {text}\nIMPL   {outs:?}\nORACLE {exp:?}\nCOQ    {coq}"); }
        if outs != exp {
            let k = outs.iter().zip(exp.iter()).position(|(x, y)| x != y).unwrap_or(0);
            sum.oracle_failures.push((idx.to_string(), format!("store={} op#{k} {}: implementation returned {:?}, the oracle gives {:?}; full case: {text}",
                st.name, ops.get(k).map(|o| op_text(o, st.isgraph)).unwrap_or_default(), outs.get(k), exp.get(k))));
        }
        let changed = ops.iter().zip(outs.iter()).any(|(o, x)| match (o, x) {
            (Op::Insert(_) | Op::Remove(_), Out::Flag(true)) => true,
            (Op::RemoveMatching(_) | Op::InsertAll(_) | Op::RemoveAll(_), Out::Count(n)) => *n > 0,
            (Op::Collect { l, .. }, Out::Flag(true)) => !l.is_empty(),
            _ => false,
        });
        let nonempty = outs.iter().any(|x| matches!(x, Out::Quads(l) if !l.is_empty()));
        if seen.insert(text.clone()) && changed && nonempty { sum.distinct_nontrivial += 1; }
        sum.bump(&format!("store:{}", st.name));
        sum.bump(&format!("config:{} {}", st.config, if st.small_m.is_some() { "M" } else if st.max == 0 { "-" } else if st.max == 65535 { "u16" } else if st.max == u64::MAX { "usize" } else { "u32" }));
        if st.small_m.is_some() { sum.bump(if outs.contains(&Out::Err) { "capped:overflowed" } else { "capped:no-overflow" }); }
        for (o, x) in ops.iter().zip(outs.iter()) {
            sum.bump(&format!("op:{}", op_name(o)));
            if *x == Out::Err { sum.bump("out:TermIndexFull") }
            if let (Op::Collect { .. }, Out::Err) = (o, x) { sum.bump("collect:TermIndexFull") }
            if let (Op::TermCount, Out::Count(_)) = (o, x) { sum.bump("term-count:observed") }
            if let Op::Query(m) | Op::RemoveMatching(m) | Op::RetainMatching(m) = o {
                let bit = |d: &MD| matches!(d, MD::Const(_)) as usize;
                let shape = 8 * (matches!(m.g.d, GD::Const(_)) as usize) + 4 * bit(&m.s.d) + 2 * bit(&m.p.d) + bit(&m.o.d);
                sum.bump(&format!("shape:gspo={shape:04b}"));
                for t in [&m.s, &m.p, &m.o] { sum.bump(&format!("tmatcher:{}", tmk_kind(&t.m))); }
                if !st.isgraph { sum.bump(&format!("gmatcher:{}", gmk_kind(&m.g.m))); }
                if matches!(x, Out::Quads(l) if !l.is_empty()) { sum.bump("query:non-empty") }
                sum.bump(&format!("direct:{}", ["none", "s", "p", "o", "g", "all"][m.direct as usize]));
                if m.direct != 0 {
                    let mut real: Vec<&'static str> = vec![];
                    if m.direct == 1 || m.direct == 5 { real.push(tmk_kind(&m.s.m)) }
                    if m.direct == 2 || m.direct == 5 { real.push(tmk_kind(&m.p.m)) }
                    if m.direct == 3 || m.direct == 5 { real.push(tmk_kind(&m.o.m)) }
                    if !st.isgraph && (m.direct == 4 || m.direct == 5) { real.push(gmk_kind(&m.g.m)) }
                    for k in real { sum.bump(&format!("direct-type:{k}")) }
                }
                // enumerations listing one term (class) more than once
                let rep = |lab: &str| { let inner: Vec<&str> = lab.trim_start_matches('&').trim_end_matches("[..]").trim_matches(|ch| ch == '[' || ch == ']').split(',').map(|x| x.trim()).collect(); (1..inner.len()).any(|i| inner[..i].contains(&inner[i])) };
                for (pos, (k, lab)) in [(tmk_kind(&m.s.m), &m.s.label), (tmk_kind(&m.p.m), &m.p.label), (tmk_kind(&m.o.m), &m.o.label)].into_iter().enumerate() {
                    if matches!(k, "[T;2]" | "[T;3]" | "&[T]") && rep(lab) { sum.bump(&format!("enum-with-repeats:{}{}", ["s", "p", "o"][pos], if m.direct == pos as u8 + 1 || m.direct == 5 { ":direct" } else { "" })) }
                }
            }
        }
        if sum.samples.len() < 3 { sum.samples.push(format!("case {idx}: {text} => {outs:?}")); }
        cases.push((idx, coq));
        sum.evaluations += 1;
    }
    if a.rest.iter().any(|x| x == "--u16-full") { u16_full(&mut sum); }
    if a.only.is_none() {
        let pool_def = format!("From Sophia.C01 Require Import Model.\nDefinition the_pool : pool := {}.", coq_list((1..=NT).map(|i| { let (k, at, tc) = pool_info(i); format!("({i}, ({k}, {}, {}))", c_ids(&at), c_ids(&tc)) })));
        sum.shards = write_shards(&a.out, &pool_def, &cases, a.shards);
        std::fs::write(format!("{}/summary.json", a.out), sum.to_json()).unwrap();
    } else {
        for (c, d) in &sum.oracle_failures { println!("ORACLE FAILURE {c}: {d}"); }
    }
    println!("c01: {} cases, {} distinct non-trivial, {} oracle failures", sum.evaluations, sum.distinct_nontrivial, sum.oracle_failures.len());
}
