//! C10: histories interleaving insert / clone / drop / swap-move / growth over several live
//! stores; after every history each live store's verif_audit vector and content by index are
//! compared with the Coq ownership model (C10/Model.v); oracle: no store ever points into memory
//! it does not own, and a clone keeps the content it had when cloned.
use sophia_api::prelude::*;
use sophia_inmem::dataset::{FastDataset, LightDataset};
use sophia_inmem::graph::{FastGraph, LightGraph};
use sophia_inmem::index::{SimpleTermIndex, TermIndex};
use verif_harness::*;
use sophia_api::term::GraphName;

type S6 = SimpleTermIndex<SmallIdx<6>>;
type G9 = sophia_inmem::graph::GenericFastGraph<SimpleTermIndex<SmallIdx<9>>>;
enum Store { S6(S6), G9(G9), I32(SimpleTermIndex<u32>), I16(SimpleTermIndex<u16>), FG(FastGraph), LG(LightGraph), FD(FastDataset), LD(LightDataset), SFG(sophia_inmem::graph::small::FastGraph) }
impl Store {
    fn kind(&self) -> &'static str { match self { Store::S6(_) => "SimpleTermIndex<SmallIdx<6>>", Store::G9(_) => "GenericFastGraph<SimpleTermIndex<SmallIdx<9>>>", Store::I32(_) => "SimpleTermIndex<u32>", Store::I16(_) => "SimpleTermIndex<u16>", Store::FG(_) => "FastGraph", Store::LG(_) => "LightGraph", Store::FD(_) => "FastDataset", Store::LD(_) => "LightDataset", Store::SFG(_) => "small::FastGraph" } }
    fn clone_it(&self) -> Store { match self { Store::S6(x) => Store::S6(x.clone()), Store::G9(x) => Store::G9(x.clone()), Store::I32(x) => Store::I32(x.clone()), Store::I16(x) => Store::I16(x.clone()), Store::FG(x) => Store::FG(x.clone()), Store::LG(x) => Store::LG(x.clone()), Store::FD(x) => Store::FD(x.clone()), Store::LD(x) => Store::LD(x.clone()), Store::SFG(x) => Store::SFG(x.clone()) } }
    /// Clone::clone_from (a provided method of Clone that a type may override); false if the two stores are of different types
    fn clone_from_it(&mut self, src: &Store) -> bool { match (self, src) {
        (Store::S6(a), Store::S6(b)) => { a.clone_from(b); true } (Store::G9(a), Store::G9(b)) => { a.clone_from(b); true } (Store::I32(a), Store::I32(b)) => { a.clone_from(b); true } (Store::I16(a), Store::I16(b)) => { a.clone_from(b); true }
        (Store::FG(a), Store::FG(b)) => { a.clone_from(b); true } (Store::LG(a), Store::LG(b)) => { a.clone_from(b); true } (Store::FD(a), Store::FD(b)) => { a.clone_from(b); true } (Store::LD(a), Store::LD(b)) => { a.clone_from(b); true } (Store::SFG(a), Store::SFG(b)) => { a.clone_from(b); true }
        _ => false } }
    fn shapes(&self) -> Option<String> { match self { Store::G9(x) => graph_shapes(x), Store::FG(x) => graph_shapes(x), Store::LG(x) => graph_shapes(x), Store::SFG(x) => graph_shapes(x), Store::FD(x) => dataset_shapes(x), Store::LD(x) => dataset_shapes(x), _ => None } }
    fn audit(&self) -> Vec<bool> { match self { Store::S6(x) => x.verif_audit(), Store::G9(x) => x.verif_term_index().verif_audit(), Store::I32(x) => x.verif_audit(), Store::I16(x) => x.verif_audit(), Store::FG(x) => x.verif_term_index().verif_audit(), Store::LG(x) => x.verif_term_index().verif_audit(), Store::FD(x) => x.verif_term_index().verif_audit(), Store::LD(x) => x.verif_term_index().verif_audit(), Store::SFG(x) => x.verif_term_index().verif_audit() } }
    fn len(&self) -> usize { match self { Store::S6(x) => x.len(), Store::G9(x) => x.verif_term_index().len(), Store::I32(x) => x.len(), Store::I16(x) => x.len(), Store::FG(x) => x.verif_term_index().len(), Store::LG(x) => x.verif_term_index().len(), Store::FD(x) => x.verif_term_index().len(), Store::LD(x) => x.verif_term_index().len(), Store::SFG(x) => x.verif_term_index().len() } }
    fn term_at(&self, i: usize) -> ST { match self { Store::S6(x) => x.get_term(SmallIdx(i as u8)).into_term(), Store::G9(x) => x.verif_term_index().get_term(SmallIdx(i as u8)).into_term(), Store::I32(x) => x.get_term(i as u32).into_term(), Store::I16(x) => x.get_term(i as u16).into_term(), Store::FG(x) => x.verif_term_index().get_term(i as u32).into_term(), Store::LG(x) => x.verif_term_index().get_term(i as u32).into_term(), Store::FD(x) => x.verif_term_index().get_term(i as u32).into_term(), Store::LD(x) => x.verif_term_index().get_term(i as u32).into_term(), Store::SFG(x) => x.verif_term_index().get_term(i as u16).into_term() } }
    /// insert the statement made of `ts` (3 terms, + graph name for datasets); index stores intern each term
    /// (address, length, owned?) of every string of the keys and of the index table
    fn strings(&self) -> (Vec<(usize, usize, bool)>, Vec<(usize, usize, bool)>) { match self { Store::S6(x) => x.verif_strings(), Store::G9(x) => x.verif_term_index().verif_strings(), Store::I32(x) => x.verif_strings(), Store::I16(x) => x.verif_strings(), Store::FG(x) => x.verif_term_index().verif_strings(), Store::LG(x) => x.verif_term_index().verif_strings(), Store::FD(x) => x.verif_term_index().verif_strings(), Store::LD(x) => x.verif_term_index().verif_strings(), Store::SFG(x) => x.verif_term_index().verif_strings() } }
    /// get_term on an index that was never handed out (len, len+1, MAX): a safe public method, it must panic, not read out of bounds
    fn out_of_range_reads(&self) -> Vec<String> {
        fn probe<TI: TermIndex>(ti: &TI, idx: Vec<(String, TI::Index)>) -> Vec<String> where TI::Index: Copy {
            let mut bad = vec![];
            for (name, i) in idx { QUIET.with(|q| q.set(true)); let r = std::panic::catch_unwind(std::panic::AssertUnwindSafe(|| { let t: ST = ti.get_term(i).into_term(); format!("{t:?}") })); QUIET.with(|q| q.set(false)); if let Ok(t) = r { bad.push(format!("get_term({name}) returned {} instead of panicking", t.chars().take(60).collect::<String>())); } }
            bad
        }
        match self {
            Store::S6(x) => probe(x, vec![("len".into(), SmallIdx(x.len() as u8)), ("MAX".into(), SmallIdx(6))]),
            Store::G9(x) => { let ti = x.verif_term_index(); probe(ti, vec![("len".into(), SmallIdx(ti.len() as u8)), ("MAX".into(), SmallIdx(9))]) }
            Store::I32(x) => probe(x, vec![("len".into(), x.len() as u32), ("len+1".into(), x.len() as u32 + 1), ("MAX".into(), u32::MAX)]),
            Store::I16(x) => probe(x, vec![("len".into(), x.len() as u16), ("MAX".into(), u16::MAX)]),
            Store::FG(x) => { let ti = x.verif_term_index(); probe(ti, vec![("len".into(), ti.len() as u32), ("MAX".into(), u32::MAX)]) }
            Store::LG(x) => { let ti = x.verif_term_index(); probe(ti, vec![("len".into(), ti.len() as u32), ("MAX".into(), u32::MAX)]) }
            Store::FD(x) => { let ti = x.verif_term_index(); probe(ti, vec![("len".into(), ti.len() as u32), ("MAX".into(), u32::MAX)]) }
            Store::LD(x) => { let ti = x.verif_term_index(); probe(ti, vec![("len".into(), ti.len() as u32), ("MAX".into(), u32::MAX)]) }
            Store::SFG(x) => { let ti = x.verif_term_index(); probe(ti, vec![("len".into(), ti.len() as u16), ("MAX".into(), u16::MAX)]) }
        }
    }
    fn insert(&mut self, ts: &[ST]) -> usize { match self {
        // capacity-limited stores: TermIndexFullError is an ordinary outcome; the terms interned before it stay interned
        Store::S6(x) => { let mut n = 0; for t in ts { if x.ensure_index(t.borrow_term()).is_err() { break; } n += 1; } n }
        Store::G9(x) => { let before = x.verif_term_index().len(); match x.insert(&ts[0], &ts[1], &ts[2]) { Ok(_) => 3, Err(_) => {
            // the first (len_after - len_before) NEW terms of s, p, o were interned
            let mut newly = x.verif_term_index().len() - before; let mut n = 0; let mut seen: Vec<&ST> = vec![];
            for t in &ts[..3] { let known = (0..before).any(|k| Term::eq(&x.verif_term_index().get_term(SmallIdx(k as u8)), t.borrow_term())) || seen.iter().any(|u| Term::eq(*u, t.borrow_term())); if !known { if newly == 0 { break; } newly -= 1; seen.push(t); } n += 1; }
            n } } }
        Store::I32(x) => { for t in ts { x.ensure_index(t.borrow_term()).unwrap(); } ts.len() }
        Store::I16(x) => { for t in ts { x.ensure_index(t.borrow_term()).unwrap(); } ts.len() }
        Store::FG(x) => { x.insert(&ts[0], &ts[1], &ts[2]).unwrap(); 3 } Store::LG(x) => { x.insert(&ts[0], &ts[1], &ts[2]).unwrap(); 3 } Store::SFG(x) => { x.insert(&ts[0], &ts[1], &ts[2]).unwrap(); 3 }
        Store::FD(x) => { x.insert(&ts[0], &ts[1], &ts[2], Some(&ts[3])).unwrap(); 4 } Store::LD(x) => { x.insert(&ts[0], &ts[1], &ts[2], Some(&ts[3])).unwrap(); 4 }
    } }
    fn remove(&mut self, ts: &[ST]) { match self {
        Store::FG(x) => { x.remove(&ts[0], &ts[1], &ts[2]).unwrap(); } Store::LG(x) => { x.remove(&ts[0], &ts[1], &ts[2]).unwrap(); } Store::SFG(x) => { x.remove(&ts[0], &ts[1], &ts[2]).unwrap(); }
        Store::G9(x) => { x.remove(&ts[0], &ts[1], &ts[2]).unwrap(); }
        Store::FD(x) => { x.remove(&ts[0], &ts[1], &ts[2], Some(&ts[3])).unwrap(); } Store::LD(x) => { x.remove(&ts[0], &ts[1], &ts[2], Some(&ts[3])).unwrap(); } _ => {}
    } }
}
enum TMx { K(ST), A }
impl sophia_api::term::matcher::TermMatcher for TMx {
    type Term = ST;
    fn matches<T2: Term + ?Sized>(&self, t: &T2) -> bool { match self { TMx::K(k) => Term::eq(k, t.borrow_term()), TMx::A => true } }
    fn constant(&self) -> Option<&ST> { if let TMx::K(k) = self { Some(k) } else { None } }
}
enum GMx { K(Option<ST>), A }
impl sophia_api::term::matcher::GraphNameMatcher for GMx {
    type Term = ST;
    fn matches<T2: Term + ?Sized>(&self, g: GraphName<&T2>) -> bool { match self { GMx::K(k) => sophia_api::term::graph_name_eq(k.as_ref().map(|t| t.borrow_term()), g.map(|t| t.borrow_term())), GMx::A => true } }
    fn constant(&self) -> Option<GraphName<&ST>> { if let GMx::K(k) = self { Some(k.as_ref()) } else { None } }
}
/// every pattern shape (which positions are constants) must return exactly the statements of the store that match it:
/// a copy of a store that forgot one of its secondary indexes answers some shapes wrongly
fn graph_shapes<G: Graph>(g: &G) -> Option<String> {
    let all: Vec<[ST; 3]> = g.triples().map(|t| { let t = t.ok().unwrap(); [t.s().into_term(), t.p().into_term(), t.o().into_term()] }).collect();
    for probe in all.iter().take(3) { for mask in 0..8u8 {
        let m = |i: usize| if mask >> i & 1 == 1 { TMx::K(probe[i].clone()) } else { TMx::A };
        let got = g.triples_matching(m(0), m(1), m(2)).count();
        let want = all.iter().filter(|t| (0..3).all(|i| mask >> i & 1 == 0 || Term::eq(&t[i], probe[i].borrow_term()))).count();
        if got != want { return Some(format!("pattern with constants at positions {mask:03b} (spo) of {probe:?} returns {got} triples, the store holds {want} matching ones")); }
    } }
    None
}
fn dataset_shapes<D: Dataset>(d: &D) -> Option<String> {
    let all: Vec<([ST; 3], Option<ST>)> = d.quads().map(|q| { let q = q.ok().unwrap(); ([q.s().into_term(), q.p().into_term(), q.o().into_term()], q.g().map(|g| g.into_term())) }).collect();
    for probe in all.iter().take(3) { for mask in 0..16u8 {
        let m = |i: usize| if mask >> i & 1 == 1 { TMx::K(probe.0[i].clone()) } else { TMx::A };
        let gm = if mask >> 3 & 1 == 1 { GMx::K(probe.1.clone()) } else { GMx::A };
        let got = d.quads_matching(m(0), m(1), m(2), gm).count();
        let want = all.iter().filter(|q| (0..3).all(|i| mask >> i & 1 == 0 || Term::eq(&q.0[i], probe.0[i].borrow_term())) && (mask >> 3 & 1 == 0 || sophia_api::term::graph_name_eq(q.1.as_ref().map(|t| t.borrow_term()), probe.1.as_ref().map(|t| t.borrow_term())))).count();
        if got != want { return Some(format!("pattern with constants at positions {mask:04b} (gops, s lowest bit) of {probe:?} returns {got} quads, the store holds {want} matching ones")); }
    } }
    None
}
/// A user-defined term type that keeps its text INLINE and is its own BorrowTerm (Copy): every string it hands out
/// borrows from the value itself, so a copy made on the stack must not be borrowed beyond its life.
#[derive(Clone, Copy, Debug)]
struct InlAtom { kind: u8, len: u8, buf: [u8; 40] }
impl InlAtom { fn new(kind: u8, t: &str) -> Self { let mut buf = [0u8; 40]; buf[..t.len()].copy_from_slice(t.as_bytes()); InlAtom { kind, len: t.len() as u8, buf } } fn text(&self) -> &str { std::str::from_utf8(&self.buf[..self.len as usize]).unwrap() } }
#[derive(Clone, Copy, Debug)]
enum Inl { Atom(InlAtom), Triple([InlAtom; 3]) }
impl Term for Inl {
    type BorrowTerm<'x> = Inl;
    fn kind(&self) -> sophia_api::term::TermKind { use sophia_api::term::TermKind::*; match self { Inl::Atom(a) => match a.kind { 0 => Iri, 1 => BlankNode, _ => Literal }, Inl::Triple(_) => Triple } }
    fn borrow_term(&self) -> Inl { *self }
    fn iri(&self) -> Option<sophia_api::term::IriRef<sophia_api::MownStr<'_>>> { match self { Inl::Atom(a) if a.kind == 0 => Some(sophia_api::term::IriRef::new_unchecked(sophia_api::MownStr::from_ref(a.text()))), _ => None } }
    fn bnode_id(&self) -> Option<sophia_api::term::BnodeId<sophia_api::MownStr<'_>>> { match self { Inl::Atom(a) if a.kind == 1 => Some(sophia_api::term::BnodeId::new_unchecked(sophia_api::MownStr::from_ref(a.text()))), _ => None } }
    fn lexical_form(&self) -> Option<sophia_api::MownStr<'_>> { match self { Inl::Atom(a) if a.kind == 2 => Some(sophia_api::MownStr::from_ref(a.text())), _ => None } }
    fn datatype(&self) -> Option<sophia_api::term::IriRef<sophia_api::MownStr<'_>>> { match self { Inl::Atom(a) if a.kind == 2 => Some(sophia_api::term::IriRef::new_unchecked(sophia_api::MownStr::from_ref("http://www.w3.org/2001/XMLSchema#string"))), _ => None } }
    fn language_tag(&self) -> Option<sophia_api::term::LanguageTag<sophia_api::MownStr<'_>>> { None }
    fn triple(&self) -> Option<[Inl; 3]> { match self { Inl::Triple(a) => Some([Inl::Atom(a[0]), Inl::Atom(a[1]), Inl::Atom(a[2])]), _ => None } }
    fn to_triple(self) -> Option<[Inl; 3]> { self.triple() }
}
/// look-ups, removals and insertions through the stores with such terms (quoted triples included) must behave as with
/// SimpleTerms; with a conversion that keeps borrowing from a dead temporary they read released stack memory
fn inline_term_scenarios() -> Vec<String> {
    let mut bad = vec![];
    let qt_s = triple(iri("http://e/a"), iri("http://e/p"), lit_dt("inline text", &format!("{XSD}string")));
    let qt_i = Inl::Triple([InlAtom::new(0, "http://e/a"), InlAtom::new(0, "http://e/p"), InlAtom::new(2, "inline text")]);
    let (p_i, o_i, b_i) = (Inl::Atom(InlAtom::new(0, "http://e/q")), Inl::Atom(InlAtom::new(2, "o")), Inl::Atom(InlAtom::new(1, "b1")));
    fn go<G: MutableGraph + Graph + Default>(name: &str, qt_s: &ST, qt_i: Inl, p_i: Inl, o_i: Inl, b_i: Inl, bad: &mut Vec<String>) where G::MutationError: std::fmt::Debug {
        let mut g = G::default();
        g.insert(qt_s.clone(), iri("http://e/q"), lit_dt("o", &format!("{XSD}string"))).unwrap();
        g.insert(bnode("b1"), iri("http://e/q"), qt_s.clone()).unwrap();
        for _ in 0..3 { let filler: Vec<u8> = vec![0xAA; 256]; std::hint::black_box(&filler); } // churn the stack / heap a little
        let n1 = g.triples_matching([qt_i], sophia_api::term::matcher::Any, sophia_api::term::matcher::Any).count();
        let n2 = g.triples_matching(sophia_api::term::matcher::Any, [p_i], [qt_i]).count();
        let c = g.contains(qt_i, p_i, o_i).unwrap_or(false);
        if n1 != 1 || n2 != 1 || !c { bad.push(format!("{name}: with an inline, self-borrowing term type the quoted triple << a p \"inline text\" >> is found {n1} time(s) as subject, {n2} time(s) as object, contains = {c}; expected 1, 1, true")); }
        let ins = g.insert(qt_i, p_i, o_i).map_err(|e| format!("{e:?}"));
        if ins != Ok(false) { bad.push(format!("{name}: inserting the statement again through inline terms returned {ins:?}, expected Ok(false) (already there)")); }
        let rem = g.remove(b_i, p_i, qt_i).map_err(|e| format!("{e:?}"));
        if rem != Ok(true) || g.triples().count() != 1 { bad.push(format!("{name}: removing a statement through inline terms returned {rem:?} and left {} statement(s), expected Ok(true) and 1", g.triples().count())); }
    }
    go::<FastGraph>("FastGraph", &qt_s, qt_i, p_i, o_i, b_i, &mut bad);
    go::<LightGraph>("LightGraph", &qt_s, qt_i, p_i, o_i, b_i, &mut bad);
    go::<sophia_inmem::graph::small::FastGraph>("small::FastGraph", &qt_s, qt_i, p_i, o_i, b_i, &mut bad);
    go::<std::collections::HashSet<[ST; 3]>>("HashSet<[SimpleTerm;3]>", &qt_s, qt_i, p_i, o_i, b_i, &mut bad);
    bad
}
fn new_store(k: usize) -> Store { match k { 7 => Store::S6(Default::default()), 8 => Store::G9(Default::default()), 0 => Store::I32(Default::default()), 1 => Store::I16(Default::default()), 2 => Store::FG(Default::default()), 3 => Store::LG(Default::default()), 4 => Store::FD(Default::default()), 5 => Store::LD(Default::default()), _ => Store::SFG(Default::default()) } }

fn nstr(t: &ST) -> usize { use sophia_api::term::SimpleTerm::*; match t { Iri(_) | BlankNode(_) | Variable(_) => 1, LiteralDatatype(..) | LiteralLanguage(..) => 2, Triple(tr) => tr.iter().map(nstr).sum() } }

#[derive(Debug, Clone)]
enum Op { New(usize, usize), Insert(usize, Vec<u64>), Bulk(usize, u64, usize), Remove(usize, Vec<u64>), Clone(usize, usize), Drop(usize), Swap(usize, usize), CloneFrom(usize, usize) }

thread_local! { static QUIET: std::cell::Cell<bool> = std::cell::Cell::new(false); }
fn main() {
    let a = parse_args();
    let default_hook = std::panic::take_hook();
    std::panic::set_hook(Box::new(move |info| { if !QUIET.with(|q| q.get()) { default_hook(info) } }));
    let mut sum = Summary::default();
    sum.rule = "case = history of 4..40 ops over up to 5 store slots (kinds: SimpleTermIndex<u32/u16>, Fast/Light graph and dataset, small::FastGraph): new, insert statement (terms of every kind incl. quoted triples), bulk insert of 20..300 fresh terms (table growth across reallocation thresholds), remove, clone, drop (of originals or clones), swap/move; \
non-trivial = at least one clone whose source is later dropped or mutated while the clone stays live and non-empty; distinct = distinct printed history".into();
    let pool = small_pool();
    // 900..=903: an IRI and a literal whose DATATYPE is that very IRI (twice): the literal's datatype string must be its own copy
    let special = |id: u64| -> ST { match id { 900 => iri(&format!("{XSD}integer")), 901 => lit_dt("7", &format!("{XSD}integer")), 902 => iri("http://e/dt"), _ => lit_dt("x", "http://e/dt") } };
    let term = |id: u64, r: &mut Rng| -> ST { if (900..=903).contains(&id) { special(id) } else if id >= 1000 { iri(&format!("http://bulk.example/{id}")) } else { r.pick(&pool[(id - 1) as usize]).clone() } };
    let tid = |t: &ST| -> u64 { for id in 900..=903u64 { if Term::eq(&special(id), t.borrow_term()) { return id; } } if let Some(i) = t.iri() { if let Some(n) = i.as_str().strip_prefix("http://bulk.example/") { return n.parse().unwrap(); } } class_id(&pool, t.borrow_term()) };
    let base = Rng::new(a.seed);
    let mut cases = vec![]; let mut seen = std::collections::HashSet::new();
    let range: Vec<usize> = match a.only { Some(i) => vec![i], None => (0..a.n).collect() };
    for idx in range {
        if a.only.is_none() { let _ = std::fs::create_dir_all(&a.out); let _ = std::fs::write(format!("{}/progress", a.out), idx.to_string()); }
        let mut r = base.fork(idx as u64);
        let nops = r.range(4, 40);
        let mut slots: Vec<Option<Store>> = (0..5).map(|_| None).collect();
        let mut shadow: Vec<Vec<u64>> = (0..5).map(|_| vec![]).collect(); // expected term ids by index, per slot
        let mut ops: Vec<Op> = vec![]; let mut coq_ops: Vec<String> = vec![];
        let mut bulk_next = 1000u64; let mut interesting = false; let mut cloned_from: Vec<(usize, usize)> = vec![];
        let mut failure: Option<String> = None;
        for _ in 0..nops {
            let live: Vec<usize> = (0..5).filter(|i| slots[*i].is_some()).collect();
            let free: Vec<usize> = (0..5).filter(|i| slots[*i].is_none()).collect();
            let choice = r.below(13);
            let op = if live.is_empty() || (choice == 0 && !free.is_empty()) { Op::New(*r.pick(&free), r.below(9)) }
                else { let s = *r.pick(&live); match choice {
                    1..=4 => Op::Insert(s, (0..4).map(|_| if r.chance(1, 5) { 900 + r.below(4) as u64 } else { 1 + r.below(16) as u64 }).collect()),
                    5 => { let n = r.range(20, 300); let o = Op::Bulk(s, bulk_next, n); bulk_next += n as u64; o }
                    6 => Op::Remove(s, (0..4).map(|_| 1 + r.below(16) as u64).collect()),
                    7..=8 if !free.is_empty() => Op::Clone(s, *r.pick(&free)),
                    9 => Op::Drop(s),
                    10 if live.len() >= 2 => Op::Swap(s, *r.pick(&live)),
                    11 if live.len() >= 2 => { let d = *r.pick(&live); if d != s && std::mem::discriminant(slots[s].as_ref().unwrap()) == std::mem::discriminant(slots[d].as_ref().unwrap()) { Op::CloneFrom(s, d) } else if !free.is_empty() { Op::Clone(s, *r.pick(&free)) } else { Op::Drop(s) } }
                    _ => Op::Insert(s, (0..4).map(|_| 1 + r.below(16) as u64).collect()),
                } };
            match &op {
                Op::New(s, k) => { slots[*s] = Some(new_store(*k)); shadow[*s].clear(); coq_ops.push(format!("New {s}")); }
                Op::Insert(s, ids) => {
                    let ts: Vec<ST> = ids.iter().map(|i| term(*i, &mut r)).collect();
                    if matches!(slots[*s], Some(Store::I16(_)) | Some(Store::SFG(_))) && slots[*s].as_ref().unwrap().len() > 60000 { continue; }
                    let used = slots[*s].as_mut().unwrap().insert(&ts);
                    for t in &ts[..used] { coq_ops.push(format!("Insert {s} {} {} {}", tid(t), nstr(t) - 1, coq_bool(t.is_triple()))); if !shadow[*s].contains(&tid(t)) { shadow[*s].push(tid(t)); } }
                    if cloned_from.iter().any(|(src, dst)| src == s && slots[*dst].is_some()) { interesting = true; }
                }
                Op::Bulk(s, from, n) => {
                    if matches!(slots[*s], Some(Store::I16(_)) | Some(Store::SFG(_))) && slots[*s].as_ref().unwrap().len() + 4 * n > 60000 { continue; }
                    let st = slots[*s].as_mut().unwrap();
                    for k in (0..*n).step_by(4) { let ts: Vec<ST> = (0..4).map(|j| term(from + (k + j) as u64, &mut r)).collect(); let used = st.insert(&ts); for t in &ts[..used] { coq_ops.push(format!("Insert {s} {} 0 false", tid(t))); if !shadow[*s].contains(&tid(t)) { shadow[*s].push(tid(t)); } } }
                    coq_ops.push(format!("Grow {s}"));
                }
                Op::Remove(s, ids) => { let ts: Vec<ST> = ids.iter().map(|i| term(*i, &mut r)).collect(); slots[*s].as_mut().unwrap().remove(&ts); }
                Op::Clone(s, d) => { let c = slots[*s].as_ref().unwrap().clone_it(); slots[*d] = Some(c); shadow[*d] = shadow[*s].clone(); cloned_from.push((*s, *d)); coq_ops.push(format!("Clone {s} {d}")); }
                Op::CloneFrom(s, d) => {
                    // for the model: the target is dropped and replaced by a clone of the source
                    let src = slots[*s].take().unwrap(); let ok = slots[*d].as_mut().unwrap().clone_from_it(&src); slots[*s] = Some(src);
                    if ok { shadow[*d] = shadow[*s].clone(); cloned_from.push((*s, *d)); coq_ops.push(format!("Drop {d}")); coq_ops.push(format!("Clone {s} {d}")); }
                }
                Op::Drop(s) => { let st = slots[*s].take(); drop(st); shadow[*s].clear(); coq_ops.push(format!("Drop {s}"));
                    if cloned_from.iter().any(|(src, dst)| (src == s && slots[*dst].as_ref().is_some_and(|x| x.len() > 0)) || (dst == s && slots[*src].as_ref().is_some_and(|x| x.len() > 0))) { interesting = true; } }
                Op::Swap(x, y) => { if x != y { slots.swap(*x, *y); shadow.swap(*x, *y); for c in cloned_from.iter_mut() { for e in [&mut c.0, &mut c.1] { if *e == *x { *e = *y } else if *e == *y { *e = *x } } } coq_ops.push(format!("Swap {x} {y}")); } }
            }
            ops.push(op);
            // oracle after every step: no live store points into memory it does not own
            for (i, s) in slots.iter().enumerate() { if let Some(s) = s { let au = s.audit(); if au.iter().any(|b| !b) && failure.is_none() {
                failure = Some(format!("after {:?}: store #{i} ({}) holds {} of {} index entries that point outside its own key storage (would read memory it does not own)", ops, s.kind(), au.iter().filter(|b| !**b).count(), au.len())); } } }
            // the same from the addresses themselves: every key owns its strings, the strings of two live stores never overlap,
            // every borrowed string of an index table lies inside a key string of the same store, table and map have the same size
            if failure.is_none() {
                let strs: Vec<Option<(Vec<(usize, usize, bool)>, Vec<(usize, usize, bool)>)>> = slots.iter().map(|s| s.as_ref().map(|s| s.strings())).collect();
                'outer: for (i, si) in strs.iter().enumerate() { if let Some((keys, entries)) = si {
                    let kind = slots[i].as_ref().unwrap().kind();
                    if let Some(k) = keys.iter().find(|k| !k.2) { failure = Some(format!("after {:?}: store #{i} ({kind}) has a key that BORROWS one of its strings ({} bytes at {:#x}) instead of owning it: a clone of the store would point into this store's memory", ops, k.1, k.0)); break 'outer; }
                    for e in entries.iter().filter(|e| !e.2 && e.1 > 0) { if !keys.iter().any(|k| k.0 <= e.0 && e.0 + e.1 <= k.0 + k.1) { failure = Some(format!("after {:?}: store #{i} ({kind}) has an index-table entry whose string ({} bytes at {:#x}) lies in none of its own keys", ops, e.1, e.0)); break 'outer; } }
                    for (j, sj) in strs.iter().enumerate().skip(i + 1) { if let Some((keys2, _)) = sj {
                        if let Some(k) = keys.iter().filter(|k| k.1 > 0).find(|k| keys2.iter().any(|m| m.1 > 0 && k.0 < m.0 + m.1 && m.0 < k.0 + k.1)) { failure = Some(format!("after {:?}: stores #{i} ({kind}) and #{j} share storage: a {}-byte key string at {:#x} overlaps a key string of the other store", ops, k.1, k.0)); break 'outer; }
                    } }
                } }
            }
            if failure.is_none() && matches!(ops.last(), Some(Op::Clone(..)) | Some(Op::CloneFrom(..)) | Some(Op::Insert(..)) | Some(Op::Remove(..))) {
                for (i, s) in slots.iter().enumerate() { if let Some(s) = s { if cloned_from.iter().any(|(a, b)| *a == i || *b == i) { if let Some(why) = s.shapes() { failure = Some(format!("after {:?}: store #{i} ({}), a clone or the source of a clone: {why}", ops, s.kind())); break; } } } }
            }
            // and every live store still holds exactly the terms it interned, in order (a clone: those of its
            // original at the time of cloning plus its own later ones)
            if failure.is_none() { for (i, s) in slots.iter().enumerate() { if let Some(s) = s { if s.audit().iter().all(|b| *b) {
                let got: Vec<u64> = (0..s.len()).map(|k| tid(&s.term_at(k))).collect();
                if got != shadow[i] && failure.is_none() { failure = Some(format!("after {:?}: store #{i} ({}) no longer holds the terms it interned: index table reads {:?}, expected {:?}", ops, s.kind(), got.iter().take(12).collect::<Vec<_>>(), shadow[i].iter().take(12).collect::<Vec<_>>())); }
            } } } }
            if failure.is_some() { break; }
        }
        if failure.is_none() { for (i, s) in slots.iter().enumerate() { if let Some(s) = s { let bad = s.out_of_range_reads(); if let Some(b) = bad.first() { failure = Some(format!("after {:?}: store #{i} ({}): {b} (TermIndex::get_term is a safe method: an index that was never handed out must panic, not read out of bounds)", ops, s.kind())); break; } } } }
        let text = format!("{ops:?}");
        if let Some(f) = &failure { sum.oracle_failures.push((idx.to_string(), f.clone())); }
        // observation (only read content when the audit says it is safe to)
        let mut obs = vec![];
        for (i, s) in slots.iter().enumerate() { if let Some(s) = s {
            let au = s.audit();
            let content: Vec<u64> = if au.iter().all(|b| *b) { (0..s.len()).map(|k| tid(&s.term_at(k))).collect() } else { vec![] };
            obs.push(format!("({i}, {}, {})", coq_list(au.iter().map(|b| coq_bool(*b).to_string())), coq_list(content.iter().map(|x| x.to_string()))));
        } }
        if a.only.is_some() { println!("CASE {idx}: {text}\nOBS {obs:?}\nFAIL {failure:?}"); }
        if seen.insert(text.clone()) && interesting { sum.distinct_nontrivial += 1; }
        for o in &ops { sum.bump(&format!("op:{}", format!("{o:?}").split('(').next().unwrap())); }
        for s in slots.iter().flatten() { sum.bump(&format!("live-at-end:{}", s.kind())); }
        if sum.samples.len() < 3 && interesting && text.len() < 900 { sum.samples.push(format!("case {idx}: {text}")); }
        sum.evaluations += 1;
        cases.push((idx, format!("history_ok {} {}", coq_list(coq_ops.clone()), coq_list(obs))));
    }
    for b in inline_term_scenarios() { sum.oracle_failures.push(("inline-terms".into(), b)); }
    sum.evaluations += 4; sum.bump("scenario:inline self-borrowing term type");
    if a.only.is_none() {
        sum.shards = write_shards(&a.out, "From Sophia.C10 Require Import Model.", &cases, a.shards);
        std::fs::write(format!("{}/summary.json", a.out), sum.to_json()).unwrap();
    }
    println!("c10: {} cases, {} distinct non-trivial, {} oracle failures", sum.evaluations, sum.distinct_nontrivial, sum.oracle_failures.len());
}
