//! probe (temporary)
use sophia_api::prelude::*;
use sophia_api::serializer::{Stringifier, TripleSerializer};
use sophia_api::source::TripleSource;
use sophia_isomorphism::isomorphic_graphs;
use sophia_xml::parser::RdfXmlParser;
use sophia_xml::serializer::{RdfXmlConfig, RdfXmlSerializer};
use verif_harness::*;

fn rt(g: &Vec<[ST; 3]>, ind: usize) {
    let mut ser = RdfXmlSerializer::new_stringifier_with_config(RdfXmlConfig::new().with_indentation(ind));
    let r = std::panic::catch_unwind(std::panic::AssertUnwindSafe(|| ser.serialize_triples(g.triples()).map(|s| s.to_string())));
    match r {
        Ok(Ok(doc)) => {
            println!("  doc[{ind}] = {doc:?}");
            let back: Result<Vec<[ST; 3]>, _> = sophia_xml::parser::parse_str(&doc).collect_triples();
            match back {
                Ok(b) => println!("  back = {:?}\n  iso = {:?}", b, isomorphic_graphs(g, &b)),
                Err(e) => println!("  parse error: {e}"),
            }
        }
        Ok(Err(e)) => println!("  ser error: {e}"),
        Err(_) => println!("  PANIC"),
    }
}

fn main() {
    let s = iri("http://e/s");
    let p = iri("http://e/p");
    let lits = [" ", "\n", "", " a ", "\na\n", "a\rb", "\r", "a\r\nb", "\t", "a\tb", "<&>\"'", "]]>", "\u{1}", "\u{0}", "\u{fffe}", "\u{1F600}", "&#32;", "&amp;"];
    for l in lits {
        println!("LIT {l:?}");
        for ind in [0, 2] {
            rt(&vec![[s.clone(), p.clone(), lit_dt(l, &format!("{XSD}string"))]], ind);
        }
    }
    println!("XMLLiteral");
    rt(&vec![[s.clone(), p.clone(), lit_dt("<b>x</b> &amp;", &format!("{RDF}XMLLiteral"))]], 0);
    println!("lang");
    rt(&vec![[s.clone(), p.clone(), lit_lang("x", "EN-us")]], 0);
    rt(&vec![[s.clone(), p.clone(), lit_lang(" ", "en")]], 0);
    println!("bnodes");
    rt(&vec![[bnode("b1"), p.clone(), bnode("0a")]], 0);
    rt(&vec![[bnode("0"), p.clone(), bnode("b.c")]], 0);
    rt(&vec![[bnode("a-b"), p.clone(), bnode("riog00000001")]], 2);
    println!("preds");
    for pi in ["http://e/", "http://e/123", "urn:1", "http://e/a%20b", "http://e/a:b", "http://e/p?x=1&y='2'", "http://e/-a", "http://e/1a", "http://e/.a", "http://e/é", "http://e/a.b", "http://e/a-", "http://e/ns#",
        &format!("{RDF}li"), &format!("{RDF}Description"), &format!("{RDF}about"), &format!("{RDF}type"), &format!("{RDF}_1"), "http://www.w3.org/2000/xmlns/a", "http://www.w3.org/XML/1998/namespace#a", "http://e/xmlns"] {
        println!("PRED {pi}");
        rt(&vec![[s.clone(), iri(pi), lit_dt("v", &format!("{XSD}string"))]], 0);
    }
    println!("iri with & and '");
    rt(&vec![[iri("http://e/s?a=1&b='2'"), p.clone(), iri("http://e/o?a=1&b='2'")], [iri("http://e/s?a=1&b='2'"), p.clone(), lit_dt("1", "http://e/dt?a&b'")]], 2);
    println!("non-representable");
    rt(&vec![[lit_dt("1", &format!("{XSD}string")), p.clone(), s.clone()], [s.clone(), bnode("b"), s.clone()], [s.clone(), p.clone(), var("v")], [triple(s.clone(), p.clone(), s.clone()), p.clone(), s.clone()], [s.clone(), p.clone(), s.clone()]], 0);
    rt(&vec![[s.clone(), p.clone(), triple(s.clone(), p.clone(), s.clone())], [s.clone(), p.clone(), s.clone()]], 0);
    rt(&vec![[s.clone(), p.clone(), s.clone()], [s.clone(), p.clone(), triple(s.clone(), p.clone(), s.clone())]], 0);
    println!("multi");
    rt(&vec![[s.clone(), p.clone(), lit_dt(" x ", &format!("{XSD}string"))], [s.clone(), iri("http://e/q"), bnode("b")], [bnode("b"), p.clone(), lit_lang("\n", "en")], [s.clone(), p.clone(), lit_dt("2", &format!("{XSD}integer"))]], 3);
    println!("empty");
    rt(&vec![], 0);
    rt(&vec![], 4);
}
