(* C06/Agree2.v -- implementation model = specification model, part 2: hash related blank node,
   the map Hn, the permutation loops, hash n-degree quads.  Stdlib only, no assumptions. *)
From Sophia.C06 Require Import Model Limits Agree1.
From Sophia.C05 Require Import FirstDegree Bijection Heap.

(* the implementation's result [r] and the specification's result [s] agree (up to the
   representation change [f]); errors that the implementation model can only produce on states
   that do not arise are not compared *)
Definition agree {A B} (f : A -> B) (r : res A) (s : sp_result B) : Prop :=
  match r with
  | Ok a => s = SpOk (f a)
  | Err EFuel => s = SpFuel
  | Err _ => True
  end.

Lemma agree_err {A B} (f : A -> B) e s : (e = EFuel -> s = SpFuel) -> agree f (Err e) s.
Proof. destruct e; cbn; auto. Qed.

(* ====================================================================================== *)
(* the abandon rule                                                                          *)
(* ====================================================================================== *)
Lemma skip_eq chosen path :
  negb (is_nil chosen) && prune_rule true chosen path = sp_skip chosen path.
Proof.
  unfold sp_skip, prune_rule, smaller_path, str_ltb.
  rewrite (str_cmp_antisym chosen path).
  destruct (str_cmp chosen path); cbn [CompOpp]; rewrite andb_assoc; reflexivity.
Qed.

Lemma str_cmp_gt_app p : forall c x, str_cmp p c = Gt -> str_cmp (p ++ x) c = Gt.
Proof.
  induction p as [|a p IH]; intros [|b c] x; cbn [str_cmp app]; try discriminate; auto.
  destruct (N.compare a b); auto.
Qed.

Lemma sp_skip_mono chosen path x :
  sp_skip chosen path = true -> sp_skip chosen (path ++ x) = true.
Proof.
  unfold sp_skip. rewrite !andb_true_iff. intros [[Hn Hl] Hc]. repeat split; auto.
  - apply Nat.leb_le in Hl. apply Nat.leb_le. rewrite app_length. lia.
  - destruct (str_cmp path chosen) eqn:E; try discriminate.
    rewrite (str_cmp_gt_app _ _ x E). reflexivity.
Qed.

Lemma sp_skip_nil chosen : sp_skip chosen [] = false.
Proof. destruct chosen; reflexivity. Qed.

(* ====================================================================================== *)
(* 5.4.4: one test at the end = a test after every element                                   *)
(* ====================================================================================== *)
Lemma perm_ids_ext canon : forall p ic path rl,
  exists x, snd (fst (perm_ids canon ic path rl p)) = path ++ x.
Proof.
  induction p as [|r p IH]; intros ic path rl; cbn [perm_ids].
  - exists []. cbn [fst snd]. rewrite app_nil_r. reflexivity.
  - destruct (iss_get canon r) as [cid|].
    + destruct (IH ic (path ++ s_bn ++ cid) rl) as [x E].
      exists ((s_bn ++ cid) ++ x). rewrite E. symmetry. apply app_assoc.
    + destruct (issue s_b ic r) as [[ic' id] new].
      destruct (IH ic' (path ++ s_bn ++ id) (if new then rl ++ [r] else rl)) as [x E].
      exists ((s_bn ++ id) ++ x). rewrite E. symmetry. apply app_assoc.
Qed.

Lemma perm_ids_fired canon chosen p ic path rl :
  sp_skip chosen path = true ->
  (let '(ic', path', rl') := perm_ids canon ic path rl p in
   if sp_skip chosen path' then None else Some (R s_b ic', path', rl')) = None.
Proof.
  intros Hs. destruct (perm_ids_ext canon p ic path rl) as [x E].
  destruct (perm_ids canon ic path rl p) as [[ic' path'] rl']. cbn [fst snd] in E. subst path'.
  rewrite (sp_skip_mono _ _ x Hs). reflexivity.
Qed.

Theorem sp_5_4_4_agree canon chosen : forall p ic path rl,
  sp_skip chosen path = false ->
  sp_5_4_4 (R s_c14n canon) chosen (R s_b ic) path rl p =
  let '(ic', path', rl') := perm_ids canon ic path rl p in
  if sp_skip chosen path' then None else Some (R s_b ic', path', rl').
Proof.
  induction p as [|r p IH]; intros ic path rl Hs; cbn [sp_5_4_4 perm_ids].
  - rewrite Hs. reflexivity.
  - cbn [R si_issued]. rewrite sp_lookup_eq. fold (R s_b ic).
    destruct (iss_get canon r) as [cid|].
    + change [95;58] with s_bn.
      destruct (sp_skip chosen (path ++ s_bn ++ cid)) eqn:E.
      * symmetry. apply perm_ids_fired. exact E.
      * apply IH. exact E.
    + rewrite sp_has_R, sp_issue_R. unfold issue_, issue.
      destruct (iss_get ic r) as [id|]; cbn [fst snd]; change [95;58] with s_bn.
      * destruct (sp_skip chosen (path ++ s_bn ++ id)) eqn:E.
        -- symmetry. apply perm_ids_fired. exact E.
        -- apply IH. exact E.
      * destruct (sp_skip chosen (path ++ s_bn ++ s_b ++ dec (N.of_nat (length ic)))) eqn:E.
        -- symmetry. apply perm_ids_fired. exact E.
        -- apply IH. exact E.
Qed.

(* ====================================================================================== *)
(* with a fixed hash function and dataset                                                    *)
(* ====================================================================================== *)
Definition cv_hi (x : str * issuer) : str * sp_issuer := (fst x, R s_b (snd x)).
Definition cv_ip (x : issuer * str) : sp_issuer * str := (R s_b (fst x), snd x).
Definition cv_acc (x : str * option issuer) : str * option sp_issuer :=
  (fst x, option_map (R s_b) (snd x)).

Definition rec_agree (rec : str -> issuer -> N -> res (str * issuer))
           (recur : str -> sp_issuer -> sp_result (str * sp_issuer)) : Prop :=
  forall r ic dp, agree cv_hi (rec r ic dp) (recur r (R s_b ic)).

Lemma heap_perms_cons {A} (bl : list A) : bl <> [] -> exists p ps, heap_perms bl = p :: ps.
Proof.
  intros Hn. pose proof (heap_perms_length A bl Hn) as L. pose proof (lt_O_fact (length bl)) as F.
  destruct (heap_perms bl) as [|p ps]; [cbn [length] in L; lia|eauto].
Qed.

Section Agree.
Variable H : str -> str.
Variable d : list quad.
Hypothesis Hd : forallb sp_supported d = true.

(* the states on which hash_n_degree_quads runs: the maps of steps 2 and 3, no limit, the
   repaired abandon rule *)
Definition st_ok (st : state) : Prop :=
  step2 true d [] = Ok (st_b2q st) /\ st_b2h st = step3_b2h H (st_b2q st)
  /\ st_df1000 st = None /\ st_plimit st = None /\ st_prune st = true.

Lemma b2q_lookup st b qs : st_ok st -> bt_get (st_b2q st) b = Some qs -> qs = sp_quads_of d b.
Proof.
  intros (E2 & _) Eq. destruct (b2q_spec d _ b E2) as [_ G2]. rewrite Eq in G2.
  destruct (existsb (mentions b) d); [|discriminate]. injection G2 as ->.
  apply quads_of_sp; exact Hd.
Qed.

Lemma b2h_lookup st b h : st_ok st -> bt_get (st_b2h st) b = Some h -> h = sp_h1 H d b.
Proof.
  intros Hst G. pose proof Hst as (E2 & Eh & _). rewrite Eh in G.
  destruct (bt_get (st_b2q st) b) as [qs|] eqn:Eq.
  - rewrite (b2h_memo H _ _ _ Eq) in G. injection G as <-.
    destruct (b2q_spec d _ b E2) as [_ G2]. rewrite Eq in G2.
    destruct (existsb (mentions b) d); [|discriminate]. injection G2 as ->.
    apply h1d_sp_h1; exact Hd.
  - rewrite (b2h_memo_none H _ _ Eq) in G. discriminate.
Qed.

(* ---------- 4.7 ---------- *)
Lemma sp_pred_q_pred q p : q_pred q = Iri p -> sp_pred q = p.
Proof. destruct q as [[[s p'] o] g]. cbn [q_pred]. intros ->. reflexivity. Qed.

Lemma hash_related_agree st related q iss pos :
  st_ok st -> sp_supported q = true ->
  match hash_related H st related q iss pos with
  | Ok h => h = sp_hash_related H d (R s_c14n (st_canon st)) related q (R s_b iss) pos
  | Err e => e <> EFuel
  end.
Proof.
  intros Hst Hq. destruct (sp_supported_pred q Hq) as [p Ep].
  unfold hash_related, sp_hash_related. rewrite Ep, (sp_pred_q_pred q p Ep).
  cbn [R si_issued]. rewrite !sp_lookup_eq.
  change (pos =? pos_g) with (pos =? 103). change [95;58] with s_bn.
  destruct (pos =? 103).
  - destruct (iss_get (st_canon st) related); [reflexivity|].
    destruct (iss_get iss related); [reflexivity|].
    destruct (bt_get (st_b2h st) related) eqn:G; [|discriminate].
    rewrite (b2h_lookup _ _ _ Hst G). reflexivity.
  - destruct (iss_get (st_canon st) related); [reflexivity|].
    destruct (iss_get iss related); [reflexivity|].
    destruct (bt_get (st_b2h st) related) eqn:G; [|discriminate].
    rewrite (b2h_lookup _ _ _ Hst G). reflexivity.
Qed.

(* ---------- 4.8 steps 1-3: the map Hn ---------- *)
Definition hn_entry (CS : sp_issuer) (ident : str) (IS : sp_issuer) (q : quad) (pt : N * term)
  : list (str * str) :=
  flat_map (fun b => if str_eqb b ident then []
                     else [(sp_hash_related H d CS b q IS (fst pt), b)]) (sp_label (snd pt)).

Lemma push_all_nil {V} (m : list (str * list V)) : push_all [] m = m.
Proof. reflexivity. Qed.

Lemma hn_entry_eq CS ident IS q pos c :
  hn_entry CS ident IS q (pos, c) =
  match bnode_id c with
  | Some b => if str_eqb b ident then [] else [(sp_hash_related H d CS b q IS pos, b)]
  | None => []
  end.
Proof.
  unfold hn_entry. destruct c; cbn [snd fst sp_label bnode_id flat_map]; try reflexivity.
  rewrite app_nil_r. reflexivity.
Qed.

Lemma hn_comps_agree st ident iss q : st_ok st -> sp_supported q = true ->
  forall cs hn,
  match hn_comps H st ident iss q cs hn with
  | Ok hn' =>
      hn' = push_all (flat_map (hn_entry (R s_c14n (st_canon st)) ident (R s_b iss) q) cs) hn
  | Err e => e <> EFuel
  end.
Proof.
  intros Hst Hq. induction cs as [|[pos c] cs IH]; intros hn; cbn [hn_comps flat_map].
  - reflexivity.
  - rewrite push_all_app, hn_entry_eq.
    destruct (bnode_id c) as [b|]; [|apply IH].
    destruct (str_eqb b ident); [apply IH|].
    pose proof (hash_related_agree st b q iss pos Hst Hq) as Hh.
    destruct (hash_related H st b q iss pos) as [h|e]; [|exact Hh]. subst h. apply IH.
Qed.

Lemma hn_entry_comps CS ident IS q : sp_supported q = true ->
  flat_map (hn_entry CS ident IS q) (comps q) = flat_map (hn_entry CS ident IS q) (sp_positions q).
Proof.
  intros Hq. destruct (sp_supported_pred q Hq) as [p Ep].
  destruct q as [[[s p'] o] g]. cbn [q_pred] in Ep. subst p'.
  unfold comps, sp_positions. destruct g; cbn [flat_map app]; reflexivity.
Qed.

Lemma hn_quads_agree st ident iss : st_ok st -> forall qs hn,
  forallb sp_supported qs = true ->
  match hn_quads H st ident iss qs hn with
  | Ok hn' =>
      hn' = push_all (flat_map (fun q =>
                        flat_map (hn_entry (R s_c14n (st_canon st)) ident (R s_b iss) q)
                                 (sp_positions q)) qs) hn
  | Err e => e <> EFuel
  end.
Proof.
  intros Hst. induction qs as [|q qs IH]; intros hn Hqs; cbn [hn_quads flat_map].
  - reflexivity.
  - cbn [forallb] in Hqs. apply andb_true_iff in Hqs as [Hq Hqs].
    pose proof (hn_comps_agree st ident iss q Hst Hq (comps q) hn) as Hc.
    destruct (hn_comps H st ident iss q (comps q) hn) as [hn1|e]; [|exact Hc].
    subst hn1. rewrite push_all_app, <- (hn_entry_comps _ _ _ q Hq). apply IH. exact Hqs.
Qed.

Lemma sp_quads_of_supported b : forallb sp_supported (sp_quads_of d b) = true.
Proof.
  apply forallb_forall. intros q Hq. unfold sp_quads_of in Hq. apply filter_In in Hq as [Hq _].
  rewrite forallb_forall in Hd. apply Hd; exact Hq.
Qed.

Section Body.
Variable rec : str -> issuer -> N -> res (str * issuer).
Variable recur : str -> sp_issuer -> sp_result (str * sp_issuer).
Hypothesis Hrec : rec_agree rec recur.
Variable st : state.
Hypothesis Hst : st_ok st.

Let CS := R s_c14n (st_canon st).

Lemma st_prune_true : st_prune st = true.
Proof. destruct Hst as (_ & _ & _ & _ & Hp). exact Hp. Qed.

(* ---------- 5.4.5 ---------- *)
Lemma perm_rec_agree : forall rl chosen depth ic path,
  agree (option_map cv_ip) (perm_rec rec st chosen depth ic path rl)
        (sp_5_4_5 recur chosen (R s_b ic) path rl).
Proof.
  induction rl as [|r rl IH]; intros chosen depth ic path; cbn [perm_rec sp_5_4_5].
  - reflexivity.
  - pose proof (Hrec r ic (depth + 1)) as Hr.
    destruct (rec r ic (depth + 1)) as [[h ic2]|e].
    + unfold agree, cv_hi in Hr; cbn [fst snd] in Hr. rewrite Hr. rewrite sp_issue_R.
      destruct (issue s_b ic r) as [[i0 id] nw]. cbn [fst snd].
      rewrite st_prune_true, skip_eq. change [95;58] with s_bn.
      destruct (sp_skip chosen (path ++ s_bn ++ id ++ [60] ++ h ++ [62])); [reflexivity|apply IH].
    + apply agree_err. intros ->. cbn [agree] in Hr. rewrite Hr. reflexivity.
Qed.

(* ---------- 5.4 ---------- *)
Lemma all_perms_agree : forall ps base depth chosen ci,
  agree cv_acc (all_perms rec st base depth (chosen, ci) ps)
        (sp_5_4 recur CS (R s_b base) chosen (option_map (R s_b) ci) ps).
Proof.
  induction ps as [|p ps IH]; intros base depth chosen ci; cbn [all_perms sp_5_4].
  - reflexivity.
  - unfold one_perm. unfold CS at 1.
    rewrite (sp_5_4_4_agree (st_canon st) chosen p base [] [] (sp_skip_nil chosen)).
    destruct (perm_ids (st_canon st) base [] [] p) as [[ic path] rl].
    rewrite st_prune_true, skip_eq. destruct (sp_skip chosen path).
    + apply IH.
    + pose proof (perm_rec_agree rl chosen depth ic path) as Hr.
      destruct (perm_rec rec st chosen depth ic path rl) as [[[ic' path']|]|e].
      * unfold agree, cv_ip in Hr; cbn [option_map fst snd] in Hr. rewrite Hr.
        destruct (is_nil chosen || str_ltb path' chosen).
        -- apply (IH base depth path' (Some ic')).
        -- apply IH.
      * cbn [agree option_map] in Hr. rewrite Hr. apply IH.
      * apply agree_err. intros ->. cbn [agree] in Hr. rewrite Hr. reflexivity.
Qed.

Lemma all_perms_agree' ps base depth acc :
  agree cv_acc (all_perms rec st base depth acc ps)
        (sp_5_4 recur CS (R s_b base) (fst acc) (option_map (R s_b) (snd acc)) ps).
Proof. destruct acc; apply all_perms_agree. Qed.

(* after the first permutation the chosen issuer is set *)
Lemma perm_rec_nil : forall rl depth ic path, perm_rec rec st [] depth ic path rl <> Ok None.
Proof.
  induction rl as [|r rl IH]; intros depth ic path; cbn [perm_rec]; [discriminate|].
  destruct (rec r ic (depth + 1)) as [[h ic2]|e]; [|discriminate].
  destruct (issue s_b ic r) as [[i0 id] nw]. cbn [is_nil negb andb]. apply IH.
Qed.

Lemma one_perm_some base depth chosen ci p acc' :
  (chosen = [] \/ ci <> None) ->
  one_perm rec st base depth (chosen, ci) p = Ok acc' -> snd acc' <> None.
Proof.
  intros Hc. unfold one_perm. destruct (perm_ids (st_canon st) base [] [] p) as [[ic path] rl].
  destruct (negb (is_nil chosen) && prune_rule (st_prune st) chosen path) eqn:Et.
  - intros E; injection E as <-. cbn [snd].
    destruct Hc as [->|Hc]; [cbn in Et; discriminate|exact Hc].
  - destruct (perm_rec rec st chosen depth ic path rl) as [[[ic' path']|]|e] eqn:Er;
      try discriminate.
    + destruct (is_nil chosen || str_ltb path' chosen) eqn:Ec; intros E; injection E as <-;
        cbn [snd]; [discriminate|].
      destruct Hc as [->|Hc]; [cbn in Ec; discriminate|exact Hc].
    + intros E; injection E as <-. cbn [snd].
      destruct Hc as [->|Hc]; [exfalso; eapply perm_rec_nil; exact Er|exact Hc].
Qed.

Lemma all_perms_some base depth : forall ps acc acc',
  snd acc <> None -> all_perms rec st base depth acc ps = Ok acc' -> snd acc' <> None.
Proof.
  induction ps as [|p ps IH]; intros acc acc' Ha; cbn [all_perms].
  - intros E; injection E as <-. exact Ha.
  - destruct (one_perm rec st base depth acc p) as [acc1|e] eqn:E1; [|discriminate].
    apply IH. destruct acc as [chosen ci]. eapply one_perm_some; [|exact E1]. right; exact Ha.
Qed.

Lemma all_perms_some0 base depth p ps acc' :
  all_perms rec st base depth ([], None) (p :: ps) = Ok acc' -> snd acc' <> None.
Proof.
  cbn [all_perms].
  destruct (one_perm rec st base depth ([], None) p) as [acc1|e] eqn:E1; [|discriminate].
  apply all_perms_some. eapply one_perm_some; [|exact E1]. left; reflexivity.
Qed.

(* ---------- 5 ---------- *)
Lemma hn_groups_agree : forall hn iss depth data ret, ne_lists hn ->
  agree (fun x => (fst x, R s_b (match snd x with Some r => r | None => iss end)))
        (hn_groups rec st iss depth data ret hn)
        (sp_5 heap_perms recur CS (R s_b (match ret with Some r => r | None => iss end)) data hn).
Proof.
  induction hn as [|[rh bl] hn IH]; intros iss depth data ret Hne; cbn [hn_groups sp_5].
  - reflexivity.
  - inversion Hne as [|x l Hbl Hne']; subst. cbn [snd] in Hbl.
    destruct Hst as (_ & _ & _ & Hpl & _). rewrite Hpl.
    set (base := match ret with Some r => r | None => iss end).
    match goal with
    | |- context [all_perms rec st base depth ?acc ?ps] =>
        pose proof (all_perms_agree' ps base depth acc) as Ha; cbn [fst snd option_map] in Ha;
        destruct (all_perms rec st base depth acc ps) as [[chosen ci]|e] eqn:Ea
    end.
    + unfold agree, cv_acc in Ha; cbn [fst snd] in Ha. rewrite Ha.
      destruct (heap_perms_cons bl Hbl) as (p & ps & Ep). rewrite Ep in Ea.
      apply all_perms_some0 in Ea. cbn [snd] in Ea. destruct ci as [i|]; [|contradiction].
      cbn [option_map]. rewrite <- app_assoc. apply (IH iss depth _ (Some i) Hne').
    + apply agree_err. intros ->. cbn [agree] in Ha. rewrite Ha. reflexivity.
Qed.

(* ---------- 4.8 ---------- *)
Lemma hnd_body_agree ident iss depth :
  agree cv_hi (hnd_body H rec st ident iss depth)
        (sp_n_degree_body H heap_perms d recur CS ident (R s_b iss)).
Proof.
  unfold hnd_body, sp_n_degree_body.
  pose proof Hst as (_ & _ & Hdf & _). rewrite Hdf.
  destruct (bt_get (st_b2q st) ident) as [qs|] eqn:Eq; [|exact I].
  apply (b2q_lookup st ident qs Hst) in Eq. subst qs.
  pose proof (hn_quads_agree st ident iss Hst (sp_quads_of d ident) [] (sp_quads_of_supported ident))
    as Hq.
  destruct (hn_quads H st ident iss (sp_quads_of d ident) []) as [hn|e];
    [|apply agree_err; intros ->; contradiction].
  assert (Hne : ne_lists hn) by (subst hn; apply push_all_ne; constructor).
  rewrite push_all_is_group in Hq.
  change (hn = sp_hn H d CS ident (R s_b iss)) in Hq. rewrite <- Hq.
  pose proof (hn_groups_agree hn iss depth [] None Hne) as Hg.
  destruct (hn_groups rec st iss depth [] None hn) as [[data ret]|e].
  - cbn [agree fst snd] in Hg. rewrite Hg. reflexivity.
  - apply agree_err. intros ->. cbn [agree] in Hg. rewrite Hg. reflexivity.
Qed.
End Body.

Theorem hnd_agree : forall fuel st ident iss depth, st_ok st ->
  agree cv_hi (hnd H fuel st ident iss depth)
        (sp_n_degree H heap_perms d fuel (R s_c14n (st_canon st)) ident (R s_b iss)).
Proof.
  induction fuel as [|f IH]; intros st ident iss depth Hst; cbn [hnd sp_n_degree].
  - reflexivity.
  - apply hnd_body_agree; [|exact Hst]. intros r ic dp. apply IH. exact Hst.
Qed.
End Agree.
