(* C13/ExistsSubst.v -- EXISTS computes SPARQL 1.1 section 18.6.

   The engine does not substitute: it evaluates the group with the SAME select, started from
   the current solution b0 (the `binding` argument).  This file proves that, for groups made of
   BGP, FILTER, UNION, GRAPH and BIND, this is the same as evaluating substitute(group, b0)
   from scratch:  select p gm (Some b0)  and  select (substitute p b0) gm None  succeed or fail
   together, and their solutions correspond one to one ([over]: the first is b0 overlaid on the
   second) -- whatever the dataset answers, as long as it only returns triples that match.
   With Proofs.select_correct (engine = algebra for the substituted pattern):

       EXISTS { p }  under b0 on the active graph g   =   spec D (substitute p b0) g is not empty. *)
From Sophia.C13 Require Import Model Maps BgpProofs Proofs NumModel Eval Exists ExistsProofs.
From Coq Require Import Permutation.

(* ---------- lists ---------- *)
Lemma Forall2_flat_map {A B C} (R : B -> C -> Prop) (f : A -> list B) (g : A -> list C) l :
  (forall x, In x l -> Forall2 R (f x) (g x)) -> Forall2 R (flat_map f l) (flat_map g l).
Proof.
  induction l as [|x l IH]; intros H; cbn [flat_map]; [constructor|].
  apply Forall2_app; [apply H; left; reflexivity | apply IH; intros; apply H; right; assumption].
Qed.
Lemma Forall2_filter {A B} (R : A -> B -> Prop) (f : A -> bool) (g : B -> bool) l1 l2 :
  Forall2 R l1 l2 -> (forall x y, R x y -> f x = g y) -> Forall2 R (filter f l1) (filter g l2).
Proof.
  intros H Hf. induction H as [|x y l1 l2 Hxy H IH]; cbn [filter]; [constructor|].
  rewrite (Hf x y Hxy). destruct (g y); [constructor; assumption | assumption].
Qed.
Lemma Forall2_map {A B A' B'} (R : A -> B -> Prop) (R' : A' -> B' -> Prop) (f : A -> A') (g : B -> B') l1 l2 :
  Forall2 R l1 l2 -> (forall x y, R x y -> R' (f x) (g y)) -> Forall2 R' (map f l1) (map g l2).
Proof. intros H Hf. induction H; cbn [map]; constructor; auto. Qed.
Definition orel2 {A B} (R : A -> B -> Prop) (x : option A) (y : option B) : Prop :=
  match x, y with Some a, Some b => R a b | None, None => True | _, _ => False end.
Lemma Forall2_filter_map {A B A' B'} (R : A -> B -> Prop) (R' : A' -> B' -> Prop)
      (f : A -> option A') (g : B -> option B') l1 l2 :
  Forall2 R l1 l2 -> (forall x y, R x y -> orel2 R' (f x) (g y)) ->
  Forall2 R' (filter_map f l1) (filter_map g l2).
Proof.
  intros H Hf. induction H as [|x y l1 l2 Hxy H IH]; cbn [filter_map]; [constructor|].
  specialize (Hf x y Hxy). unfold orel2 in Hf.
  destruct (f x), (g y); try contradiction; [constructor; assumption | assumption].
Qed.
Lemma Forall2_nonempty {A B} (R : A -> B -> Prop) l1 l2 : Forall2 R l1 l2 -> nonempty l1 = nonempty l2.
Proof. intros H. destruct H; reflexivity. Qed.
Lemma Permutation_nonempty {A} (l1 l2 : list A) : Permutation l1 l2 -> nonempty l1 = nonempty l2.
Proof.
  intros H. destruct l1, l2; try reflexivity.
  - apply Permutation_nil in H. discriminate.
  - apply Permutation_sym, Permutation_nil in H. discriminate.
Qed.
Lemma In_union_vars k lv rv :
  In k (lv ++ filter (fun v => negb (memb str_eqb v lv)) rv) <-> In k lv \/ In k rv.
Proof.
  rewrite in_app_iff, filter_In. split.
  - intros [H|[H _]]; auto.
  - intros [H|H]; [auto|]. destruct (memb str_eqb k lv) eqn:E.
    + left. apply (memb_In _ str_eqb_eq). exact E.
    + right. auto.
Qed.

Section Subst.
Variable b0 : binding.                        (* the outer solution *)
Notation mu := (bv b0).

(* r1 is b0 overlaid on r2 *)
Definition over (r1 r2 : binding) : Prop :=
  forall a, get a r1 = match get a b0 with Some t => Some t | None => get a r2 end.
Lemma over_start : over b0 empty_binding.
Proof. intros a. destruct (get a b0); [reflexivity|]. destruct a; reflexivity. Qed.
Lemma over_set a t r1 r2 : get a b0 = None -> over r1 r2 -> over (set a t r1) (set a t r2).
Proof.
  intros Ha H a'. rewrite !get_set. destruct (atom_eqb a' a) eqn:E; [|apply H].
  apply atom_eqb_eq in E. subst a'. rewrite Ha. reflexivity.
Qed.
Lemma over_var r1 r2 v : over r1 r2 -> lookup v mu = None -> lookup v (bv r1) = lookup v (bv r2).
Proof. intros H E. specialize (H (AV v)). cbn [get] in H. rewrite E in H. exact H. Qed.
Lemma over_mu r1 r2 v t : over r1 r2 -> lookup v mu = Some t -> lookup v (bv r1) = Some t.
Proof. intros H E. specialize (H (AV v)). cbn [get] in H. rewrite E in H. exact H. Qed.

Notation fresh := (bn_fresh_atom (bb b0)).
Lemma fresh_get a : fresh a = true -> (forall v, a = AV v -> lookup v mu = None) -> get a b0 = None.
Proof.
  destruct a as [v|l]; cbn [bn_fresh_atom get].
  - intros _ H. apply H. reflexivity.
  - unfold in_dom. destruct (lookup l (bb b0)); [discriminate | reflexivity].
Qed.

(* ---------- matcher.rs / binding.rs under the overlay ---------- *)
Lemma build_subst p : forall r1 r2, over r1 r2 -> forallb fresh (atoms p) = true ->
  build p r1 = build (subst_tp mu p) r2.
Proof.
  induction p as [c|a|s IHs p IHp o IHo]; intros r1 r2 O F.
  - reflexivity.
  - destruct a as [v|l].
    + cbn [subst_tp]. destruct (lookup v mu) as [t|] eqn:E.
      * cbn [build get]. rewrite (over_mu _ _ _ _ O E). reflexivity.
      * cbn [build get]. rewrite (over_var _ _ _ O E). reflexivity.
    + cbn [subst_tp build]. cbn [atoms forallb] in F. apply andb_true_iff in F as [F _].
      specialize (O (AB l)). rewrite (fresh_get (AB l) F) in O by (intros; discriminate).
      rewrite O. reflexivity.
  - cbn [subst_tp]. rewrite !build_trip. cbn [atoms] in F. rewrite !forallb_app in F.
    apply andb_true_iff in F as [F1 F]. apply andb_true_iff in F as [F2 F3].
    rewrite (IHs _ _ O F1), (IHp _ _ O F2), (IHo _ _ O F3). reflexivity.
Qed.
Definition fresh3 (tp : tp3) : bool := forallb fresh (atoms3 tp).
Lemma fresh3_split s p o : fresh3 (s, p, o) = true ->
  forallb fresh (atoms s) = true /\ forallb fresh (atoms p) = true /\ forallb fresh (atoms o) = true.
Proof.
  unfold fresh3. cbn [atoms3]. rewrite !forallb_app, !andb_true_iff. tauto.
Qed.
Lemma build3_subst tp r1 r2 : over r1 r2 -> fresh3 tp = true ->
  build3 tp r1 = build3 (subst_tp3 mu tp) r2.
Proof.
  destruct tp as [[s p] o]. intros O F. apply fresh3_split in F as [F1 [F2 F3]].
  cbn [build3 subst_tp3]. rewrite (build_subst s _ _ O F1), (build_subst p _ _ O F2), (build_subst o _ _ O F3).
  reflexivity.
Qed.

(* what a match guarantees about the variables of mu: the matcher was built with them bound *)
Fixpoint mu_ok (p : tpat) (t : term) : bool :=
  match p with
  | PConst _ => true
  | PAtom (AV v) => match lookup v mu with Some t0 => teq t0 t | None => true end
  | PAtom (AB _) => true
  | PTrip s p' o =>
      match t with Triple ts tp to => mu_ok s ts && mu_ok p' tp && mu_ok o to | _ => true end
  end.
Lemma matches_mu_ok p : forall r1 r2 t, over r1 r2 -> m_matches (build p r1) t = true -> mu_ok p t = true.
Proof.
  induction p as [c|a|s IHs p IHp o IHo]; intros r1 r2 t O M.
  - reflexivity.
  - destruct a as [v|l]; [|reflexivity]. cbn [mu_ok]. destruct (lookup v mu) as [t0|] eqn:E; [|reflexivity].
    cbn [build get] in M. rewrite (over_mu _ _ _ _ O E) in M. exact M.
  - rewrite build_trip, trip_of_matches in M. cbn [mu_ok]. destruct t; try reflexivity.
    apply andb_true_iff in M as [M M3]. apply andb_true_iff in M as [M1 M2].
    rewrite (IHs _ _ _ O M1), (IHp _ _ _ O M2), (IHo _ _ _ O M3). reflexivity.
Qed.
Lemma populate_subst p : forall t r1 r2, over r1 r2 -> forallb fresh (atoms p) = true -> mu_ok p t = true ->
  orel2 over (populate p t r1) (populate (subst_tp mu p) t r2).
Proof.
  induction p as [c|a|s IHs p IHp o IHo]; intros t r1 r2 O F K.
  - exact O.
  - assert (Hsame : get a b0 = None -> orel2 over (populate (PAtom a) t r1) (populate (PAtom a) t r2)).
    { intros Ha. cbn [populate]. pose proof (O a) as Oa. rewrite Ha in Oa. rewrite Oa.
      destruct (get a r2) as [t'|].
      - destruct (teq t' t); [exact O | exact I].
      - apply over_set; assumption. }
    destruct a as [v|l].
    + cbn [subst_tp]. destruct (lookup v mu) as [t0|] eqn:E.
      * cbn [populate get]. rewrite (over_mu _ _ _ _ O E). cbn [mu_ok] in K. rewrite E in K. rewrite K. exact O.
      * apply Hsame. exact E.
    + cbn [subst_tp]. apply Hsame. cbn [atoms forallb] in F. apply andb_true_iff in F as [F _].
      apply fresh_get; [exact F | intros; discriminate].
  - cbn [subst_tp populate]. destruct t; try exact I.
    cbn [atoms] in F. rewrite !forallb_app in F.
    apply andb_true_iff in F as [F1 F]. apply andb_true_iff in F as [F2 F3].
    cbn [mu_ok] in K. apply andb_true_iff in K as [K K3]. apply andb_true_iff in K as [K1 K2].
    pose proof (IHs t1 r1 r2 O F1 K1) as H1. unfold orel2 in H1.
    destruct (populate s t1 r1) as [a1|], (populate (subst_tp mu s) t1 r2) as [a2|]; try contradiction; [|exact I].
    pose proof (IHp t2 a1 a2 H1 F2 K2) as H2. unfold orel2 in H2.
    destruct (populate p t2 a1) as [c1|], (populate (subst_tp mu p) t2 a2) as [c2|]; try contradiction; [|exact I].
    exact (IHo t3 c1 c2 H2 F3 K3).
Qed.
Lemma populate3_subst tp m r1 r2 : over r1 r2 -> fresh3 tp = true ->
  matches3 (build3 tp r1) m = true ->
  orel2 over (populate3 tp m r1) (populate3 (subst_tp3 mu tp) m r2).
Proof.
  destruct tp as [[s p] o], m as [[ms mp] mo]. intros O F M. apply fresh3_split in F as [F1 [F2 F3]].
  cbn [build3 matches3] in M. apply andb_true_iff in M as [M M3]. apply andb_true_iff in M as [M1 M2].
  cbn [populate3 subst_tp3].
  pose proof (populate_subst s ms r1 r2 O F1 (matches_mu_ok s _ _ _ O M1)) as H1. unfold orel2 in H1.
  destruct (populate s ms r1) as [a1|], (populate (subst_tp mu s) ms r2) as [a2|]; try contradiction; [|exact I].
  pose proof (populate_subst p mp a1 a2 H1 F2 (matches_mu_ok p _ _ _ O M2)) as H2. unfold orel2 in H2.
  destruct (populate p mp a1) as [c1|], (populate (subst_tp mu p) mp a2) as [c2|]; try contradiction; [|exact I].
  exact (populate_subst o mo c1 c2 H2 F3 (matches_mu_ok o _ _ _ O M3)).
Qed.

(* ---------- bgp.rs ---------- *)
Section Engine.
Variable qm : matcher3 -> list (option term) -> list triple.
Hypothesis qm_sound : forall m gm t, In t (qm m gm) -> matches3 m t = true.
Variable gnames : list term.

Lemma bgp_rec_subst gm ps : forallb fresh3 ps = true -> forall r1 r2, over r1 r2 ->
  Forall2 over (bgp_rec qm ps r1 gm) (bgp_rec qm (map (subst_tp3 mu) ps) r2 gm).
Proof.
  induction ps as [|tp ps IH]; intros F r1 r2 O.
  - cbn [map bgp_rec]. constructor; [exact O | constructor].
  - cbn [forallb] in F. apply andb_true_iff in F as [F1 F]. cbn [map]. rewrite !bgp_rec_cons.
    rewrite <- (build3_subst tp r1 r2 O F1).
    destruct (qm (build3 tp r1) gm) as [|m0 ms] eqn:E; [constructor|]. rewrite <- E.
    destruct (all_bound3 (build3 tp r1)); [apply IH; assumption|].
    apply Forall2_flat_map. intros m Hin. unfold bgp_step.
    pose proof (populate3_subst tp m r1 r2 O F1 (qm_sound _ _ _ Hin)) as H. unfold orel2 in H.
    destruct (populate3 tp m r1) as [a1|], (populate3 (subst_tp3 mu tp) m r2) as [a2|]; try contradiction;
      [apply IH; assumption | constructor].
Qed.

(* ---------- expressions ---------- *)
Lemma in_dom_false v : in_dom v mu = false -> lookup v mu = None.
Proof. unfold in_dom. destruct (lookup v mu); [discriminate | reflexivity]. Qed.
Lemma ceval_subst e : forall r1 r2, over r1 r2 -> sgroup_e mu e = true ->
  ceval e (bv r1) = ceval (subst_e mu e) (bv r2).
Proof.
  induction e; intros r1 r2 O G; cbn [sgroup_e] in G;
    try (apply andb_true_iff in G as [G1 G2]); cbn [subst_e ceval];
    rewrite ?(IHe _ _ O G), ?(IHe1 _ _ O G1), ?(IHe2 _ _ O G2); try reflexivity.
  - destruct (lookup v mu) as [t|] eqn:E; cbn [ceval].
    + rewrite (over_mu _ _ _ _ O E). reflexivity.
    + rewrite (over_var _ _ _ O E). reflexivity.
  - apply negb_true_iff in G. rewrite (over_var _ _ _ O (in_dom_false _ G)). reflexivity.
Qed.

(* ---------- exec.rs ---------- *)
Definition VS (vs1 vs2 : list str) : Prop := forall k, In k vs1 <-> (In k vs2 \/ In k (keys mu)).
Definition rel (x y : result) : Prop :=
  match x, y with
  | Ok vs1 rows1, Ok vs2 rows2 => VS vs1 vs2 /\ Forall2 over rows1 rows2
  | Err e1, Err e2 => e1 = e2
  | _, _ => False
  end.
Lemma rel_only_if_named n x y : rel x y -> rel (only_if_named gnames n x) (only_if_named gnames n y).
Proof.
  destruct x as [vs1 rows1|e1], y as [vs2 rows2|e2]; cbn [rel only_if_named]; try tauto.
  destruct (memb teq n gnames); cbn [rel]; [tauto|]. intros [V _]. split; [exact V | constructor].
Qed.
Lemma VS_add_var v vs1 vs2 : VS vs1 vs2 -> VS (add_var v vs1) (add_var v vs2).
Proof. intros V k. rewrite !In_add_var, (V k). tauto. Qed.
Lemma join_var_over v n r1 r2 : lookup v mu = None -> over r1 r2 ->
  orel2 over (join_var v n r1) (join_var v n r2).
Proof.
  intros E O. unfold join_var. rewrite (over_var _ _ _ O E).
  destruct (lookup v (bv r2)) as [o|].
  - destruct (teq o n); [exact O | exact I].
  - apply (over_set (AV v) n r1 r2); [exact E | exact O].
Qed.
Lemma graph_rec_subst (s1 s2 : list (option term) -> option binding -> result) v names :
  lookup v mu = None -> (forall gm, rel (s1 gm (Some b0)) (s2 gm None)) ->
  match graph_rec s1 v names (Some b0), graph_rec s2 v names None with
  | Ok vs1 rows1, Ok vs2 rows2 => (names <> [] -> VS vs1 vs2) /\ Forall2 over rows1 rows2
  | Err e1, Err e2 => e1 = e2
  | _, _ => False
  end.
Proof.
  intros E H. induction names as [|n names IH]; cbn [graph_rec].
  - split; [congruence | constructor].
  - specialize (H [Some n]).
    destruct (s1 [Some n] (Some b0)) as [vs1 rows1|e1], (s2 [Some n] None) as [vs2 rows2|e2];
      cbn [rel] in H; try contradiction; [|exact H].
    destruct (graph_rec s1 v names (Some b0)) as [vs1' rows1'|e1'], (graph_rec s2 v names None) as [vs2' rows2'|e2'];
      try contradiction; [|exact IH].
    destruct H as [V R], IH as [_ R']. split.
    + intros _. apply VS_add_var. exact V.
    + apply Forall2_app; [|exact R'].
      eapply Forall2_filter_map; [exact R|]. intros x y Hxy. apply join_var_over; assumption.
Qed.

Lemma vars_subst k ps :
  In k (vars_of_atoms (flat_map atoms3 (map (subst_tp3 mu) ps)))
  <-> In k (vars_of_atoms (flat_map atoms3 ps)) /\ lookup k mu = None.
Proof.
  rewrite !vars_of_atoms_In, !in_flat_map.
  assert (Hp : forall p, In (AV k) (atoms (subst_tp mu p)) <-> In (AV k) (atoms p) /\ lookup k mu = None).
  { induction p as [c|a|s IHs p IHp o IHo].
    - cbn. tauto.
    - destruct a as [v|l].
      + cbn [subst_tp]. destruct (lookup v mu) as [t|] eqn:E; cbn [atoms In].
        * split; [tauto|]. intros [[H|[]] N]. injection H as ->. congruence.
        * split; [|tauto]. intros [H|[]]. injection H as ->. auto.
      + cbn. split; [intros [H|[]]; discriminate | intros [[H|[]] _]; discriminate].
    - cbn [subst_tp atoms]. rewrite !in_app_iff, IHs, IHp, IHo. tauto. }
  split.
  - intros [tp' [Hin Ha]]. apply in_map_iff in Hin as [[[s p] o] [<- Hin]].
    cbn [subst_tp3 atoms3] in Ha. rewrite !in_app_iff, !Hp in Ha.
    split; [|tauto]. exists (s, p, o). split; [exact Hin|]. cbn [atoms3]. rewrite !in_app_iff. tauto.
  - intros [[[[s p] o] [Hin Ha]] N]. exists (subst_tp3 mu (s, p, o)). split; [apply in_map; exact Hin|].
    cbn [subst_tp3 atoms3] in *. rewrite !in_app_iff in *. rewrite !Hp. tauto.
Qed.

Theorem select_subst (p : cpattern) : sgroup mu p = true -> bn_fresh (bb b0) p = true ->
  forall gm, rel (select CL qm gnames p gm (Some b0)) (select CL qm gnames (subst_p mu p) gm None).
Proof.
  induction p as [ps|e i IH|l IHl r IHr|n i IH|i IH v e|i IH c|i IH vs|i IH|i IH s len|k];
    intros G F gm; cbn [sgroup] in G; cbn [bn_fresh] in F; try discriminate.
  - (* BGP *)
    cbn [subst_p select]. unfold bgp. split.
    + intros k. unfold populate_variables. rewrite !(dedupb_In _ str_eqb_eq), !in_app_iff.
      cbn [app In]. rewrite vars_subst. destruct (lookup k mu) as [t|] eqn:E.
      * assert (In k (keys mu)) by (apply lookup_keys; congruence). split; [tauto|]. intros _. auto.
      * tauto.
    + apply bgp_rec_subst; [|apply over_start].
      clear -F. induction ps as [|tp ps IH]; [reflexivity|]. cbn [flat_map] in F. rewrite forallb_app in F.
      apply andb_true_iff in F as [F1 F2]. cbn [forallb]. unfold fresh3 at 1. rewrite F1. apply IH. exact F2.
  - (* FILTER *)
    apply andb_true_iff in G as [Ge G]. specialize (IH G F gm). cbn [subst_p]. unfold cFilter. cbn [select].
    destruct (select CL qm gnames i gm (Some b0)) as [vs1 rows1|e1],
             (select CL qm gnames (subst_p mu i) gm None) as [vs2 rows2|e2]; cbn [rel] in *; try contradiction; [|exact IH].
    destruct IH as [V R]. split; [exact V|]. eapply Forall2_filter; [exact R|].
    intros x y Hxy. unfold filter_keep. cbn [eval_expr CL is_truthy]. rewrite (ceval_subst e x y Hxy Ge). reflexivity.
  - (* UNION *)
    apply andb_true_iff in G as [G1 G2]. apply andb_true_iff in F as [F1 F2].
    specialize (IHl G1 F1 gm). specialize (IHr G2 F2 gm). cbn [subst_p select].
    destruct (select CL qm gnames l gm (Some b0)) as [lv1 li1|e1],
             (select CL qm gnames (subst_p mu l) gm None) as [lv2 li2|e2]; cbn [rel] in *; try contradiction; [|exact IHl].
    destruct (select CL qm gnames r gm (Some b0)) as [rv1 ri1|e1],
             (select CL qm gnames (subst_p mu r) gm None) as [rv2 ri2|e2]; cbn [rel] in *; try contradiction; [|exact IHr].
    destruct IHl as [V1 R1], IHr as [V2 R2]. split.
    + intros k. rewrite !In_union_vars, (V1 k), (V2 k). tauto.
    + apply Forall2_app; assumption.
  - (* GRAPH *)
    destruct n as [iri|v].
    + cbn [subst_p select]. unfold graph. apply rel_only_if_named. apply IH; assumption.
    + cbn [subst_p]. destruct (lookup v mu) as [t|] eqn:E.
      * destruct t; try discriminate. cbn [select]. unfold graph. cbn [bv]. rewrite E.
        apply rel_only_if_named. apply IH; assumption.
      * cbn [select]. unfold graph. rewrite E.
        pose proof (IH G F []) as H0.
        destruct (select CL qm gnames i [] (Some b0)) as [vs1 rows1|e1],
                 (select CL qm gnames (subst_p mu i) [] None) as [vs2 rows2|e2]; cbn [rel] in H0; try contradiction; [|exact H0].
        destruct gnames as [|g1 gs] eqn:EG.
        -- destruct H0 as [V _]. split; [apply VS_add_var; exact V | constructor].
        -- pose proof (graph_rec_subst (select CL qm (g1 :: gs) i) (select CL qm (g1 :: gs) (subst_p mu i)) v (g1 :: gs) E
                         (fun gm' => IH G F gm')) as H.
           destruct (graph_rec (select CL qm (g1 :: gs) i) v (g1 :: gs) (Some b0)) as [a1 a2|a3],
                    (graph_rec (select CL qm (g1 :: gs) (subst_p mu i)) v (g1 :: gs) None) as [c1 c2|c3];
             try contradiction; [|exact H].
           destruct H as [V R]. split; [apply V; discriminate | exact R].
  - (* BIND *)
    apply andb_true_iff in G as [G Gi]. apply andb_true_iff in G as [Gv Ge]. apply negb_true_iff in Gv.
    specialize (IH Gi F gm). cbn [subst_p]. unfold cExtend. cbn [select].
    destruct (select CL qm gnames i gm (Some b0)) as [vs1 rows1|e1],
             (select CL qm gnames (subst_p mu i) gm None) as [vs2 rows2|e2]; cbn [rel] in *; try contradiction; [|exact IH].
    destruct IH as [V R].
    assert (Hk : ~ In v (keys mu)) by (intros Hk; apply lookup_keys in Hk; rewrite (in_dom_false _ Gv) in Hk; congruence).
    assert (Hm : memb str_eqb v vs1 = memb str_eqb v vs2).
    { destruct (memb str_eqb v vs2) eqn:M2.
      - apply (memb_In _ str_eqb_eq). apply V. left. apply (memb_In _ str_eqb_eq). exact M2.
      - apply (memb_false _ str_eqb_eq). intros H1. apply V in H1 as [H1|H1]; [|contradiction].
        apply (memb_false _ str_eqb_eq) in M2. contradiction. }
    rewrite Hm. destruct (memb str_eqb v vs2); [reflexivity|]. split.
    + intros k. rewrite !in_app_iff, (V k). tauto.
    + eapply Forall2_map; [exact R|]. intros x y Hxy. unfold extend_row. cbn [eval_expr CL into_term].
      rewrite (ceval_subst e x y Hxy Ge). destruct (ceval (subst_e mu e) (bv y)); [|exact Hxy].
      apply over_set; [|exact Hxy]. cbn [get]. apply in_dom_false. exact Gv.
Qed.
End Engine.

Lemma sgroup_supported (p : cpattern) : sgroup mu p = true ->
  supported CL (subst_p mu p) = true /\ slice_free CL (subst_p mu p) = true.
Proof.
  induction p as [ps|e i IH|l IHl r IHr|n i IH|i IH v e|i IH c|i IH vs|i IH|i IH s len|k];
    intros G; cbn [sgroup] in G; try discriminate; cbn [subst_p].
  - split; reflexivity.
  - apply andb_true_iff in G as [_ G]. exact (IH G).
  - apply andb_true_iff in G as [G1 G2]. destruct (IHl G1), (IHr G2). cbn [supported slice_free].
    split; apply andb_true_iff; auto.
  - destruct n as [iri|v]; [exact (IH G)|]. destruct (lookup v mu) as [t|]; [|exact (IH G)].
    destruct t; try discriminate; exact (IH G).
  - apply andb_true_iff in G as [_ G]. exact (IH G).
Qed.
End Subst.

Lemma ds_qm_sound D m gm t : In t (ds_qm D m gm) -> matches3 m t = true.
Proof.
  unfold ds_qm. intros H. apply in_map_iff in H as [q [<- H]]. apply filter_In in H as [_ H].
  apply andb_true_iff in H. tauto.
Qed.

(* 18.6 for the engine: EXISTS { p } in the solution b0, on the active graph g *)
Theorem exists_is_substitution D g (p : cpattern) b0 :
  NoDup D -> sgroup (bv b0) p = true -> bn_fresh (bb b0) p = true ->
  no_override CL (subst_p (bv b0) p) = true ->
  weval (ds_qm D) (ds_names D) (WExists (embed_p p)) b0 [g] = Some (vbool (exists_spec D g p (bv b0))).
Proof.
  intros HD G F NO. rewrite weval_exists, wselect_embed. unfold exists_spec.
  pose proof (select_subst b0 (ds_qm D) (ds_qm_sound D) (ds_names D) p G F [g]) as H.
  destruct (sgroup_supported b0 p G) as [S SF].
  destruct (supported_succeeds CL D (subst_p (bv b0) p) [g] S NO) as [vs2 [rows2 E2]].
  rewrite E2 in H.
  destruct (select CL (ds_qm D) (ds_names D) p [g] (Some b0)) as [vs1 rows1|e1]; cbn [rel] in H; [|contradiction].
  destruct H as [_ R].
  destruct (select_correct CL (fun _ l => Permutation_refl l) D HD (subst_p (bv b0) p) g vs2 rows2 SF E2) as [P _].
  rewrite (Forall2_nonempty _ _ _ R).
  rewrite <- (Permutation_nonempty _ _ P). destruct rows2; reflexivity.
Qed.
(* ... and NOT EXISTS *)
Corollary not_exists_is_substitution D g (p : cpattern) b0 :
  NoDup D -> sgroup (bv b0) p = true -> bn_fresh (bb b0) p = true ->
  no_override CL (subst_p (bv b0) p) = true ->
  weval (ds_qm D) (ds_names D) (WNot (WExists (embed_p p))) b0 [g]
  = Some (vbool (negb (exists_spec D g p (bv b0)))).
Proof.
  intros. apply not_exists_is_negation. apply exists_is_substitution; assumption.
Qed.
