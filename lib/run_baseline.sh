#!/bin/bash
# Runs the repository's pinned test suite (guard OFF) and prints a pass/fail summary.
cd /repo || exit 2
export CARGO_NET_OFFLINE=true
if [ -f /w/lib/nextest.toml ] && command -v cargo-nextest >/dev/null; then
  cargo nextest run --workspace --no-fail-fast --tool-config-file pb:/w/lib/nextest.toml --profile pb --test-threads 8 --offline 2>&1 | tail -15
  exit ${PIPESTATUS[0]}
else
  cargo test --workspace --no-fail-fast --offline 2>&1 | grep -E "^test result|FAILED|failed" | tail -40
  exit ${PIPESTATUS[0]}
fi
