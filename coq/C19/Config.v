(* C19/Config.v -- configuration of the loader: LocalLoader::check / new / add
   (resource/src/loader/_local.rs), with Path::is_absolute and Path::is_dir on Unix over the
   symlink-free file-system model of Model.v.  Definitions only. *)
From Sophia.C19 Require Export Model.

(* the three refusals of LocalLoader::check, in the order the code tests them *)
Inductive cfg_err := IriMustEndWithSlash | PathMustBeAbsolute | PathMustBeDirectory.

Definition ends_with_slash (ns : str) : bool :=
  match rev ns with c :: _ => N.eqb c c_slash | [] => false end.

(* "/" always exists; any other path is a directory iff the file system lists it as a non-file *)
Definition is_directory (fs : fsys) (p : list str) : bool :=
  match p with
  | [] => true
  | _ => match lookup fs p with Some false => true | _ => false end
  end.

(* the OS resolving a path text component by component (stat/open without symlinks): every
   Normal component that is followed by something must name an existing directory, so that
   "/no-such-dir/../r1" does not resolve although it is lexically "/r1" *)
Fixpoint os_walk (fs : fsys) (cur : list str) (cs : list comp) : option (list str) :=
  match cs with
  | [] => Some cur
  | CRoot :: r => os_walk fs [] r
  | CCur :: r => os_walk fs cur r
  | CParent :: r => os_walk fs (removelast cur) r
  | CNormal s :: r =>
      let n := cur ++ [s] in
      match r with
      | [] => Some n
      | _ => if is_directory fs n then os_walk fs n r else None
      end
  end.

(* Path::is_dir of an absolute path text *)
Definition dir_of_text (fs : fsys) (t : str) : option (list str) :=
  match os_walk fs [] (components t) with
  | Some p => if is_directory fs p then Some p else None
  | None => None
  end.

(* LocalLoader::check; an accepted mapping is kept as (namespace, the directory it designates) *)
Definition check (fs : fsys) (ns t : str) : cfg_err + cache :=
  if negb (ends_with_slash ns) then inl IriMustEndWithSlash
  else if negb (is_abs t) then inl PathMustBeAbsolute
  else match dir_of_text fs t with
       | Some p => inr (ns, p)
       | None => inl PathMustBeDirectory
       end.

(* LocalLoader::new: collect::<Result<Vec<_>, _>>() = the first refusal, or every mapping in order *)
Fixpoint new_loader (fs : fsys) (l : list (str * str)) : cfg_err + list cache :=
  match l with
  | [] => inr []
  | (ns, t) :: r =>
      match check fs ns t with
      | inl e => inl e
      | inr c => match new_loader fs r with inl e => inl e | inr cs => inr (c :: cs) end
      end
  end.

(* LocalLoader::add: push on success, nothing on refusal *)
Definition add (fs : fsys) (caches : list cache) (ns t : str) : list cache * option cfg_err :=
  match check fs ns t with
  | inr c => (caches ++ [c], None)
  | inl e => (caches, Some e)
  end.

Definition run_adds (fs : fsys) (init : list cache) (ops : list (str * str)) : list cache :=
  fold_left (fun cs op => fst (add fs cs (fst op) (snd op))) ops init.
Definition add_results (fs : fsys) (init : list cache) (ops : list (str * str)) : list (option cfg_err) :=
  snd (fold_left (fun st op => let '(cs, out) := st in
                               let '(cs', r) := add fs cs (fst op) (snd op) in (cs', out ++ [r]))
                 ops (init, [])).

Definition wf_cache (fs : fsys) (c : cache) : Prop :=
  ends_with_slash (fst c) = true /\ is_directory fs (snd c) = true.

(* the Normal components, in order: what a safe remainder adds to the mapped directory *)
Fixpoint normals (cs : list comp) : list str :=
  match cs with
  | [] => []
  | CNormal s :: r => s :: normals r
  | _ :: r => normals r
  end.

(* ---------- harness-facing checkers ---------- *)
Definition err_code (e : option cfg_err) : N :=
  match e with
  | None => 0 | Some IriMustEndWithSlash => 1 | Some PathMustBeAbsolute => 2 | Some PathMustBeDirectory => 3
  end.
(* a loader configured by add() calls: refusal pattern, then one get *)
Definition adds_get_ok fs exts (ops : list (str * str)) (codes : list N) iri (code : N) (path : list str) (ct : N) : bool :=
  list_eqb N.eqb (map err_code (add_results fs [] ops)) codes
  && get_ok fs exts (run_adds fs [] ops) iri code path ct.
(* a loader built by new(): refused with the first error, or one get *)
Definition new_get_ok fs exts (l : list (str * str)) (errcode : N) iri (code : N) (path : list str) (ct : N) : bool :=
  match new_loader fs l with
  | inl e => N.eqb (err_code (Some e)) errcode
  | inr cs => N.eqb errcode 0 && get_ok fs exts cs iri code path ct
  end.
