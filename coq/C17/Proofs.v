(* C17/Proofs.v -- relativize is a right inverse of the (oxiri) resolver. *)
From Sophia.C17 Require Import Model.
Local Open Scope nat_scope.

(* ================= generic list facts ================= *)
Lemma lcp_firstn : forall a b k, k <= lcp a b -> firstn k a = firstn k b.
Proof.
  induction a as [|x a IH]; intros [|y b] k H; simpl in *;
    try (assert (k = 0) by lia; subst; reflexivity).
  destruct (N.eqb_spec x y) as [->|Hn].
  - destruct k as [|k]; [reflexivity|]. simpl. f_equal. apply IH. lia.
  - assert (k = 0) by lia. subst. reflexivity.
Qed.

Lemma lcp_le_r : forall a b, lcp a b <= length b.
Proof.
  induction a as [|x a IH]; intros [|y b]; simpl; try lia.
  destruct (N.eqb x y); [specialize (IH b)|]; lia.
Qed.

Lemma slice_from_some s k r : slice_from s k = Some r -> r = skipn k s /\ k <= length s.
Proof.
  unfold slice_from, is_char_boundary. destruct k as [|k].
  - intros [= <-]. split; [reflexivity|lia].
  - destruct (nth_error s (S k)) eqn:E.
    + destruct (negb (is_cont n)); [|discriminate]. intros [= <-]. split; [reflexivity|].
      apply Nat.lt_le_incl. apply nth_error_Some. congruence.
    + destruct (Nat.eqb_spec (S k) (length s)); [|discriminate]. intros [= <-]. split; [reflexivity|lia].
Qed.

Lemma cut_split b i k r : k <= lcp b i -> slice_from i k = Some r -> i = firstn k b ++ r.
Proof.
  intros Hk Hs. apply slice_from_some in Hs as [-> _].
  rewrite (lcp_firstn _ _ _ Hk). symmetry. apply firstn_skipn.
Qed.

Lemma firstn_firstn_le {A} (l : list A) j k : j <= k -> firstn j (firstn k l) = firstn j l.
Proof. intros H. rewrite firstn_firstn. f_equal. lia. Qed.

(* ================= find_if / find_or_len ================= *)
Lemma find_or_len_le P s : find_or_len P s <= length s.
Proof.
  unfold find_or_len. induction s as [|x s IH]; simpl; [lia|].
  destruct (P x); simpl; [lia|]. destruct (find_if P s); simpl in *; lia.
Qed.

Lemma find_or_len_cons P x s :
  find_or_len P (x :: s) = if P x then 0 else S (find_or_len P s).
Proof. unfold find_or_len. simpl. destruct (P x); [reflexivity|]. destruct (find_if P s); reflexivity. Qed.

Lemma find_or_len_prefix P s : forallb (fun c => negb (P c)) (firstn (find_or_len P s) s) = true.
Proof.
  induction s as [|x s IH]; [reflexivity|]. rewrite find_or_len_cons.
  destruct (P x) eqn:E; [reflexivity|]. simpl. rewrite E. exact IH.
Qed.

Lemma find_or_len_rest P s : skipn (find_or_len P s) s = [] \/ hd_is P (skipn (find_or_len P s) s) = true.
Proof.
  induction s as [|x s IH]; [left; reflexivity|]. rewrite find_or_len_cons.
  destruct (P x) eqn:E; [right; simpl; exact E|]. simpl. exact IH.
Qed.

Lemma find_or_len_all P s : forallb (fun c => negb (P c)) s = true -> find_or_len P s = length s.
Proof.
  induction s as [|x s IH]; [reflexivity|]. simpl. rewrite find_or_len_cons.
  intros H. apply andb_true_iff in H as [H1 H2]. apply negb_true_iff in H1. rewrite H1. f_equal. auto.
Qed.

Lemma find_or_len_app P a c t :
  forallb (fun c => negb (P c)) a = true -> P c = true -> find_or_len P (a ++ c :: t) = length a.
Proof.
  induction a as [|x a IH]; simpl; intros H Hc.
  - rewrite find_or_len_cons, Hc. reflexivity.
  - apply andb_true_iff in H as [H1 H2]. apply negb_true_iff in H1.
    rewrite find_or_len_cons, H1. f_equal. auto.
Qed.

(* ================= rfind / drop_seg ================= *)
Definition no_slash (s : str) : Prop := forallb (fun c => negb (is_slash c)) s = true.

Lemma rfind_none s : rfind c_slash s = None -> no_slash s.
Proof.
  unfold no_slash. induction s as [|x s IH]; [reflexivity|]. simpl.
  destruct (rfind c_slash s); [discriminate|]. unfold is_slash.
  destruct (N.eqb x c_slash); [discriminate|]. intros _. simpl. auto.
Qed.

Lemma rfind_some s : forall i, rfind c_slash s = Some i ->
  i < length s /\ s = firstn i s ++ c_slash :: skipn (S i) s /\ no_slash (skipn (S i) s).
Proof.
  induction s as [|x s IH]; [discriminate|]. simpl. intros i.
  destruct (rfind c_slash s) as [j|] eqn:E.
  - intros [= <-]. destruct (IH j eq_refl) as (H1 & H2 & H3). simpl.
    split; [lia|]. split; [f_equal; exact H2|exact H3].
  - destruct (N.eqb_spec x c_slash) as [->|]; [|discriminate]. intros [= <-]. simpl.
    split; [lia|]. split; [reflexivity|]. apply rfind_none. exact E.
Qed.

Lemma drop_seg_app a r : no_slash a -> drop_seg (rev a ++ c_slash :: r) = c_slash :: r.
Proof.
  unfold no_slash. intros H.
  assert (H' : forallb (fun c => negb (is_slash c)) (rev a) = true).
  { apply forallb_forall. intros x Hx. apply in_rev in Hx.
    rewrite forallb_forall in H. auto. }
  clear H. induction (rev a) as [|x l IH]; simpl.
  - unfold c_slash. reflexivity.
  - simpl in H'. apply andb_true_iff in H' as [H1 H2]. unfold is_slash in H1.
    apply negb_true_iff in H1. rewrite H1. auto.
Qed.

Lemma drop_seg_none a : no_slash a -> drop_seg (rev a) = [].
Proof.
  unfold no_slash. intros H.
  assert (H' : forallb (fun c => negb (is_slash c)) (rev a) = true).
  { apply forallb_forall. intros x Hx. apply in_rev in Hx.
    rewrite forallb_forall in H. auto. }
  clear H. induction (rev a) as [|x l IH]; simpl; [reflexivity|].
  simpl in H'. apply andb_true_iff in H' as [H1 H2]. unfold is_slash in H1.
  apply negb_true_iff in H1. rewrite H1. auto.
Qed.

Lemma firstn_app_S {A} (a : list A) c t : firstn (S (length a)) (a ++ c :: t) = a ++ [c].
Proof.
  induction a as [|x a IH]; [reflexivity|].
  change (x :: firstn (S (length a)) (a ++ c :: t) = x :: a ++ [c]). f_equal. exact IH.
Qed.
Lemma firstn_app_len {A} (a t : list A) : firstn (length a) (a ++ t) = a.
Proof.
  induction a as [|x a IH]; [reflexivity|].
  change (x :: firstn (length a) (a ++ t) = x :: a). f_equal. exact IH.
Qed.

Lemma rfind_decomp u i : rfind c_slash u = Some i ->
  exists a t, u = a ++ c_slash :: t /\ length a = i /\ no_slash t /\ firstn i u = a /\ firstn (S i) u = a ++ [c_slash].
Proof.
  intros H. destruct (rfind_some _ _ H) as (H1 & H2 & H3).
  exists (firstn i u), (skipn (S i) u).
  assert (L : length (firstn i u) = i) by (rewrite firstn_length; lia).
  split; [exact H2|]. split; [exact L|]. split; [exact H3|]. split; [reflexivity|].
  rewrite H2 at 1. rewrite <- L at 1. apply firstn_app_S.
Qed.

(* remove_last_segment on the reversed path [rev u] *)
Lemma rls_some ha u i : rfind c_slash u = Some i ->
  rls ha (rev u) = c_slash :: rev (firstn i u) /\ rev (firstn (S i) u) = c_slash :: rev (firstn i u).
Proof.
  intros H. destruct (rfind_decomp _ _ H) as (a & t & E & L & Ht & F1 & F2).
  rewrite F1, F2. split.
  - unfold rls. rewrite E, rev_app_distr. simpl. rewrite <- app_assoc. simpl.
    rewrite drop_seg_app by exact Ht. reflexivity.
  - rewrite rev_app_distr. reflexivity.
Qed.

Lemma rls_none ha u : rfind c_slash u = None -> rls ha (rev u) = if ha then [c_slash] else [].
Proof. intros H. unfold rls. rewrite drop_seg_none by (apply rfind_none; exact H). reflexivity. Qed.

(* ================= str::split('/') ================= *)
Fixpoint join_slash (segs : list str) : str :=
  match segs with
  | [] => []
  | s :: rest => match rest with [] => s | _ => s ++ c_slash :: join_slash rest end
  end.

Lemma split_nonempty s : split_on c_slash s <> [].
Proof.
  induction s as [|x s IH]; simpl; [discriminate|].
  destruct (N.eqb x c_slash); [discriminate|]. destruct (split_on c_slash s); discriminate.
Qed.

Lemma split_join s : join_slash (split_on c_slash s) = s.
Proof.
  induction s as [|x s IH]; [reflexivity|]. simpl.
  destruct (N.eqb_spec x c_slash) as [->|Hn].
  - pose proof (split_nonempty s) as Hne. simpl. destruct (split_on c_slash s) eqn:E; [congruence|].
    rewrite IH. reflexivity.
  - pose proof (split_nonempty s) as Hne. destruct (split_on c_slash s) as [|p ps] eqn:E; [congruence|].
    simpl in *. destruct ps; simpl in *; rewrite <- IH; reflexivity.
Qed.

Lemma split_no_slash s : Forall no_slash (split_on c_slash s).
Proof.
  induction s as [|x s IH]; simpl; [repeat constructor|].
  destruct (N.eqb x c_slash) eqn:Ex.
  - constructor; [reflexivity|exact IH].
  - destruct (split_on c_slash s) as [|p ps]; [repeat constructor; unfold no_slash; simpl; unfold is_slash; rewrite Ex; reflexivity|].
    inversion IH; subst. constructor; [|assumption].
    unfold no_slash in *. simpl. unfold is_slash at 1. rewrite Ex. simpl. assumption.
Qed.

(* ================= parse_path::<true> ================= *)
Definition dir_like (R : str) : Prop := R = [] \/ exists R', R = c_slash :: R'.

Lemma is_delim_false c : is_delim c = false -> N.eqb c c_slash = false /\ is_qh c = false.
Proof. unfold is_delim, is_slash. intros H. apply orb_false_iff in H. exact H. Qed.

Lemma pp_rm_push ha seg : forall rout inp,
  forallb (fun c => negb (is_delim c)) seg = true ->
  pp_rm ha rout (seg ++ inp) = pp_rm ha (rev seg ++ rout) inp.
Proof.
  induction seg as [|a seg IH]; intros rout inp H; [reflexivity|].
  simpl in H. apply andb_true_iff in H as [H1 H2]. apply negb_true_iff in H1.
  apply is_delim_false in H1 as [E1 E2].
  cbn [app pp_rm]. rewrite E1, E2. rewrite IH by exact H2.
  simpl. rewrite <- app_assoc. reflexivity.
Qed.

Lemma is_dot_seg_iff s : is_dot_seg s = true <-> s = [c_dot] \/ s = [c_dot; c_dot].
Proof.
  unfold is_dot_seg. rewrite orb_true_iff, !str_eqb_eq. reflexivity.
Qed.

Lemma is_dot_seg_rev s : is_dot_seg (rev s) = is_dot_seg s.
Proof.
  destruct (is_dot_seg s) eqn:E.
  - apply is_dot_seg_iff in E as [->| ->]; reflexivity.
  - destruct (is_dot_seg (rev s)) eqn:F; [|reflexivity].
    apply is_dot_seg_iff in F. rewrite <- E. symmetry. apply is_dot_seg_iff.
    destruct F as [F|F]; apply (f_equal (@rev N)) in F; rewrite rev_involutive in F; simpl in F; auto.
Qed.

Lemma strip_prefix_some p : forall s r, strip_prefix p s = Some r -> s = p ++ r.
Proof.
  induction p as [|x p IH]; intros [|y s] r H; simpl in H; try discriminate; try (injection H as <-; reflexivity).
  destruct (N.eqb_spec x y) as [->|]; [|discriminate]. simpl. f_equal. apply IH. exact H.
Qed.
Lemma strip_prefix_app p r : strip_prefix p (p ++ r) = Some r.
Proof. induction p as [|x p IH]; [reflexivity|]. simpl. rewrite N.eqb_refl. exact IH. Qed.

Lemma dot_fix_shape ha X : dot_fix ha X = None \/
  (exists r, X = c_dot :: c_dot :: c_slash :: r) \/ (exists r, X = c_dot :: c_slash :: r)
  \/ X = [c_dot] \/ X = [c_dot; c_dot].
Proof.
  unfold dot_fix.
  destruct (strip_prefix [c_dot; c_dot; c_slash] X) eqn:E1.
  { apply strip_prefix_some in E1. right. left. eexists. exact E1. }
  destruct (strip_prefix [c_dot; c_slash] X) eqn:E2.
  { apply strip_prefix_some in E2. right. right. left. eexists. exact E2. }
  destruct (str_eqb X [c_dot]) eqn:E3.
  { apply str_eqb_eq in E3. auto. }
  destruct (str_eqb X [c_dot; c_dot]) eqn:E4.
  { apply str_eqb_eq in E4. auto 6. }
  left. reflexivity.
Qed.

Lemma dot_ne_slash : c_dot <> c_slash. Proof. discriminate. Qed.

Lemma dot_fix_nondot ha rs R :
  forallb (fun c => negb (is_slash c)) rs = true -> is_dot_seg rs = false -> dir_like R ->
  dot_fix ha (rs ++ R) = None.
Proof.
  intros Hs Hd HR.
  assert (Hin : forall x, In x rs -> x <> c_slash).
  { intros x Hx ->. rewrite forallb_forall in Hs. specialize (Hs _ Hx). discriminate Hs. }
  assert (Hd1 : rs <> [c_dot]) by (intros ->; discriminate Hd).
  assert (Hd2 : rs <> [c_dot; c_dot]) by (intros ->; discriminate Hd).
  assert (HR' : forall x t, R = x :: t -> x = c_slash).
  { intros x t ->. destruct HR as [HR|[R' HR]]; [discriminate|]. injection HR as -> _. reflexivity. }
  pose proof dot_ne_slash as Hds.
  destruct (dot_fix_shape ha (rs ++ R)) as [H|[[r H]|[[r H]|[H|H]]]]; [exact H|exfalso..].
  - destruct rs as [|a [|b [|c rs']]]; simpl in H.
    + apply HR' in H. auto.
    + injection H as -> H. apply HR' in H. auto.
    + injection H as -> -> H. auto.
    + injection H as _ _ -> _. apply (Hin c_slash); simpl; auto.
  - destruct rs as [|a [|b rs']]; simpl in H.
    + apply HR' in H. auto.
    + injection H as -> H. auto.
    + injection H as _ -> _. apply (Hin c_slash); simpl; auto.
  - destruct rs as [|a [|b rs']]; simpl in H.
    + apply HR' in H. auto.
    + injection H as -> H. auto.
    + discriminate H.
  - destruct rs as [|a [|b [|c rs']]]; simpl in H.
    + apply HR' in H. auto.
    + injection H as -> H. apply HR' in H. auto.
    + injection H as -> -> H. auto.
    + discriminate H.
Qed.

Definition rest_like (rest : str) : Prop := rest = [] \/ hd_is is_qh rest = true.

Lemma is_qh_not_slash c : is_qh c = true -> N.eqb c c_slash = false.
Proof.
  unfold is_qh. intros H. apply orb_true_iff in H as [H|H]; apply N.eqb_eq in H; subst; reflexivity.
Qed.

(* at the end of the path (end of input, '?' or '#') *)
Lemma pp_rm_finish ha rout rest : rest_like rest -> dot_fix ha rout = None ->
  pp_rm ha rout rest = if two_slash_err ha rout then None else Some (rev rout ++ rest).
Proof.
  intros [->|H] Hd.
  - simpl. rewrite Hd, app_nil_r. reflexivity.
  - destruct rest as [|c rest]; [discriminate|]. simpl in H.
    cbn [pp_rm]. rewrite (is_qh_not_slash _ H), H, Hd. reflexivity.
Qed.

Lemma no_slash_qh_delim seg :
  no_slash seg -> forallb (fun c => negb (is_qh c)) seg = true ->
  forallb (fun c => negb (is_delim c)) seg = true.
Proof.
  unfold no_slash. intros H1 H2. apply forallb_forall. intros x Hx.
  rewrite forallb_forall in H1, H2. specialize (H1 _ Hx). specialize (H2 _ Hx).
  unfold is_delim. apply negb_true_iff in H1, H2. rewrite H1, H2. reflexivity.
Qed.

Lemma no_slash_rev seg : no_slash seg -> forallb (fun c => negb (is_slash c)) (rev seg) = true.
Proof.
  unfold no_slash. intros H. apply forallb_forall. intros x Hx. apply in_rev in Hx.
  rewrite forallb_forall in H. auto.
Qed.

Lemma pp_segs ha : forall segs R rest,
  segs <> [] -> Forall (fun s => no_slash s /\ is_dot_seg s = false) segs ->
  forallb (fun c => negb (is_qh c)) (join_slash segs) = true ->
  dir_like R -> rest_like rest ->
  pp_rm ha R (join_slash segs ++ rest) =
    if two_slash_err ha (rev (join_slash segs) ++ R) then None
    else Some (rev R ++ join_slash segs ++ rest).
Proof.
  induction segs as [|s segs IH]; intros R rest Hne HF Hq HR Hrest; [congruence|].
  inversion HF as [|? ? [Hs Hd] HF']; subst.
  destruct segs as [|s2 tl].
  - cbn [join_slash] in *.
    rewrite pp_rm_push by (apply no_slash_qh_delim; assumption).
    rewrite pp_rm_finish; [|exact Hrest|].
    + rewrite rev_app_distr, rev_involutive, <- app_assoc. reflexivity.
    + apply dot_fix_nondot; [apply no_slash_rev; exact Hs|rewrite is_dot_seg_rev; exact Hd|exact HR].
  - change (join_slash (s :: s2 :: tl)) with (s ++ c_slash :: join_slash (s2 :: tl)) in *.
    rewrite forallb_app in Hq. apply andb_true_iff in Hq as [Hq1 Hq2].
    cbn [forallb] in Hq2. apply andb_true_iff in Hq2 as [_ Hq2].
    rewrite <- app_assoc. rewrite pp_rm_push by (apply no_slash_qh_delim; assumption).
    cbn [app pp_rm]. rewrite N.eqb_refl.
    rewrite dot_fix_nondot; [|apply no_slash_rev; exact Hs|rewrite is_dot_seg_rev; exact Hd|exact HR].
    rewrite IH; [|discriminate|exact HF'|exact Hq2|right; eexists; reflexivity|exact Hrest].
    assert (E1 : rev (s ++ c_slash :: join_slash (s2 :: tl)) ++ R
                 = rev (join_slash (s2 :: tl)) ++ c_slash :: rev s ++ R).
    { rewrite rev_app_distr. cbn [rev]. rewrite <- !app_assoc. reflexivity. }
    assert (E2 : rev (c_slash :: rev s ++ R) = rev R ++ s ++ [c_slash]).
    { cbn [rev]. rewrite rev_app_distr, rev_involutive, <- app_assoc. reflexivity. }
    rewrite E1, E2. rewrite <- !app_assoc. reflexivity.
Qed.

Lemma has_dot_seg_false path : has_dot_seg path = false ->
  Forall (fun s => no_slash s /\ is_dot_seg s = false) (split_on c_slash path).
Proof.
  unfold has_dot_seg. intros H. pose proof (split_no_slash path) as HS.
  rewrite Forall_forall in *. intros s Hs. split; [auto|].
  destruct (is_dot_seg s) eqn:E; [|reflexivity].
  assert (existsb is_dot_seg (split_on c_slash path) = true) by (apply existsb_exists; eauto). congruence.
Qed.

(* a path free of dot segments is copied as it is after the directory [rev R] *)
Lemma pp_path ha path R rest :
  has_dot_seg path = false -> forallb (fun c => negb (is_qh c)) path = true ->
  dir_like R -> rest_like rest ->
  pp_rm ha R (path ++ rest) =
    if two_slash_err ha (rev path ++ R) then None else Some (rev R ++ path ++ rest).
Proof.
  intros Hd Hq HR Hrest. rewrite <- (split_join path) in Hq |- *.
  apply pp_segs; auto using split_nonempty, has_dot_seg_false.
Qed.

(* "../" and "./" in front of the input *)
Lemma pp_rm_updir ha R' inp :
  pp_rm ha (c_slash :: R') (dotdot_slash ++ inp) =
    if two_slash_err ha (rls ha R') then None else pp_rm ha (rls ha R') inp.
Proof.
  unfold dotdot_slash. cbn [app pp_rm].
  change (N.eqb c_dot c_slash) with false. change (is_qh c_dot) with false. cbv iota.
  rewrite N.eqb_refl. unfold dot_fix. cbn [strip_prefix]. rewrite !N.eqb_refl. reflexivity.
Qed.

Lemma pp_rm_updir_nil ha inp : pp_rm ha [] (dotdot_slash ++ inp) = pp_rm ha [] inp.
Proof.
  unfold dotdot_slash. cbn [app pp_rm].
  change (N.eqb c_dot c_slash) with false. change (is_qh c_dot) with false. cbv iota.
  rewrite N.eqb_refl. unfold dot_fix. cbn [strip_prefix]. rewrite !N.eqb_refl.
  change (N.eqb c_slash c_dot) with false. cbv iota.
  change (str_eqb [c_dot; c_dot] [c_dot]) with false. cbv iota.
  change (str_eqb [c_dot; c_dot] [c_dot; c_dot]) with true. cbv iota.
  unfold two_slash_err. rewrite andb_false_r. reflexivity.
Qed.

Lemma pp_rm_curdir ha R inp : dir_like R ->
  pp_rm ha R ([c_dot; c_slash] ++ inp) = if two_slash_err ha R then None else pp_rm ha R inp.
Proof.
  intros [->|[R' ->]]; cbn [app pp_rm];
    change (N.eqb c_dot c_slash) with false; change (is_qh c_dot) with false; cbv iota;
    rewrite N.eqb_refl; unfold dot_fix; cbn [strip_prefix]; rewrite ?N.eqb_refl.
  - change (str_eqb [c_dot] [c_dot]) with true. cbv iota.
    unfold two_slash_err. rewrite andb_false_r. reflexivity.
  - change (N.eqb c_dot c_slash) with false. cbv iota. rewrite ?N.eqb_refl. reflexivity.
Qed.

(* ================= positions of the base ================= *)
Lemma scheme_scan_lt s : forall k, scheme_scan s = Some k -> k < length s.
Proof.
  induction s as [|c s IH]; intros k; simpl; [discriminate|].
  destruct (N.eqb c c_colon); [intros [= <-]; lia|].
  destruct (is_scheme_char c); [|discriminate].
  destruct (scheme_scan s) as [j|]; [|discriminate]. intros [= <-]. specialize (IH j eq_refl). lia.
Qed.

Lemma starts_with_strip p s : starts_with p s = true <-> exists r, strip_prefix p s = Some r.
Proof.
  revert s. induction p as [|x p IH]; intros [|y s]; simpl.
  - split; eauto. - split; eauto.
  - split; [discriminate|intros [r H]; discriminate].
  - destruct (N.eqb x y); simpl; [apply IH|]. split; [discriminate|intros [r H]; discriminate].
Qed.

Lemma starts_with_firstn p k s : starts_with p (firstn k s) = true -> starts_with p s = true.
Proof.
  revert k s. induction p as [|x p IH]; intros k s; [reflexivity|].
  destruct k as [|k]; [discriminate|]. destruct s as [|y s]; [discriminate|]. simpl.
  destruct (N.eqb x y); [apply IH|discriminate].
Qed.

Record pos_ok (b : str) (p : positions) : Prop := {
  po_se_pos : 1 <= scheme_end p;
  po_se_ae : authority_end p = scheme_end p \/ scheme_end p + 2 <= authority_end p;
  po_ae_pe : authority_end p <= path_end p;
  po_pe_qe : path_end p <= query_end p;
  po_qe_len : query_end p <= length b;
  po_path_noqh : forallb (fun c => negb (is_qh c)) (ox_path b p) = true;
  po_after_path : rest_like (skipn (path_end p) b);
  po_auth_root : scheme_end p < authority_end p ->
                 ox_path b p = [] \/ hd_is is_slash (ox_path b p) = true;
  po_noauth : authority_end p = scheme_end p -> starts_with [c_slash; c_slash] (ox_path b p) = false;
  po_after_query : skipn (query_end p) b = [] \/ hd_is (N.eqb c_hash) (skipn (query_end p) b) = true;
  po_qe : query_end p = match skipn (path_end p) b with
                        | c :: rest => if N.eqb c c_qm then path_end p + 1 + find_or_len (N.eqb c_hash) rest
                                       else path_end p
                        | [] => path_end p end
}.

Lemma skipn_add {A} (l : list A) a k : skipn (a + k) l = skipn k (skipn a l).
Proof. revert l. induction a as [|a IH]; intros l; [reflexivity|]. destruct l; [destruct k; reflexivity|]. apply IH. Qed.

Lemma positions_ok b p : positions_of b = Some p -> pos_ok b p.
Proof.
  unfold positions_of. destruct (scheme_len b) as [k|] eqn:Ek; [|discriminate].
  assert (Hk : k < length b).
  { unfold scheme_len in Ek. destruct (hd_is is_alpha b); [|discriminate]. apply scheme_scan_lt. exact Ek. }
  set (se := S k).
  set (ae := match strip_prefix [c_slash; c_slash] (skipn se b) with
             | Some rest => se + 2 + find_or_len is_delim rest | None => se end).
  set (pe := ae + find_or_len is_qh (skipn ae b)).
  set (qe := match skipn pe b with
             | c :: rest => if N.eqb c c_qm then pe + 1 + find_or_len (N.eqb c_hash) rest else pe
             | [] => pe end).
  intros [= <-].
  assert (Hae : (ae = se /\ strip_prefix [c_slash; c_slash] (skipn se b) = None) \/
                (exists rest, skipn se b = c_slash :: c_slash :: rest /\ ae = se + 2 + find_or_len is_delim rest)).
  { subst ae. destruct (strip_prefix [c_slash; c_slash] (skipn se b)) as [rest|] eqn:E.
    - right. exists rest. apply strip_prefix_some in E. auto.
    - left. auto. }
  assert (Hae_len : ae <= length b).
  { destruct Hae as [[-> _]|[rest [E ->]]]; [subst se; lia|].
    pose proof (find_or_len_le is_delim rest). assert (L : length (skipn se b) = length b - se) by apply skipn_length.
    rewrite E in L. simpl in L. lia. }
  assert (Hpe_len : pe <= length b).
  { subst pe. pose proof (find_or_len_le is_qh (skipn ae b)). rewrite skipn_length in H. lia. }
  assert (Hpath : ox_path b (mkpos se ae pe qe) = firstn (find_or_len is_qh (skipn ae b)) (skipn ae b)).
  { unfold ox_path, slice. simpl. f_equal. subst pe. lia. }
  assert (Hrest : skipn pe b = skipn (find_or_len is_qh (skipn ae b)) (skipn ae b)).
  { subst pe. apply skipn_add. }
  constructor; cbn [scheme_end authority_end path_end query_end].
  - subst se. lia.
  - destruct Hae as [[-> _]|[rest [E ->]]]; [left; reflexivity|right; lia].
  - subst pe. lia.
  - subst qe. destruct (skipn pe b) as [|c rest]; [lia|]. destruct (N.eqb c c_qm); lia.
  - subst qe. destruct (skipn pe b) as [|c rest] eqn:E; [lia|].
    destruct (N.eqb c c_qm); [|lia].
    pose proof (find_or_len_le (N.eqb c_hash) rest). assert (L : length (skipn pe b) = length b - pe) by apply skipn_length.
    rewrite E in L. simpl in L. lia.
  - rewrite Hpath. apply find_or_len_prefix.
  - rewrite Hrest. apply find_or_len_rest.
  - intros Hlt. rewrite Hpath.
    destruct Hae as [[-> _]|[rest [E Eae]]]; [lia|].
    assert (X : skipn ae b = skipn (find_or_len is_delim rest) rest).
    { rewrite Eae. replace (se + 2 + find_or_len is_delim rest) with (se + (2 + find_or_len is_delim rest)) by lia.
      rewrite skipn_add, E. reflexivity. }
    rewrite X. destruct (find_or_len_rest is_delim rest) as [H|H].
    + rewrite H. left. reflexivity.
    + destruct (skipn (find_or_len is_delim rest) rest) as [|c t]; [discriminate|]. simpl in H.
      rewrite find_or_len_cons. unfold is_delim in H. destruct (is_qh c) eqn:Eq.
      * left. reflexivity.
      * right. rewrite orb_false_r in H. simpl. exact H.
  - intros Heq. rewrite Hpath.
    destruct Hae as [[Eae En]|[rest [E Eae]]]; [|lia].
    destruct (starts_with [c_slash; c_slash] (firstn (find_or_len is_qh (skipn ae b)) (skipn ae b))) eqn:S; [|reflexivity].
    apply starts_with_firstn in S. apply starts_with_strip in S as [r S]. rewrite Eae in S. congruence.
  - subst qe. pose proof (find_or_len_rest is_qh (skipn ae b)) as HR. rewrite <- Hrest in HR.
    destruct (skipn pe b) as [|c rest] eqn:E; [left; exact E|].
    destruct (N.eqb_spec c c_qm) as [->|Hn].
    + replace (pe + 1 + find_or_len (N.eqb c_hash) rest) with (pe + (1 + find_or_len (N.eqb c_hash) rest)) by lia.
      rewrite skipn_add, E. cbn [Nat.add skipn]. apply find_or_len_rest.
    + rewrite E. right. destruct HR as [HR|HR]; [discriminate|]. cbn [hd_is] in *.
      unfold is_qh in HR. apply orb_true_iff in HR as [HR|HR]; apply N.eqb_eq in HR; subst; [congruence|reflexivity].
  - reflexivity.
Qed.

(* ================= the fields computed by Relativizer::new ================= *)
Section NewFields.
Variables (b : str) (p : positions).
Hypothesis Hok : pos_ok b p.

Lemma new_path_begin :
  length (ox_scheme b p) + 1 + match ox_authority b p with Some a => length a + 2 | None => 0 end
  = authority_end p.
Proof.
  destruct Hok. unfold ox_scheme, ox_authority, slice.
  rewrite firstn_length, Nat.min_l by lia.
  destruct (Nat.ltb_spec (authority_end p) (scheme_end p + 2)).
  - lia.
  - rewrite firstn_length, skipn_length, Nat.min_l by lia. lia.
Qed.

Lemma new_has_authority :
  match ox_authority b p with Some _ => true | None => false end = (scheme_end p <? authority_end p).
Proof.
  destruct Hok. unfold ox_authority.
  destruct (Nat.ltb_spec (authority_end p) (scheme_end p + 2)); symmetry.
  - apply Nat.ltb_ge. lia.
  - apply Nat.ltb_lt. lia.
Qed.

Lemma new_path_end0 : authority_end p + length (ox_path b p) = path_end p.
Proof.
  destruct Hok. unfold ox_path, slice. rewrite firstn_length, skipn_length, Nat.min_l by lia. lia.
Qed.

Lemma new_query_end :
  match find_if (N.eqb c_hash) (skipn (path_end p) b) with Some i => i + path_end p | None => length b end
  = query_end p.
Proof.
  destruct Hok as [? ? ? ? ? ? po_after_path0 ? ? ? po_qe0]. rewrite po_qe0.
  assert (L : length (skipn (path_end p) b) = length b - path_end p) by apply skipn_length.
  destruct (skipn (path_end p) b) as [|c rest] eqn:E.
  - simpl in *. lia.
  - cbn [find_if]. destruct (N.eqb_spec c c_qm) as [->|Hn].
    + change (N.eqb c_hash c_qm) with false. cbv iota. unfold find_or_len.
      destruct (find_if (N.eqb c_hash) rest); simpl in *; lia.
    + destruct po_after_path0 as [H|H]; [discriminate|]. simpl in H. unfold is_qh in H.
      apply orb_true_iff in H as [H|H]; apply N.eqb_eq in H; subst; [congruence|].
      rewrite N.eqb_refl. reflexivity.
Qed.

Lemma new_path_end :
  match find_if (N.eqb c_qm) (slice (path_end p) (query_end p) b) with
  | Some i => i + path_end p | None => query_end p end = path_end p.
Proof.
  destruct Hok. unfold slice. rewrite po_qe0.
  destruct (skipn (path_end p) b) as [|c rest] eqn:E.
  - rewrite Nat.sub_diag. reflexivity.
  - destruct (N.eqb_spec c c_qm) as [->|Hn].
    + replace (path_end p + 1 + find_or_len (N.eqb c_hash) rest - path_end p)
        with (S (find_or_len (N.eqb c_hash) rest)) by lia.
      cbn [firstn find_if]. rewrite N.eqb_refl. reflexivity.
    + rewrite Nat.sub_diag. reflexivity.
Qed.
End NewFields.

Lemma new_inv b n z : new b n = Some z ->
  exists p, positions_of b = Some p /\ pos_ok b p /\ z_base z = b /\ z_query_end z = query_end p
    /\ z_path_end z = path_end p /\ z_path_begin z = authority_end p
    /\ z_has_authority z = (scheme_end p <? authority_end p)
    /\ (z_slashes z, z_pseudoroot z) =
       (let sl := slashes_loop (S n) b (authority_end p) (path_end p) in
        if n <? length sl then (removelast sl, last sl 0 + 1)
        else if hd_is is_slash (skipn (authority_end p) b) then (sl, authority_end p + 1)
        else (sl, authority_end p)).
Proof.
  unfold new. destruct (positions_of b) as [p|] eqn:E; [|discriminate].
  pose proof (positions_ok _ _ E) as Hok.
  rewrite (new_has_authority b p Hok).
  rewrite (new_path_begin b p Hok), (new_path_end0 b p Hok), (new_query_end b p Hok), (new_path_end b p Hok).
  cbv zeta.
  destruct (if n <? length (slashes_loop (S n) b (authority_end p) (path_end p))
            then (removelast (slashes_loop (S n) b (authority_end p) (path_end p)),
                  last (slashes_loop (S n) b (authority_end p) (path_end p)) 0 + 1)
            else if hd_is is_slash (skipn (authority_end p) b)
                 then (slashes_loop (S n) b (authority_end p) (path_end p), authority_end p + 1)
                 else (slashes_loop (S n) b (authority_end p) (path_end p), authority_end p)) as [sl' pr] eqn:F.
  intros [= <-]. exists p. cbn [z_base z_query_end z_path_end z_path_begin z_has_authority z_slashes z_pseudoroot].
  split; [reflexivity|]. split; [exact Hok|]. repeat (split; [reflexivity|]). symmetry. exact F.
Qed.

(* ================= the slashes recorded by new vs. remove_last_segment ================= *)
Fixpoint rel_loop (fuel : nat) (P : str) (k : nat) : list nat :=
  match fuel with
  | O => []
  | S f => match rfind c_slash (firstn k P) with
           | Some (S i) => S i :: rel_loop f P (S i)
           | _ => []
           end
  end.

Lemma slashes_rel b pb pe : pb <= pe -> pe <= length b -> forall fuel pos, pb <= pos <= pe ->
  slashes_loop fuel b pb pos = map (fun x => x + pb) (rel_loop fuel (slice pb pe b) (pos - pb)).
Proof.
  intros H1 H2. induction fuel as [|f IH]; intros pos Hpos; [reflexivity|].
  cbn [slashes_loop rel_loop].
  assert (E : slice pb pos b = firstn (pos - pb) (slice pb pe b)).
  { unfold slice. rewrite firstn_firstn_le by lia. reflexivity. }
  rewrite E. destruct (rfind c_slash (firstn (pos - pb) (slice pb pe b))) as [[|i]|] eqn:F; try reflexivity.
  apply rfind_some in F as [F _]. rewrite firstn_length in F.
  cbn [map]. f_equal. rewrite IH by lia. f_equal. f_equal. lia.
Qed.

Section Chain.
Variables (ha : bool) (P : str).
Hypothesis Hha : ha = true -> hd_is is_slash P = true.
Hypothesis Hns : ha = false -> starts_with [c_slash; c_slash] P = false.

Definition dirR (k : nat) : str := rls ha (rev (firstn k P)).

Lemma two_slash_prefix k : two_slash_err ha (rev (firstn k P)) = false.
Proof.
  unfold two_slash_err. destruct ha; [reflexivity|]. rewrite rev_involutive. cbn [negb andb].
  destruct (starts_with [c_slash; c_slash] (firstn k P)) eqn:E; [|reflexivity].
  apply starts_with_firstn in E. rewrite Hns in E; [discriminate|reflexivity].
Qed.

Lemma chain_step k i : rfind c_slash (firstn k P) = Some i ->
  dirR k = rev (firstn (S i) P) /\ dirR k = c_slash :: rev (firstn i P) /\ S i <= k /\ S i <= length P.
Proof.
  intros H. pose proof (rfind_some _ _ H) as [L _]. rewrite firstn_length in L.
  destruct (rls_some ha _ _ H) as [E1 E2]. unfold dirR.
  rewrite firstn_firstn_le in E1, E2 by lia. rewrite firstn_firstn_le in E2 by lia.
  split; [congruence|]. split; [exact E1|]. lia.
Qed.

Lemma dirR_noerr k : two_slash_err ha (dirR k) = false.
Proof.
  destruct (rfind c_slash (firstn k P)) as [i|] eqn:E.
  - destruct (chain_step _ _ E) as [-> _]. apply two_slash_prefix.
  - unfold dirR. rewrite rls_none by exact E. unfold two_slash_err. destruct ha; reflexivity.
Qed.

Lemma chain : forall fuel k l nb inp, rel_loop fuel P k = l -> nb < length l ->
  pp_rm ha (dirR k) (repeat_str dotdot_slash nb ++ inp)
    = pp_rm ha (rev (firstn (S (nth nb l 0)) P)) inp
  /\ dir_like (rev (firstn (S (nth nb l 0)) P)) /\ S (nth nb l 0) <= length P.
Proof.
  induction fuel as [|f IH]; intros k l nb inp Hl Hnb; cbn [rel_loop] in Hl.
  - subst l. simpl in Hnb. lia.
  - destruct (rfind c_slash (firstn k P)) as [[|i]|] eqn:F; try (subst l; simpl in Hnb; lia).
    destruct (chain_step _ _ F) as (E1 & E2 & Hk & HP). subst l.
    destruct nb as [|nb].
    + cbn [repeat_str nth app]. rewrite E1. split; [reflexivity|]. split; [|exact HP].
      rewrite <- E1, E2. right. eexists. reflexivity.
    + cbn [repeat_str nth]. rewrite <- app_assoc, E2, pp_rm_updir.
      change (rls ha (rev (firstn (S i) P))) with (dirR (S i)). rewrite dirR_noerr.
      simpl in Hnb. apply IH; [reflexivity|lia].
Qed.

Definition root_len : nat := if hd_is is_slash P then 1 else 0.

Lemma chain_end : forall fuel k l inp, k <= length P -> (k = 0 -> P = []) ->
  rel_loop fuel P k = l -> length l < fuel ->
  pp_rm ha (dirR k) (repeat_str dotdot_slash (length l) ++ inp) = pp_rm ha (rev (firstn root_len P)) inp.
Proof.
  induction fuel as [|f IH]; intros k l inp Hk Hk0 Hl Hlen; [lia|]. cbn [rel_loop] in Hl.
  destruct (rfind c_slash (firstn k P)) as [[|i]|] eqn:F.
  - subst l. cbn [length repeat_str app].
    destruct (chain_step _ _ F) as (E1 & _). rewrite E1. unfold root_len.
    destruct (rfind_decomp _ _ F) as (a & t & E & La & _). destruct a; [|discriminate].
    destruct P as [|x P']; [destruct k; discriminate|]. destruct k; [discriminate|].
    simpl in E. injection E as -> _. reflexivity.
  - destruct (chain_step _ _ F) as (E1 & E2 & Hk' & HP). subst l.
    cbn [length repeat_str]. rewrite <- app_assoc, E2, pp_rm_updir.
    change (rls ha (rev (firstn (S i) P))) with (dirR (S i)). rewrite dirR_noerr.
    apply IH; [lia|discriminate|reflexivity|simpl in Hlen; lia].
  - subst l. cbn [length repeat_str app]. unfold dirR. rewrite rls_none by exact F.
    apply rfind_none in F. unfold root_len.
    assert (Hr : hd_is is_slash P = false).
    { destruct P as [|x P']; [reflexivity|]. destruct k; [specialize (Hk0 eq_refl); discriminate|].
      unfold no_slash in F. simpl in F. apply andb_true_iff in F as [F _]. apply negb_true_iff in F. exact F. }
    rewrite Hr. destruct ha; [rewrite Hha in Hr by reflexivity; discriminate|]. reflexivity.
Qed.

Lemma root_dir_like : dir_like (rev (firstn root_len P)).
Proof.
  unfold root_len. destruct P as [|x P']; [left; reflexivity|]. simpl.
  destruct (is_slash x) eqn:E; [|left; reflexivity]. right. exists []. simpl.
  unfold is_slash in E. apply N.eqb_eq in E. subst. reflexivity.
Qed.
End Chain.

(* ================= the cut chosen by relativize ================= *)
Lemma find_cut_spec l pr : forall sl nb0 nb cut, find_cut l sl nb0 pr = (nb, cut) ->
  (exists j, j < length sl /\ nb = nb0 + j /\ cut = nth j sl 0 + 1 /\ nth j sl 0 < l)
  \/ (nb = nb0 + length sl /\ cut = pr).
Proof.
  induction sl as [|s sl IH]; intros nb0 nb cut; cbn [find_cut].
  - intros [= <- <-]. right. simpl. split; [lia|reflexivity].
  - destruct (Nat.ltb_spec s l).
    + intros [= <- <-]. left. exists 0. simpl. repeat split; lia.
    + intros H'. apply IH in H' as [(j & Hj & -> & -> & Hl)|[-> ->]].
      * left. exists (S j). simpl. repeat split; lia.
      * right. simpl. split; [lia|reflexivity].
Qed.

Lemma rel_loop_length P : forall fuel k, length (rel_loop fuel P k) <= fuel.
Proof.
  induction fuel as [|f IH]; intros k; cbn [rel_loop]; [simpl; lia|].
  destruct (rfind c_slash (firstn k P)) as [[|i]|]; simpl; try lia. specialize (IH (S i)). lia.
Qed.

Lemma nth_removelast {A} (l : list A) d : forall j, j < length (removelast l) -> nth j (removelast l) d = nth j l d.
Proof.
  induction l as [|x l IH]; intros j Hj; [simpl in Hj; lia|].
  destruct l as [|y l]; [simpl in Hj; lia|].
  change (removelast (x :: y :: l)) with (x :: removelast (y :: l)) in *.
  destruct j; [reflexivity|]. cbn [nth]. apply IH. simpl in Hj. simpl. lia.
Qed.

Lemma length_removelast {A} (l : list A) : length (removelast l) = length l - 1.
Proof.
  induction l as [|x l IH]; [reflexivity|]. destruct l as [|y l]; [reflexivity|].
  change (removelast (x :: y :: l)) with (x :: removelast (y :: l)).
  cbn [length] in *. lia.
Qed.

Lemma last_nth {A} (l : list A) d : last l d = nth (length l - 1) l d.
Proof.
  induction l as [|x l IH]; [reflexivity|]. destruct l as [|y l]; [reflexivity|].
  change (last (x :: y :: l) d) with (last (y :: l) d). rewrite IH. cbn [length].
  replace (S (S (length l)) - 1) with (S (S (length l) - 1)) by lia. reflexivity.
Qed.

Lemma nth_map_add L pb : forall j, j < length L -> nth j (map (fun x => x + pb) L) 0 = nth j L 0 + pb.
Proof.
  induction L as [|x L IH]; intros j Hj; [simpl in Hj; lia|].
  destruct j; [reflexivity|]. cbn [map nth]. apply IH. simpl in Hj. lia.
Qed.

Lemma path_root b p : pos_ok b p -> hd_is is_slash (skipn (authority_end p) b) = hd_is is_slash (ox_path b p).
Proof.
  intros Hok. destruct Hok. unfold ox_path, slice in *.
  destruct (Nat.eq_dec (path_end p) (authority_end p)) as [E|E].
  - rewrite E, Nat.sub_diag. rewrite E in po_after_path0. simpl.
    destruct po_after_path0 as [->|H]; [reflexivity|].
    destruct (skipn (authority_end p) b) as [|c t]; [reflexivity|]. simpl in *.
    unfold is_slash. apply is_qh_not_slash. exact H.
  - destruct (skipn (authority_end p) b) as [|c t]; [destruct (path_end p - authority_end p); reflexivity|].
    destruct (path_end p - authority_end p) eqn:F; [lia|]. reflexivity.
Qed.

Lemma new_cut b n z p l nb cut :
  new b n = Some z -> positions_of b = Some p ->
  let ha := scheme_end p <? authority_end p in
  let P := ox_path b p in
  (ha = true -> P <> []) ->
  z_pseudoroot z <= l ->
  find_cut l (z_slashes z) 0 (z_pseudoroot z) = (nb, cut) ->
  nb <= n /\ cut <= l /\ authority_end p <= cut <= path_end p
  /\ dir_like (rev (firstn (cut - authority_end p) P))
  /\ forall inp, pp_rm ha (rls ha (rev P)) (repeat_str dotdot_slash nb ++ inp)
                 = pp_rm ha (rev (firstn (cut - authority_end p) P)) inp.
Proof.
  intros Hnew Hpos ha P HneP Hpr Hfc.
  destruct (new_inv _ _ _ Hnew) as (p' & Hpos' & Hok & _ & _ & _ & _ & _ & Hsl).
  rewrite Hpos in Hpos'. injection Hpos' as <-.
  pose proof (new_path_end0 b p Hok) as Hlen. fold P in Hlen.
  assert (Hha : ha = true -> hd_is is_slash P = true).
  { intros Ht. destruct (po_auth_root _ _ Hok) as [E|E]; [apply Nat.ltb_lt; exact Ht|elim (HneP Ht); exact E|exact E]. }
  assert (Hns : ha = false -> starts_with [c_slash; c_slash] P = false).
  { intros Hf. apply (po_noauth _ _ Hok). apply Nat.ltb_ge in Hf.
    destruct (po_se_ae _ _ Hok); lia. }
  pose proof (po_ae_pe _ _ Hok) as Hle. pose proof (po_pe_qe _ _ Hok). pose proof (po_qe_len _ _ Hok).
  cbv zeta in Hsl. rewrite (slashes_rel b (authority_end p) (path_end p)) in Hsl by lia.
  change (slice (authority_end p) (path_end p) b) with P in Hsl.
  replace (path_end p - authority_end p) with (length P) in Hsl by lia.
  set (L := rel_loop (S n) P (length P)) in *.
  pose proof (rel_loop_length P (S n) (length P)) as HLlen. fold L in HLlen.
  assert (Hdir : dirR ha P (length P) = rls ha (rev P)) by (unfold dirR; rewrite firstn_all; reflexivity).
  rewrite map_length in Hsl. rewrite (path_root _ _ Hok) in Hsl. fold P in Hsl.
  (* the two ways of obtaining (nb, cut) *)
  assert (Hmain : (nb < length L /\ cut = nth nb L 0 + authority_end p + 1 /\ cut <= l /\ nb <= n)
                  \/ (nb = length L /\ length L <= n /\ cut = authority_end p + root_len P /\ cut <= l)).
  { destruct (Nat.ltb_spec n (length L)) as [Hn|Hn].
    - injection Hsl as Hs Hp. rewrite Hs, Hp in Hfc. rewrite Hp in Hpr.
      apply find_cut_spec in Hfc as [(j & Hj & -> & -> & Hl)|[-> ->]].
      + rewrite length_removelast, map_length in Hj.
        rewrite nth_removelast in * by (rewrite length_removelast, map_length; lia).
        rewrite nth_map_add in * by lia. left. simpl. repeat split; lia.
      + rewrite length_removelast, map_length. rewrite last_nth, map_length in *.
        rewrite nth_map_add in * by lia. left. simpl. repeat split; lia.
    - destruct (hd_is is_slash P) eqn:Hr; injection Hsl as Hs Hp; rewrite Hs, Hp in Hfc; rewrite Hp in Hpr;
        apply find_cut_spec in Hfc as [(j & Hj & -> & -> & Hl)|[-> ->]]; rewrite map_length in *;
        try (rewrite nth_map_add in * by lia; left; simpl; repeat split; lia);
        right; unfold root_len; rewrite Hr; simpl; repeat split; lia. }
  destruct Hmain as [(Hnb & -> & Hl & Hn)|(-> & Hn & -> & Hl)].
  - destruct (chain ha P Hha Hns (S n) (length P) L nb [] eq_refl Hnb) as (_ & Hd & HP).
    replace (nth nb L 0 + authority_end p + 1 - authority_end p) with (S (nth nb L 0)) by lia.
    split; [exact Hn|]. split; [exact Hl|]. split; [lia|]. split; [exact Hd|].
    intros inp. rewrite <- Hdir.
    destruct (chain ha P Hha Hns (S n) (length P) L nb inp eq_refl Hnb) as (E & _ & _). exact E.
  - replace (authority_end p + root_len P - authority_end p) with (root_len P) by lia.
    assert (Hrl : root_len P <= length P).
    { unfold root_len. destruct P; simpl; [lia|]. destruct (is_slash n0); lia. }
    split; [exact Hn|]. split; [exact Hl|]. split; [lia|]. split; [apply (root_dir_like ha P Hha Hns)|].
    intros inp. rewrite <- Hdir. apply (chain_end ha P Hha Hns (S n)); try lia.
    + apply length_zero_iff_nil.
    + reflexivity.
Qed.

(* ================= number of leading "../" ================= *)
Lemma parents_fuel : forall f1 f2 r, length r <= f1 -> length r <= f2 ->
  parents_of_fuel f1 r = parents_of_fuel f2 r.
Proof.
  induction f1 as [|f1 IH]; intros f2 r H1 H2.
  - destruct r; [|simpl in H1; lia]. destruct f2; reflexivity.
  - destruct f2 as [|f2].
    + destruct r; [reflexivity|simpl in H2; lia].
    + cbn [parents_of_fuel]. destruct (strip_prefix dotdot_slash r) as [r'|] eqn:E; [|reflexivity].
      apply strip_prefix_some in E. subst r. unfold dotdot_slash in *. simpl in H1, H2.
      f_equal. apply IH; lia.
Qed.

Lemma parents_dotdot x : parents_of (dotdot_slash ++ x) = S (parents_of x).
Proof.
  unfold parents_of. change (length (dotdot_slash ++ x)) with (S (S (S (length x)))).
  change (parents_of_fuel (S (S (S (length x)))) (dotdot_slash ++ x))
    with (match strip_prefix dotdot_slash (dotdot_slash ++ x) with
          | Some r' => S (parents_of_fuel (S (S (length x))) r') | None => 0 end).
  rewrite strip_prefix_app. f_equal. apply parents_fuel; lia.
Qed.

Lemma parents_repeat nb x : parents_of (repeat_str dotdot_slash nb ++ x) = nb + parents_of x.
Proof.
  induction nb as [|nb IH]; [reflexivity|]. cbn [repeat_str]. rewrite <- app_assoc, parents_dotdot, IH. reflexivity.
Qed.

Lemma parents_zero r : strip_prefix dotdot_slash r = None -> parents_of r = 0.
Proof. unfold parents_of. intros H. destruct (length r); [reflexivity|]. cbn [parents_of_fuel]. rewrite H. reflexivity. Qed.

Lemma has_dot_seg_dotdot t : has_dot_seg (c_dot :: c_dot :: c_slash :: t) = true.
Proof.
  unfold has_dot_seg. cbn [split_on].
  change (N.eqb c_dot c_slash) with false. cbv iota. rewrite N.eqb_refl.
  destruct (split_on c_slash t); reflexivity.
Qed.

Lemma suffix_no_dotdot path rest : has_dot_seg path = false -> rest_like rest ->
  strip_prefix dotdot_slash (path ++ rest) = None.
Proof.
  intros Hd Hr. destruct (strip_prefix dotdot_slash (path ++ rest)) as [t|] eqn:E; [exfalso|reflexivity].
  apply strip_prefix_some in E. unfold dotdot_slash in E.
  assert (Hr' : forall x u, rest = x :: u -> is_qh x = true).
  { intros x u ->. destruct Hr as [Hr|Hr]; [discriminate|exact Hr]. }
  destruct path as [|a [|b [|c path']]]; simpl in E.
  - apply Hr' in E. discriminate.
  - injection E as -> E. apply Hr' in E. discriminate.
  - injection E as -> -> E. discriminate Hd.
  - injection E as -> -> -> _. rewrite has_dot_seg_dotdot in Hd. discriminate.
Qed.

(* ================= which references carry a scheme ================= *)
Lemma first_seg_cons c X : N.eqb c c_slash = false -> first_seg (c :: X) = c :: first_seg X.
Proof.
  intros H. unfold first_seg. cbn [split_on]. rewrite H.
  pose proof (split_nonempty X). destruct (split_on c_slash X); [congruence|reflexivity].
Qed.

Lemma scheme_char_not_delim c : is_scheme_char c = true -> is_delim c = false.
Proof.
  intros H. unfold is_delim, is_slash, is_qh.
  destruct (N.eqb_spec c c_slash) as [->|]; [discriminate H|].
  destruct (N.eqb_spec c c_qm) as [->|]; [discriminate H|].
  destruct (N.eqb_spec c c_hash) as [->|]; [discriminate H|]. reflexivity.
Qed.

Lemma scheme_scan_colon : forall s k, scheme_scan s = Some k ->
  has_colon (first_seg (firstn (find_or_len is_qh s) s)) = true.
Proof.
  induction s as [|c s IH]; intros k; cbn [scheme_scan]; [discriminate|].
  destruct (N.eqb_spec c c_colon) as [->|Hn].
  - intros _. rewrite find_or_len_cons. change (is_qh c_colon) with false. cbv iota. cbn [firstn].
    rewrite first_seg_cons by reflexivity. reflexivity.
  - destruct (is_scheme_char c) eqn:Hc; [|discriminate].
    destruct (scheme_scan s) as [j|] eqn:E; [|discriminate]. intros _.
    apply scheme_char_not_delim in Hc. apply is_delim_false in Hc as [H1 H2].
    rewrite find_or_len_cons, H2. cbn [firstn]. rewrite first_seg_cons by exact H1.
    unfold has_colon in *. cbn [existsb]. rewrite (IH j eq_refl). apply orb_true_r.
Qed.

Lemma scheme_len_colon s k : scheme_len s = Some k ->
  has_colon (first_seg (firstn (find_or_len is_qh s) s)) = true.
Proof. unfold scheme_len. destruct (hd_is is_alpha s); [apply scheme_scan_colon|discriminate]. Qed.

(* ================= resolution of the three kinds of references ================= *)
Lemma resolve_frag b p f : positions_of b = Some p -> (f = [] \/ hd_is (N.eqb c_hash) f = true) ->
  resolve b f = Some (firstn (query_end p) b ++ f).
Proof.
  intros Hp Hf. unfold resolve. rewrite Hp. destruct Hf as [->|Hf].
  - simpl. rewrite app_nil_r. reflexivity.
  - destruct f as [|c t]; [discriminate|]. cbn [hd_is] in Hf. apply N.eqb_eq in Hf. subst c. reflexivity.
Qed.

Lemma resolve_query b p r : positions_of b = Some p -> hd_is (N.eqb c_qm) r = true ->
  resolve b r = Some (firstn (path_end p) b ++ r).
Proof.
  intros Hp Hr. unfold resolve. rewrite Hp.
  destruct r as [|c t]; [discriminate|]. cbn [hd_is] in Hr. apply N.eqb_eq in Hr. subst c. reflexivity.
Qed.

Lemma resolve_rel b p c r' : positions_of b = Some p ->
  N.eqb c c_colon = false -> is_delim c = false -> scheme_len (c :: r') = None ->
  resolve b (c :: r') =
    option_map (app (firstn (authority_end p) b))
      (pp_rm (scheme_end p <? authority_end p)
         (rls (scheme_end p <? authority_end p) (rev (ox_path b p))) (c :: r')).
Proof.
  intros Hp H1 H2 H3. unfold resolve. rewrite Hp, H3.
  apply is_delim_false in H2 as [E1 E2]. unfold is_qh in E2. apply orb_false_iff in E2 as [E2 E3].
  cbn [hd_is]. rewrite N.eqb_sym, H1, E1, E2, E3. reflexivity.
Qed.

Lemma resolve_abs_path b p r' : positions_of b = Some p -> hd_is is_slash r' = false ->
  resolve b (c_slash :: r') =
    option_map (app (firstn (authority_end p) b)) (pp_rm (scheme_end p <? authority_end p) [c_slash] r').
Proof. intros Hp H. unfold resolve. rewrite Hp. cbn [hd_is]. simpl scheme_len. cbv iota. rewrite N.eqb_refl, H. reflexivity. Qed.

Lemma firstn_add {A} (l : list A) a k : firstn (a + k) l = firstn a l ++ firstn k (skipn a l).
Proof.
  revert l. induction a as [|a IH]; intros l; [reflexivity|].
  destruct l as [|x l]; [destruct k; reflexivity|]. simpl. f_equal. apply IH.
Qed.

Lemma two_slash_app ha P k path :
  (ha = false -> starts_with [c_slash; c_slash] P = false) -> hd_is is_slash path = false ->
  two_slash_err ha (rev path ++ rev (firstn k P)) = false.
Proof.
  intros Hns Hp. unfold two_slash_err. destruct ha; [reflexivity|]. cbn [negb andb].
  rewrite rev_app_distr, !rev_involutive.
  assert (Hh : forall y t, path = y :: t -> N.eqb c_slash y = false).
  { intros y t ->. simpl in Hp. unfold is_slash in Hp. rewrite N.eqb_sym. exact Hp. }
  destruct (firstn k P) as [|d1 [|d2 D]] eqn:E.
  - destruct path as [|y t]; [reflexivity|]. cbn [app starts_with]. rewrite (Hh y t eq_refl). reflexivity.
  - cbn [app starts_with]. destruct path as [|y t]; [apply andb_false_r|].
    rewrite (Hh y t eq_refl). apply andb_false_r.
  - specialize (Hns eq_refl).
    destruct (starts_with [c_slash; c_slash] ((d1 :: d2 :: D) ++ path)) eqn:F; [|reflexivity].
    assert (G : starts_with [c_slash; c_slash] (firstn k P) = true) by (rewrite E; exact F).
    apply starts_with_firstn in G. congruence.
Qed.

Lemma suffix_parts suffix :
  let kq := find_or_len is_qh suffix in
  suffix = firstn kq suffix ++ skipn kq suffix
  /\ forallb (fun c => negb (is_qh c)) (firstn kq suffix) = true /\ rest_like (skipn kq suffix).
Proof.
  cbv zeta. split; [symmetry; apply firstn_skipn|]. split; [apply find_or_len_prefix|apply find_or_len_rest].
Qed.

Lemma find_cut_le l pr : forall sl nb0 nb cut, pr <= l -> find_cut l sl nb0 pr = (nb, cut) -> cut <= l.
Proof.
  intros sl nb0 nb cut Hpr H. apply find_cut_spec in H as [(j & _ & _ & -> & Hl)|[_ ->]]; lia.
Qed.

(* ================= (1) relativize is a right inverse of resolve ================= *)
Theorem relativize_sound b n i r :
  relativize b n i = Ret (Some r) -> resolve b r = Some i /\ parents_of r <= n.
Proof.
  unfold relativize. destruct (new b n) as [z|] eqn:Hnew; [|discriminate].
  destruct (new_inv _ _ _ Hnew) as (p & Hpos & Hok & Hb & Hqe & Hpe & Hpb & Hha & _).
  unfold relativize_z. rewrite Hb, Hqe, Hpe, Hpb, Hha.
  set (l := lcp b i). set (ha := scheme_end p <? authority_end p).
  destruct (if query_end p <=? l then rest_is (N.eqb c_hash) i (query_end p) else Some false)
    as [[|]|] eqn:EA; [| |discriminate].
  { (* the IRI is the base up to the fragment *)
    destruct (Nat.leb_spec (query_end p) l) as [HA|HA]; [|discriminate].
    unfold emit_from. destruct (slice_from i (query_end p)) as [f|] eqn:ES; [|discriminate].
    intros [= <-]. cbn [app].
    assert (Hf : f = [] \/ hd_is (N.eqb c_hash) f = true).
    { unfold rest_is in EA. destruct (Nat.eqb_spec (length i) (query_end p)) as [E|E].
      - left. apply slice_from_some in ES as [-> _]. rewrite <- E. apply skipn_all.
      - rewrite ES in EA. cbn [option_map] in EA. injection EA as EA. right; exact EA. }
    split.
    - rewrite (resolve_frag b p f Hpos Hf). f_equal. symmetry. apply cut_split; assumption.
    - rewrite parents_zero; [lia|]. destruct Hf as [->|Hf]; [reflexivity|].
      destruct f as [|c t]; [discriminate|]. cbn [hd_is] in Hf. apply N.eqb_eq in Hf. subst c. reflexivity. }
  destruct (if path_end p <=? l then option_map (hd_is (N.eqb c_qm)) (slice_from i (path_end p)) else Some false)
    as [[|]|] eqn:EB; [| |discriminate].
  { (* same path, the IRI has a query *)
    destruct (Nat.leb_spec (path_end p) l) as [HB|HB]; [|discriminate].
    unfold emit_from. destruct (slice_from i (path_end p)) as [f|] eqn:ES; [|discriminate].
    intros [= <-]. cbn [app]. cbn [option_map] in EB. injection EB as EB.
    split.
    - rewrite (resolve_query b p f Hpos EB). f_equal. symmetry. apply cut_split; assumption.
    - rewrite parents_zero; [lia|].
      destruct f as [|c t]; [discriminate|]. cbn [hd_is] in EB. apply N.eqb_eq in EB. subst c. reflexivity. }
  (* the path branch *)
  destruct (Nat.leb_spec (z_pseudoroot z) l) as [HC|HC]; [|discriminate].
  destruct (find_cut l (z_slashes z) 0 (z_pseudoroot z)) as [nb cut] eqn:Hfc.
  destruct (slice_from i cut) as [suffix|] eqn:ES; [|discriminate].
  pose proof (find_cut_le _ _ _ _ _ _ HC Hfc) as Hcl.
  pose proof (cut_split b i cut suffix Hcl ES) as Hi.
  destruct (suffix_parts suffix) as (Hsuf & Hnq & Hrest).
  set (path := firstn (find_or_len is_qh suffix) suffix) in *.
  set (rest := skipn (find_or_len is_qh suffix) suffix) in *.
  destruct (has_dot_seg path) eqn:Hdot; [discriminate|].
  destruct (hd_is is_slash path) eqn:Hsl.
  { (* absolute-path reference: the suffix is the whole path of the IRI *)
    destruct (Nat.eqb_spec cut (authority_end p)) as [Ec|Ec]; [|discriminate].
    destruct (starts_with [c_slash; c_slash] path) eqn:Hss; [discriminate|].
    cbn [andb negb]. intros [= <-].
    destruct path as [|x path'] eqn:Epath; [discriminate|].
    cbn [hd_is] in Hsl. unfold is_slash in Hsl. apply N.eqb_eq in Hsl. subst x.
    assert (Hh : hd_is is_slash (path' ++ rest) = false).
    { destruct path' as [|y t].
      - cbn [app]. destruct Hrest as [->|Hr]; [reflexivity|]. destruct rest as [|y t]; [reflexivity|].
        cbn [hd_is] in *. unfold is_slash. apply is_qh_not_slash. exact Hr.
      - cbn [app hd_is]. cbn [starts_with] in Hss. rewrite N.eqb_refl in Hss. cbn [andb] in Hss.
        rewrite andb_true_r in Hss. unfold is_slash. rewrite N.eqb_sym. exact Hss. }
    split.
    - rewrite Hsuf. cbn [app]. rewrite (resolve_abs_path b p _ Hpos Hh). fold ha.
      assert (Hd' : has_dot_seg path' = false).
      { unfold has_dot_seg in *. cbn [split_on] in Hdot. rewrite N.eqb_refl in Hdot.
        cbn [existsb] in Hdot. exact Hdot. }
      cbn [forallb] in Hnq. apply andb_true_iff in Hnq as [_ Hnq].
      rewrite pp_path; [|exact Hd'|exact Hnq|right; exists []; reflexivity|exact Hrest].
      assert (Ht : two_slash_err ha (rev path' ++ [c_slash]) = false).
      { unfold two_slash_err. destruct ha; [reflexivity|]. cbn [negb andb].
        rewrite rev_app_distr, rev_involutive. exact Hss. }
      rewrite Ht. cbn [option_map rev app]. f_equal. rewrite Hi, Ec, Hsuf. reflexivity.
    - rewrite parents_zero; [lia|]. rewrite Hsuf. reflexivity. }
  destruct (ha && Nat.eqb (authority_end p) (path_end p)) eqn:Hg; [discriminate|].
  assert (HneP : ha = true -> ox_path b p <> []).
  { intros Ht E. rewrite Ht in Hg. cbn [andb] in Hg. apply Nat.eqb_neq in Hg.
    pose proof (new_path_end0 b p Hok) as HL. rewrite E in HL. simpl in HL. lia. }
  destruct (new_cut b n z p l nb cut Hnew Hpos HneP HC Hfc) as (Hnb & _ & Hcut & Hdl & Hchain).
  fold ha in Hchain.
  set (D := firstn (cut - authority_end p) (ox_path b p)) in *.
  assert (HD : firstn cut b = firstn (authority_end p) b ++ D).
  { replace cut with (authority_end p + (cut - authority_end p)) at 1 by lia.
    rewrite firstn_add. f_equal. unfold D, ox_path, slice. rewrite firstn_firstn_le by lia. reflexivity. }
  assert (Hns : ha = false -> starts_with [c_slash; c_slash] (ox_path b p) = false).
  { intros Hf. apply (po_noauth _ _ Hok). apply Nat.ltb_ge in Hf. destruct (po_se_ae _ _ Hok); lia. }
  assert (Hha' : ha = true -> hd_is is_slash (ox_path b p) = true).
  { intros Ht. destruct (po_auth_root _ _ Hok) as [E|E]; [apply Nat.ltb_lt; exact Ht|elim (HneP Ht); exact E|exact E]. }
  assert (Hpp : pp_rm ha (rev D) suffix = Some (D ++ suffix)).
  { rewrite Hsuf at 1. rewrite pp_path by assumption. unfold D. rewrite two_slash_app by assumption.
    rewrite rev_involutive, <- Hsuf. reflexivity. }
  assert (Hfin : Some (firstn (authority_end p) b ++ D ++ suffix) = Some i).
  { rewrite app_assoc, <- HD, Hi. reflexivity. }
  assert (Hnodd : strip_prefix dotdot_slash suffix = None).
  { rewrite Hsuf. apply suffix_no_dotdot; assumption. }
  destruct nb as [|nb'].
  - (* no "../" *)
    cbn [Nat.ltb Nat.leb]. specialize (Hchain suffix) as Hc0. cbn [repeat_str app] in Hc0.
    destruct (match path with [] => true | _ :: _ => false end || has_colon (first_seg path)) eqn:Hdotslash.
    + (* "./" is needed *)
      intros [= <-]. split.
      * change ([c_dot; c_slash] ++ suffix) with (c_dot :: c_slash :: suffix).
        rewrite (resolve_rel b p c_dot (c_slash :: suffix) Hpos eq_refl eq_refl eq_refl). fold ha.
        specialize (Hchain ([c_dot; c_slash] ++ suffix)). cbn [repeat_str] in Hchain.
        change (c_dot :: c_slash :: suffix) with ([] ++ [c_dot; c_slash] ++ suffix). rewrite Hchain.
        rewrite pp_rm_curdir by exact Hdl. unfold D. rewrite (two_slash_prefix ha _ Hha' Hns).
        fold D. rewrite Hpp. cbn [option_map]. exact Hfin.
      * rewrite parents_zero; [lia|]. reflexivity.
    + (* the suffix as it is *)
      intros [= <-]. apply orb_false_iff in Hdotslash as [Hne Hcol].
      destruct path as [|x path'] eqn:Epath; [discriminate|].
      cbn [hd_is] in Hsl. rewrite first_seg_cons in Hcol by exact Hsl.
      unfold has_colon in Hcol. cbn [existsb] in Hcol. apply orb_false_iff in Hcol as [Hx Hcol].
      cbn [forallb] in Hnq. apply andb_true_iff in Hnq as [Hxq _]. apply negb_true_iff in Hxq.
      assert (Hsch : scheme_len suffix = None).
      { destruct (scheme_len suffix) as [k|] eqn:E; [|reflexivity].
        apply scheme_len_colon in E. fold path in E. rewrite Epath in E.
        rewrite first_seg_cons in E by exact Hsl. unfold has_colon in E. cbn [existsb] in E.
        rewrite Hx, Hcol in E. discriminate. }
      split; [|rewrite parents_zero; [lia|exact Hnodd]].
      rewrite Hsuf in Hsch |- *. cbn [app] in Hsch |- *.
      rewrite (resolve_rel b p x (path' ++ rest) Hpos); [| |unfold is_delim; rewrite Hsl, Hxq; reflexivity|exact Hsch].
      2:{ rewrite N.eqb_sym. exact Hx. }
      fold ha. change (x :: path' ++ rest) with ((x :: path') ++ rest). rewrite <- Hsuf.
      rewrite Hc0, Hpp. cbn [option_map]. exact Hfin.
  - (* nb' + 1 times "../" *)
    cbn [Nat.ltb Nat.leb]. intros [= <-]. split.
    + change (repeat_str dotdot_slash (S nb') ++ suffix)
        with (c_dot :: ([c_dot; c_slash] ++ repeat_str dotdot_slash nb' ++ suffix)).
      rewrite (resolve_rel b p c_dot _ Hpos eq_refl eq_refl eq_refl). fold ha.
      change (c_dot :: c_dot :: c_slash :: repeat_str dotdot_slash nb' ++ suffix)
        with (repeat_str dotdot_slash (S nb') ++ suffix).
      rewrite Hchain, Hpp. cbn [option_map]. exact Hfin.
    + change (parents_of (repeat_str dotdot_slash (S nb') ++ suffix) <= n).
      rewrite parents_repeat, (parents_zero _ Hnodd). lia.
Qed.

(* ================= (2) an IRI that differs from the base in query/fragment only ================= *)
Lemma lcp_app b k f : k <= length b -> k <= lcp b (firstn k b ++ f).
Proof.
  revert k. induction b as [|x b IH]; intros k Hk; simpl in Hk.
  - assert (k = 0) by lia. subst. simpl. lia.
  - destruct k as [|k]; [lia|]. cbn [firstn app lcp]. rewrite N.eqb_refl. specialize (IH k). lia.
Qed.

Lemma new_some b n p : positions_of b = Some p -> exists z, new b n = Some z.
Proof.
  intros H. unfold new. rewrite H. cbv zeta.
  match goal with |- context [let '(a, b) := ?X in _] => destruct X end. eexists. reflexivity.
Qed.

Lemma slice_from_app a f : (f = [] \/ hd_is (fun c => negb (is_cont c)) f = true) ->
  slice_from (a ++ f) (length a) = Some f.
Proof.
  intros Hf. unfold slice_from.
  assert (E : skipn (length a) (a ++ f) = f).
  { rewrite skipn_app, skipn_all, Nat.sub_diag. reflexivity. }
  assert (B : is_char_boundary (a ++ f) (length a) = true).
  { unfold is_char_boundary. destruct (length a) as [|k] eqn:L; [reflexivity|]. rewrite <- L.
    rewrite nth_error_app2, Nat.sub_diag by lia.
    destruct Hf as [->|Hf].
    - cbn [nth_error]. rewrite app_nil_r. apply Nat.eqb_refl.
    - destruct f as [|c t]; [discriminate|]. cbn [nth_error hd_is] in *. exact Hf. }
  rewrite B, E. reflexivity.
Qed.

Theorem relativize_same_document b n p i f :
  positions_of b = Some p -> i = firstn (query_end p) b ++ f ->
  (f = [] \/ hd_is (N.eqb c_hash) f = true) ->
  relativize b n i = Ret (Some f).
Proof.
  intros Hpos Hi Hf. destruct (new_some b n p Hpos) as [z Hnew].
  unfold relativize. rewrite Hnew.
  destruct (new_inv _ _ _ Hnew) as (p' & Hpos' & Hok & Hb & Hqe & _).
  rewrite Hpos in Hpos'. injection Hpos' as <-.
  unfold relativize_z. rewrite Hb, Hqe.
  pose proof (po_qe_len _ _ Hok) as Hlen.
  assert (L : length (firstn (query_end p) b) = query_end p) by (rewrite firstn_length; lia).
  assert (Hl : query_end p <= lcp b i) by (subst i; apply lcp_app; exact Hlen).
  destruct (Nat.leb_spec (query_end p) (lcp b i)) as [_|]; [|lia].
  assert (Hs : slice_from i (query_end p) = Some f).
  { subst i. rewrite <- L at 2. apply slice_from_app. destruct Hf as [Hf|Hf]; [left; exact Hf|right].
    destruct f as [|c t]; [discriminate|]. cbn [hd_is] in *. apply N.eqb_eq in Hf. subst c. reflexivity. }
  assert (Hr : rest_is (N.eqb c_hash) i (query_end p) = Some true).
  { unfold rest_is. destruct (Nat.eqb_spec (length i) (query_end p)); [reflexivity|].
    rewrite Hs. cbn [option_map]. destruct Hf as [->|Hf]; [|rewrite Hf; reflexivity].
    exfalso. subst i. rewrite app_nil_r in *. lia. }
  rewrite Hr. unfold emit_from. rewrite Hs. reflexivity.
Qed.

(* same path and a query on the IRI: never [None] (a reference is produced unless the IRI is not UTF-8) *)
Theorem relativize_same_path_query b n p i q :
  positions_of b = Some p -> i = firstn (path_end p) b ++ c_qm :: q ->
  relativize b n i <> Ret None.
Proof.
  intros Hpos Hi. destruct (new_some b n p Hpos) as [z Hnew].
  unfold relativize. rewrite Hnew.
  destruct (new_inv _ _ _ Hnew) as (p' & Hpos' & Hok & Hb & Hqe & Hpe & _).
  rewrite Hpos in Hpos'. injection Hpos' as <-.
  unfold relativize_z. rewrite Hb, Hqe, Hpe.
  pose proof (po_qe_len _ _ Hok) as Hlen. pose proof (po_pe_qe _ _ Hok) as Hpq.
  assert (L : length (firstn (path_end p) b) = path_end p) by (rewrite firstn_length; lia).
  assert (Hl : path_end p <= lcp b i) by (subst i; apply lcp_app; lia).
  assert (Hs : slice_from i (path_end p) = Some (c_qm :: q)).
  { subst i. rewrite <- L at 2. apply slice_from_app. right. reflexivity. }
  destruct (if query_end p <=? lcp b i then rest_is (N.eqb c_hash) i (query_end p) else Some false)
    as [[|]|]; unfold emit_from.
  - destruct (slice_from i (query_end p)); discriminate.
  - destruct (Nat.leb_spec (path_end p) (lcp b i)) as [_|]; [|lia].
    rewrite Hs. cbn [option_map hd_is]. rewrite N.eqb_refl. discriminate.
  - discriminate.
Qed.

(* ================= (3) the resolver never fails on a base with an authority ================= *)
Lemma pp_rm_auth : forall inp rout, pp_rm true rout inp <> None.
Proof.
  induction inp as [|c inp IH]; intros rout; cbn [pp_rm]; unfold two_slash_err; cbn [negb andb].
  - discriminate.
  - destruct (N.eqb c c_slash).
    + destruct (dot_fix true rout); apply IH.
    + destruct (is_qh c); [discriminate|apply IH].
Qed.

Theorem resolve_defined b p r :
  positions_of b = Some p -> scheme_end p < authority_end p -> hd_is (N.eqb c_colon) r = false ->
  exists o, resolve b r = Some o.
Proof.
  intros Hp Ha Hr. unfold resolve. rewrite Hp, Hr.
  apply Nat.ltb_lt in Ha. rewrite Ha.
  destruct (scheme_len r); [eauto|].
  destruct r as [|c r']; [eauto|].
  destruct (N.eqb c c_slash).
  - destruct (hd_is is_slash r'); [eauto|].
    destruct (pp_rm true [c_slash] r') eqn:E; [simpl; eauto|]. elim (pp_rm_auth _ _ E).
  - destruct (N.eqb c c_qm); [eauto|]. destruct (N.eqb c c_hash); [eauto|].
    destruct (pp_rm true (rls true (rev (ox_path b p))) (c :: r')) eqn:E; [simpl; eauto|]. elim (pp_rm_auth _ _ E).
Qed.

(* ================= the code BEFORE the fix violates (1): replayed witnesses ================= *)
Definition wrong_reference (b i : str) (n : nat) : Prop :=
  exists r, relativize_prefix b n i = Ret (Some r) /\ resolve b r <> Some i.

(* base <http://a/b/c>, IRI <http://a/b/x:y>: first segment of the emitted suffix contains ':' (taken for a scheme) *)
Example relativize_prefix_refuted_colon :
  wrong_reference ([104; 116; 116; 112; 58; 47; 47; 97; 47; 98; 47; 99]%N)
    ([104; 116; 116; 112; 58; 47; 47; 97; 47; 98; 47; 120; 58; 121]%N) 1.
Proof. eexists. split; [vm_compute; reflexivity|vm_compute; discriminate]. Qed.
(* base <http://a/b/c>, IRI <http://a/b//d>: empty segment right after the common prefix (absolute-path reference) *)
Example relativize_prefix_refuted_empty_segment :
  wrong_reference ([104; 116; 116; 112; 58; 47; 47; 97; 47; 98; 47; 99]%N)
    ([104; 116; 116; 112; 58; 47; 47; 97; 47; 98; 47; 47; 100]%N) 1.
Proof. eexists. split; [vm_compute; reflexivity|vm_compute; discriminate]. Qed.
(* base <http://a/b/c>, IRI <http://a/b/../c>: dot segments in the IRI are removed when resolving *)
Example relativize_prefix_refuted_dot_segments :
  wrong_reference ([104; 116; 116; 112; 58; 47; 47; 97; 47; 98; 47; 99]%N)
    ([104; 116; 116; 112; 58; 47; 47; 97; 47; 98; 47; 46; 46; 47; 99]%N) 1.
Proof. eexists. split; [vm_compute; reflexivity|vm_compute; discriminate]. Qed.
(* base <s:a/b>, IRI <s:a/c:d>: rootless base *)
Example relativize_prefix_refuted_rootless :
  wrong_reference ([115; 58; 97; 47; 98]%N)
    ([115; 58; 97; 47; 99; 58; 100]%N) 1.
Proof. eexists. split; [vm_compute; reflexivity|vm_compute; discriminate]. Qed.
(* base <http://a/b>, IRI <http://a/bcd>: the base is a strict prefix of the IRI *)
Example relativize_prefix_refuted_base_is_prefix :
  wrong_reference ([104; 116; 116; 112; 58; 47; 47; 97; 47; 98]%N)
    ([104; 116; 116; 112; 58; 47; 47; 97; 47; 98; 99; 100]%N) 1.
Proof. eexists. split; [vm_compute; reflexivity|vm_compute; discriminate]. Qed.
(* base <http://a/b?q>, IRI <http://a/b>: the base has a query and the IRI has none: the empty reference keeps the query *)
Example relativize_prefix_refuted_query_dropped :
  wrong_reference ([104; 116; 116; 112; 58; 47; 47; 97; 47; 98; 63; 113]%N)
    ([104; 116; 116; 112; 58; 47; 47; 97; 47; 98]%N) 1.
Proof. eexists. split; [vm_compute; reflexivity|vm_compute; discriminate]. Qed.
(* base <s://h>, IRI <s://hh>: the authority of the base is a strict prefix of that of the IRI *)
Example relativize_prefix_refuted_authority_prefix :
  wrong_reference ([115; 58; 47; 47; 104]%N)
    ([115; 58; 47; 47; 104; 104]%N) 1.
Proof. eexists. split; [vm_compute; reflexivity|vm_compute; discriminate]. Qed.
(* base <http://\u00e9?q>, IRI <http://\u00e9/x>: iri[pseudoroot - 1..] slices inside the two-byte character *)
Example relativize_prefix_refuted_panic :
  relativize_prefix ([104; 116; 116; 112; 58; 47; 47; 195; 169; 63; 113]%N) 1 ([104; 116; 116; 112; 58; 47; 47; 195; 169; 47; 120]%N) = Panic.
Proof. vm_compute. reflexivity. Qed.
(* ... and the fixed code on the same inputs *)
Example relativize_fixed_colon :
  match relativize ([104; 116; 116; 112; 58; 47; 47; 97; 47; 98; 47; 99]%N) 1 ([104; 116; 116; 112; 58; 47; 47; 97; 47; 98; 47; 120; 58; 121]%N) with
  | Ret (Some r) => resolve ([104; 116; 116; 112; 58; 47; 47; 97; 47; 98; 47; 99]%N) r = Some ([104; 116; 116; 112; 58; 47; 47; 97; 47; 98; 47; 120; 58; 121]%N)
  | Ret None => True | Panic => False end.
Proof. vm_compute. auto. Qed.
Example relativize_fixed_empty_segment :
  match relativize ([104; 116; 116; 112; 58; 47; 47; 97; 47; 98; 47; 99]%N) 1 ([104; 116; 116; 112; 58; 47; 47; 97; 47; 98; 47; 47; 100]%N) with
  | Ret (Some r) => resolve ([104; 116; 116; 112; 58; 47; 47; 97; 47; 98; 47; 99]%N) r = Some ([104; 116; 116; 112; 58; 47; 47; 97; 47; 98; 47; 47; 100]%N)
  | Ret None => True | Panic => False end.
Proof. vm_compute. auto. Qed.
Example relativize_fixed_dot_segments :
  match relativize ([104; 116; 116; 112; 58; 47; 47; 97; 47; 98; 47; 99]%N) 1 ([104; 116; 116; 112; 58; 47; 47; 97; 47; 98; 47; 46; 46; 47; 99]%N) with
  | Ret (Some r) => resolve ([104; 116; 116; 112; 58; 47; 47; 97; 47; 98; 47; 99]%N) r = Some ([104; 116; 116; 112; 58; 47; 47; 97; 47; 98; 47; 46; 46; 47; 99]%N)
  | Ret None => True | Panic => False end.
Proof. vm_compute. auto. Qed.
Example relativize_fixed_rootless :
  match relativize ([115; 58; 97; 47; 98]%N) 1 ([115; 58; 97; 47; 99; 58; 100]%N) with
  | Ret (Some r) => resolve ([115; 58; 97; 47; 98]%N) r = Some ([115; 58; 97; 47; 99; 58; 100]%N)
  | Ret None => True | Panic => False end.
Proof. vm_compute. auto. Qed.
Example relativize_fixed_base_is_prefix :
  match relativize ([104; 116; 116; 112; 58; 47; 47; 97; 47; 98]%N) 1 ([104; 116; 116; 112; 58; 47; 47; 97; 47; 98; 99; 100]%N) with
  | Ret (Some r) => resolve ([104; 116; 116; 112; 58; 47; 47; 97; 47; 98]%N) r = Some ([104; 116; 116; 112; 58; 47; 47; 97; 47; 98; 99; 100]%N)
  | Ret None => True | Panic => False end.
Proof. vm_compute. auto. Qed.
Example relativize_fixed_query_dropped :
  match relativize ([104; 116; 116; 112; 58; 47; 47; 97; 47; 98; 63; 113]%N) 1 ([104; 116; 116; 112; 58; 47; 47; 97; 47; 98]%N) with
  | Ret (Some r) => resolve ([104; 116; 116; 112; 58; 47; 47; 97; 47; 98; 63; 113]%N) r = Some ([104; 116; 116; 112; 58; 47; 47; 97; 47; 98]%N)
  | Ret None => True | Panic => False end.
Proof. vm_compute. auto. Qed.
Example relativize_fixed_authority_prefix :
  match relativize ([115; 58; 47; 47; 104]%N) 1 ([115; 58; 47; 47; 104; 104]%N) with
  | Ret (Some r) => resolve ([115; 58; 47; 47; 104]%N) r = Some ([115; 58; 47; 47; 104; 104]%N)
  | Ret None => True | Panic => False end.
Proof. vm_compute. auto. Qed.

(* ================= no slicing off a character boundary ================= *)
Lemma run_app a : forall m t, run m (a ++ t) = match run m a with Some m' => run m' t | None => None end.
Proof.
  induction a as [|c a IH]; intros m t; [reflexivity|]. cbn [app run]. destruct m.
  - destruct (lead_len c); [apply IH|reflexivity].
  - destruct (is_cont c); [apply IH|reflexivity].
Qed.

Lemma lead_not_cont c k : lead_len c = Some k -> is_cont c = false.
Proof.
  unfold lead_len, is_cont. destruct (N.ltb_spec c 128).
  - intros _. apply andb_false_iff. left. apply N.leb_gt. assumption.
  - destruct (N.ltb_spec c 192); [discriminate|]. intros _. apply andb_false_r.
Qed.

Lemma ascii_lead c : (c < 128)%N -> lead_len c = Some 0.
Proof. intros H. unfold lead_len. apply N.ltb_lt in H. rewrite H. reflexivity. Qed.

Lemma run_next m c t : run m (c :: t) <> None -> (m = 0 <-> is_cont c = false).
Proof.
  destruct m; cbn [run].
  - destruct (lead_len c) eqn:E; [|congruence]. intros _. apply lead_not_cont in E. split; auto.
  - destruct (is_cont c); [|congruence]. intros _. split; discriminate.
Qed.

Definition okcut (s : str) (k : nat) : Prop := run 0 (firstn k s) = Some 0.

Lemma prefix_runs s k : utf8_ok s = true ->
  exists m, run 0 (firstn k s) = Some m /\ run m (skipn k s) = Some 0.
Proof.
  unfold utf8_ok. intros H. destruct (run 0 s) as [[|m]|] eqn:E; try discriminate.
  rewrite <- (firstn_skipn k s), run_app in E.
  destruct (run 0 (firstn k s)) as [m|]; [|discriminate]. eauto.
Qed.

Lemma nth_error_skipn {A} (s : list A) : forall k, nth_error s k = hd_error (skipn k s).
Proof. induction s as [|x s IH]; intros [|k]; try reflexivity. apply IH. Qed.

Lemma boundary_iff s k : utf8_ok s = true -> k <= length s -> (is_char_boundary s k = true <-> okcut s k).
Proof.
  intros Hu Hk. destruct (prefix_runs s k Hu) as (m & E1 & E2). unfold okcut. rewrite E1.
  unfold is_char_boundary. destruct k as [|k].
  - simpl in E1. split; [intros _; symmetry; exact E1|reflexivity].
  - rewrite nth_error_skipn. destruct (skipn (S k) s) as [|c t] eqn:Es; cbn [hd_error].
    + simpl in E2. assert (S k = length s).
      { apply (f_equal (@length N)) in Es. rewrite skipn_length in Es. simpl in Es. lia. }
      split; [intros _; congruence|intros _; apply Nat.eqb_eq; assumption].
    + assert (Hn : run m (c :: t) <> None) by congruence. apply run_next in Hn.
      rewrite negb_true_iff, <- Hn. split; congruence.
Qed.

Lemma slice_ok b i k : utf8_ok i = true -> okcut b k -> k <= lcp b i -> slice_from i k = Some (skipn k i).
Proof.
  intros Hu Hb Hk. unfold slice_from.
  assert (B : is_char_boundary i k = true).
  { apply boundary_iff; [exact Hu|pose proof (lcp_le_r b i); lia|].
    unfold okcut in *. rewrite <- (lcp_firstn _ _ _ Hk). exact Hb. }
  rewrite B. reflexivity.
Qed.

Lemma firstn_S_nth {A} (s : list A) : forall j c, nth_error s j = Some c -> firstn (S j) s = firstn j s ++ [c].
Proof.
  induction s as [|x s IH]; intros [|j] c H; try discriminate.
  - injection H as ->. reflexivity.
  - cbn [nth_error] in H. change (x :: firstn (S j) s = x :: firstn j s ++ [c]). f_equal. apply IH. exact H.
Qed.

Lemma okcut_after_ascii s j c : utf8_ok s = true -> nth_error s j = Some c -> (c < 128)%N -> okcut s (S j).
Proof.
  intros Hu Hn Hc. destruct (prefix_runs s j Hu) as (m & E1 & E2).
  rewrite nth_error_skipn in Hn. destruct (skipn j s) as [|c' t] eqn:Es; [discriminate|].
  cbn [hd_error] in Hn. injection Hn as ->.
  assert (Hm : m = 0).
  { apply (run_next m c t); [congruence|]. apply (lead_not_cont c 0). apply ascii_lead. exact Hc. }
  subst m. unfold okcut. rewrite (firstn_S_nth s j c), run_app, E1.
  - cbn [run]. rewrite ascii_lead by exact Hc. reflexivity.
  - rewrite nth_error_skipn, Es. reflexivity.
Qed.

Lemma okcut_at_noncont s k : utf8_ok s = true -> k <= length s ->
  (skipn k s = [] \/ hd_is (fun c => negb (is_cont c)) (skipn k s) = true) -> okcut s k.
Proof.
  intros Hu Hk H. apply boundary_iff; [exact Hu|exact Hk|].
  unfold is_char_boundary. destruct k as [|k]; [reflexivity|]. rewrite nth_error_skipn.
  destruct H as [H|H].
  - rewrite H. cbn [hd_error]. apply Nat.eqb_eq.
    apply (f_equal (@length N)) in H. rewrite skipn_length in H. simpl in H. lia.
  - destruct (skipn (S k) s); [discriminate|]. exact H.
Qed.

Lemma nth_error_skipn_add {A} (s : list A) pb j : nth_error (skipn pb s) j = nth_error s (pb + j).
Proof.
  revert s. induction pb as [|pb IH]; intros s; [reflexivity|].
  destruct s; [destruct j; reflexivity|]. apply IH.
Qed.

Lemma slashes_loop_slash b pb : forall fuel pos s,
  In s (slashes_loop fuel b pb pos) -> nth_error b s = Some c_slash.
Proof.
  induction fuel as [|f IH]; intros pos s H; cbn [slashes_loop] in H; [contradiction|].
  destruct (rfind c_slash (slice pb pos b)) as [[|i]|] eqn:F; try contradiction.
  destruct H as [<-|H]; [|eapply IH; exact H].
  destruct (rfind_decomp _ _ F) as (a & t & E & La & _). unfold slice in E.
  assert (X : skipn pb b = a ++ c_slash :: (t ++ skipn (pos - pb) (skipn pb b))).
  { rewrite <- (firstn_skipn (pos - pb) (skipn pb b)) at 1. rewrite E, <- app_assoc. reflexivity. }
  rewrite Nat.add_comm, <- nth_error_skipn_add, X, nth_error_app2 by lia.
  rewrite La, Nat.sub_diag. reflexivity.
Qed.

Lemma in_removelast {A} (l : list A) x : In x (removelast l) -> In x l.
Proof.
  induction l as [|y l IH]; [contradiction|]. destruct l as [|y2 l]; [contradiction|].
  change (removelast (y :: y2 :: l)) with (y :: removelast (y2 :: l)).
  intros [->|H]; [left; reflexivity|right; apply IH; exact H].
Qed.

Lemma last_in {A} (l : list A) d : l <> [] -> In (last l d) l.
Proof.
  induction l as [|y l IH]; [congruence|]. intros _. destruct l as [|y2 l]; [left; reflexivity|].
  right. apply IH. discriminate.
Qed.

Lemma positions_colon b p : positions_of b = Some p -> nth_error b (scheme_end p - 1) = Some c_colon.
Proof.
  unfold positions_of. destruct (scheme_len b) as [k|] eqn:E; [|discriminate]. intros [= <-].
  cbn [scheme_end]. replace (S k - 1) with k by lia.
  unfold scheme_len in E. destruct (hd_is is_alpha b); [|discriminate].
  revert k E. induction b as [|c b IH]; intros k; cbn [scheme_scan]; [discriminate|].
  destruct (N.eqb_spec c c_colon) as [->|]; [intros [= <-]; reflexivity|].
  destruct (is_scheme_char c); [|discriminate]. destruct (scheme_scan b) as [j|]; [|discriminate].
  intros [= <-]. apply IH. reflexivity.
Qed.

Lemma qh_not_cont c : is_qh c = true -> negb (is_cont c) = true.
Proof. unfold is_qh. intros H. apply orb_true_iff in H as [H|H]; apply N.eqb_eq in H; subst; reflexivity. Qed.

Lemma okcut_path_begin b p : utf8_ok b = true -> positions_of b = Some p -> okcut b (authority_end p).
Proof.
  intros Hu Hp. pose proof (positions_ok _ _ Hp) as Hok.
  pose proof (po_ae_pe _ _ Hok). pose proof (po_pe_qe _ _ Hok). pose proof (po_qe_len _ _ Hok).
  destruct (po_se_ae _ _ Hok) as [E|E].
  - rewrite E. pose proof (po_se_pos _ _ Hok).
    replace (scheme_end p) with (S (scheme_end p - 1)) by lia.
    apply (okcut_after_ascii b _ c_colon Hu); [apply positions_colon; exact Hp|reflexivity].
  - apply okcut_at_noncont; [exact Hu|lia|].
    destruct (po_auth_root _ _ Hok) as [H'|H']; [lia| |].
    + (* empty path: what follows is '?', '#' or nothing *)
      pose proof (new_path_end0 b p Hok) as L. rewrite H' in L. simpl in L.
      replace (authority_end p) with (path_end p) by lia.
      destruct (po_after_path _ _ Hok) as [->|Hq]; [left; reflexivity|right].
      destruct (skipn (path_end p) b); [discriminate|]. cbn [hd_is] in *. apply qh_not_cont. exact Hq.
    + right. unfold ox_path, slice in H'.
      destruct (skipn (authority_end p) b) as [|c t]; [destruct (path_end p - authority_end p); discriminate|].
      destruct (path_end p - authority_end p); [discriminate|]. cbn [firstn hd_is] in *.
      unfold is_slash in H'. apply N.eqb_eq in H'. subst c. reflexivity.
Qed.

Lemma new_cut_ok b n z p l nb cut : utf8_ok b = true -> new b n = Some z -> positions_of b = Some p ->
  find_cut l (z_slashes z) 0 (z_pseudoroot z) = (nb, cut) -> okcut b cut.
Proof.
  intros Hu Hnew Hpos Hfc.
  destruct (new_inv _ _ _ Hnew) as (p' & Hpos' & Hok & _ & _ & _ & _ & _ & Hsl).
  rewrite Hpos in Hpos'. injection Hpos' as <-. cbv zeta in Hsl.
  set (SL := slashes_loop (S n) b (authority_end p) (path_end p)) in *.
  assert (Hslash : forall s, In s SL -> okcut b (s + 1)).
  { intros s Hs. rewrite Nat.add_1_r. apply (okcut_after_ascii b s c_slash Hu); [|reflexivity].
    eapply slashes_loop_slash. exact Hs. }
  assert (Hroot : hd_is is_slash (skipn (authority_end p) b) = true -> okcut b (authority_end p + 1)).
  { intros Hr. rewrite Nat.add_1_r. apply (okcut_after_ascii b _ c_slash Hu); [|reflexivity].
    rewrite nth_error_skipn. destruct (skipn (authority_end p) b) as [|c t]; [discriminate|].
    cbn [hd_is hd_error] in *. unfold is_slash in Hr. apply N.eqb_eq in Hr. congruence. }
  assert (Hsub : forall s, In s (z_slashes z) -> In s SL).
  { intros s Hs. destruct (n <? length SL).
    - injection Hsl as Hz _. rewrite Hz in Hs. apply in_removelast. exact Hs.
    - destruct (hd_is is_slash (skipn (authority_end p) b)); injection Hsl as Hz _; rewrite Hz in Hs; exact Hs. }
  apply find_cut_spec in Hfc as [(j & Hj & _ & -> & _)|[_ ->]].
  - apply Hslash, Hsub. apply nth_In. exact Hj.
  - destruct (Nat.ltb_spec n (length SL)) as [Hn|Hn].
    + injection Hsl as _ ->. apply Hslash. apply last_in. destruct SL; [simpl in Hn; lia|discriminate].
    + destruct (hd_is is_slash (skipn (authority_end p) b)) eqn:Hr; injection Hsl as _ ->.
      * apply Hroot. reflexivity.
      * apply okcut_path_begin; assumption.
Qed.

(* for well-formed UTF-8 inputs no slice of the fixed relativize is off a character boundary *)
Theorem relativize_no_panic b n i :
  utf8_ok b = true -> utf8_ok i = true -> relativize b n i <> Panic.
Proof.
  intros Hub Hui. unfold relativize. destruct (new b n) as [z|] eqn:Hnew; [|discriminate].
  destruct (new_inv _ _ _ Hnew) as (p & Hpos & Hok & Hb & Hqe & Hpe & Hpb & Hha & _).
  pose proof (po_ae_pe _ _ Hok). pose proof (po_pe_qe _ _ Hok). pose proof (po_qe_len _ _ Hok).
  unfold relativize_z. rewrite Hb, Hqe, Hpe, Hpb, Hha. set (l := lcp b i).
  assert (SQ : query_end p <= l -> slice_from i (query_end p) = Some (skipn (query_end p) i)).
  { intros Hl. apply (slice_ok b); [exact Hui| |exact Hl]. apply okcut_at_noncont; [exact Hub|lia|].
    destruct (po_after_query _ _ Hok) as [->|Hq]; [left; reflexivity|right].
    destruct (skipn (query_end p) b); [discriminate|]. cbn [hd_is] in *. apply N.eqb_eq in Hq. subst. reflexivity. }
  assert (SP : path_end p <= l -> slice_from i (path_end p) = Some (skipn (path_end p) i)).
  { intros Hl. apply (slice_ok b); [exact Hui| |exact Hl]. apply okcut_at_noncont; [exact Hub|lia|].
    destruct (po_after_path _ _ Hok) as [->|Hq]; [left; reflexivity|right].
    destruct (skipn (path_end p) b); [discriminate|]. cbn [hd_is] in *. apply qh_not_cont. exact Hq. }
  unfold emit_from, rest_is.
  destruct (Nat.leb_spec (query_end p) l) as [HA|HA].
  - rewrite (SQ HA). destruct (Nat.eqb (length i) (query_end p)); [discriminate|]. cbn [option_map].
    destruct (hd_is (N.eqb c_hash) (skipn (query_end p) i)); [discriminate|].
    destruct (Nat.leb_spec (path_end p) l) as [HB|HB]; [|lia].
    rewrite (SP HB). cbn [option_map]. destruct (hd_is (N.eqb c_qm) (skipn (path_end p) i)); [discriminate|].
    destruct (Nat.leb_spec (z_pseudoroot z) l) as [HC|HC]; [|discriminate].
    destruct (find_cut l (z_slashes z) 0 (z_pseudoroot z)) as [nb cut] eqn:Hfc.
    rewrite (slice_ok b i cut Hui (new_cut_ok _ _ _ _ _ _ _ Hub Hnew Hpos Hfc) (find_cut_le _ _ _ _ _ _ HC Hfc)).
    repeat match goal with |- (if ?c then _ else _) <> _ => destruct c end; discriminate.
  - destruct (Nat.leb_spec (path_end p) l) as [HB|HB].
    + rewrite (SP HB). cbn [option_map]. destruct (hd_is (N.eqb c_qm) (skipn (path_end p) i)); [discriminate|].
      destruct (Nat.leb_spec (z_pseudoroot z) l) as [HC|HC]; [|discriminate].
      destruct (find_cut l (z_slashes z) 0 (z_pseudoroot z)) as [nb cut] eqn:Hfc.
      rewrite (slice_ok b i cut Hui (new_cut_ok _ _ _ _ _ _ _ Hub Hnew Hpos Hfc) (find_cut_le _ _ _ _ _ _ HC Hfc)).
      repeat match goal with |- (if ?c then _ else _) <> _ => destruct c end; discriminate.
    + destruct (Nat.leb_spec (z_pseudoroot z) l) as [HC|HC]; [|discriminate].
      destruct (find_cut l (z_slashes z) 0 (z_pseudoroot z)) as [nb cut] eqn:Hfc.
      rewrite (slice_ok b i cut Hui (new_cut_ok _ _ _ _ _ _ _ Hub Hnew Hpos Hfc) (find_cut_le _ _ _ _ _ _ HC Hfc)).
      repeat match goal with |- (if ?c then _ else _) <> _ => destruct c end; discriminate.
Qed.

Corollary relativize_same_path_query_some b n p i q :
  utf8_ok b = true -> utf8_ok i = true ->
  positions_of b = Some p -> i = firstn (path_end p) b ++ c_qm :: q ->
  exists r, relativize b n i = Ret (Some r).
Proof.
  intros Hb Hi Hp E. pose proof (relativize_no_panic b n i Hb Hi) as H1.
  pose proof (relativize_same_path_query b n p i q Hp E) as H2.
  destruct (relativize b n i) as [|[r|]]; [congruence|eauto|congruence].
Qed.

(* ---- same path, no query on the IRI while the base may have one: the last segment is emitted ---- *)
Definition last_seg (P : str) : str :=
  match rfind c_slash P with Some i => skipn (S i) P | None => P end.

Lemma slashes_loop_lt b pb : forall fuel pos s, pb <= pos ->
  In s (slashes_loop fuel b pb pos) -> s < pos.
Proof.
  induction fuel as [|f IH]; intros pos s Hp H; cbn [slashes_loop] in H; [contradiction|].
  destruct (rfind c_slash (slice pb pos b)) as [[|i]|] eqn:F; try contradiction.
  apply rfind_some in F as [F _]. unfold slice in F. rewrite firstn_length in F.
  destruct H as [<-|H]; [lia|]. apply IH in H; lia.
Qed.

Lemma split_no_slash_single s : no_slash s -> split_on c_slash s = [s].
Proof.
  unfold no_slash. induction s as [|x s IH]; [reflexivity|]. cbn [forallb split_on].
  intros H. apply andb_true_iff in H as [H1 H2]. unfold is_slash in H1. apply negb_true_iff in H1.
  rewrite H1, (IH H2). reflexivity.
Qed.

Lemma forallb_skipn {A} (f : A -> bool) l k : forallb f l = true -> forallb f (skipn k l) = true.
Proof.
  revert l. induction k as [|k IH]; intros l H; [exact H|]. destruct l; [reflexivity|].
  simpl in H. apply andb_true_iff in H as [_ H]. apply IH. exact H.
Qed.

Lemma skipn_app_S {A} (a : list A) c t : skipn (S (length a)) (a ++ c :: t) = t.
Proof. induction a as [|x a IH]; [reflexivity|]. exact IH. Qed.

Theorem relativize_same_path_noquery b n p i f :
  positions_of b = Some p -> i = firstn (path_end p) b ++ f ->
  (f = [] \/ hd_is (N.eqb c_hash) f = true) ->
  is_dot_seg (last_seg (ox_path b p)) = false ->
  (scheme_end p < authority_end p -> ox_path b p <> []) ->
  relativize b n i <> Ret None.
Proof.
  intros Hpos Hi Hf Hlast Hne. destruct (new_some b n p Hpos) as [z Hnew].
  unfold relativize. rewrite Hnew.
  destruct (new_inv _ _ _ Hnew) as (p' & Hpos' & Hok & Hb & Hqe & Hpe & Hpb & Hha & Hsl).
  rewrite Hpos in Hpos'. injection Hpos' as <-.
  pose proof (po_ae_pe _ _ Hok) as H1. pose proof (po_pe_qe _ _ Hok) as H2. pose proof (po_qe_len _ _ Hok) as H3.
  pose proof (new_path_end0 b p Hok) as HL.
  set (P := ox_path b p) in *.
  assert (L : length (firstn (path_end p) b) = path_end p) by (rewrite firstn_length; lia).
  assert (Hl : path_end p <= lcp b i) by (subst i; apply lcp_app; lia).
  assert (Hs : slice_from i (path_end p) = Some f).
  { subst i. rewrite <- L at 2. apply slice_from_app. destruct Hf as [Hf|Hf]; [left; exact Hf|right].
    destruct f as [|c t]; [discriminate|]. cbn [hd_is] in *. apply N.eqb_eq in Hf. subst c. reflexivity. }
  assert (Hfq : hd_is (N.eqb c_qm) f = false).
  { destruct Hf as [->|Hf]; [reflexivity|]. destruct f as [|c t]; [reflexivity|]. cbn [hd_is] in *.
    apply N.eqb_eq in Hf. subst c. reflexivity. }
  (* where the cut falls: just after the last slash of the base path *)
  assert (Hcut : exists k, find_cut (lcp b i) (z_slashes z) 0 (z_pseudoroot z) = (0, authority_end p + k)
                 /\ z_pseudoroot z <= path_end p /\ k <= length P /\ skipn k P = last_seg P /\ no_slash (last_seg P)).
  { cbv zeta in Hsl. unfold last_seg.
    assert (Hall : forall s, In s (slashes_loop (S n) b (authority_end p) (path_end p)) -> s < path_end p)
      by (intros s; apply slashes_loop_lt; lia).
    revert Hsl Hall. cbn [slashes_loop]. change (slice (authority_end p) (path_end p) b) with P.
    destruct (rfind c_slash P) as [[|j]|] eqn:F.
    - (* only the root slash *)
      intros Hsl _. cbn [length] in Hsl. rewrite (path_root _ _ Hok) in Hsl. fold P in Hsl.
      destruct (rfind_decomp _ _ F) as (a & t & E & La & Ht & _). destruct a; [|discriminate].
      rewrite E in Hsl |- *. cbn [app hd_is] in Hsl. change (is_slash c_slash) with true in Hsl.
      replace (n <? 0) with false in Hsl by (symmetry; apply Nat.ltb_ge; lia).
      injection Hsl as -> ->. exists 1. cbn [find_cut]. rewrite E in HL. simpl in HL.
      repeat split; try (simpl; lia). exact Ht.
    - intros Hsl Hall.
      set (s0 := S j + authority_end p) in *. set (SL' := slashes_loop n b (authority_end p) s0) in *.
      assert (Hs0 : s0 < path_end p) by (apply Hall; left; reflexivity).
      destruct (rfind_decomp _ _ F) as (a & t & E & La & Ht & _).
      assert (Hk : skipn (S (S j)) P = t).
      { rewrite E, <- La. apply skipn_app_S. }
      assert (HkP : S (S j) <= length P).
      { rewrite E, app_length. simpl. lia. }
      exists (S (S j)). replace (authority_end p + S (S j)) with (s0 + 1) by (unfold s0; lia).
      assert (Hfc : forall sl pr, find_cut (lcp b i) (s0 :: sl) 0 pr = (0, s0 + 1)).
      { intros sl pr. cbn [find_cut]. destruct (Nat.ltb_spec s0 (lcp b i)); [reflexivity|lia]. }
      assert (Hlast' : last (s0 :: SL') 0 + 1 <= path_end p).
      { pose proof (last_in (s0 :: SL') 0) as Hin. specialize (Hin ltac:(discriminate)). apply Hall in Hin. lia. }
      rewrite Hk. split; [|split; [|split; [exact HkP|split; [reflexivity|exact Ht]]]].
      + destruct (n <? length (s0 :: SL')).
        * injection Hsl as -> ->. destruct SL' as [|y SL'']; [reflexivity|].
          change (removelast (s0 :: y :: SL'')) with (s0 :: removelast (y :: SL'')). apply Hfc.
        * destruct (hd_is is_slash (skipn (authority_end p) b)); injection Hsl as -> ->; apply Hfc.
      + destruct (n <? length (s0 :: SL')).
        * injection Hsl as _ ->. exact Hlast'.
        * destruct (hd_is is_slash (skipn (authority_end p) b)) eqn:Hr; injection Hsl as _ ->; [|lia].
          rewrite (path_root _ _ Hok) in Hr. fold P in Hr. destruct P; [discriminate|]. simpl in HL. lia.
    - (* no slash at all *)
      intros Hsl _. cbn [length] in Hsl. rewrite (path_root _ _ Hok) in Hsl. fold P in Hsl.
      pose proof (rfind_none _ F) as Hns.
      assert (Hr : hd_is is_slash P = false).
      { destruct P as [|x P']; [reflexivity|]. unfold no_slash in Hns. cbn [forallb hd_is] in *.
        apply andb_true_iff in Hns as [Hx _]. apply negb_true_iff in Hx. exact Hx. }
      rewrite Hr in Hsl. replace (n <? 0) with false in Hsl by (symmetry; apply Nat.ltb_ge; lia).
      injection Hsl as -> ->. exists 0. cbn [find_cut]. rewrite Nat.add_0_r.
      repeat split; try lia. exact Hns. }
  destruct Hcut as (k & Hfc & Hpr & Hk & Hlk & Hnsl).
  unfold relativize_z. rewrite Hb, Hqe, Hpe, Hpb, Hha, Hfc.
  destruct (if query_end p <=? lcp b i then rest_is (N.eqb c_hash) i (query_end p) else Some false)
    as [[|]|]; unfold emit_from.
  { destruct (slice_from i (query_end p)); discriminate. }
  2:{ discriminate. }
  destruct (Nat.leb_spec (path_end p) (lcp b i)) as [_|]; [|lia].
  rewrite Hs. cbn [option_map]. rewrite Hfq.
  destruct (Nat.leb_spec (z_pseudoroot z) (lcp b i)) as [_|]; [|lia].
  destruct (slice_from i (authority_end p + k)) as [suffix|] eqn:ES; [|discriminate].
  apply slice_from_some in ES as [-> _].
  assert (Hsuffix : skipn (authority_end p + k) i = last_seg P ++ f).
  { subst i. rewrite skipn_app, L. replace (authority_end p + k - path_end p) with 0 by lia.
    cbn [skipn]. f_equal. rewrite skipn_add, skipn_firstn_comm. fold (slice (authority_end p) (path_end p) b).
    change (slice (authority_end p) (path_end p) b) with P. exact Hlk. }
  rewrite Hsuffix.
  assert (Hnq : forallb (fun c => negb (is_qh c)) (last_seg P) = true).
  { rewrite <- Hlk. apply forallb_skipn. apply (po_path_noqh _ _ Hok). }
  assert (Hkq : find_or_len is_qh (last_seg P ++ f) = length (last_seg P)).
  { destruct Hf as [->|Hf].
    - rewrite app_nil_r. apply find_or_len_all. exact Hnq.
    - destruct f as [|c t]; [discriminate|]. cbn [hd_is] in Hf. apply N.eqb_eq in Hf. subst c.
      apply find_or_len_app; [exact Hnq|reflexivity]. }
  rewrite Hkq, firstn_app_len.
  unfold has_dot_seg. rewrite (split_no_slash_single _ Hnsl). cbn [existsb]. rewrite Hlast. cbn [orb].
  assert (Hh : hd_is is_slash (last_seg P) = false).
  { destruct (last_seg P) as [|x t]; [reflexivity|]. unfold no_slash in Hnsl. cbn [forallb hd_is] in *.
    apply andb_true_iff in Hnsl as [Hx _]. apply negb_true_iff in Hx. exact Hx. }
  rewrite Hh.
  assert (Hg : (scheme_end p <? authority_end p) && Nat.eqb (authority_end p) (path_end p) = false).
  { destruct (Nat.ltb_spec (scheme_end p) (authority_end p)) as [Ha|Ha]; [|reflexivity].
    cbn [andb]. apply Nat.eqb_neq. intros E. apply (Hne Ha). destruct P; [reflexivity|]. simpl in HL. lia. }
  rewrite Hg. cbn [Nat.ltb Nat.leb].
  destruct (match last_seg P with [] => true | _ :: _ => false end || has_colon (first_seg (last_seg P))); discriminate.
Qed.

(* ================= round 4: equivalent-but-not-identical IRIs ================= *)
Lemma starts_with_lcp p s : starts_with p s = false -> lcp p s < length p.
Proof.
  revert s. induction p as [|x p IH]; intros s; [discriminate|].
  destruct s as [|y s]; simpl; [lia|].
  destruct (N.eqb x y); simpl; [intros H; apply IH in H; lia|lia].
Qed.

Lemma lcp_firstn_l a b k : lcp (firstn k a) b < k -> lcp a b = lcp (firstn k a) b.
Proof.
  revert a b. induction k as [|k IH]; intros a b; [lia|].
  destruct a as [|x a]; [reflexivity|]. destruct b as [|y b]; [reflexivity|]. simpl.
  destruct (N.eqb x y); [|reflexivity]. intros H. f_equal. apply IH. lia.
Qed.

Lemma new_pseudoroot_ge b n z p : new b n = Some z -> positions_of b = Some p ->
  authority_end p <= z_pseudoroot z.
Proof.
  intros Hnew Hpos.
  destruct (new_inv _ _ _ Hnew) as (p' & Hpos' & Hok & _ & _ & _ & _ & _ & Hsl).
  rewrite Hpos in Hpos'. injection Hpos' as <-.
  pose proof (po_ae_pe _ _ Hok). pose proof (po_pe_qe _ _ Hok). pose proof (po_qe_len _ _ Hok).
  cbv zeta in Hsl. rewrite (slashes_rel b (authority_end p) (path_end p)) in Hsl by lia.
  set (L := rel_loop (S n) (slice (authority_end p) (path_end p) b) (path_end p - authority_end p)) in *.
  rewrite map_length in Hsl.
  destruct (Nat.ltb_spec n (length L)) as [Hn|Hn].
  - injection Hsl as _ Hp. rewrite Hp. rewrite last_nth, map_length, nth_map_add by lia. lia.
  - destruct (hd_is is_slash (skipn (authority_end p) b)); injection Hsl as _ Hp; rewrite Hp; lia.
Qed.

Theorem relativize_root_differs_none b n i : shares_root b i = false -> relativize b n i = Ret None.
Proof.
  unfold shares_root, relativize. intros Hs.
  destruct (new b n) as [z|] eqn:Hnew; [|reflexivity].
  destruct (new_inv _ _ _ Hnew) as (p & Hpos & Hok & Hb & Hqe & Hpe & Hpb & Hha & _).
  rewrite Hpos in Hs.
  pose proof (new_pseudoroot_ge _ _ _ _ Hnew Hpos) as Hpr.
  pose proof (po_ae_pe _ _ Hok). pose proof (po_pe_qe _ _ Hok). pose proof (po_qe_len _ _ Hok).
  assert (Hl : lcp b i < authority_end p).
  { apply starts_with_lcp in Hs. rewrite firstn_length, Nat.min_l in Hs by lia.
    rewrite (lcp_firstn_l b i (authority_end p)); assumption. }
  unfold relativize_z. rewrite Hb, Hqe, Hpe.
  destruct (Nat.leb_spec (query_end p) (lcp b i)); [lia|].
  destruct (Nat.leb_spec (path_end p) (lcp b i)); [lia|].
  destruct (Nat.leb_spec (z_pseudoroot z) (lcp b i)); [lia|]. reflexivity.
Qed.

Corollary relativize_some_shares_root b n i r : relativize b n i = Ret (Some r) -> shares_root b i = true.
Proof.
  intros H. destruct (shares_root b i) eqn:E; [reflexivity|].
  rewrite (relativize_root_differs_none b n i E) in H. discriminate.
Qed.

Lemma starts_with_firstn_eq p s : starts_with p s = true -> firstn (length p) s = p.
Proof.
  revert s. induction p as [|x p IH]; intros s; [reflexivity|].
  destruct s as [|y s]; [discriminate|]. simpl.
  destruct (N.eqb_spec x y); [|discriminate]. subst. intros H. f_equal. apply IH. exact H.
Qed.

(* the schemes differ in any way (for instance in letter case only): nothing is returned *)
Theorem relativize_scheme_differs_none b n i p :
  positions_of b = Some p -> firstn (scheme_end p) i <> firstn (scheme_end p) b -> relativize b n i = Ret None.
Proof.
  intros Hpos Hne. apply relativize_root_differs_none. unfold shares_root. rewrite Hpos.
  destruct (starts_with (firstn (authority_end p) b) i) eqn:E; [|reflexivity].
  exfalso. apply Hne. pose proof (positions_ok _ _ Hpos) as Hok.
  pose proof (po_ae_pe _ _ Hok). pose proof (po_pe_qe _ _ Hok). pose proof (po_qe_len _ _ Hok).
  assert (scheme_end p <= authority_end p) by (destruct (po_se_ae _ _ Hok); lia).
  apply starts_with_firstn_eq in E. rewrite firstn_length, Nat.min_l in E by lia.
  rewrite <- (firstn_firstn_le i (scheme_end p) (authority_end p)) by lia. rewrite E.
  apply firstn_firstn_le. lia.
Qed.

(* same for the authority *)
Theorem relativize_authority_differs_none b n i p :
  positions_of b = Some p -> firstn (authority_end p) i <> firstn (authority_end p) b -> relativize b n i = Ret None.
Proof.
  intros Hpos Hne. apply relativize_root_differs_none. unfold shares_root. rewrite Hpos.
  destruct (starts_with (firstn (authority_end p) b) i) eqn:E; [|reflexivity].
  exfalso. apply Hne. pose proof (positions_ok _ _ Hpos) as Hok.
  pose proof (po_ae_pe _ _ Hok). pose proof (po_pe_qe _ _ Hok). pose proof (po_qe_len _ _ Hok).
  apply starts_with_firstn_eq in E. rewrite firstn_length, Nat.min_l in E by lia. exact E.
Qed.

(* ================= the components of the base (oxiri accessors) recompose to the base ================= *)
Lemma positions_auth_slashes b p : positions_of b = Some p -> scheme_end p + 2 <= authority_end p ->
  skipn (scheme_end p) b = c_slash :: c_slash :: skipn (scheme_end p + 2) b.
Proof.
  unfold positions_of. destruct (scheme_len b) as [k|]; [|discriminate]. cbv zeta.
  destruct (strip_prefix [c_slash; c_slash] (skipn (S k) b)) as [rest|] eqn:E;
    intros [= <-]; unfold scheme_end, authority_end; [|lia].
  intros _. apply strip_prefix_some in E. rewrite skipn_add, E. reflexivity.
Qed.

Lemma slice_split a m c (s : str) : a <= m -> m <= c -> slice a c s = slice a m s ++ slice m c s.
Proof.
  intros H1 H2. unfold slice. replace (c - a) with ((m - a) + (c - m)) by lia.
  rewrite firstn_add. f_equal. rewrite <- skipn_add. replace (a + (m - a)) with m by lia. reflexivity.
Qed.

Lemma slice_cons a c (s : str) x t : a < c -> skipn a s = x :: t -> slice a c s = x :: slice (S a) c s.
Proof.
  intros H E. unfold slice. rewrite E. replace (c - a) with (S (c - S a)) by lia. cbn [firstn]. f_equal.
  replace (S a) with (a + 1) by lia. rewrite skipn_add, E. reflexivity.
Qed.

Theorem components_recompose b p : positions_of b = Some p -> ox_recompose b p = b.
Proof.
  intros Hpos. pose proof (positions_ok _ _ Hpos) as Hok.
  pose proof (po_se_pos _ _ Hok) as H1. pose proof (po_ae_pe _ _ Hok) as H3.
  pose proof (po_pe_qe _ _ Hok) as H4. pose proof (po_qe_len _ _ Hok) as H5.
  assert (H2 : scheme_end p <= authority_end p) by (destruct (po_se_ae _ _ Hok); lia).
  unfold ox_recompose, recompose. cbn [p_scheme p_auth p_path p_query p_frag].
  (* b cut at the four offsets *)
  assert (Hb : b = firstn (scheme_end p) b ++ slice (scheme_end p) (authority_end p) b
                   ++ slice (authority_end p) (path_end p) b ++ slice (path_end p) (query_end p) b
                   ++ skipn (query_end p) b).
  { rewrite <- (firstn_skipn (scheme_end p) b) at 1. f_equal.
    rewrite <- (firstn_skipn (authority_end p - scheme_end p) (skipn (scheme_end p) b)) at 1. f_equal.
    rewrite <- skipn_add. replace (scheme_end p + (authority_end p - scheme_end p)) with (authority_end p) by lia.
    rewrite <- (firstn_skipn (path_end p - authority_end p) (skipn (authority_end p) b)) at 1. f_equal.
    rewrite <- skipn_add. replace (authority_end p + (path_end p - authority_end p)) with (path_end p) by lia.
    rewrite <- (firstn_skipn (query_end p - path_end p) (skipn (path_end p) b)) at 1. f_equal.
    rewrite <- skipn_add. f_equal. lia. }
  etransitivity; [|symmetry; exact Hb]. clear Hb.
  apply (f_equal2 (@app N)); [|apply (f_equal2 (@app N)); [|apply (f_equal2 (@app N)); [|apply (f_equal2 (@app N))]]].
  - (* scheme ':' *)
    unfold ox_scheme. pose proof (positions_colon _ _ Hpos) as Hc.
    rewrite <- (firstn_S_nth b _ _ Hc). f_equal. lia.
  - (* authority *)
    unfold ox_authority. destruct (Nat.ltb_spec (authority_end p) (scheme_end p + 2)) as [Hlt|Hge].
    + assert (authority_end p = scheme_end p) as -> by (destruct (po_se_ae _ _ Hok); lia).
      unfold slice. rewrite Nat.sub_diag. reflexivity.
    + pose proof (positions_auth_slashes _ _ Hpos Hge) as Hs.
      rewrite (slice_cons (scheme_end p) (authority_end p) b _ _ ltac:(lia) Hs).
      assert (Hs' : skipn (S (scheme_end p)) b = c_slash :: skipn (scheme_end p + 2) b).
      { replace (S (scheme_end p)) with (scheme_end p + 1) by lia. rewrite skipn_add, Hs. reflexivity. }
      rewrite (slice_cons (S (scheme_end p)) (authority_end p) b _ _ ltac:(lia) Hs'). cbn [app]. do 2 f_equal. f_equal. lia.
  - reflexivity.
  - (* query *)
    unfold ox_query. pose proof (po_qe _ _ Hok) as Hq.
    destruct (Nat.ltb_spec (path_end p) (query_end p)) as [Hlt|Hge].
    + destruct (skipn (path_end p) b) as [|c rest] eqn:E; [lia|].
      destruct (N.eqb_spec c c_qm) as [->|]; [|lia].
      rewrite (slice_cons _ _ _ _ _ Hlt E). do 2 f_equal. lia.
    + assert (query_end p = path_end p) as -> by lia. unfold slice. rewrite Nat.sub_diag. reflexivity.
  - (* fragment *)
    unfold ox_fragment. destruct (Nat.ltb_spec (query_end p) (length b)) as [Hlt|Hge].
    + destruct (po_after_query _ _ Hok) as [E|E].
      * apply (f_equal (@length N)) in E. rewrite skipn_length in E. simpl in E. lia.
      * destruct (skipn (query_end p) b) as [|c t] eqn:F; [discriminate|]. cbn [hd_is] in E.
        apply N.eqb_eq in E. subst c. f_equal.
        replace (query_end p + 1) with (query_end p + 1) by lia. rewrite skipn_add, F. reflexivity.
    + rewrite skipn_all2 by lia. reflexivity.
Qed.
