(* C08/MessagesProofs.v -- cutting an error message at a byte offset: the cut panics exactly when the offset is
   inside a character, and the padded long tokens of the harness's error stream reach every offset. *)
From Sophia.Common Require Import Prelude Term.
From Sophia.C08 Require Import Utf8 Utf8Proofs Messages.

Ltac Zify.zify_post_hook ::= Z.to_euclidean_division_equations.

(* ---- inside a character ---- *)
Theorem utf8_1_tail_all_cont : forall c, scalar c = true -> forallb cont (tl (utf8_1 c)) = true.
Proof.
  intros c Hs. pose proof (scalar_lt c Hs) as Hlt. unfold utf8_1.
  destruct (c <? 128) eqn:E1; [reflexivity|]. apply N.ltb_ge in E1.
  destruct (c <? 2048) eqn:E2.
  { cbn [tl forallb]. rewrite andb_true_r. unfold cont. apply andb_true_iff.
    split; [apply N.leb_le|apply N.ltb_lt]; lia. }
  destruct (c <? 65536) eqn:E3.
  { cbn [tl forallb]. rewrite andb_true_r. unfold cont.
    repeat (apply andb_true_iff; split); first [apply N.leb_le; lia|apply N.ltb_lt; lia]. }
  cbn [tl forallb]. rewrite andb_true_r. unfold cont.
  repeat (apply andb_true_iff; split); first [apply N.leb_le; lia|apply N.ltb_lt; lia].
Qed.

Lemma utf8_1_nth_cont c j x :
  scalar c = true -> (0 < j)%nat -> nth_error (utf8_1 c) j = Some x -> cont x = true.
Proof.
  intros Hs Hj Hn. pose proof (utf8_1_tail_all_cont c Hs) as Ht.
  destruct (utf8_1 c) as [|y r]; [destruct j; discriminate|].
  destruct j as [|j]; [lia|]. cbn [nth_error] in Hn. cbn [tl] in Ht.
  apply nth_error_In in Hn. rewrite forallb_forall in Ht. apply Ht. exact Hn.
Qed.

Theorem inside_char_not_boundary : forall s c t j,
  scalar_str s = true -> scalar c = true -> (0 < j)%nat -> (j < length (utf8_1 c))%nat ->
  is_boundary (utf8 s ++ utf8_1 c ++ t) (length (utf8 s) + j) = false.
Proof.
  intros s c t j Hs Hc Hj Hlt. unfold is_boundary.
  destruct (length (utf8 s) + j)%nat as [|i] eqn:Ei; [lia|]. rewrite <- Ei.
  replace (Nat.eqb (length (utf8 s) + j) (length (utf8 s ++ utf8_1 c ++ t))) with false.
  2:{ symmetry. apply Nat.eqb_neq. rewrite !app_length. lia. }
  rewrite nth_error_app2 by lia.
  replace (length (utf8 s) + j - length (utf8 s))%nat with j by lia.
  rewrite nth_error_app1 by exact Hlt.
  destruct (nth_error (utf8_1 c) j) as [x|] eqn:En.
  - rewrite (utf8_1_nth_cont c j x Hc Hj En). reflexivity.
  - reflexivity.
Qed.

(* ---- String::truncate ---- *)
Theorem truncate_none_iff : forall b n, truncate b n = None <-> (n <= length b)%nat /\ is_boundary b n = false.
Proof.
  intros b n. unfold truncate. destruct (Nat.ltb (length b) n) eqn:E.
  - apply Nat.ltb_lt in E. split; [discriminate|]. intros [H _]. lia.
  - apply Nat.ltb_ge in E. destruct (is_boundary b n); split.
    + discriminate.
    + intros [_ H]. discriminate.
    + intros _. split; [exact E|reflexivity].
    + reflexivity.
Qed.

Theorem truncate_some_prefix : forall b n b', truncate b n = Some b' -> b' = firstn n b.
Proof.
  intros b n b'. unfold truncate. destruct (Nat.ltb (length b) n) eqn:E.
  - apply Nat.ltb_lt in E. intros H. injection H as <-. symmetry. apply firstn_all2. lia.
  - destruct (is_boundary b n); [|discriminate]. intros H. injection H as <-. reflexivity.
Qed.

Theorem truncate_inside_char_panics : forall s c t j,
  scalar_str s = true -> scalar c = true -> (0 < j)%nat -> (j < length (utf8_1 c))%nat ->
  truncate (utf8 s ++ utf8_1 c ++ t) (length (utf8 s) + j) = None.
Proof.
  intros s c t j Hs Hc Hj Hlt. apply truncate_none_iff. split.
  - rewrite !app_length. lia.
  - apply inside_char_not_boundary; assumption.
Qed.

Theorem truncate_at_char_end_ok : forall s t,
  scalar_str s = true -> scalar_str t = true -> truncate (utf8 s ++ utf8 t) (length (utf8 s)) = Some (utf8 s).
Proof.
  intros s t Hs Ht. unfold truncate.
  replace (Nat.ltb (length (utf8 s ++ utf8 t)) (length (utf8 s))) with false.
  2:{ symmetry. apply Nat.ltb_ge. rewrite app_length. lia. }
  rewrite (boundary_after_prefix s t Hs Ht).
  rewrite firstn_app, Nat.sub_diag, firstn_all. cbn [firstn]. rewrite app_nil_r. reflexivity.
Qed.

(* ---- the padded long tokens ---- *)
Lemma scalar_str_repeat c n : scalar c = true -> scalar_str (repeat c n) = true.
Proof.
  intros H. induction n as [|n IH]; [reflexivity|].
  cbn [repeat scalar_str forallb]. rewrite H. exact IH.
Qed.

Lemma scalar_str_app a b : scalar_str (a ++ b) = scalar_str a && scalar_str b.
Proof. unfold scalar_str. apply forallb_app. Qed.

Lemma utf8_repeat_length c n : length (utf8 (repeat c n)) = (length (utf8_1 c) * n)%nat.
Proof.
  induction n as [|n IH]; [cbn [repeat utf8 flat_map length]; lia|].
  cbn [repeat]. rewrite utf8_cons, app_length, IH. lia.
Qed.

Lemma utf8_1_ascii c : c < 128 -> utf8_1 c = [c].
Proof. intros H. unfold utf8_1. replace (c <? 128) with true by tt. reflexivity. Qed.

Theorem utf8_1_length_le_4 : forall c, (1 <= length (utf8_1 c) <= 4)%nat.
Proof.
  intros c. unfold utf8_1.
  destruct (c <? 128); [cbn [length]; lia|].
  destruct (c <? 2048); [cbn [length]; lia|].
  destruct (c <? 65536); cbn [length]; lia.
Qed.

Theorem pads_cover_every_cut : forall s c reps n t,
  scalar_str s = true -> scalar c = true -> (2 <= length (utf8_1 c))%nat ->
  (length (utf8 s) < n)%nat -> (n <= length (utf8 s) + length (utf8_1 c) * reps)%nat ->
  exists pad, (pad < length (utf8_1 c))%nat /\ truncate (utf8 (s ++ filler pad c reps) ++ t) n = None.
Proof.
  intros s c reps n t Hs Hc Hk Hlo Hhi.
  remember (length (utf8_1 c)) as k eqn:Ek.
  remember (length (utf8 s)) as L eqn:EL.
  set (m := (n - L)%nat).
  set (pad := ((m - 1) mod k)%nat).
  set (q := ((m - 1) / k)%nat).
  assert (Hk0 : k <> 0%nat) by lia.
  assert (Hdm : (m - 1 = k * q + pad)%nat) by (apply Nat.div_mod; exact Hk0).
  assert (Hpad : (pad < k)%nat) by (apply Nat.mod_upper_bound; exact Hk0).
  assert (Hq : (q < reps)%nat).
  { apply Nat.div_lt_upper_bound; [exact Hk0|]. unfold m. lia. }
  exists pad. split; [exact Hpad|].
  unfold filler.
  replace reps with (q + S (reps - q - 1))%nat by lia.
  rewrite repeat_app. cbn [repeat].
  set (rest := repeat c (reps - q - 1)).
  replace (s ++ repeat 97 pad ++ repeat c q ++ c :: rest)
    with ((s ++ repeat 97 pad ++ repeat c q) ++ c :: rest)
    by (rewrite <- !app_assoc; reflexivity).
  rewrite utf8_app, utf8_cons, <- !app_assoc.
  assert (Hlen : length (utf8 (s ++ repeat 97 pad ++ repeat c q)) = (L + pad + k * q)%nat).
  { rewrite !utf8_app, !app_length, !utf8_repeat_length, <- EL, <- Ek.
    rewrite (utf8_1_ascii 97) by lia. cbn [length]. lia. }
  replace n with (Nat.add (length (utf8 (s ++ repeat 97 pad ++ repeat c q))) 1)
    by (rewrite Hlen; unfold m in Hdm; lia).
  apply truncate_inside_char_panics.
  - rewrite !scalar_str_app, Hs, !scalar_str_repeat; [reflexivity|exact Hc|reflexivity].
  - exact Hc.
  - lia.
  - lia.
Qed.

(* ---- the checkers ---- *)
Theorem family_covers_sound : forall msgs lo hi,
  family_covers msgs lo hi = true ->
  forall n, (lo <= n)%nat -> (n < hi)%nat -> exists m, In m msgs /\ truncate m n = None.
Proof.
  intros msgs lo hi H n Hlo Hhi. unfold family_covers in H. rewrite forallb_forall in H.
  assert (Hin : In n (seq lo (hi - lo))) by (apply in_seq; lia).
  specialize (H n Hin). apply existsb_exists in H as [m [Hm Ht]].
  exists m. split; [exact Hm|]. destruct (truncate m n); [discriminate|reflexivity].
Qed.

Theorem msg_ok_sound : forall bytes cps lo hi nb,
  msg_ok bytes cps lo hi nb = true -> utf8 cps = bytes /\ scalar_str cps = true.
Proof.
  intros bytes cps lo hi nb H. unfold msg_ok in H. apply andb_true_iff in H as [H _].
  destruct (utf8_dec bytes) as [s|] eqn:E; [|discriminate].
  apply str_eqb_eq in H. subst s. apply utf8_dec_sound. exact E.
Qed.

(* the offsets listed by an accepted check are exactly the non-boundaries of the range *)
Theorem msg_ok_offsets : forall bytes cps lo hi nb,
  msg_ok bytes cps lo hi nb = true ->
  forall n, (lo <= n)%nat -> (n < hi)%nat -> (In (N.of_nat n) nb <-> is_boundary bytes n = false).
Proof.
  intros bytes cps lo hi nb H n Hlo Hhi. unfold msg_ok in H. apply andb_true_iff in H as [_ H].
  apply (list_eqb_spec N.eqb N.eqb_eq) in H. subst nb. rewrite in_map_iff. split.
  - intros [i [Ei Hi]]. apply Nat2N.inj in Ei. subst i. apply filter_In in Hi as [_ Hi].
    apply negb_true_iff in Hi. exact Hi.
  - intros Hb. exists n. split; [reflexivity|]. apply filter_In. split; [apply in_seq; lia|].
    rewrite Hb. reflexivity.
Qed.

(* non-vacuity: an 89-byte ASCII prefix followed by 150 times U+00E9 (2 bytes), 100 times U+20AC (3 bytes),
   80 times U+1F600 (4 bytes), with the paddings 0..3 *)
Example messages_examples :
  truncate (utf8 (repeat 120 89 ++ filler 1 233 150)) 197 = None
  /\ truncate (utf8 (repeat 120 89 ++ filler 0 233 150)) 198 = None
  /\ truncate (utf8 (repeat 120 89 ++ filler 0 233 150)) 197
     = Some (firstn 197 (utf8 (repeat 120 89 ++ filler 0 233 150)))
  /\ truncate (utf8 (repeat 120 89 ++ filler 1 233 150)) 1000 = Some (utf8 (repeat 120 89 ++ filler 1 233 150))
  /\ family_covers (map (fun pad => utf8 (repeat 120 89 ++ filler pad 233 150)) [0; 1; 2; 3]%nat) 93 380 = true
  /\ family_covers [utf8 (repeat 120 89 ++ filler 0 233 150)] 93 380 = false
  /\ truncate (utf8 (repeat 120 89 ++ filler 0 8364 100)) 197
     = Some (firstn 197 (utf8 (repeat 120 89 ++ filler 0 8364 100)))
  /\ truncate (utf8 (repeat 120 89 ++ filler 1 8364 100)) 197 = None
  /\ truncate (utf8 (repeat 120 89 ++ filler 2 8364 100)) 197 = None
  /\ family_covers (map (fun pad => utf8 (repeat 120 89 ++ filler pad 8364 100)) [0; 1; 2; 3]%nat) 93 380 = true
  /\ truncate (utf8 (repeat 120 89 ++ filler 0 128512 80)) 197
     = Some (firstn 197 (utf8 (repeat 120 89 ++ filler 0 128512 80)))
  /\ truncate (utf8 (repeat 120 89 ++ filler 3 128512 80)) 197 = None
  /\ family_covers (map (fun pad => utf8 (repeat 120 89 ++ filler pad 128512 80)) [0; 1; 2; 3]%nat) 93 380 = true
  /\ family_covers [utf8 (repeat 120 89 ++ filler 0 128512 80)] 93 380 = false
  /\ msg_ok (utf8 (repeat 120 3 ++ filler 1 233 2)) [120; 120; 120; 97; 233; 233] 0 9 [5; 7] = true
  /\ (2 <= length (utf8_1 233))%nat /\ scalar 233 = true /\ scalar_str (repeat 120 89) = true.
Proof. repeat split; vm_compute; try reflexivity; lia. Qed.
