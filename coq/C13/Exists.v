(* C13/Exists.v -- FILTER [NOT] EXISTS / EXISTS in BIND: the Exists arm of ArcExpression::eval
   (sparql/src/expression.rs), which Model.v leaves outside ([exprlib] only sees Binding.v):

       Exists(graph_pattern) => {
           let mut exec_state = ExecState::from(Arc::clone(config));
           let res = exec_state.select(graph_pattern, graph_matcher, Some(binding));
           Some(match res { Ok(mut bindings) => bindings.iter.next().is_some(), Err(_) => false }.into())
       }

   i.e. the group is evaluated by the SAME select, on the ACTIVE graph (the graph matcher the
   enclosing FILTER / BIND closure captured), started from the WHOLE current solution (variables
   and blank node placeholders), and an error of the group (an unsupported operator, a BIND that
   overrides) is turned into `false`.  Expressions and patterns are therefore mutually recursive:
   [wexpr] is Eval.v's [cexpr] plus [WExists], [wpat] is Model.v's [pattern] over it, and
   [weval] / [wselect] transcribe ArcExpression::eval / ExecState::select once more, together.
   The other arms are literally those of Eval.ceval and Model.select (proved equal on the common
   fragment in ExistsProofs.v: wselect_embed).

   Also: SPARQL 1.1 section 18.6 "substitute(pattern, mu)" written syntactically ([subst_pat]),
   so that the specification of EXISTS is the one of Model.v:  exists_spec D g p mu :=
   spec D (substitute p mu) g is not empty.   Definitions only. *)
From Sophia.C13 Require Import Model NumModel Eval.

Inductive wexpr :=
| WVar (v : str)
| WConst (t : term)
| WBound (v : str)
| WNot (e : wexpr)
| WOr (a b : wexpr) | WAnd (a b : wexpr)
| WEqual (a b : wexpr) | WSameTerm (a b : wexpr)
| WGreater (a b : wexpr) | WGreaterOrEqual (a b : wexpr) | WLess (a b : wexpr) | WLessOrEqual (a b : wexpr)
| WAdd (a b : wexpr) | WSubtract (a b : wexpr) | WMultiply (a b : wexpr)
| WUnaryPlus (e : wexpr) | WUnaryMinus (e : wexpr)
| WAbs (e : wexpr)
| WExists (p : wpat)
with wpat :=
| WBgp (ps : list tp3)
| WFilter (e : wexpr) (inner : wpat)
| WUnion (l r : wpat)
| WGraph (name : npat) (inner : wpat)
| WExtend (inner : wpat) (v : str) (e : wexpr)
| WOrderBy (inner : wpat) (n : nat)           (* the order is C14: the identity permutation *)
| WProject (inner : wpat) (vs : list str)
| WDistinct (inner : wpat)
| WSlice (inner : wpat) (start : nat) (len : option nat)
| WUnsup (k : ukind).

(* FILTER: arc_expr.eval(b, ..).and_then(|e| e.is_truthy()).unwrap_or(false) *)
Definition wkeep (r : option cval) : bool :=
  match r with
  | Some v => match c_is_truthy v with Some true => true | _ => false end
  | None => false
  end.
(* BIND: if let Some(val) = arc_expr.eval(&b, ..) { b.v.insert(varkey, val.into_term()) } *)
Definition wextend_row (v : str) (r : option cval) (b : binding) : binding :=
  match r with
  | Some val => set (AV v) (c_into_term val) b
  | None => b
  end.
Definition nonempty {A} (l : list A) : bool := match l with [] => false | _ :: _ => true end.

Section WEngine.
Variable qm : matcher3 -> list (option term) -> list triple.
Variable gnames : list term.

Fixpoint weval (e : wexpr) (b : binding) (gm : list (option term)) {struct e} : option cval :=
  match e with
  | WVar v => option_map VTerm (lookup v (bv b))
  | WConst t => Some (VTerm t)
  | WBound v => Some (vbool (match lookup v (bv b) with Some _ => true | None => false end))
  | WNot a => match weval a b gm with
              | Some x => option_map (fun t => vbool (negb t)) (c_is_truthy x)
              | None => None
              end
  | WOr x y =>
      match (match weval x b gm with Some u => c_is_truthy u | None => None end),
            (match weval y b gm with Some u => c_is_truthy u | None => None end) with
      | Some p, Some q => Some (vbool (p || q))
      | Some true, None | None, Some true => Some (vbool true)
      | _, _ => None
      end
  | WAnd x y =>
      match (match weval x b gm with Some u => c_is_truthy u | None => None end),
            (match weval y b gm with Some u => c_is_truthy u | None => None end) with
      | Some p, Some q => Some (vbool (p && q))
      | Some false, None | None, Some false => Some (vbool false)
      | _, _ => None
      end
  | WEqual x y =>
      match weval x b gm, weval y b gm with
      | Some u, Some w => option_map vbool (c_eq u w)
      | _, _ => None
      end
  | WSameTerm x y =>
      match weval x b gm, weval y b gm with
      | Some u, Some w => Some (vbool (teq (c_into_term u) (c_into_term w)))
      | _, _ => None
      end
  | WGreater x y => cmp_with (fun o => match o with Gt => true | _ => false end) (weval x b gm) (weval y b gm)
  | WGreaterOrEqual x y => cmp_with (fun o => match o with Lt => false | _ => true end) (weval x b gm) (weval y b gm)
  | WLess x y => cmp_with (fun o => match o with Lt => true | _ => false end) (weval x b gm) (weval y b gm)
  | WLessOrEqual x y => cmp_with (fun o => match o with Gt => false | _ => true end) (weval x b gm) (weval y b gm)
  | WAdd x y => arith (add trivF) (weval x b gm) (weval y b gm)
  | WSubtract x y => arith (sub trivF) (weval x b gm) (weval y b gm)
  | WMultiply x y => arith (mul trivF) (weval x b gm) (weval y b gm)
  | WUnaryPlus a => match weval a b gm with
                    | Some x => option_map (fun n => VVal (SNum n)) (as_number x)
                    | None => None
                    end
  | WUnaryMinus a => match weval a b gm with
                     | Some x => match as_number x with
                                 | Some n => option_map (fun r => VVal (SNum r)) (neg trivF n)
                                 | None => None
                                 end
                     | None => None
                     end
  | WAbs a => match weval a b gm with
              | Some x => option_map (fun n => VVal (SNum (abs trivF n))) (as_number x)
              | None => None
              end
  (* the group, on the active graph, from the whole current solution; an error is `false` *)
  | WExists p => Some (vbool (match wselect p gm (Some b) with
                              | Ok _ rows => nonempty rows
                              | Err _ => false
                              end))
  end
with wselect (p : wpat) (gm : list (option term)) (binding : option binding) {struct p} : result :=
  match p with
  | WBgp ps => bgp qm ps gm binding
  | WFilter e inner =>
      match wselect inner gm binding with
      | Err x => Err x
      | Ok vs rows => Ok vs (filter (fun b => wkeep (weval e b gm)) rows)
      end
  | WUnion l r =>
      match wselect l gm binding with
      | Err x => Err x
      | Ok lv li =>
          match wselect r gm binding with
          | Err x => Err x
          | Ok rv ri => Ok (lv ++ filter (fun v => negb (memb str_eqb v lv)) rv) (li ++ ri)
          end
      end
  | WGraph name inner => graph gnames (wselect inner) name binding
  | WExtend inner v e =>
      match wselect inner gm binding with
      | Err x => Err x
      | Ok vs rows =>
          if memb str_eqb v vs then Err (Override v)
          else Ok (vs ++ [v]) (map (fun b => wextend_row v (weval e b gm) b) rows)
      end
  | WOrderBy inner _ => wselect inner gm binding
  | WProject inner vs' =>
      match wselect inner gm binding with
      | Err x => Err x
      | Ok _ rows => Ok vs' (map (restrict_row vs') rows)
      end
  | WDistinct inner =>
      match wselect inner gm binding with
      | Err x => Err x
      | Ok vs rows => Ok vs (dedup_rows vs [] rows)
      end
  | WSlice inner start len =>
      match wselect inner gm binding with
      | Err x => Err x
      | Ok vs rows => Ok vs (slice start len rows)
      end
  | WUnsup k => Err (NotImplemented k)
  end.
End WEngine.

(* ---------- wrapper.rs: SELECT and ASK (the other forms have no expression) ---------- *)
Inductive wquery :=
| WSelect (ds : option dsclause) (p : wpat)
| WAsk (ds : option dsclause) (p : wpat).
Definition wbindings_of (D : dataset) (q : wquery) : sum err (list str * list binding) :=
  match q with
  | WSelect ds p | WAsk ds p =>
      match default_matcher ds with
      | None => inl NotImplementedFromNamed
      | Some gm => match wselect (ds_qm D) (ds_names D) p gm None with
                   | Ok vs rows => inr (vs, rows)
                   | Err e => inl e
                   end
      end
  end.
Definition wrun_query (D : dataset) (q : wquery) : answer :=
  match wbindings_of D q with
  | inl e => AErr e
  | inr (vs, rows) =>
      match q with
      | WSelect _ _ => ARows vs (rows_of vs rows)
      | WAsk _ _ => ABool (nonempty rows)
      end
  end.
(* the checker of the generated cases (as Eval.query_ok) *)
Definition wquery_ok (D : dataset) (q : wquery) (o : observed) : bool :=
  match o, q with
  | ORows evs erows in_order, WSelect _ _ =>
      match wbindings_of D q with
      | inr (mvs, mrows) =>
          same_set evs mvs &&
          (let rows := rows_of evs mrows in
           if in_order then list_eqb row_eqb erows rows else permb erows rows)
      | inl _ => false
      end
  | OBool b, WAsk _ _ =>
      match wrun_query D q with ABool b' => Bool.eqb b b' | _ => false end
  | OErr e, _ =>
      match wrun_query D q with AErr e' => err_eqb e e' | _ => false end
  | _, _ => false
  end.

(* ---------- the common fragment: Eval.cexpr / Model.pattern CL inside wexpr / wpat ---------- *)
Fixpoint embed_e (e : cexpr) : wexpr :=
  match e with
  | CVar v => WVar v | CConst t => WConst t | CBound v => WBound v
  | CNot a => WNot (embed_e a)
  | COr a b => WOr (embed_e a) (embed_e b) | CAnd a b => WAnd (embed_e a) (embed_e b)
  | CEqual a b => WEqual (embed_e a) (embed_e b) | CSameTerm a b => WSameTerm (embed_e a) (embed_e b)
  | CGreater a b => WGreater (embed_e a) (embed_e b)
  | CGreaterOrEqual a b => WGreaterOrEqual (embed_e a) (embed_e b)
  | CLess a b => WLess (embed_e a) (embed_e b) | CLessOrEqual a b => WLessOrEqual (embed_e a) (embed_e b)
  | CAdd a b => WAdd (embed_e a) (embed_e b) | CSubtract a b => WSubtract (embed_e a) (embed_e b)
  | CMultiply a b => WMultiply (embed_e a) (embed_e b)
  | CUnaryPlus a => WUnaryPlus (embed_e a) | CUnaryMinus a => WUnaryMinus (embed_e a)
  | CAbs a => WAbs (embed_e a)
  end.
Fixpoint embed_p (p : cpattern) : wpat :=
  match p with
  | Bgp ps => WBgp ps
  | Filter e i => WFilter (embed_e e) (embed_p i)
  | Union l r => WUnion (embed_p l) (embed_p r)
  | Graph n i => WGraph n (embed_p i)
  | Extend i v e => WExtend (embed_p i) v (embed_e e)
  | OrderBy i c => WOrderBy (embed_p i) (length c)
  | Project i vs => WProject (embed_p i) vs
  | Distinct i => WDistinct (embed_p i)
  | Slice i s l => WSlice (embed_p i) s l
  | Unsup k => WUnsup k
  end.

(* ---------- group patterns: what an EXISTS group is made of (no sub-select) ---------- *)
Fixpoint group_e (e : wexpr) : bool :=
  match e with
  | WVar _ | WConst _ | WBound _ => true
  | WNot a | WUnaryPlus a | WUnaryMinus a | WAbs a => group_e a
  | WOr a b | WAnd a b | WEqual a b | WSameTerm a b | WGreater a b | WGreaterOrEqual a b
  | WLess a b | WLessOrEqual a b | WAdd a b | WSubtract a b | WMultiply a b => group_e a && group_e b
  | WExists p => group_p p
  end
with group_p (p : wpat) : bool :=
  match p with
  | WBgp _ => true
  | WFilter e i => group_e e && group_p i
  | WUnion l r => group_p l && group_p r
  | WGraph _ i => group_p i
  | WExtend i _ e => group_p i && group_e e
  | WOrderBy i _ | WDistinct i | WSlice i _ _ => group_p i
  | WProject _ _ => false
  | WUnsup _ => true
  end.

(* ---------- 18.6: substitute(pattern, mu) on the common fragment ---------- *)
Fixpoint subst_tp (mu : amap) (p : tpat) : tpat :=
  match p with
  | PAtom (AV v) => match lookup v mu with Some t => PConst t | None => p end
  | PTrip s p' o => PTrip (subst_tp mu s) (subst_tp mu p') (subst_tp mu o)
  | _ => p
  end.
Definition subst_tp3 (mu : amap) (tp : tp3) : tp3 :=
  let '(s, p, o) := tp in (subst_tp mu s, subst_tp mu p, subst_tp mu o).
Fixpoint subst_e (mu : amap) (e : cexpr) : cexpr :=
  match e with
  | CVar v => match lookup v mu with Some t => CConst t | None => e end
  | CConst _ | CBound _ => e
  | CNot a => CNot (subst_e mu a)
  | COr a b => COr (subst_e mu a) (subst_e mu b) | CAnd a b => CAnd (subst_e mu a) (subst_e mu b)
  | CEqual a b => CEqual (subst_e mu a) (subst_e mu b)
  | CSameTerm a b => CSameTerm (subst_e mu a) (subst_e mu b)
  | CGreater a b => CGreater (subst_e mu a) (subst_e mu b)
  | CGreaterOrEqual a b => CGreaterOrEqual (subst_e mu a) (subst_e mu b)
  | CLess a b => CLess (subst_e mu a) (subst_e mu b)
  | CLessOrEqual a b => CLessOrEqual (subst_e mu a) (subst_e mu b)
  | CAdd a b => CAdd (subst_e mu a) (subst_e mu b)
  | CSubtract a b => CSubtract (subst_e mu a) (subst_e mu b)
  | CMultiply a b => CMultiply (subst_e mu a) (subst_e mu b)
  | CUnaryPlus a => CUnaryPlus (subst_e mu a) | CUnaryMinus a => CUnaryMinus (subst_e mu a)
  | CAbs a => CAbs (subst_e mu a)
  end.
Fixpoint subst_p (mu : amap) (p : cpattern) : cpattern :=
  match p with
  | Bgp ps => Bgp (map (subst_tp3 mu) ps)
  | Filter e i => cFilter (subst_e mu e) (subst_p mu i)
  | Union l r => Union (subst_p mu l) (subst_p mu r)
  | Graph (NVar v) i =>
      match lookup v mu with
      | Some (Iri n) => Graph (NConst n) (subst_p mu i)
      | _ => Graph (NVar v) (subst_p mu i)
      end
  | Graph (NConst n) i => Graph (NConst n) (subst_p mu i)
  | Extend i v e => cExtend (subst_p mu i) v (subst_e mu e)
  | _ => p                                     (* sub-selects: outside [sgroup] below *)
  end.

(* The groups for which ExistsProofs.v proves "EXISTS = 18.6": BGP, FILTER, UNION, GRAPH, BIND
   (no sub-select, no nested EXISTS), such that substitute(group, mu) is a pattern again:
   no BIND target and no BOUND argument is a variable of mu (BIND(e AS <term>) and BOUND(<term>)
   are not SPARQL), and a GRAPH variable of mu is bound to an IRI *)
Definition in_dom (v : str) (mu : amap) : bool := match lookup v mu with Some _ => true | None => false end.
Fixpoint sgroup_e (mu : amap) (e : cexpr) : bool :=
  match e with
  | CVar _ | CConst _ => true
  | CBound v => negb (in_dom v mu)
  | CNot a | CUnaryPlus a | CUnaryMinus a | CAbs a => sgroup_e mu a
  | COr a b | CAnd a b | CEqual a b | CSameTerm a b | CGreater a b | CGreaterOrEqual a b
  | CLess a b | CLessOrEqual a b | CAdd a b | CSubtract a b | CMultiply a b => sgroup_e mu a && sgroup_e mu b
  end.
Fixpoint sgroup (mu : amap) (p : cpattern) : bool :=
  match p with
  | Bgp _ => true
  | Filter e i => sgroup_e mu e && sgroup mu i
  | Union l r => sgroup mu l && sgroup mu r
  | Graph (NConst _) i => sgroup mu i
  | Graph (NVar v) i =>
      match lookup v mu with Some (Iri _) | None => sgroup mu i | Some _ => false end
  | Extend i v e => negb (in_dom v mu) && sgroup_e mu e && sgroup mu i
  | _ => false
  end.
(* the blank node labels of the group are not those of the enclosing group's BGP (the SPARQL
   grammar forbids the same label in two basic graph patterns) *)
Definition bn_fresh_atom (bbm : amap) (a : atom) : bool :=
  match a with AB l => negb (in_dom l bbm) | AV _ => true end.
Fixpoint bn_fresh (bbm : amap) (p : cpattern) : bool :=
  match p with
  | Bgp ps => forallb (bn_fresh_atom bbm) (flat_map atoms3 ps)
  | Filter _ i | Graph _ i | Extend i _ _ | OrderBy i _ | Project i _ | Distinct i | Slice i _ _ => bn_fresh bbm i
  | Union l r => bn_fresh bbm l && bn_fresh bbm r
  | Unsup _ => true
  end.
(* 18.6: exists(pattern, mu) over the active graph g *)
Definition exists_spec (D : dataset) (g : option term) (p : cpattern) (mu : amap) : bool :=
  nonempty (spec CL D (subst_p mu p) g).
