(* C01/Dataset.v -- GenericLightDataset / GenericFastDataset: invariant, abstraction, and the
   four required methods against the interface [impl_ok] (quads_matching: every arm). *)
From Coq Require Import Permutation Btauto.
From Sophia.C01 Require Import Model Sets Iters Refine Graph.

Definition p_gpos (t : t4) : t4 := let '(g, s, p, o) := t in (g, p, o, s).
Definition p_gosp (t : t4) : t4 := let '(g, s, p, o) := t in (g, o, s, p).
Definition p_spog (t : t4) : t4 := let '(g, s, p, o) := t in (s, p, o, g).
Definition p_posg (t : t4) : t4 := let '(g, s, p, o) := t in (p, o, s, g).
Definition p_ospg (t : t4) : t4 := let '(g, s, p, o) := t in (o, s, p, g).
Lemma p_gpos_inj x y : p_gpos x = p_gpos y -> x = y.
Proof. destruct x as [[[a b] c] d], y as [[[a' b'] c'] d']. simpl. congruence. Qed.
Lemma p_gosp_inj x y : p_gosp x = p_gosp y -> x = y.
Proof. destruct x as [[[a b] c] d], y as [[[a' b'] c'] d']. simpl. congruence. Qed.
Lemma p_spog_inj x y : p_spog x = p_spog y -> x = y.
Proof. destruct x as [[[a b] c] d], y as [[[a' b'] c'] d']. simpl. congruence. Qed.
Lemma p_posg_inj x y : p_posg x = p_posg y -> x = y.
Proof. destruct x as [[[a b] c] d], y as [[[a' b'] c'] d']. simpl. congruence. Qed.
Lemma p_ospg_inj x y : p_ospg x = p_ospg y -> x = y.
Proof. destruct x as [[[a b] c] d], y as [[[a' b'] c'] d']. simpl. congruence. Qed.

(* term positions hold issued indexes (< n); the graph position holds an issued index or MAX *)
Definition P4 (max n : N) (t : t4) : Prop :=
  let '(g, s, p, o) := t in s < n /\ p < n /\ o < n /\ (g < n \/ g = max).
Definition rows4_ok (max n : N) (l : list t4) : Prop := forall t, In t l -> P4 max n t.

Definition images (st : dstore) : Prop :=
  image_of key4 p_gpos (d_gpos st) (d_gspo st) /\ image_of key4 p_gosp (d_gosp st) (d_gspo st)
  /\ image_of key4 p_spog (d_spog st) (d_gspo st) /\ image_of key4 p_posg (d_posg st) (d_gspo st)
  /\ image_of key4 p_ospg (d_ospg st) (d_gspo st).

(* the invariant of theorem (1) for datasets *)
Definition DInv (fast : bool) (max : N) (st : dstore) : Prop :=
  TInv max (d_ti st)
  /\ ssorted key4 (d_gspo st)
  /\ rows4_ok max (tlen (d_ti st)) (d_gspo st)
  /\ (fast = true -> images st).

Notation f4 := dec4.

Lemma ggn_none max ti g : get_graph_name max ti g = None <-> g = max.
Proof. unfold get_graph_name. destruct (N.eqb_spec g max); split; congruence. Qed.
Lemma ggn_lt max ti g : g < tlen ti -> tlen ti <= max -> get_graph_name max ti g = Some (get_term ti g).
Proof.
  intros H1 H2. unfold get_graph_name. destruct (N.eqb_spec g max); auto. lia.
Qed.

Lemma f4_inj max ti x y : TInv max ti -> P4 max (tlen ti) x -> P4 max (tlen ti) y ->
  f4 max ti x = f4 max ti y -> x = y.
Proof.
  intros HI. destruct x as [[[g s] p] o], y as [[[g' s'] p'] o']. simpl.
  intros (A1 & A2 & A3 & A4) (B1 & B2 & B3 & B4) E. inversion E.
  assert (Hle : tlen ti <= max) by (destruct HI; auto).
  assert (g = g').
  { destruct A4 as [A4|A4], B4 as [B4|B4].
    - rewrite !ggn_lt in H3 by auto. inversion H3. eapply get_term_inj; eauto.
    - subst g'. rewrite ggn_lt in H3 by auto. rewrite (proj2 (ggn_none max ti max)) in H3 by auto. discriminate.
    - subst g. rewrite (ggn_lt max ti g') in H3 by auto. rewrite (proj2 (ggn_none max ti max)) in H3 by auto. discriminate.
    - congruence. }
  subst. f_equal; [f_equal; [f_equal|]|]; eapply get_term_inj; eauto.
Qed.
Lemma f4_ext max ti ti' l : ti_ext ti ti' -> rows4_ok max (tlen ti) l -> map (f4 max ti') l = map (f4 max ti) l.
Proof.
  intros (E1 & _) Hl. apply map_ext_in. intros [[[g s] p] o] Hin. destruct (Hl _ Hin) as (A & B & C & D).
  simpl. rewrite !E1 by auto. f_equal. unfold get_graph_name. destruct (N.eqb_spec g max); auto.
  destruct D; [|contradiction]. rewrite E1; auto.
Qed.
Lemma rows4_mono max n n' l : n <= n' -> rows4_ok max n l -> rows4_ok max n' l.
Proof.
  intros Hn H [[[g s] p] o] Hin. destruct (H _ Hin) as (A & B & C & D). simpl.
  lia.
Qed.

Lemma dinv_empty fast max : DInv fast max d_empty.
Proof.
  split; [apply tinv_empty|]. split; [exact I|]. split; [intros t []|].
  intros _. repeat split; simpl; auto.
Qed.

Lemma dinv_set_ti fast max st ti' :
  DInv fast max st -> TInv max ti' -> ti_ext (d_ti st) ti' ->
  DInv fast max (d_set_ti st ti') /\ d_all max (d_set_ti st ti') = d_all max st.
Proof.
  intros (H1 & H2 & H3 & H4) HT Hext. split.
  - split; [exact HT|]. split; [exact H2|]. split; [|exact H4].
    simpl. eapply rows4_mono; [|exact H3]. destruct Hext as (_ & L & _). exact L.
  - unfold d_all. simpl. apply f4_ext; auto.
Qed.

Lemma dinv_nodup fast max st : DInv fast max st -> NoDup (d_all max st).
Proof.
  intros (H1 & H2 & H3 & H4). unfold d_all.
  eapply NoDup_map_inj_in with (P := P4 max (tlen (d_ti st))).
  - intros x y. apply f4_inj; auto.
  - exact H3.
  - eapply ssorted_nodup; eauto. apply key4_inj.
Qed.

Lemma d_all_interned fast max st q : DInv fast max st -> In q (d_all max st) ->
  get_index (d_ti st) (qs q) <> None /\ get_index (d_ti st) (qp q) <> None
  /\ get_index (d_ti st) (qo q) <> None /\ get_gn_index max (d_ti st) (qg q) <> None.
Proof.
  intros (H1 & H2 & H3 & H4). unfold d_all. intros H. apply in_map_iff in H.
  destruct H as ([[[g a] b] c] & <- & Hin). destruct (H3 _ Hin) as (A & B & C & D).
  assert (Hle : tlen (d_ti st) <= max) by (destruct H1; auto).
  destruct H1 as [HB _]. simpl.
  assert (Ha : get_index (d_ti st) (get_term (d_ti st) a) = Some a) by (apply HB; auto).
  assert (Hb : get_index (d_ti st) (get_term (d_ti st) b) = Some b) by (apply HB; auto).
  assert (Hc : get_index (d_ti st) (get_term (d_ti st) c) = Some c) by (apply HB; auto).
  rewrite Ha, Hb, Hc. repeat split; try discriminate.
  destruct D as [D|D].
  - rewrite ggn_lt by auto. simpl.
    assert (Hg : get_index (d_ti st) (get_term (d_ti st) g) = Some g) by (apply HB; auto).
    rewrite Hg. discriminate.
  - subst g. rewrite (proj2 (ggn_none max (d_ti st) max)) by auto. simpl. discriminate.
Qed.

Lemma f4_row max ti s p o g i_s i_p i_o i_g : TInv max ti ->
  get_index ti s = Some i_s -> get_index ti p = Some i_p -> get_index ti o = Some i_o ->
  get_gn_index max ti g = Some i_g ->
  f4 max ti (i_g, i_s, i_p, i_o) = mkQ s p o g /\ P4 max (tlen ti) (i_g, i_s, i_p, i_o).
Proof.
  intros [HB Hle] A B C D. apply HB in A, B, C. destruct A as [A1 A2], B as [B1 B2], C as [C1 C2].
  simpl. rewrite A2, B2, C2. destruct g as [t|]; simpl in D.
  - apply HB in D. destruct D as [D1 D2]. rewrite ggn_lt by auto. rewrite D2. repeat split; auto.
  - inversion D; subst. rewrite (proj2 (ggn_none i_g ti i_g)) by auto. repeat split; auto.
Qed.

(* ---------- insert ---------- *)
Definition gterms (g : option N) : list N := match g with Some t => [t] | None => [] end.

Theorem d_insert_ok fast max st q st' r :
  DInv fast max st -> d_insert fast max st q = (st', r) ->
  let il := intern_list (Some max) (i2t (d_ti st)) (quad_terms q) in
  DInv fast max st' /\ i2t (d_ti st') = fst il /\
  (snd il = false -> r = None /\ d_all max st' = d_all max st) /\
  (snd il = true -> r = Some (negb (memq q (d_all max st))) /\
     Permutation (d_all max st') (if memq q (d_all max st) then d_all max st else d_all max st ++ [q])).
Proof.
  intros HI E. pose proof HI as (HT & HS & HR & HF).
  unfold d_insert in E. unfold quad_terms. fold (gterms (qg q)). cbn [app intern_list].
  pose proof (ensure_step max (d_ti st) (qs q) HT) as S1.
  destruct (ensure_index max (d_ti st) (qs q)) as [ti1 [i_s|]].
  2:{ destruct S1 as [-> S1]. rewrite S1. inversion E; subst.
      destruct (dinv_set_ti fast max st (d_ti st) HI HT (ti_ext_refl _)) as [G1 G2].
      split; [exact G1|]. split; [reflexivity|]. split; [intros _; split; [reflexivity | exact G2] | simpl; intros; discriminate]. }
  destruct S1 as (T1 & X1 & I1 & S1). rewrite S1.
  pose proof (ensure_step max ti1 (qp q) T1) as S2.
  destruct (ensure_index max ti1 (qp q)) as [ti2 [i_p|]].
  2:{ destruct S2 as [-> S2]. rewrite S2. inversion E; subst.
      destruct (dinv_set_ti fast max st ti1 HI T1 X1) as [G1 G2].
      split; [exact G1|]. split; [reflexivity|]. split; [intros _; split; [reflexivity | exact G2] | simpl; intros; discriminate]. }
  destruct S2 as (T2 & X2 & I2 & S2). rewrite S2.
  pose proof (ensure_step max ti2 (qo q) T2) as S3.
  destruct (ensure_index max ti2 (qo q)) as [ti3 [i_o|]].
  2:{ destruct S3 as [-> S3]. rewrite S3. inversion E; subst.
      destruct (dinv_set_ti fast max st ti2 HI T2 (ti_ext_trans _ _ _ X1 X2)) as [G1 G2].
      split; [exact G1|]. split; [reflexivity|]. split; [intros _; split; [reflexivity | exact G2] | simpl; intros; discriminate]. }
  destruct S3 as (T3 & X3 & I3 & S3). rewrite S3.
  assert (X03 : ti_ext (d_ti st) ti3) by (eapply ti_ext_trans; [|exact X3]; eapply ti_ext_trans; eauto).
  (* the graph name *)
  assert (S4 : match (match qg q with None => (ti3, Some max) | Some gn => ensure_index max ti3 gn end) with
               | (ti4, Some i_g) => TInv max ti4 /\ ti_ext ti3 ti4 /\ get_gn_index max ti4 (qg q) = Some i_g
                                    /\ intern_list (Some max) (i2t ti3) (gterms (qg q)) = (i2t ti4, true)
               | (ti4, None) => ti4 = ti3 /\ intern_list (Some max) (i2t ti3) (gterms (qg q)) = (i2t ti3, false)
               end).
  { destruct (qg q) as [gn|]; simpl.
    - pose proof (ensure_step max ti3 gn T3) as S4.
      destruct (ensure_index max ti3 gn) as [ti4 [i_g|]].
      + destruct S4 as (T4 & X4 & I4 & S4). rewrite S4. auto.
      + destruct S4 as [-> S4]. rewrite S4. auto.
    - split; [exact T3|]. split; [apply ti_ext_refl|]. split; reflexivity. }
  destruct (match qg q with None => (ti3, Some max) | Some gn => ensure_index max ti3 gn end) as [ti4 [i_g|]].
  2:{ destruct S4 as [-> S4]. rewrite S4. inversion E; subst.
      destruct (dinv_set_ti fast max st ti3 HI T3 X03) as [G1 G2].
      split; [exact G1|]. split; [reflexivity|]. split; [intros _; split; [reflexivity | exact G2] | simpl; intros; discriminate]. }
  destruct S4 as (T4 & X4 & I4 & S4). rewrite S4. cbn [fst snd].
  assert (X : ti_ext (d_ti st) ti4) by (eapply ti_ext_trans; eauto).
  assert (J1 : get_index ti4 (qs q) = Some i_s).
  { destruct X4 as (_ & _ & K4). destruct X3 as (_ & _ & K3). destruct X2 as (_ & _ & K2). auto. }
  assert (J2 : get_index ti4 (qp q) = Some i_p).
  { destruct X4 as (_ & _ & K4). destruct X3 as (_ & _ & K3). auto. }
  assert (J3 : get_index ti4 (qo q) = Some i_o) by (destruct X4 as (_ & _ & K4); auto).
  destruct (f4_row max ti4 _ _ _ _ _ _ _ _ T4 J1 J2 J3 I4) as [Frow Prow].
  replace (mkQ (qs q) (qp q) (qo q) (qg q)) with q in Frow by (destruct q; reflexivity).
  set (row := (i_g, i_s, i_p, i_o)) in *.
  assert (HR4 : rows4_ok max (tlen ti4) (d_gspo st)).
  { eapply rows4_mono; [|exact HR]. destruct X as (_ & L & _). exact L. }
  assert (Habs : d_all max st = map (f4 max ti4) (d_gspo st)).
  { unfold d_all. symmetry. apply f4_ext; auto. }
  assert (Hmem : memq q (d_all max st) = true <-> In row (d_gspo st)).
  { rewrite memq_in, Habs, <- Frow.
    apply in_map_inj with (P := P4 max (tlen ti4)); auto.
    intros x y. apply f4_inj; auto. }
  destruct (set_insert t4 key4 row (d_gspo st)) as [gspo' ch] eqn:Eins.
  destruct (set_insert_eq t4 key4 key4_inj row (d_gspo st) gspo' ch HS Eins) as (Hsorted & Hin' & Hflag & Hsame & Hadd).
  assert (Hch : ch = negb (memq q (d_all max st))).
  { destruct ch, (memq q (d_all max st)); simpl; auto.
    - exfalso. apply Hflag; auto. apply Hmem; auto.
    - assert (false = true); [|discriminate]. apply Hflag. intros Hin. apply Hmem in Hin. discriminate. }
  assert (Hrows : rows4_ok max (tlen ti4) gspo').
  { intros t Hin. apply Hin' in Hin. destruct Hin as [->|Hin]; [exact Prow | apply HR4; auto]. }
  assert (Hperm : Permutation (map (f4 max ti4) gspo')
                    (if memq q (d_all max st) then d_all max st else d_all max st ++ [q])).
  { destruct (memq q (d_all max st)) eqn:Em; simpl in Hch; subst ch.
    - rewrite (Hsame eq_refl), Habs. auto.
    - eapply perm_trans; [apply Permutation_map, (Hadd eq_refl)|]. cbn [map]. rewrite Frow, Habs.
      apply Permutation_cons_append. }
  assert (Hgoal : forall st1, d_ti st1 = ti4 -> d_gspo st1 = gspo' ->
            (fast = true -> images st1) ->
            DInv fast max st1 /\ i2t (d_ti st1) = i2t ti4 /\
            (true = false -> Some ch = None /\ d_all max st1 = d_all max st) /\
            (true = true -> Some ch = Some (negb (memq q (d_all max st))) /\
              Permutation (d_all max st1) (if memq q (d_all max st) then d_all max st else d_all max st ++ [q]))).
  { intros st1 E1 E2 E3. split; [|split; [|split]].
    - split; [rewrite E1; auto|]. split; [rewrite E2; auto|]. split; [rewrite E1, E2; auto|]. auto.
    - rewrite E1. auto.
    - discriminate.
    - intros _. split; [congruence|]. unfold d_all. rewrite E1, E2. exact Hperm. }
  destruct fast.
  - destruct (HF eq_refl) as (I_1 & I_2 & I_3 & I_4 & I_5). destruct ch.
    + inversion E; subst st' r. apply Hgoal; auto. intros _. unfold images. simpl.
      split; [|split; [|split; [|split]]].
      * apply (image_insert_eq t4 key4 key4_inj p_gpos p_gpos_inj (d_gspo st) gspo' (d_gpos st) row); auto.
      * apply (image_insert_eq t4 key4 key4_inj p_gosp p_gosp_inj (d_gspo st) gspo' (d_gosp st) row); auto.
      * apply (image_insert_eq t4 key4 key4_inj p_spog p_spog_inj (d_gspo st) gspo' (d_spog st) row); auto.
      * apply (image_insert_eq t4 key4 key4_inj p_posg p_posg_inj (d_gspo st) gspo' (d_posg st) row); auto.
      * apply (image_insert_eq t4 key4 key4_inj p_ospg p_ospg_inj (d_gspo st) gspo' (d_ospg st) row); auto.
    + inversion E; subst st' r. rewrite (Hsame eq_refl) in *. apply Hgoal; auto.
  - inversion E; subst st' r. apply Hgoal; auto. discriminate.
Qed.

(* ---------- remove ---------- *)
Lemma d_not_member fast max st q :
  DInv fast max st ->
  (get_index (d_ti st) (qs q) = None \/ get_index (d_ti st) (qp q) = None
   \/ get_index (d_ti st) (qo q) = None \/ get_gn_index max (d_ti st) (qg q) = None) ->
  memq q (d_all max st) = false.
Proof.
  intros HI H. destruct (memq q (d_all max st)) eqn:E; auto. apply memq_in in E.
  destruct (d_all_interned fast max st _ HI E) as (A & B & C & D). tauto.
Qed.

Theorem d_remove_ok fast max st q st' b :
  DInv fast max st -> d_remove fast max st q = (st', b) ->
  DInv fast max st' /\ i2t (d_ti st') = i2t (d_ti st) /\ b = memq q (d_all max st) /\
  Permutation (d_all max st') (filter (fun x => negb (quad_eqb q x)) (d_all max st)).
Proof.
  intros HI E. pose proof HI as (HT & HS & HR & HF).
  assert (Hnot : memq q (d_all max st) = false ->
     DInv fast max st /\ i2t (d_ti st) = i2t (d_ti st) /\ false = memq q (d_all max st) /\
     Permutation (d_all max st) (filter (fun x => negb (quad_eqb q x)) (d_all max st))).
  { intros Hm. split; [exact HI|]. split; [reflexivity|]. split; [auto|]. rewrite filter_all; auto.
    intros x Hx. destruct (quad_eqb q x) eqn:Eq; auto. apply quad_eqb_eq in Eq. subst.
    apply memq_in in Hx. congruence. }
  unfold d_remove in E.
  destruct (get_index (d_ti st) (qs q)) as [i_s|] eqn:I1.
  2:{ inversion E; subst. apply Hnot. eapply d_not_member; eauto. }
  destruct (get_index (d_ti st) (qp q)) as [i_p|] eqn:I2.
  2:{ inversion E; subst. apply Hnot. eapply d_not_member; eauto. }
  destruct (get_index (d_ti st) (qo q)) as [i_o|] eqn:I3.
  2:{ inversion E; subst. apply Hnot. eapply d_not_member; eauto. }
  destruct (get_gn_index max (d_ti st) (qg q)) as [i_g|] eqn:I4.
  2:{ inversion E; subst. apply Hnot. eapply d_not_member; eauto. }
  destruct (f4_row max (d_ti st) _ _ _ _ _ _ _ _ HT I1 I2 I3 I4) as [Frow Prow].
  replace (mkQ (qs q) (qp q) (qo q) (qg q)) with q in Frow by (destruct q; reflexivity).
  set (row := (i_g, i_s, i_p, i_o)) in *.
  assert (Hmem : memq q (d_all max st) = true <-> In row (d_gspo st)).
  { rewrite memq_in. unfold d_all. rewrite <- Frow.
    apply in_map_inj with (P := P4 max (tlen (d_ti st))); auto.
    intros x y. apply f4_inj; auto. }
  destruct (set_remove t4 key4 row (d_gspo st)) as [gspo' ch] eqn:Erem.
  destruct (set_remove_eq t4 key4 key4_inj row (d_gspo st) gspo' ch HS Erem) as (Hsorted & Hincl & Hflag & Hsame & Hp & Hnotin).
  assert (Hch : ch = memq q (d_all max st)).
  { destruct ch, (memq q (d_all max st)); auto.
    - symmetry. apply Hmem. apply Hflag. auto.
    - apply Hflag. apply Hmem. auto. }
  destruct ch.
  - specialize (Hp eq_refl).
    assert (Hrows : rows4_ok max (tlen (d_ti st)) gspo').
    { intros t Hin. apply HR. apply Hincl. auto. }
    assert (Hperm : Permutation (map (f4 max (d_ti st)) gspo') (filter (fun x => negb (quad_eqb q x)) (d_all max st))).
    { unfold d_all.
      eapply perm_trans; [|apply Permutation_filter, Permutation_map, Permutation_sym, Hp].
      cbn [map filter]. rewrite Frow, quad_eqb_refl. cbn [negb]. rewrite filter_all; auto.
      intros x Hx. destruct (quad_eqb q x) eqn:Eq; auto. apply quad_eqb_eq in Eq. subst x.
      exfalso. apply Hnotin. rewrite <- Frow in Hx.
      apply (in_map_inj (f4 max (d_ti st)) (P4 max (tlen (d_ti st)))) in Hx; auto.
      intros x y. apply f4_inj; auto. }
    assert (Hgoal : forall st1, d_ti st1 = d_ti st -> d_gspo st1 = gspo' ->
            (fast = true -> images st1) ->
            DInv fast max st1 /\ i2t (d_ti st1) = i2t (d_ti st) /\ true = memq q (d_all max st) /\
            Permutation (d_all max st1) (filter (fun x => negb (quad_eqb q x)) (d_all max st))).
    { intros st1 E1 E2 E3. split; [|split; [|split]]; auto.
      - split; [rewrite E1; auto|]. split; [rewrite E2; auto|]. split; [rewrite E1, E2; auto|]. auto.
      - rewrite E1; auto.
      - unfold d_all. rewrite E1, E2. exact Hperm. }
    destruct fast.
    + destruct (HF eq_refl) as (I_1 & I_2 & I_3 & I_4 & I_5). inversion E; subst st' b. apply Hgoal; auto.
      intros _. unfold images. simpl. split; [|split; [|split; [|split]]].
      * apply (image_remove_eq t4 key4 key4_inj p_gpos (d_gspo st) gspo' (d_gpos st) row); auto.
      * apply (image_remove_eq t4 key4 key4_inj p_gosp (d_gspo st) gspo' (d_gosp st) row); auto.
      * apply (image_remove_eq t4 key4 key4_inj p_spog (d_gspo st) gspo' (d_spog st) row); auto.
      * apply (image_remove_eq t4 key4 key4_inj p_posg (d_gspo st) gspo' (d_posg st) row); auto.
      * apply (image_remove_eq t4 key4 key4_inj p_ospg (d_gspo st) gspo' (d_ospg st) row); auto.
    + inversion E; subst st' b. apply Hgoal; auto. discriminate.
  - rewrite (Hsame eq_refl) in *.
    assert (st' = st /\ b = false).
    { destruct fast; inversion E; subst; split; auto. destruct st; reflexivity. }
    destruct H as [-> ->]. apply Hnot. auto.
Qed.

(* ---------- quads_matching ---------- *)
Lemma gn_pos max ti m x : x < tlen ti -> tlen ti <= max ->
  gm_pred (tm_gn m) (get_graph_name max ti x) = tm_pred m (get_term ti x).
Proof. intros H1 H2. rewrite ggn_lt by auto. reflexivity. Qed.
Lemma unw_ggn max ti x : x < tlen ti -> tlen ti <= max -> unw (get_graph_name max ti x) = get_term ti x.
Proof. intros H1 H2. rewrite ggn_lt by auto. reflexivity. Qed.

Lemma const_known_g max ti m c i x :
  TInv max ti -> gm_wf m -> gm_const m = Some c -> get_gn_index max ti c = Some i ->
  (x < tlen ti \/ x = max) ->
  gm_pred m (get_graph_name max ti x) = (x =? i).
Proof.
  intros HI Hw Hc Hg Hx. rewrite (Hw c Hc). pose proof HI as [HB Hle].
  destruct c as [t|]; simpl in Hg.
  - pose proof Hg as Hg'. apply HB in Hg'. destruct Hg' as [Hi Ht].
    destruct Hx as [Hx | ->].
    + rewrite ggn_lt by auto. simpl. destruct (N.eqb_spec x i) as [->|Hne].
      * rewrite Ht. apply N.eqb_refl.
      * apply N.eqb_neq. intros E. apply Hne.
        assert (get_index ti t = Some x) by (apply HB; auto). congruence.
    + rewrite (proj2 (ggn_none max ti max)) by auto. simpl. symmetry. apply N.eqb_neq. lia.
  - inversion Hg; subst i. destruct (N.eqb_spec x max) as [->|Hne].
    + rewrite (proj2 (ggn_none max ti max)) by auto. reflexivity.
    + destruct Hx as [Hx|Hx]; [|contradiction]. rewrite ggn_lt by auto. reflexivity.
Qed.
Lemma const_unknown_g max ti m c x :
  TInv max ti -> gm_wf m -> gm_const m = Some c -> get_gn_index max ti c = None ->
  (x < tlen ti \/ x = max) ->
  gm_pred m (get_graph_name max ti x) = false.
Proof.
  intros HI Hw Hc Hg Hx. rewrite (Hw c Hc). pose proof HI as [HB Hle].
  destruct c as [t|]; simpl in Hg; [|discriminate].
  destruct Hx as [Hx | ->].
  - rewrite ggn_lt by auto. simpl. apply N.eqb_neq. intros E.
    assert (get_index ti t = Some x) by (apply HB; auto). congruence.
  - rewrite (proj2 (ggn_none max ti max)) by auto. reflexivity.
Qed.

Definition m4q (max : N) (ti : tindex) (sm pm om : tmatcher) (gm : gmatcher) (t : t4) : bool :=
  let '(g, s, p, o) := t in
  tm_pred sm (get_term ti s) && tm_pred pm (get_term ti p) && tm_pred om (get_term ti o)
  && gm_pred gm (get_graph_name max ti g).

Lemma d_rhs max st sm pm om gm :
  filter (qmatch false sm pm om gm) (d_all max st)
  = map (dec4 max (d_ti st)) (filter (m4q max (d_ti st) sm pm om gm) (d_gspo st)).
Proof.
  unfold d_all. rewrite filter_map_comm. f_equal. apply filter_ext_in'.
  intros [[[g s] p] o] _. reflexivity.
Qed.

Lemma cd_arm max ti ix lo hi cm dm back a0 b0 :
  ssorted key4 ix ->
  (forall a b c d, In (a, b, c, d) ix -> between t4 key4 lo hi (a, b, c, d) = true -> a = a0 /\ b = b0) ->
  cd_boxed max ti (set_range t4 key4 lo hi ix) cm dm back
  = map (fun r => quad_of_gq (back (gdec max ti r)))
        (filter (fun t => between t4 key4 lo hi t && m4cd max ti cm dm t) ix).
Proof.
  intros Hs Ha. rewrite (set_range_filter t4 key4 key4_inj) by auto.
  rewrite (cd_boxed_spec max ti _ cm dm back a0 b0).
  - rewrite filter_filter. reflexivity.
  - intros a b c d Hin. apply filter_In in Hin. destruct Hin. eauto.
Qed.
Lemma bcd_arm max ti ix lo hi bm cm dm back a0 :
  ssorted key4 ix ->
  (forall a b c d, In (a, b, c, d) ix -> between t4 key4 lo hi (a, b, c, d) = true -> a = a0) ->
  bcd_boxed max ti (set_range t4 key4 lo hi ix) bm cm dm back
  = map (fun r => quad_of_gq (back (gdec max ti r)))
        (filter (fun t => between t4 key4 lo hi t && m4bcd max ti bm cm dm t) ix).
Proof.
  intros Hs Ha. rewrite (set_range_filter t4 key4 key4_inj) by auto.
  rewrite (bcd_boxed_spec max ti _ bm cm dm back a0).
  - rewrite filter_filter. reflexivity.
  - intros a b c d Hin. apply filter_In in Hin. destruct Hin. eauto.
Qed.

Definition rows4_le (max : N) (l : list t4) : Prop :=
  forall a b c d, In (a, b, c, d) l -> a <= max /\ b <= max /\ c <= max /\ d <= max.
Lemma rows4_le_image max n perm ix gspo :
  n <= max ->
  (forall g s p o, let '(a, b, c, d) := perm (g, s, p, o) in
     (g <= max /\ s <= max /\ p <= max /\ o <= max) -> (a <= max /\ b <= max /\ c <= max /\ d <= max)) ->
  rows4_ok max n gspo -> Permutation ix (map perm gspo) -> rows4_le max ix.
Proof.
  intros Hn Hp Hr P a b c d Hin. eapply Permutation_in in Hin; [|exact P].
  apply in_map_iff in Hin. destruct Hin as ([[[g s] p] o] & E & Hin).
  specialize (Hp g s p o). rewrite E in Hp. apply Hp. destruct (Hr _ Hin) as (A & B & C & D). lia.
Qed.

Section DQuery.
Variables (max : N) (st : dstore) (sm pm om : tmatcher) (gm : gmatcher).
Hypothesis Wsm : tm_wf sm.
Hypothesis Wpm : tm_wf pm.
Hypothesis Wom : tm_wf om.
Hypothesis Wgm : gm_wf gm.
Notation ti := (d_ti st).
Notation n := (tlen (d_ti st)).
Hypothesis HT : TInv max ti.
Hypothesis HS : ssorted key4 (d_gspo st).
Hypothesis HR : rows4_ok max n (d_gspo st).

Lemma dn_le_max : n <= max.
Proof. destruct HT; auto. Qed.

Lemma contains_arm4 gi si pi oi :
  (forall g s p o, In (g, s, p, o) (d_gspo st) ->
     m4q max ti sm pm om gm (g, s, p, o) = (g =? gi) && (s =? si) && (p =? pi) && (o =? oi)) ->
  Permutation (if set_contains t4 key4 (gi, si, pi, oi) (d_gspo st)
               then [mkQ (get_term ti si) (get_term ti pi) (get_term ti oi) (get_graph_name max ti gi)] else [])
              (map (dec4 max ti) (filter (m4q max ti sm pm om gm) (d_gspo st))).
Proof.
  intros Hm.
  assert (Hf : forall x, In x (d_gspo st) -> (m4q max ti sm pm om gm x = true <-> x = (gi, si, pi, oi))).
  { intros [[[g s] p] o] Hin. rewrite Hm by auto. rewrite !andb_true_iff, !N.eqb_eq. split.
    - intros [[[-> ->] ->] ->]; auto.
    - intros E; inversion E; auto. }
  pose proof (set_contains_spec t4 key4 key4_inj (gi, si, pi, oi) (d_gspo st) HS) as Hc.
  destruct (set_contains t4 key4 (gi, si, pi, oi) (d_gspo st)).
  - rewrite (filter_single_in _ _ (gi, si, pi, oi)); auto.
    + eapply ssorted_nodup; eauto. apply key4_inj.
    + apply Hc; auto.
  - rewrite (filter_single_notin _ _ (gi, si, pi, oi)); auto.
    intros Hin. apply Hc in Hin. discriminate.
Qed.
End DQuery.

Ltac drow_facts HT :=
  repeat match goal with
  | |- context [gm_pred (tm_gn ?m) (get_graph_name ?max ?ti ?x)] =>
      rewrite (gn_pos max ti m x) by lia
  end;
  row_facts HT;
  repeat match goal with
  | Hc : gm_const ?m = Some ?c, Hg : get_gn_index ?max ?ti ?c = Some ?i, W : gm_wf ?m
    |- context [gm_pred ?m (get_graph_name ?max ?ti ?x)] =>
      rewrite (const_known_g max ti m c i x HT W Hc Hg) by (first [assumption | lia])
  | Hc : gm_const ?m = Some ?c, Hg : get_gn_index ?max ?ti ?c = None, W : gm_wf ?m
    |- context [gm_pred ?m (get_graph_name ?max ?ti ?x)] =>
      rewrite (const_unknown_g max ti m c x HT W Hc Hg) by (first [assumption | lia])
  end.

Ltac rng_arm max HT HR PERM PIMG :=
  rewrite (range_map_filter key4 key4_inj) by auto;
  apply (arm_generic PERM); [exact PIMG|];
  let g := fresh "g" in let s := fresh "s" in let p := fresh "p" in let o := fresh "o" in
  let Hin := fresh "Hin" in let Hm := fresh "Hm" in
  intros [[[g s] p] o] Hin; destruct (HR _ Hin) as (? & ? & ? & ?);
  unfold m4q, fourth4, PERM; cbv beta iota; drow_facts HT;
  rewrite (btw4_3 max) by lia; split; [btauto|]; intros Hm; eqs_from Hm; subst; reflexivity.

Ltac cd_arm_tac max HT HR RIX PERM PIMG a0 b0 :=
  rewrite (cd_arm _ _ _ _ _ _ _ _ a0 b0); auto;
  [ apply (arm_generic PERM); [exact PIMG|];
    let g := fresh "g" in let s := fresh "s" in let p := fresh "p" in let o := fresh "o" in
    let Hin := fresh "Hin" in let Hm := fresh "Hm" in
    intros [[[g s] p] o] Hin; destruct (HR _ Hin) as (? & ? & ? & ?);
    unfold m4q, m4cd, PERM, gdec, quad_of_gq, dec4; cbv beta iota; drow_facts HT;
    rewrite (btw4_2 max) by lia; split; [btauto|]; intros Hm; rewrite !unw_ggn by lia; reflexivity
  | let a := fresh "a" in let b := fresh "b" in let c := fresh "c" in let d := fresh "d" in
    let Hin := fresh "Hin" in let Hb := fresh "Hb" in
    intros a b c d Hin Hb; destruct (RIX a b c d Hin) as (? & ? & ? & ?);
    rewrite (btw4_2 max) in Hb by lia; eqs_from Hb; auto ].

Ltac bcd_arm_tac max HT HR RIX PERM PIMG a0 :=
  rewrite (bcd_arm _ _ _ _ _ _ _ _ _ a0); auto;
  [ apply (arm_generic PERM); [exact PIMG|];
    let g := fresh "g" in let s := fresh "s" in let p := fresh "p" in let o := fresh "o" in
    let Hin := fresh "Hin" in let Hm := fresh "Hm" in
    intros [[[g s] p] o] Hin; destruct (HR _ Hin) as (? & ? & ? & ?);
    unfold m4q, m4bcd, PERM, gdec, quad_of_gq, dec4; cbv beta iota; drow_facts HT;
    rewrite (btw4_1 max) by lia; split; [btauto|]; intros Hm; rewrite !unw_ggn by lia; reflexivity
  | let a := fresh "a" in let b := fresh "b" in let c := fresh "c" in let d := fresh "d" in
    let Hin := fresh "Hin" in let Hb := fresh "Hb" in
    intros a b c d Hin Hb; destruct (RIX a b c d Hin) as (? & ? & ? & ?);
    rewrite (btw4_1 max) in Hb by lia; eqs_from Hb; auto ].

Definition p_id4 (t : t4) : t4 := t.

Lemma gspo_arm max ti rows gm sm pm om :
  gspo_boxed max ti rows gm sm pm om = map (dec4 max ti) (filter (m4q max ti sm pm om gm) rows).
Proof.
  rewrite gspo_boxed_spec. f_equal. apply filter_ext_in'. intros [[[g s] p] o] _.
  unfold m4, m4q. btauto.
Qed.

Theorem fd_query_ok max st sm pm om gm :
  DInv true max st -> tm_wf sm -> tm_wf pm -> tm_wf om -> gm_wf gm ->
  Permutation (fd_query max st sm pm om gm)
              (map (dec4 max (d_ti st)) (filter (m4q max (d_ti st) sm pm om gm) (d_gspo st))).
Proof.
  intros (HT & HS & HR & HF) Wsm Wpm Wom Wgm.
  destruct (HF eq_refl) as ([S1 P1] & [S2 P2] & [S3 P3] & [S4 P4] & [S5 P5]).
  pose proof (dn_le_max max st HT) as Hle.
  assert (R1 : rows4_le max (d_gpos st)).
  { eapply rows4_le_image; [exact Hle| |exact HR|exact P1]. intros g s p o. simpl. tauto. }
  assert (R2 : rows4_le max (d_gosp st)).
  { eapply rows4_le_image; [exact Hle| |exact HR|exact P2]. intros g s p o. simpl. tauto. }
  assert (R3 : rows4_le max (d_spog st)).
  { eapply rows4_le_image; [exact Hle| |exact HR|exact P3]. intros g s p o. simpl. tauto. }
  assert (R4 : rows4_le max (d_posg st)).
  { eapply rows4_le_image; [exact Hle| |exact HR|exact P4]. intros g s p o. simpl. tauto. }
  assert (R5 : rows4_le max (d_ospg st)).
  { eapply rows4_le_image; [exact Hle| |exact HR|exact P5]. intros g s p o. simpl. tauto. }
  assert (P0 : Permutation (d_gspo st) (map p_id4 (d_gspo st))) by (unfold p_id4; rewrite map_id; auto).
  assert (R0 : rows4_le max (d_gspo st)).
  { eapply rows4_le_image; [exact Hle| |exact HR|exact P0]. intros g s p o. simpl. tauto. }
  unfold fd_query, early, bind_t, bind_g.
  destruct (tm_const sm) as [sc|] eqn:Csm; cbn [option_map];
    [destruct (get_index (d_ti st) sc) as [si|] eqn:Gsm|];
  (destruct (tm_const pm) as [pc|] eqn:Cpm; cbn [option_map];
    [destruct (get_index (d_ti st) pc) as [pi|] eqn:Gpm|]);
  (destruct (tm_const om) as [oc|] eqn:Com; cbn [option_map];
    [destruct (get_index (d_ti st) oc) as [oi|] eqn:Gom|]);
  (destruct (gm_const gm) as [gc|] eqn:Cgm; cbn [option_map];
    [destruct (get_gn_index max (d_ti st) gc) as [gi|] eqn:Ggm|]);
  try (apply empty_ok; intros [[[g s] p] o] Hin; destruct (HR _ Hin) as (A & B & C & D);
       unfold m4q; drow_facts HT; rewrite ?andb_false_r; reflexivity).
  - (* S P O G *)
    apply contains_arm4; auto.
    intros g s p o Hin. destruct (HR _ Hin) as (A & B & C & D). unfold m4q. drow_facts HT. btauto.
  - (* S P O - : spog *) rng_arm max HT HR p_spog P3.
  - (* S P - G : gspo *) rng_arm max HT HR p_id4 P0.
  - (* S P - - : spog *) cd_arm_tac max HT HR R3 p_spog P3 si pi.
  - (* S - O G : gosp *) rng_arm max HT HR p_gosp P2.
  - (* S - O - : ospg *) cd_arm_tac max HT HR R5 p_ospg P5 oi si.
  - (* S - - G : gspo *) cd_arm_tac max HT HR R0 p_id4 P0 gi si.
  - (* S - - - : spog *) bcd_arm_tac max HT HR R3 p_spog P3 si.
  - (* - P O G : gpos *) rng_arm max HT HR p_gpos P1.
  - (* - P O - : posg *) cd_arm_tac max HT HR R4 p_posg P4 pi oi.
  - (* - P - G : gpos *) cd_arm_tac max HT HR R1 p_gpos P1 gi pi.
  - (* - P - - : posg *) bcd_arm_tac max HT HR R4 p_posg P4 pi.
  - (* - - O G : gosp *) cd_arm_tac max HT HR R2 p_gosp P2 gi oi.
  - (* - - O - : ospg *) bcd_arm_tac max HT HR R5 p_ospg P5 oi.
  - (* - - - G : gspo *) bcd_arm_tac max HT HR R0 p_id4 P0 gi.
  - (* - - - - *) rewrite gspo_arm. apply Permutation_refl.
Qed.

Theorem ld_query_ok max st sm pm om gm :
  DInv false max st -> tm_wf sm -> tm_wf pm -> tm_wf om -> gm_wf gm ->
  Permutation (ld_query max st sm pm om gm)
              (map (dec4 max (d_ti st)) (filter (m4q max (d_ti st) sm pm om gm) (d_gspo st))).
Proof.
  intros (HT & HS & HR & HF) Wsm Wpm Wom Wgm.
  pose proof (dn_le_max max st HT) as Hle.
  assert (P0 : Permutation (d_gspo st) (map p_id4 (d_gspo st))) by (unfold p_id4; rewrite map_id; auto).
  assert (R0 : rows4_le max (d_gspo st)).
  { eapply rows4_le_image; [exact Hle| |exact HR|exact P0]. intros g s p o. simpl. tauto. }
  unfold ld_query.
  destruct (gm_const gm) as [gc|] eqn:Cgm.
  2:{ rewrite gspo_arm. apply Permutation_refl. }
  destruct (get_gn_index max (d_ti st) gc) as [gi|] eqn:Ggm.
  2:{ apply empty_ok; intros [[[g s] p] o] Hin; destruct (HR _ Hin) as (A & B & C & D);
      unfold m4q; drow_facts HT; rewrite ?andb_false_r; reflexivity. }
  destruct (tm_const sm) as [sc|] eqn:Csm.
  2:{ (* the G arm with the upper bound [gi, MAX, MAX, ZERO] *)
      rewrite (bcd_arm _ _ _ _ _ _ _ _ _ gi); auto.
      - apply (arm_generic p_id4); [exact P0|].
        intros [[[g s] p] o] Hin. destruct (HR _ Hin) as (A & B & C & D).
        unfold m4q, m4bcd, p_id4, gdec, quad_of_gq, dec4. cbv beta iota. drow_facts HT.
        rewrite (btw4_1odd max) by lia. split; [btauto|]. intros Hm. rewrite !unw_ggn by lia. reflexivity.
      - intros a b c d Hin Hb. destruct (HR _ Hin) as (A & B & C & D).
        rewrite (btw4_1odd max) in Hb by lia. eqs_from Hb. auto. }
  destruct (get_index (d_ti st) sc) as [si|] eqn:Gsm.
  2:{ apply empty_ok; intros [[[g s] p] o] Hin; destruct (HR _ Hin) as (A & B & C & D);
      unfold m4q; drow_facts HT; rewrite ?andb_false_r; reflexivity. }
  destruct (tm_const pm) as [pc|] eqn:Cpm.
  2:{ cd_arm_tac max HT HR R0 p_id4 P0 gi si. }
  destruct (get_index (d_ti st) pc) as [pi|] eqn:Gpm.
  2:{ apply empty_ok; intros [[[g s] p] o] Hin; destruct (HR _ Hin) as (A & B & C & D);
      unfold m4q; drow_facts HT; rewrite ?andb_false_r; reflexivity. }
  destruct (tm_const om) as [oc|] eqn:Com.
  2:{ rng_arm max HT HR p_id4 P0. }
  destruct (get_index (d_ti st) oc) as [oi|] eqn:Gom.
  2:{ apply empty_ok; intros [[[g s] p] o] Hin; destruct (HR _ Hin) as (A & B & C & D);
      unfold m4q; drow_facts HT; rewrite ?andb_false_r; reflexivity. }
  apply contains_arm4; auto.
  intros g s p o Hin. destruct (HR _ Hin) as (A & B & C & D). unfold m4q. drow_facts HT. btauto.
Qed.

Theorem d_query_ok fast max st sm pm om gm :
  DInv fast max st -> tm_wf sm -> tm_wf pm -> tm_wf om -> gm_wf gm ->
  Permutation (d_query fast max st sm pm om gm) (filter (qmatch false sm pm om gm) (d_all max st)).
Proof.
  intros HI W1 W2 W3 W4. rewrite d_rhs. unfold d_query.
  destruct fast; [apply fd_query_ok | apply ld_query_ok]; auto.
Qed.

Lemma norm_false q : norm false q = q.
Proof. reflexivity. Qed.

(* the dataset stores satisfy the interface *)
Definition dataset_ok (fast : bool) (max : N) : impl_ok (Some max) (dataset_impl fast max).
Proof.
  refine (mkOk (Some max) (dataset_impl fast max) (DInv fast max) (fun st => i2t (d_ti st)) _ _ _ _ _ _).
  - split; [apply dinv_empty | split; reflexivity].
  - intros s HI. eapply dinv_nodup; eauto.
  - intros s q HI Hin. reflexivity.
  - intros s q s' r HI E. exact (d_insert_ok fast max s q s' r HI E).
  - intros s q s' b HI E. exact (d_remove_ok fast max s q s' b HI E).
  - intros s sm pm om gm HI W1 W2 W3 W4. apply d_query_ok; auto.
Defined.
