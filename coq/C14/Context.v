(* C14/Context.v -- ORDER BY in its evaluation context: the fragment of sophia_sparql's algebra in which the
   VALUE of a sort key depends on where the ORDER BY stands.
     sparql/src/exec.rs        select / bgp / union / graph / graph_rec / only_if_named_graph / extend /
                               order_by / project / slice   (the `graph_matcher` argument is the active graph)
     sparql/src/bgp.rs         bgp_rec (nested loops over the quads that the matcher lets through)
     sparql/src/expression.rs  ArcExpression::eval for Variable, literal / IRI constants, Exists, Not, Bound,
                               If, Coalesce (eval receives the binding, the config and the graph_matcher)
   Definitions only.

   What is abstracted:
   - the dataset is a list of quads whose object carries the value that the implementation parsed (an [item],
     as everywhere in C14); subjects, predicates and graph names are terms;
   - the effective boolean value is modelled for booleans only (the conditions of the harness are EXISTS,
     BOUND, '!' and IF over them);
   - a pattern inside EXISTS is one triple pattern, optionally under GRAPH <g> or GRAPH ?x, and ?x does not
     occur inside the braces; sub-selects are not used inside EXISTS, hence [ceval] has no incoming binding;
   - sort_unstable_by is not modelled (Model.v): the reference sort [isort] gives THE sorted permutation when no
     two solutions are tied on all keys (ContextProofs.strictly_sorted_unique), and only then has the model an
     opinion ([ceval] returns None otherwise);
   - the order in which a BGP, a UNION or GRAPH ?g enumerate their solutions is not modelled: a result is a
     sequence only above an ORDER BY (flag [true]); LIMIT / OFFSET is only modelled above a sequence. *)
From Sophia.C14 Require Import Model.

Definition cvar := N.
Definition binding := list (cvar * item).
Fixpoint lookup (b : binding) (v : cvar) : option item :=
  match b with
  | [] => None
  | (w, i) :: b' => if N.eqb v w then Some i else lookup b' v
  end.

Record quad := mkQ { qg : option term; qs : term; qp : term; qo : item }.
Definition dataset := list quad.

(* exec.rs `graph_matcher: &[Option<ArcTerm>]`: the graph names that a quad may have; [None] is the default graph
   (ExecState::new: default_matcher = vec![None] without FROM) *)
Definition matcher := list (option term).
Definition gname_eqb (a b : option term) : bool :=
  match a, b with
  | None, None => true
  | Some x, Some y => term_eqb x y
  | _, _ => false
  end.
Definition in_matcher (gm : matcher) (g : option term) : bool := existsb (gname_eqb g) gm.
Definition default_matcher : matcher := [None].

(* ---------- triple patterns and BGPs (bgp.rs) ---------- *)
Inductive node := NV (v : cvar) | NC (t : term).
Record tpat := mkTP { tps : node; tpp : node; tpo : node }.
Definition bind_node (n : node) (i : item) (b : binding) : option binding :=
  match n with
  | NC t => if term_eqb t (tm i) then Some b else None
  | NV v => match lookup b v with
            | Some j => if term_eqb (tm j) (tm i) then Some b else None
            | None => Some ((v, i) :: b)
            end
  end.
Definition match_tp (gm : matcher) (b : binding) (p : tpat) (q : quad) : option binding :=
  if in_matcher gm (qg q) then
    match bind_node (tps p) (mkItem (qs q) None) b with
    | Some b1 => match bind_node (tpp p) (mkItem (qp q) None) b1 with
                 | Some b2 => bind_node (tpo p) (qo q) b2
                 | None => None
                 end
    | None => None
    end
  else None.
Fixpoint bgp (ds : dataset) (gm : matcher) (ps : list tpat) (b : binding) : list binding :=
  match ps with
  | [] => [b]
  | p :: ps' => flat_map (fun q => match match_tp gm b p q with
                                   | Some b' => bgp ds gm ps' b'
                                   | None => []
                                   end) ds
  end.

(* ---------- named graphs (config.named_graphs = dataset.graph_names()) ---------- *)
Definition is_named (ds : dataset) (g : term) : bool := existsb (fun q => gname_eqb (qg q) (Some g)) ds.
Fixpoint add_name (g : term) (l : list term) : list term :=
  match l with
  | [] => [g]
  | h :: l' => if term_eqb g h then l else h :: add_name g l'
  end.
Definition graph_names (ds : dataset) : list term :=
  fold_left (fun acc q => match qg q with Some g => add_name g acc | None => acc end) ds [].

(* ---------- expressions ---------- *)
Inductive gspec := GActive | GConst (g : term) | GVar (v : cvar).
Inductive expr :=
| EVar (v : cvar)
| EConst (i : item)
| EExists (g : gspec) (p : tpat)
| EBound (v : cvar)
| ENot (e : expr)
| ECoalesce (a b : expr)
| EIf (c t e : expr).

Definition xd_boolean_str : str := xsd_ns ++ [98;111;111;108;101;97;110].
Definition bool_item (b : bool) : item :=
  mkItem (LitDt (if b then [116;114;117;101] else [102;97;108;115;101]) xd_boolean_str) (Some (VBool (Some b))).
Definition ebv (i : item) : option bool :=
  match val i with Some (VBool (Some b)) => Some b | _ => None end.

Definition exists_in (ds : dataset) (gm : matcher) (b : binding) (p : tpat) : bool :=
  match bgp ds gm [p] b with [] => false | _ => true end.
(* Exists(pattern): a fresh ExecState on the same config, select(pattern, graph_matcher, Some(binding));
   pattern = Bgp: the active graph; pattern = Graph(name, Bgp): exec.rs graph() with the binding *)
Definition eval_exists (ds : dataset) (gm : matcher) (b : binding) (g : gspec) (p : tpat) : bool :=
  match g with
  | GActive => exists_in ds gm b p
  | GConst t => is_named ds t && exists_in ds [Some t] b p
  | GVar v => match lookup b v with
              | Some i => is_named ds (tm i) && exists_in ds [Some (tm i)] b p
              | None => existsb (fun t => exists_in ds [Some t] b p) (graph_names ds)
              end
  end.
Fixpoint eval_expr (ds : dataset) (gm : matcher) (b : binding) (e : expr) : option item :=
  match e with
  | EVar v => lookup b v
  | EConst i => Some i
  | EExists g p => Some (bool_item (eval_exists ds gm b g p))
  | EBound v => Some (bool_item (match lookup b v with Some _ => true | None => false end))
  | ENot e' => match eval_expr ds gm b e' with
               | Some i => option_map (fun x => bool_item (negb x)) (ebv i)
               | None => None
               end
  | ECoalesce a a' => match eval_expr ds gm b a with
                      | Some i => Some i
                      | None => eval_expr ds gm b a'
                      end
  | EIf c t e' => match eval_expr ds gm b c with
                  | Some i => match ebv i with
                              | Some true => eval_expr ds gm b t
                              | Some false => eval_expr ds gm b e'
                              | None => None
                              end
                  | None => None
                  end
  end.

(* ---------- the algebra ---------- *)
Inductive cq :=
| CBgp (ps : list tpat)
| CUnion (l r : cq)
| CGraphC (g : term) (q : cq)
| CGraphV (v : cvar) (q : cq)
| CExtend (v : cvar) (e : expr) (q : cq)
| COrder (keys : list (expr * bool)) (q : cq)
| CProject (vs : list cvar) (q : cq)
| CSlice (start : N) (len : option N) (q : cq).

(* order_by: the criteria are evaluated on each solution with the graph_matcher that order_by received *)
Definition keys_of (ds : dataset) (gm : matcher) (keys : list (expr * bool)) (b : binding) : row :=
  map (fun k => eval_expr ds gm b (fst k)) keys.
Definition cmp_sol (ds : dataset) (gm : matcher) (keys : list (expr * bool)) (b1 b2 : binding) : comparison :=
  cmp_bindings_with order_by (map snd keys) (keys_of ds gm keys b1) (keys_of ds gm keys b2).
Definition ltb_of {A} (c : A -> A -> comparison) (a b : A) : bool :=
  match c a b with Lt => true | _ => false end.
(* every earlier element is strictly before every later one: sorted, and no two elements are tied *)
Definition strictly_sorted {A} (c : A -> A -> comparison) (l : list A) : bool := all_pairs_le (ltb_of c) l.

(* graph_rec: the solutions of the inner pattern on the graph [g], joined with { v -> g } *)
Definition join_graph (v : cvar) (g : term) (l : list binding) : list binding :=
  flat_map (fun b => match lookup b v with
                     | Some j => if term_eqb (tm j) g then [b] else []
                     | None => [(v, mkItem g None) :: b]
                     end) l.
Definition extend_with (ds : dataset) (gm : matcher) (v : cvar) (e : expr) (b : binding) : binding :=
  match eval_expr ds gm b e with Some i => (v, i) :: b | None => b end.
Definition project_to (vs : list cvar) (b : binding) : binding :=
  filter (fun p => existsb (N.eqb (fst p)) vs) b.
Fixpoint concat_opt {A} (l : list (option (list A))) : option (list A) :=
  match l with
  | [] => Some []
  | Some x :: l' => option_map (app x) (concat_opt l')
  | None :: _ => None
  end.

(* None: no opinion; Some (solutions, is_a_sequence) *)
Fixpoint ceval (ds : dataset) (gm : matcher) (q : cq) : option (list binding * bool) :=
  match q with
  | CBgp ps => Some (bgp ds gm ps [], false)
  | CUnion l r => match ceval ds gm l, ceval ds gm r with
                  | Some (a, _), Some (b, _) => Some (a ++ b, false)
                  | _, _ => None
                  end
  | CGraphC g q' => if is_named ds g
                    then option_map (fun r => (fst r, false)) (ceval ds [Some g] q')
                    else Some ([], false)
  | CGraphV v q' =>
      option_map (fun l => (l, false))
        (concat_opt (map (fun g => option_map (fun r => join_graph v g (fst r)) (ceval ds [Some g] q'))
                         (graph_names ds)))
  | CExtend v e q' => option_map (fun r => (map (extend_with ds gm v e) (fst r), snd r)) (ceval ds gm q')
  | COrder keys q' => match ceval ds gm q' with
                      | Some (l, _) => let s := isort (cmp_sol ds gm keys) l in
                                       if strictly_sorted (cmp_sol ds gm keys) s then Some (s, true) else None
                      | None => None
                      end
  | CProject vs q' => option_map (fun r => (map (project_to vs) (fst r), snd r)) (ceval ds gm q')
  | CSlice start len q' => match ceval ds gm q' with
                           | Some (l, true) => Some (window start len l, true)
                           | _ => None
                           end
  end.

(* ---------- harness-facing checker ---------- *)
Definition row_of (vs : list cvar) (b : binding) : list (option item) := map (lookup b) vs.
Definition cell_eqb (a b : option item) : bool := opt_eqb (fun x y => term_eqb (tm x) (tm y)) a b.
Definition crow_eqb : list (option item) -> list (option item) -> bool := list_eqb cell_eqb.
Definition count_row (r : list (option item)) (l : list (list (option item))) : nat :=
  length (filter (crow_eqb r) l).
Definition bag_eqb (l m : list (list (option item))) : bool :=
  Nat.eqb (length l) (length m) && forallb (fun r => Nat.eqb (count_row r l) (count_row r m)) l.
(* [vs]: the columns of the outermost SELECT, [out]: the rows that the implementation returned.  The harness
   only submits queries whose ORDER BYs are free of ties, so "no opinion" is a disagreement. *)
Definition ctx_ok_at (gm0 : matcher) (ds : dataset) (q : cq) (vs : list cvar) (out : list (list (option item))) : bool :=
  match ceval ds gm0 q with
  | Some (l, true) => list_eqb crow_eqb (map (row_of vs) l) out
  | Some (l, false) => bag_eqb (map (row_of vs) l) out
  | None => false
  end.
(* [gm0]: the default graph of the query: [None] without FROM, [Some g] with FROM <g> (ExecState::new) *)
Definition ctx_ok := ctx_ok_at default_matcher.

(* the same query with every ORDER BY evaluating its keys against [wrong] whatever the active graph is:
   NOT the model, the defect that Properties.v shows to be observable *)
Fixpoint eval_keys_at (wrong : matcher) (ds : dataset) (gm : matcher) (q : cq) : option (list binding * bool) :=
  match q with
  | CBgp ps => Some (bgp ds gm ps [], false)
  | CUnion l r => match eval_keys_at wrong ds gm l, eval_keys_at wrong ds gm r with
                  | Some (a, _), Some (b, _) => Some (a ++ b, false)
                  | _, _ => None
                  end
  | CGraphC g q' => if is_named ds g
                    then option_map (fun r => (fst r, false)) (eval_keys_at wrong ds [Some g] q')
                    else Some ([], false)
  | CGraphV v q' =>
      option_map (fun l => (l, false))
        (concat_opt (map (fun g => option_map (fun r => join_graph v g (fst r)) (eval_keys_at wrong ds [Some g] q'))
                         (graph_names ds)))
  | CExtend v e q' => option_map (fun r => (map (extend_with ds gm v e) (fst r), snd r)) (eval_keys_at wrong ds gm q')
  | COrder keys q' => match eval_keys_at wrong ds gm q' with
                      | Some (l, _) => let s := isort (cmp_sol ds wrong keys) l in
                                       if strictly_sorted (cmp_sol ds wrong keys) s then Some (s, true) else None
                      | None => None
                      end
  | CProject vs q' => option_map (fun r => (map (project_to vs) (fst r), snd r)) (eval_keys_at wrong ds gm q')
  | CSlice start len q' => match eval_keys_at wrong ds gm q' with
                           | Some (l, true) => Some (window start len l, true)
                           | _ => None
                           end
  end.
