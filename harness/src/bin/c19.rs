//! C19: LocalLoader::get on a real directory tree (files contain their own path, canaries outside)
//! against the Coq model (C19/Model.v) and the confinement oracle.
use sophia_iri::Iri;
use sophia_resource::loader::{Loader, LoaderError, LocalLoader};
use std::path::{Path, PathBuf};
use verif_harness::*;

fn comps(p: &Path) -> Vec<String> { p.components().filter_map(|c| match c { std::path::Component::Normal(s) => Some(s.to_str().unwrap().to_string()), _ => None }).collect() }
fn c_path(p: &[String]) -> String { coq_list(p.iter().map(|s| coq_str(s))) }

fn main() {
    let a = parse_args();
    let mut sum = Summary::default();
    sum.rule = "case = (order of two overlapping namespace->directory mappings, IRI built from a namespace or a foreign prefix + 0..5 segments drawn from {names of files/dirs, '..', '.', '', percent-encoded dots, dotted names, the absolute path of a canary} + optional query/fragment); \
non-trivial = the IRI contains a dot/empty/encoded segment or an absolute remainder, or resolves through content negotiation; distinct = distinct (config, IRI)".into();
    let root = PathBuf::from(&a.out).join("fsroot");
    let _ = std::fs::remove_dir_all(&root);
    let root = { std::fs::create_dir_all(&root).unwrap(); root.canonicalize().unwrap() };
    let mk = |rel: &str, canary: bool| { let p = root.join(rel); std::fs::create_dir_all(p.parent().unwrap()).unwrap(); std::fs::write(&p, if canary { format!("CANARY:{}", p.display()) } else { p.display().to_string() }).unwrap(); };
    for f in ["r1/a.ttl", "r1/b", "r1/b.nt", "r1/d/c.rdf", "r1/d/e", "r1/%2e%2e", "r1/...", "r1/.hidden", "r1/f.jsonld", "r1/sub/inner.ttl", "r1/g", "r2/g.ttl", "r2/a", "r2/d/e.nt"] { mk(f, false); }
    for f in ["secret", "secret.ttl", "outside/secret.ttl", "r1x/a.ttl", "a.ttl", "g.ttl",
              // siblings of the mapped directories whose names are the directory name plus a negotiated extension
              "r1.ttl", "r1.nt", "r1.jsonld", "r1.rdf", "r2.ttl", "r2.nt", "r1", "sub.ttl"] { if f == "r1" { continue; } mk(f, true); }
    // model file system: every existing path with its kind, including the ancestors of root
    let mut fs_entries: Vec<(Vec<String>, bool)> = vec![];
    { let rc = comps(&root); for i in 1..=rc.len() { fs_entries.push((rc[..i].to_vec(), false)); } }
    fn walk(dir: &Path, out: &mut Vec<(Vec<String>, bool)>) { for e in std::fs::read_dir(dir).unwrap() { let e = e.unwrap(); let p = e.path(); let isf = p.is_file(); out.push((comps(&p), isf)); if !isf { walk(&p, out) } } }
    walk(&root, &mut fs_entries);
    let c_fs = coq_list(fs_entries.iter().map(|(p, f)| format!("({}, {})", c_path(p), coq_bool(*f))));
    let ns1 = "http://e/ns/"; let ns2 = "http://e/ns/sub/";
    let (d1, d2) = (root.join("r1"), root.join("r2"));
    let header = format!("From Sophia.C19 Require Import Model Config.\nFrom Sophia.gen Require Consts.\nDefinition the_fs : fsys := {c_fs}.\nDefinition cfgA : list cache := [({}, {}); ({}, {})].\nDefinition cfgB : list cache := [({}, {}); ({}, {})].\n",
        coq_str(ns1), c_path(&comps(&d1)), coq_str(ns2), c_path(&comps(&d2)), coq_str(ns2), c_path(&comps(&d2)), coq_str(ns1), c_path(&comps(&d1)));
    let loader_a = LocalLoader::new(vec![(Iri::new_unchecked(ns1.into()), d1.clone()), (Iri::new_unchecked(ns2.into()), d2.clone())]).unwrap();
    let loader_b = LocalLoader::new(vec![(Iri::new_unchecked(ns2.into()), d2.clone()), (Iri::new_unchecked(ns1.into()), d1.clone())]).unwrap();
    // configuration through `add`: the mappings of loader A registered one by one (the enclosing namespace first),
    // interleaved with adds that must be REFUSED (namespace without final slash, relative directory, a file) and must
    // leave nothing behind; the Coq model of this loader is cfgA
    let mut loader_c = LocalLoader::new(vec![]).unwrap();
    let mut add_failures: Vec<String> = vec![];
    {
        let mut refused = |l: &mut LocalLoader, ns: &str, dir: PathBuf, why: &str| { if l.add(Iri::new_unchecked(ns.to_string().into()), dir.clone()).is_ok() { add_failures.push(format!("LocalLoader::add({ns:?}, {dir:?}) was accepted although {why}")); } };
        refused(&mut loader_c, "http://e/outside", root.join("outside"), "the namespace does not end with a slash");
        loader_c.add(Iri::new_unchecked(ns1.into()), d1.clone()).unwrap();
        refused(&mut loader_c, "http://e/rel/", PathBuf::from("fsroot-relative"), "the directory is relative");
        refused(&mut loader_c, "http://e/file/", root.join("secret"), "the path is a file, not a directory");
        refused(&mut loader_c, "http://e/missing/", root.join("no-such-dir"), "the directory does not exist");
        loader_c.add(Iri::new_unchecked(ns2.into()), d2.clone()).unwrap();
        refused(&mut loader_c, "http://e/ns/sub", root.join("r1x"), "the namespace does not end with a slash");
    }
    // a mapped directory written with a `..` that follows a symbolic link: <root>/link -> real/sub, so that
    // <root>/link/../r3 IS <root>/real/r3 (and not <root>/r3, which holds a canary)
    mk("real/sub/x.ttl", false); mk("real/r3/a.ttl", false); mk("real/r3/b", false); mk("r3/a.ttl", true); mk("r3/b", true);
    let _ = std::os::unix::fs::symlink(root.join("real/sub"), root.join("link"));
    let loader_d = LocalLoader::new(vec![(Iri::new_unchecked("http://e/ln/".into()), root.join("link/../r3"))]);
    // generated configurations (Config.v): mappings drawn from a pool of acceptable and unacceptable ones, registered
    // through new() or through add() calls; the model predicts the refusal pattern and the behaviour of the result
    let rs = root.display().to_string();
    let cfg_pool: Vec<(String, String)> = vec![
        (ns1.into(), format!("{rs}/r1")), (ns2.into(), format!("{rs}/r2")), ("http://e/ns3/".into(), format!("{rs}/r1/sub")),
        (ns1.into(), format!("{rs}/r2")), ("http://e/ns/sub/deep/".into(), format!("{rs}/r2/d")), ("http://e/".into(), format!("{rs}/r1/d")),
        (ns2.into(), format!("{rs}/r1/../r2")), ("http://e/ns3/".into(), format!("{rs}/r1/d/../../r2/./d/")), (ns1.into(), format!("{rs}//r1/")),
        ("http://e/ns".into(), format!("{rs}/r1")), ("http://e/ns/sub".into(), format!("{rs}/r2")), ("http://e/ns#".into(), format!("{rs}/r1")),
        (ns1.into(), "r1".into()), (ns2.into(), "./r2".into()), (ns1.into(), "".into()),
        (ns1.into(), format!("{rs}/secret")), (ns2.into(), format!("{rs}/r1/a.ttl")), (ns1.into(), format!("{rs}/no-such-dir")),
        (ns2.into(), format!("{rs}/no-such-dir/../r2")), (ns1.into(), format!("{rs}/r1/a.ttl/../../r1")), (ns2.into(), format!("{rs}/r1/a.ttl/")),
        ("http://e/ns".into(), "r1".into()), ("http://e/ns".into(), format!("{rs}/secret")),
    ];
    let cfg_code = |e: &sophia_resource::loader::LocalLoaderError| -> u64 { use sophia_resource::loader::LocalLoaderError::*; match e { IriMustEndWithSlash(_) => 1, PathMustBeAbsolute(_) => 2, PathMustBeDirectory(_) => 3 } };
    let canary_abs = root.join("secret").display().to_string();
    let segs: Vec<String> = ["a", "b", "d", "c.rdf", "c", "e", "..", ".", "", "%2e%2e", "%2E%2E", "%2e", "...", ".hidden", "sub", "inner", "g", "g.ttl", "secret", "outside", "a.ttl", "b.nt", "f", "r1", "r2", "r1x", "..%2f", "%2f"].iter().map(|s| s.to_string()).collect();
    let base = Rng::new(a.seed);
    let mut cases = vec![]; let mut seen = std::collections::HashSet::new();
    let range: Vec<usize> = match a.only { Some(i) => vec![i], None => (0..a.n).collect() };
    for idx in range {
        let mut r = base.fork(idx as u64);
        let use_b = r.chance(1, 2);
        let mut prefix = *r.pick(&[ns1, ns1, ns1, ns1, ns1, ns1, ns2, ns2, "http://e/ns", "http://e/", "http://other/ns/", "http://e/ns/sub", "http://e/outside", "http://e/rel/", "http://e/file/", "http://e/missing/", "http://e/ns3/", "http://e/ns/sub/deep/", "http://e/ns3/", "http://e/"]);
        let n = r.below(6);
        let mut path: Vec<String> = (0..n).map(|_| r.pick(&segs).clone()).collect();
        let abs_attack = r.chance(1, 10);
        if abs_attack { path = vec![format!("/{}", canary_abs.trim_start_matches('/')), ]; if r.chance(1, 2) { path.insert(0, "".into()); } }
        // directed escape attempts: climb out with (possibly encoded) parent steps, then name a canary
        let climb = !abs_attack && r.chance(1, 4);
        if climb {
            let ups = ["..", "%2e%2e", "%2E%2E", ".%2e", "%2e.", "..%2f..", "%2e%2e%2f%2e%2e", "sub/..", "d/../..",
                       // empty segments must not count as a level down
                       ".//..", "sub//../..", "/..", "d//../..", "a///../../..", "./", "", "sub//.."];
            let targets = ["secret", "secret.ttl", "a.ttl", "g.ttl", "outside/secret.ttl", "outside/secret", "r1x/a.ttl", "r1x/a", "r2/a", "r1/b", "..%2fsecret.ttl"];
            path = (0..r.range(1, 3)).map(|_| r.ps(&ups).to_string()).collect();
            if r.chance(1, 5) { path.insert(0, r.pick(&segs).clone()); }
            path.push(r.ps(&targets).to_string());
        }
        // requests that designate existing files (directly, through content negotiation, with dot / empty segments as noise)
        let valid = !abs_attack && !climb && r.chance(1, 4);
        if valid {
            let good = ["a.ttl", "a", "b", "b.nt", "d/c.rdf", "d/c", "d/e", "f", "f.jsonld", "sub/inner.ttl", "sub/inner", "g", "g.ttl", ".hidden", "%2e%2e", "...", "e.nt", "e", "c.rdf", "inner", "inner.ttl", "d/e.nt"];
            let mut p: Vec<String> = r.ps(&good).split('/').map(|x| x.to_string()).collect();
            if r.chance(1, 3) { p.insert(0, ".".into()); }
            if r.chance(1, 4) { let k = r.below(p.len()); p.insert(k, "".into()); }
            if r.chance(1, 5) { let k = r.below(p.len()); p.insert(k, ".".into()); }
            path = p;
            if r.chance(3, 4) { prefix = if r.chance(2, 3) { ns1 } else { ns2 }; }
        }
        let long = r.chance(1, 40);
        if long { path.push("x".repeat(300)); }
        // the namespace itself (and "the namespace plus ./"): the last path component is then the mapped directory
        if !abs_attack && !climb && r.chance(1, 12) { path = match r.below(4) { 0 => vec![], 1 => vec![".".into()], 2 => vec!["".into()], _ => vec![".".into(), "".into()] }; }
        let mut iri = format!("{prefix}{}", path.join("/"));
        if r.chance(1, 8) { iri.push_str("?q=1"); }
        if r.chance(1, 4) { iri.push_str("#frag/../x"); }
        let Ok(iri_v) = Iri::new(iri.clone()) else { continue };
        let use_c = !use_b && r.chance(1, 2);
        // a generated configuration for a quarter of the cases
        let use_gen = r.chance(1, 4);
        let mut gen_loader: Option<LocalLoader> = None;
        let mut gen_ops: Vec<(String, String)> = vec![];
        let mut gen_codes: Vec<u64> = vec![];
        let mut gen_new_err: Option<u64> = None;   // Some(code) when built with new(): 0 = accepted
        let mut gen_accepted: Vec<(String, PathBuf)> = vec![];
        if use_gen {
            let k = r.range(1, 4);
            // mostly acceptable mappings, so that new() often succeeds
            gen_ops = (0..k).map(|_| if r.chance(2, 3) { cfg_pool[r.below(9)].clone() } else { r.pick(&cfg_pool).clone() }).collect();
            let mk_iri = |n: &str| Iri::new_unchecked(n.to_string().into());
            if r.chance(1, 2) {
                match LocalLoader::new(gen_ops.iter().map(|(n, d)| (mk_iri(n), PathBuf::from(d))).collect()) {
                    Ok(l) => { gen_new_err = Some(0); gen_loader = Some(l); }
                    Err(e) => { gen_new_err = Some(cfg_code(&e)); }
                }
            } else {
                let mut l = LocalLoader::default();
                for (n, d) in &gen_ops { gen_codes.push(match l.add(mk_iri(n), PathBuf::from(d)) { Ok(()) => 0, Err(e) => cfg_code(&e) }); }
                gen_loader = Some(l);
            }
            // independent expectation of which mappings are acceptable (the documented pre-conditions)
            let mut first_err = 0u64;
            for (i, (n, d)) in gen_ops.iter().enumerate() {
                let p = Path::new(d);
                let want = if !n.ends_with('/') { 1 } else if !d.starts_with('/') { 2 } else if !std::fs::metadata(p).map(|m| m.is_dir()).unwrap_or(false) { 3 } else { 0 };
                if want == 0 { gen_accepted.push((n.clone(), p.canonicalize().unwrap())); } else if first_err == 0 { first_err = want; }
                if gen_new_err.is_none() && gen_codes[i] != want { sum.oracle_failures.push((idx.to_string(), format!("config: LocalLoader::add({n:?}, {d:?}) answered code {} (0 accepted, 1 slash, 2 absolute, 3 directory), the documented pre-conditions give {want}", gen_codes[i]))); }
            }
            if let Some(c) = gen_new_err { if c != first_err { sum.oracle_failures.push((idx.to_string(), format!("config: LocalLoader::new({gen_ops:?}) answered code {c}, the first offending mapping gives {first_err}"))); } }
            sum.bump(if gen_new_err.is_some() { "config:generated-new" } else { "config:generated-adds" });
            if gen_new_err.unwrap_or(0) != 0 || gen_codes.iter().any(|c| *c != 0) { sum.bump("config:with-refusal"); }
        }
        let c_ops = coq_list(gen_ops.iter().map(|(n, d)| format!("({}, {})", coq_str(n), coq_str(d))));
        if use_gen && gen_loader.is_none() {
            // new() refused: the refusal itself is the case
            sum.evaluations += 1;
            let text = format!("cfg=new{gen_ops:?} refused");
            if seen.insert(text.clone()) { sum.distinct_nontrivial += 1; }
            cases.push((idx, format!("new_get_ok the_fs Consts.loader_exts {c_ops} {} [] 0 [] 0", gen_new_err.unwrap())));
            continue;
        }
        let loader = if use_gen { gen_loader.as_ref().unwrap() } else if use_b { &loader_b } else if use_c { &loader_c } else { &loader_a };
        let res = loader.get(iri_v);
        let (code, pth, ct, desc): (u64, Vec<String>, u64, String) = match &res {
            Ok((data, ctype)) => {
                let s = String::from_utf8_lossy(data).to_string();
                let ct = match ctype.as_str() { "text/turtle" => 1, "application/n-triples" => 2, "application/ld+json" => 3, "application/rdf+xml" => 4, _ => 0 };
                (0, comps(Path::new(s.trim_start_matches("CANARY:"))), ct, format!("Ok(content of {s}, {ctype})"))
            }
            Err(LoaderError::NotFound(_)) => (1, vec![], 0, "NotFound".into()),
            Err(LoaderError::UnsupportedIri(..)) => (2, vec![], 0, "UnsupportedIri".into()),
            Err(LoaderError::IoError(..)) => (3, vec![], 0, "IoError".into()),
            Err(e) => (9, vec![], 0, format!("{e:?}")),
        };
        // oracle: content only ever comes from inside the directory of a namespace prefixing the IRI
        if let Ok((data, _)) = &res {
            let s = String::from_utf8_lossy(data).to_string();
            let no_frag = iri.split('#').next().unwrap();
            let maps: Vec<(String, PathBuf)> = if use_gen { gen_accepted.clone() } else { vec![(ns1.to_string(), d1.clone()), (ns2.to_string(), d2.clone())] };
            let ok = !s.starts_with("CANARY:") && maps.iter().any(|(ns, d)| no_frag.starts_with(ns.as_str()) && Path::new(&s).starts_with(d));
            if !ok { sum.oracle_failures.push((idx.to_string(), format!("LocalLoader.get({iri:?}) with mappings {} returned the content of {s}, which is outside every directory mapped to a namespace prefixing the IRI", if use_gen { format!("{gen_ops:?} (generated; acceptable: {gen_accepted:?})") } else if use_b { "[sub->r2, ns->r1]".to_string() } else if use_c { "[ns->r1, sub->r2] (registered with add(), refused adds in between)".to_string() } else { "[ns->r1, sub->r2]".to_string() }))); }
        }
        let text = format!("cfg={} iri={iri}", if use_gen { format!("{}{gen_ops:?}", if gen_new_err.is_some() { "new" } else { "adds" }) } else if use_b { "B".into() } else if use_c { "A(add)".into() } else { "A".into() });
        if a.only.is_some() { println!("CASE {idx}: {text} => {desc}"); }
        let nontrivial = iri.contains("..") || iri.contains("/./") || iri.contains("//e") == false && iri[7..].contains("//") || iri.contains("%2") || abs_attack || (code == 0 && !iri.split('#').next().unwrap().ends_with(pth.last().map(|s| s.as_str()).unwrap_or("")));
        if seen.insert(text.clone()) && nontrivial { sum.distinct_nontrivial += 1; }
        sum.bump(&format!("result:{}", ["found", "not-found", "unsupported", "io-error"].get(code as usize).unwrap_or(&"other")));
        if valid { sum.bump("request-for-an-existing-file"); } if abs_attack { sum.bump("absolute-remainder"); } if climb { sum.bump("directed-climb"); } if iri.contains("..") { sum.bump("has-dotdot"); }
        if sum.samples.len() < 5 && nontrivial && (code == 0 || sum.samples.len() < 2) { sum.samples.push(format!("case {idx}: {text} => {desc}")); }
        sum.evaluations += 1;
        if !long {
            if use_gen && gen_new_err.is_some() { cases.push((idx, format!("new_get_ok the_fs Consts.loader_exts {c_ops} 0 {} {code} {} {ct}", coq_str(&iri), c_path(&pth)))); }
            else if use_gen { cases.push((idx, format!("adds_get_ok the_fs Consts.loader_exts {c_ops} {} {} {code} {} {ct}", coq_list(gen_codes.iter().map(|c| c.to_string())), coq_str(&iri), c_path(&pth)))); }
            else { cases.push((idx, format!("get_ok the_fs Consts.loader_exts {} {} {code} {} {ct}", if use_b { "cfgB" } else { "cfgA" }, coq_str(&iri), c_path(&pth)))); }
        }
    }
    for f in add_failures { sum.oracle_failures.push(("config-add".into(), f)); }
    match &loader_d {
        Err(e) => sum.oracle_failures.push(("config-symlink".into(), format!("LocalLoader::new refused the directory <root>/link/../r3 (which exists: link -> real/sub): {e:?}"))),
        Ok(l) => for (req, want) in [("http://e/ln/a.ttl", Some("real/r3/a.ttl")), ("http://e/ln/b", Some("real/r3/b")), ("http://e/ln/x.ttl", None), ("http://e/ln/sub/x.ttl", None)] {
            let got = l.get(Iri::new_unchecked(req.to_string())).ok().map(|(d, _)| String::from_utf8_lossy(&d).to_string());
            let want_s = want.map(|w| root.join(w).display().to_string());
            sum.evaluations += 1; sum.bump("config:directory-with-dotdot-after-symlink");
            if got != want_s { sum.oracle_failures.push(("config-symlink".into(), format!("mapping http://e/ln/ -> <root>/link/../r3 with link -> real/sub (so the directory is <root>/real/r3): get({req:?}) returned {got:?}, expected {want_s:?}"))); }
        }
    }
    if a.only.is_none() {
        sum.shards = write_shards(&a.out, &header, &cases, a.shards);
        sum.extra.push(("coq_cases".into(), cases.len().to_string()));
        std::fs::write(format!("{}/summary.json", a.out), sum.to_json()).unwrap();
    }
    println!("c19: {} cases, {} distinct non-trivial, {} oracle failures", sum.evaluations, sum.distinct_nontrivial, sum.oracle_failures.len());
}
