(* C16/VecStore.v -- cost-instrumented model of the Vec-backed stores of
   api/src/dataset/_foreign_impl.rs and api/src/graph/_foreign_impl.rs and of the provided
   methods of MutableDataset / MutableGraph that they inherit (api/src/dataset.rs, graph.rs).

   A Vec store is NOT a set: `insert` pushes, so a statement may be held any number of times and
   every mutation that looks for it meets every copy.  The model keeps the Vec as a list (index 0
   first) of statement identities (equal numbers <-> Term::eq on every position), in the cost
   monad of C16/Model.v (frames: [call] per function entered, [bind] for loops).

   Modelled code (two flavours: [true] = Vec<Gspo<T>>, [false] = Vec<Spog<T>> and Vec<[T; 3]>):
     Vec<Gspo<T>>::remove     iter().position(matched_by) + swap_remove: the FIRST copy
     Vec<Spog<T>>::remove     while i < len { if matched_by { swap_remove(i) } else { i += 1 } };
     Vec<[T; 3]>::remove      Ok(true): EVERY copy, and `true` whatever happened
     insert                   push, Ok(true)
     remove_quad / remove_triple, remove_all, remove_matching, retain_matching (provided methods)
     contains                 quads_matching([s],[p],[o],[g]).next()
   Definitions only. *)
From Sophia.C16 Require Import Model.

Definition vq := N.
Definition vstore := list vq.

(* number of copies of a statement *)
Fixpoint cnt (x : vq) (v : vstore) : nat :=
  match v with [] => O | y :: r => if N.eqb x y then S (cnt x r) else cnt x r end.

(* Vec::swap_remove(i), i < len: the last element takes the place of element i *)
Definition swap_remove (v : vstore) (i : nat) : vstore :=
  match rev v with
  | [] => []
  | l :: rfront =>
      let front := rev rfront in
      if Nat.eqb i (length front) then front
      else firstn i front ++ l :: skipn (S i) front
  end.

(* Quad::matched_by([s], [p], [o], [g]) on one element: a callee that calls Term::eq *)
Definition matched_c (q x : vq) : C bool := call (leaf (N.eqb q x)).

(* Iterator::position(closure): the loop of the standard library (one frame) calls the closure *)
Fixpoint position_body (q : vq) (v : vstore) (i : nat) : C (option nat) :=
  match v with
  | [] => ret None
  | x :: r => b <- call (matched_c q x) ;; if b then ret (Some i) else position_body q r (S i)
  end.
Definition position_c (q : vq) (v : vstore) : C (option nat) := call (position_body q v O).

(* insert: self.push(..); Ok(true) *)
Definition insert_c (q : vq) (v : vstore) : C (bool * vstore) :=
  call (v' <- leaf (v ++ [q]) ;; ret (true, v')).

(* Vec<Gspo<T>>::remove *)
Definition gspo_remove_c (q : vq) (v : vstore) : C (bool * vstore) :=
  call (p <- position_c q v ;;
        match p with
        | None => ret (false, v)
        | Some i => v' <- leaf (swap_remove v i) ;; ret (true, v')
        end).

(* Vec<Spog<T>>::remove, Vec<[T; 3]>::remove.  Each turn of the `while` either removes an element
   or advances i: length v turns are enough (lemma spog_fuel). *)
Fixpoint spog_loop (fuel : nat) (q : vq) (v : vstore) (i : nat) : C vstore :=
  match fuel with
  | O => ret v
  | S f =>
      match nth_error v i with
      | None => ret v
      | Some x => b <- matched_c q x ;;
                  if b then v' <- leaf (swap_remove v i) ;; spog_loop f q v' i
                  else spog_loop f q v (S i)
      end
  end.
Definition spog_remove_c (q : vq) (v : vstore) : C (bool * vstore) :=
  call (v' <- spog_loop (length v) q v O ;; ret (true, v')).

Definition remove_c (gspo : bool) : vq -> vstore -> C (bool * vstore) :=
  if gspo then gspo_remove_c else spog_remove_c.
(* remove_quad / remove_triple: to_spog, then remove *)
Definition remove_quad_c (gspo : bool) (q : vq) (v : vstore) : C (bool * vstore) :=
  call (remove_c gspo q v).

(* remove_all: `src.try_for_each_quad(closure)`: the loop of the source (one frame) calls the
   closure (one frame) once per statement of the source; the closure calls remove_quad *)
Fixpoint remove_all_body (gspo : bool) (src : list vq) (v : vstore) (c : N) : C (N * vstore) :=
  match src with
  | [] => ret (c, v)
  | q :: r => '(b, v') <- call (remove_quad_c gspo q v) ;;
              remove_all_body gspo r v' (if b : bool then c + 1 else c)
  end.
Definition remove_all_c (gspo : bool) (src : list vq) (v : vstore) : C (N * vstore) :=
  call (call (remove_all_body gspo src v 0)).

(* `self.quads_matching(..).map_ok(..).collect()`: collect (one frame) pulls from the filter
   adapter (one frame), which calls the matcher once per element *)
Fixpoint collect_body (m : vq -> bool) (v : vstore) : C (list vq) :=
  match v with
  | [] => ret []
  | x :: r => b <- call (leaf (m x)) ;; rest <- collect_body m r ;;
              ret (if b : bool then x :: rest else rest)
  end.
Definition collect_c (m : vq -> bool) (v : vstore) : C (list vq) := call (call (collect_body m v)).

Definition remove_matching_c (gspo : bool) (m : vq -> bool) (v : vstore) : C (N * vstore) :=
  call (l <- collect_c m v ;; remove_all_c gspo l v).
Definition retain_matching_c (gspo : bool) (m : vq -> bool) (v : vstore) : C (N * vstore) :=
  call (l <- collect_c (fun x => negb (m x)) v ;; '(_, v') <- remove_all_c gspo l v ;; ret (0, v')).
(* contains: the first item of the filter adapter *)
Definition contains_c (q : vq) (v : vstore) : C bool :=
  call (p <- position_c q v ;; ret (match p with Some _ => true | None => false end)).

(* ---- the same without costs ---------------------------------------------------------------- *)
Fixpoint position_p (q : vq) (v : vstore) (i : nat) : option nat :=
  match v with
  | [] => None
  | x :: r => if N.eqb q x then Some i else position_p q r (S i)
  end.
Definition insert_p (q : vq) (v : vstore) : bool * vstore := (true, v ++ [q]).
Definition gspo_remove_p (q : vq) (v : vstore) : bool * vstore :=
  match position_p q v O with None => (false, v) | Some i => (true, swap_remove v i) end.
Fixpoint spog_loop_p (fuel : nat) (q : vq) (v : vstore) (i : nat) : vstore :=
  match fuel with
  | O => v
  | S f =>
      match nth_error v i with
      | None => v
      | Some x => if N.eqb q x then spog_loop_p f q (swap_remove v i) i else spog_loop_p f q v (S i)
      end
  end.
Definition spog_remove_p (q : vq) (v : vstore) : bool * vstore := (true, spog_loop_p (length v) q v O).
Definition remove_p (gspo : bool) : vq -> vstore -> bool * vstore :=
  if gspo then gspo_remove_p else spog_remove_p.
Fixpoint remove_all_p (gspo : bool) (src : list vq) (v : vstore) (c : N) : N * vstore :=
  match src with
  | [] => (c, v)
  | q :: r => let '(b, v') := remove_p gspo q v in
              remove_all_p gspo r v' (if b : bool then c + 1 else c)
  end.
Definition remove_matching_p (gspo : bool) (m : vq -> bool) (v : vstore) : N * vstore :=
  remove_all_p gspo (filter m v) v 0.
Definition retain_matching_p (gspo : bool) (m : vq -> bool) (v : vstore) : N * vstore :=
  (0, snd (remove_all_p gspo (filter (fun x => negb (m x)) v) v 0)).
Definition contains_p (q : vq) (v : vstore) : bool :=
  match position_p q v O with Some _ => true | None => false end.

(* ---- a shape that is NOT in the code: one self-call per copy removed ------------------------ *)
(* (remove the next copy in v[from..], then call yourself for the rest: what the frame count makes
   of a removal written as a recursion over the copies; see every_copy_rec_refuted) *)
Fixpoint every_copy_rec_c (fuel : nat) (q : vq) (v : vstore) (from : nat) : C (bool * vstore) :=
  match fuel with
  | O => ret (false, v)
  | S f =>
      call (p <- position_c q (skipn from v) ;;
            match p with
            | None => ret (false, v)
            | Some i => v' <- leaf (swap_remove v (from + i)) ;;
                        '(_, v'') <- every_copy_rec_c f q v' (from + i) ;; ret (true, v'')
            end)
  end.

(* ---- histories ------------------------------------------------------------------------------ *)
Inductive vop :=
| VInsert (q : vq)
| VRemove (q : vq)
| VRemoveQuad (q : vq)
| VRemoveAll (src : list vq)
| VRemoveMatching (acc : list vq)
| VRetainMatching (acc : list vq)
| VContains (q : vq).

Definition bN (b : bool) : N := if b then 1 else 0.
Definition acc_matcher (acc : list vq) : vq -> bool := fun x => existsb (N.eqb x) acc.

(* one operation: the value returned (booleans as 0 / 1, counts as they are) and the new Vec *)
Definition vstep_c (gspo : bool) (o : vop) (v : vstore) : C (N * vstore) :=
  match o with
  | VInsert q => '(b, v') <- insert_c q v ;; ret (bN b, v')
  | VRemove q => '(b, v') <- remove_c gspo q v ;; ret (bN b, v')
  | VRemoveQuad q => '(b, v') <- remove_quad_c gspo q v ;; ret (bN b, v')
  | VRemoveAll src => remove_all_c gspo src v
  | VRemoveMatching acc => remove_matching_c gspo (acc_matcher acc) v
  | VRetainMatching acc => retain_matching_c gspo (acc_matcher acc) v
  | VContains q => b <- contains_c q v ;; ret (bN b, v)
  end.
Definition vstep_p (gspo : bool) (o : vop) (v : vstore) : N * vstore :=
  match o with
  | VInsert q => (1, v ++ [q])
  | VRemove q | VRemoveQuad q => let '(b, v') := remove_p gspo q v in (bN b, v')
  | VRemoveAll src => remove_all_p gspo src v 0
  | VRemoveMatching acc => remove_matching_p gspo (acc_matcher acc) v
  | VRetainMatching acc => retain_matching_p gspo (acc_matcher acc) v
  | VContains q => (bN (contains_p q v), v)
  end.
(* the caller's sequence of operations: each starts from the caller's depth *)
Fixpoint vrun_c (gspo : bool) (ops : list vop) (v : vstore) : C (list (N * vstore)) :=
  match ops with
  | [] => ret []
  | o :: r => '(x, v') <- vstep_c gspo o v ;; rest <- vrun_c gspo r v' ;; ret ((x, v') :: rest)
  end.
Fixpoint vrun_p (gspo : bool) (ops : list vop) (v : vstore) : list (N * vstore) :=
  match ops with
  | [] => []
  | o :: r => let '(x, v') := vstep_p gspo o v in (x, v') :: vrun_p gspo r v'
  end.

(* ---- harness-facing checker ----------------------------------------------------------------- *)
(* [flavour]: 0 = Vec<Gspo<T>>, 1 = Vec<Spog<T>>, 2 = Vec<[T; 3]>; [obs]: after each operation,
   the value it returned and the content of the Vec in index order *)
Definition obs_eqb (a b : N * list N) : bool :=
  N.eqb (fst a) (fst b) && list_eqb N.eqb (snd a) (snd b).
Definition vec_ok (flavour : N) (ops : list vop) (obs : list (N * list N)) : bool :=
  list_eqb obs_eqb (res (vrun_c (N.eqb flavour 0) ops [])) obs.
