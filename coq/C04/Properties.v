(* C04/Properties.v -- pinned statements of property C04 (Turtle/TriG output parses back to an isomorphic
   dataset).  Only Checks, small Examples showing non-vacuity, and Print Assumptions. *)
From Coq Require Import Permutation.
From Sophia.Common Require Import Prelude.
From Sophia.Common Require Import Term.
From Sophia.C04 Require Import Regex Grammar Model AtomsProofs PreFix Proofs.
From Sophia.C04 Require Import TermGrammar TermRead TermText TermProofs.
From Sophia.C04 Require Import Deep DeepProofs.
From Sophia.C04 Require Import DocRead DocText DocProofs DocStore.
From Sophia.C04 Require DocShapes DocClass.
From Sophia.C04 Require Lang Incl TermShapes PrefixIncl.
From Sophia.C09 Require Model.

(* ===== (1) the regenerated regular expressions stay inside the Turtle grammar ===== *)
(* decided by `ka` on the atom level for every Kleene algebra, transported to words over code points *)
Check (Incl.integer_re_incl : forall w, matchb integer_re w = true -> matchb INTEGER w = true).
Check (Incl.decimal_re_incl : forall w, matchb decimal_re w = true -> matchb DECIMAL w = true).
Check (Incl.double_re_incl : forall w, matchb double_re w = true -> matchb DOUBLE w = true).
Check (Incl.boolean_re_incl : forall w, matchb boolean_re w = true -> matchb BOOLEAN w = true).
Check (Incl.pn_local_re_incl : forall w, matchb pn_local_re w = true -> matchb PN_LOCAL w = true).
Check (Incl.pn_local_re_no_unescape : forall w, matchb pn_local_re w = true ->
  existsb (N.eqb c_bslash) w = false -> matchb PN_LOCAL_noesc w = true).
(* the three numeric productions of the grammar are pairwise disjoint *)
Check (Incl.numeric_disjoint : forall w,
  (matchb INTEGER w = true -> matchb DECIMAL w = false /\ matchb DOUBLE w = false) /\
  (matchb DECIMAL w = true -> matchb INTEGER w = false /\ matchb DOUBLE w = false) /\
  (matchb DOUBLE w = true -> matchb INTEGER w = false /\ matchb DECIMAL w = false)).
(* hence a literal written bare is read back with the same datatype *)
Check (bare_literal_sound : forall dt lex, bare_literal dt lex = true ->
  (dt = xsd_integer /\ matchb INTEGER lex = true /\ matchb DECIMAL lex = false /\ matchb DOUBLE lex = false) \/
  (dt = xsd_decimal /\ matchb DECIMAL lex = true /\ matchb INTEGER lex = false /\ matchb DOUBLE lex = false) \/
  (dt = xsd_double /\ matchb DOUBLE lex = true /\ matchb INTEGER lex = false /\ matchb DECIMAL lex = false) \/
  (dt = xsd_boolean /\ matchb BOOLEAN lex = true)).
(* the executable matcher decides membership in the language denoted by a regex; abstraction to atoms is exact *)
Check (Lang.matchb_spec : forall r w, matchb r w = true <-> Lang.langc r w).
Check (aligned_spec : forall rs, aligned rs = true -> forall c, inr c rs = memN (atom_of c) (atoms_in rs)).
Check (atoms_partition : forall c, c <= max_cp ->
  exists e, In e atom_table /\ e_lo e <= c <= e_hi e /\ atom_of c = e_atom e /\ atom_of c < n_atoms).

(* what the translator emitted is consistent with what Coq computes from the classes *)
Example translator_atoms_agree :
  rexN_eqb (abstract integer_re) integer_re_atoms && rexN_eqb (abstract decimal_re) decimal_re_atoms &&
  rexN_eqb (abstract double_re) double_re_atoms && rexN_eqb (abstract boolean_re) boolean_re_atoms &&
  rexN_eqb (abstract pn_local_re) pn_local_re_atoms = true.
Proof. vm_compute. reflexivity. Qed.
Example everything_aligned :
  forallb all_aligned [integer_re; decimal_re; double_re; boolean_re; pn_local_re;
                       INTEGER; DECIMAL; DOUBLE; BOOLEAN; PN_LOCAL; PN_LOCAL_noesc; NO_DOT_E; HAS_DOT_NO_E; HAS_E; HAS_BSLASH] = true.
Proof. vm_compute. reflexivity. Qed.
(* non-vacuity: the grammar and the regenerated regexes accept and reject *)
Example grammar_examples :
  matchb INTEGER [43; 49; 50] = true /\ matchb INTEGER [49; 46] = false /\                 (* "+12", "1." *)
  matchb DECIMAL [46; 53] = true /\ matchb DECIMAL [49; 46] = false /\                     (* ".5", "1." *)
  matchb DOUBLE [43; 49; 101; 48] = true /\ matchb DOUBLE [49; 101] = false /\             (* "+1e0", "1e" *)
  matchb DOUBLE [49; 46; 101; 51] = true /\                                                (* "1.e3" *)
  matchb BOOLEAN [116; 114; 117; 101] = true /\ matchb BOOLEAN [84; 82; 85; 69] = false /\ (* "true", "TRUE" *)
  matchb PN_LOCAL [97; 46; 98] = true /\ matchb PN_LOCAL [97; 46] = false /\               (* "a.b", "a." *)
  matchb PN_LOCAL [97; 37; 50; 48] = true /\ matchb PN_LOCAL [97; 47; 98] = false /\       (* "a%20", "a/b" *)
  bare_literal xsd_decimal [49; 46; 53] = true /\ bare_literal xsd_integer [49; 46; 53] = false /\
  bare_literal xsd_double [49; 101; 48] = true /\ bare_literal xsd_boolean [116; 114; 117; 101] = true.
Proof. vm_compute. repeat split; reflexivity. Qed.

(* ===== (2) prefixed names ===== *)
Check (gcpp_sound : forall check pm iri p suf, get_checked_prefixed_pair check pm iri = Some (p, suf) ->
  exists n, In (p, n) pm /\ n ++ suf = iri /\ check suf = true /\
    forall p' n' suf', In (p', n') pm -> n' ++ suf' = iri -> check suf' = true -> (length n' <= length n)%nat).
Check (gcpp_complete : forall check pm iri, get_checked_prefixed_pair check pm iri = None ->
  forall p' n' suf', In (p', n') pm -> n' ++ suf' = iri -> check suf' = true -> n' = []).
Check (write_iri_pname_sound : forall pm iri p loc, write_iri_pname pm iri = Some (p, loc) ->
  exists n, In (p, n) pm /\ n ++ loc = iri /\ matchb PN_LOCAL loc = true /\
    (existsb (N.eqb c_bslash) iri = false -> matchb PN_LOCAL_noesc loc = true)).
Example pname_examples :   (* "ab" -> "http://e/a/b#", "a" -> "http://e/a/", iri "http://e/a/b#c" *)
  let ns1 := [104;116;116;112;58;47;47;101;47;97;47] in
  let ns2 := ns1 ++ [98; 35] in
  write_iri_pname [([97], ns1); ([97; 98], ns2)] (ns2 ++ [99]) = Some ([97; 98], [99]) /\
  write_iri_pname [([97; 98], ns2); ([97], ns1)] (ns1 ++ [98; 47; 99]) = None /\
  write_iri_pname [([97], ns1)] (ns1 ++ [99; 46; 100]) = Some ([97], [99; 46; 100]).
Proof. vm_compute. repeat split; reflexivity. Qed.

(* ===== (3) every blank node cycle contains a labelled node ===== *)
Check (unlabelled_pred_wf : forall ks quads,
  well_founded (fun t n => upred (detect_cycles (profiles ks quads)) n t)).
Check (no_unlabelled_cycle : forall ks quads n, ~ upath (detect_cycles (profiles ks quads)) n n).
Check (build_labelled_spec : forall ks quads n,
  In n (build_labelled ks quads) <-> exists p, pm_get (detect_cycles (profiles ks quads)) n = Some p /\ bad p = true).
Check (every_cycle_has_a_labelled_node : forall ks quads n, ~ dpath ks quads n n).

(* ===== (4) lists ===== *)
Check (list_item_cell : forall first rest quads g s v r, first <> rest ->
  list_item first rest quads s = Some v -> In (g, s, rest, r) quads -> is_cell first rest quads s v r).
Check (lists_are_chains : forall ks first rest nil labelled quads, first <> rest ->
  forall head items,
  In (head, items) (fst (build_lists first rest nil ks quads (build_subject_types ks first rest labelled quads))) ->
  chain ks first rest nil labelled quads head items).

(* ===== (5) accounting: full statement kept as a definition, verified checker pinned ===== *)
Check (accounting_statement : Prop).
Check (exactly_once_sound : forall quads out, NoDup quads -> exactly_once quads out = true -> Permutation quads out).
Check (accounting_checked_partial : forall ks first rest nil type_ quads labels colls plists,
  NoDup quads -> plan_ok ks first rest nil type_ quads labels colls plists = true ->
  let w := emitted ks first rest nil type_ quads (make_plan ks first rest nil quads) in
  w_ok w = true /\ Permutation quads (w_out w)).

(* non-vacuity of (3)-(5): a well-formed list (1 2) owned by ex:s, plus a blank node cycle with a tail.
   0 _:a 1 _:b 2 _:c 3 _:l 4 _:m 5 ex:p 6 ex:s 7 rdf:first 8 rdf:nil 9 rdf:rest 10 rdf:type 11 "1" 12 "2" *)
Definition ex_ks : list tk := [TB; TB; TB; TB; TB; TI; TI; TI; TI; TI; TI; TL; TL].
Definition ex_quads : list quad :=
  [(None, 1, 5, 0); (None, 1, 5, 2); (None, 2, 5, 1);
   (None, 3, 7, 11); (None, 3, 9, 4); (None, 4, 7, 12); (None, 4, 9, 8); (None, 6, 5, 3)].
Example plan_example :
  let pl := make_plan ex_ks 7 9 8 ex_quads in
  pl_labelled pl = [1] /\ pl_lists pl = [(3, [11; 12])] /\
  plan_ok ex_ks 7 9 8 10 ex_quads [1] 1 1 = true.
Proof. vm_compute. repeat split; reflexivity. Qed.

(* ===== (6) the TEXT of a term: what write_term / write_non_list_term spell is read back, by a reader written from
         the W3C grammar, as the same term -- for all terms, prefix maps, answers of the IRI test, continuations ===== *)
(* the tokeniser: the longest-match rule, once and for all regular expressions *)
Check (longest_ok : forall r w rest, matchb r w = true ->
  (forall u v, rest = u ++ v -> u <> [] -> matchb r (w ++ u) = false) -> longest r (w ++ rest) = Some (w, rest)).
Check (longest_none : forall r l, (forall u v, l = u ++ v -> matchb r u = false) -> longest r l = None).
(* letters of the words of the token productions, decided by `ka` (TermShapes.v) *)
Check (TermShapes.pname_esc10 : forall w, matchb PNAME w = true ->
  TermShapes.all_in cls_not10 w \/
  exists x e y, w = x ++ 92 :: e :: y /\ TermShapes.all_in cls_not10 x /\ inr e cls_a10 = true).
Check (TermShapes.pname_enddot : forall w, matchb PNAME w = true ->
  (exists z x, w = z ++ [x] /\ inr x cls_notdot = true) \/ exists z, w = z ++ [92; 46]).
Check (TermShapes.pname_colon : forall w, matchb PNAME w = true ->
  exists x y, w = x ++ 58 :: y /\ TermShapes.all_in cls_pfx x).
Check (TermShapes.boolean_words : forall w, matchb BOOLEAN w = true -> w = [116; 114; 117; 101] \/ w = [102; 97; 108; 115; 101]).
(* tokens are cut where the writer ended them, before every admissible continuation *)
Check (numeric_cut : forall w rest, matchb NUMERIC w = true -> stop_ok rest = true -> longest NUMERIC (w ++ rest) = Some (w, rest)).
Check (label_cut : forall w rest, matchb BNODE_BODY w = true -> stop_ok rest = true -> longest BNODE_BODY (w ++ rest) = Some (w, rest)).
Check (pname_cut : forall tok rest, matchb PNAME_noesc tok = true -> stop_ok rest = true -> longest PNAME (tok ++ rest) = Some (tok, rest)).
Check (keyword_not_pname : forall pm kw rest, TermShapes.all_in cls_pfx kw -> stop_ok rest = true -> read_pname pm (kw ++ rest) = None).
Check (read_pname_ok : forall pm pre n suf rest,
  pm_ok pm = true -> In (pre, n) pm -> matchb PN_LOCAL_noesc suf = true -> stop_ok rest = true ->
  read_pname pm ((pre ++ [58] ++ suf) ++ rest) = Some (n ++ suf, rest)).
(* IRIs (both spellings of write_plain_iri), bare and quoted literals *)
Check (read_plain_iri : forall absf pm i rest, pm_ok pm = true -> iri_ok i = true -> stop_ok rest = true ->
  read_iri pm (wt_plain_iri absf pm i ++ rest) = Some (i, rest)).
Check (read_bare : forall pm lex dt p f rest, bare_literal dt lex = true -> allows_lit p = true -> stop_ok rest = true ->
  read_at (S f) p pm (lex ++ rest) = Some (LitDt lex dt, rest)).
Check (read_literal_dt : forall absf pm lex dt rest, pm_ok pm = true -> iri_ok dt = true -> stop_ok rest = true ->
  read_rdf_literal pm ((qs_cp lex ++ [34] ++
     (if negb (str_eqb xsd_string dt) then [94; 94] ++ wt_plain_iri absf pm dt else [])) ++ rest) = Some (LitDt lex dt, rest)).
Check (read_literal_lang : forall pm lex tag rest, langtag_ok tag = true -> stop_ok rest = true ->
  read_rdf_literal pm ((qs_cp lex ++ [34] ++ [64] ++ tag) ++ rest) = Some (LitLang lex tag, rest)).
(* THE TERM THEOREM, at every position, quoted triples of any depth *)
Check (read_wt : forall absf pm, pm_ok pm = true -> forall t p fuel rest,
  wf_at p t = true -> stop_ok rest = true -> (depth t < fuel)%nat ->
  read_at fuel p pm (wt_at absf pm p t ++ rest) = Some (t, rest)).
Check (read_term_write_term : forall absf pm t rest, pm_ok pm = true -> wf_at TObj t = true -> stop_ok rest = true ->
  read_term pm (wt_term absf pm t ++ rest) = Some (t, rest)).
Check (term_roundtrip : forall absf pm t rest, pm_ok pm = true -> wf_at TObj t = true -> stop_ok rest = true ->
  exists t', read_term pm (wt_term absf pm t ++ rest) = Some (t', rest) /\ term_eqb t' t = true).
(* bytes: the writer of TermText.v Part 1 is the UTF-8 encoding of the code-point writer; round trip on bytes *)
Check (wr_term_utf8 : forall absf pm t, wr_term absf pm t = utf8 (wt_term absf pm t)).
Check (read_bytes_write_term : forall absf pm t rest,
  pm_ok pm = true -> scalar_pm pm = true -> wf_at TObj t = true -> scalar_term t = true ->
  stop_ok rest = true -> scalar_str rest = true ->
  read_term_bytes pm (wr_term absf pm t ++ utf8 rest) = Some (t, rest)).
(* outside the hypotheses *)
Check (variable_rejected : forall absf pm v fuel p rest, read_at fuel p pm (wt_term absf pm (Var v) ++ rest) = None).
Check (duplicate_prefix_refuted : exists pm t rest,
  forallb (fun e => prefix_ok (fst e)) pm = true /\ wf_at TObj t = true /\ stop_ok rest = true /\
  read_term pm (wt_term always pm t ++ rest) <> Some (t, rest)).
Check (unchecked_iri_refuted : exists t rest, stop_ok rest = true /\ read_term [] (wt_term always [] t ++ rest) <> Some (t, rest)).
Check (checked_langtag_refuted : exists t rest, t = LitLang [120] [97; 49] /\ sophia_langtag_ok [97; 49] = true /\ stop_ok rest = true /\
  read_term [] (wt_term always [] t ++ rest) <> Some (t, rest)).
Check (langtag_sophia : forall tag, langtag_ok tag = true -> sophia_langtag_ok tag = true).
Check (bad_continuation_refuted : exists t rest, wf_at TObj t = true /\ read_term [] (wt_term always [] t ++ rest) <> Some (t, rest)).

(* non-vacuity of (6).  pm: ex -> http://e/ns/ , (empty) -> http://e/ , a.b -> http://e/ns/sub# ;
   term << _:b.1 ex:p%20q << :x a.b:y "1.5"^^xsd:decimal >> >>  followed by ".\n" *)
Definition ex_ns : str := [104;116;116;112;58;47;47;101;47].                 (* http://e/ *)
Definition ex_pm : list (str * str) :=
  [([101;120], ex_ns ++ [110;115;47]); ([], ex_ns); ([97;46;98], ex_ns ++ [110;115;47;115;117;98;35])].
Definition ex_term : term :=
  Triple (Bnode [98;46;49]) (Iri (ex_ns ++ [110;115;47;112;37;50;48;113]))
         (Triple (Iri (ex_ns ++ [120])) (Iri (ex_ns ++ [110;115;47;115;117;98;35;121])) (LitDt [49;46;53] xsd_decimal)).
Example term_example :
  pm_ok ex_pm = true /\ wf_at TObj ex_term = true /\ stop_ok [46; 10] = true /\
  (* << _:b.1 ex:p%20q << :x a.b:y 1.5 >> >> *)
  wt_term Sophia.C09.Model.iri_new_ok ex_pm ex_term =
    [60;60;32; 95;58;98;46;49; 32; 101;120;58;112;37;50;48;113; 32; 60;60;32; 58;120; 32; 97;46;98;58;121; 32; 49;46;53; 32;62;62; 32;62;62] /\
  read_term ex_pm (wt_term Sophia.C09.Model.iri_new_ok ex_pm ex_term ++ [46; 10]) = Some (ex_term, [46; 10]).
Proof. vm_compute. repeat split; reflexivity. Qed.
(* the continuations the writer produces are admissible; a few that are not *)
Example stop_examples :
  forallb stop_ok [[]; [32; 97; 32]; [10; 32; 32]; [44; 10]; [59; 10]; [46; 10]; [93]; [10; 41]; [32; 123; 124]; [32; 62; 62]] = true /\
  forallb (fun r => negb (stop_ok r)) [[50]; [58]; [46; 53]; [32; 64; 101; 110]; [10; 94; 94; 60]] = true.
Proof. vm_compute. split; reflexivity. Qed.
(* an IRI accepted by sophia_iri (the regenerated regular expression of C09) with non-ASCII characters passes iri_ok;
   strings with a character excluded by IRIREF do not *)
Example iri_ok_examples :
  let i := ex_ns ++ [233; 47; 128512; 63; 113; 61; 37; 52; 49; 35; 102] in   (* http://e/e-acute/emoji?q=%41#f *)
  Sophia.C09.Model.iri_new_ok i = true /\ iri_ok i = true /\ iri_ok [97; 32; 98] = false /\ iri_ok [97; 62] = false /\ iri_ok [92] = false.
Proof. vm_compute. repeat split; reflexivity. Qed.

(* ===== (7) prefixes: the regenerated PN_PREFIX of api/src/prefix/_regex.rs (behind is_valid_prefix / Prefix::new / serde) IS the
         production PN_PREFIX of the Turtle grammar; a checked prefix map is within the term theorem ===== *)
Check (PrefixIncl.pn_prefix_re_incl : forall w, matchb pn_prefix_re w = true -> matchb PN_PREFIX w = true).
Check (PrefixIncl.pn_prefix_re_complete : forall w, matchb PN_PREFIX w = true -> matchb pn_prefix_re w = true).
Check (PrefixIncl.pn_prefix_re_exact : forall w, matchb pn_prefix_re w = matchb PN_PREFIX w).
Check (is_valid_prefix_spec : forall p, is_valid_prefix p = prefix_ok p).
Check (is_valid_prefix_grammar : forall p, is_valid_prefix p = true <-> p = [] \/ matchb PN_PREFIX p = true).
Check (refused_prefix_not_in_grammar : forall p, is_valid_prefix p = false -> p <> [] /\ matchb PN_PREFIX p = false).
Check (checked_prefix_map_ok : forall pm,
  forallb (fun e => is_valid_prefix (fst e)) pm = true -> distinct (map fst pm) = true -> pm_ok pm = true).
Example translator_prefix_atoms_agree :
  rexN_eqb (abstract pn_prefix_re) pn_prefix_re_atoms && all_aligned pn_prefix_re && all_aligned PN_PREFIX = true.
Proof. vm_compute. reflexivity. Qed.

(* ===== (8) the write phase with its nesting bound MAX_DEPTH: whatever the bound and the number of nodes cut loose, the re-scan
         loop of write_graph ends, leaves no root, and no subject is written by write_tree twice ===== *)
Check (dwrite_R : forall maxd ks first rest nil type_ quads g (R : dstate -> dstate -> Prop),
  (forall w, R w w) -> (forall a b c, R a b -> R b c -> R a c) ->
  (forall w q, R w (d_emit w q)) -> (forall w, R w (d_fail w)) -> (forall w x, R w (d_done w (g, x))) ->
  (forall w t, R w (d_take_list w t)) -> (forall w t, st_get (d_st w) (g, t) = Some SubTree -> R w (d_cut w (g, t))) ->
  forall f props depth w t, R w (dwrite maxd ks first rest nil type_ quads f props g depth w t)).
Check (dwrite_mono_t : forall maxd ks first rest nil type_ quads g f props depth w t,
  mono_t w (dwrite maxd ks first rest nil type_ quads f props g depth w t)).
Check (dloop_finishes : forall maxd ks first rest nil type_ quads g fuel w range,
  (ndone g w range < fuel)%nat -> snd (dloop maxd ks first rest nil type_ quads fuel g w range) = true).
Check (dgraph_finishes : forall maxd ks first rest nil type_ quads g w range,
  snd (dgraph maxd ks first rest nil type_ quads g w range) = true).
Check (dloop_no_root : forall maxd ks first rest nil type_ quads g fuel w range,
  snd (dloop maxd ks first rest nil type_ quads fuel g w range) = true ->
  forall s, In s range -> is_root (st_get (d_st (fst (dloop maxd ks first rest nil type_ quads fuel g w range))) (g, s)) = false).
Check (dgraph_no_root : forall maxd ks first rest nil type_ quads g w range s, In s range ->
  is_root (st_get (d_st (fst (dgraph maxd ks first rest nil type_ quads g w range))) (g, s)) = false).
Check (trees_written_once : forall maxd ks first rest nil type_ quads labelled st0 lists,
  NoDup (d_trees (fst (dwrite_all maxd ks first rest nil type_ quads (d_init labelled st0 lists))))).
Check (roots_and_cuts_owed : forall maxd ks first rest nil type_ quads labelled st0 lists k,
  let w := fst (dwrite_all maxd ks first rest nil type_ quads (d_init labelled st0 lists)) in
  is_root (st_get st0 k) = true \/ In k (d_cuts w) -> owed w k).
Check (roots_and_cuts_written_exactly_once : forall maxd ks first rest nil type_ quads labelled st0 lists k,
  let w := fst (dwrite_all maxd ks first rest nil type_ quads (d_init labelled st0 lists)) in
  is_root (st_get (d_st w) k) = false -> d_odd w = [] ->
  is_root (st_get st0 k) = true \/ In k (d_cuts w) -> In k (d_trees w) /\ NoDup (d_trees w)).
Check (accounting_checked_deep : forall maxd ks first rest nil type_ quads labels colls plists,
  NoDup quads -> plan_d_ok maxd ks first rest nil type_ quads labels colls plists = true ->
  let r := demitted maxd ks first rest nil type_ quads (make_plan ks first rest nil quads) in
  snd r = true /\ d_ok (fst r) = true /\ Permutation quads (d_out (fst r)) /\
  (forall k, In k (d_cuts (fst r)) -> In k (d_trees (fst r))) /\ NoDup (d_trees (fst r))).
(* the bound of the model is the constant of the source *)
Example max_depth_is_64 : max_depth = 64.
Proof. reflexivity. Qed.


(* ===== (9) the TEXT of a WHOLE DOCUMENT, for the datasets that need no abbreviation of blank nodes: the layout code of the
   pretty writer (DocText.v: prettify / write_prefixes / write_all / next_graph / write_graph / write_tree / write_properties /
   write_objects / write_object / write_newline / indent / unindent, a state threaded through them, every term written by the
   term writer of (6)) against a reader of DOCUMENTS written from the W3C Turtle / TriG grammars (DocRead.v).  Proved piece by
   piece; the class (every blank node subject / object labelled, no annotated quoted subject) is a boolean on the plan. ===== *)
(* the token of a prefix declaration *)
Check (DocShapes.pname_ns_build : forall pre, pre = [] \/ matchb PN_PREFIX pre = true -> matchb PNAME_noesc (pre ++ [58]) = true).
(* one term, the nesting bound of the term reader being the length of the input; the verb `a` *)
Check (read_tm_wt : forall absf pm p t rest, pm_ok pm = true -> wf_at p t = true -> stop_ok rest = true ->
  read_tm p pm (wt_at absf pm p t ++ rest) = Some (t, rest)).
Check (read_verb_a : forall pm rest, stop_ok rest = true -> read_tm TPred pm (97 :: rest) = Some (Iri rdf_type, rest)).
(* a subject is never taken for the key words PREFIX / GRAPH (even with prefixes named `GRAPH`, `prefix` ...) *)
Check (subj_not_kw : forall absf pm t rest, pm_ok pm = true -> wf_at TSubj t = true ->
  kw_ws kw_PREFIX (wt_at absf pm TSubj t ++ rest) = None /\ kw_ws kw_GRAPH (wt_at absf pm TSubj t ++ rest) = None).
(* PIECE 1: an object list *)
Check (read_objects_ok : forall absf pm, pm_ok pm = true -> forall c2, ws_str c2 = true -> forall w o os tail f,
  ws_str w = true -> forallb (wf_at TObj) (o :: os) = true -> stop_ok tail = true -> no_comma tail = true ->
  (length (w ++ wt_at absf pm TObj o ++ lay_objs_tail (wt_at absf pm) c2 os ++ tail) <= f)%nat ->
  read_objs f pm (w ++ wt_at absf pm TObj o ++ lay_objs_tail (wt_at absf pm) c2 os ++ tail) = Some (o :: os, tail)).
(* the loop of write_properties after an object: (',' object)*, then (';' verb objectList)*, then ".\n" *)
Check (read_rest_ok : forall absf pm, pm_ok pm = true -> forall c1 c2, ws_str c1 = true -> ws_str c2 = true ->
  forall oth v more, forallb wf_po oth = true ->
  let X := lay_rest (wt_at absf pm) c1 c2 (Some v) oth ++ 46 :: 10 :: more in
  exists os X' prs,
    (forall f1, (length X < f1)%nat -> read_objs_tail f1 pm X = Some (os, X')) /\
    (forall f2, (length X < f2)%nat -> read_pol_tail f2 pm X' = Some (prs, 46 :: 10 :: more)) /\
    map (pair v) os ++ prs = oth).
(* PIECE 2: the predicate-object list of a subject (` a ` and the rdf:type objects first) *)
Check (read_pol_ok : forall absf pm, pm_ok pm = true -> forall c1 c2, ws_str c1 = true -> ws_str c2 = true ->
  forall tys oth more f, forallb (wf_at TObj) tys = true -> forallb wf_po oth = true -> tree_pairs tys oth <> [] ->
  let X := lay_props (wt_at absf pm) c1 c2 tys (Iri rdf_type) oth ++ 46 :: 10 :: more in
  (length X < f)%nat -> read_pol f pm X = Some (tree_pairs tys oth, 46 :: 10 :: more)).
(* PIECE 3: one subject tree *)
Check (read_tree_ok : forall absf pm, pm_ok pm = true -> forall c1 c2, ws_str c1 = true -> ws_str c2 = true ->
  forall g s tys oth more f, wf_at TSubj s = true -> forallb (wf_at TObj) tys = true -> forallb wf_po oth = true ->
  tree_pairs tys oth <> [] ->
  let X := wt_at absf pm TSubj s ++ lay_props (wt_at absf pm) c1 c2 tys (Iri rdf_type) oth ++ 46 :: 10 :: more in
  (length X <= f)%nat ->
  read_triples f pm g X = Some (map (fun po => (g, s, fst po, snd po)) (tree_pairs tys oth), 46 :: 10 :: more)).
(* PIECE 4: the inside of a GRAPH block *)
Check (read_block_ok : forall absf pm, pm_ok pm = true -> forall ind, ws_str ind = true -> forall g cur ts w more f,
  ws_str cur = true -> ws_str w = true -> forallb wf_tree ts = true ->
  let X := w ++ lay_trees (wt_at absf pm) ind cur ts ++ 125 :: 10 :: more in
  (length X < f)%nat -> read_block f pm (Some g) X = Some (flat_map (tree_rquads (Some g)) ts, 10 :: more)).
(* PIECE 5: the body of a document: trees of the default graph and GRAPH blocks *)
Check (read_items_ok : forall absf pm, pm_ok pm = true -> forall ind, ws_str ind = true -> forall cur its w f,
  ws_str cur = true -> ws_str w = true -> forallb wf_item its = true ->
  let X := w ++ lay_items (wt_at absf pm) ind cur its in
  (length X < f)%nat -> read_top f pm X = Some (flat_map item_rquads its)).
(* PIECE 6: the PREFIX lines: the declarations are in force, in order, for the body *)
Check (read_prefixes_ok : forall pmx pm0 w body f, forallb decl_ok pmx = true -> ws_str w = true ->
  (length (w ++ w_prefixes (fun s => s) pmx ++ body) < f)%nat ->
  exists f' w', ws_str w' = true /\ (length (w' ++ body) < f')%nat /\
    read_top f pm0 (w ++ w_prefixes (fun s => s) pmx ++ body) = read_top f' (pm0 ++ pmx) (w' ++ body)).
(* the WRITER (state threaded through write_properties / write_tree / write_graph / next_graph / write_all, indent and
   unindent included) produces the structural layout, whatever the encoding and the term writer *)
Check (w_properties_lay : forall enc wterm indentation d g s o c,
  w_properties enc wterm indentation d g s {| l_out := o; l_ind := c |}
  = {| l_out := o ++ lay_props wterm (c ++ enc indentation) (c ++ enc indentation ++ enc indentation) (tys_of d g s)
                               (Iri w_rdf_type) (oth_of (group d g s));
       l_ind := c |}).
Check (w_named_lay : forall enc wterm indentation d fuel keys o c, forallb has_g keys = true ->
  w_named enc wterm indentation d fuel keys {| l_out := o; l_ind := c |}
  = Some {| l_out := o ++ lay_items wterm (enc indentation) c (named_items d fuel keys); l_ind := c |}).
Check (w_all_lay : forall enc wterm indentation d base,
  forallb has_g (skipn (length (take_while (fun k => is_none (fst k)) (subject_keys d))) (subject_keys d)) = true ->
  w_all enc wterm indentation d base
  = Some {| l_out := lay_items wterm (enc indentation) (enc base) (doc_items d); l_ind := enc base |}).
Check (wf_doc_items : forall d, forallb wf_quad d = true -> forallb wf_item (doc_items d) = true).
Check (doc_items_quads : forall d, nones_first (map tq_g d) = true -> flat_map item_rquads (doc_items d) = doc_quads d).
(* THE DOCUMENT THEOREM: indentation strings of white space, valid distinct prefixes, namespaces that can stand in an IRIREF,
   terms within the hypotheses of the term theorem, default graph first, dataset of the class *)
Check (wt_doc_text : forall absf pm base ind lab d, nones_first (map tq_g d) = true -> in_class lab d = true ->
  wt_doc absf pm base ind lab d = Some (doc_text absf pm base ind d)).
Check (read_doc_text : forall absf pm base ind d, doc_hyps pm base ind d = true ->
  read_doc (doc_text absf pm base ind d) = Some (doc_quads d)).
Check (doc_roundtrip : forall absf pm base ind lab d, doc_hyps pm base ind d = true -> in_class lab d = true ->
  exists text, wt_doc absf pm base ind lab d = Some text /\ read_doc text = Some (doc_quads d)).
(* on bytes: what the writer emits is the UTF-8 encoding of that text; decode, read *)
Check (wr_doc_bytes : forall absf pm base ind lab d, nones_first (map tq_g d) = true -> in_class lab d = true ->
  wr_doc absf pm base ind lab d = Some (utf8 (doc_text absf pm base ind d))).
Check (wr_doc_wt_doc : forall absf pm base ind lab d, nones_first (map tq_g d) = true ->
  wr_doc absf pm base ind lab d = option_map utf8 (wt_doc absf pm base ind lab d)).
Check (scalar_doc_text : forall absf pm base ind d,
  scalar_pm pm = true -> ws_str base = true -> ws_str ind = true -> forallb scalar_quad d = true ->
  scalar_str (doc_text absf pm base ind d) = true).
Check (doc_roundtrip_bytes : forall absf pm base ind lab d,
  doc_hyps pm base ind d = true -> in_class lab d = true -> scalar_pm pm = true -> forallb scalar_quad d = true ->
  exists bytes, wr_doc absf pm base ind lab d = Some bytes /\ read_doc_bytes bytes = Some (doc_quads d)).
(* WHAT IS STATED IS THE DATASET.  Sound for any list; exact (a permutation, one for one) for a store in order *)
Check (doc_quads_sound : forall d r, In r (doc_quads d) -> exists q, In q d /\ same_rq r q).
Check (@partition_perm : forall (A K : Type) (m : K -> A -> bool) ks l,
  (forall x, In x l -> length (filter (fun k => m k x) ks) = 1%nat) ->
  Permutation (flat_map (fun k => filter (m k) l) ks) l).
Check (key_eqb_enc : forall a b, wf_key a -> wf_key b -> (key_eqb a b = true <-> enc_key a = enc_key b)).
Check (sorted_keys_nodup : forall d, store_sorted d = true -> forallb key_wfb d = true -> NoDup (map enc_key (subject_keys d))).
Check (doc_quads_exact : forall d, store_sorted d = true -> forallb key_wfb d = true ->
  exists d', Permutation d' d /\ Forall2 same_rq (doc_quads d) d').
Check (doc_quads_length : forall d, store_sorted d = true -> forallb key_wfb d = true -> length (doc_quads d) = length d).
Check (sorted_nones_first : forall d, store_sorted d = true -> nones_first (map tq_g d) = true).
Check (doc_roundtrip_store : forall absf pm base ind lab d,
  store_sorted d = true -> forallb key_wfb d = true ->
  pm_ok pm = true -> ns_ok pm = true -> ws_str base = true -> ws_str ind = true -> forallb wf_quad d = true ->
  in_class lab d = true ->
  exists text qs d',
    wt_doc absf pm base ind lab d = Some text /\ read_doc text = Some qs /\ Forall2 same_rq qs d' /\ Permutation d' d).
(* the class: two rules of build_labelled, for all datasets -- a blank node that is a graph name, or that occurs inside a
   quoted triple, is labelled *)
Check (DocClass.graph_name_labelled : forall ks quads q g,
  In q quads -> q_g q = Some g -> kind_of ks g = TB -> In g (build_labelled ks quads)).
Check (DocClass.quoted_atom_labelled : forall ks quads q i t a, In q quads -> In (i, t) (spog q) ->
  (exists x y z, kind_of ks t = TT x y z) -> is_bnode ks a = true -> In a (atoms (S (length ks)) ks t) ->
  In a (build_labelled ks quads)).
(* non-vacuity: a store in order, in the class for the plan computed by the model of build_labelled, its text, its reading *)
Check (doc_example :
  doc_hyps dx_pm [] [9] dx_d = true /\ store_sorted dx_d = true /\ covers dx_tab dx_d = true /\
  in_class (plan_lab dx_tab dx_d) dx_d = true /\
  wt_doc always dx_pm [] [9] (plan_lab dx_tab dx_d) dx_d = Some dx_text /\
  read_doc dx_text = Some (doc_quads dx_d) /\
  doc_quads dx_d = dx_d /\
  forallb scalar_quad dx_d = true /\ scalar_pm dx_pm = true /\
  doc_case_ok always dx_pm [] [9] dx_tab dx_d (utf8 dx_text) = true).
Check (store_example : store_sorted dx_d = true /\ forallb key_wfb dx_d = true).
(* outside the class, outside the hypotheses *)
Check (outside_class_example :
  let d := [ (None, dx_iri 115, dx_iri 112, Bnode [98]); (None, Bnode [98], dx_iri 113, dx_iri 111) ] in
  let tab := [ Bnode [98]; Iri w_rdf_first; Iri w_rdf_nil; Iri w_rdf_rest; dx_iri 111; dx_iri 112; dx_iri 113; dx_iri 115 ] in
  in_class (plan_lab tab d) d = false /\ wt_doc always [] [] [32; 32] (plan_lab tab d) d = None /\
  doc_outside_ok always [] [] [32; 32] tab d = true).
Check (annotation_outside_class :
  let d := [ (None, dx_iri 97, dx_iri 98, dx_iri 99); (None, Triple (dx_iri 97) (dx_iri 98) (dx_iri 99), dx_iri 112, dx_iri 111) ] in
  in_class (fun _ => true) d = false).
Check (unsorted_store_refuted :
  exists d, forallb wf_quad d = true /\ in_class (fun _ => true) d = true /\ nones_first (map tq_g d) = false /\
    wt_doc always [] [] [32; 32] (fun _ => true) d = None).
Check (indentation_refuted :
  exists ind d, ws_str ind = false /\ doc_hyps [] [] [] d = true /\ in_class (fun _ => true) d = true /\
    match wt_doc always [] [] ind (fun _ => true) d with Some text => read_doc text | None => None end <> Some (doc_quads d)).

Print Assumptions PrefixIncl.pn_prefix_re_incl.
Print Assumptions PrefixIncl.pn_prefix_re_complete.
Print Assumptions PrefixIncl.pn_prefix_re_exact.
Print Assumptions is_valid_prefix_spec.
Print Assumptions is_valid_prefix_grammar.
Print Assumptions refused_prefix_not_in_grammar.
Print Assumptions checked_prefix_map_ok.
Print Assumptions prefix_examples.
Print Assumptions translator_prefix_atoms_agree.
Print Assumptions dwrite_R.
Print Assumptions dwrite_mono_t.
Print Assumptions dloop_finishes.
Print Assumptions dgraph_finishes.
Print Assumptions dloop_no_root.
Print Assumptions dgraph_no_root.
Print Assumptions trees_written_once.
Print Assumptions roots_and_cuts_owed.
Print Assumptions roots_and_cuts_written_exactly_once.
Print Assumptions accounting_checked_deep.
Print Assumptions deep_example.
Print Assumptions max_depth_is_64.
Print Assumptions Incl.integer_re_incl.
Print Assumptions Incl.decimal_re_incl.
Print Assumptions Incl.double_re_incl.
Print Assumptions Incl.boolean_re_incl.
Print Assumptions Incl.pn_local_re_incl.
Print Assumptions Incl.pn_local_re_no_unescape.
Print Assumptions Incl.numeric_disjoint.
Print Assumptions bare_literal_sound.
Print Assumptions Lang.matchb_spec.
Print Assumptions Lang.abstract_sound.
Print Assumptions Lang.ka_incl_matchb.
Print Assumptions aligned_spec.
Print Assumptions atoms_partition.
Print Assumptions translator_atoms_agree.
Print Assumptions everything_aligned.
Print Assumptions grammar_examples.
Print Assumptions gcpp_sound.
Print Assumptions gcpp_complete.
Print Assumptions write_iri_pname_sound.
Print Assumptions pname_examples.
Print Assumptions unlabelled_pred_wf.
Print Assumptions no_unlabelled_cycle.
Print Assumptions build_labelled_spec.
Print Assumptions every_cycle_has_a_labelled_node.
Print Assumptions list_item_cell.
Print Assumptions lists_are_chains.
Print Assumptions exactly_once_sound.
Print Assumptions accounting_checked_partial.
Print Assumptions plan_example.
Print Assumptions prefix_decimal_refuted.
Print Assumptions prefix_double_refuted.
Print Assumptions cycle_detection_old_refuted.
Print Assumptions list_item_old_refuted.
Print Assumptions longest_ok.
Print Assumptions longest_none.
Print Assumptions TermShapes.pname_esc10.
Print Assumptions TermShapes.pname_enddot.
Print Assumptions TermShapes.pname_colon.
Print Assumptions TermShapes.boolean_words.
Print Assumptions numeric_cut.
Print Assumptions label_cut.
Print Assumptions pname_cut.
Print Assumptions keyword_not_pname.
Print Assumptions read_pname_ok.
Print Assumptions read_plain_iri.
Print Assumptions read_bare.
Print Assumptions read_literal_dt.
Print Assumptions read_literal_lang.
Print Assumptions read_wt.
Print Assumptions read_term_write_term.
Print Assumptions term_roundtrip.
Print Assumptions wr_term_utf8.
Print Assumptions read_bytes_write_term.
Print Assumptions variable_rejected.
Print Assumptions duplicate_prefix_refuted.
Print Assumptions unchecked_iri_refuted.
Print Assumptions bad_continuation_refuted.
Print Assumptions checked_langtag_refuted.
Print Assumptions langtag_sophia.
Print Assumptions term_example.
Print Assumptions stop_examples.
Print Assumptions iri_ok_examples.
Print Assumptions DocShapes.pname_ns_build.
Print Assumptions read_tm_wt.
Print Assumptions read_verb_a.
Print Assumptions subj_not_kw.
Print Assumptions read_objects_ok.
Print Assumptions read_rest_ok.
Print Assumptions read_pol_ok.
Print Assumptions read_tree_ok.
Print Assumptions read_block_ok.
Print Assumptions read_items_ok.
Print Assumptions read_prefixes_ok.
Print Assumptions w_properties_lay.
Print Assumptions w_named_lay.
Print Assumptions w_all_lay.
Print Assumptions wf_doc_items.
Print Assumptions doc_items_quads.
Print Assumptions wt_doc_text.
Print Assumptions read_doc_text.
Print Assumptions doc_roundtrip.
Print Assumptions wr_doc_bytes.
Print Assumptions wr_doc_wt_doc.
Print Assumptions scalar_doc_text.
Print Assumptions doc_roundtrip_bytes.
Print Assumptions doc_quads_sound.
Print Assumptions partition_perm.
Print Assumptions key_eqb_enc.
Print Assumptions sorted_keys_nodup.
Print Assumptions doc_quads_exact.
Print Assumptions doc_quads_length.
Print Assumptions sorted_nones_first.
Print Assumptions doc_roundtrip_store.
Print Assumptions doc_example.
Print Assumptions store_example.
Print Assumptions outside_class_example.
Print Assumptions annotation_outside_class.
Print Assumptions unsorted_store_refuted.
Print Assumptions indentation_refuted.
Print Assumptions DocClass.graph_name_labelled.
Print Assumptions DocClass.quoted_atom_labelled.
