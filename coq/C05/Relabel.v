(* C05/Relabel.v -- the canonical bytes of RDFC-1.0 (impl_model of Model.v) do not depend on the blank
   node labels of the input (same quad order), for every hash function, provided no hash path list
   of step 5 contains two results with the same hash.  Lock-step: the run on the renamed dataset
   mirrors the run on the original one (Relabel1.v for hash_n_degree_quads).
   Stdlib only, closed under the global context. *)
From Sophia.C05 Require Import Model Heap Reader NqProofs Ties FirstDegree Bijection Invariance.
From Sophia.C05 Require Import Relabel1.
From Coq Require Import Permutation Sorted.

(* ---------- the hypothesis: no two results of one hash path list carry the same hash ---------- *)
Fixpoint step5_top_ties (H : str -> str) (fuel : nat) (st : state) (h2b : list (str * list str))
  : bool :=
  match h2b with
  | [] => false
  | (_, ids) :: r =>
      match step5_paths H fuel st ids with
      | Err _ => false
      | Ok paths => adjacent_equal (sort_by path_leb paths)
                    || step5_top_ties H fuel (with_canon st (step5_issue (st_canon st) paths)) r
      end
  end.
Definition top_ties (H : str -> str) (v : variant) (fuel : nat) (df pl : option N) (d : list quad)
  : bool :=
  match step2 (v_once v) d [] with
  | Err _ => false
  | Ok b2q => let b2h := step3_b2h H b2q in let (h2b, canon) := step4 (step3_h2b b2h) [] in
              step5_top_ties H fuel (mkState b2q b2h canon df pl (v_prune v)) h2b
  end.

(* ================= A. sorting a hash path list ================= *)
Lemma insert_by_perm {A} (leb : A -> A -> bool) x l : Permutation (x :: l) (insert_by leb x l).
Proof.
  induction l as [|y l IH]; cbn [insert_by]; [apply Permutation_refl|].
  destruct (leb x y); [apply Permutation_refl|].
  eapply perm_trans; [apply perm_swap|]. apply perm_skip. exact IH.
Qed.
Lemma sort_by_perm {A} (leb : A -> A -> bool) l : Permutation l (sort_by leb l).
Proof.
  unfold sort_by. induction l as [|x l IH]; cbn [fold_right]; [constructor|].
  eapply perm_trans; [apply perm_skip; exact IH|]. apply insert_by_perm.
Qed.

Definition ple (a b : str * issuer) : Prop := str_leb (fst a) (fst b) = true.

Lemma path_leb_total x y : path_leb x y = false -> path_leb y x = true.
Proof. unfold path_leb. apply str_leb_total. Qed.

Lemma insert_path_sorted x l : StronglySorted ple l -> StronglySorted ple (insert_by path_leb x l).
Proof.
  induction 1 as [|y l Hs IH Hy]; cbn [insert_by].
  - constructor; [constructor|constructor].
  - destruct (path_leb x y) eqn:E.
    + constructor; [constructor; assumption|]. constructor; [exact E|].
      eapply Forall_impl; [|exact Hy]. intros z Hz. unfold ple in *. unfold path_leb in E.
      eapply str_leb_trans; eassumption.
    + constructor; [exact IH|]. apply Forall_forall. intros z Hz.
      apply insert_by_In in Hz as [->|Hz].
      * apply path_leb_total in E. exact E.
      * rewrite Forall_forall in Hy. apply Hy; exact Hz.
Qed.

Lemma sort_path_sorted l : StronglySorted ple (sort_by path_leb l).
Proof.
  unfold sort_by. induction l as [|x l IH]; cbn [fold_right]; [constructor|].
  apply insert_path_sorted; exact IH.
Qed.

Lemma adjacent_nodup l : StronglySorted ple l -> adjacent_equal l = false -> NoDup (map fst l).
Proof.
  induction 1 as [|a l Hs IH Ha]; intros Hadj; cbn [map]; [constructor|].
  destruct l as [|b l]; [constructor; [intros []|constructor]|].
  cbn [adjacent_equal] in Hadj. apply orb_false_iff in Hadj as [Hab Hadj].
  constructor; [|apply IH; exact Hadj].
  intros Hin. cbn [map] in Hin.
  destruct (str_eqb_spec (fst a) (fst b)) as [E|Hn]; [discriminate|].
  destruct Hin as [E|Hin]; [congruence|].
  apply in_map_iff in Hin as [c [Ec Hc]].
  rewrite Forall_forall in Ha.
  assert (L1 : ple a b) by (apply Ha; left; reflexivity).
  apply StronglySorted_inv in Hs as [_ Hb]. rewrite Forall_forall in Hb.
  assert (L2 : ple b c) by (apply Hb; exact Hc).
  unfold ple in *. rewrite Ec in L2. apply Hn. apply str_leb_antisym; assumption.
Qed.

Lemma insert_path_comm (x y : str * issuer) l : fst x <> fst y ->
  insert_by path_leb x (insert_by path_leb y l) = insert_by path_leb y (insert_by path_leb x l).
Proof.
  intros Hne.
  assert (Hanti : path_leb x y = true -> path_leb y x = true -> False).
  { unfold path_leb. intros A1 A2. apply Hne. apply str_leb_antisym; assumption. }
  assert (Htr : forall a b c, path_leb a b = true -> path_leb b c = true -> path_leb a c = true).
  { unfold path_leb. intros a b c. apply str_leb_trans. }
  induction l as [|z l IH]; cbn [insert_by].
  - destruct (path_leb x y) eqn:Exy, (path_leb y x) eqn:Eyx; cbn [insert_by]; rewrite ?Exy, ?Eyx; auto.
    + exfalso; auto.
    + apply path_leb_total in Exy. congruence.
  - destruct (path_leb y z) eqn:Eyz, (path_leb x z) eqn:Exz; cbn [insert_by]; rewrite ?Eyz, ?Exz.
    + destruct (path_leb x y) eqn:Exy, (path_leb y x) eqn:Eyx; cbn [insert_by]; rewrite ?Eyz, ?Exz; auto.
      * exfalso; auto.
      * apply path_leb_total in Exy. congruence.
    + assert (Exy : path_leb x y = false).
      { destruct (path_leb x y) eqn:E; auto. rewrite (Htr _ _ _ E Eyz) in Exz. discriminate. }
      rewrite ?Exy; cbn [insert_by]; rewrite ?Exy, ?Exz, ?Eyz. reflexivity.
    + assert (Eyx : path_leb y x = false).
      { destruct (path_leb y x) eqn:E; auto. rewrite (Htr _ _ _ E Exz) in Eyz. discriminate. }
      rewrite ?Eyx; cbn [insert_by]; rewrite ?Eyx, ?Exz, ?Eyz. reflexivity.
    + rewrite IH. reflexivity.
Qed.

Lemma sort_path_perm l l' : Permutation l l' -> NoDup (map fst l) ->
  sort_by path_leb l = sort_by path_leb l'.
Proof.
  unfold sort_by. induction 1 as [|x l l' P IH|x y l|l l' l'' P1 IH1 P2 IH2]; intros Hnd;
    cbn [fold_right].
  - reflexivity.
  - cbn [map] in Hnd. apply NoDup_cons_iff in Hnd as [_ Hnd]. rewrite IH by exact Hnd. reflexivity.
  - apply insert_path_comm. cbn [map] in Hnd. apply NoDup_cons_iff in Hnd as [Hn _].
    intros E. apply Hn. left. symmetry. exact E.
  - rewrite IH1 by exact Hnd. apply IH2.
    eapply Permutation_NoDup; [apply Permutation_map; exact P1|exact Hnd].
Qed.

(* no ties after sorting = the hashes are pairwise distinct *)
Lemma no_adjacent_nodup paths :
  adjacent_equal (sort_by path_leb paths) = false -> NoDup (map fst paths).
Proof.
  intros Hadj. eapply Permutation_NoDup.
  - apply Permutation_map. apply Permutation_sym. apply (sort_by_perm path_leb paths).
  - apply adjacent_nodup; [apply sort_path_sorted|exact Hadj].
Qed.

Lemma sort_path_rn pi l :
  sort_by path_leb (map (rn_res pi) l) = map (rn_res pi) (sort_by path_leb l).
Proof.
  symmetry.
  apply (map_sort_by (rn_res pi) path_leb path_leb (fun _ => True)).
  - intros x y _ _. reflexivity.
  - apply Forall_forall. intros; exact I.
Qed.

(* ================= B. key-sorted maps related entry by entry ================= *)
Definition orel {A B} (R : A -> B -> Prop) (o1 : option A) (o2 : option B) : Prop :=
  match o1, o2 with
  | None, None => True
  | Some a, Some b => R a b
  | _, _ => False
  end.

Lemma ks_rel {V W} (R : V -> W -> Prop) : forall (m1 : list (str * V)) (m2 : list (str * W)),
  keys_sorted m1 -> keys_sorted m2 ->
  (forall h, orel R (bt_get m1 h) (bt_get m2 h)) ->
  Forall2 (fun e1 e2 => fst e1 = fst e2 /\ R (snd e1) (snd e2)) m1 m2.
Proof.
  induction m1 as [|[k1 v1] r1 IH]; intros [|[k2 v2] r2] S1 S2 Hg.
  - constructor.
  - specialize (Hg k2). cbn [bt_get] in Hg. rewrite str_eqb_refl in Hg. destruct Hg.
  - specialize (Hg k1). cbn [bt_get] in Hg. rewrite str_eqb_refl in Hg. destruct Hg.
  - apply ks_cons_iff in S1 as [L1 S1]. apply ks_cons_iff in S2 as [L2 S2].
    assert (E : k1 = k2).
    { destruct (str_cmp k1 k2) eqn:Ec.
      - apply str_cmp_eq; exact Ec.
      - exfalso. specialize (Hg k1). cbn [bt_get] in Hg. rewrite str_eqb_refl in Hg.
        destruct (str_eqb_spec k2 k1) as [->|Hn]; [rewrite str_cmp_refl in Ec; discriminate|].
        rewrite (bt_get_lt r2 k1) in Hg; [destruct Hg|].
        intros k' v' Hin. eapply str_cmp_lt_trans; [exact Ec|eapply L2; exact Hin].
      - exfalso. specialize (Hg k2). cbn [bt_get] in Hg. rewrite str_eqb_refl in Hg.
        assert (Ec' : str_cmp k2 k1 = Lt) by (rewrite str_cmp_antisym, Ec; reflexivity).
        destruct (str_eqb_spec k1 k2) as [->|Hn]; [rewrite str_cmp_refl in Ec; discriminate|].
        rewrite (bt_get_lt r1 k2) in Hg; [destruct Hg|].
        intros k' v' Hin. eapply str_cmp_lt_trans; [exact Ec'|eapply L1; exact Hin]. }
    subst k2. constructor.
    + split; [reflexivity|]. specialize (Hg k1). cbn [bt_get] in Hg.
      rewrite str_eqb_refl in Hg. exact Hg.
    + apply IH; [exact S1|exact S2|]. intros h. specialize (Hg h). cbn [bt_get] in Hg.
      destruct (str_eqb_spec k1 h) as [E|Hn]; [subst h|exact Hg].
      rewrite (bt_get_lt r1 k1), (bt_get_lt r2 k1); [exact I|exact L2|exact L1].
Qed.

(* the hash-to-bnodes map of step 3: the labels with a given hash, in b2h order *)
Lemma fold_push_get : forall (l : list (str * str)) (m : list (str * list str)),
  keys_sorted m ->
  keys_sorted (fold_left (fun m e => bt_push (snd e) (fst e) m) l m)
  /\ forall h, bt_get (fold_left (fun m e => bt_push (snd e) (fst e) m) l m) h
       = opt_app (bt_get m h) (map fst (filter (fun e => str_eqb (snd e) h) l)).
Proof.
  induction l as [|e l IH]; intros m Hs; cbn [fold_left filter map].
  - split; [exact Hs|]. intros h. reflexivity.
  - destruct (IH (bt_push (snd e) (fst e) m) (bt_push_sorted _ _ _ Hs)) as [K G].
    split; [exact K|]. intros h. rewrite G.
    destruct (str_eqb_spec (snd e) h) as [<-|Hn]; cbn [map].
    + rewrite bt_get_push_same by exact Hs. apply opt_app_push.
    + rewrite bt_get_push_other; [reflexivity|exact Hs|]. intros E; apply Hn; symmetry; exact E.
Qed.

Lemma h2b_get (b2h : list (str * str)) :
  keys_sorted (step3_h2b b2h)
  /\ forall h, bt_get (step3_h2b b2h) h
       = opt_app None (map fst (filter (fun e => str_eqb (snd e) h) b2h)).
Proof. unfold step3_h2b. apply (fold_push_get b2h [] I). Qed.

(* ================= C. steps 2, 3 and 4 on the renamed dataset ================= *)
Lemma NoDup_map_inj_on {T U} (f : T -> U) (l : list T) :
  (forall a b, In a l -> In b l -> f a = f b -> a = b) -> NoDup l -> NoDup (map f l).
Proof.
  intros Hf Hnd. induction Hnd as [|x l Hx Hnd IH]; cbn [map]; constructor.
  - rewrite in_map_iff. intros [y [E Hy]].
    apply Hf in E; [subst; auto|right; exact Hy|left; reflexivity].
  - apply IH. intros a b Ha Hb. apply Hf; right; assumption.
Qed.

Lemma keys_bnodes d0 m : step2 true d0 [] = Ok m ->
  forall k, In k (map fst m) <-> In k (bnodes d0).
Proof.
  intros E k. destruct (step2_closed _ _ _ E) as [_ Hk]. split.
  - intros Hin. apply in_map_iff in Hin as [[k' qs] [Ek Hin]]. cbn [fst] in Ek. subst k'.
    eapply Hk; exact Hin.
  - intros Hb. apply in_bnodes_existsb in Hb. destruct (b2q_spec d0 m k E) as [_ G].
    rewrite Hb in G. apply bt_get_Some_In in G. apply (in_map fst) in G. exact G.
Qed.

Lemma bt_get_b2h H m k : bt_get (step3_b2h H m) k = option_map (h1d H k) (bt_get m k).
Proof.
  unfold step3_b2h. induction m as [|[k' qs] m IH]; cbn [map bt_get fst snd]; [reflexivity|].
  destruct (str_eqb_spec k' k) as [->|Hn]; [reflexivity|exact IH].
Qed.

Definition lrel (pi : str -> str) (l1 l2 : list str) : Prop := Permutation l2 (map pi l1).
Definition hrel (pi : str -> str) (e1 e2 : str * list str) : Prop :=
  fst e1 = fst e2 /\ lrel pi (snd e1) (snd e2).

Section Steps.
Variable H : str -> str.
Variable pi : str -> str.
Variable d : list quad.
Hypothesis Hinj : inj_on pi (bnodes d).
Hypothesis Hsup : supported d = true.

Lemma filter_mentions_rename b : In b (bnodes d) ->
  filter (mentions (pi b)) (map (rename_q pi) d) = map (rename_q pi) (filter (mentions b) d).
Proof.
  intros Hb. apply filter_map_in. intros q Hq. apply mentions_rename.
  intros x Hx E. apply Hinj; auto. eapply bnodes_q_incl; eauto.
Qed.

Section Maps.
Variables m1 m2 : b2q_t.
Hypothesis E1 : step2 true d [] = Ok m1.
Hypothesis E2 : step2 true (map (rename_q pi) d) [] = Ok m2.

Lemma b2q_rename : forall b, In b (bnodes d) ->
  bt_get m2 (pi b) = option_map (map (rename_q pi)) (bt_get m1 b).
Proof.
  intros b Hb. destruct (b2q_spec _ _ b E1) as [_ G1]. destruct (b2q_spec _ _ (pi b) E2) as [_ G2].
  rewrite G1, G2, !existsb_filter, (filter_mentions_rename b Hb).
  destruct (filter (mentions b) d); reflexivity.
Qed.

Lemma keys_perm : Permutation (map fst m2) (map pi (map fst m1)).
Proof.
  apply NoDup_Permutation.
  - apply ks_nodup. apply (b2q_spec _ _ [] E2).
  - apply NoDup_map_inj_on; [|apply ks_nodup; apply (b2q_spec _ _ [] E1)].
    intros a b Ha Hb. apply Hinj; apply (keys_bnodes _ _ E1); assumption.
  - intros x. rewrite (keys_bnodes _ _ E2), bnodes_rename, !in_map_iff. split.
    + intros [b [Eb Hb]]. exists b. split; [exact Eb|]. apply (keys_bnodes _ _ E1). exact Hb.
    + intros [b [Eb Hb]]. exists b. split; [exact Eb|]. apply (keys_bnodes _ _ E1). exact Hb.
Qed.

Lemma b2q_length : length m2 = length m1.
Proof.
  pose proof (Permutation_length keys_perm) as L. rewrite !map_length in L. exact L.
Qed.

Lemma b2h_perm : Permutation (step3_b2h H m2) (map (pf pi) (step3_b2h H m1)).
Proof.
  assert (P : Permutation (map (rename_q pi) d) (map (rename_q pi) d)) by apply Permutation_refl.
  apply NoDup_Permutation.
  - apply (NoDup_map_inv fst). eapply b2h_keys_nodup; exact E2.
  - apply (NoDup_map_inv fst). change (map (pf pi) (step3_b2h H m1)) with (rn pi (step3_b2h H m1)).
    rewrite map_fst_rn. apply NoDup_map_inj_on; [|eapply b2h_keys_nodup; exact E1].
    intros a b Ha Hb. rewrite b2h_keys in Ha, Hb.
    apply Hinj; apply (keys_bnodes _ _ E1); assumption.
  - intros [b' h']. rewrite (b2h_spec H _ m2 b' h' E2), in_map_iff. split.
    + intros [Hb Hf]. apply (in_bnodes_renamed pi d _ _ P) in Hb as [b [Hb ->]].
      destruct (first_degree_invariant H pi d _ b Hinj P Hsup Hb) as [Ef _].
      exists (b, h'). split; [reflexivity|].
      apply (b2h_spec H d m1 b h' E1). split; [exact Hb|]. rewrite <- Ef. exact Hf.
    + intros [[b h] [Ee Hin]]. unfold pf in Ee. cbn [fst snd] in Ee. injection Ee as <- <-.
      apply (b2h_spec H d m1 b h E1) in Hin as [Hb Hf].
      destruct (first_degree_invariant H pi d _ b Hinj P Hsup Hb) as [Ef _]. split.
      * apply (in_bnodes_renamed pi d _ _ P). exists b; auto.
      * rewrite Ef. exact Hf.
Qed.

Lemma b2h_get : forall b, In b (bnodes d) ->
  bt_get (step3_b2h H m2) (pi b) = bt_get (step3_b2h H m1) b.
Proof.
  intros b Hb. rewrite !bt_get_b2h, (b2q_rename b Hb).
  destruct (bt_get m1 b) as [qs|] eqn:Eg; cbn [option_map]; [|reflexivity]. f_equal.
  apply h1d_invariant; [|apply Permutation_refl].
  intros x Hx E. apply Hinj; auto. apply bt_get_Some_In in Eg.
  unfold bnodes in Hx. apply in_flat_map in Hx as [q [Hq Hx]].
  destruct (step2_closed _ _ _ E1) as [Hq1 _].
  eapply bnodes_q_incl; [|exact Hx]. eapply Hq1; eauto.
Qed.
End Maps.

Lemma h2b_rel (b2h1 b2h2 : list (str * str)) : Permutation b2h2 (map (pf pi) b2h1) ->
  Forall2 (hrel pi) (step3_h2b b2h1) (step3_h2b b2h2).
Proof.
  intros P. destruct (h2b_get b2h1) as [K1 G1]. destruct (h2b_get b2h2) as [K2 G2].
  unfold hrel. apply (ks_rel (lrel pi)); [exact K1|exact K2|]. intros h. rewrite G1, G2.
  set (F := fun e : str * str => str_eqb (snd e) h).
  assert (Q : Permutation (map fst (filter F b2h2)) (map pi (map fst (filter F b2h1)))).
  { eapply perm_trans; [apply Permutation_map, filter_perm; exact P|].
    rewrite (filter_map_in F F (pf pi) b2h1) by (intros; reflexivity).
    rewrite !map_map. apply Permutation_refl. }
  destruct (map fst (filter F b2h1)) as [|a L1]; cbn [map] in Q.
  - apply Permutation_sym, Permutation_nil in Q. rewrite Q. exact I.
  - destruct (map fst (filter F b2h2)) as [|a2 L2].
    + apply Permutation_nil in Q. discriminate.
    + cbn [opt_app orel app]. exact Q.
Qed.

Lemma step4_rel : forall h1 h2, Forall2 (hrel pi) h1 h2 -> forall c n1 c1,
  hn_ok (bnodes d) h1 -> incl (map fst c) (bnodes d) ->
  step4 h1 c = (n1, c1) ->
  exists n2, step4 h2 (rn pi c) = (n2, rn pi c1) /\ Forall2 (hrel pi) n1 n2.
Proof.
  induction 1 as [|[k1 bl1] [k2 bl2] r1 r2 [Ek P] HF IH]; intros c n1 c1 Hok Hc E.
  - cbn [step4] in E |- *. injection E as <- <-. exists []. split; [reflexivity|constructor].
  - cbn [fst snd] in Ek, P. subst k2. unfold lrel in P.
    assert (Hok' : hn_ok (bnodes d) r1) by (intros k bl0 H0; eapply Hok; right; exact H0).
    assert (Hbl : incl bl1 (bnodes d)) by (eapply Hok; left; reflexivity).
    destruct bl1 as [|b [|b' bl1]].
    + cbn [map] in P. apply Permutation_sym, Permutation_nil in P. subst bl2.
      cbn [step4] in E |- *.
      destruct (step4 r1 c) as [n c'] eqn:E1. injection E as <- <-.
      destruct (IH c n c' Hok' Hc E1) as [n2 [E2 F2]]. rewrite E2.
      exists ((k1, []) :: n2). split; [reflexivity|].
      constructor; [split; [reflexivity|apply Permutation_refl]|exact F2].
    + cbn [map] in P. apply Permutation_sym, Permutation_length_1_inv in P. subst bl2.
      cbn [step4] in E |- *.
      assert (Hb : In b (bnodes d)) by (apply Hbl; left; reflexivity).
      rewrite (issue_rn pi (bnodes d) Hinj s_c14n c b Hc Hb).
      apply IH; [exact Hok'| |exact E]. apply issue_incl; assumption.
    + destruct bl2 as [|x [|y bl2]].
      * apply Permutation_nil in P. discriminate.
      * apply Permutation_length in P. discriminate.
      * cbn [step4] in E |- *.
        destruct (step4 r1 c) as [n c'] eqn:E1. injection E as <- <-.
        destruct (IH c n c' Hok' Hc E1) as [n2 [E2 F2]]. rewrite E2.
        exists ((k1, x :: y :: bl2) :: n2). split; [reflexivity|].
        constructor; [split; [reflexivity|exact P]|exact F2].
Qed.
End Steps.

(* ================= D. step 5 ================= *)
Lemma step5_paths_perm H fuel st l l' : Permutation l l' ->
  forall ps, step5_paths H fuel st l = Ok ps ->
  exists ps', step5_paths H fuel st l' = Ok ps' /\ Permutation ps ps'.
Proof.
  induction 1 as [|x l l' P IH|x y l|l l' l'' P1 IH1 P2 IH2]; intros ps E.
  - exists ps. split; [exact E|apply Permutation_refl].
  - cbn [step5_paths] in E |- *.
    destruct (hnd H fuel st x (issue_ s_b [] x) 0) as [r|e]; [|discriminate].
    destruct (step5_paths H fuel st l) as [ps0|e] eqn:E0; [|discriminate]. injection E as <-.
    destruct (IH ps0 eq_refl) as [ps' [E' P']]. rewrite E'.
    exists (r :: ps'). split; [reflexivity|constructor; exact P'].
  - cbn [step5_paths] in E |- *.
    destruct (hnd H fuel st y (issue_ s_b [] y) 0) as [ry|e]; [|discriminate].
    destruct (hnd H fuel st x (issue_ s_b [] x) 0) as [rx|e]; [|discriminate].
    destruct (step5_paths H fuel st l) as [ps0|e]; [|discriminate].
    injection E as <-. exists (rx :: ry :: ps0). split; [reflexivity|apply perm_swap].
  - destruct (IH1 ps E) as [ps1 [E1 Q1]]. destruct (IH2 ps1 E1) as [ps2 [E2 Q2]].
    exists ps2. split; [exact E2|eapply perm_trans; eauto].
Qed.

Section Step5.
Variable H : str -> str.
Variable pi : str -> str.
Variable B : list str.
Hypothesis Hinj : inj_on pi B.

Lemma issue_all_rn pfx bs (i : issuer) : incl (map fst i) B -> incl bs B ->
  issue_all pfx (rn pi i) (map pi bs) = rn pi (issue_all pfx i bs).
Proof. intros Hi Hbs. apply (issue_all_rename pfx pi B Hinj bs i Hi Hbs). Qed.

Lemma step5_paths_map fuel st1 st2 : corr pi B st1 st2 -> forall ids, incl ids B ->
  step5_paths H fuel st2 (map pi ids) = rmap (map (rn_res pi)) (step5_paths H fuel st1 ids).
Proof.
  intros C. induction ids as [|n ids IH]; intros Hids; cbn [map step5_paths]; [reflexivity|].
  assert (Hn : In n B) by (apply Hids; left; reflexivity).
  assert (Hids' : incl ids B) by (intros x Hx; apply Hids; right; exact Hx).
  assert (Hnil : incl (map fst (@nil (str * str))) B) by (intros x []).
  pose proof (issue_rn pi B Hinj s_b [] n Hnil Hn) as Ei.
  change (rn pi []) with (@nil (str * str)) in Ei. rewrite Ei.
  rewrite (hnd_rn H pi B Hinj fuel st1 st2 n (issue_ s_b [] n) 0 C Hn)
    by (apply issue_incl; [exact Hnil|exact Hn]).
  destruct (hnd H fuel st1 n (issue_ s_b [] n) 0) as [r|e]; cbn [rmap]; [|reflexivity].
  rewrite (IH Hids'). destruct (step5_paths H fuel st1 ids); reflexivity.
Qed.

Lemma step5_fold_rn : forall (l : list (str * issuer)) (c : issuer),
  (forall r, In r l -> incl (map fst (snd r)) B) -> incl (map fst c) B ->
  fold_left (fun c r => issue_all s_c14n c (map fst (snd r))) (map (rn_res pi) l) (rn pi c)
  = rn pi (fold_left (fun c r => issue_all s_c14n c (map fst (snd r))) l c)
  /\ incl (map fst (fold_left (fun c r => issue_all s_c14n c (map fst (snd r))) l c)) B.
Proof.
  induction l as [|r l IH]; intros c Hl Hc; cbn [map fold_left]; [split; [reflexivity|exact Hc]|].
  assert (Hr : incl (map fst (snd r)) B) by (apply Hl; left; reflexivity).
  change (snd (rn_res pi r)) with (rn pi (snd r)). rewrite map_fst_rn.
  rewrite (issue_all_rn s_c14n (map fst (snd r)) c Hc Hr).
  apply IH.
  - intros r0 H0. apply Hl. right; exact H0.
  - apply issue_all_incl; assumption.
Qed.

Lemma step5_issue_rn (c : issuer) paths1 paths2 :
  (forall r, In r paths1 -> incl (map fst (snd r)) B) -> incl (map fst c) B ->
  sort_by path_leb paths2 = map (rn_res pi) (sort_by path_leb paths1) ->
  step5_issue (rn pi c) paths2 = rn pi (step5_issue c paths1)
  /\ incl (map fst (step5_issue c paths1)) B.
Proof.
  intros Hp Hc Es. unfold step5_issue. rewrite Es. apply step5_fold_rn; [|exact Hc].
  intros r Hr. apply Hp. eapply sort_by_In; exact Hr.
Qed.

Lemma step5_rel fuel : forall h1 h2, Forall2 (hrel pi) h1 h2 -> forall st1 st2 issued,
  corr pi B st1 st2 -> hn_ok B h1 ->
  step5_top_ties H fuel st1 h1 = false ->
  step5 H fuel st1 h1 = Ok issued -> step5 H fuel st2 h2 = Ok (rn pi issued).
Proof.
  induction 1 as [|[k1 ids1] [k2 ids2] r1 r2 [Ek P] HF IH]; intros st1 st2 issued C Hok Ht E.
  - cbn [step5] in E |- *. injection E as <-. rewrite (c_canon _ _ _ _ C). reflexivity.
  - cbn [fst snd] in Ek, P. unfold lrel in P. cbn [step5 step5_top_ties] in E, Ht |- *.
    assert (Hok' : hn_ok B r1) by (intros k bl0 H0; eapply Hok; right; exact H0).
    assert (Hids : incl ids1 B) by (eapply Hok; left; reflexivity).
    destruct (step5_paths H fuel st1 ids1) as [paths1|e] eqn:Ep; [|discriminate].
    apply orb_false_iff in Ht as [Hadj Ht].
    pose proof (step5_paths_map fuel st1 st2 C ids1 Hids) as Em. rewrite Ep in Em. cbn [rmap] in Em.
    destruct (step5_paths_perm H fuel st2 _ _ (Permutation_sym P) _ Em) as [paths2 [Ep2 Q]].
    rewrite Ep2.
    assert (Hp : forall r, In r paths1 -> incl (map fst (snd r)) B).
    { eapply step5_paths_ok; [exact (c_closed _ _ _ _ C)|exact Hids|exact Ep]. }
    assert (Es : sort_by path_leb paths2 = map (rn_res pi) (sort_by path_leb paths1)).
    { rewrite <- sort_path_rn. symmetry. apply sort_path_perm; [exact Q|].
      rewrite map_map. change (NoDup (map fst paths1)). apply no_adjacent_nodup; exact Hadj. }
    destruct (step5_issue_rn (st_canon st1) paths1 paths2 Hp (c_canon_in _ _ _ _ C) Es) as [Ei Hi].
    rewrite (c_canon _ _ _ _ C), Ei.
    apply (IH (with_canon st1 (step5_issue (st_canon st1) paths1))).
    + apply corr_with_canon; assumption.
    + exact Hok'.
    + exact Ht.
    + exact E.
Qed.

(* ---------- step 6 ---------- *)
Lemma relabel_t_rn (i : issuer) t : incl (map fst i) B ->
  (forall b, bnode_id t = Some b -> In b B) ->
  relabel_t (rn pi i) (rename_t pi t) = relabel_t i t.
Proof.
  intros Hi Hb. destruct t; cbn [rename_t relabel_t]; try reflexivity.
  rewrite (iss_get_rn pi B Hinj i s Hi); [reflexivity|]. apply Hb. reflexivity.
Qed.

Lemma relabel_q_rn (i : issuer) q : incl (map fst i) B -> incl (bnodes_q q) B ->
  relabel_q (rn pi i) (rename_q pi q) = relabel_q i q.
Proof.
  intros Hi. destruct q as [[[s p] o] g]. rewrite bnodes_q_eq. intros Hq. cbn [rename_q relabel_q].
  assert (Hs : relabel_t (rn pi i) (rename_t pi s) = relabel_t i s).
  { apply relabel_t_rn; [exact Hi|]. intros b Eb. apply Hq. rewrite !in_app_iff. left.
    apply comp_label_bnode; exact Eb. }
  assert (Hp : relabel_t (rn pi i) (rename_t pi p) = relabel_t i p).
  { apply relabel_t_rn; [exact Hi|]. intros b Eb. apply Hq. rewrite !in_app_iff. right; left.
    apply comp_label_bnode; exact Eb. }
  assert (Ho : relabel_t (rn pi i) (rename_t pi o) = relabel_t i o).
  { apply relabel_t_rn; [exact Hi|]. intros b Eb. apply Hq. rewrite !in_app_iff. right; right; left.
    apply comp_label_bnode; exact Eb. }
  rewrite Hs, Hp, Ho. destruct g as [t|]; cbn [option_map]; [|reflexivity].
  rewrite (relabel_t_rn i t Hi); [reflexivity|].
  intros b Eb. apply Hq. rewrite !in_app_iff. right; right; right. apply comp_label_bnode; exact Eb.
Qed.

Lemma relabel_qs_rn (i : issuer) : incl (map fst i) B -> forall d0, incl (bnodes d0) B ->
  relabel_qs (rn pi i) (map (rename_q pi) d0) = relabel_qs i d0.
Proof.
  intros Hi. induction d0 as [|q d0 IH]; intros Hd; cbn [map relabel_qs]; [reflexivity|].
  unfold bnodes in Hd. cbn [flat_map] in Hd. apply incl_app_inv in Hd as [Hq Hd].
  rewrite (relabel_q_rn i q Hi Hq), (IH Hd). reflexivity.
Qed.
End Step5.

(* ================= E. the theorem ================= *)
Theorem relabel_with_rename : forall H v fuel df pl pi d qs i1,
  v_once v = true -> supported d = true -> inj_on pi (bnodes d) ->
  top_ties H v fuel df pl d = false ->
  relabel_with H v fuel df pl d = Ok (qs, i1) ->
  relabel_with H v fuel df pl (map (rename_q pi) d) = Ok (qs, rn pi i1).
Proof.
  intros H v fuel df pl pi d qs i1 Hv Hsup Hinj Ht R.
  pose proof (relabel_with_core _ _ _ _ _ _ _ _ R) as (_ & Hi1 & _ & _).
  unfold relabel_with in R |- *. unfold top_ties in Ht. rewrite Hv in R, Ht |- *.
  destruct (step2 true d []) as [m1|e] eqn:E1; [|discriminate].
  assert (Hsup2 : supported (map (rename_q pi) d) = true) by (rewrite supported_rename; exact Hsup).
  destruct (FirstDegree.step2_ok true _ Hsup2 []) as [m2 E2]. rewrite E2.
  set (B := bnodes d) in *.
  destruct (step2_closed _ _ _ E1) as [Hq Hk].
  assert (Hh2b : hn_ok B (step3_h2b (step3_b2h H m1))).
  { unfold step3_h2b. apply step3_h2b_ok; [|intros k bl []].
    intros e He. unfold step3_b2h in He. apply in_map_iff in He as [[k qs0] [<- He]].
    cbn [fst]. eapply Hk; exact He. }
  assert (Hnil : incl (map fst (@nil (str * str))) B) by (intros x []).
  destruct (step4 (step3_h2b (step3_b2h H m1)) []) as [h1 c1] eqn:E4.
  pose proof (h2b_rel pi _ _ (b2h_perm H pi d Hinj Hsup m1 m2 E1 E2)) as F.
  destruct (step4_rel pi d Hinj _ _ F [] h1 c1 Hh2b Hnil E4) as [h2 [E4' F']].
  change (rn pi []) with (@nil (str * str)) in E4'. rewrite E4'.
  pose proof (step4_ok B _ _ _ _ Hh2b (wf_iss_nil s_c14n) Hnil E4) as (Hn1 & Hw1 & Hc1).
  destruct (step5 H fuel (mkState m1 (step3_b2h H m1) c1 df pl (v_prune v)) h1)
    as [issued|e] eqn:E5; [|discriminate].
  assert (C : corr pi B (mkState m1 (step3_b2h H m1) c1 df pl (v_prune v))
                        (mkState m2 (step3_b2h H m2) (rn pi c1) df pl (v_prune v))).
  { constructor; cbn [st_b2q st_b2h st_canon st_df1000 st_plimit st_prune]; try reflexivity.
    - apply (b2q_rename pi d Hinj m1 m2 E1 E2).
    - apply (b2q_length pi d Hinj m1 m2 E1 E2).
    - apply (b2h_get H pi d Hinj m1 m2 E1 E2).
    - exact Hc1.
    - intros k qs0 q Hin Hq0. cbn [st_b2q] in Hin. apply bnodes_q_incl. eapply Hq; eauto. }
  rewrite (step5_rel H pi B Hinj fuel h1 h2 F' _ _ issued C Hn1 Ht E5).
  destruct (relabel_qs issued d) as [qs1|e] eqn:E6; [|discriminate]. injection R as <- <-.
  rewrite (relabel_qs_rn pi B Hinj issued Hi1 d (incl_refl _)), E6. reflexivity.
Qed.

Theorem invariance_under_relabelling : forall H fuel df pl pi d b1 i1,
  Forall wf_quad d -> Forall wf_quad (map (rename_q pi) d) ->
  inj_on pi (bnodes d) ->
  top_ties H (mkVar true true) fuel df pl d = false ->
  impl_model H fuel df pl d = Ok (b1, i1) ->
  exists i2, impl_model H fuel df pl (map (rename_q pi) d) = Ok (b1, i2).
Proof.
  intros H fuel df pl pi d b1 i1 W1 W2 Hinj Ht R.
  apply impl_model_inv in R as [qs [R ->]].
  exists (rn pi i1). unfold impl_model, normalize_with.
  rewrite (relabel_with_rename H (mkVar true true) fuel df pl pi d qs i1
             eq_refl (wf_supported d W1) Hinj Ht R).
  reflexivity.
Qed.

