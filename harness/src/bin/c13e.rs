//! C13 (expression layer) -- probe version
use sophia_api::prelude::*;
use sophia_api::sparql::{Query, SparqlDataset, SparqlResult};
use sophia_inmem::dataset::LightDataset;
use sophia_sparql::*;
use verif_harness::*;

fn run(q: &str) -> String {
    let d = LightDataset::new();
    let parsed = match SparqlQuery::<LightDataset>::parse(q) { Ok(p) => p, Err(e) => return format!("PARSE {e}") };
    if std::env::var("DEBUGQ").is_ok() { println!("{parsed:?}"); }
    let r = std::panic::catch_unwind(std::panic::AssertUnwindSafe(|| {
        match SparqlWrapper(&d).query(&parsed) {
            Err(e) => format!("ERR {e}"),
            Ok(SparqlResult::Boolean(b)) => format!("BOOL {b}"),
            Ok(SparqlResult::Bindings(b)) => {
                let mut o = String::new();
                for row in b {
                    match row { Ok(r) => { for t in r.iter() { match t { Some(t) => o.push_str(&format!("{} ", show(t.borrow_term()))), None => o.push_str("UNBOUND ") } } o.push('|'); }, Err(e) => return format!("ROWERR {e}") }
                }
                o
            }
            Ok(_) => "OTHER".into(),
        }
    }));
    match r { Ok(s) => s, Err(_) => "PANIC".into() }
}

fn show<T: Term>(t: T) -> String {
    use sophia_api::term::TermKind::*;
    match t.kind() {
        Iri => format!("<{}>", t.iri().unwrap().as_str()),
        BlankNode => format!("_:{}", t.bnode_id().unwrap().as_str()),
        Variable => format!("?{}", t.variable().unwrap().as_str()),
        Literal => match t.language_tag() { Some(tag) => format!("{:?}@{}", t.lexical_form().unwrap(), tag.as_str()), None => format!("{:?}^^{}", t.lexical_form().unwrap(), t.datatype().unwrap().as_str().replace(XSD, "xsd:")) },
        Triple => { let [s, p, o] = t.triple().unwrap(); format!("<<{} {} {}>>", show(s), show(p), show(o)) }
    }
}
fn main() {
    use std::io::BufRead;
    for l in std::io::stdin().lock().lines() {
        let l = l.unwrap();
        if l.trim().is_empty() { continue }
        let q = format!("PREFIX xsd: <http://www.w3.org/2001/XMLSchema#> SELECT ?r {{ BIND(({l}) AS ?r) }}");
        println!("{l}  ==>  {}", run(&q));
    }
}
