(* C15/Model.v -- api/src/source.rs and its adapters (filter.rs, map.rs, filter_map.rs,
   convert.rs), transcribed in continuation style exactly as the code is written:
   an adapter wraps the consumer closure handed to the inner source's try_for_some_item.
   Items and error values are numbers; pipelines are lists of adapters of any depth.
   Definitions only. *)
From Sophia.Common Require Export Prelude.

Definition item := N.
Definition err := N.

(* a source = the steps it still has to make.  One step (one call of try_for_some_item) hands
   0, 1 or several items to the consumer and may then fail:
   - `Iterator<Item = Result<T, E>>`: every step is ([x], None) or ([], Some e);
   - a Rio parser (rio/src/parser.rs): parse_step calls the callback once per triple of the
     statement just read (several for `;` and `,` lists) and then reports a syntax error, if any *)
Definition source := list (list item * option err).
Definition of_results (l : list (item + err)) : source :=
  map (fun r => match r with inl x => ([x], None) | inr e => ([], Some e) end) l.

(* StreamError / StreamResult<bool, _, _> *)
Inductive outcome :=
| More            (* Ok(true): an item was pulled, there may be more *)
| Done            (* Ok(false) / Ok(()): exhausted *)
| SourceError (e : err)
| SinkError (e : err).

(* consumers: a state transformer that may fail (FnMut(Item) -> Result<(), E>) *)
Section Sink.
Variable St : Type.
Definition sink := item -> St -> St * option err.

Inductive adapter :=
| AFilter (p : item -> bool)               (* filter_items / filter_triples / filter_quads *)
| AMap (f : item -> item)                  (* map_items / map_triples / to_quads / to_triples *)
| AFilterMap (f : item -> option item).    (* filter_map_items ... *)

(* Source for FilterSource: |i| if p(&i) { f(i)?; } Ok(())     etc.
   The head of the chain is the adapter applied first (closest to the source). *)
Fixpoint wrap (chain : list adapter) (f : sink) : sink :=
  match chain with
  | [] => f
  | AFilter p :: c => fun i st => if p i then wrap c f i st else (st, None)
  | AMap m :: c => fun i st => wrap c f (m i) st
  | AFilterMap m :: c => fun i st => match m i with None => (st, None) | Some o => wrap c f o st end
  end.

(* one step: feed the batch to the (wrapped) consumer, stop at its first error; then the step's
   own error, if any (RioStreamError::Sink / ::Source; for iterators the batch is a singleton) *)
Fixpoint feed (g : sink) (items : list item) (st : St) : St * option err :=
  match items with
  | [] => (st, None)
  | x :: r => let '(st', oe) := g x st in
              match oe with Some e => (st', Some e) | None => feed g r st' end
  end.

Definition try_for_some (src : source) (chain : list adapter) (f : sink) (st : St)
  : source * St * outcome :=
  match src with
  | [] => ([], st, Done)
  | (items, oe) :: rest =>
      let '(st', se) := feed (wrap chain f) items st in
      (rest, st', match se with
                  | Some e => SinkError e
                  | None => match oe with Some e => SourceError e | None => More end
                  end)
  end.

(* try_for_each_item: while self.try_for_some_item(&mut f)? {} ; structural on the remaining
   steps because each round consumes exactly one *)
Fixpoint try_for_each (src : source) (chain : list adapter) (f : sink) (st : St)
  : source * St * outcome :=
  match src with
  | [] => ([], st, Done)
  | (items, oe) :: rest =>
      let '(st', se) := feed (wrap chain f) items st in
      match se with
      | Some e => (rest, st', SinkError e)
      | None => match oe with
                | Some e => (rest, st', SourceError e)
                | None => try_for_each rest chain f st'
                end
      end
  end.

(* driving step by step: call try_for_some_item until it stops saying More *)
Fixpoint stepwise (fuel : nat) (src : source) (chain : list adapter) (f : sink) (st : St)
  : source * St * outcome :=
  match fuel with
  | O => (src, st, More)
  | S n =>
      let '(src', st', o) := try_for_some src chain f st in
      match o with More => stepwise n src' chain f st' | _ => (src', st', o) end
  end.

(* ---------- specification: take the prefix before the fault, filter_map it ---------- *)
Fixpoint through (chain : list adapter) (x : item) : option item :=
  match chain with
  | [] => Some x
  | AFilter p :: c => if p x then through c x else None
  | AMap m :: c => through c (m x)
  | AFilterMap m :: c => match m x with None => None | Some y => through c y end
  end.

(* feed the filter_map image of a batch to the bare consumer *)
Fixpoint feed_spec (chain : list adapter) (f : sink) (items : list item) (st : St) : St * option err :=
  match items with
  | [] => (st, None)
  | x :: r =>
      match through chain x with
      | None => feed_spec chain f r st
      | Some y => let '(st', oe) := f y st in
                  match oe with Some e => (st', Some e) | None => feed_spec chain f r st' end
      end
  end.
Fixpoint spec (src : source) (chain : list adapter) (f : sink) (st : St) : source * St * outcome :=
  match src with
  | [] => ([], st, Done)
  | (items, oe) :: rest =>
      let '(st', se) := feed_spec chain f items st in
      match se with
      | Some e => (rest, st', SinkError e)
      | None => match oe with
                | Some e => (rest, st', SourceError e)
                | None => spec rest chain f st'
                end
      end
  end.

(* ---------- MapSource / FilterMapSource as iterators (IntoIterator, map.rs / filter_map.rs) ----------
   next(): take the pending buffer; while it is empty and the source may have more, run one
   for_some_item step pushing Ok(mapped item) for each item, then Err(e) if the step failed
   (which also ends the loop); put the buffer back and pop its front. *)
Definition step_out (chain : list adapter) (stp : list item * option err) : list (item + err) :=
  flat_map (fun x => match through chain x with Some y => [inl y] | None => [] end) (fst stp)
  ++ match snd stp with Some e => [inr e] | None => [] end.
Fixpoint fill (src : source) (chain : list adapter) : source * list (item + err) :=
  match src with
  | [] => ([], [])
  | stp :: rest =>
      match step_out chain stp with
      | [] => fill rest chain               (* nothing produced, no error: loop again *)
      | b => (rest, b)
      end
  end.
Definition iter_next (chain : list adapter) (it : source * list (item + err))
  : option (item + err) * (source * list (item + err)) :=
  let '(src, buf) := it in
  let '(src', buf') := match buf with [] => fill src chain | _ => (src, buf) end in
  match buf' with
  | [] => (None, (src', []))
  | x :: b => (Some x, (src', b))
  end.
Fixpoint drain (fuel : nat) (chain : list adapter) (it : source * list (item + err)) : list (item + err) :=
  match fuel with
  | O => []
  | S n => match iter_next chain it with
           | (None, _) => []
           | (Some x, it') => x :: drain n chain it'
           end
  end.
End Sink.


(* ---------- the recording consumer used by the statements and by the harness ---------- *)
(* state = (items consumed so far, in order); fails with error e on the (j+1)-th item it receives *)
Definition rec_sink (fault : option (nat * err)) : sink (list item) :=
  fun y st =>
    match fault with
    | Some (j, e) => if Nat.eqb (length st) j then (st ++ [y], Some e) else (st ++ [y], None)
    | None => (st ++ [y], None)
    end.

(* insert_all / remove_all: count the effective changes of a set-like store *)
Definition set_insert (s : list item) (x : item) : list item * bool :=
  if existsb (N.eqb x) s then (s, false) else (s ++ [x], true).
Definition set_remove (s : list item) (x : item) : list item * bool :=
  if existsb (N.eqb x) s then (filter (fun y => negb (N.eqb x y)) s, true) else (s, false).
(* a store whose term index refuses the (cap+1)-th distinct item: the sink error of insert_all *)
Definition insert_sink (cap : option nat) (e : err) : sink (list item * nat) :=
  fun y st =>
    let '(s, c) := st in
    if existsb (N.eqb y) s then ((s, c), None)
    else match cap with
         | Some k => if Nat.leb k (length s) then ((s, c), Some e) else ((s ++ [y], S c), None)
         | None => ((s ++ [y], S c), None)
         end.
Definition remove_sink : sink (list item * nat) :=
  fun y st =>
    let '(s, c) := st in
    let '(s', b) := set_remove s y in (s', if b then S c else c, None).

(* ---------- harness-facing: adapters as data ---------- *)
Inductive adesc :=
| DFilterEven | DFilterLt (k : N) | DFilterNone | DFilterAll
| DMapSucc | DMapDouble | DMapConst (k : N)
| DFilterMapHalf      (* even x -> Some (x/2), odd -> None *)
| DFilterMapLtSucc (k : N).  (* x < k -> Some (x+1) *)
Definition adapter_of (d : adesc) : adapter :=
  match d with
  | DFilterEven => AFilter (fun x => N.even x)
  | DFilterLt k => AFilter (fun x => x <? k)
  | DFilterNone => AFilter (fun _ => false)
  | DFilterAll => AFilter (fun _ => true)
  | DMapSucc => AMap (fun x => x + 1)
  | DMapDouble => AMap (fun x => 2 * x)
  | DMapConst k => AMap (fun _ => k)
  | DFilterMapHalf => AFilterMap (fun x => if N.even x then Some (x / 2) else None)
  | DFilterMapLtSucc k => AFilterMap (fun x => if x <? k then Some (x + 1) else None)
  end.

Inductive out_kind := KDone | KSource (e : err) | KSink (e : err) | KMore.
Definition kind_of_outcome (o : outcome) : out_kind :=
  match o with More => KMore | Done => KDone | SourceError e => KSource e | SinkError e => KSink e end.
Definition out_kind_eqb (a b : out_kind) : bool :=
  match a, b with
  | KDone, KDone | KMore, KMore => true
  | KSource x, KSource y | KSink x, KSink y => N.eqb x y
  | _, _ => false
  end.

(* one run with the recording consumer: (consumed trace, outcome, number of source elements pulled) *)
Definition run_rec (src : source) (chain : list adesc) (fault : option (nat * err))
  : list item * out_kind * N :=
  let '(rest, st, o) := try_for_each (list item) src (map adapter_of chain) (rec_sink fault) [] in
  (st, kind_of_outcome o, N.of_nat (length src - length rest)).
Definition run_rec_ok src chain fault (trace : list item) (o : out_kind) (pulled : N) : bool :=
  let '(t, k, p) := run_rec src chain fault in
  str_eqb t trace && out_kind_eqb k o && N.eqb p pulled.

(* insert_all into a capped store: (final content, count, outcome) *)
Definition run_insert (init : list item) (src : source) (chain : list adesc) (cap : option nat)
  : list item * N * out_kind :=
  let s0 := fold_left (fun s x => fst (set_insert s x)) init [] in
  let '(_, (s, c), o) := try_for_each _ src (map adapter_of chain) (insert_sink cap 999) (s0, O) in
  (s, N.of_nat c, kind_of_outcome o).
Fixpoint ins_sorted (k : N) (l : list N) : list N :=
  match l with [] => [k] | x :: l' => if k <=? x then k :: l else x :: ins_sorted k l' end.
Definition sortN (l : list N) := fold_right ins_sorted [] l.
Definition run_insert_ok init src chain cap (content : list item) (count : N) (o : out_kind) : bool :=
  let '(s, c, k) := run_insert init src chain cap in
  str_eqb (sortN s) (sortN content) && N.eqb c count && out_kind_eqb k o.
Definition run_remove (init : list item) (src : source) (chain : list adesc)
  : list item * N * out_kind :=
  let s0 := fold_left (fun s x => fst (set_insert s x)) init [] in
  let '(_, (s, c), o) := try_for_each _ src (map adapter_of chain) remove_sink (s0, O) in
  (s, N.of_nat c, kind_of_outcome o).
Definition run_remove_ok init src chain (content : list item) (count : N) (o : out_kind) : bool :=
  let '(s, c, k) := run_remove init src chain in
  str_eqb (sortN s) (sortN content) && N.eqb c count && out_kind_eqb k o.

(* draining MapSource/FilterMapSource::into_iter() *)
Definition res_eqb (a b : item + err) : bool :=
  match a, b with inl x, inl y | inr x, inr y => N.eqb x y | _, _ => false end.
Definition total_out (src : source) : nat :=
  fold_right (fun stp n => (length (fst stp) + 1 + n)%nat) 1%nat src.
Definition drain_ok (src : source) (chain : list adesc) (observed : list (item + err)) : bool :=
  list_eqb res_eqb (drain (total_out src) (map adapter_of chain) (src, [])) observed.
