(* C02/Model.v -- harness-facing checkers for the term model of Common/Term.v. *)
From Sophia.Common Require Export Prelude Term.

Definition cmp_eqb (a b : comparison) : bool :=
  match a, b with Eq, Eq | Lt, Lt | Gt, Gt => true | _, _ => false end.

(* what the implementation answered for the ordered pair (a, b), in every pair of representations *)
Definition pair_ok (a b : term) (eq : bool) (cmp : comparison) : bool :=
  Bool.eqb (term_eqb a b) eq && cmp_eqb (term_cmp a b) cmp.

(* the bytes the implementation fed to the Hasher *)
Definition hash_ok (a : term) (bytes : list N) : bool := str_eqb (hash_stream a) bytes.

(* NsTerm::eq on (namespace, suffix) against an IRI *)
Fixpoint strip_prefix (p s : str) : option str :=
  match p, s with
  | [], _ => Some s
  | x :: p', y :: s' => if N.eqb x y then strip_prefix p' s' else None
  | _ :: _, [] => None
  end.
Definition ns_iri_eqb (ns suffix other : str) : bool :=
  match strip_prefix ns other with Some rest => str_eqb rest suffix | None => false end.
Definition ns_ok (ns suffix : str) (other : term) (eq : bool) : bool :=
  Bool.eqb (match other with Iri o => ns_iri_eqb ns suffix o | _ => false end) eq.
