(* C16/Model.v -- cost-instrumented models of the loops of sophia that are (or were) written as
   self-recursion per element.  Every model function lives in the cost monad [C]: it returns its
   ordinary result AND the maximal number of simultaneously live stack frames of the modelled
   functions when NO self-call is tail-call optimised.

   The frame count is not assigned by hand per function: it is derived from the shape of the
   code by three combinators
     ret a        no call                                   depth 0
     bind m f     sequential composition  m; f              depth = max (the frames of m are gone
                                                            when f runs)
     call m       entering a function whose body is m       depth = 1 + depth of the body
   A Rust `loop`/`for`/`while` is a Gallina fixpoint that uses [bind] only (no new frame per
   iteration); a Rust self-call is a Gallina recursive call wrapped in [call].

   Each modelled function comes in the shape found on the original tree (`_rec_`: self-recursion
   per element) and in the shape of the proposed patches build/proposed/C16-{a,b,c,d}.diff
   (`_loop_`).  What the frame count cannot see: the optimiser (LLVM does turn some of these
   self-calls into jumps in release builds) and the size of a frame in bytes.

   Modelled code:
     inmem/src/graph/_iter.rs    SpoMatchingIterator::next, BcMatchingIterator::next, TermData
     inmem/src/dataset/_iter.rs  GspoMatchingIterator::next, BcdMatchingIterator::next,
                                 CdMatchingIterator::next, GraphNameData
     turtle/src/serializer/nt.rs quoted_string
     sparql/src/exec.rs          graph (variable arm), graph_rec, and the iterators it builds
                                 (std::iter::FilterMap / Chain / Flatten) consumed and dropped
     jsonld/src/serializer/engine.rs  mark_list_node, populate_list, convert_rdf_object (Node arm)
     turtle/src/serializer/_pretty.rs find_subject
     api/src/term.rs             Term::constituents / to_constituents, atoms / to_atoms
     turtle/src/serializer/nt.rs write_term, write_triple, NtSerializer::serialize_triples
   Definitions only. *)
From Sophia.Common Require Export Prelude Term.

(* ------------------------------------------------------------------------------------------ *)
(** * The cost monad                                                                           *)
(* ------------------------------------------------------------------------------------------ *)
Definition C (A : Type) : Type := (A * nat)%type.
Definition res {A} (m : C A) : A := fst m.
Definition depth {A} (m : C A) : nat := snd m.
Definition ret {A} (a : A) : C A := (a, O).
Definition bind {A B} (m : C A) (f : A -> C B) : C B :=
  let r := f (fst m) in (fst r, Nat.max (snd m) (snd r)).   (* [f] is run once *)
Definition call {A} (m : C A) : C A := (fst m, S (snd m)).
(* a callee that calls nothing we model (a caller-supplied matcher, io::Write::write_all, ...) *)
Definition leaf {A} (a : A) : C A := call (ret a).

Notation "x <- m ;; f" := (bind m (fun x => f))
  (at level 61, m at next level, right associativity).
Notation "' p <- m ;; f" := (bind m (fun p => f))
  (at level 61, p pattern, m at next level, right associativity).

(* ------------------------------------------------------------------------------------------ *)
(** * (a) the five matching iterators of sophia_inmem                                          *)
(* ------------------------------------------------------------------------------------------ *)
(* All five `next` functions have the same text up to the number of columns:
     - k "cached" columns (g,s,p for Gspo; s,p for Spo; b,c for Bcd; c for Cd; b for Bc):
         if xi != self.x.i { self.x.update(xi, self.terms); }
         if !self.x.b { return self.next(); }
     - one final column (o / d / c) that is always updated:
         self.o.update(oi, self.terms);
         if !self.o.b { self.next() } else { Some(...) }
   and the constant leading columns (a, b) of the range iterators play no role.
   A row is the list of the indices of its non-constant columns, in index order; a term is
   determined by its index, so a matcher is a function of the index. *)
Record tdata := mk_td { td_i : N; td_b : bool }.       (* TermData / GraphNameData: i, b (t is a function of i) *)
Definition matcher := N -> bool.
Definition trace := list (N * N).                      (* calls of the matchers: (column, index) *)
Definition row := list N.

(* TermData::update: one frame, which calls `self.m.matches(..)` *)
Definition update_c (col : N) (m : matcher) (i : N) : C (tdata * trace) :=
  call (b <- leaf (m i) ;; ret (mk_td i b, [(col, i)])).

(* the cached columns of one row, straight-line code inside `next`: new caches, whether the row
   survived all of them, matcher calls.  A rejected row leaves the later caches untouched. *)
Fixpoint cols_c (col : N) (ms : list matcher) (cache : list tdata) (r : row)
  : C (list tdata * bool * trace) :=
  match ms, cache, r with
  | m :: ms', c :: cache', x :: r' =>
      '(c', tr) <- (if N.eqb x (td_i c) then ret (c, []) else update_c col m x) ;;
      if td_b c' then
        '(cs, ok, tr') <- cols_c (col + 1) ms' cache' r' ;;
        ret (c' :: cs, ok, tr ++ tr')
      else ret (c' :: cache', false, tr)
  | _, _, _ => ret (cache, true, [])
  end.

Definition row_c (ms : list matcher) (mlast : matcher) (cache : list tdata) (r : row)
  : C (list tdata * bool * trace) :=
  '(cs, ok, tr) <- cols_c 0 ms cache r ;;
  if ok then
    '(d, tr') <- update_c (N.of_nat (length ms)) mlast (nth (length ms) r 0) ;;
    ret (cs, td_b d, tr ++ tr')
  else ret (cs, false, tr).

(* result of one `next`: the item, the caches, the rows not yet pulled from the B-tree iterator,
   the matcher calls *)
Definition nres := (option row * list tdata * list row * trace)%type.

(* ORIGINAL shape: `return self.next()` for every rejected row *)
Fixpoint next_rec_c (ms : list matcher) (mlast : matcher) (cache : list tdata) (rows : list row)
  : C nres :=
  call (match rows with
        | [] => ret (None, cache, [], [])                       (* `self.spo.next()?` *)
        | r :: rs =>
            '(cs, ok, tr) <- row_c ms mlast cache r ;;
            if ok then ret (Some r, cs, rs, tr)
            else '(x, cs', rs', tr') <- next_rec_c ms mlast cs rs ;;
                 ret (x, cs', rs', tr ++ tr')
        end).

(* PATCHED shape (C16-a.diff): `loop { ... continue ... }` inside one frame *)
Fixpoint next_loop_body (ms : list matcher) (mlast : matcher) (cache : list tdata) (rows : list row)
  : C nres :=
  match rows with
  | [] => ret (None, cache, [], [])
  | r :: rs =>
      '(cs, ok, tr) <- row_c ms mlast cache r ;;
      if ok then ret (Some r, cs, rs, tr)
      else '(x, cs', rs', tr') <- next_loop_body ms mlast cs rs ;;
           ret (x, cs', rs', tr ++ tr')
  end.
Definition next_loop_c ms mlast cache rows : C nres := call (next_loop_body ms mlast cache rows).

(* the same without costs *)
Definition update_p (col : N) (m : matcher) (i : N) : tdata * trace := (mk_td i (m i), [(col, i)]).
Fixpoint cols_p (col : N) (ms : list matcher) (cache : list tdata) (r : row)
  : list tdata * bool * trace :=
  match ms, cache, r with
  | m :: ms', c :: cache', x :: r' =>
      let '(c', tr) := if N.eqb x (td_i c) then (c, []) else update_p col m x in
      if td_b c' then
        let '(cs, ok, tr') := cols_p (col + 1) ms' cache' r' in (c' :: cs, ok, tr ++ tr')
      else (c' :: cache', false, tr)
  | _, _, _ => (cache, true, [])
  end.
Definition row_p (ms : list matcher) (mlast : matcher) (cache : list tdata) (r : row)
  : list tdata * bool * trace :=
  let '(cs, ok, tr) := cols_p 0 ms cache r in
  if ok then
    let '(d, tr') := update_p (N.of_nat (length ms)) mlast (nth (length ms) r 0) in
    (cs, td_b d, tr ++ tr')
  else (cs, false, tr).
Fixpoint next_p (ms : list matcher) (mlast : matcher) (cache : list tdata) (rows : list row) : nres :=
  match rows with
  | [] => (None, cache, [], [])
  | r :: rs =>
      let '(cs, ok, tr) := row_p ms mlast cache r in
      if ok then (Some r, cs, rs, tr)
      else let '(x, cs', rs', tr') := next_p ms mlast cs rs in (x, cs', rs', tr ++ tr')
  end.

(* number of leading rows that `next` rejects before it yields or reaches the end *)
Fixpoint skipped (ms : list matcher) (mlast : matcher) (cache : list tdata) (rows : list row) : nat :=
  match rows with
  | [] => O
  | r :: rs => let '(cs, ok, _) := row_p ms mlast cache r in
               if ok then O else S (skipped ms mlast cs rs)
  end.

(* `new`: TermData::new for the cached columns on the first row (one matcher call each),
   TermData::uninit for the final one (no call) *)
Fixpoint new_cols (col : N) (ms : list matcher) (first : row) : list tdata * trace :=
  match ms, first with
  | m :: ms', x :: r' => let '(cs, tr) := new_cols (col + 1) ms' r' in
                         (mk_td x (m x) :: cs, (col, x) :: tr)
  | _, _ => ([], [])
  end.

(* the consumer's loop over `next` (for / count / collect): it is the CALLER of next, so each
   call of next starts from the same depth *)
Fixpoint collect_c (next : list tdata -> list row -> C nres) (fuel : nat)
         (cache : list tdata) (rows : list row) : C (list row * trace) :=
  match fuel with
  | O => ret ([], [])
  | S f =>
      '(x, cache', rows', tr) <- next cache rows ;;
      match x with
      | None => ret ([], tr)
      | Some r => '(out, tr') <- collect_c next f cache' rows' ;; ret (r :: out, tr ++ tr')
      end
  end.
Fixpoint collect_p (ms : list matcher) (mlast : matcher) (fuel : nat)
         (cache : list tdata) (rows : list row) : list row * trace :=
  match fuel with
  | O => ([], [])
  | S f =>
      let '(x, cache', rows', tr) := next_p ms mlast cache rows in
      match x with
      | None => ([], tr)
      | Some r => let '(out, tr') := collect_p ms mlast f cache' rows' in (r :: out, tr ++ tr')
      end
  end.

(* `boxed` + complete consumption; [looped] selects the patched shape *)
Definition iter_all_c (looped : bool) (ms : list matcher) (mlast : matcher) (rows : list row)
  : C (list row * trace) :=
  match rows with
  | [] => ret ([], [])                                             (* Box::new(empty()) *)
  | first :: _ =>
      let '(cache, tr0) := new_cols 0 ms first in
      '(out, tr) <- collect_c (if looped then next_loop_c ms mlast else next_rec_c ms mlast)
                              (S (length rows)) cache rows ;;
      ret (out, tr0 ++ tr)
  end.
Definition iter_all_p (ms : list matcher) (mlast : matcher) (rows : list row) : list row * trace :=
  match rows with
  | [] => ([], [])
  | first :: _ =>
      let '(cache, tr0) := new_cols 0 ms first in
      let '(out, tr) := collect_p ms mlast (S (length rows)) cache rows in (out, tr0 ++ tr)
  end.

(* the specification the iterators are meant to meet: the rows accepted by every matcher *)
Fixpoint row_accepted (ms : list matcher) (mlast : matcher) (r : row) : bool :=
  match ms, r with
  | m :: ms', x :: r' => m x && row_accepted ms' mlast r'
  | [], x :: _ => mlast x
  | _, _ => false
  end.

(* ------------------------------------------------------------------------------------------ *)
(** * (b) quoted_string (turtle/src/serializer/nt.rs)                                          *)
(* ------------------------------------------------------------------------------------------ *)
Definition is_special (c : N) : bool :=
  (c <=? 92) && ((c =? 10) || (c =? 13) || (c =? 92) || (c =? 34)).
(* the `for (pos, chr) in txt.iter().enumerate()` scan: txt[..cut], and the cut byte with
   txt[cut+1..] if there is one *)
Fixpoint qs_scan (txt : list N) : list N * option (N * list N) :=
  match txt with
  | [] => ([], None)
  | c :: r => if is_special c then ([], Some (c, r))
              else let (pre, x) := qs_scan r in (c :: pre, x)
  end.
Definition esc (c : N) : list N :=
  if c =? 10 then [92; 110] else if c =? 13 then [92; 114]
  else if c =? 34 then [92; 34] else if c =? 92 then [92; 92] else [].
Definition write_all_c (b : list N) : C (list N) := leaf b.

(* ORIGINAL: `quoted_string(w, &txt[cut + 1..])` when something is left after the cut byte.
   The slice gets strictly shorter: fuel = length + 1 is enough (lemma qs_fuel_enough). *)
Fixpoint qs_rec_c (fuel : nat) (txt : list N) : C (list N) :=
  match fuel with
  | O => ret []
  | S f =>
      call (let (pre, x) := qs_scan txt in
            o1 <- write_all_c pre ;;
            match x with
            | None => ret o1
            | Some (c, rest) =>
                o2 <- write_all_c (esc c) ;;
                match rest with
                | [] => ret (o1 ++ o2)
                | _ :: _ => o3 <- qs_rec_c f rest ;; ret (o1 ++ o2 ++ o3)
                end
            end)
  end.
Definition quoted_string_rec_c (txt : list N) : C (list N) := qs_rec_c (S (length txt)) txt.

(* PATCHED (C16-b.diff): `loop { ...; txt = &txt[cut + 1..]; }` *)
Fixpoint qs_loop_body (fuel : nat) (txt : list N) : C (list N) :=
  match fuel with
  | O => ret []
  | S f =>
      let (pre, x) := qs_scan txt in
      o1 <- write_all_c pre ;;
      match x with
      | None => ret o1
      | Some (c, rest) =>
          o2 <- write_all_c (esc c) ;;
          match rest with
          | [] => ret (o1 ++ o2)
          | _ :: _ => o3 <- qs_loop_body f rest ;; ret (o1 ++ o2 ++ o3)
          end
      end
  end.
Definition quoted_string_loop_c (txt : list N) : C (list N) :=
  call (qs_loop_body (S (length txt)) txt).

(* specification of the bytes written *)
Definition quoted_string_p (txt : list N) : list N :=
  flat_map (fun c => if is_special c then esc c else [c]) txt.

(* the exact number of quoted_string frames of the original: one per special byte that is not
   the last byte of its slice, plus the one that finishes *)
Fixpoint qs_frames (txt : list N) : nat :=
  match txt with
  | [] => 1
  | c :: r => if is_special c then match r with [] => 1%nat | _ :: _ => S (qs_frames r) end
              else qs_frames r
  end.
Fixpoint count_special (txt : list N) : nat :=
  match txt with [] => O | c :: r => (if is_special c then 1 else 0) + count_special r end%nat.

(* ------------------------------------------------------------------------------------------ *)
(** * (c) GRAPH ?g : graph / graph_rec (sparql/src/exec.rs) and the iterators it builds        *)
(* ------------------------------------------------------------------------------------------ *)
Definition sol := list N.                     (* one solution of GRAPH ?g { inner }: ?g first *)
(* one solution of `inner` evaluated on one named graph: the value it gives to the variable of
   the GRAPH clause, if it mentions it, and the rest *)
Definition jsol := (option N * list N)%type.
(* the `filter_map` closure of graph_rec: join the solution with { var -> name } *)
Definition join1 (g : N) (j : jsol) : option sol :=
  match fst j with
  | Some x => if N.eqb x g then Some (g :: snd j) else None
  | None => Some (g :: snd j)
  end.
Definition join_all (g : N) (l : list jsol) : list sol :=
  flat_map (fun j => match join1 g j with Some s => [s] | None => [] end) l.

(* the boxed iterators: Empty, FilterMap over what `select` returned for one graph (opaque: a
   list), Chain, Flatten over a vector of such FilterMaps *)
Inductive iter :=
| IEmpty
| IJoin (g : N) (l : list jsol)
| IChain (a b : iter)
| IFlat (ls : list (N * list jsol)).

Section Graph.
(* self.select(inner, &[Some(name)], binding): the solutions of the inner pattern on one graph;
   its own stack depth [dsel] depends on the inner pattern (and on (a)), not on the number of
   graphs *)
Variable sel : N -> list jsol.
Variable dsel : nat.
Definition select_c (g : N) : C (list jsol) := (sel g, dsel).

(* ORIGINAL graph_rec: one frame and one more nested Chain per graph name *)
Fixpoint graph_rec_c (names : list N) : C iter :=
  call (match names with
        | [] => ret IEmpty
        | g :: r => l <- select_c g ;; rest <- graph_rec_c r ;; ret (IChain (IJoin g l) rest)
        end).
(* PATCHED (C16-c.diff): a `for` loop pushing into a Vec, then `.into_iter().flatten()` *)
Fixpoint graph_loop_body (names : list N) : C (list (N * list jsol)) :=
  match names with
  | [] => ret []
  | g :: r => l <- select_c g ;; ls <- graph_loop_body r ;; ret ((g, l) :: ls)
  end.
Definition graph_loop_c (names : list N) : C iter :=
  call (ls <- graph_loop_body names ;; ret (IFlat ls)).
End Graph.

(* FilterMap::next: a loop, in one frame, over inner.next() (a call) and the closure *)
Fixpoint join_next_c (g : N) (l : list jsol) : C (option sol * list jsol) :=
  match l with
  | [] => _ <- leaf tt ;; ret (None, [])
  | j :: r => _ <- leaf tt ;;
              match join1 g j with Some s => ret (Some s, r) | None => join_next_c g r end
  end.
(* Flatten::next: a loop in one frame; each probe of the front iterator is a call *)
Fixpoint flat_next_c (ls : list (N * list jsol)) : C (option sol * iter) :=
  match ls with
  | [] => ret (None, IFlat [])
  | (g, l) :: ls' =>
      '(x, l') <- call (join_next_c g l) ;;
      match x with
      | Some s => ret (Some s, IFlat ((g, l') :: ls'))
      | None => flat_next_c ls'
      end
  end.
(* Iterator::next on a boxed iterator.  Chain::next asks `a`, and when `a` is exhausted asks `b`:
   in a right-nested chain the call for the last graph goes through every level. *)
Fixpoint it_next_c (it : iter) : C (option sol * iter) :=
  match it with
  | IEmpty => leaf (None, IEmpty)
  | IJoin g l => call ('(x, l') <- join_next_c g l ;; ret (x, IJoin g l'))
  | IChain a b =>
      call ('(x, a') <- it_next_c a ;;
            match x with
            | Some s => ret (Some s, IChain a' b)
            | None => '(y, b') <- it_next_c b ;; ret (y, IChain IEmpty b')
            end)
  | IFlat ls => call (flat_next_c ls)
  end.
(* drop of the boxed iterator: Chain drops its two fields (nested calls), a Vec drops its
   elements in a loop *)
Fixpoint it_drop_c (it : iter) : C unit :=
  match it with
  | IEmpty => leaf tt
  | IJoin _ _ => leaf tt
  | IChain a b => call (_ <- it_drop_c a ;; it_drop_c b)
  | IFlat ls => call ((fix go (ls : list (N * list jsol)) : C unit :=
                         match ls with [] => ret tt | _ :: r => _ <- leaf tt ;; go r end) ls)
  end.
(* the caller's loop over the solutions *)
Fixpoint it_collect_c (fuel : nat) (it : iter) : C (list sol * iter) :=
  match fuel with
  | O => ret ([], it)
  | S f => '(x, it') <- it_next_c it ;;
           match x with
           | None => ret ([], it')
           | Some s => '(out, it'') <- it_collect_c f it' ;; ret (s :: out, it'')
           end
  end.
(* number of inner solutions not yet pulled (every successful `next` pulls at least one) *)
Fixpoint iter_size (it : iter) : nat :=
  match it with
  | IEmpty => O
  | IJoin _ l => length l
  | IChain a b => (iter_size a + iter_size b)%nat
  | IFlat ls => length (flat_map snd ls)
  end.

(* `GRAPH ?g { inner }` with ?g unbound, evaluated and consumed to the end, then dropped:
   exec.rs `graph`: no named graph at all -> no solution, otherwise graph_rec over the sorted
   names *)
Definition graph_query_c (looped : bool) (sel : N -> list jsol) (dsel : nat) (names : list N)
  : C (list sol) :=
  it <- match names with
        | [] => ret IEmpty
        | _ :: _ => if looped then graph_loop_c sel dsel names else graph_rec_c sel dsel names
        end ;;
  '(out, it') <- it_collect_c (S (iter_size it)) it ;;
  _ <- it_drop_c it' ;;
  ret out.
Definition graph_query_p (sel : N -> list jsol) (names : list N) : list sol :=
  flat_map (fun g => join_all g (sel g)) names.

(* ------------------------------------------------------------------------------------------ *)
(** * (d) JSON-LD lists: mark_list_node, populate_list, convert_rdf_object                     *)
(* ------------------------------------------------------------------------------------------ *)
(* an RDF list already resolved from the node table: cells with their rdf:first, which is a
   literal or itself a list (JSub JNil is rdf:nil as an item) *)
Inductive jl := JNil | JCons (first : jitem) (rest : jl)
with jitem := JLit (v : N) | JSub (l : jl).

(* the JSON written, as a token stream: `{"@list":[` = 0, `]}` = 1, a value object = 2 + v *)
Definition tok_open : N := 0.
Definition tok_close : N := 1.
Definition tok_val (v : N) : N := 2 + v.

(* ORIGINAL populate_list: pushes the converted rdf:first, then calls itself on rdf:rest unless
   that is rdf:nil.  convert_rdf_object calls populate_list for an item that is a list node. *)
Fixpoint pop_rec_c (l : jl) : C (list N) :=
  call (match l with
        | JNil => ret []                                   (* never called on rdf:nil *)
        | JCons f r =>
            o1 <- conv_rec_c f ;;
            match r with
            | JNil => ret o1
            | JCons _ _ => o2 <- pop_rec_c r ;; ret (o1 ++ o2)
            end
        end)
with conv_rec_c (i : jitem) : C (list N) :=
  call (match i with
        | JLit v => ret [tok_val v]
        | JSub JNil => ret [tok_open; tok_close]
        | JSub l => o <- pop_rec_c l ;; ret (tok_open :: o ++ [tok_close])
        end).
(* PATCHED (C16-d.diff): populate_list is a loop over the cells *)
Fixpoint pop_loop_body (l : jl) : C (list N) :=
  match l with
  | JNil => ret []
  | JCons f r => o1 <- conv_loop_c f ;; o2 <- pop_loop_body r ;; ret (o1 ++ o2)
  end
with conv_loop_c (i : jitem) : C (list N) :=
  call (match i with
        | JLit v => ret [tok_val v]
        | JSub JNil => ret [tok_open; tok_close]
        | JSub l => o <- call (pop_loop_body l) ;; ret (tok_open :: o ++ [tok_close])
        end).
Definition pop_loop_c (l : jl) : C (list N) := call (pop_loop_body l).

Fixpoint pop_p (l : jl) : list N :=
  match l with JNil => [] | JCons f r => conv_p f ++ pop_p r end
with conv_p (i : jitem) : list N :=
  match i with JLit v => [tok_val v] | JSub l => tok_open :: pop_p l ++ [tok_close] end.

Fixpoint jl_len (l : jl) : nat := match l with JNil => O | JCons _ r => S (jl_len r) end.
(* nesting depth of lists inside lists *)
Fixpoint jl_nest (l : jl) : nat :=
  match l with JNil => O | JCons f r => Nat.max (ji_nest f) (jl_nest r) end
with ji_nest (i : jitem) : nat :=
  match i with JLit _ => O | JSub l => S (jl_nest l) end.

(* mark_list_node walks from a list seed (the cell whose rdf:rest is rdf:nil) towards the head.
   The cells are listed in that order; for each: [mc_ok] = it has a unique parent, in the same
   graph, (not through rdf:first in 1.0 mode,) it occurs in no other graph (bnode_graphs == 1) and
   is_list_node holds; [mc_up] = that parent is a blank node and the link is rdf:rest.
   Result: the cells marked as list nodes.
   (unmark_unanchored_list_nodes, which runs afterwards, is written with an explicit path vector
   -- no recursion -- and keeps every mark of a list whose head hangs from a rendered node, the
   only lists considered here.) *)
Record mcell := mk_mc { mc_id : N; mc_ok : bool; mc_up : bool }.
Fixpoint mark_rec_c (cells : list mcell) : C (list N) :=
  call (match cells with
        | [] => ret []
        | c :: r => if mc_ok c then
                      if mc_up c then m <- mark_rec_c r ;; ret (mc_id c :: m)
                      else ret [mc_id c]
                    else ret []
        end).
Fixpoint mark_loop_body (cells : list mcell) : C (list N) :=
  match cells with
  | [] => ret []
  | c :: r => if mc_ok c then
                if mc_up c then m <- mark_loop_body r ;; ret (mc_id c :: m)
                else ret [mc_id c]
              else ret []
  end.
Definition mark_loop_c (cells : list mcell) : C (list N) := call (mark_loop_body cells).
Fixpoint mark_p (cells : list mcell) : list N :=
  match cells with
  | [] => []
  | c :: r => if mc_ok c then mc_id c :: (if mc_up c then mark_p r else []) else []
  end.

(* ------------------------------------------------------------------------------------------ *)
(** * find_subject (turtle/src/serializer/_pretty.rs): binary search, recursion kept            *)
(* ------------------------------------------------------------------------------------------ *)
(* subjects are numbers here (Term::cmp is a total order, property C02).  The slices get
   strictly shorter: fuel = length + 1 is enough. *)
Fixpoint find_c (fuel : nat) (key : N) (swt : list N) : C (option nat) :=
  match fuel with
  | O => ret None
  | S f =>
      call (match swt with
            | [] => ret None
            | _ :: _ =>
                let m := (length swt / 2)%nat in
                match N.compare (nth m swt 0) key with
                | Lt => r <- find_c f key (skipn (S m) swt) ;;
                        ret (option_map (fun i => (i + m + 1)%nat) r)
                | Eq => ret (Some m)
                | Gt => find_c f key (firstn m swt)
                end
            end)
  end.
Definition find_subject_c (key : N) (swt : list N) : C (option nat) :=
  find_c (S (length swt)) key swt.

(* ------------------------------------------------------------------------------------------ *)
(** * Term::constituents / atoms (api/src/term.rs): recursion on quoted triples, kept           *)
(* ------------------------------------------------------------------------------------------ *)
(* The real iterators are lazy (Chain<Once, FlatMap<..., Box<dyn Iterator>>>): pulling an item
   out of a term nested k deep goes through k boxed iterators.  The eager model has the same
   nesting: one frame per level of quotation. *)
Fixpoint constituents_c (t : term) : C (list term) :=
  call (match t with
        | Triple s p o =>
            a <- constituents_c s ;; b <- constituents_c p ;; c <- constituents_c o ;;
            ret (t :: a ++ b ++ c)
        | _ => ret [t]
        end).
Fixpoint atoms_c (t : term) : C (list term) :=
  call (match t with
        | Triple s p o =>
            a <- atoms_c s ;; b <- atoms_c p ;; c <- atoms_c o ;; ret (a ++ b ++ c)
        | _ => ret [t]
        end).
Fixpoint constituents_p (t : term) : list term :=
  match t with
  | Triple s p o => t :: constituents_p s ++ constituents_p p ++ constituents_p o
  | _ => [t]
  end.
Fixpoint atoms_p (t : term) : list term :=
  match t with
  | Triple s p o => atoms_p s ++ atoms_p p ++ atoms_p o
  | _ => [t]
  end.
Fixpoint nesting (t : term) : nat :=
  match t with
  | Triple s p o => S (Nat.max (nesting s) (Nat.max (nesting p) (nesting o)))
  | _ => O
  end.

(* ------------------------------------------------------------------------------------------ *)
(** * nt::write_term / write_triple / NtSerializer::serialize_triples (turtle/src/serializer/nt.rs) *)
(* ------------------------------------------------------------------------------------------ *)
(* "http://www.w3.org/2001/XMLSchema#string" *)
Definition xsd_string : str := [104; 116; 116; 112; 58; 47; 47; 119; 119; 119; 46; 119; 51; 46; 111; 114; 103; 47; 50; 48; 48; 49; 47; 88; 77; 76; 83; 99; 104; 101; 109; 97; 35; 115; 116; 114; 105; 110; 103].
(* write_term: one frame; every arm is a sequence of write_all calls, the literal arm calls
   quoted_string (the patched loop) on the UTF-8 bytes of the lexical form; the quoted-triple
   arm calls write_triple (one more frame), which calls write_term on the three components:
   the only recursion, one pair of frames per level of quotation. *)
Fixpoint nt_term_c (t : term) : C (list N) :=
  call (match t with
        | Iri s => a <- write_all_c [60] ;; b <- write_all_c (utf8 s) ;; c <- write_all_c [62] ;;
                   ret (a ++ b ++ c)
        | Bnode s => a <- write_all_c [95; 58] ;; b <- write_all_c (utf8 s) ;; ret (a ++ b)
        | LitDt lex dt =>
            a <- write_all_c [34] ;; q <- quoted_string_loop_c (utf8 lex) ;;
            if str_eqb dt xsd_string then c <- write_all_c [34] ;; ret (a ++ q ++ c)
            else c <- write_all_c [34; 94; 94; 60] ;; d <- write_all_c (utf8 dt) ;;
                 e <- write_all_c [62] ;; ret (a ++ q ++ c ++ d ++ e)
        | LitLang lex tag =>
            a <- write_all_c [34] ;; q <- quoted_string_loop_c (utf8 lex) ;;
            c <- write_all_c [34; 64] ;; d <- write_all_c (utf8 tag) ;; ret (a ++ q ++ c ++ d)
        | Triple s p o =>
            a <- write_all_c [60; 60] ;;
            b <- call (x <- nt_term_c s ;; s1 <- write_all_c [32] ;; y <- nt_term_c p ;;
                       s2 <- write_all_c [32] ;; z <- nt_term_c o ;; ret (x ++ s1 ++ y ++ s2 ++ z)) ;;
            c <- write_all_c [62; 62] ;; ret (a ++ b ++ c)
        | Var s => a <- write_all_c [63] ;; b <- write_all_c (utf8 s) ;; ret (a ++ b)
        end).
Definition stmt := (term * term * term)%type.
(* write_triple on a statement *)
Definition nt_triple_c (t : stmt) : C (list N) :=
  let '(s, p, o) := t in
  call (x <- nt_term_c s ;; s1 <- write_all_c [32] ;; y <- nt_term_c p ;;
        s2 <- write_all_c [32] ;; z <- nt_term_c o ;; ret (x ++ s1 ++ y ++ s2 ++ z)).
(* serialize_triples: `source.try_for_each_triple(closure)`: the source's loop (one frame) calls
   the closure (one frame) once per statement; the closure calls write_triple and write_all *)
Fixpoint nt_doc_body (ts : list stmt) : C (list N) :=
  match ts with
  | [] => ret []
  | t :: r => l <- call (a <- nt_triple_c t ;; b <- write_all_c [46; 10] ;; ret (a ++ b)) ;;
              rest <- nt_doc_body r ;; ret (l ++ rest)
  end.
Definition nt_doc_c (ts : list stmt) : C (list N) := call (call (nt_doc_body ts)).

(* the bytes written, without costs *)
Fixpoint nt_term_p (t : term) : list N :=
  match t with
  | Iri s => 60 :: utf8 s ++ [62]
  | Bnode s => 95 :: 58 :: utf8 s
  | LitDt lex dt => 34 :: quoted_string_p (utf8 lex) ++
                    (if str_eqb dt xsd_string then [34] else [34; 94; 94; 60] ++ utf8 dt ++ [62])
  | LitLang lex tag => 34 :: quoted_string_p (utf8 lex) ++ [34; 64] ++ utf8 tag
  | Triple s p o => [60; 60] ++ (nt_term_p s ++ [32] ++ nt_term_p p ++ [32] ++ nt_term_p o) ++ [62; 62]
  | Var s => 63 :: utf8 s
  end.
Definition nt_triple_p (t : stmt) : list N :=
  let '(s, p, o) := t in nt_term_p s ++ [32] ++ nt_term_p p ++ [32] ++ nt_term_p o.
Definition nt_doc_p (ts : list stmt) : list N := flat_map (fun t => nt_triple_p t ++ [46; 10]) ts.
(* deepest quotation in a document *)
Definition stmt_nesting (t : stmt) : nat :=
  let '(s, p, o) := t in Nat.max (nesting s) (Nat.max (nesting p) (nesting o)).
Fixpoint doc_nesting (ts : list stmt) : nat :=
  match ts with [] => O | t :: r => Nat.max (stmt_nesting t) (doc_nesting r) end.

(* ------------------------------------------------------------------------------------------ *)
(** * All operations together                                                                  *)
(* ------------------------------------------------------------------------------------------ *)
Inductive input :=
| InIter (ms : list matcher) (mlast : matcher) (rows : list row)   (* pattern query consumed to the end *)
| InQuoted (txt : list N)
| InGraph (sel : N -> list jsol) (dsel : nat) (names : list N)
| InList (l : jl)
| InMark (cells : list mcell)
| InFind (key : N) (swt : list N)
| InConstituents (t : term)
| InAtoms (t : term).

(* depth of the operation on the original tree / with the patches *)
Definition depth_of (looped : bool) (x : input) : nat :=
  match x with
  | InIter ms mlast rows => depth (iter_all_c looped ms mlast rows)
  | InQuoted txt => depth (if looped then quoted_string_loop_c txt else quoted_string_rec_c txt)
  | InGraph sel dsel names => depth (graph_query_c looped sel dsel names)
  | InList l => depth (if looped then pop_loop_c l else pop_rec_c l)
  | InMark cells => depth (if looped then mark_loop_c cells else mark_rec_c cells)
  | InFind key swt => depth (find_subject_c key swt)
  | InConstituents t => depth (constituents_c t)
  | InAtoms t => depth (atoms_c t)
  end.
(* what the property allows the depth to depend on: nesting of the data (lists in lists, quoted
   triples), the depth of the sub-query, and (binary search) the logarithm of the size *)
Definition allowance (x : input) : nat :=
  match x with
  | InIter _ _ _ | InQuoted _ | InMark _ => O
  | InGraph _ dsel _ => dsel
  | InList l => (2 * jl_nest l)%nat
  | InFind _ swt => Nat.log2 (length swt)
  | InConstituents t | InAtoms t => nesting t
  end.
(* the number of elements along the size dimension of the property *)
Definition size_of (x : input) : nat :=
  match x with
  | InIter _ _ rows => length rows
  | InQuoted txt => length txt
  | InGraph _ _ names => length names
  | InList l => jl_len l
  | InMark cells => length cells
  | InFind _ swt => length swt
  | InConstituents _ | InAtoms _ => 1%nat
  end.

(* ------------------------------------------------------------------------------------------ *)
(** * Harness-facing checkers (the PATCHED shapes are the model of the code)                    *)
(* ------------------------------------------------------------------------------------------ *)
Definition mem_matcher (acc : list N) : matcher := fun i => existsb (N.eqb i) acc.
Definition row_eqb (a b : row) : bool := list_eqb N.eqb a b.
Definition pair_eqb (a b : N * N) : bool := N.eqb (fst a) (fst b) && N.eqb (snd a) (snd b).

(* [accs]: for each non-constant column in index order, the indices its closure accepts;
   [rows]: the rows of the index range in iteration order; observed: the rows yielded and the
   sequence of closure calls (column, index) *)
Definition iter_ok (accs : list (list N)) (rows : list row) (out : list row) (tr : trace) : bool :=
  match rev accs with
  | [] => false
  | lastacc :: front =>
      let ms := map mem_matcher (rev front) in
      let r := res (iter_all_c true ms (mem_matcher lastacc) rows) in
      list_eqb row_eqb (fst r) out && list_eqb pair_eqb (snd r) tr
  end.
Definition quoted_ok (txt out : list N) : bool :=
  list_eqb N.eqb (res (quoted_string_loop_c txt)) out.

Definition jsol_of (r : N * list N) : jsol := (if N.eqb (fst r) 0 then None else Some (fst r), snd r).
Fixpoint assoc_sols (tbl : list (N * list (N * list N))) (g : N) : list jsol :=
  match tbl with [] => [] | (k, v) :: r => if N.eqb k g then map jsol_of v else assoc_sols r g end.
(* [names]: the graph names in the order of the BTreeSet<ArcTerm>; [tbl]: per graph, the solutions
   of the inner pattern in store order, each with the value it gives to the GRAPH variable
   (0 = none; identifiers start at 1); observed: all solutions of GRAPH ?g { inner } *)
Definition graph_ok (names : list N) (tbl : list (N * list (N * list N))) (out : list sol) : bool :=
  list_eqb row_eqb (res (graph_query_c true (assoc_sols tbl) 0 names)) out.
Definition list_ok (l : jl) (toks : list N) : bool :=
  list_eqb N.eqb (res (conv_loop_c (JSub l))) toks.
(* a flat list of [n] cells whose cell number [bad] (from the head, if < n) carries an extra
   property: cells from the seed upwards *)
Definition mark_cells (n bad : N) : list mcell :=
  map (fun k => let i := n - 1 - N.of_nat k in mk_mc i (negb (N.eqb i bad)) (negb (N.eqb i 0)))
      (seq 0 (N.to_nat n)).
Definition mark_ok (n bad : N) (marked : list N) : bool :=
  list_eqb N.eqb (res (mark_loop_c (mark_cells n bad))) marked.
Definition terms_eqb (a b : list term) : bool := list_eqb term_eqb a b.
Definition constituents_ok (t : term) (cs atoms : list term) : bool :=
  terms_eqb (res (constituents_c t)) cs && terms_eqb (res (atoms_c t)) atoms.
(* nt::write_term on a term of any kind / the document NtSerializer writes for a list of
   statements: the bytes observed *)
Definition nt_term_ok (t : term) (out : list N) : bool :=
  list_eqb N.eqb (res (nt_term_c t)) out.
Definition nt_doc_ok (ts : list stmt) (out : list N) : bool :=
  list_eqb N.eqb (res (nt_doc_c ts)) out.
