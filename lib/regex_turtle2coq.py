#!/usr/bin/env python3
"""regex_turtle2coq: translate the regular expressions of the Turtle/TriG pretty-printer into Coq terms.

    python3 regex_turtle2coq.py <repo_root> <out_dir>                 writes <out_dir>/RegexTurtle.v
    python3 regex_turtle2coq.py --frozen <repo_root> <out_file.v> <Module>   frozen copy wrapped in a module
    python3 regex_turtle2coq.py --word "f 5⋅f 5" [NAME <repo_root>]    atoms of a `ka` counter-example -> string

The translator reads INTEGER, DECIMAL, DOUBLE, BOOLEAN and PN_LOCAL from
<repo_root>/turtle/src/serializer/_pretty.rs on every run (they are declared inside a
`lazy_static!` block as `static ref NAME: Regex = Regex::new(r"...").unwrap();`; the `LazyLock` spelling
`static NAME: LazyLock<Regex> = LazyLock::new(|| Regex::new(r"...").unwrap());` is accepted too), checks
how `write_literal` / `write_iri` use them, parses the subset of the Rust `regex` syntax they use
(optional `(?x)` verbose flag: white space and `#` comments ignored; groups `( )` `(?: )`; alternation;
`* + ? {m} {m,n}`; literals and backslash-escaped punctuation; `.` = any character but `\\n`; classes
with ranges and `\\u{..}` / `\\xHH` escapes; `^` only first and `$` only last) and FAILS LOUDLY on
anything else.  For each regex it emits
  (c) the regex as a term of type `rex cclass` (leaves = the character classes of the source, lists
      of inclusive code point ranges) -- the executable matcher of C04/Regex.v runs on this;
  (a) the same regex over the fixed atom vocabulary ATOMS below, type `rex N` -- what `ka` works on;
  (b) the atom table (code point ranges -> atom).
A class whose boundaries do not align with the atoms is a translator failure.  Coq re-checks the
alignment and that (a) is the abstraction of (c) (C04/Properties.v), so only the parser is trusted,
and it is exercised by the correspondence run (the matcher on (c) against the implementation's
decision to write a literal bare / an IRI as a prefixed name).
"""
import hashlib, os, re, sys

MAXCP = 0x10FFFF
NAMES = ["INTEGER", "DECIMAL", "DOUBLE", "BOOLEAN", "PN_LOCAL"]
COQNAME = {"INTEGER": "integer_re", "DECIMAL": "decimal_re", "DOUBLE": "double_re",
           "BOOLEAN": "boolean_re", "PN_LOCAL": "pn_local_re", "PN_PREFIX": "pn_prefix_re"}
SRC_FILE = "turtle/src/serializer/_pretty.rs"
# regular expressions of OTHER source files that decide what the pretty-printer is given: PN_PREFIX of
# api/src/prefix/_regex.rs (behind is_valid_prefix / Prefix::new: the prefixes of a checked prefix map).
# They are emitted AFTER the five of _pretty.rs (so the names of the classes of those do not move).
EXTRA = [("PN_PREFIX", "api/src/prefix/_regex.rs")]
ALL_NAMES = NAMES + [n for n, _f in EXTRA]


def _chars(s):
    return [(ord(c), ord(c)) for c in s]


# non-ASCII part of the Turtle production PN_CHARS_BASE
_BASE = [(0xC0, 0xD6), (0xD8, 0xF6), (0xF8, 0x2FF), (0x370, 0x37D), (0x37F, 0x1FFF), (0x200C, 0x200D),
         (0x2070, 0x218F), (0x2C00, 0x2FEF), (0x3001, 0xD7FF), (0xF900, 0xFDCF), (0xFDF0, 0xFFFD),
         (0x10000, 0xEFFFF)]

# (id, name, representative character, ranges).  Atom 0 ("other") is the complement of all others.
ATOMS = [
    (0, "other", "^", None),
    (1, "newline", "\n", _chars("\n")),
    (2, "plus", "+", _chars("+")),
    (3, "minus", "-", _chars("-")),
    (4, "dot", ".", _chars(".")),
    (5, "digit", "5", [(ord("0"), ord("9"))]),
    (6, "colon", ":", _chars(":")),
    (7, "underscore", "_", _chars("_")),
    (8, "percent", "%", _chars("%")),
    (9, "backslash", "\\", _chars("\\")),
    (10, "escpunct", "~", _chars("~!$&'()*,;=/?#@")),      # PN_LOCAL_ESC except _ . - + %
    (11, "a", "a", _chars("a")),
    (12, "hexlow", "b", _chars("bcd")),
    (13, "e", "e", _chars("e")),
    (14, "f", "f", _chars("f")),
    (15, "l", "l", _chars("l")),
    (16, "r", "r", _chars("r")),
    (17, "s", "s", _chars("s")),
    (18, "t", "t", _chars("t")),
    (19, "u", "u", _chars("u")),
    (20, "lower", "x", [(ord("g"), ord("k")), (ord("m"), ord("q")), (ord("v"), ord("z"))]),
    (21, "hexup", "A", [(ord("A"), ord("D")), (ord("F"), ord("F"))]),
    (22, "E", "E", _chars("E")),
    (23, "upper", "Z", [(ord("G"), ord("Z"))]),
    (24, "middot", "·", [(0xB7, 0xB7)]),
    (25, "combining", "́", [(0x300, 0x36F)]),
    (26, "tie", "‿", [(0x203F, 0x2040)]),
    (27, "base", "é", _BASE),
]


def atom_table():
    """sorted contiguous list of (lo, hi, atom) covering 0..MAXCP"""
    pieces = []
    for aid, _n, _r, rs in ATOMS:
        if rs is None:
            continue
        for lo, hi in rs:
            pieces.append((lo, hi, aid))
    pieces.sort()
    out, nxt = [], 0
    for lo, hi, aid in pieces:
        if lo < nxt or hi < lo:
            raise ValueError("atom ranges overlap at U+%04X" % lo)
        if lo > nxt:
            out.append((nxt, lo - 1, 0))
        out.append((lo, hi, aid))
        nxt = hi + 1
    if nxt <= MAXCP:
        out.append((nxt, MAXCP, 0))
    return out


def norm_ranges(rs):
    rs = sorted(rs)
    out = []
    for lo, hi in rs:
        if out and lo <= out[-1][1] + 1:
            out[-1] = (out[-1][0], max(out[-1][1], hi))
        else:
            out.append((lo, hi))
    return out


def fmt_ranges(rs):
    return "[" + " ".join("%X-%X" % r if r[0] != r[1] else "%X" % r[0] for r in rs) + "]"


def atoms_of_class(rs, table):
    """atoms covered by the class; ValueError if the class cuts an atom.  Same order as C04/Regex.v
    `atoms_in`: atoms of the covered table entries in table order, keeping the LAST occurrence."""
    rs = norm_ranges(rs)
    full, out_ = set(), set()
    for lo, hi, aid in table:
        covered = 0
        for a, b in rs:
            x, y = max(a, lo), min(b, hi)
            if x <= y:
                covered += y - x + 1
        if covered == hi - lo + 1:
            full.add(aid)
        elif covered == 0:
            out_.add(aid)
        else:
            raise ValueError("class %s cuts atom %d (%s) inside U+%04X..U+%04X" % (fmt_ranges(rs), aid, ATOMS[aid][1], lo, hi))
    for aid in full:
        if aid in out_:
            raise ValueError("class %s covers only some ranges of atom %d (%s)" % (fmt_ranges(rs), aid, ATOMS[aid][1]))
    seq = [aid for lo, hi, aid in table if aid in full]
    res = []
    for i, aid in enumerate(seq):
        if aid not in seq[i + 1:]:
            res.append(aid)
    return res


# ---------------------------------------------------------------- parser
class RegexSyntax(Exception):
    pass


ANY_BUT_NEWLINE = [(0, 9), (11, MAXCP)]


class P:
    def __init__(self, src):
        self.s = src
        self.i = 0
        self.verbose = False

    def err(self, msg):
        raise RegexSyntax("%s at offset %d near %r" % (msg, self.i, self.s[max(0, self.i - 10):self.i + 15]))

    def skip(self):
        if not self.verbose:
            return
        s = self.s
        while self.i < len(s):
            c = s[self.i]
            if c.isspace():
                self.i += 1
            elif c == "#":
                while self.i < len(s) and s[self.i] != "\n":
                    self.i += 1
            else:
                break

    def peek(self):
        self.skip()
        return self.s[self.i] if self.i < len(self.s) else ""

    def parse_top(self):
        if self.s.startswith("(?x)"):
            self.verbose = True
            self.i = 4
        elif self.s.startswith("(?"):
            self.err("unsupported flag group")
        if self.peek() != "^":
            self.err("expected ^ anchor first")
        self.i += 1
        r = self.parse_alt(top=True)
        if self.peek() != "$":
            self.err("expected $ anchor last")
        self.i += 1
        if self.peek() != "":
            self.err("trailing text after $")
        return r

    def parse_alt(self, top=False):
        branches = [self.parse_cat(top)]
        while self.peek() == "|":
            self.i += 1
            branches.append(self.parse_cat(top))
        if top and len(branches) > 1:
            self.err("top-level alternation with anchors is not supported")
        r = branches[-1]
        for b in reversed(branches[:-1]):
            r = ("alt", b, r)
        return r

    def parse_cat(self, top):
        items = []
        while True:
            c = self.peek()
            if c == "" or c == "|" or c == ")":
                break
            if c == "$":
                if top:
                    break
                self.err("$ inside a group")
            items.append(self.parse_rep())
        if not items:
            return ("eps",)
        r = items[-1]
        for it in reversed(items[:-1]):
            r = ("cat", it, r)
        return r

    def parse_rep(self):
        a = self.parse_atom()
        c = self.peek()
        if c == "*":
            self.i += 1; a = ("star", a)
        elif c == "+":
            self.i += 1; a = ("cat", a, ("star", a))
        elif c == "?":
            self.i += 1; a = ("alt", a, ("eps",))
        elif c == "{":
            m = re.compile(r"\{\s*(\d+)\s*(?:(,)\s*(\d*)\s*)?\}").match(self.s, self.i)
            if not m:
                self.err("bad repetition")
            self.i = m.end()
            lo = int(m.group(1))
            if m.group(2) is None:
                hi = lo
            elif m.group(3) == "":
                hi = None
            else:
                hi = int(m.group(3))
            if hi is not None and hi < lo:
                self.err("bad repetition bounds")
            a = expand_rep(a, lo, hi)
        else:
            return a
        if self.peek() in ("*", "+", "?", "{"):
            self.err("lazy or stacked quantifier (not supported)")
        return a

    def parse_atom(self):
        c = self.peek()
        if c == "(":
            self.i += 1
            if self.s.startswith("?:", self.i):
                self.i += 2
            elif self.s.startswith("?", self.i):
                self.err("unsupported group flag")
            r = self.parse_alt()
            if self.peek() != ")":
                self.err("expected )")
            self.i += 1
            return r
        if c == "[":
            return ("cls", self.parse_class())
        if c in "*+?{":
            self.err("quantifier without operand")
        if c == ".":
            self.i += 1
            return ("cls", list(ANY_BUT_NEWLINE))      # no `s` flag: any character except \n
        if c == "^":
            self.err("unsupported metacharacter %r" % c)
        if c == "\\":
            cp = self.parse_escape()
            return ("cls", [(cp, cp)])
        if not self.verbose and c.isspace():
            self.err("literal white space outside verbose mode (not expected in these regexes)")
        self.i += 1
        return ("cls", [(ord(c), ord(c))])

    def parse_escape(self):
        s = self.s
        assert s[self.i] == "\\"
        self.i += 1
        if self.i >= len(s):
            self.err("dangling backslash")
        c = s[self.i]
        if c == "u" or c == "x" or c == "U":
            m = re.compile(r"[uxU]\{([0-9A-Fa-f]+)\}").match(s, self.i)
            if not m:
                n = {"x": 2, "u": 4, "U": 8}[c]
                m = re.compile(r"[uxU]([0-9A-Fa-f]{%d})" % n).match(s, self.i)
            if not m:
                self.err("bad hex escape")
            self.i = m.end()
            cp = int(m.group(1), 16)
            if cp > MAXCP or 0xD800 <= cp <= 0xDFFF:
                self.err("escape is not a Unicode scalar value")
            return cp
        if c in "nrtfv0":
            self.i += 1
            return {"n": 10, "r": 13, "t": 9, "f": 12, "v": 11, "0": 0}[c]
        if c.isalnum() or c == "_":
            self.err("unsupported escape \\%s" % c)   # \d \w \s \b \p{..} ...
        if ord(c) > 127:
            self.err("unsupported escape of a non-ASCII character")
        self.i += 1
        return ord(c)   # escaped punctuation (and "\ " in verbose mode) is the character itself

    def parse_class(self):
        s = self.s
        assert s[self.i] == "["
        self.i += 1
        if s[self.i] == "^":
            self.err("negated class not supported")
        rs = []
        first = True

        def item():
            c = s[self.i]
            if c == "\\":
                return self.parse_escape()
            if c == "[":
                self.err("nested class / POSIX class not supported")
            if s.startswith("&&", self.i) or s.startswith("--", self.i) or s.startswith("~~", self.i):
                self.err("class set operation not supported")
            self.i += 1
            return ord(c)
        while True:
            self.skip()     # verbose mode only: the regex crate skips white space and comments inside a class too
            if self.i >= len(s):
                self.err("unterminated class")
            c = s[self.i]
            if c == "]" and not first:
                self.i += 1
                break
            if c == "]" and first:
                self.i += 1
                lo = ord("]")
            elif c == "-" and (first or s[self.i + 1] == "]"):
                self.i += 1
                lo = ord("-")
            elif c == "-":
                self.err("unexpected - in class")
            else:
                lo = item()
            first = False
            self.skip()
            if s[self.i] == "-" and s[self.i + 1] != "]":
                self.i += 1
                self.skip()
                hi = item()
                if hi < lo:
                    self.err("empty range in class")
                rs.append((lo, hi))
            else:
                rs.append((lo, lo))
        if not rs:
            self.err("empty class")
        return norm_ranges(rs)


def expand_rep(a, lo, hi):
    """a{lo,hi} = a^lo . (1 + a.(1 + ...)) ; a{lo,} = a^lo . a* ; a{n} = a^n"""
    if hi is None:
        tail = ("star", a)
    else:
        tail = None                      # None stands for epsilon
        for _ in range(hi - lo):
            tail = ("alt", ("eps",), a if tail is None else ("cat", a, tail))
    r = tail
    for _ in range(lo):
        r = a if r is None else ("cat", a, r)
    return r if r is not None else ("eps",)


def parse_regex(src):
    return P(src).parse_top()


# ---------------------------------------------------------------- python-side matcher (derivatives)
def _nullable(r):
    t = r[0]
    if t in ("eps", "star"):
        return True
    if t in ("emp", "cls"):
        return False
    if t == "alt":
        return _nullable(r[1]) or _nullable(r[2])
    return _nullable(r[1]) and _nullable(r[2])


def _mk_alt(a, b):
    if a[0] == "emp":
        return b
    if b[0] == "emp" or a == b:
        return a
    return ("alt", a, b)


def _mk_cat(a, b):
    if a[0] == "emp" or b[0] == "emp":
        return ("emp",)
    if a[0] == "eps":
        return b
    return ("cat", a, b)


def _deriv(c, r):
    t = r[0]
    if t in ("eps", "emp"):
        return ("emp",)
    if t == "cls":
        return ("eps",) if any(lo <= c <= hi for lo, hi in r[1]) else ("emp",)
    if t == "alt":
        return _mk_alt(_deriv(c, r[1]), _deriv(c, r[2]))
    if t == "cat":
        d = _mk_cat(_deriv(c, r[1]), r[2])
        return _mk_alt(d, _deriv(c, r[2])) if _nullable(r[1]) else d
    return _mk_cat(_deriv(c, r[1]), r)


def py_match(r, s):
    for ch in s:
        r = _deriv(ord(ch), r)
        if r[0] == "emp":
            return False
    return _nullable(r)


# ---------------------------------------------------------------- extraction from the Rust source
WIRING_NOT_RECOGNISED = []


def extract_sources(repo_root):
    path = os.path.join(repo_root, SRC_FILE)
    text = open(path, encoding="utf8").read()
    import rustconst
    consts = rustconst.Consts(path)
    out = {}
    for name in NAMES:
        # the pattern handed to Regex::new, whatever way the source spells it (raw string, named constants, concat!/format!)
        out[name] = consts.regex_source(name)
    for name, rel in EXTRA:
        out[name] = rustconst.Consts(os.path.join(repo_root, rel)).regex_source(name)
    # how the writer uses them (checked so that a change of wiring is noticed)
    flat = re.sub(r"\s+", " ", text)
    wiring = [
        (r"xsd::integer == datatype && INTEGER\.is_match\(&value\) \|\| xsd::decimal == datatype && DECIMAL\.is_match\(&value\) "
         r"\|\| xsd::double == datatype && DOUBLE\.is_match\(&value\) \|\| xsd::boolean == datatype && BOOLEAN\.is_match\(&value\)",
         "write_literal: bare iff (xsd:integer & INTEGER) | (xsd:decimal & DECIMAL) | (xsd:double & DOUBLE) | (xsd:boolean & BOOLEAN)"),
        (r"get_checked_prefixed_pair\(iri, \|txt\| PN_LOCAL\.is_match\(txt\)\)",
         "write_iri: prefix_map.get_checked_prefixed_pair(iri, |txt| PN_LOCAL.is_match(txt))"),
    ]
    # how the code USES the expressions is not part of the generated model: it is checked by the correspondence run and
    # the round-trip oracle.  An unrecognised spelling is therefore recorded, not treated as a broken tie.
    global WIRING_NOT_RECOGNISED
    WIRING_NOT_RECOGNISED = [what for pat, what in wiring if len(re.findall(pat, flat)) != 1]
    return out, path


# ---------------------------------------------------------------- emission
def coq_ranges(rs):
    return "[" + "; ".join("(%d, %d)" % r for r in rs) + "]"


class Emitter:
    def __init__(self):
        self.classes = {}
        self.order = []

    def cls_name(self, rs):
        k = tuple(rs)
        if k not in self.classes:
            self.classes[k] = len(self.order)
            self.order.append(k)
        return self.classes[k]

    def conc(self, r):
        t = r[0]
        if t == "eps":
            return "Eps"
        if t == "emp":
            return "Emp"
        if t == "cls":
            return "(Lf k%d)" % self.cls_name(r[1])
        if t == "star":
            return "(Star %s)" % self.conc(r[1])
        return "(%s %s %s)" % ("Alt" if t == "alt" else "Cat", self.conc(r[1]), self.conc(r[2]))

    def abst(self, r):
        t = r[0]
        if t == "eps":
            return "Eps"
        if t == "emp":
            return "Emp"
        if t == "cls":
            return "a%d" % self.cls_name(r[1])
        if t == "star":
            return "(Star %s)" % self.abst(r[1])
        return "(%s %s %s)" % ("Alt" if t == "alt" else "Cat", self.abst(r[1]), self.abst(r[2]))


PRELUDE = """From Coq Require Import NArith List.
Import ListNotations.
Open Scope N_scope.
"""

TYPES = """
(* regular expressions with leaves in A *)
Inductive rex (A : Type) : Type :=
| Emp | Eps | Lf (a : A) | Alt (r s : rex A) | Cat (r s : rex A) | Star (r : rex A).
Arguments Emp {A}. Arguments Eps {A}. Arguments Lf {A} a.
Arguments Alt {A} r s. Arguments Cat {A} r s. Arguments Star {A} r.

(* a character class: inclusive code point ranges *)
Definition cclass := list (N * N).

(* (b) the translator's fixed atom vocabulary: contiguous ranges covering 0..0x10FFFF, each tagged with its atom
%(atomdoc)s *)
Definition n_atoms : N := %(natoms)d.
Definition atom_table : list (N * N * N) :=
  [%(table)s].
(* one representative code point per atom (used to print counter-examples) *)
Definition atom_repr : list N := [%(reprs)s].
"""


def sum_of_atoms(ids):
    if not ids:
        return "Emp"
    r = "(Lf %d)" % ids[-1]
    for a in reversed(ids[:-1]):
        r = "(Alt (Lf %d) %s)" % (a, r)
    return r


def translate(repo_root):
    srcs, path = extract_sources(repo_root)
    table = atom_table()
    em = Emitter()
    asts = {}
    for name in ALL_NAMES:
        try:
            asts[name] = parse_regex(srcs[name])
        except RegexSyntax as e:
            raise RegexSyntax("%s: %s" % (name, e))
    bodies = [(COQNAME[n], em.conc(asts[n]), em.abst(asts[n])) for n in ALL_NAMES]
    cls_defs, abs_defs = [], []
    for k, rs in enumerate(em.order):
        ids = atoms_of_class(list(rs), table)      # raises on misalignment
        cls_defs.append("Definition k%d : cclass := %s.  (* %s *)" % (k, coq_ranges(rs), fmt_ranges(rs)))
        abs_defs.append("Definition a%d : rex N := %s." % (k, sum_of_atoms(ids)))
    sha = hashlib.sha256(("\0".join(srcs[n] for n in ALL_NAMES)).encode("utf8")).hexdigest()
    atomdoc = "\n".join("   %2d %-10s %s" % (aid, nm, "(everything else)" if rs is None else fmt_ranges(norm_ranges(rs)))
                        for aid, nm, _rep, rs in ATOMS)
    types = TYPES % dict(atomdoc=atomdoc, natoms=len(ATOMS),
                         table=";\n   ".join("(%d, %d, %d)" % t for t in table),
                         reprs="; ".join(str(ord(rep)) for _a, _n, rep, _r in ATOMS))
    body = "\n(* the distinct character classes of the sources *)\n" + "\n".join(cls_defs) + "\n"
    body += "Definition all_classes : list cclass := [%s].\n" % "; ".join("k%d" % k for k in range(len(em.order)))
    body += "\n(* (c) the regexes, leaves = classes of the source *)\n"
    for coqname, conc, _ in bodies:
        body += "Definition %s : rex cclass :=\n  %s.\n" % (coqname, conc)
    body += "\n(* (a) the same over atoms *)\n" + "\n".join(abs_defs) + "\n"
    for coqname, _, abst in bodies:
        body += "Definition %s_atoms : rex N :=\n  %s.\n" % (coqname, abst)
    # (the header names the file relative to the repository root, so that the output only depends on the sources)
    head = "(* GENERATED by lib/regex_turtle2coq.py from %s -- do not edit.\n   (and %s)\n   sha256 of the regex sources: %s *)\n" % (SRC_FILE, ", ".join("%s from %s" % e for e in EXTRA), sha)
    text = head + PRELUDE + types + body
    info = {"turtle_regex_source_sha256": sha[:16], "turtle_regex_classes": len(em.order), "turtle_regex_atoms": len(ATOMS),
            "RegexTurtle.v.sha256": hashlib.sha256(text.encode()).hexdigest()[:16]}
    return (head, types, body, text), info, asts


def _write_if_changed(path, text):
    os.makedirs(os.path.dirname(path), exist_ok=True)
    if os.path.exists(path) and open(path, encoding="utf8").read() == text:
        return False
    with open(path, "w", encoding="utf8") as f:
        f.write(text)
    return True


REPO = os.environ.get("SOPHIA_REPO", "/repo")


def gen_regex_turtle(root, repo_root=None, out_dir=None):
    """translator entry point for ./check: (ok, info); writes <root>/coq/gen/RegexTurtle.v"""
    info = {}
    try:
        (_h, _t, _b, text), info, _ = translate(repo_root or REPO)
        out = out_dir or os.path.join(root, "coq/gen")
        _write_if_changed(os.path.join(out, "RegexTurtle.v"), text)
        if WIRING_NOT_RECOGNISED:
            info["wiring_not_recognised_in_source (covered by the correspondence run and the round-trip oracle only)"] = WIRING_NOT_RECOGNISED
        return True, info
    except Exception as e:   # unparsable / unaligned source is treated like a broken proof
        info["error"] = "gen_regex_turtle: %s: %s" % (type(e).__name__, e)
        return False, info


# ---------------------------------------------------------------- counter-examples of `ka`
def word_to_string(word):
    """'f 5⋅f 5' (as printed by ka after `not a KA theorem:`) -> concrete string"""
    ids = [int(x) for x in re.findall(r"\bf\s+(\d+)", word)]
    return "".join(ATOMS[i][2] for i in ids)


def ka_counterexamples(log_text):
    """all distinguishing words found in a coq build log: [(file, line, concrete string, word)]"""
    out = []
    for m in re.finditer(r"not a KA theorem:", log_text):
        tail = log_text[m.end():]
        word = re.split(r"\.\s*(?:\n|$)", tail, maxsplit=1)[0]
        word = " ".join(word.split())
        files = re.findall(r'File "([^"]+)", line (\d+)', log_text[:m.start()])
        f, ln = files[-1] if files else ("?", "0")
        out.append((f, int(ln), word_to_string(word), word))
    return out


def _lemma_at(path, line):
    """name of the Lemma/Theorem enclosing `line` of the Coq file (to know which regex failed)"""
    try:
        lines = open(path, encoding="utf8").read().split("\n")
    except OSError:
        return ""
    for i in range(min(line, len(lines)) - 1, -1, -1):
        m = re.match(r"\s*(?:Lemma|Theorem)\s+([A-Za-z0-9_']+)", lines[i])
        if m:
            return m.group(1)
    return ""


def ka_extra(root, tier, seed, summaries):
    """`extra` hook of ./check: turn a failed `ka` into a concrete failing input.
    Reads build/logs/C04/coq.log; for every `not a KA theorem` it instantiates the distinguishing word
    with the atoms' representatives, evaluates the source regexes on it (python matcher on the
    translator's AST) and returns a violation carrying the string and a replay command."""
    log = os.path.join(root, "build/logs/C04/coq.log")
    if not os.path.exists(log):
        return []
    found = ka_counterexamples(open(log, errors="replace").read())
    if not found:
        return []
    try:
        _, _, asts = translate(REPO)
    except Exception:
        asts = {}
    res = []
    exe = os.path.join(root, "build/target/debug/c04")
    for fname, line, s, word in found:
        p = fname if os.path.isabs(fname) else os.path.join(root, "coq", fname.lstrip("./"))
        lemma = _lemma_at(p, line)
        accepted = [n for n in ALL_NAMES if n in asts and py_match(asts[n], s)]
        what = ("a regular expression of turtle/src/serializer/_pretty.rs leaves the Turtle grammar (lemma %s): the string %r is "
                "accepted by %s but is not in the corresponding production / is in two numeric productions "
                "(distinguishing word of the decision procedure: %s)"
                % (lemma or "?", s, ", ".join(accepted) or "none of the source regexes", word))
        res.append(dict(kind="ka-counterexample", found=True, case="ka:" + s, what=what,
                        replay_cmd="%s --probe-lex %s" % (exe, s.encode("utf8").hex())))
    return res


def main(argv):
    if len(argv) >= 2 and argv[0] == "--word":
        s = word_to_string(argv[1])
        print(repr(s))
        if len(argv) >= 3:
            _, _, asts = translate(argv[3] if len(argv) >= 4 else REPO)
            print(argv[2], "accepts" if py_match(asts[argv[2]], s) else "rejects")
        return 0
    if len(argv) == 4 and argv[0] == "--frozen":
        (head, _types, body, _text), info, _ = translate(argv[1])
        head = head.replace("GENERATED by lib/regex_turtle2coq.py from", "FROZEN COPY generated once by lib/regex_turtle2coq.py --frozen from")
        with open(argv[2], "w", encoding="utf8") as f:
            f.write(head + "From Coq Require Import NArith List.\nFrom Sophia.gen Require Import RegexTurtle.\nImport ListNotations.\nOpen Scope N_scope.\nModule %s.\n" % argv[3]
                    + body + "End %s.\n" % argv[3])
        print("regex_turtle2coq: frozen copy written", info)
        return 0
    if len(argv) != 2:
        print(__doc__)
        return 2
    ok, info = gen_regex_turtle(None, repo_root=argv[0], out_dir=argv[1])
    print("regex_turtle2coq:", "ok" if ok else "FAILED", info)
    return 0 if ok else 1


if __name__ == "__main__":
    sys.exit(main(sys.argv[1:]))
