(* C10/Proofs.v -- in the Rebuilt design (i2t borrows from the store's own keys, Clone rebuilds it) and in
   the Owned design (i2t owns its own copy of every term: the current code) every reachable store only
   refers to allocations it owns itself, which are never freed while it lives: no read touches released
   memory, and operations on one store leave every other store and everything it returns unchanged.
   In the Owned design moreover a term cloned out of a store stays readable whatever happens to the store;
   in the borrowing designs it does not (term_clone_escapes_refuted), and with the derived Clone not even
   the stores are independent (derived_clone_refuted). *)
From Sophia.C10 Require Import Model.
From Coq Require Import Permutation.


(* per-store invariant: keys are numbered 0..n-1 in order; i2t is aligned with them: entry i holds the term
   of key i, as its own copy or as a borrow of that very key; in the Owned design every entry is a copy *)
Definition slot_ok (k : key) (sl : slot) : Prop :=
  s_term sl = k_term k /\ (s_self sl = true \/ s_ptrs sl = k_owned k).
Definition Inv_s (m : clone_mode) (s : store) : Prop :=
  map k_index (keys s) = map N.of_nat (seq 0 (length (keys s)))
  /\ Forall2 slot_ok (keys s) (i2t s)
  /\ (m = Owned -> Forall (fun sl => s_self sl = true) (i2t s)).

Definition all_owned (l : list (N * store)) : list aid := flat_map (fun p => owned_by (snd p)) l.

Record WF (m : clone_mode) (w : world) : Prop := {
  wf_ids : NoDup (map fst (live w));
  wf_nodup : NoDup (all_owned (live w));
  wf_below : forall a, In a (all_owned (live w)) -> a < next w;
  wf_freed_below : forall a, In a (freed w) -> a < next w;
  wf_not_freed : forall a, In a (all_owned (live w)) -> ~ In a (freed w);
  wf_inv : forall sid s, In (sid, s) (live w) -> Inv_s m s
}.

(* ---------- association-list plumbing ---------- *)
Lemma find_split l sid s : find_store l sid = Some s ->
  exists l1 l2, l = l1 ++ (sid, s) :: l2
    /\ (forall s', set_store l sid s' = l1 ++ (sid, s') :: l2)
    /\ del_store l sid = l1 ++ l2.
Proof.
  induction l as [|[k x] r IH]; simpl; [discriminate|].
  destruct (N.eqb_spec k sid) as [->|Hn].
  - intros H; inversion H; subst. exists [], r. simpl. auto.
  - intros H. destruct (IH H) as (l1 & l2 & -> & H2 & H3).
    exists ((k, x) :: l1), l2. simpl. repeat split; auto.
    + intros s'. rewrite H2. reflexivity.
    + rewrite H3. reflexivity.
Qed.

Lemma find_none l sid : find_store l sid = None ->
  (forall s', set_store l sid s' = l ++ [(sid, s')]) /\ ~ In sid (map fst l).
Proof.
  induction l as [|[k x] r IH]; simpl; auto.
  destruct (N.eqb_spec k sid) as [->|Hn]; [discriminate|].
  intros H. destruct (IH H) as [H1 H2]. split.
  - intros s'. rewrite H1. reflexivity.
  - simpl. intros [E|E]; auto.
Qed.

Lemma find_In l sid s : find_store l sid = Some s -> In (sid, s) l.
Proof.
  intros H. destruct (find_split _ _ _ H) as (l1 & l2 & -> & _). apply in_app_iff. right. left. reflexivity.
Qed.

Lemma In_find l sid s : NoDup (map fst l) -> In (sid, s) l -> find_store l sid = Some s.
Proof.
  induction l as [|[k x] r IH]; simpl; [tauto|].
  intros Hn [E|H].
  - inversion E; subst. rewrite N.eqb_refl. reflexivity.
  - inversion Hn; subst. destruct (N.eqb_spec k sid) as [->|Hne]; auto.
    exfalso. apply H2. apply in_map_iff. exists (sid, s). auto.
Qed.

Lemma all_owned_app a b : all_owned (a ++ b) = all_owned a ++ all_owned b.
Proof. unfold all_owned. apply flat_map_app. Qed.

Lemma all_owned_mid l1 sid s l2 :
  Permutation (all_owned (l1 ++ (sid, s) :: l2)) (owned_by s ++ all_owned (l1 ++ l2)).
Proof.
  rewrite !all_owned_app. simpl. rewrite app_assoc.
  eapply perm_trans; [apply Permutation_app_tail; apply Permutation_app_comm|].
  rewrite <- app_assoc. apply Permutation_refl.
Qed.

(* ---------- fresh allocations ---------- *)
Lemma fresh_In n from a : In a (fresh n from) <-> from <= a < from + N.of_nat n.
Proof.
  revert from; induction n as [|n IH]; intros from; simpl; [lia|].
  rewrite IH. lia.
Qed.
Lemma fresh_NoDup n from : NoDup (fresh n from).
Proof.
  revert from; induction n as [|n IH]; intros from; simpl; constructor; auto.
  rewrite fresh_In. lia.
Qed.
Lemma fresh_length n from : length (fresh n from) = n.
Proof. revert from; induction n; intros; simpl; auto. Qed.

Lemma fresh_app n m from : fresh (n + m) from = fresh n from ++ fresh m (from + N.of_nat n).
Proof.
  revert from; induction n as [|n IH]; intros from; simpl.
  - f_equal. lia.
  - f_equal. rewrite IH. f_equal. f_equal. lia.
Qed.

Lemma NoDup_app_fresh (l : list aid) n from :
  NoDup l -> (forall a, In a l -> a < from) -> NoDup (l ++ fresh n from).
Proof.
  intros Hl Hb. induction l as [|x l IH]; simpl; [apply fresh_NoDup|].
  inversion Hl; subst. constructor.
  - rewrite in_app_iff, fresh_In. intros [H|H]; auto. specialize (Hb x (or_introl eq_refl)). lia.
  - apply IH; auto. intros a Ha. apply Hb. right. exact Ha.
Qed.

Lemma NoDup_app_disjoint {A} (l1 l2 : list A) :
  NoDup l1 -> NoDup l2 -> (forall a, In a l1 -> In a l2 -> False) -> NoDup (l1 ++ l2).
Proof.
  induction l1 as [|x l1 IH]; simpl; intros H1 H2 Hd; auto.
  inversion H1; subst. constructor.
  - rewrite in_app_iff. intros [H|H]; auto. eapply Hd; eauto.
  - apply IH; auto. intros a Ha Hb. eapply Hd; eauto.
Qed.

(* ---------- cloned keys ---------- *)
Lemma clone_keys_spec ks : forall from ks' nx, clone_keys ks from = (ks', nx) ->
  map k_index ks' = map k_index ks /\ map k_term ks' = map k_term ks /\ length ks' = length ks
  /\ from <= nx
  /\ (forall a, In a (flat_map k_owned ks') -> from <= a < nx)
  /\ NoDup (flat_map k_owned ks').
Proof.
  induction ks as [|k r IH]; intros from ks' nx; simpl.
  - intros H; inversion H; subst. simpl. repeat split; auto; try lia; try (constructor; fail); try (intros a []).
  - destruct (clone_keys r (from + N.of_nat (length (k_owned k)))) as [r' nx'] eqn:E.
    intros H; inversion H; subst. destruct (IH _ _ _ E) as (H1 & H2 & H3 & H4 & H5 & H6).
    simpl. repeat split; try congruence; try lia.
    + apply in_app_iff in H0 as [Ha|Ha]; [apply fresh_In in Ha | apply H5 in Ha]; lia.
    + apply in_app_iff in H0 as [Ha|Ha]; [apply fresh_In in Ha | apply H5 in Ha]; lia.
    + apply NoDup_app_disjoint; auto using fresh_NoDup.
      intros a Ha Hb. apply fresh_In in Ha. apply H5 in Hb. lia.
Qed.

Lemma clone_slots_spec l : forall from l' nx, clone_slots l from = (l', nx) ->
  map s_term l' = map s_term l /\ map s_self l' = map s_self l
  /\ from <= nx
  /\ (forall a, In a (flat_map slot_owned l') -> from <= a < nx)
  /\ NoDup (flat_map slot_owned l').
Proof.
  induction l as [|sl r IH]; intros from l' nx; simpl.
  - intros H; inversion H; subst. simpl. repeat split; auto; try lia; try (constructor; fail); try (intros a []).
  - destruct (s_self sl) eqn:Es.
    + destruct (clone_slots r (from + N.of_nat (length (s_ptrs sl)))) as [r' nx'] eqn:E.
      intros H; inversion H; subst. destruct (IH _ _ _ E) as (H1 & H2 & H3 & H4 & H5).
      cbn [map flat_map s_term s_self]. unfold slot_owned at 1 3. cbn [s_self s_ptrs].
      repeat split; try congruence; try lia.
      * apply in_app_iff in H0 as [Ha|Ha]; [apply fresh_In in Ha | apply H4 in Ha]; lia.
      * apply in_app_iff in H0 as [Ha|Ha]; [apply fresh_In in Ha | apply H4 in Ha]; lia.
      * apply NoDup_app_disjoint; auto using fresh_NoDup.
        intros a Ha Hb. apply fresh_In in Ha. apply H4 in Hb. lia.
    + destruct (clone_slots r from) as [r' nx'] eqn:E.
      intros H; inversion H; subst. destruct (IH _ _ _ E) as (H1 & H2 & H3 & H4 & H5).
      cbn [map flat_map]. unfold slot_owned at 1 3. rewrite Es. cbn [app].
      repeat split; try congruence; auto; apply H4 in H0; lia.
Qed.

(* ---------- the per-store invariant ---------- *)
Lemma key_at_nth ks : forall b,
  map k_index ks = map N.of_nat (seq b (length ks)) ->
  forall j, (j < length ks)%nat -> key_at ks (N.of_nat (b + j)) = nth_error ks j.
Proof.
  induction ks as [|k r IH]; intros b H j Hj; simpl in *; [lia|].
  inversion H as [[H1 H2]]. destruct j as [|j].
  - rewrite Nat.add_0_r, H1, N.eqb_refl. reflexivity.
  - rewrite H1. destruct (N.eqb_spec (N.of_nat b) (N.of_nat (b + S j))) as [E|_]; [lia|].
    replace (b + S j)%nat with (S b + j)%nat by lia. apply IH; auto. lia.
Qed.

Lemma rebuild_ordered ks : map k_index ks = map N.of_nat (seq 0 (length ks)) ->
  forall m j, (j + m = length ks)%nat -> rebuild ks m (N.of_nat j) = map slot_of (skipn j ks).
Proof.
  intros H m. induction m as [|m IH]; intros j Hj; simpl.
  - rewrite skipn_all2 by lia. reflexivity.
  - pose proof (key_at_nth ks 0 H j) as Hk. simpl in Hk. rewrite Hk by lia.
    destruct (nth_error ks j) as [k|] eqn:E.
    + replace (N.of_nat j + 1) with (N.of_nat (S j)) by lia. rewrite IH by lia.
      clear - E. revert j E. induction ks as [|x r IHr]; intros [|j] E; simpl in *; try discriminate.
      * inversion E; subst. reflexivity.
      * apply IHr. exact E.
    + apply nth_error_None in E. lia.
Qed.

Lemma slot_of_ok k : slot_ok k (slot_of k).
Proof. unfold slot_ok, slot_of. destruct (k_quoted k); simpl; auto. Qed.
Lemma slot_of_owns_nothing k : slot_owned (slot_of k) = [].
Proof. unfold slot_owned, slot_of. destruct (k_quoted k); reflexivity. Qed.
Lemma map_slot_of_ok ks : Forall2 slot_ok ks (map slot_of ks).
Proof. induction ks; simpl; constructor; auto using slot_of_ok. Qed.
Lemma map_slot_of_owns_nothing ks : flat_map slot_owned (map slot_of ks) = [].
Proof. induction ks as [|k r IH]; simpl; auto. rewrite slot_of_owns_nothing, IH. reflexivity. Qed.

Lemma Forall2_app_one {A B} (R : A -> B -> Prop) l1 l2 a b :
  Forall2 R l1 l2 -> R a b -> Forall2 R (l1 ++ [a]) (l2 ++ [b]).
Proof. intros H Hab. apply Forall2_app; auto. Qed.

Lemma Forall2_len {A B} (R : A -> B -> Prop) l1 l2 : Forall2 R l1 l2 -> length l1 = length l2.
Proof. induction 1; simpl; congruence. Qed.

Lemma slots_terms ks sls : Forall2 slot_ok ks sls -> map s_term sls = map k_term ks.
Proof. induction 1 as [|k sl ks sls [Ht _] _ IH]; simpl; congruence. Qed.

Lemma slots_ok_from_terms ks : forall sls, map s_term sls = map k_term ks ->
  Forall (fun sl => s_self sl = true) sls -> Forall2 slot_ok ks sls.
Proof.
  induction ks as [|k ks IH]; intros [|sl sls] Hm Hf; simpl in *; try discriminate; constructor.
  - inversion Hm. inversion Hf; subst. split; auto.
  - inversion Hm. inversion Hf; subst. apply IH; auto.
Qed.

Lemma ensure_inv m w s t n qd w' s' : Inv_s m s -> ensure m w s t n qd = (w', s') -> Inv_s m s'.
Proof.
  intros (H1 & H2 & H3). unfold ensure. destruct (has_term s t); intros E; [inversion E; subst; repeat split; auto|].
  pose proof (Forall2_len _ _ _ H2) as Hl.
  assert (Ho : forall k0, k_index k0 = N.of_nat (length (i2t s)) ->
               map k_index (keys s ++ [k0]) = map N.of_nat (seq 0 (length (keys s ++ [k0])))).
  { intros k0 Hk0. rewrite map_app, app_length, seq_app, map_app, H1. simpl. rewrite Hk0, Hl. reflexivity. }
  destruct m; inversion E; subst; cbn [keys i2t]; (split; [apply Ho; reflexivity|split]).
  - apply Forall2_app_one; auto. apply slot_of_ok.
  - discriminate.
  - apply Forall2_app_one; auto. apply slot_of_ok.
  - discriminate.
  - apply Forall2_app_one; auto. split; simpl; auto.
  - intros _. apply Forall_app. split; auto.
Qed.

Lemma clone_inv m w s w' s' : m <> Derived -> Inv_s m s -> clone_store m w s = (w', s') -> Inv_s m s'.
Proof.
  intros Hm (H1 & H2 & H3). unfold clone_store.
  destruct (clone_keys (keys s) (next w)) as [ks nx] eqn:E.
  destruct (clone_keys_spec _ _ _ _ E) as (K1 & K2 & K3 & _).
  assert (Ho : map k_index ks = map N.of_nat (seq 0 (length ks))) by (rewrite K1, K3; exact H1).
  destruct m; [contradiction| |].
  - intros H; inversion H; subst; clear H. cbn [keys i2t]. split; [exact Ho|split; [|discriminate]].
    pose proof (rebuild_ordered ks Ho (length ks) 0) as R. simpl in R. rewrite R by reflexivity.
    apply map_slot_of_ok.
  - destruct (clone_slots (i2t s) nx) as [sls nx2] eqn:Es.
    intros H; inversion H; subst; clear H. cbn [keys i2t].
    destruct (clone_slots_spec _ _ _ _ Es) as (S1 & S2 & _).
    assert (Hf : Forall (fun sl => s_self sl = true) sls).
    { specialize (H3 eq_refl). clear - H3 S2. revert sls S2.
      induction (i2t s) as [|x r IH]; intros [|y sls] S2; simpl in *; try discriminate; constructor.
      - inversion S2. inversion H3; subst. congruence.
      - inversion S2. inversion H3; subst. apply IH; auto. }
    split; [exact Ho|split; [|intros _; exact Hf]].
    cbn [keys i2t]. apply slots_ok_from_terms; auto. rewrite S1, K2. apply slots_terms. exact H2.
Qed.

Lemma aid_list_eqb_refl l : list_eqb N.eqb l l = true.
Proof. induction l as [|x l IH]; simpl; auto. rewrite N.eqb_refl. exact IH. Qed.

Lemma Forall2_nth {A B} (R : A -> B -> Prop) l1 l2 i b :
  Forall2 R l1 l2 -> nth_error l2 i = Some b -> exists a, nth_error l1 i = Some a /\ R a b.
Proof.
  intros H. revert i. induction H as [|x y l1 l2 Hxy _ IH]; intros [|i] Hn; simpl in *; try discriminate.
  - inversion Hn; subst. eauto.
  - apply IH. exact Hn.
Qed.

(* what the audit hook reports on a store satisfying the invariant: all true *)
Lemma audit_from_true ks : forall rk rs j, Forall2 slot_ok rk rs ->
  (forall q k, nth_error rk q = Some k -> key_at ks (N.of_nat (j + q)) = Some k) ->
  forallb (fun b => b) (audit_from ks (N.of_nat j) rs) = true.
Proof.
  intros rk rs j H. revert j. induction H as [|k sl rk rs [Ht Hp] _ IH]; intros j Hk; simpl; auto.
  pose proof (Hk 0%nat k eq_refl) as H0. rewrite Nat.add_0_r in H0. rewrite H0.
  rewrite Ht, N.eqb_refl. cbn [andb].
  assert (Hb : s_self sl || list_eqb N.eqb (s_ptrs sl) (k_owned k) = true).
  { destruct Hp as [Hp | Hp]; rewrite Hp; auto. rewrite aid_list_eqb_refl. apply orb_true_r. }
  rewrite Hb. cbn [andb]. replace (N.of_nat j + 1) with (N.of_nat (S j)) by lia.
  apply IH. intros q k' Hq. replace (S j + q)%nat with (j + S q)%nat by lia. apply Hk. exact Hq.
Qed.
Theorem audit_all_true m s : Inv_s m s -> forallb (fun b => b) (audit s) = true.
Proof.
  intros (H1 & H2 & _). unfold audit.
  apply (audit_from_true (keys s) (keys s) (i2t s) 0 H2).
  intros q k Hq. simpl. pose proof (key_at_nth (keys s) 0 H1 q) as Hk. simpl in Hk. rewrite Hk; auto.
  apply nth_error_Some. congruence.
Qed.

Lemma inv_nth m s i sl : Inv_s m s -> nth_error (i2t s) i = Some sl ->
  exists k, key_at (keys s) (N.of_nat i) = Some k /\ slot_ok k sl /\ In k (keys s).
Proof.
  intros (H1 & H2 & _) Hn. destruct (Forall2_nth _ _ _ _ _ H2 Hn) as (k & Hk & Hok).
  exists k. split; [|split; auto].
  - pose proof (key_at_nth (keys s) 0 H1 i) as Hq. simpl in Hq. rewrite Hq; auto.
    apply nth_error_Some. congruence.
  - eapply nth_error_In; eauto.
Qed.

(* ---------- the global invariant is preserved by every operation ---------- *)
Lemma wf_init m : WF m init.
Proof. constructor; simpl; try constructor; intros; try contradiction. Qed.

Lemma In_mid {A} (x y : A) l1 l2 : In x (l1 ++ y :: l2) <-> x = y \/ In x (l1 ++ l2).
Proof. rewrite !in_app_iff. simpl. intuition. Qed.

Lemma wf_replace m w l1 sid s l2 s' n :
  WF m w -> live w = l1 ++ (sid, s) :: l2 ->
  Permutation (owned_by s') (owned_by s ++ fresh n (next w)) -> Inv_s m s' ->
  WF m (mkWorld (next w + N.of_nat n) (freed w) (l1 ++ (sid, s') :: l2)).
Proof.
  intros W Hl Hp Hi. destruct W as [W1 W2 W3 W4 W5 W6]. rewrite Hl in *.
  assert (Hperm : Permutation (all_owned (l1 ++ (sid, s') :: l2))
                              (all_owned (l1 ++ (sid, s) :: l2) ++ fresh n (next w))).
  { eapply perm_trans; [apply all_owned_mid|].
    eapply perm_trans; [apply Permutation_app_tail; exact Hp|].
    rewrite <- app_assoc.
    eapply perm_trans; [apply Permutation_app_head; apply Permutation_app_comm|].
    rewrite app_assoc. apply Permutation_app_tail. apply Permutation_sym. apply all_owned_mid. }
  constructor; simpl.
  - rewrite map_app in *. simpl in *. exact W1.
  - eapply Permutation_NoDup; [apply Permutation_sym; exact Hperm|]. apply NoDup_app_fresh; auto.
  - intros a Ha. apply (Permutation_in _ Hperm) in Ha. apply in_app_iff in Ha as [Ha|Ha].
    + apply W3 in Ha. lia.
    + apply fresh_In in Ha. lia.
  - intros a Ha. apply W4 in Ha. lia.
  - intros a Ha Hf. apply (Permutation_in _ Hperm) in Ha. apply in_app_iff in Ha as [Ha|Ha].
    + eapply W5; eauto.
    + apply fresh_In in Ha. apply W4 in Hf. lia.
  - intros sid0 s0 H0. apply In_mid in H0 as [E|H0].
    + inversion E; subst. exact Hi.
    + apply (W6 sid0). apply In_mid. right. exact H0.
Qed.

Lemma wf_add m w sid s' nx :
  WF m w -> ~ In sid (map fst (live w)) -> next w <= nx ->
  (forall a, In a (owned_by s') -> next w <= a < nx) -> NoDup (owned_by s') -> Inv_s m s' ->
  WF m (mkWorld nx (freed w) (live w ++ [(sid, s')])).
Proof.
  intros [W1 W2 W3 W4 W5 W6] Hn Hle Hb Hd Hi. constructor; simpl.
  - rewrite map_app. simpl. apply NoDup_app_disjoint; auto.
    + constructor; [intros []|constructor].
    + intros a Ha [<-|[]]. auto.
  - rewrite all_owned_app. simpl. rewrite app_nil_r. apply NoDup_app_disjoint; auto.
    intros a Ha Hb'. apply W3 in Ha. apply Hb in Hb'. lia.
  - intros a Ha. rewrite all_owned_app in Ha. simpl in Ha. rewrite app_nil_r in Ha.
    apply in_app_iff in Ha as [Ha|Ha]; [apply W3 in Ha; lia | apply Hb in Ha; lia].
  - intros a Ha. apply W4 in Ha. lia.
  - intros a Ha Hf. rewrite all_owned_app in Ha. simpl in Ha. rewrite app_nil_r in Ha.
    apply in_app_iff in Ha as [Ha|Ha]; [eapply W5; eauto | apply Hb in Ha; apply W4 in Hf; lia].
  - intros sid0 s0 H0. apply in_app_iff in H0 as [H0|[E|[]]]; [eapply W6; eauto | inversion E; subst; exact Hi].
Qed.

Lemma NoDup_app_r {A} (l1 l2 : list A) : NoDup (l1 ++ l2) -> NoDup l2.
Proof. induction l1 as [|x l1 IH]; simpl; auto. intros H. inversion H; auto. Qed.
Lemma NoDup_remove_mid {A} (l1 l2 : list A) x : NoDup (l1 ++ x :: l2) -> NoDup (l1 ++ l2).
Proof. apply NoDup_remove_1. Qed.

Lemma wf_drop m w l1 sid s l2 :
  WF m w -> live w = l1 ++ (sid, s) :: l2 ->
  WF m (mkWorld (next w) (freed w ++ owned_by s) (l1 ++ l2)).
Proof.
  intros [W1 W2 W3 W4 W5 W6] Hl. rewrite Hl in *.
  assert (Hperm := all_owned_mid l1 sid s l2).
  assert (Hnd := Permutation_NoDup Hperm W2).
  constructor; simpl.
  - rewrite map_app in *. simpl in W1. eapply NoDup_remove_mid; eauto.
  - apply NoDup_app_r in Hnd. exact Hnd.
  - intros a Ha. apply W3. apply (Permutation_in _ (Permutation_sym Hperm)). apply in_app_iff. auto.
  - intros a Ha. apply in_app_iff in Ha as [Ha|Ha]; auto.
    apply W3. apply (Permutation_in _ (Permutation_sym Hperm)). apply in_app_iff. auto.
  - intros a Ha Hf. apply in_app_iff in Hf as [Hf|Hf].
    + eapply W5; eauto. apply (Permutation_in _ (Permutation_sym Hperm)). apply in_app_iff. auto.
    + clear - Hnd Ha Hf. induction (owned_by s) as [|x l IH]; simpl in *; [contradiction|].
      inversion Hnd; subst. destruct Hf as [->|Hf]; auto. apply H1. apply in_app_iff. auto.
  - intros sid0 s0 H0. apply (W6 sid0). apply In_mid. right. exact H0.
Qed.

Definition swap_id (a b k : N) : N := if N.eqb k a then b else if N.eqb k b then a else k.
Lemma swap_id_inj a b x y : swap_id a b x = swap_id a b y -> x = y.
Proof.
  unfold swap_id. destruct (N.eqb_spec x a), (N.eqb_spec x b), (N.eqb_spec y a), (N.eqb_spec y b); subst; congruence.
Qed.

Lemma all_owned_swap a b l :
  all_owned (map (fun p => (swap_id a b (fst p), snd p)) l) = all_owned l.
Proof. unfold all_owned. induction l as [|[k x] r IH]; simpl; auto. rewrite IH. reflexivity. Qed.
Lemma ids_swap a b (l : list (N * store)) :
  NoDup (map fst l) -> NoDup (map fst (map (fun p => (swap_id a b (fst p), snd p)) l)).
Proof.
  rewrite map_map. simpl. induction l as [|[k x] r IH]; simpl; intros H; [constructor|].
  inversion H; subst. constructor; auto.
  rewrite in_map_iff. intros [[k' x'] [E Hin]]. simpl in E. apply swap_id_inj in E. subst.
  apply H2. apply in_map_iff. exists (k, x'). auto.
Qed.

Lemma wf_swap m w a b :
  WF m w -> WF m (mkWorld (next w) (freed w) (map (fun p => (swap_id a b (fst p), snd p)) (live w))).
Proof.
  intros [W1 W2 W3 W4 W5 W6].
  constructor; simpl; try rewrite all_owned_swap; auto.
  - apply ids_swap. exact W1.
  - intros sid s H. apply in_map_iff in H as [[k x] [E H]]. inversion E; subst. eapply W6; eauto.
Qed.

Lemma perm_insert (K S a b : list aid) : Permutation ((K ++ a) ++ (S ++ b)) ((K ++ S) ++ (a ++ b)).
Proof.
  rewrite <- !app_assoc. apply Permutation_app_head. rewrite !app_assoc.
  apply Permutation_app_tail. apply Permutation_app_comm.
Qed.

Lemma flat_map_app_one {A B} (f : A -> list B) l x : flat_map f (l ++ [x]) = flat_map f l ++ f x.
Proof. rewrite flat_map_app. simpl. rewrite app_nil_r. reflexivity. Qed.

Theorem step_wf m w o : m <> Derived -> WF m w -> WF m (step m w o).
Proof.
  intros Hm W. destruct o as [sid|sid t n qd|src dst|sid|a b|sid]; cbn [step].
  - (* New *)
    destruct (find_store (live w) sid) eqn:E; auto.
    destruct (find_none _ _ E) as [Hs Hn]. rewrite Hs.
    apply (wf_add m w sid empty_store (next w)); auto; try lia; simpl; try (constructor; fail);
      try (intros ? []).
    split; [reflexivity|split; [constructor|intros _; constructor]].
  - (* Insert *)
    destruct (find_store (live w) sid) as [s|] eqn:E; auto.
    destruct (find_split _ _ _ E) as (l1 & l2 & Hl & Hset & _).
    remember (S n) as nn eqn:Hnn. clear Hnn n.
    destruct (ensure m w s t nn qd) as [w' s'] eqn:Ee.
    pose proof (wf_inv m w W sid s (find_In _ _ _ E)) as Hi.
    pose proof (ensure_inv _ _ _ _ _ _ _ _ Hi Ee) as Hi'.
    unfold ensure in Ee. destruct (has_term s t).
    + injection Ee as E1 E2. subst w' s'. rewrite Hset, <- Hl. destruct w; exact W.
    + destruct m; [contradiction| |]; injection Ee as E1 E2; subst w' s'; cbn [next freed live]; rewrite Hset.
      * apply (wf_replace Rebuilt w l1 sid s l2 _ nn); auto.
        unfold owned_by. cbn [keys i2t]. rewrite !flat_map_app_one. cbn [k_owned].
        rewrite slot_of_owns_nothing, app_nil_r.
        rewrite <- !app_assoc. apply Permutation_app_head. apply Permutation_app_comm.
      * replace (next w + N.of_nat nn + N.of_nat nn) with (next w + N.of_nat (nn + nn)) by lia.
        apply (wf_replace Owned w l1 sid s l2 _ (nn + nn)); auto.
        unfold owned_by. cbn [keys i2t]. rewrite !flat_map_app_one. cbn [k_owned].
        unfold slot_owned at 2. cbn [s_self s_ptrs].
        rewrite fresh_app. apply perm_insert.
  - (* Clone *)
    destruct (find_store (live w) src) as [s|] eqn:Es; auto.
    destruct (find_store (live w) dst) eqn:Ed; auto.
    destruct (clone_store m w s) as [w' s'] eqn:Ec.
    pose proof (wf_inv m w W src s (find_In _ _ _ Es)) as Hi.
    pose proof (clone_inv _ _ _ _ _ Hm Hi Ec) as Hi'.
    unfold clone_store in Ec. destruct (clone_keys (keys s) (next w)) as [ks nx] eqn:Ek.
    destruct (clone_keys_spec _ _ _ _ Ek) as (_ & _ & _ & K4 & K5 & K6).
    destruct (find_none _ _ Ed) as [Hs Hn].
    destruct m; [contradiction| |].
    + inversion Ec; subst. cbn [next freed live]. rewrite Hs.
      destruct Hi' as (Ho & Hi2 & Hi3). cbn [keys i2t] in Ho.
      assert (R : rebuild ks (length ks) 0 = map slot_of ks).
      { pose proof (rebuild_ordered ks Ho (length ks) 0) as R. simpl in R. apply R. reflexivity. }
      apply (wf_add Rebuilt w dst _ nx); auto;
        try (unfold owned_by; cbn [keys i2t]; rewrite R, map_slot_of_owns_nothing, app_nil_r; auto; fail).
      split; [exact Ho|split; auto].
    + destruct (clone_slots (i2t s) nx) as [sls nx2] eqn:Esl.
      destruct (clone_slots_spec _ _ _ _ Esl) as (_ & _ & S3 & S4 & S5).
      inversion Ec; subst. cbn [next freed live]. rewrite Hs.
      apply (wf_add Owned w dst _ nx2); auto; try lia; unfold owned_by; cbn [keys i2t].
      * intros a Ha. apply in_app_iff in Ha as [Ha|Ha]; [apply K5 in Ha|apply S4 in Ha]; lia.
      * apply NoDup_app_disjoint; auto. intros a Ha Hb. apply K5 in Ha. apply S4 in Hb. lia.
  - (* Drop *)
    destruct (find_store (live w) sid) as [s|] eqn:E; auto.
    destruct (find_split _ _ _ E) as (l1 & l2 & Hl & _ & Hdel). rewrite Hdel.
    apply (wf_drop m w l1 sid s l2); auto.
  - (* Swap *)
    destruct (find_store (live w) a); auto. destruct (find_store (live w) b); auto.
    apply (wf_swap m w a b W).
  - exact W.
Qed.

Theorem reachable_wf m ops : m <> Derived -> WF m (run m ops).
Proof.
  intros Hm. unfold run. assert (H : forall w, WF m w -> WF m (fold_left (step m) ops w)).
  { induction ops as [|o ops IH]; simpl; auto. intros w W. apply IH. apply step_wf; auto. }
  apply H. apply wf_init.
Qed.

(* ---------- consequences ---------- *)
Lemma owned_in_all l sid s a : In (sid, s) l -> In a (owned_by s) -> In a (all_owned l).
Proof. intros H Ha. unfold all_owned. apply in_flat_map. exists (sid, s). auto. Qed.

Lemma slot_ptrs_owned m s i sl a : Inv_s m s -> nth_error (i2t s) i = Some sl -> In a (s_ptrs sl) -> In a (owned_by s).
Proof.
  intros Hi Hn Ha. destruct (inv_nth m s i sl Hi Hn) as (k & _ & [_ Hp] & Hin).
  unfold owned_by. apply in_app_iff. destruct Hp as [Hs|Hp].
  - right. apply in_flat_map. exists sl. split; [eapply nth_error_In; eauto|].
    unfold slot_owned. rewrite Hs. exact Ha.
  - left. apply in_flat_map. exists k. split; auto. rewrite <- Hp. exact Ha.
Qed.

(* no read of a live store ever touches released memory, or memory of another store *)
Theorem read_safe m w sid s i : WF m w -> In (sid, s) (live w) ->
  read w s i = ReadOutOfRange \/ exists t, read w s i = ReadOk t.
Proof.
  intros W Hs. unfold read. destruct (nth_error (i2t s) i) as [sl|] eqn:E; auto. right.
  pose proof (wf_inv m w W sid s Hs) as Hi.
  assert (Hnf : existsb (fun a => aid_in a (freed w)) (s_ptrs sl) = false).
  { apply not_true_is_false. intros H. apply existsb_exists in H as [a [Ha Hf]].
    unfold aid_in in Hf. apply existsb_exists in Hf as [a' [Hf E']]. apply N.eqb_eq in E'. subst a'.
    apply (wf_not_freed m w W a); auto. eapply owned_in_all; eauto. eapply slot_ptrs_owned; eauto. }
  rewrite Hnf. destruct (inv_nth m s i sl Hi E) as (k & Hk & [_ Hp] & _).
  destruct (s_self sl) eqn:Ess; [eauto|].
  destruct Hp as [Hp|Hp]; [discriminate|]. rewrite Hk, Hp, aid_list_eqb_refl. eauto.
Qed.

Theorem reachable_read_safe m ops sid s i : m <> Derived -> In (sid, s) (live (run m ops)) ->
  read (run m ops) s i = ReadOutOfRange \/ exists t, read (run m ops) s i = ReadOk t.
Proof. intros Hm. apply (read_safe m). apply reachable_wf. exact Hm. Qed.

Theorem reachable_audit m ops sid s : m <> Derived -> In (sid, s) (live (run m ops)) ->
  forallb (fun b => b) (audit s) = true.
Proof. intros Hm H. apply (audit_all_true m). exact (wf_inv _ _ (reachable_wf m ops Hm) sid s H). Qed.

(* independence: an operation whose subject is another store leaves this store, and therefore
   every value it returns, unchanged (cloning FROM a store does not change it either) *)
Definition touches (o : op) (sid : N) : bool :=
  match o with
  | New x | Insert x _ _ _ | Drop x | Grow x => N.eqb x sid
  | Clone _ dst => N.eqb dst sid
  | Swap a b => N.eqb a sid || N.eqb b sid
  end.

Lemma find_set_other l x s' sid : x <> sid -> find_store (set_store l x s') sid = find_store l sid.
Proof.
  intros Hn. induction l as [|[k v] r IH]; simpl.
  - destruct (N.eqb_spec x sid); congruence.
  - destruct (N.eqb_spec k x) as [->|Hk]; simpl.
    + destruct (N.eqb_spec x sid); congruence.
    + destruct (N.eqb_spec k sid); auto.
Qed.
Lemma find_del_other l x sid : x <> sid -> find_store (del_store l x) sid = find_store l sid.
Proof.
  intros Hn. induction l as [|[k v] r IH]; simpl; auto.
  destruct (N.eqb_spec k x) as [->|Hk]; simpl.
  - destruct (N.eqb_spec x sid); congruence.
  - destruct (N.eqb_spec k sid); auto.
Qed.
Lemma find_swap_other l a b sid : a <> sid -> b <> sid ->
  find_store (map (fun p => (if N.eqb (fst p) a then b else if N.eqb (fst p) b then a else fst p, snd p)) l) sid
  = find_store l sid.
Proof.
  intros Ha Hb. induction l as [|[k v] r IH]; simpl; auto.
  destruct (N.eqb_spec k a) as [->|Hka]; [|destruct (N.eqb_spec k b) as [->|Hkb]].
  - destruct (N.eqb_spec b sid), (N.eqb_spec a sid); try congruence; try exact IH.
  - destruct (N.eqb_spec a sid), (N.eqb_spec b sid); try congruence; try exact IH.
  - destruct (N.eqb_spec k sid); auto.
Qed.

Lemma ensure_live m w s t n qd w' s' : ensure m w s t n qd = (w', s') -> live w' = live w.
Proof. unfold ensure. destruct (has_term s t); [|destruct m]; intros E; inversion E; subst; reflexivity. Qed.
Lemma clone_live m w s w' s' : clone_store m w s = (w', s') -> live w' = live w.
Proof.
  unfold clone_store. destruct (clone_keys (keys s) (next w)) as [ks nx]. destruct m.
  - intros E; inversion E; reflexivity.
  - intros E; inversion E; reflexivity.
  - destruct (clone_slots (i2t s) nx). intros E; inversion E; reflexivity.
Qed.

Theorem frame m w o sid : touches o sid = false ->
  find_store (live (step m w o)) sid = find_store (live w) sid.
Proof.
  destruct o as [x|x t n qd|src dst|x|a b|x]; simpl; intros H.
  - apply N.eqb_neq in H. destruct (find_store (live w) x); auto. simpl. apply find_set_other; auto.
  - apply N.eqb_neq in H. destruct (find_store (live w) x) as [s|]; auto.
    destruct (ensure m w s t (S n) qd) as [w' s'] eqn:E. simpl.
    rewrite find_set_other by auto. rewrite (ensure_live _ _ _ _ _ _ _ _ E). reflexivity.
  - apply N.eqb_neq in H. destruct (find_store (live w) src) as [s|]; auto.
    destruct (find_store (live w) dst); auto.
    destruct (clone_store m w s) as [w' s'] eqn:E. simpl.
    rewrite find_set_other by auto. rewrite (clone_live _ _ _ _ _ E). reflexivity.
  - apply N.eqb_neq in H. destruct (find_store (live w) x); auto. simpl. apply find_del_other; auto.
  - apply orb_false_iff in H as [H1 H2]. apply N.eqb_neq in H1, H2.
    destruct (find_store (live w) a); auto. destruct (find_store (live w) b); auto.
    simpl. apply find_swap_other; auto.
  - reflexivity.
Qed.

Theorem independent_reads m w o sid s i : m <> Derived -> WF m w -> touches o sid = false ->
  find_store (live w) sid = Some s ->
  find_store (live (step m w o)) sid = Some s
  /\ read (step m w o) s i = read w s i.
Proof.
  intros Hm W Ht Hf. pose proof (frame m w o sid Ht) as Hfr. rewrite Hf in Hfr. split; auto.
  pose proof (step_wf m w o Hm W) as W'.
  pose proof (read_safe m w sid s i W (find_In _ _ _ Hf)) as R1.
  pose proof (read_safe m _ sid s i W' (find_In _ _ _ Hfr)) as R2.
  unfold read in *. destruct (nth_error (i2t s) i) as [sl|] eqn:En; auto.
  destruct (existsb (fun a => aid_in a (freed w)) (s_ptrs sl)) eqn:X1;
    [destruct R1 as [R1|[t R1]]; discriminate|].
  destruct (existsb (fun a => aid_in a (freed (step m w o))) (s_ptrs sl)) eqn:X2;
    [destruct R2 as [R2|[t R2]]; discriminate|].
  reflexivity.
Qed.

(* ---------- the derived Clone is refuted: clone, drop the original, read the clone ---------- *)
Example derived_clone_refuted :
  let w := run Derived [New 0; Insert 0 7 0 false; Clone 0 1; Drop 0] in
  exists s, find_store (live w) 1 = Some s /\ read w s 0 = ReadFreed
            /\ audit s = [false].
Proof. eexists. vm_compute. repeat split; reflexivity. Qed.
Example rebuilt_clone_ok :
  let w := run Rebuilt [New 0; Insert 0 7 0 false; Insert 0 8 2 true; Clone 0 1; Drop 0; Insert 1 9 1 false; Swap 1 2; Grow 1] in
  exists s, find_store (live w) 1 = Some s /\ read w s 0 = ReadOk 7 /\ read w s 2 = ReadOk 9
            /\ audit s = [true; true; true].
Proof. eexists. vm_compute. repeat split; reflexivity. Qed.
Example owned_clone_ok :
  let w := run Owned [New 0; Insert 0 7 0 false; Insert 0 8 2 true; Clone 0 1; Drop 0; Insert 1 9 1 false; Swap 1 2; Grow 1] in
  exists s, find_store (live w) 1 = Some s /\ read w s 0 = ReadOk 7 /\ read w s 2 = ReadOk 9
            /\ audit s = [true; true; true] /\ length (owned_by s) = 12%nat /\ length (freed w) = 8%nat.
Proof. eexists. vm_compute. repeat split; reflexivity. Qed.

(* ================= compound operations of the widened harness ================= *)
Lemma run_app m a b : run m (a ++ b) = fold_left (step m) b (run m a).
Proof. unfold run. apply fold_left_app. Qed.

Lemma find_set_same l x s' : find_store (set_store l x s') x = Some s'.
Proof.
  induction l as [|[k v] r IH]; simpl.
  - rewrite N.eqb_refl. reflexivity.
  - destruct (N.eqb_spec k x) as [->|Hk]; simpl.
    + rewrite N.eqb_refl. reflexivity.
    + destruct (N.eqb_spec k x); [contradiction|]. exact IH.
Qed.

Lemma find_del_same l x : NoDup (map fst l) -> find_store (del_store l x) x = None.
Proof.
  induction l as [|[k v] r IH]; simpl; auto. intros Hn. inversion Hn; subst.
  destruct (N.eqb_spec k x) as [->|Hk]; simpl.
  - destruct (find_store r x) eqn:E; auto. exfalso. apply H1. apply find_In in E.
    apply in_map_iff. exists (x, s). auto.
  - destruct (N.eqb_spec k x); [contradiction|]. auto.
Qed.

Lemma find_swap l a b k :
  find_store (map (fun p => (if N.eqb (fst p) a then b else if N.eqb (fst p) b then a else fst p, snd p)) l)
             (swap_id a b k) = find_store l k.
Proof.
  induction l as [|[k0 v] r IH]; simpl; auto.
  change (if N.eqb k0 a then b else if N.eqb k0 b then a else k0) with (swap_id a b k0).
  destruct (N.eqb_spec (swap_id a b k0) (swap_id a b k)) as [E|E].
  - apply swap_id_inj in E. subst. rewrite N.eqb_refl. reflexivity.
  - destruct (N.eqb_spec k0 k) as [->|Hk]; [contradiction|]. exact IH.
Qed.

(* what a store returns by index is the list of the terms of its keys *)
Lemma content_terms m s : Inv_s m s -> content s = terms_of s.
Proof. intros (_ & H2 & _). unfold content, terms_of. apply slots_terms. exact H2. Qed.

(* a clone returns, index by index, what its original returns at the time of cloning *)
Theorem clone_same_content m w s w' s' : m <> Derived -> Inv_s m s -> clone_store m w s = (w', s') ->
  content s' = content s.
Proof.
  intros Hm Hi Hc. pose proof (clone_inv _ _ _ _ _ Hm Hi Hc) as Hi'.
  rewrite (content_terms _ _ Hi), (content_terms _ _ Hi'). unfold terms_of.
  unfold clone_store in Hc. destruct (clone_keys (keys s) (next w)) as [ks nx] eqn:E.
  destruct (clone_keys_spec _ _ _ _ E) as (_ & K2 & _).
  destruct m; [contradiction| |].
  - inversion Hc; subst. exact K2.
  - destruct (clone_slots (i2t s) nx). inversion Hc; subst. exact K2.
Qed.

Theorem clone_step_content m w src dst s : m <> Derived -> WF m w ->
  find_store (live w) src = Some s -> find_store (live w) dst = None ->
  exists s', find_store (live (step m w (Clone src dst))) dst = Some s'
             /\ content s' = content s
             /\ find_store (live (step m w (Clone src dst))) src = Some s.
Proof.
  intros Hm W Hs Hd. assert (Hne : dst <> src) by (intros ->; congruence).
  pose proof (frame m w (Clone src dst) src) as Hf. simpl in Hf.
  rewrite (proj2 (N.eqb_neq dst src) Hne) in Hf. specialize (Hf eq_refl). rewrite Hs in Hf.
  simpl in *. rewrite Hs, Hd in *.
  destruct (clone_store m w s) as [w' s'] eqn:Ec. simpl in *.
  exists s'. split; [apply find_set_same|]. split; auto.
  eapply clone_same_content; eauto. exact (wf_inv m w W src s (find_In _ _ _ Hs)).
Qed.

(* Clone::clone_from: the target returns what the source returns, the source is unchanged *)
Theorem clone_from_content m w src dst s sd : m <> Derived -> WF m w -> src <> dst ->
  find_store (live w) src = Some s -> find_store (live w) dst = Some sd ->
  let w' := fold_left (step m) (clone_from_ops src dst) w in
  exists s', find_store (live w') dst = Some s' /\ content s' = content s
             /\ find_store (live w') src = Some s.
Proof.
  intros Hm W Hne Hs Hd. cbn [clone_from_ops fold_left].
  set (w1 := step m w (Drop dst)).
  assert (W1 : WF m w1) by (apply step_wf; auto).
  assert (Hs1 : find_store (live w1) src = Some s).
  { unfold w1. simpl. rewrite Hd. simpl. rewrite find_del_other; auto. }
  assert (Hd1 : find_store (live w1) dst = None).
  { unfold w1. simpl. rewrite Hd. simpl. apply find_del_same. apply (wf_ids m w W). }
  exact (clone_step_content m w1 src dst s Hm W1 Hs1 Hd1).
Qed.

(* std::mem::take / mem::replace: the content moves, an empty store stays *)
Theorem take_spec m w src dst s :
  find_store (live w) src = Some s -> find_store (live w) dst = None ->
  let w' := fold_left (step m) (take_ops src dst) w in
  find_store (live w') dst = Some s /\ find_store (live w') src = Some empty_store
  /\ next w' = next w /\ freed w' = freed w.
Proof.
  intros Hs Hd. assert (Hne : dst <> src) by (intros ->; congruence).
  cbn [take_ops fold_left].
  set (w1 := mkWorld (next w) (freed w) (set_store (live w) dst empty_store)).
  assert (E1 : step m w (New dst) = w1) by (simpl; rewrite Hd; reflexivity).
  rewrite E1.
  assert (H1 : find_store (live w1) dst = Some empty_store) by (apply find_set_same).
  assert (H2 : find_store (live w1) src = Some s) by (unfold w1; simpl; rewrite find_set_other; auto).
  assert (E2 : step m w1 (Swap src dst) = mkWorld (next w1) (freed w1)
     (map (fun p => (if N.eqb (fst p) src then dst else if N.eqb (fst p) dst then src else fst p, snd p)) (live w1)))
    by (unfold step; rewrite H2, H1; reflexivity).
  rewrite E2. cbn [live next freed].
  pose proof (find_swap (live w1) src dst src) as Fa. pose proof (find_swap (live w1) src dst dst) as Fb.
  unfold swap_id in Fa, Fb. rewrite N.eqb_refl in Fa.
  rewrite (proj2 (N.eqb_neq dst src) Hne), N.eqb_refl in Fb.
  rewrite Fa, Fb, H1, H2. repeat split; reflexivity.
Qed.

(* the bulk constructors (from_triple_source, from_quad_source, collect_*, insert_all into a new store):
   the fold of the single inserts from the empty store; the new store returns the terms of the sequence,
   first occurrences only, in order *)
Lemma has_term_terms s t : has_term s t = existsb (fun x => N.eqb x t) (terms_of s).
Proof. unfold has_term, terms_of. induction (keys s) as [|k r IH]; simpl; auto. rewrite IH. reflexivity. Qed.

Lemma inserts_terms m d ts : forall w s, find_store (live w) d = Some s ->
  exists s', find_store (live (fold_left (step m) (map (ins_of d) ts) w)) d = Some s'
             /\ terms_of s' = add_new (terms_of s) (map (fun x => fst (fst x)) ts).
Proof.
  induction ts as [|x ts IH]; intros w s Hs; cbn [map fold_left add_new].
  - exists s. auto.
  - unfold ins_of at 2. unfold step at 2. rewrite Hs.
    destruct (ensure m w s (fst (fst x)) (S (snd (fst x))) (snd x)) as [w' s'] eqn:Ee.
    assert (Ht : terms_of s' = if existsb (fun y => N.eqb y (fst (fst x))) (terms_of s) then terms_of s
                               else terms_of s ++ [fst (fst x)]).
    { unfold ensure in Ee. rewrite has_term_terms in Ee.
      destruct (existsb (fun y => N.eqb y (fst (fst x))) (terms_of s)); [inversion Ee; subst; auto|].
      destruct m; inversion Ee; subst; unfold terms_of; cbn [keys]; rewrite map_app; reflexivity. }
    rewrite <- Ht. apply IH. cbn [live]. apply find_set_same.
Qed.

Theorem collect_content m ops d ts : m <> Derived -> find_store (live (run m ops)) d = None ->
  exists s, find_store (live (run m (ops ++ collect_ops d ts))) d = Some s
            /\ content s = add_new [] (map (fun x => fst (fst x)) ts).
Proof.
  intros Hm Hd. pose proof (reachable_wf m (ops ++ collect_ops d ts) Hm) as W.
  rewrite run_app in *. unfold collect_ops in *. cbn [fold_left] in *.
  set (w0 := run m ops) in *.
  assert (H1 : find_store (live (step m w0 (New d))) d = Some empty_store).
  { simpl. rewrite Hd. simpl. apply find_set_same. }
  destruct (inserts_terms m d ts _ _ H1) as (s' & Hf & Ht).
  exists s'. split; auto.
  rewrite (content_terms m s' (wf_inv _ _ W d s' (find_In _ _ _ Hf))). exact Ht.
Qed.

Example collect_example :
  let w := run Owned (collect_ops 3 [(7, 0%nat, false); (8, 2%nat, true); (7, 0%nat, false); (9, 1%nat, false)]) in
  exists s, find_store (live w) 3 = Some s /\ content s = [7; 8; 9] /\ audit s = [true; true; true].
Proof. eexists. vm_compute. repeat split; reflexivity. Qed.
Example compound_example :
  let w := run Owned (concat [[New 0; Insert 0 7 0 false; Insert 0 8 2 true]; clone_via_ops 0 1 [100; 101];
                              clone_chain_ops 1 102 2; take_ops 0 3; overwrite_ops 1; [Insert 0 9 0 false];
                              clone_from_ops 2 1; [Drop 2; Drop 3]]) in
  map (fun p => (fst p, content (snd p))) (live w) = [(0, [9]); (1, [7; 8])]
  /\ forallb (fun p => forallb (fun b => b) (audit (snd p))) (live w) = true.
Proof. vm_compute. split; reflexivity. Qed.

(* ================= terms cloned out of a store ================= *)
(* an allocation that belongs to the caller: below `next`, owned by no live store, not freed *)
Definition outside (w : world) (a : aid) : Prop :=
  a < next w /\ ~ In a (all_owned (live w)) /\ ~ In a (freed w).

Lemma all_owned_swap' a b l :
  all_owned (map (fun p => (if N.eqb (fst p) a then b else if N.eqb (fst p) b then a else fst p, snd p)) l) = all_owned l.
Proof. exact (all_owned_swap a b l). Qed.

(* whatever is done to the stores afterwards, such an allocation stays the caller's *)
Lemma outside_step w o a : outside w a -> outside (step Owned w o) a.
Proof.
  intros (Hb & Ho & Hf). unfold outside. destruct o as [sid|sid t n qd|src dst|sid|x y|sid]; cbn [step].
  - destruct (find_store (live w) sid) eqn:E; [repeat split; auto|].
    destruct (find_none _ _ E) as [Hs _]. rewrite Hs. repeat split; auto. cbn [live].
    rewrite all_owned_app. simpl. rewrite app_nil_r. exact Ho.
  - destruct (find_store (live w) sid) as [s|] eqn:E; [|repeat split; auto].
    destruct (find_split _ _ _ E) as (l1 & l2 & Hl & Hset & _).
    remember (S n) as nn eqn:Hnn. clear Hnn n.
    assert (Hs : ~ In a (owned_by s)) by (intros H; apply Ho; eapply owned_in_all; eauto using find_In).
    assert (Hr : ~ In a (all_owned (l1 ++ l2))).
    { intros H. apply Ho. rewrite Hl. apply (Permutation_in _ (Permutation_sym (all_owned_mid l1 sid s l2))).
      apply in_app_iff. auto. }
    unfold ensure. destruct (has_term s t); cbn [next freed live]; rewrite Hset.
    + cbn [next freed live]. rewrite <- Hl. repeat split; auto.
    + cbn [next freed live]. repeat split; auto; try lia. intros H.
      apply (Permutation_in _ (all_owned_mid l1 sid _ l2)) in H. apply in_app_iff in H as [H|H]; auto.
      unfold owned_by in H, Hs. cbn [keys i2t] in H. rewrite !flat_map_app_one in H. cbn [k_owned] in H.
      unfold slot_owned at 2 in H. cbn [s_self s_ptrs] in H.
      rewrite !in_app_iff in H. rewrite in_app_iff in Hs.
      destruct H as [[H|H]|[H|H]]; try (apply fresh_In in H; lia); apply Hs; auto.
  - destruct (find_store (live w) src) as [s|] eqn:Es; [|repeat split; auto].
    destruct (find_store (live w) dst) eqn:Ed; [repeat split; auto|].
    unfold clone_store. destruct (clone_keys (keys s) (next w)) as [ks nx] eqn:Ek.
    destruct (clone_slots (i2t s) nx) as [sls nx2] eqn:Esl. cbn [next freed live].
    destruct (clone_keys_spec _ _ _ _ Ek) as (_ & _ & _ & K4 & K5 & _).
    destruct (clone_slots_spec _ _ _ _ Esl) as (_ & _ & S3 & S4 & _).
    destruct (find_none _ _ Ed) as [Hs _]. rewrite Hs. repeat split; auto; try lia.
    rewrite all_owned_app. simpl. rewrite app_nil_r. intros H. apply in_app_iff in H as [H|H]; auto.
    unfold owned_by in H. cbn [keys i2t] in H. apply in_app_iff in H as [H|H]; [apply K5 in H|apply S4 in H]; lia.
  - destruct (find_store (live w) sid) as [s|] eqn:E; [|repeat split; auto].
    destruct (find_split _ _ _ E) as (l1 & l2 & Hl & _ & Hdel). rewrite Hdel. cbn [next freed live].
    repeat split; auto.
    + intros H. apply Ho. rewrite Hl. apply (Permutation_in _ (Permutation_sym (all_owned_mid l1 sid s l2))).
      apply in_app_iff. auto.
    + intros H. apply in_app_iff in H as [H|H]; auto. apply Ho. eapply owned_in_all; eauto using find_In.
  - destruct (find_store (live w) x); [|repeat split; auto]. destruct (find_store (live w) y); [|repeat split; auto].
    cbn [next freed live]. rewrite all_owned_swap'. repeat split; auto.
  - repeat split; auto.
Qed.

Lemma outside_steps ops : forall w a, outside w a -> outside (fold_left (step Owned) ops w) a.
Proof. induction ops as [|o ops IH]; simpl; auto. intros w a H. apply IH. apply outside_step. exact H. Qed.

(* cloning a term out of a store disturbs nothing: the world stays well-formed, stores and freed set unchanged *)
Lemma clone_term_wf m w sl : WF m w -> WF m (fst (clone_term w sl)) /\ live (fst (clone_term w sl)) = live w
                                      /\ freed (fst (clone_term w sl)) = freed w.
Proof.
  intros W. unfold clone_term. destruct (s_self sl); simpl; auto.
  split; auto. destruct W as [W1 W2 W3 W4 W5 W6]. constructor; simpl; auto.
  - intros a Ha. apply W3 in Ha. lia.
  - intros a Ha. apply W4 in Ha. lia.
Qed.

(* Owned design: a term cloned (Clone::clone) out of any live store after any history stays readable whatever
   is done afterwards -- to that store (drop included) or to any other *)
Theorem escaped_clone_safe ops sid s i sl ops' :
  In (sid, s) (live (run Owned ops)) -> nth_error (i2t s) i = Some sl ->
  read_term (fold_left (step Owned) ops' (fst (clone_term (run Owned ops) sl))) (snd (clone_term (run Owned ops) sl))
  = ReadOk (s_term sl).
Proof.
  intros Hs Hn. assert (Hm : Owned <> Derived) by discriminate.
  pose proof (reachable_wf Owned ops Hm) as W. set (w := run Owned ops) in *.
  destruct (wf_inv _ _ W sid s Hs) as (_ & _ & H3). specialize (H3 eq_refl).
  assert (Hself : s_self sl = true).
  { rewrite Forall_forall in H3. apply H3. eapply nth_error_In; eauto. }
  unfold clone_term. rewrite Hself. cbn [fst snd]. unfold read_term. cbn [s_ptrs s_term].
  set (n := length (s_ptrs sl)). set (w1 := mkWorld (next w + N.of_nat n) (freed w) (live w)).
  assert (Hout : forall a, In a (fresh n (next w)) -> outside w1 a).
  { intros a Ha. apply fresh_In in Ha. unfold outside, w1. cbn [next freed live]. repeat split; try lia.
    - intros H. apply (wf_below _ _ W) in H. lia.
    - intros H. apply (wf_freed_below _ _ W) in H. lia. }
  assert (Hnf : existsb (fun a => aid_in a (freed (fold_left (step Owned) ops' w1))) (fresh n (next w)) = false).
  { apply not_true_is_false. intros H. apply existsb_exists in H as [a [Ha Hf]].
    unfold aid_in in Hf. apply existsb_exists in Hf as [a' [Hf E']]. apply N.eqb_eq in E'. subst a'.
    destruct (outside_steps ops' w1 a (Hout a Ha)) as (_ & _ & Hfr). contradiction. }
  rewrite Hnf. reflexivity.
Qed.

(* borrowing designs (also with the rebuilt Clone): insert a term, clone it out, drop the store, read the clone *)
Example term_clone_escapes_refuted :
  let w0 := run Rebuilt [New 0; Insert 0 7 0 false] in
  exists s sl, find_store (live w0) 0 = Some s /\ nth_error (i2t s) 0 = Some sl
    /\ read_term (fst (clone_term w0 sl)) (snd (clone_term w0 sl)) = ReadOk 7
    /\ read_term (step Rebuilt (fst (clone_term w0 sl)) (Drop 0)) (snd (clone_term w0 sl)) = ReadFreed.
Proof. eexists. eexists. vm_compute. repeat split; reflexivity. Qed.
Example term_clone_owned_ok :
  let w0 := run Owned [New 0; Insert 0 7 0 false] in
  exists s sl, find_store (live w0) 0 = Some s /\ nth_error (i2t s) 0 = Some sl
    /\ read_term (step Owned (fst (clone_term w0 sl)) (Drop 0)) (snd (clone_term w0 sl)) = ReadOk 7
    /\ s_ptrs (snd (clone_term w0 sl)) = [2].
Proof. eexists. eexists. vm_compute. repeat split; reflexivity. Qed.
