(* C13/Properties.v -- pinned statements of property C13 (SPARQL evaluation returns exactly the
   algebra's solutions or 'not implemented').  Strings are lists of code points: tag:a is
   [116;97;103;58;97], ... (this file is generated once from readable text, see the comments). *)
From Sophia.C13 Require Import Model Maps BgpProofs Proofs NumModel NumProofs Eval.
From Coq Require Import Permutation.

(* ===== (1) the engine (after fixes c, d, e) computes the algebra ===== *)
(* basic graph patterns: any number of triple patterns, repeated variables, blank node
   placeholders, quoted triple patterns, over the triples G of one graph: the recursive matcher
   returns each pattern instance mapping (mu, sigma) exactly once *)
Check (bgp_rec_is_spec : forall (G : list triple) (gm : list (option term)) (ps : list tp3),
  NoDup G -> Permutation (bgp_rec (qmG G) ps empty_binding gm) (spec_bgp_full G ps)).
(* every operator composed, for every expression library L: BGP, FILTER, UNION, GRAPH (constant
   or variable), BIND, ORDER BY, projection (also as sub-select), DISTINCT *)
Check (select_correct : forall (L : exprlib),
  (forall c l, Permutation (sorter L c l) l) ->
  forall D : dataset, NoDup D -> forall (p : pattern L) g vs rows,
  slice_free L p = true ->
  select L (ds_qm D) (ds_names D) p [g] None = Ok vs rows ->
  Permutation (map bv rows) (spec L D p g) /\ Forall (row_inv vs) rows).
Check (select_query_correct : forall (L : exprlib),
  (forall c l, Permutation (sorter L c l) l) ->
  forall D (p : pattern L) vs rows, NoDup D -> slice_free L p = true ->
  run_query L D (QSelect None p) = ARows vs rows ->
  vs = out_vars L p /\ Permutation rows (map (mu_row vs) (spec L D p None))).
Check (ask_query_correct : forall (L : exprlib),
  (forall c l, Permutation (sorter L c l) l) ->
  forall D (p : pattern L) b, NoDup D -> slice_free L p = true ->
  run_query L D (QAsk None p) = ABool b ->
  b = match spec L D p None with [] => false | _ => true end).
(* ... and for EVERY supported pattern, OFFSET / LIMIT anywhere (sub-selects): the engine
   returns an admissible answer of the relational form of the same semantics; without
   OFFSET / LIMIT the admissible answers are exactly the orderings of [spec], and [spec] is
   always admissible *)
Check (select_answers : forall (L : exprlib),
  (forall c l, Permutation (sorter L c l) l) ->
  forall D : dataset, NoDup D -> forall (p : pattern L) g vs rows,
  select L (ds_qm D) (ds_names D) p [g] None = Ok vs rows ->
  answers L D p g (map bv rows) /\ Forall (row_inv vs) rows).
Check (answers_spec : forall L D (p : pattern L) g rows,
  slice_free L p = true -> answers L D p g rows -> Permutation rows (spec L D p g)).
Check (spec_answers : forall L D (p : pattern L) g,
  supported L p = true -> answers L D p g (spec L D p g)).
Check (select_query_answers : forall (L : exprlib),
  (forall c l, Permutation (sorter L c l) l) ->
  forall D (p : pattern L) vs rows, NoDup D ->
  run_query L D (QSelect None p) = ARows vs rows ->
  vs = out_vars L p /\ exists sols, answers L D p None sols /\ rows = map (mu_row vs) sols).
Check (ask_query_answers : forall (L : exprlib),
  (forall c l, Permutation (sorter L c l) l) ->
  forall D (p : pattern L) b, NoDup D ->
  run_query L D (QAsk None p) = ABool b ->
  exists sols, answers L D p None sols /\ b = match sols with [] => false | _ => true end).
(* OFFSET / LIMIT *)
Check (slice_operator : forall L qm gnames (p : pattern L) start len gm b,
  select L qm gnames (Slice p start len) gm b =
  match select L qm gnames p gm b with
  | Ok vs rows => Ok vs (slice start len rows)
  | Err e => Err e
  end).
Check (slice_top_correct : forall (L : exprlib),
  (forall c l, Permutation (sorter L c l) l) ->
  forall D (p : pattern L) start len g vs rows, NoDup D -> slice_free L p = true ->
  select L (ds_qm D) (ds_names D) (Slice p start len) [g] None = Ok vs rows ->
  exists ordering, Permutation ordering (spec L D p g) /\ map bv rows = slice start len ordering).

(* ===== (2) unsupported operators / forms: an explicit error, never rows ===== *)
Check (unsupported_is_error : forall L D ds (p : pattern L), supported L p = false ->
  (exists e, run_query L D (QSelect ds p) = AErr e) /\ (exists e, run_query L D (QAsk ds p) = AErr e)).
Check (error_is_explicit : forall L D (p : pattern L) gm e,
  select L (ds_qm D) (ds_names D) p gm None = Err e ->
  (exists k, e = NotImplemented k /\ supported L p = false)
  \/ (exists v, e = Override v /\ no_override L p = false)).
Check (supported_succeeds : forall L D (p : pattern L) gm,
  supported L p = true -> no_override L p = true ->
  exists vs rows, select L (ds_qm D) (ds_names D) p gm None = Ok vs rows).
Check (other_forms_not_implemented : forall L D ds named (p : pattern L),
  run_query L D QConstruct = AErr NotImplementedForm
  /\ run_query L D QDescribe = AErr NotImplementedForm
  /\ run_query L D (QSelect (Some (ds, Some named)) p) = AErr NotImplementedFromNamed
  /\ run_query L D (QAsk (Some (ds, Some named)) p) = AErr NotImplementedFromNamed).

(* ===== (3) auxiliary invariants ===== *)
Check (graph_matcher_at_most_one : forall L qm1 qm2 gnames (p : pattern L),
  (forall m gm, length gm <= 1 -> qm1 m gm = qm2 m gm)%nat ->
  forall gm b, (length gm <= 1)%nat ->
  select L qm1 gnames p gm b = select L qm2 gnames p gm b).
Check (populate_no_panic : forall D tp b gm m,
  In m (ds_qm D (build3 tp b) gm) -> shape_ok3 tp m = true).

(* ===== (4) SparqlNumber ===== *)
Check (neg_exact : forall F n z, int_val F n = Some z ->
  exists m, neg F n = Some m /\ int_val F m = Some (- z)%Z /\ num_wf F m).
Check (neg_total : forall F n, exists m, neg F n = Some m).
Check (abs_exact : forall F n z, num_wf F n -> int_val F n = Some z ->
  int_val F (abs F n) = Some (Z.abs z) /\ num_wf F (abs F n)).
Check (add_exact : forall F a b x y, int_val F a = Some x -> int_val F b = Some y ->
  exists m, add F a b = Some m /\ int_val F m = Some (x + y)%Z /\ num_wf F m).
Check (sub_exact : forall F a b x y, int_val F a = Some x -> int_val F b = Some y ->
  exists m, sub F a b = Some m /\ int_val F m = Some (x - y)%Z /\ num_wf F m).
Check (mul_exact : forall F a b x y, int_val F a = Some x -> int_val F b = Some y ->
  exists m, mul F a b = Some m /\ int_val F m = Some (x * y)%Z /\ num_wf F m).
Check (div_int : forall F a b x y, int_val F a = Some x -> int_val F b = Some y ->
  div F a b = if (y =? 0)%Z then None
              else Some (Decimal F (dec_div F (dec_of_Z F x) (dec_of_Z F y)))).
Check (cmp_int : forall F a b x y, int_val F a = Some x -> int_val F b = Some y ->
  num_cmp F a b = Some (x ?= y)%Z).
Check (neg0_agrees : forall F n r, neg0 F n = Val r -> r = neg F n).
(* rows 22 / 23 of DESIGN section 4 on the code before fixes a, b *)
Check (neg0_refuted : forall F, neg0 F (NativeInt F isize_min) = Panic).
Check (abs0_min_refuted : forall F, abs0 F (NativeInt F isize_min) = Panic).
Check (abs0_big_refuted : forall F,
  abs0 F (BigInt F (-99999999999999999999)) = Val (BigInt F (-99999999999999999999))).

(* ===== witnesses: the code before fixes c, d, e, run with the concrete library CL ===== *)
Definition ta := Iri [116;97;103;58;97]. Definition tb := Iri [116;97;103;58;98]. Definition tc := Iri [116;97;103;58;99].
Definition tp := Iri [116;97;103;58;112]. Definition tq := Iri [116;97;103;58;113].
Definition g1 := Iri [116;97;103;58;103;49]. Definition g2 := Iri [116;97;103;58;103;50].
Definition vs_ := [115]. Definition vo_ := [111]. Definition vg_ := [103]. Definition vh_ := [104].
Definition pv (v : str) : tpat := PAtom (AV v).
(* default graph { a p b . b p c }, no named graph *)
Definition D0 : dataset := [((ta, tp, tb), None); ((tb, tp, tc), None)].
(* the same plus g1 { a p b } and g2 { a p b . a q g1 } *)
Definition D1 : dataset :=
  D0 ++ [((ta, tp, tb), Some g1); ((ta, tp, tb), Some g2); ((ta, tq, g1), Some g2)].
Definition spo : cpattern := Bgp [(pv vs_, PConst tp, pv vo_)].

(* row 25: ASK { GRAPH ?g {} } without named graph, ASK { GRAPH <tag:absent> {} } *)
Definition q25a : cquery := QAsk None (Graph (NVar vg_) (Bgp [])).
Definition q25b : cquery := QAsk None (Graph (NConst [116;97;103;58;97;98;115;101;110;116]) (Bgp [])).
Example graph_empty_refuted :
  run_query0 CL D0 q25a = ABool true /\ run_query0 CL D1 q25b = ABool true
  /\ spec CL D0 (Graph (NVar vg_) (Bgp [])) None = []
  /\ spec CL D1 (Graph (NConst [116;97;103;58;97;98;115;101;110;116]) (Bgp [])) None = [].
Proof. vm_compute. repeat split. Qed.
Example graph_empty_fixed : run_query CL D0 q25a = ABool false /\ run_query CL D1 q25b = ABool false.
Proof. vm_compute. split; reflexivity. Qed.

(* row 26: SELECT ?s { { SELECT ?s { ?s <tag:p> ?o } } FILTER(BOUND(?o)) } *)
Definition p26 : cpattern := Project (cFilter (CBound vo_) (Project spo [vs_])) [vs_].
Example project_scope_refuted :
  run_query0 CL D0 (QSelect None p26) = ARows [vs_] [[Some ta]; [Some tb]]
  /\ spec CL D0 p26 None = [].
Proof. vm_compute. split; reflexivity. Qed.
Example project_scope_fixed : run_query CL D0 (QSelect None p26) = ARows [vs_] [].
Proof. vm_compute. reflexivity. Qed.

(* found while modelling (fix e): GRAPH ?g { ?s <tag:p> ?o FILTER(BOUND(?g)) } -- ?g is not in
   scope inside the group (18.6: eval(D(G), Graph(var, P)) joins { var -> name } AFTER
   evaluating P); and GRAPH ?g { SELECT ?s { ?s <tag:q> ?g } }, where the inner ?g is another
   variable *)
Definition pe1 : cpattern := Graph (NVar vg_) (cFilter (CBound vg_) spo).
Definition pe2 : cpattern :=
  Graph (NVar vg_) (Project (Bgp [(pv vs_, PConst tq, pv vg_)]) [vs_]).
Example graph_var_scope_refuted :
  run_query0 CL D1 (QSelect None pe1)
    = ARows [vg_; vs_; vo_] [[Some g1; Some ta; Some tb]; [Some g2; Some ta; Some tb]]
  /\ spec CL D1 pe1 None = []
  /\ run_query0 CL D1 (QSelect None pe2) = ARows [vs_] []
  /\ spec CL D1 pe2 None = [[(vg_, g2); (vs_, ta)]].
Proof. vm_compute. repeat split. Qed.
Example graph_var_scope_fixed :
  run_query CL D1 (QSelect None pe1) = ARows [vs_; vo_; vg_] []
  /\ run_query CL D1 (QSelect None pe2) = ARows [vs_; vg_] [[Some ta; Some g2]].
Proof. vm_compute. split; reflexivity. Qed.

(* non-vacuity: a query with a repeated variable, a blank node placeholder, UNION, GRAPH ?g,
   FILTER with a type error, BIND and DISTINCT: engine = specification, and not empty *)
Definition p_nv : cpattern :=
  Distinct (Project
    (Union (cExtend (cFilter (CLess (CVar vo_) (CConst tc))
                           (Bgp [(pv vs_, PConst tp, PAtom (AB [120])); (PAtom (AB [120]), PConst tp, pv vo_)]))
                   vh_ (CConst ta))
           (Graph (NVar vg_) (Bgp [(pv vs_, pv vo_, pv vo_)] )))
    [vs_; vg_; vh_]).
Example nonvacuous :
  slice_free CL p_nv = true /\ supported CL p_nv = true /\
  run_query CL D1 (QSelect None (Union spo (Graph (NVar vg_) spo)))
    = ARows [vs_; vo_; vg_] [[Some ta; Some tb; None]; [Some tb; Some tc; None];
                             [Some ta; Some tb; Some g1]; [Some ta; Some tb; Some g2]]
  /\ spec CL D1 (Union spo (Graph (NVar vg_) spo)) None
    = [[(vo_, tb); (vs_, ta)]; [(vo_, tc); (vs_, tb)];
       [(vg_, g1); (vo_, tb); (vs_, ta)]; [(vg_, g2); (vo_, tb); (vs_, ta)]].
Proof. vm_compute. repeat split. Qed.
Example sorter_id_perm : forall c l, Permutation (sorter CL c l) l.
Proof. intros. apply Permutation_refl. Qed.

Print Assumptions bgp_rec_is_spec.
Print Assumptions select_correct.
Print Assumptions select_query_correct.
Print Assumptions ask_query_correct.
Print Assumptions select_answers.
Print Assumptions answers_spec.
Print Assumptions spec_answers.
Print Assumptions select_query_answers.
Print Assumptions ask_query_answers.
Print Assumptions slice_operator.
Print Assumptions slice_top_correct.
Print Assumptions unsupported_is_error.
Print Assumptions error_is_explicit.
Print Assumptions supported_succeeds.
Print Assumptions other_forms_not_implemented.
Print Assumptions graph_matcher_at_most_one.
Print Assumptions populate_no_panic.
Print Assumptions neg_exact.
Print Assumptions neg_total.
Print Assumptions abs_exact.
Print Assumptions add_exact.
Print Assumptions sub_exact.
Print Assumptions mul_exact.
Print Assumptions div_int.
Print Assumptions cmp_int.
Print Assumptions neg0_agrees.
Print Assumptions neg0_refuted.
Print Assumptions abs0_min_refuted.
Print Assumptions abs0_big_refuted.
Print Assumptions graph_empty_refuted.
Print Assumptions project_scope_refuted.
Print Assumptions graph_var_scope_refuted.
Print Assumptions nonvacuous.
