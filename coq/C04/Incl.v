(* C04/Incl.v -- the regenerated regular expressions of turtle/src/serializer/_pretty.rs
   (gen/RegexTurtle.v) stay inside the productions of the Turtle grammar (Grammar.v), and the three
   numeric productions are separated by the coarse shapes NO_DOT_E / HAS_DOT_NO_E / HAS_E.
   Each inclusion between atom-level terms is decided by RelationAlgebra's `ka` (a reflexive,
   Coq-verified decision procedure for Kleene algebra) for ALL Kleene algebras; it is then
   instantiated in the model of languages over code points and transported to the matcher.
   When an inclusion does not hold, `ka` fails with "not a KA theorem:" followed by a distinguishing
   word over the atoms `f k`; lib/regex_turtle2coq.py turns it into a concrete string
   (e.g. "55" for the pre-fix DECIMAL). *)
From RelationAlgebra Require Import lattice monoid kleene kat_tac lang.
From Coq Require Import NArith List.
Import ListNotations.
From Sophia.C04 Require Import Regex Grammar Eval Lang.

Section s.
  Context `{L : monoid.laws} `{Hl : BKA ≪ l} (n : ob X) (f : N -> X n n).
  Lemma integer_ka : eval n f (abstract integer_re) ≦ eval n f (abstract INTEGER).
  Proof. apply leq_iff_cup. vm_compute. ka. Qed.
  Lemma decimal_ka : eval n f (abstract decimal_re) ≦ eval n f (abstract DECIMAL).
  Proof. apply leq_iff_cup. vm_compute. ka. Qed.
  Lemma double_ka : eval n f (abstract double_re) ≦ eval n f (abstract DOUBLE).
  Proof. apply leq_iff_cup. vm_compute. ka. Qed.
  Lemma boolean_ka : eval n f (abstract boolean_re) ≦ eval n f (abstract BOOLEAN).
  Proof. apply leq_iff_cup. vm_compute. ka. Qed.
  Lemma pn_local_ka : eval n f (abstract pn_local_re) ≦ eval n f (abstract PN_LOCAL).
  Proof. apply leq_iff_cup. vm_compute. ka. Qed.
  (* a local part accepted by the source either contains a backslash or is in the escape-free production *)
  Lemma pn_local_noesc_ka :
    eval n f (abstract pn_local_re) ≦ eval n f (abstract (Alt PN_LOCAL_noesc HAS_BSLASH)).
  Proof. apply leq_iff_cup. vm_compute. ka. Qed.
  (* the hand-written productions have the three separating shapes *)
  Lemma INTEGER_shape_ka : eval n f (abstract INTEGER) ≦ eval n f (abstract NO_DOT_E).
  Proof. apply leq_iff_cup. vm_compute. ka. Qed.
  Lemma DECIMAL_shape_ka : eval n f (abstract DECIMAL) ≦ eval n f (abstract HAS_DOT_NO_E).
  Proof. apply leq_iff_cup. vm_compute. ka. Qed.
  Lemma DOUBLE_shape_ka : eval n f (abstract DOUBLE) ≦ eval n f (abstract HAS_E).
  Proof. apply leq_iff_cup. vm_compute. ka. Qed.
End s.

Ltac by_ka lem :=
  apply ka_incl_matchb; [vm_compute; reflexivity | vm_compute; reflexivity | let f := fresh "f" in intro f; exact (lem _ _ (lang_laws N) _ lang_tt f)].

Theorem integer_re_incl : forall w, matchb integer_re w = true -> matchb INTEGER w = true.
Proof. by_ka @integer_ka. Qed.
Theorem decimal_re_incl : forall w, matchb decimal_re w = true -> matchb DECIMAL w = true.
Proof. by_ka @decimal_ka. Qed.
Theorem double_re_incl : forall w, matchb double_re w = true -> matchb DOUBLE w = true.
Proof. by_ka @double_ka. Qed.
Theorem boolean_re_incl : forall w, matchb boolean_re w = true -> matchb BOOLEAN w = true.
Proof. by_ka @boolean_ka. Qed.
Theorem pn_local_re_incl : forall w, matchb pn_local_re w = true -> matchb PN_LOCAL w = true.
Proof. by_ka @pn_local_ka. Qed.
Theorem pn_local_re_noesc : forall w, matchb pn_local_re w = true ->
  matchb (Alt PN_LOCAL_noesc HAS_BSLASH) w = true.
Proof. by_ka @pn_local_noesc_ka. Qed.
Theorem INTEGER_shape : forall w, matchb INTEGER w = true -> matchb NO_DOT_E w = true.
Proof. by_ka @INTEGER_shape_ka. Qed.
Theorem DECIMAL_shape : forall w, matchb DECIMAL w = true -> matchb HAS_DOT_NO_E w = true.
Proof. by_ka @DECIMAL_shape_ka. Qed.
Theorem DOUBLE_shape : forall w, matchb DOUBLE w = true -> matchb HAS_E w = true.
Proof. by_ka @DOUBLE_shape_ka. Qed.

(* ---------- what the shapes say about the letters of a word ---------- *)
Definition is_dot (c : N) : bool := N.eqb c c_dot.
Definition is_e (c : N) : bool := orb (N.eqb c c_e) (N.eqb c c_E).

Lemma inr_not_dot_e x : inr x cls_not_dot_e = true ->
  is_dot x = false /\ is_e x = false.
Proof.
  unfold cls_not_dot_e, inr, existsb, in_range, is_dot, is_e, c_dot, c_e, c_E, fst, snd. intro H.
  repeat (apply Bool.orb_true_iff in H; destruct H as [H|H]); try discriminate;
    apply Bool.andb_true_iff in H; destruct H as [H1 H2]; apply N.leb_le in H1, H2;
    (split; [apply N.eqb_neq | apply Bool.orb_false_iff; split; apply N.eqb_neq]); Lia.lia.
Qed.

Lemma inr_not_e x : inr x cls_not_e = true -> is_e x = false.
Proof.
  unfold cls_not_e, inr, existsb, in_range, is_e, c_e, c_E, fst, snd. intro H.
  repeat (apply Bool.orb_true_iff in H; destruct H as [H|H]); try discriminate;
    apply Bool.andb_true_iff in H; destruct H as [H1 H2]; apply N.leb_le in H1, H2;
    apply Bool.orb_false_iff; split; apply N.eqb_neq; Lia.lia.
Qed.

Lemma existsb_app_l {A} (p : A -> bool) u v : existsb p (u ++ v) = orb (existsb p u) (existsb p v).
Proof. apply List.existsb_app. Qed.

Theorem NO_DOT_E_spec w : matchb NO_DOT_E w = true -> existsb is_dot w = false /\ existsb is_e w = false.
Proof.
  intro M. apply matchb_spec in M. apply lang_Star_Lf in M.
  induction M as [|x w Hx _ IH]; [split; reflexivity|].
  destruct (inr_not_dot_e x Hx) as [A B]. destruct IH as [C D]. simpl. rewrite A, B, C, D. split; reflexivity.
Qed.

Lemma Forall_not_e w : Forall (fun x => inr x cls_not_e = true) w ->
  existsb is_e w = false.
Proof.
  induction 1 as [|x w Hx _ IH]; [reflexivity|]. simpl. rewrite (inr_not_e x Hx), IH. reflexivity.
Qed.

Theorem HAS_DOT_NO_E_spec w : matchb HAS_DOT_NO_E w = true -> existsb is_dot w = true /\ existsb is_e w = false.
Proof.
  intro M. apply matchb_spec in M. unfold HAS_DOT_NO_E, cats in M.
  apply lang_Cat in M. destruct M as [u [v [-> [Hu M]]]].
  apply lang_Cat in M. destruct M as [d [t [-> [Hd Ht]]]].
  apply lang_Lf in Hd. destruct Hd as [x [-> Hx]].
  apply lang_Star_Lf in Hu, Ht. apply Forall_not_e in Hu, Ht.
  assert (Dx : is_dot x = true).
  { unfold t_dot, chr in Hx. unfold inr, existsb, in_range, fst, snd in Hx.
    rewrite Bool.orb_false_r in Hx. apply Bool.andb_true_iff in Hx. destruct Hx as [H1 H2].
    apply N.leb_le in H1, H2. unfold is_dot. apply N.eqb_eq. Lia.lia. }
  assert (Ex : is_e x = false).
  { unfold is_dot in Dx. apply N.eqb_eq in Dx. subst x. reflexivity. }
  rewrite !existsb_app_l. simpl. rewrite Dx, Ex, Hu, Ht. rewrite Bool.orb_true_r. split; reflexivity.
Qed.

Theorem HAS_E_spec w : matchb HAS_E w = true -> existsb is_e w = true.
Proof.
  intro M. apply matchb_spec in M. unfold HAS_E, cats in M.
  apply lang_Cat in M. destruct M as [u [v [-> [_ M]]]].
  apply lang_Cat in M. destruct M as [d [t [-> [Hd _]]]].
  apply lang_Lf in Hd. destruct Hd as [x [-> Hx]].
  assert (Ex : is_e x = true).
  { unfold inr, existsb, in_range, fst, snd, c_E, c_e in Hx. unfold is_e, c_e, c_E.
    rewrite Bool.orb_false_r in Hx. apply Bool.orb_true_iff in Hx.
    apply Bool.orb_true_iff. destruct Hx as [H|H]; apply Bool.andb_true_iff in H; destruct H as [H1 H2];
      apply N.leb_le in H1, H2; [right|left]; apply N.eqb_eq; Lia.lia. }
  rewrite !existsb_app_l. simpl. rewrite Ex. rewrite Bool.orb_true_r. reflexivity.
Qed.

Theorem HAS_BSLASH_spec w : matchb HAS_BSLASH w = true -> existsb (N.eqb c_bslash) w = true.
Proof.
  intro M. apply matchb_spec in M. unfold HAS_BSLASH, cats in M.
  apply lang_Cat in M. destruct M as [u [v [-> [_ M]]]].
  apply lang_Cat in M. destruct M as [d [t [-> [Hd _]]]].
  apply lang_Lf in Hd. destruct Hd as [x [-> Hx]].
  assert (Ex : N.eqb c_bslash x = true).
  { unfold chr, inr, existsb, in_range, fst, snd in Hx.
    rewrite Bool.orb_false_r in Hx. apply Bool.andb_true_iff in Hx. destruct Hx as [H1 H2].
    apply N.leb_le in H1, H2. apply N.eqb_eq. Lia.lia. }
  rewrite !existsb_app_l. cbn [existsb]. rewrite Ex. rewrite Bool.orb_true_r. reflexivity.
Qed.

(* ---------- the three numeric productions of the Turtle grammar are pairwise disjoint ---------- *)
Theorem numeric_disjoint w :
  (matchb INTEGER w = true -> matchb DECIMAL w = false /\ matchb DOUBLE w = false) /\
  (matchb DECIMAL w = true -> matchb INTEGER w = false /\ matchb DOUBLE w = false) /\
  (matchb DOUBLE w = true -> matchb INTEGER w = false /\ matchb DECIMAL w = false).
Proof.
  assert (I := fun H => NO_DOT_E_spec w (INTEGER_shape w H)).
  assert (D := fun H => HAS_DOT_NO_E_spec w (DECIMAL_shape w H)).
  assert (E := fun H => HAS_E_spec w (DOUBLE_shape w H)).
  destruct (matchb INTEGER w) eqn:Mi; destruct (matchb DECIMAL w) eqn:Md; destruct (matchb DOUBLE w) eqn:Me;
    repeat split; try reflexivity; try discriminate; exfalso;
    try (specialize (I eq_refl); destruct I as [I1 I2]);
    try (specialize (D eq_refl); destruct D as [D1 D2]);
    try (specialize (E eq_refl)); congruence.
Qed.

(* alternation at the top of a regex is the disjunction of the matchers *)
Theorem pn_local_re_no_unescape w :
  matchb pn_local_re w = true -> existsb (N.eqb c_bslash) w = false -> matchb PN_LOCAL_noesc w = true.
Proof.
  intros M B. apply pn_local_re_noesc in M. rewrite matchb_alt in M.
  apply Bool.orb_true_iff in M. destruct M as [M|M]; [exact M|].
  apply HAS_BSLASH_spec in M. congruence.
Qed.
