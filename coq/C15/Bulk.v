(* C15/Bulk.v -- the PROVIDED bulk methods of api/src/graph.rs and api/src/dataset.rs
   (insert_all, remove_all, remove_matching, retain_matching; TripleSource::add_to_graph and
   QuadSource::add_to_dataset are insert_all) seen from a store that observes every individual
   insert / remove call; the consumers obtained through the adapters of other modules
   (api/src/dataset/adapter.rs GraphAsDataset, api/src/graph/adapter.rs DatasetGraph, the `&mut T`
   forwarding impls of _foreign_impl.rs); and the end of a serializer run (flush).
   Definitions only. *)
From Sophia.C15 Require Export Model.

(* ---------- items: a statement is the number 1000 * g + n ----------
   g = 0 is the default graph, g > 0 a named graph; n (< 1000) stands for the triple. *)
Definition gname (x : item) : N := x / 1000.
Definition tpart (x : item) : N := x mod 1000.
Definition is_named (x : item) : bool := negb (gname x =? 0).

(* ---------- a store that journals the calls it receives ---------- *)
Inductive call := CInsert (x : item) | CRemove (x : item).
Definition call_eqb (a b : call) : bool :=
  match a, b with
  | CInsert x, CInsert y | CRemove x, CRemove y => N.eqb x y
  | _, _ => false
  end.
Definition is_ins (c : call) : bool := match c with CInsert _ => true | CRemove _ => false end.
Definition n_ins (j : list call) : nat := length (filter is_ins j).
Definition n_rem (j : list call) : nat := length (filter (fun c => negb (is_ins c)) j).

(* p_set: insert refuses an item that is present (returns false);
   p_rm_all: remove takes every occurrence out (otherwise the first one only);
   p_fail_ins / p_fail_rem = (k, e): the (k+1)-th insert / remove call fails with e (it is
     journaled and changes nothing);
   p_bad = (k, e): the store fails with e while it is listed, at position k of its content. *)
Record policy := mkpol {
  p_set : bool; p_rm_all : bool;
  p_fail_ins : option (nat * err); p_fail_rem : option (nat * err); p_bad : option (nat * err) }.
Record jst := mkjst { content : list item; journal : list call; changed : nat }.

Fixpoint remove_first (x : item) (l : list item) : list item :=
  match l with
  | [] => []
  | y :: r => if N.eqb x y then r else y :: remove_first x r
  end.

Definition j_insert (pol : policy) : sink jst := fun x st =>
  let jr := journal st ++ [CInsert x] in
  let fails := match p_fail_ins pol with Some (k, e) => if Nat.eqb (n_ins (journal st)) k then Some e else None | None => None end in
  match fails with
  | Some e => (mkjst (content st) jr (changed st), Some e)
  | None =>
      if p_set pol && existsb (N.eqb x) (content st) then (mkjst (content st) jr (changed st), None)
      else (mkjst (content st ++ [x]) jr (S (changed st)), None)
  end.
Definition j_remove (pol : policy) : sink jst := fun x st =>
  let jr := journal st ++ [CRemove x] in
  let fails := match p_fail_rem pol with Some (k, e) => if Nat.eqb (n_rem (journal st)) k then Some e else None | None => None end in
  match fails with
  | Some e => (mkjst (content st) jr (changed st), Some e)
  | None =>
      if existsb (N.eqb x) (content st)
      then (mkjst (if p_rm_all pol then filter (fun y => negb (N.eqb x y)) (content st) else remove_first x (content st)) jr (S (changed st)), None)
      else (mkjst (content st) jr (changed st), None)
  end.

(* ---------- consumers reached through adapters (outermost wrapper first) ----------
   WRef:       impl MutableGraph / MutableDataset for &mut T: every method forwards;
   WAsDataset: GraphAsDataset<G> (Graph::as_dataset_mut / into_dataset / GraphAsDataset::new):
               insert(s,p,o,g) = if g.is_none() { inner.insert(s,p,o) } else { Err(OnlyDefaultGraph) }
               remove(s,p,o,g) = if g.is_none() { inner.remove(s,p,o) } else { Ok(false) };
               insert_all / remove_all are the provided ones;
   WGraphMut g: DatasetGraph { d, g } (Dataset::graph_mut, DatasetGraph::new):
               insert(s,p,o) = d.insert(s,p,o,g), remove(s,p,o) = d.remove(s,p,o,g). *)
Inductive wrapper := WRef | WAsDataset | WGraphMut (g : N).
Definition E_ONLY_DEFAULT : err := 9000.
Section Wrapped.
Variable St : Type.
Fixpoint w_insert (ws : list wrapper) (base : sink St) : sink St :=
  match ws with
  | [] => base
  | WRef :: r => w_insert r base
  | WAsDataset :: r => fun x st => if is_named x then (st, Some E_ONLY_DEFAULT) else w_insert r base (tpart x) st
  | WGraphMut g :: r => fun x st => w_insert r base (1000 * g + tpart x) st
  end.
Fixpoint w_remove (ws : list wrapper) (base : sink St) : sink St :=
  match ws with
  | [] => base
  | WRef :: r => w_remove r base
  | WAsDataset :: r => fun x st => if is_named x then (st, None) else w_remove r base (tpart x) st
  | WGraphMut g :: r => fun x st => w_remove r base (1000 * g + tpart x) st
  end.
End Wrapped.
(* what the wrappers show of the records of the base store (quads() / triples() and the
   provided *_matching of Graph / Dataset, which filter that enumeration and keep its errors) *)
Definition on_ok (p : item -> bool) (r : item + err) : bool := match r with inl x => p x | inr _ => true end.
Definition map_ok (f : item -> item) (r : item + err) : item + err := match r with inl x => inl (f x) | inr e => inr e end.
Fixpoint w_view (ws : list wrapper) (recs : list (item + err)) : list (item + err) :=
  match ws with
  | [] => recs
  | WRef :: r => w_view r recs
  | WAsDataset :: r => w_view r recs
  | WGraphMut g :: r => map (map_ok tpart) (filter (on_ok (fun x => gname x =? g)) (w_view r recs))
  end.

(* ---------- insert_all / remove_all: src.try_for_each(|t| { if self.insert(t)? { c += 1 } Ok(()) }).and(Ok(c)) ---------- *)
Definition bulk_stream (ins : bool) (pol : policy) (ws : list wrapper) (src : source) (chain : list adapter) (st : jst)
  : source * jst * outcome :=
  try_for_each jst src chain (if ins then w_insert jst ws (j_insert pol) else w_remove jst ws (j_remove pol)) st.

(* ---------- remove_matching / retain_matching ----------
   let to_remove: Result<Vec<_>, _> = self.triples_matching(ms, mp, mo).map_ok(..).collect();
   self.remove_all(to_remove?.into_iter().into_source()).map_err(|err| err.unwrap_sink_error()) *)
Definition enumerate (st : jst) (bad : option (nat * err)) : list (item + err) :=
  match bad with
  | Some (k, e) => if Nat.leb k (length (content st))
                   then map inl (firstn k (content st)) ++ inr e :: map inl (skipn k (content st))
                   else map inl (content st)
  | None => map inl (content st)
  end.
(* Result<Vec<T>, E> : FromIterator<Result<T, E>> -- the first error, and nothing else *)
Fixpoint collect_ok (l : list (item + err)) : list item + err :=
  match l with
  | [] => inl []
  | inr e :: _ => inr e
  | inl x :: r => match collect_ok r with inl v => inl (x :: v) | inr e => inr e end
  end.
Definition matching (retain : bool) (pol : policy) (ws : list wrapper) (m : item -> bool) (st : jst)
  : jst * out_kind :=
  let sel := fun x => if retain then negb (m x) else m x in
  match collect_ok (filter (on_ok sel) (w_view ws (enumerate st (p_bad pol)))) with
  | inr e => (st, KSource e)
  | inl v => let '(_, st', o) := try_for_each jst (of_results (map inl v)) [] (w_remove jst ws (j_remove pol)) st in
             (st', kind_of_outcome o)
  end.

(* ---------- the end of a serializer run ----------
   NoFlush:    turtle/src/serializer/{nt,nq}.rs, jsonld/src/serializer.rs: the writer is never flushed;
   FlushAtEnd: the Rio formatters' finish() (Turtle, TriG, RDF/XML) and _pretty.rs prettify():
               `rio_format_triples(&mut tf, source)?; tf.finish().map_err(SinkError)?` -- the flush is
               reached only when neither the source nor a write has failed;
   FlushAlways: NOT in the code -- a serializer that flushes also after a source failure and lets the
               flush error win (kept to state what goes wrong with it). *)
Inductive fmode := NoFlush | FlushAtEnd | FlushAlways.
Definition after_stream (mode : fmode) (o : outcome) (ffail : option err) : out_kind * nat :=
  match o with
  | Done => match mode with
            | NoFlush => (KDone, O)
            | _ => (match ffail with Some e => KSink e | None => KDone end, 1%nat)
            end
  | SourceError e => match mode with
                     | FlushAlways => (match ffail with Some e' => KSink e' | None => KSource e end, 1%nat)
                     | _ => (KSource e, O)
                     end
  | SinkError e => (KSink e, O)
  | More => (KMore, O)
  end.
(* statement level (one write_all sequence per statement; the writer is the recording consumer
   failing on its (j+1)-th statement) *)
Definition serialize (mode : fmode) (src : source) (chain : list adapter) (wfault : option (nat * err)) (ffail : option err)
  : list item * out_kind * nat :=
  let '(_, tr, o) := try_for_each (list item) src chain (rec_sink wfault) [] in
  let '(k, n) := after_stream mode o ffail in (tr, k, n).
(* document level: all that matters is which failure comes first *)
Definition ser_outcome (mode : fmode) (src_err wfail ffail : option err) : out_kind * nat :=
  after_stream mode (match wfail with Some e => SinkError e | None => match src_err with Some e => SourceError e | None => Done end end) ffail.

(* ---------- harness-facing ---------- *)
Inductive bdesc :=
| BFilterDefault | BFilterNamed | BFilterEven | BFilterLt (k : N) | BFilterNone
| BMapDropGraph | BMapSetGraph (g : N) | BMapSucc
| BFmNamedToDefault | BFmLtSucc (k : N).
Definition badapter_of (d : bdesc) : adapter :=
  match d with
  | BFilterDefault => AFilter (fun x => negb (is_named x))
  | BFilterNamed => AFilter is_named
  | BFilterEven => AFilter (fun x => N.even (tpart x))
  | BFilterLt k => AFilter (fun x => tpart x <? k)
  | BFilterNone => AFilter (fun _ => false)
  | BMapDropGraph => AMap tpart
  | BMapSetGraph g => AMap (fun x => 1000 * g + tpart x)
  | BMapSucc => AMap (fun x => x + 1)
  | BFmNamedToDefault => AFilterMap (fun x => if is_named x then Some (tpart x) else None)
  | BFmLtSucc k => AFilterMap (fun x => if tpart x <? k then Some (x + 1) else None)
  end.
Inductive sdesc := SAny | SEq (k : N) | SNever.
Inductive odesc := OAny | OEven | OLt (k : N) | OEq (k : N) | ONotEq (k : N) | ONone.
Inductive gdesc := GAny | GDefault | GEq (g : N) | GNamed.
Inductive mdesc := MD (s : sdesc) (o : odesc) (g : gdesc).
Definition matcher_of (m : mdesc) : item -> bool :=
  let 'MD s o g := m in fun x =>
  let n := tpart x in
  match s with SAny => true | SEq k => n mod 3 =? k | SNever => false end
  && match o with OAny => true | OEven => N.even n | OLt k => n <? k | OEq k => n =? k | ONotEq k => negb (n =? k) | ONone => false end
  && match g with GAny => true | GDefault => gname x =? 0 | GEq k => gname x =? k | GNamed => negb (gname x =? 0) end.

Definition run_bulk_ok (ins : bool) (pol : policy) (ws : list wrapper) (init : list item) (src : source) (chain : list bdesc)
  (jr : list call) (cont : list item) (cnt : nat) (o : out_kind) (pulled : N) : bool :=
  let '(rest, st, k) := bulk_stream ins pol ws src (map badapter_of chain) (mkjst init [] O) in
  list_eqb call_eqb (journal st) jr && str_eqb (content st) cont && Nat.eqb (changed st) cnt
  && out_kind_eqb (kind_of_outcome k) o && N.eqb (N.of_nat (length src - length rest)) pulled.
Definition run_matching_ok (retain : bool) (pol : policy) (ws : list wrapper) (init : list item) (m : mdesc)
  (jr : list call) (cont : list item) (cnt : nat) (o : out_kind) : bool :=
  let '(st, k) := matching retain pol ws (matcher_of m) (mkjst init [] O) in
  list_eqb call_eqb (journal st) jr && str_eqb (content st) cont && Nat.eqb (changed st) cnt && out_kind_eqb k o.
(* the lines completely written: the statement during which the writer failed is not one of them *)
Definition run_flush_lines_ok (mode : fmode) (src : source) (chain : list adesc) (wfault : option (nat * err)) (ffail : option err)
  (lines : list item) (o : out_kind) (flushes : nat) : bool :=
  let '(tr, k, n) := serialize mode src (map adapter_of chain) wfault ffail in
  let complete := match wfault with
                  | Some (j, _) => if Nat.ltb j (length tr) then firstn j tr else tr
                  | None => tr
                  end in
  str_eqb complete lines && out_kind_eqb k o && Nat.eqb n flushes.
Definition run_flush_ok (mode : fmode) (src_err wfail ffail : option err) (o : out_kind) (flushes : nat) : bool :=
  let '(k, n) := ser_outcome mode src_err wfail ffail in out_kind_eqb k o && Nat.eqb n flushes.
