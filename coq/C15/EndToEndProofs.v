(* C15/EndToEndProofs.v -- the two concrete ends composed: document -> Rio line parser -> adapter
   chain -> {recording consumer with an arbitrary failure predicate, insert_all, N-Triples /
   N-Quads serializer over a failing writer}. *)
From Sophia.Common Require Import Prelude Term.
From Sophia.C03 Require Import Model.
From Sophia.C15 Require Import Generic GenericProofs ParserSource ParserProofs
  SerializerSink SerializerProofs EndToEnd.

(* ---------- any item type: recording consumer, insert_all ---------- *)
Section Items.
Context {A : Type}.
Variable parse_line : list N -> option (option A).
Hypothesis parse_blank : parse_line [] = Some None.
Notation stmts := (stmts parse_line).
Notation lines_ok := (lines_ok parse_line).

Section Rec.
Context {EK : Type}.
Variable fail : list A -> A -> option EK.

(* (a) the first syntactically wrong line is line number length pre + 1 *)
Theorem doc_rec_source_fault chain pre t bad post doc st :
  doc = unlines pre ++ t ->
  forallb no_lf pre = true -> lines_ok pre = true ->
  t <> [] -> cut_line t = (bad, post) -> parse_line bad = None ->
  quiet fail st (gfm chain (stmts pre)) ->
  rio_run parse_line doc chain (pred_sink fail) st
  = ((post, N.of_nat (length pre) + 2), st ++ gfm chain (stmts pre),
     GSourceError (N.of_nat (length pre) + 1)).
Proof.
  intros. eapply doc_source_fault; eauto. apply pred_sink_quiet. assumption.
Qed.

(* (b) the consumer fails on the image y of the statement of line length pre + 1 *)
Theorem doc_rec_sink_fault chain pre t l post x y e doc st :
  doc = unlines pre ++ t ->
  forallb no_lf pre = true -> lines_ok pre = true ->
  t <> [] -> cut_line t = (l, post) -> parse_line l = Some (Some x) ->
  gthrough chain x = Some y ->
  quiet fail st (gfm chain (stmts pre)) ->
  fail (st ++ gfm chain (stmts pre)) y = Some e ->
  rio_run parse_line doc chain (pred_sink fail) st
  = ((post, N.of_nat (length pre) + 2), st ++ gfm chain (stmts pre) ++ [y], GSinkError e).
Proof.
  intros. rewrite app_assoc. eapply doc_sink_fault; eauto.
  - apply pred_sink_quiet. assumption.
  - apply pred_sink_fails. assumption.
Qed.

(* (c) no fault on either side *)
Theorem doc_rec_no_fault chain ls tail doc st :
  doc = unlines ls ++ tail ->
  forallb no_lf ls = true -> no_lf tail = true -> lines_ok (all_lines ls tail) = true ->
  quiet fail st (gfm chain (stmts (all_lines ls tail))) ->
  rio_run parse_line doc chain (pred_sink fail) st
  = (([], N.of_nat (length (all_lines ls tail)) + 1),
     st ++ gfm chain (stmts (all_lines ls tail)), GDone).
Proof.
  intros. eapply doc_no_fault; eauto. apply pred_sink_quiet. assumption.
Qed.
End Rec.

(* (c) insert_all: the count returned is the number of NEW elements *)
Theorem doc_insert_count (eqb : A -> A -> bool) (EK : Type) chain ls tail doc s c :
  (forall x y, eqb x y = true <-> x = y) ->
  doc = unlines ls ++ tail ->
  forallb no_lf ls = true -> no_lf tail = true -> lines_ok (all_lines ls tail) = true ->
  NoDup s ->
  exists s' c',
    rio_run parse_line doc chain (ginsert_sink (EK := EK) eqb) (s, c)
    = (([], N.of_nat (length (all_lines ls tail)) + 1), (s', c'), GDone)
    /\ NoDup s' /\ (c' = c + (length s' - length s))%nat
    /\ (forall x, In x s' <-> In x s \/ In x (gfm chain (stmts (all_lines ls tail)))).
Proof.
  intros Heq Hd Hn Ht Hok Hs.
  destruct (g_insert_count (EK := EK) eqb Heq (gfm chain (stmts (all_lines ls tail))) s c Hs)
    as (s' & c' & H1 & H2 & H3 & H4 & H5).
  exists s', c'. repeat split; auto; try (apply H5).
  eapply doc_no_fault; eauto.
Qed.
End Items.

(* ---------- statements into a serializer ---------- *)
Lemma nq_write_app a b : nq_write (a ++ b) = nq_write a ++ nq_write b.
Proof. unfold nq_write. apply flat_map_app. Qed.
Lemma nq_write_one y : nq_write [y] = nq_write_quad y.
Proof. unfold nq_write. simpl. apply app_nil_r. Qed.

Section Ser.
Variable parse_line : list N -> option (option quad).
Hypothesis parse_blank : parse_line [] = Some None.
Notation stmts := (stmts parse_line).
Notation lines_ok := (lines_ok parse_line).

(* ANY writer.  It fails while statement y (the image of line length pre + 1) is being written:
   SinkError with the writer's own error, the bytes accepted are the statements before y and a
   proper prefix of y, no call of write after the failed one, the reader is just behind that line *)
Theorem e2e_writer_fault pol chain pre t l post x y e doc w1 w2 :
  doc = unlines pre ++ t ->
  forallb no_lf pre = true -> lines_ok pre = true ->
  t <> [] -> cut_line t = (l, post) -> parse_line l = Some (Some x) ->
  gthrough chain x = Some y ->
  gfeed (ser_sink pol) (gfm chain (stmts pre)) w0 = (w1, None) ->
  ser_sink pol y w1 = (w2, Some e) ->
  rio_run parse_line doc chain (ser_sink pol) w0
  = ((post, N.of_nat (length pre) + 2), w2, GSinkError e)
  /\ (exists k, (k < length (nq_write_quad y))%nat
        /\ w_acc w2 = nq_write (gfm chain (stmts pre)) ++ firstn k (nq_write_quad y))
  /\ w_after w2 = O.
Proof.
  intros Hd Hn Hok Ht Hc Hl Hx Hf Hy. split; [eapply doc_sink_fault; eauto|].
  pose proof (ser_prefix pol (gfm chain (stmts pre)) w0) as P. rewrite Hf in P.
  destruct P as [P1 P2]. destruct (P2 eq_refl) as [P3 P4]. specialize (P4 eq_refl).
  pose proof (ser_statement pol y w1) as S. rewrite Hy in S.
  destruct S as (k & S1 & S2 & S3 & S4). split.
  - exists k. split; [apply S3; congruence|]. rewrite S1, P1. reflexivity.
  - destruct (S4 P4) as [S5 _]. rewrite S5, P3. reflexivity.
Qed.

(* any writer, no failure anywhere: everything was written *)
Theorem e2e_writer_no_fault pol chain ls tail doc w' :
  doc = unlines ls ++ tail ->
  forallb no_lf ls = true -> no_lf tail = true -> lines_ok (all_lines ls tail) = true ->
  gfeed (ser_sink pol) (gfm chain (stmts (all_lines ls tail))) w0 = (w', None) ->
  rio_run parse_line doc chain (ser_sink pol) w0
  = (([], N.of_nat (length (all_lines ls tail)) + 1), w', GDone)
  /\ w_acc w' = nq_write (gfm chain (stmts (all_lines ls tail))) /\ w_after w' = O.
Proof.
  intros Hd Hn Ht Hok Hf. split; [eapply doc_no_fault; eauto|].
  pose proof (ser_prefix pol (gfm chain (stmts (all_lines ls tail))) w0) as P. rewrite Hf in P.
  destruct P as [P1 P2]. destruct (P2 eq_refl) as [P3 _]. auto.
Qed.

(* the byte-budget writer *)
Section Budget.
Variables (b cap : nat) (code : N).
Hypothesis cap_pos : (1 <= cap)%nat.
Notation pol := (budget_pol b cap code).

Lemma budget_fits ys :
  (length (nq_write ys) <= b)%nat ->
  exists w1, gfeed (ser_sink pol) ys w0 = (w1, None) /\ w_acc w1 = nq_write ys
             /\ w_after w1 = O /\ w_failed w1 = false.
Proof.
  intros Hb. pose proof (ser_budget b cap code cap_pos ys w0 (Nat.le_0_l _)) as B.
  pose proof (ser_prefix pol ys w0) as P.
  destruct (gfeed (ser_sink pol) ys w0) as [w1 oe]. destruct B as [B1 B2].
  simpl in B1, B2. unfold over in B2. destruct (Nat.ltb_spec b (length (nq_write ys))); [lia|].
  subst oe. exists w1. destruct P as [P1 P2]. destruct (P2 eq_refl) as [P3 P4].
  repeat split; auto.
Qed.

(* (b) the budget ends inside statement y *)
Theorem e2e_budget_sink_fault chain pre t l post x y doc :
  doc = unlines pre ++ t ->
  forallb no_lf pre = true -> lines_ok pre = true ->
  t <> [] -> cut_line t = (l, post) -> parse_line l = Some (Some x) ->
  gthrough chain x = Some y ->
  (length (nq_write (gfm chain (stmts pre))) <= b)%nat ->
  (b < length (nq_write (gfm chain (stmts pre))) + length (nq_write_quad y))%nat ->
  exists w2,
    rio_run parse_line doc chain (ser_sink pol) w0
    = ((post, N.of_nat (length pre) + 2), w2, GSinkError (EDev code))
    /\ w_acc w2 = firstn b (nq_write (gfm chain (stmts pre) ++ [y]))
    /\ w_after w2 = O.
Proof.
  intros Hd Hn Hok Ht Hc Hl Hx Hb1 Hb2.
  destruct (budget_fits (gfm chain (stmts pre)) Hb1) as (w1 & F1 & F2 & F3 & F4).
  assert (Hw1 : (length (w_acc w1) <= b)%nat) by (rewrite F2; exact Hb1).
  pose proof (ser_budget b cap code cap_pos [y] w1 Hw1) as B. simpl in B.
  destruct (ser_sink pol y w1) as [w2 oe] eqn:Ey.
  assert (Hoe : oe = Some (EDev code) /\ w_acc w2 = firstn b (nq_write (gfm chain (stmts pre) ++ [y]))).
  { rewrite nq_write_app, nq_write_one, <- F2.
    destruct oe as [e|]; destruct B as [B1 B2]; rewrite app_nil_r in *; unfold over in B2;
      rewrite F2 in B2; destruct (Nat.ltb_spec b (length (nq_write (gfm chain (stmts pre))) + length (nq_write_quad y)));
      try lia; try discriminate; split; congruence. }
  destruct Hoe as [-> Hacc]. exists w2.
  destruct (e2e_writer_fault pol chain pre t l post x y (EDev code) doc w1 w2) as (E1 & E2 & E3); auto.
Qed.

(* (a) a syntax error on line length pre + 1, the statements before it fit into the budget *)
Theorem e2e_budget_source_fault chain pre t bad post doc :
  doc = unlines pre ++ t ->
  forallb no_lf pre = true -> lines_ok pre = true ->
  t <> [] -> cut_line t = (bad, post) -> parse_line bad = None ->
  (length (nq_write (gfm chain (stmts pre))) <= b)%nat ->
  exists w1,
    rio_run parse_line doc chain (ser_sink pol) w0
    = ((post, N.of_nat (length pre) + 2), w1, GSourceError (N.of_nat (length pre) + 1))
    /\ w_acc w1 = nq_write (gfm chain (stmts pre)) /\ w_after w1 = O.
Proof.
  intros Hd Hn Hok Ht Hc Hb Hfit.
  destruct (budget_fits (gfm chain (stmts pre)) Hfit) as (w1 & F1 & F2 & F3 & F4).
  exists w1. repeat split; auto. eapply doc_source_fault; eauto.
Qed.

(* (c) everything fits *)
Theorem e2e_budget_no_fault chain ls tail doc :
  doc = unlines ls ++ tail ->
  forallb no_lf ls = true -> no_lf tail = true -> lines_ok (all_lines ls tail) = true ->
  (length (nq_write (gfm chain (stmts (all_lines ls tail)))) <= b)%nat ->
  exists w1,
    rio_run parse_line doc chain (ser_sink pol) w0
    = (([], N.of_nat (length (all_lines ls tail)) + 1), w1, GDone)
    /\ w_acc w1 = nq_write (gfm chain (stmts (all_lines ls tail))) /\ w_after w1 = O.
Proof.
  intros Hd Hn Ht Hok Hfit.
  destruct (budget_fits _ Hfit) as (w1 & F1 & F2 & F3 & F4).
  exists w1. repeat split; auto. eapply doc_no_fault; eauto.
Qed.
End Budget.
End Ser.
