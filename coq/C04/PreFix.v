(* FROZEN COPY generated once by lib/regex_turtle2coq.py --frozen from /repo/turtle/src/serializer/_pretty.rs -- do not edit.
   sha256 of the five regex sources: fa7af5e9c6be6e0b24be7e3259702cfcd26c632c2c2cceb0c6582e731a74e631
   Source revision: sophia_rs 37b88ab (the tree BEFORE build/proposed/C04-a.diff). Kept so that the defects stay
   on record once the regenerated regexes are the repaired ones. *)
From Coq Require Import NArith List.
From Sophia.gen Require Import RegexTurtle.
Import ListNotations.
Open Scope N_scope.
Module PreFix.

(* the distinct character classes of the sources *)
Definition k0 : cclass := [(43, 43); (45, 45)].  (* [2B 2D] *)
Definition k1 : cclass := [(48, 57)].  (* [30-39] *)
Definition k2 : cclass := [(0, 9); (11, 1114111)].  (* [0-9 B-10FFFF] *)
Definition k3 : cclass := [(69, 69); (101, 101)].  (* [45 65] *)
Definition k4 : cclass := [(116, 116)].  (* [74] *)
Definition k5 : cclass := [(114, 114)].  (* [72] *)
Definition k6 : cclass := [(117, 117)].  (* [75] *)
Definition k7 : cclass := [(101, 101)].  (* [65] *)
Definition k8 : cclass := [(102, 102)].  (* [66] *)
Definition k9 : cclass := [(97, 97)].  (* [61] *)
Definition k10 : cclass := [(108, 108)].  (* [6C] *)
Definition k11 : cclass := [(115, 115)].  (* [73] *)
Definition k12 : cclass := [(48, 58); (65, 90); (95, 95); (97, 122); (192, 214); (216, 246); (248, 767); (880, 893); (895, 8191); (8204, 8205); (8304, 8591); (11264, 12271); (12289, 55295); (63744, 64975); (65008, 65533); (65536, 983039)].  (* [30-3A 41-5A 5F 61-7A C0-D6 D8-F6 F8-2FF 370-37D 37F-1FFF 200C-200D 2070-218F 2C00-2FEF 3001-D7FF F900-FDCF FDF0-FFFD 10000-EFFFF] *)
Definition k13 : cclass := [(92, 92)].  (* [5C] *)
Definition k14 : cclass := [(33, 33); (35, 47); (59, 59); (61, 61); (63, 64); (95, 95); (126, 126)].  (* [21 23-2F 3B 3D 3F-40 5F 7E] *)
Definition k15 : cclass := [(37, 37)].  (* [25] *)
Definition k16 : cclass := [(48, 57); (65, 70); (97, 102)].  (* [30-39 41-46 61-66] *)
Definition k17 : cclass := [(45, 46); (48, 58); (65, 90); (95, 95); (97, 122); (183, 183); (192, 214); (216, 246); (248, 893); (895, 8191); (8204, 8205); (8255, 8256); (8304, 8591); (11264, 12271); (12289, 55295); (63744, 64975); (65008, 65533); (65536, 983039)].  (* [2D-2E 30-3A 41-5A 5F 61-7A B7 C0-D6 D8-F6 F8-37D 37F-1FFF 200C-200D 203F-2040 2070-218F 2C00-2FEF 3001-D7FF F900-FDCF FDF0-FFFD 10000-EFFFF] *)
Definition k18 : cclass := [(45, 45); (48, 58); (65, 90); (95, 95); (97, 122); (183, 183); (192, 214); (216, 246); (248, 893); (895, 8191); (8204, 8205); (8255, 8256); (8304, 8591); (11264, 12271); (12289, 55295); (63744, 64975); (65008, 65533); (65536, 983039)].  (* [2D 30-3A 41-5A 5F 61-7A B7 C0-D6 D8-F6 F8-37D 37F-1FFF 200C-200D 203F-2040 2070-218F 2C00-2FEF 3001-D7FF F900-FDCF FDF0-FFFD 10000-EFFFF] *)
Definition all_classes : list cclass := [k0; k1; k2; k3; k4; k5; k6; k7; k8; k9; k10; k11; k12; k13; k14; k15; k16; k17; k18].

(* (c) the regexes, leaves = classes of the source *)
Definition integer_re : rex cclass :=
  (Cat (Alt (Lf k0) Eps) (Cat (Lf k1) (Star (Lf k1)))).
Definition decimal_re : rex cclass :=
  (Cat (Alt (Lf k0) Eps) (Cat (Star (Lf k1)) (Cat (Lf k2) (Cat (Lf k1) (Star (Lf k1)))))).
Definition double_re : rex cclass :=
  (Cat (Alt (Lf k0) Eps) (Cat (Alt (Cat (Cat (Lf k1) (Star (Lf k1))) (Alt (Cat (Lf k2) (Star (Lf k1))) Eps)) (Cat (Lf k2) (Cat (Lf k1) (Star (Lf k1))))) (Cat (Lf k3) (Cat (Alt (Lf k0) Eps) (Cat (Lf k1) (Star (Lf k1))))))).
Definition boolean_re : rex cclass :=
  (Alt (Cat (Lf k4) (Cat (Lf k5) (Cat (Lf k6) (Lf k7)))) (Cat (Lf k8) (Cat (Lf k9) (Cat (Lf k10) (Cat (Lf k11) (Lf k7)))))).
Definition pn_local_re : rex cclass :=
  (Cat (Alt (Lf k12) (Alt (Cat (Lf k13) (Lf k14)) (Cat (Lf k15) (Cat (Lf k16) (Lf k16))))) (Alt (Cat (Star (Alt (Lf k17) (Alt (Cat (Lf k13) (Lf k14)) (Cat (Lf k15) (Cat (Lf k16) (Lf k16)))))) (Alt (Lf k18) (Alt (Cat (Lf k13) (Lf k14)) (Cat (Lf k15) (Cat (Lf k16) (Lf k16)))))) Eps)).

(* (a) the same over atoms *)
Definition a0 : rex N := (Alt (Lf 2) (Lf 3)).
Definition a1 : rex N := (Lf 5).
Definition a2 : rex N := (Alt (Lf 8) (Alt (Lf 2) (Alt (Lf 3) (Alt (Lf 4) (Alt (Lf 5) (Alt (Lf 6) (Alt (Lf 22) (Alt (Lf 21) (Alt (Lf 23) (Alt (Lf 9) (Alt (Lf 7) (Alt (Lf 11) (Alt (Lf 12) (Alt (Lf 13) (Alt (Lf 14) (Alt (Lf 15) (Alt (Lf 16) (Alt (Lf 17) (Alt (Lf 18) (Alt (Lf 19) (Alt (Lf 20) (Alt (Lf 10) (Alt (Lf 24) (Alt (Lf 25) (Alt (Lf 26) (Alt (Lf 27) (Lf 0))))))))))))))))))))))))))).
Definition a3 : rex N := (Alt (Lf 22) (Lf 13)).
Definition a4 : rex N := (Lf 18).
Definition a5 : rex N := (Lf 16).
Definition a6 : rex N := (Lf 19).
Definition a7 : rex N := (Lf 13).
Definition a8 : rex N := (Lf 14).
Definition a9 : rex N := (Lf 11).
Definition a10 : rex N := (Lf 15).
Definition a11 : rex N := (Lf 17).
Definition a12 : rex N := (Alt (Lf 5) (Alt (Lf 6) (Alt (Lf 22) (Alt (Lf 21) (Alt (Lf 23) (Alt (Lf 7) (Alt (Lf 11) (Alt (Lf 12) (Alt (Lf 13) (Alt (Lf 14) (Alt (Lf 15) (Alt (Lf 16) (Alt (Lf 17) (Alt (Lf 18) (Alt (Lf 19) (Alt (Lf 20) (Lf 27))))))))))))))))).
Definition a13 : rex N := (Lf 9).
Definition a14 : rex N := (Alt (Lf 8) (Alt (Lf 2) (Alt (Lf 3) (Alt (Lf 4) (Alt (Lf 7) (Lf 10)))))).
Definition a15 : rex N := (Lf 8).
Definition a16 : rex N := (Alt (Lf 5) (Alt (Lf 22) (Alt (Lf 21) (Alt (Lf 11) (Alt (Lf 12) (Alt (Lf 13) (Lf 14))))))).
Definition a17 : rex N := (Alt (Lf 3) (Alt (Lf 4) (Alt (Lf 5) (Alt (Lf 6) (Alt (Lf 22) (Alt (Lf 21) (Alt (Lf 23) (Alt (Lf 7) (Alt (Lf 11) (Alt (Lf 12) (Alt (Lf 13) (Alt (Lf 14) (Alt (Lf 15) (Alt (Lf 16) (Alt (Lf 17) (Alt (Lf 18) (Alt (Lf 19) (Alt (Lf 20) (Alt (Lf 24) (Alt (Lf 25) (Alt (Lf 26) (Lf 27)))))))))))))))))))))).
Definition a18 : rex N := (Alt (Lf 3) (Alt (Lf 5) (Alt (Lf 6) (Alt (Lf 22) (Alt (Lf 21) (Alt (Lf 23) (Alt (Lf 7) (Alt (Lf 11) (Alt (Lf 12) (Alt (Lf 13) (Alt (Lf 14) (Alt (Lf 15) (Alt (Lf 16) (Alt (Lf 17) (Alt (Lf 18) (Alt (Lf 19) (Alt (Lf 20) (Alt (Lf 24) (Alt (Lf 25) (Alt (Lf 26) (Lf 27))))))))))))))))))))).
Definition integer_re_atoms : rex N :=
  (Cat (Alt a0 Eps) (Cat a1 (Star a1))).
Definition decimal_re_atoms : rex N :=
  (Cat (Alt a0 Eps) (Cat (Star a1) (Cat a2 (Cat a1 (Star a1))))).
Definition double_re_atoms : rex N :=
  (Cat (Alt a0 Eps) (Cat (Alt (Cat (Cat a1 (Star a1)) (Alt (Cat a2 (Star a1)) Eps)) (Cat a2 (Cat a1 (Star a1)))) (Cat a3 (Cat (Alt a0 Eps) (Cat a1 (Star a1)))))).
Definition boolean_re_atoms : rex N :=
  (Alt (Cat a4 (Cat a5 (Cat a6 a7))) (Cat a8 (Cat a9 (Cat a10 (Cat a11 a7))))).
Definition pn_local_re_atoms : rex N :=
  (Cat (Alt a12 (Alt (Cat a13 a14) (Cat a15 (Cat a16 a16)))) (Alt (Cat (Star (Alt a17 (Alt (Cat a13 a14) (Cat a15 (Cat a16 a16))))) (Alt a18 (Alt (Cat a13 a14) (Cat a15 (Cat a16 a16))))) Eps)).
End PreFix.
