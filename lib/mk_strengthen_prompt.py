#!/usr/bin/env python3
"""usage: mk_strengthen_prompt.py <Cxx> <seed-dir>...  -> /tmp/strengthen-<Cxx>.txt"""
import json, os, sys
ROOT = os.path.dirname(os.path.dirname(os.path.abspath(__file__)))
sys.path.insert(0, os.path.join(ROOT, "lib"))
import props
pid = sys.argv[1]
p = [json.loads(l) for l in open(os.path.join(ROOT, "properties.jsonl")) if json.loads(l)["id"] == pid][0]
bins = [r["bin"] for r in props.PROPS[pid]["runs"]]
seeds = "\n".join("  - " + d for d in sys.argv[2:])
t = open(os.path.join(ROOT, "lib", "prompts", "strengthen.txt")).read()
t = (t.replace("@ID@", pid).replace("@TITLE@", p["title"]).replace("@STATEMENT@", p["statement"])
      .replace("@BIN@", bins[0]).replace("@SEEDS@", seeds))
if len(bins) > 1:
    t += "\nNB: this property has several harness binaries: %s; extend whichever fits.\n" % ", ".join(bins)
open("/tmp/strengthen-%s.txt" % pid, "w").write(t)
print("/tmp/strengthen-%s.txt" % pid)
