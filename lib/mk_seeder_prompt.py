#!/usr/bin/env python3
"""usage: mk_seeder_prompt.py <Cxx> <tag>   -> writes /tmp/seedprompt-<tag>.txt (instructions for a seeder sub-agent;
contains ONLY the property text, its anchor files and the names of mechanisms used in earlier rounds)"""
import json, glob, os, sys
ROOT = os.path.dirname(os.path.dirname(os.path.abspath(__file__)))
pid, tag = sys.argv[1], sys.argv[2]
p = [json.loads(l) for l in open(os.path.join(ROOT, "properties.jsonl")) if json.loads(l)["id"] == pid][0]
used = []
for d in sorted(glob.glob(os.path.join(ROOT, "seeded", pid + "-*"))):
    m = json.load(open(os.path.join(d, "meta.json")))
    used.append("  - " + m["summary"][:260].replace("\n", " "))
t = open(os.path.join(ROOT, "lib", "prompts", "seeder.txt")).read()
t = (t.replace("@WT@", "/tmp/wt-" + tag).replace("@ID@", pid).replace("@TITLE@", p.get("title", ""))
      .replace("@STATEMENT@", p["statement"]).replace("@FILES@", ", ".join(p["anchors"]["files"]))
      .replace("@TAG@", tag).replace("@USED@", "\n".join(used) or "  (none)"))
open("/tmp/seedprompt-%s.txt" % tag, "w").write(t)
print("/tmp/seedprompt-%s.txt" % tag)
