(* C06/Regen.v -- constants of the canonicalisation code RE-GENERATED from the source on every run
   (lib/translate.py -> gen/Consts.v) and tied to the hand-written model: the escape table of canonical
   N-Quads literals (c14n/src/_cnq.rs) and the default limits (c14n/src/rdfc10.rs). *)
From Sophia.Common Require Import Prelude.
From Sophia.C05 Require Import Model Entry.
From Sophia.gen Require Consts.

Fixpoint assocN (c : N) (t : list (N * list N)) : option (list N) :=
  match t with
  | [] => None
  | (k, r) :: t' => if N.eqb k c then Some r else assocN c t'
  end.

(* what the source says: the explicit arms, then the generic \u00XX arm for the other C0 controls *)
Definition esc_from_source (c : N) : str :=
  match assocN c Consts.c14n_escape_table with
  | Some r => r
  | None => if Consts.c14n_escape_c0_generic_uXXXX && (c <=? 31)
            then [92;117;48;48; hexU (c / 16); hexU (c mod 16)] else [c]
  end.

Definition below128 : list N := map N.of_nat (seq 0 128).

Lemma assoc_none_above c t : forallb (fun p => fst p <? 128) t = true -> 128 <= c -> assocN c t = None.
Proof.
  induction t as [|[k r] t IH]; simpl; intros H Hc; [reflexivity|].
  apply andb_true_iff in H as [Hk H]. apply N.ltb_lt in Hk. simpl in Hk.
  destruct (N.eqb_spec k c) as [->|_]; [lia | apply IH; assumption].
Qed.

(* the model's escaping IS the table found in the source, for every code point *)
Theorem escape_table_regenerated :
  Consts.c14n_escape_table_found = true -> forall c, esc_char c = esc_from_source c.
Proof.
  intros Hf c. first [ (vm_compute in Hf; discriminate Hf) | idtac ]. clear Hf.
  destruct (N.lt_ge_cases c 128) as [Hlt|Hge].
  - assert (H : forallb (fun c => str_eqb (esc_char c) (esc_from_source c)) below128 = true) by (vm_compute; reflexivity).
    rewrite forallb_forall in H. apply str_eqb_eq. apply H.
    unfold below128. apply in_map_iff. exists (N.to_nat c). split; [apply N2Nat.id|].
    apply in_seq. lia.
  - unfold esc_from_source. rewrite assoc_none_above; [| vm_compute; reflexivity | exact Hge].
    replace (c <=? 31) with false by (symmetry; apply N.leb_gt; lia). rewrite andb_false_r.
    unfold esc_char.
    repeat match goal with |- context [?x =? ?y] => replace (x =? y) with false by (symmetry; apply N.eqb_neq; lia) end.
    replace (c <=? 31) with false by (symmetry; apply N.leb_gt; lia). reflexivity.
Qed.

(* the default limits used by normalize / relabel *)
Theorem default_limits_regenerated :
  Consts.c14n_default_depth_factor_x1000 = default_df1000
  /\ Consts.c14n_default_permutation_limit = default_plimit.
Proof. vm_compute. split; reflexivity. Qed.

Print Assumptions escape_table_regenerated.
Print Assumptions default_limits_regenerated.
