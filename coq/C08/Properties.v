(* C08/Properties.v -- pinned statements of the logical core of property C08: the terms the
   parsing back-ends hand over satisfy the toolkit's own validators.  The validators are
   re-generated from api/src/term/{bnode_id,var_name,language_tag}.rs on every run. *)
From Sophia.Common Require Import Prelude.
From Sophia.C08 Require Import Regex Tokens Lang Incl Examples.
From Sophia.gen Require Import LabelSrc.
From Sophia.Common Require Import Term.
From Sophia.C08 Require Import Utf8 Utf8Proofs.

Check (rio_label_accepted : forall w, matchb rio_bnode_label w = true -> matchb bnode_id_regex w = true).
Check (rio_label_is_bnode_id : forall w, matchb rio_bnode_label w = matchb bnode_id_regex w).
Check (bnode_id_within_w3c : forall w, matchb bnode_id_regex w = true -> matchb w3c_bnode_label w = true).
Check (rio_langtag_accepted : forall w, matchb rio_langtag w = true -> matchb lang_tag_regex w = true).
Check (varname_is_sparql : forall w, matchb sparql_varname w = matchb varname_regex w).
(* the matcher used to state them decides the regular language *)
Check (matchb_spec : forall r w, matchb r w = true <-> langc r w).

(* the byte -> text layer under every entry point ("given any byte sequence"): the strict decoder accepts exactly the
   encodings of scalar-value strings; decoding splits on character boundaries and fails inside a character *)
Check (utf8_dec_utf8 : forall s, scalar_str s = true -> utf8_dec (utf8 s) = Some s).
Check (utf8_dec_sound : forall b s, utf8_dec b = Some s -> utf8 s = b /\ scalar_str s = true).
Check (utf8_valid_iff : forall b, utf8_valid b = true <-> exists s, scalar_str s = true /\ utf8 s = b).
Check (utf8_injective : forall s t, scalar_str s = true -> scalar_str t = true -> utf8 s = utf8 t -> s = t).
Check (utf8_dec_app : forall s r, scalar_str s = true -> utf8_dec (utf8 s ++ r) = option_map (app s) (utf8_dec r)).
Check (utf8_dec_starts_inside : forall x r, cont x = true -> utf8_dec (x :: r) = None).
Check (utf8_dec_after_first_byte : forall c r, scalar c = true -> 128 <= c -> utf8_dec (tl (utf8_1 c) ++ r) = None).
Check (boundary_after_prefix : forall s t, scalar_str s = true -> scalar_str t = true ->
         is_boundary (utf8 s ++ utf8 t) (length (utf8 s)) = true).
(* the JSON-LD parser's bytes entry point (read, String::from_utf8, parse_str) *)
Check (jsonld_bytes_error_iff : forall b, jsonld_parse_bytes b = Utf8Error <-> utf8_valid b = false).
Check (jsonld_bytes_text : forall s, scalar_str s = true -> jsonld_parse_bytes (utf8 s) = Text s).
(* the checker the harness cases use *)
Check (utf8_ok_complete : forall s, scalar_str s = true ->
         utf8_ok (utf8 s) true s None = true /\ utf8_ok (utf8 s) true s (Some false) = true).
Check (utf8_ok_sound : forall b cps j, utf8_ok b true cps j = true -> utf8 cps = b /\ scalar_str cps = true /\ j <> Some true).

Print Assumptions rio_label_accepted.
Print Assumptions rio_label_is_bnode_id.
Print Assumptions bnode_id_within_w3c.
Print Assumptions rio_langtag_accepted.
Print Assumptions varname_is_sparql.
Print Assumptions matchb_spec.
Print Assumptions w3c_label_strictly_larger.
Print Assumptions labels_nonvacuous.
Print Assumptions utf8_dec_utf8.
Print Assumptions utf8_dec_sound.
Print Assumptions utf8_valid_iff.
Print Assumptions utf8_injective.
Print Assumptions utf8_dec_app.
Print Assumptions utf8_dec_starts_inside.
Print Assumptions utf8_dec_after_first_byte.
Print Assumptions boundary_after_prefix.
Print Assumptions jsonld_bytes_error_iff.
Print Assumptions jsonld_bytes_text.
Print Assumptions utf8_ok_complete.
Print Assumptions utf8_ok_sound.
Print Assumptions lowercase_changes_length.
Print Assumptions shifted_offset_not_boundary.
Print Assumptions utf8_examples.
