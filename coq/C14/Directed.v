(* C14/Directed.v -- two ways in which an ORDER BY can stop respecting '<' although its comparator is still
   a total preorder (definitions only; proofs in DirectedProofs.v):

   1. sparql/src/exec.rs: Project(OrderBy(..)).  The solutions are sorted BEFORE the projection: a criterion may
      read variables that the SELECT clause does not keep.  [expr_vars] lists the variables whose BINDING an
      expression of Context.v reads -- its value, or merely whether it is bound (BOUND, COALESCE, the pattern of
      an EXISTS, the variable of GRAPH ?x inside an EXISTS); [prune_then_sort] is an ORDER BY that drops the
      variables outside [keep] before sorting, [sort_then_prune] is what exec.rs does.
      [value_vars] is the tempting under-approximation "the variables whose VALUE is read" (BOUND reads none).

   2. sparql/src/value/_xsd_date_time.rs: timeline_cmp compares positions with the nanoseconds that the parser
      keeps.  [coarse_timeline_cmp unit] compares them up to [unit] nanoseconds (1000000: milliseconds). *)
From Sophia.C14 Require Import Model Context.

(* ---------- 1. the variables that a criterion reads ---------- *)
Definition node_vars (n : node) : list cvar := match n with NV v => [v] | NC _ => [] end.
Definition tpat_vars (p : tpat) : list cvar := node_vars (tps p) ++ node_vars (tpp p) ++ node_vars (tpo p).
Definition gspec_vars (g : gspec) : list cvar := match g with GVar v => [v] | _ => [] end.
Fixpoint expr_vars (e : expr) : list cvar :=
  match e with
  | EVar v => [v]
  | EConst _ => []
  | EExists g p => gspec_vars g ++ tpat_vars p
  | EBound v => [v]
  | ENot a => expr_vars a
  | ECoalesce a b => expr_vars a ++ expr_vars b
  | EIf c t f => expr_vars c ++ expr_vars t ++ expr_vars f
  end.
Definition keys_vars (keys : list (expr * bool)) : list cvar := flat_map (fun k => expr_vars (fst k)) keys.

(* the same without the variable of BOUND: "BOUND does not read the value of its variable" *)
Fixpoint value_vars (e : expr) : list cvar :=
  match e with
  | EVar v => [v]
  | EConst _ => []
  | EExists g p => gspec_vars g ++ tpat_vars p
  | EBound _ => []
  | ENot a => value_vars a
  | ECoalesce a b => value_vars a ++ value_vars b
  | EIf c t f => value_vars c ++ value_vars t ++ value_vars f
  end.

Definition covers (keep vs : list cvar) : bool := forallb (fun v => existsb (N.eqb v) keep) vs.

Definition sort_then_prune (ds : dataset) (gm : matcher) (keys : list (expr * bool)) (keep : list cvar)
                           (l : list binding) : list binding :=
  map (project_to keep) (isort (cmp_sol ds gm keys) l).
Definition prune_then_sort (ds : dataset) (gm : matcher) (keys : list (expr * bool)) (keep : list cvar)
                           (l : list binding) : list binding :=
  isort (cmp_sol ds gm keys) (map (project_to keep) l).

(* two bindings that give the same answer about every variable of [V] *)
Definition agree (V : list cvar) (b b' : binding) : Prop := forall v, In v V -> lookup b v = lookup b' v.

(* ---------- 2. a timeline with a coarser grain ---------- *)
Definition coarse_timeline_cmp (unit : N) (a b : xdt) : comparison :=
  inst_cmp (fst (dt_position a)) (snd (dt_position a) / unit) (fst (dt_position b)) (snd (dt_position b) / unit).
