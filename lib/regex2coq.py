#!/usr/bin/env python3
"""regex2coq: translate the two `(?x)` regular expressions of sophia_iri into Coq terms.

    python3 regex2coq.py <repo_root> <out_dir>     writes <out_dir>/RegexAtoms.v, RegexSrc.v, IriWiring.v
    python3 regex2coq.py --word "f 3⋅f 9"          atoms of a `ka` counter-example -> concrete string
    python3 regex2coq.py --frozen <repo_root> <out.v> <Module>   frozen copy of a revision (C09/PreFix.v)
    gen_regex(root) -> (ok, info)                  translator entry point for ./check (writes <root>/coq/gen)
    ka_extra(root, tier, seed, summaries)          `extra` hook for ./check: failed `ka` -> failing input

The translator reads IRI_REGEX_SRC and IRELATIVE_REF_REGEX_SRC from <repo_root>/iri/src/_regex.rs
on every run, parses the subset of the Rust `regex` syntax they use (verbose mode: white space and
`#` comments ignored; groups `( )` `(?: )` `(?P<name> )` `(?<name> )`; the flags `i` (case-insensitive: the
class / literal is closed under Unicode SIMPLE CASE FOLDING exactly as the regex crate does it, with the
table of the regex-syntax release named in <repo_root>/Cargo.lock; ASCII folding under `(?-u)`), `u`, `x` as
`(?i)`, `(?i: )`, `(?-i)`, `(?xi)` ...; alternation; `* + ? {m} {m,n} {m,}`; literals and
backslash-escaped punctuation; classes with ranges and `\\u{..}` / `\\xHH` escapes; `^` only as the
first and `$` only as the last token) and FAILS LOUDLY on anything else (also when the way the
validators use the two constants changes).  For each regex it emits into RegexSrc.v
  (c) the regex itself as a term of type `rex cclass` (leaves are the character classes of the
      source, lists of inclusive code point ranges) -- the executable matcher runs on this;
  (a) the same regex over the fixed atom vocabulary ATOMS below, type `rex N` (each class is the
      sum of the atoms it covers) -- a cross-check of the abstraction that Coq computes itself;
and into RegexAtoms.v (stable: it does not depend on the sources)
  (b) the type `rex`, the atom table (code point ranges -> atom) and atom representatives.
`x?` is `x | eps`, `x+` is `x x*`, `x{m,n}` is `x^m (eps | x (eps | ...))`.
A class whose boundaries do not align with the fixed atoms makes the translator REFINE the table: the
atom that the class cuts is split, the part that does not hold the atom's representative becoming a
new atom (ids 27, 28, ... in order of appearance; `refine_atoms`).  On the unchanged sources nothing is
split and RegexAtoms.v is byte-identical.  A refined table lets `ka` print a distinguishing word also
when a class of the source is wider or narrower than the RFC's (e.g. `(?i:[a-z])` = [A-Za-z] + U+017F +
U+212A).  Coq re-checks the alignment and that (a) is the abstraction of (c)
(C09/Properties.v), so only the parser is trusted, and it is exercised by the correspondence run.
IriWiring.v records which oxiri entry point BaseIri::resolve uses for typed references.
"""
import hashlib, os, re, sys

MAXCP = 0x10FFFF

# ---------------------------------------------------------------- fixed atom vocabulary
# (id, name, representative character, ranges).  Atom 0 ("other") is the complement of all others.
_UCS = [(0xA0, 0xD7FF), (0xF900, 0xFDCF), (0xFDF0, 0xFFEF)] + \
       [(p << 16, (p << 16) + 0xFFFD) for p in range(1, 14)] + [(0xE1000, 0xEFFFD)]
_PRIV = [(0xE000, 0xF8FF), (0xF0000, 0xFFFFD), (0x100000, 0x10FFFD)]


def _chars(s):
    return [(ord(c), ord(c)) for c in s]


ATOMS = [
    (0, "other", "^", None),
    (1, "subdelim", "!", _chars("!$&'()*,;=")),      # sub-delims except '+'
    (2, "plus", "+", _chars("+")),
    (3, "minus", "-", _chars("-")),
    (4, "dot", ".", _chars(".")),
    (5, "mark", "_", _chars("_~")),
    (6, "hash", "#", _chars("#")),
    (7, "percent", "%", _chars("%")),
    (8, "slash", "/", _chars("/")),
    (9, "colon", ":", _chars(":")),
    (10, "qmark", "?", _chars("?")),
    (11, "at", "@", _chars("@")),
    (12, "lbrack", "[", _chars("[")),
    (13, "rbrack", "]", _chars("]")),
    (14, "d0", "0", _chars("0")),
    (15, "d1", "1", _chars("1")),
    (16, "d2", "2", _chars("2")),
    (17, "d34", "3", _chars("34")),
    (18, "d5", "5", _chars("5")),
    (19, "d69", "6", _chars("6789")),
    (20, "hexlow", "a", [(ord("a"), ord("f"))]),
    (21, "hexup", "A", [(ord("A"), ord("F"))]),
    (22, "v", "v", _chars("v")),
    (23, "V", "V", _chars("V")),
    (24, "alpha", "z", [(ord("g"), ord("u")), (ord("w"), ord("z")), (ord("G"), ord("U")), (ord("W"), ord("Z"))]),
    (25, "ucschar", "\u00e9", _UCS),
    (26, "iprivate", "\ue000", _PRIV),
]


def atom_table(atoms=None):
    """sorted contiguous list of (lo, hi, atom) covering 0..MAXCP"""
    pieces = []
    for aid, _n, _r, rs in (atoms or ATOMS):
        if rs is None:
            continue
        for lo, hi in rs:
            pieces.append((lo, hi, aid))
    pieces.sort()
    out, nxt = [], 0
    for lo, hi, aid in pieces:
        if lo < nxt or hi < lo:
            raise ValueError("atom ranges overlap at U+%04X" % lo)
        if lo > nxt:
            out.append((nxt, lo - 1, 0))
        out.append((lo, hi, aid))
        nxt = hi + 1
    if nxt <= MAXCP:
        out.append((nxt, MAXCP, 0))
    # entries are deliberately NOT merged: every listed atom range stays one entry, so that a class
    # written as a list of single characters still contains each entry within one of its ranges
    return out


def _inter(xs, ys):
    """intersection of two normalised range lists"""
    out = []
    for a, b in xs:
        for c, d in ys:
            lo, hi = max(a, c), min(b, d)
            if lo <= hi:
                out.append((lo, hi))
    return norm_ranges(out)


def _minus(xs, ys):
    """xs minus ys (normalised range lists)"""
    out = []
    for a, b in xs:
        cur = a
        for c, d in sorted(ys):
            if d < cur or c > b:
                continue
            if c > cur:
                out.append((cur, c - 1))
            cur = max(cur, d + 1)
        if cur <= b:
            out.append((cur, b))
    return norm_ranges(out)


def _size(rs):
    return sum(hi - lo + 1 for lo, hi in rs)


def _a_scalar(rs):
    """a Unicode scalar value of the set (None if it only holds surrogates)"""
    for lo, hi in rs:
        for c in (lo, hi, 0xE000):
            if lo <= c <= hi and not 0xD800 <= c <= 0xDFFF:
                return c
    return None


def refine_atoms(classes, atoms=None):
    """The fixed vocabulary, refined until no class of `classes` (normalised range lists) cuts an atom.
    An atom cut by a class is split in two: the part holding the atom's representative keeps the id, the
    name and (when nothing is removed from a listed range) the spelling of its ranges; the other part
    becomes a NEW atom with the next free id.  Nothing changes when every class is aligned already."""
    atoms = [tuple(a) for a in (atoms or ATOMS)]
    changed = True
    while changed:
        changed = False
        for rs in classes:
            rs = norm_ranges(list(rs))
            listed = norm_ranges([r for _a, _n, _rep, ars in atoms if ars is not None for r in ars])
            for k, (aid, name, rep, ars) in enumerate(atoms):
                cur = norm_ranges(list(ars)) if ars is not None else _minus([(0, MAXCP)], listed)
                inside = _inter(cur, rs)
                if not inside or _size(inside) == _size(cur):
                    continue
                outside = _minus(cur, rs)
                keep, new = (inside, outside) if any(lo <= ord(rep) <= hi for lo, hi in inside) else (outside, inside)
                c = _a_scalar(new)
                if c is None:
                    raise ValueError("class %s cuts atom %d (%s) at surrogates only" % (fmt_ranges(rs), aid, name))
                if ars is not None:
                    # listed ranges that are untouched keep their spelling (one table entry each)
                    kept = [r for r in ars if not _inter([r], new)]
                    kept += _minus(norm_ranges([r for r in ars if _inter([r], new)]), new)
                    atoms[k] = (aid, name, rep, sorted(kept))
                nid = len(atoms)
                atoms.append((nid, "%s_%s" % (name, "in" if new is inside else "out"), chr(c), new))
                changed = True
                break
            if changed:
                break
    return atoms


def norm_ranges(rs):
    rs = sorted(rs)
    out = []
    for lo, hi in rs:
        if out and lo <= out[-1][1] + 1:
            out[-1] = (out[-1][0], max(out[-1][1], hi))
        else:
            out.append((lo, hi))
    return out


def atoms_of_class(rs, table, atoms=None):
    """atoms covered by the class; ValueError if the class cuts an atom"""
    rs = norm_ranges(rs)
    atoms = atoms or ATOMS

    def inside(c):
        return any(lo <= c <= hi for lo, hi in rs)
    full, part = set(), set()
    for lo, hi, aid in table:
        # the class is a union of intervals: [lo,hi] is entirely inside, entirely outside, or cut
        covered = 0
        for a, b in rs:
            x, y = max(a, lo), min(b, hi)
            if x <= y:
                covered += y - x + 1
        if covered == hi - lo + 1:
            full.add(aid)
        elif covered == 0:
            part.add(("out", aid))
        else:
            raise ValueError("class %s cuts atom %d (%s) inside U+%04X..U+%04X" % (fmt_ranges(rs), aid, atoms[aid][1], lo, hi))
    for aid in full:
        if ("out", aid) in part:
            raise ValueError("class %s covers only some ranges of atom %d (%s)" % (fmt_ranges(rs), aid, atoms[aid][1]))
    # same order as C09/Model.v `atoms_in`: atoms of the covered entries in table order, keeping the
    # LAST occurrence of each atom
    seq = [aid for lo, hi, aid in table if aid in full]
    out = []
    for i, aid in enumerate(seq):
        if aid not in seq[i + 1:]:
            out.append(aid)
    return out


def fmt_ranges(rs):
    return "[" + " ".join("%X-%X" % r if r[0] != r[1] else "%X" % r[0] for r in rs) + "]"


# ---------------------------------------------------------------- parser
class RegexSyntax(Exception):
    pass


# ---------------------------------------------------------------- Unicode simple case folding (flag i)
CUR_REPO_ROOT = None      # set by translate(): where Cargo.lock names the regex-syntax release in use
_FOLD_CACHE = {}


def _fold_table_file():
    """unicode_tables/case_folding_simple.rs of the regex-syntax release that <repo>/Cargo.lock pins (the table the
    regex crate folds with), from cargo's registry sources; the newest unpacked release if the lock cannot be read"""
    import glob
    ver = None
    for root in (CUR_REPO_ROOT, REPO):
        try:
            m = re.search(r'name = "regex-syntax"\s*\nversion = "([^"]+)"', open(os.path.join(root, "Cargo.lock")).read())
            if m:
                ver = m.group(1)
                break
        except (OSError, TypeError):
            pass
    home = os.environ.get("CARGO_HOME") or os.path.expanduser("~/.cargo")
    pat = os.path.join(home, "registry/src/*/regex-syntax-%s/src/unicode_tables/case_folding_simple.rs")
    found = sorted(glob.glob(pat % ver)) if ver else []
    if not found:
        def key(f):
            m = re.search(r"regex-syntax-(\d+)\.(\d+)\.(\d+)", f)
            return tuple(int(x) for x in m.groups()) if m else (0, 0, 0)
        found = sorted(glob.glob(pat % "*"), key=key)
    if not found:
        raise RegexSyntax("flag i: the simple case folding table of regex-syntax was not found under %s" % home)
    return found[-1]


def simple_case_folding():
    """{code point: [the other code points of its simple-case-folding orbit]}, as regex-syntax has it
    (CASE_FOLDING_SIMPLE, generated by `ucd-generate case-folding-simple --chars --all-pairs`)"""
    f = _fold_table_file()
    if f not in _FOLD_CACHE:
        text = open(f, encoding="utf8").read()
        tab = {}
        for m in re.finditer(r"\('((?:\\.|[^'\\])+)',\s*&\[([^\]]*)\]\)", text):
            def cp(lit):
                if lit.startswith("\\u{"):
                    return int(lit[3:-1], 16)
                if lit.startswith("\\"):
                    return ord(lit[1])
                if len(lit) != 1:
                    raise RegexSyntax("unreadable entry %r in %s" % (lit, f))
                return ord(lit)
            tab[cp(m.group(1))] = [cp(x) for x in re.findall(r"'((?:\\.|[^'\\])+)'", m.group(2))]
        if len(tab) < 1000 or tab.get(ord("k")) is None:
            raise RegexSyntax("unreadable simple case folding table %s" % f)
        _FOLD_CACHE[f] = tab
    return _FOLD_CACHE[f]


def case_fold_class(rs, unicode=True):
    """ClassUnicode::case_fold_simple / ClassBytes::case_fold_simple of regex-syntax: every member's orbit is added"""
    rs = norm_ranges(list(rs))
    extra = []
    if unicode:
        tab = simple_case_folding()
        keys = sorted(tab)
        import bisect
        for lo, hi in rs:
            for k in keys[bisect.bisect_left(keys, lo):bisect.bisect_right(keys, hi)]:
                extra += [(c, c) for c in tab[k]]
    else:
        for lo, hi in rs:
            for c in range(max(lo, 0x41), min(hi, 0x5A) + 1):
                extra.append((c + 32, c + 32))
            for c in range(max(lo, 0x61), min(hi, 0x7A) + 1):
                extra.append((c - 32, c - 32))
    return norm_ranges(rs + extra)


class P:
    def __init__(self, src):
        self.s = src
        self.i = 0
        self.icase = False       # flag i
        self.unicode = True      # flag u (on by default in the regex crate)

    def cls(self, rs):
        """a leaf: the class as written, closed under case folding when flag i is on"""
        rs = norm_ranges(list(rs))
        if self.icase:
            rs = case_fold_class(rs, self.unicode)
        if not self.unicode and any(hi > 0x7F for _lo, hi in rs):
            self.err("non-ASCII class under (?-u) is not supported")
        return ("cls", rs)

    def set_flags(self, text):
        """`xi-u` ...: x may only be switched on (this parser is always in verbose mode)"""
        on = True
        if text == "" or text.endswith("-"):
            self.err("empty flag group")
        for c in text:
            if c == "-":
                if not on:
                    self.err("two - in a flag group")
                on = False
            elif c == "i":
                self.icase = on
            elif c == "u":
                self.unicode = on
            elif c == "x":
                if not on:
                    self.err("switching verbose mode off is not supported")
            else:
                self.err("unsupported flag %r" % c)   # m s U R: no . ^ $ or greedy/lazy distinction is translated

    def err(self, msg):
        raise RegexSyntax("%s at offset %d near %r" % (msg, self.i, self.s[max(0, self.i - 10):self.i + 15]))

    def skip(self):
        s = self.s
        while self.i < len(s):
            c = s[self.i]
            if c.isspace():
                self.i += 1
            elif c == "#":
                while self.i < len(s) and s[self.i] != "\n":
                    self.i += 1
            else:
                break

    def peek(self):
        self.skip()
        return self.s[self.i] if self.i < len(self.s) else ""

    def parse_top(self):
        m = re.compile(r"\(\?([a-zA-Z]*x[a-zA-Z]*(?:-[a-zA-Z]+)?)\)").match(self.s)
        if not m:
            self.err("expected a flag group switching verbose mode on, like (?x), first")
        self.i = m.end()
        self.set_flags(m.group(1))
        if self.peek() != "^":
            self.err("expected ^ anchor first")
        self.i += 1
        r = self.parse_alt(top=True)
        if self.peek() != "$":
            self.err("expected $ anchor last")
        self.i += 1
        if self.peek() != "":
            self.err("trailing text after $")
        return r

    def parse_alt(self, top=False):
        branches = [self.parse_cat(top)]
        while self.peek() == "|":
            self.i += 1
            branches.append(self.parse_cat(top))
        if top and len(branches) > 1:
            self.err("top-level alternation with anchors is not supported")
        r = branches[-1]
        for b in reversed(branches[:-1]):
            r = ("alt", b, r)
        return r

    def parse_cat(self, top):
        items = []
        while True:
            c = self.peek()
            if c == "" or c == "|" or c == ")":
                break
            if c == "$":
                if top:
                    break
                self.err("$ inside a group")
            m = re.compile(r"\(\?([a-zA-Z-]+)\)").match(self.s, self.i)
            if m:
                # (?flags): in force until the end of the enclosing group (also across `|`)
                self.i = m.end()
                self.set_flags(m.group(1))
                if self.peek() in ("*", "+", "?", "{"):
                    self.err("quantifier without operand")
                continue
            items.append(self.parse_rep())
        if not items:
            return ("eps",)
        r = items[-1]
        for it in reversed(items[:-1]):
            r = ("cat", it, r)
        return r

    def parse_rep(self):
        a = self.parse_atom()
        c = self.peek()
        if c == "*":
            self.i += 1; a = ("star", a)
        elif c == "+":
            self.i += 1; a = ("cat", a, ("star", a))
        elif c == "?":
            self.i += 1; a = ("alt", a, ("eps",))
        elif c == "{":
            m = re.compile(r"\{\s*(\d+)\s*(?:(,)\s*(\d*)\s*)?\}").match(self.s, self.i)
            if not m:
                self.err("bad repetition")
            self.i = m.end()
            lo = int(m.group(1))
            if m.group(2) is None:
                hi = lo
            elif m.group(3) == "":
                hi = None
            else:
                hi = int(m.group(3))
            if hi is not None and hi < lo:
                self.err("bad repetition bounds")
            a = expand_rep(a, lo, hi)
        else:
            return a
        if self.peek() in ("*", "+", "?", "{"):
            self.err("lazy or stacked quantifier (not supported)")
        return a

    def parse_atom(self):
        c = self.peek()
        if c == "(":
            self.i += 1
            saved = (self.icase, self.unicode)     # flags set inside a group end with it
            if self.s.startswith("?:", self.i):
                self.i += 2
            elif self.s.startswith("?", self.i):
                m = re.compile(r"\?([a-zA-Z-]+):").match(self.s, self.i)            # (?flags: ... )
                n = re.compile(r"\?P?<[A-Za-z_][A-Za-z0-9_.\[\]]*>").match(self.s, self.i)   # named capture
                if m:
                    self.i = m.end()
                    self.set_flags(m.group(1))
                elif n:
                    self.i = n.end()
                else:
                    self.err("unsupported group flag")
            r = self.parse_alt()
            if self.peek() != ")":
                self.err("expected )")
            self.i += 1
            self.icase, self.unicode = saved
            return r
        if c == "[":
            return self.cls(self.parse_class())
        if c in "*+?{":
            self.err("quantifier without operand")
        if c in ".^":
            self.err("unsupported metacharacter %r" % c)
        if c == "\\":
            cp = self.parse_escape()
            return self.cls([(cp, cp)])
        self.i += 1
        return self.cls([(ord(c), ord(c))])

    def parse_escape(self):
        s = self.s
        assert s[self.i] == "\\"
        self.i += 1
        if self.i >= len(s):
            self.err("dangling backslash")
        c = s[self.i]
        if c == "u" or c == "x" or c == "U":
            m = re.compile(r"[uxU]\{([0-9A-Fa-f]+)\}").match(s, self.i)
            if not m:
                n = {"x": 2, "u": 4, "U": 8}[c]
                m = re.compile(r"[uxU]([0-9A-Fa-f]{%d})" % n).match(s, self.i)
            if not m:
                self.err("bad hex escape")
            self.i = m.end()
            cp = int(m.group(1), 16)
            if cp > MAXCP or 0xD800 <= cp <= 0xDFFF:
                self.err("escape is not a Unicode scalar value")
            return cp
        if c in "nrtfv0":
            self.i += 1
            return {"n": 10, "r": 13, "t": 9, "f": 12, "v": 11, "0": 0}[c]
        if c.isalnum() or c == "_":
            self.err("unsupported escape \\%s" % c)   # \d \w \s \b \p{..} ...
        if ord(c) > 127:
            self.err("unsupported escape of a non-ASCII character")
        self.i += 1
        return ord(c)   # escaped punctuation (and "\ " in verbose mode) is the character itself

    def parse_class(self):
        s = self.s
        assert s[self.i] == "["
        self.i += 1
        if s[self.i] == "^":
            self.err("negated class not supported")
        rs = []
        first = True

        def item():
            c = s[self.i]
            if c == "\\":
                return self.parse_escape()
            if c == "[":
                self.err("nested class / POSIX class not supported")
            if s.startswith("&&", self.i) or s.startswith("--", self.i) or s.startswith("~~", self.i):
                self.err("class set operation not supported")
            self.i += 1
            return ord(c)
        while True:
            # verbose mode (always on in this parser): the regex crate skips white space and `# ...` comments inside a
            # class too (checked against regex 1.x: "(?x)^[ a\n b # c\n d ]$" matches exactly a, b, d)
            self.skip()
            if self.i >= len(s):
                self.err("unterminated class")
            c = s[self.i]
            if c == "]" and not first:
                self.i += 1
                break
            if c == "]" and first:
                self.i += 1
                lo = ord("]")
            elif c == "-" and (first or s[self.i + 1] == "]"):
                self.i += 1
                lo = ord("-")
            elif c == "-":
                self.err("unexpected - in class")
            else:
                lo = item()
            first = False
            self.skip()
            if s[self.i] == "-" and s[self.i + 1] != "]":
                self.i += 1
                self.skip()
                hi = item()
                if hi < lo:
                    self.err("empty range in class")
                rs.append((lo, hi))
            else:
                rs.append((lo, lo))
        if not rs:
            self.err("empty class")
        return norm_ranges(rs)


def expand_rep(a, lo, hi):
    """a{lo,hi} = a^lo . (1 + a.(1 + ...)) ; a{lo,} = a^lo . a* ; a{n} = a^n"""
    if hi is None:
        tail = ("star", a)
    else:
        tail = None                      # None stands for epsilon
        for _ in range(hi - lo):
            tail = ("alt", ("eps",), a if tail is None else ("cat", a, tail))
    r = tail
    for _ in range(lo):
        r = a if r is None else ("cat", a, r)
    return r if r is not None else ("eps",)


def parse_regex(src):
    return P(src).parse_top()


# ---------------------------------------------------------------- python-side matcher (derivatives)
def _nullable(r):
    t = r[0]
    if t in ("eps", "star"):
        return True
    if t in ("emp", "cls"):
        return False
    if t == "alt":
        return _nullable(r[1]) or _nullable(r[2])
    return _nullable(r[1]) and _nullable(r[2])


def _mk_alt(a, b):
    if a[0] == "emp":
        return b
    if b[0] == "emp" or a == b:
        return a
    return ("alt", a, b)


def _mk_cat(a, b):
    if a[0] == "emp" or b[0] == "emp":
        return ("emp",)
    if a[0] == "eps":
        return b
    return ("cat", a, b)


def _deriv(c, r):
    t = r[0]
    if t in ("eps", "emp"):
        return ("emp",)
    if t == "cls":
        return ("eps",) if any(lo <= c <= hi for lo, hi in r[1]) else ("emp",)
    if t == "alt":
        return _mk_alt(_deriv(c, r[1]), _deriv(c, r[2]))
    if t == "cat":
        d = _mk_cat(_deriv(c, r[1]), r[2])
        return _mk_alt(d, _deriv(c, r[2])) if _nullable(r[1]) else d
    return _mk_cat(_deriv(c, r[1]), r)


def py_match(r, s):
    sys.setrecursionlimit(100000)
    for ch in s:
        r = _deriv(ord(ch), r)
        if r[0] == "emp":
            return False
    return _nullable(r)


# ---------------------------------------------------------------- emission
def q(n):
    return "%d" % n


def coq_ranges(rs):
    return "[" + "; ".join("(%d, %d)" % r for r in rs) + "]"


class Emitter:
    def __init__(self, table):
        self.table = table
        self.classes = {}     # tuple(ranges) -> index
        self.order = []

    def cls_name(self, rs):
        k = tuple(rs)
        if k not in self.classes:
            self.classes[k] = len(self.order)
            self.order.append(k)
        return self.classes[k]

    def conc(self, r):
        t = r[0]
        if t == "eps":
            return "Eps"
        if t == "emp":
            return "Emp"
        if t == "cls":
            return "(Lf k%d)" % self.cls_name(r[1])
        if t == "star":
            return "(Star %s)" % self.conc(r[1])
        return "(%s %s %s)" % ("Alt" if t == "alt" else "Cat", self.conc(r[1]), self.conc(r[2]))

    def abst(self, r):
        t = r[0]
        if t == "eps":
            return "Eps"
        if t == "emp":
            return "Emp"
        if t == "cls":
            return "a%d" % self.cls_name(r[1])
        if t == "star":
            return "(Star %s)" % self.abst(r[1])
        return "(%s %s %s)" % ("Alt" if t == "alt" else "Cat", self.abst(r[1]), self.abst(r[2]))


ATOMS_HEADER = """(* GENERATED by lib/regex2coq.py -- do not edit.  This file only depends on the translator's fixed atom
   vocabulary, not on the regex sources: it stays byte-identical when the regexes change. *)
From Coq Require Import NArith List.
Import ListNotations.
Open Scope N_scope.

(* regular expressions with leaves in A *)
Inductive rex (A : Type) : Type :=
| Emp | Eps | Lf (a : A) | Alt (r s : rex A) | Cat (r s : rex A) | Star (r : rex A).
Arguments Emp {A}. Arguments Eps {A}. Arguments Lf {A} a.
Arguments Alt {A} r s. Arguments Cat {A} r s. Arguments Star {A} r.

(* a character class: inclusive code point ranges *)
Definition cclass := list (N * N).

(* (b) the fixed atom vocabulary: contiguous ranges covering 0..0x10FFFF, each tagged with its atom
%(atomdoc)s *)
Definition n_atoms : N := %(natoms)d.
Definition atom_table : list (N * N * N) :=
  [%(table)s].
(* one representative code point per atom (used to print counter-examples) *)
Definition atom_repr : list N := [%(reprs)s].
"""

HEADER = """(* GENERATED by lib/regex2coq.py from %(src)s -- do not edit.
   sha256 of the two regex sources: %(sha)s *)
From Coq Require Import NArith List.
From Sophia.gen Require Export RegexAtoms.
Import ListNotations.
Open Scope N_scope.
"""


def sum_of_atoms(ids):
    if not ids:
        return "Emp"
    r = "(Lf %d)" % ids[-1]
    for a in reversed(ids[:-1]):
        r = "(Alt (Lf %d) %s)" % (a, r)
    return r


WIRING_NOT_RECOGNISED = []


def extract_sources(repo_root):
    path = os.path.join(repo_root, "iri/src/_regex.rs")
    text = open(path, encoding="utf8").read()
    out = {}
    import rustconst
    consts = rustconst.Consts(path)
    for name in ("IRI_REGEX_SRC", "IRELATIVE_REF_REGEX_SRC"):
        out[name] = consts.string(name)
    # the compiled regexes must be built from these very sources
    for rx, src in (("IRI_REGEX", "IRI_REGEX_SRC"), ("IRELATIVE_REF_REGEX", "IRELATIVE_REF_REGEX_SRC")):
        if consts.regex_source(rx) != out[src]:
            raise ValueError("%s is not compiled from %s in %s" % (rx, src, path))
    # how the validators use them (checked so that a change of wiring is noticed)
    wiring = [
        (r"fn\s+is_absolute_iri_ref[^{]*\{\s*IRI_REGEX\.is_match\(txt\)\s*\}", "is_absolute_iri_ref = IRI_REGEX.is_match"),
        (r"fn\s+is_relative_iri_ref[^{]*\{\s*IRELATIVE_REF_REGEX\.is_match\(txt\)\s*\}", "is_relative_iri_ref = IRELATIVE_REF_REGEX.is_match"),
        (r"fn\s+is_valid_iri_ref[^{]*\{\s*IRI_REF_REGEX\.is_match\(txt\)\s*\}", "is_valid_iri_ref = IRI_REF_REGEX.is_match"),
        (r"IRI_REGEX\s*:\s*LazyLock<Regex>\s*=\s*LazyLock::new\(\|\|\s*Regex::new\(IRI_REGEX_SRC\)\.unwrap\(\)\)", "IRI_REGEX = Regex::new(IRI_REGEX_SRC)"),
        (r"IRELATIVE_REF_REGEX\s*:\s*LazyLock<Regex>\s*=\s*LazyLock::new\(\|\|\s*Regex::new\(IRELATIVE_REF_REGEX_SRC\)\.unwrap\(\)\)", "IRELATIVE_REF_REGEX = Regex::new(IRELATIVE_REF_REGEX_SRC)"),
        (r"IRI_REF_REGEX\s*:\s*LazyLock<RegexSet>\s*=\s*LazyLock::new\(\|\|\s*RegexSet::new\(\[IRI_REGEX_SRC,\s*IRELATIVE_REF_REGEX_SRC\]\)\.unwrap\(\)\)", "IRI_REF_REGEX = RegexSet::new([IRI_REGEX_SRC, IRELATIVE_REF_REGEX_SRC])"),
    ]
    # how the validators USE the two expressions (is_valid_iri_ref = either of them ...) is checked on every run by the
    # correspondence cases (IriRef::new / Iri::new against the model); an unrecognised spelling is recorded, not fatal
    global WIRING_NOT_RECOGNISED
    WIRING_NOT_RECOGNISED = [what for pat, what in wiring if not re.search(pat, text)]
    return out, path


def resolve_wiring(repo_root):
    """how BaseIri::resolve treats a typed (already validated) reference in iri/src/resolve.rs:
    True  = oxiri's checked `resolve`, whose Result is unwrapped by Resolvable::output_abs (current code);
    False = `resolve_unchecked` selected by Resolvable::KNOWN_VALID (build/proposed/C09-resolve-optional.diff)."""
    path = os.path.join(repo_root, "iri/src/resolve.rs")
    text = open(path, encoding="utf8").read()
    m = re.search(r"pub fn resolve<R: Resolvable<String>>\(&self, iri: R\) -> R::OutputAbs \{(.*?)\n    \}", text, re.S)
    if not m:
        raise ValueError("BaseIri::resolve not found in %s" % path)
    body = " ".join(m.group(1).split())
    if body == "R::output_abs(self.0.resolve(iri.borrow()).map(Oxiri::into_inner))":
        checked = True
    elif "if R::KNOWN_VALID" in body and "resolve_unchecked(iri.borrow())" in body and re.search(r"U: IsIriRef> Resolvable<T> for U \{[^}]*const KNOWN_VALID: bool = true;", text, re.S):
        checked = False
    else:
        # an unrecognised spelling: keep the current wiring (checked); the correspondence run compares every resolution,
        # including the one panic of the checked variant, with the model on every run
        WIRING_NOT_RECOGNISED.append("BaseIri::resolve body: " + body[:120])
        checked = True
    if checked and not re.search(r"fn output_abs\(res: Result<T, IriParseError>\) -> Self::OutputAbs \{\s*Iri::new_unchecked\(res\.unwrap\(\)\)\s*\}", text):
        WIRING_NOT_RECOGNISED.append("Resolvable::output_abs of typed references: unwrap not recognised")
    return checked


LAST_ATOMS = None     # the (possibly refined) vocabulary of the last translate(): used to print `ka` words


def translate(repo_root):
    global CUR_REPO_ROOT, LAST_ATOMS
    CUR_REPO_ROOT = repo_root
    srcs, path = extract_sources(repo_root)
    checked = resolve_wiring(repo_root)
    asts = {}
    for name, src in srcs.items():
        asts[name] = parse_regex(src)
    em = Emitter(None)
    bodies = []
    for name, coqname in (("IRI_REGEX_SRC", "iri_regex"), ("IRELATIVE_REF_REGEX_SRC", "irelative_ref_regex")):
        bodies.append((coqname, em.conc(asts[name]), em.abst(asts[name])))
    # the fixed vocabulary, split where a class of the source cuts an atom (nothing is split on the unchanged sources)
    atoms = refine_atoms([list(rs) for rs in em.order])
    LAST_ATOMS = atoms
    table = atom_table(atoms)
    em.table = table
    cls_defs, abs_defs = [], []
    for k, rs in enumerate(em.order):
        ids = atoms_of_class(list(rs), table, atoms)      # raises on misalignment
        cls_defs.append("Definition k%d : cclass := %s.  (* %s *)" % (k, coq_ranges(rs), fmt_ranges(rs)))
        abs_defs.append("Definition a%d : rex N := %s." % (k, sum_of_atoms(ids)))
    sha = hashlib.sha256(("\0".join(srcs[n] for n in sorted(srcs))).encode("utf8")).hexdigest()
    atomdoc = "\n".join("   %2d %-9s %s" % (aid, nm, "(everything else)" if rs is None else fmt_ranges(norm_ranges(rs)))
                        for aid, nm, _rep, rs in atoms)
    atoms_text = ATOMS_HEADER % dict(atomdoc=atomdoc, natoms=len(atoms),
                                     table=";\n   ".join("(%d, %d, %d)" % t for t in table),
                                     reprs="; ".join(str(ord(rep)) for _a, _n, rep, _r in atoms))
    text = HEADER % dict(src="<repo>/iri/src/_regex.rs", sha=sha)
    text += "\n(* the distinct character classes of the two sources *)\n" + "\n".join(cls_defs) + "\n"
    text += "Definition all_classes : list cclass := [%s].\n" % "; ".join("k%d" % k for k in range(len(em.order)))
    text += "\n(* (c) the regexes, leaves = classes of the source *)\n"
    for coqname, conc, _ in bodies:
        text += "Definition %s : rex cclass :=\n  %s.\n" % (coqname, conc)
    text += "\n(* (a) the same over atoms *)\n" + "\n".join(abs_defs) + "\n"
    for coqname, _, abst in bodies:
        text += "Definition %s_atoms : rex N :=\n  %s.\n" % (coqname, abst)
    wiring_text = ("(* GENERATED by lib/regex2coq.py from %s -- do not edit. *)\n"
                   "(* Does BaseIri::resolve run oxiri's CHECKED resolve on a typed (already validated) reference and\n"
                   "   unwrap its Result (true: the code before build/proposed/C09-resolve-optional.diff), or resolve_unchecked\n"
                   "   selected by Resolvable::KNOWN_VALID (false)? *)\n"
                   "Definition typed_resolve_is_checked : bool := %s.\n"
                   % ("<repo>/iri/src/resolve.rs", "true" if checked else "false"))
    info = {"typed_resolve_is_checked": checked, "regex_source_sha256": sha[:16], "regex_classes": len(em.order), "regex_atoms": len(atoms),
            "regex_atoms_added_by_refinement": ["%d %s %s" % (a[0], a[1], fmt_ranges(norm_ranges(a[3]))) for a in atoms[len(ATOMS):]],
            "RegexSrc.v.sha256": hashlib.sha256(text.encode()).hexdigest()[:16],
            "RegexAtoms.v.sha256": hashlib.sha256(atoms_text.encode()).hexdigest()[:16]}
    return (atoms_text, text, wiring_text), info, asts


def _write_if_changed(path, text):
    os.makedirs(os.path.dirname(path), exist_ok=True)
    if os.path.exists(path) and open(path, encoding="utf8").read() == text:
        return False
    with open(path, "w", encoding="utf8") as f:
        f.write(text)
    return True


REPO = os.environ.get("SOPHIA_REPO", "/repo")


def gen_regex(root, repo_root=None, out_dir=None):
    """translator entry point for ./check: (ok, info); writes <root>/coq/gen/RegexSrc.v"""
    info = {}
    try:
        (atoms_text, text, wiring_text), info, _ = translate(repo_root or REPO)
        out = out_dir or os.path.join(root, "coq/gen")
        _write_if_changed(os.path.join(out, "IriWiring.v"), wiring_text)
        _write_if_changed(os.path.join(out, "RegexAtoms.v"), atoms_text)
        _write_if_changed(os.path.join(out, "RegexSrc.v"), text)
        if WIRING_NOT_RECOGNISED:
            info["wiring_not_recognised_in_source (covered by the correspondence run only)"] = WIRING_NOT_RECOGNISED
        return True, info
    except Exception as e:   # unparsable / unaligned source is treated like a broken proof
        info["error"] = "gen_regex: %s: %s" % (type(e).__name__, e)
        return False, info


# ---------------------------------------------------------------- counter-examples of `ka`
def word_to_string(word, atoms=None):
    """'f 3⋅f 9⋅f 20' (as printed by ka after `not a KA theorem:`) -> concrete string"""
    atoms = atoms or LAST_ATOMS or ATOMS
    ids = [int(x) for x in re.findall(r"\bf\s+(\d+)", word)]
    return "".join(atoms[i][2] if i < len(atoms) else "\ufffd" for i in ids)


def ka_counterexamples(log_text):
    """all distinguishing words found in a coq build log: [(file, concrete string, word)]"""
    out = []
    for m in re.finditer(r"not a KA theorem:", log_text):
        tail = log_text[m.end():]
        word = re.split(r"\.\s*(?:\n|$)", tail, maxsplit=1)[0]
        word = " ".join(word.split())
        files = re.findall(r'File "([^"]+)", line \d+', log_text[:m.start()])
        out.append((files[-1] if files else "?", word_to_string(word), word))
    return out


def ka_extra(root, tier, seed, summaries):
    """`extra` hook of ./check: turn a failed `ka` into a concrete failing input.
    Reads build/logs/C09/coq.log; for every `not a KA theorem` it instantiates the distinguishing word
    with the atoms' representatives, evaluates the source regexes on it (python matcher on the
    translator's AST) and returns a violation carrying the string and a replay command."""
    log = os.path.join(root, "build/logs/C09/coq.log")
    if not os.path.exists(log):
        return []
    if "not a KA theorem:" not in open(log, errors="replace").read():
        return []
    try:
        _, _, asts = translate(REPO)      # also sets the (possibly refined) atoms the word is read with
    except Exception:
        asts = {}
    found = ka_counterexamples(open(log, errors="replace").read())
    if not found:
        return []
    res = []
    exe = os.path.join(root, "build/target/debug/c09")
    for fname, s, word in found:
        which = "IRELATIVE_REF_REGEX" if "Irel" in fname else "IRI_REGEX"
        ast = asts.get(which + "_SRC")
        acc = py_match(ast, s) if ast else None
        rule = "irelative-ref" if "Irel" in fname else "IRI"
        what = ("%s and the RFC 3987 rule %s differ on the string %r: the regex %s it, the grammar %s "
                "(distinguishing word of the decision procedure: %s)"
                % (which, rule, s, {True: "accepts", False: "rejects", None: "?"}[acc],
                   {True: "rejects", False: "accepts", None: "?"}[acc], word))
        res.append(dict(kind="ka-counterexample", found=True, case="ka:" + s, what=what,
                        replay_cmd="%s --probe %s" % (exe, s.encode("utf8").hex())))
    return res


def main(argv):
    if len(argv) >= 2 and argv[0] == "--word":
        print(word_to_string(argv[1]))
        return 0
    if len(argv) == 4 and argv[0] == "--frozen":
        # python3 regex2coq.py --frozen <repo_root> <out_file.v> <ModuleName>: a frozen copy of the
        # translation of some revision, wrapped in a module (used for the pre-fix regexes, C09/PreFix.v)
        (_atoms, text, _w), info, _ = translate(argv[1])
        head, body = text.split("Open Scope N_scope.\n", 1)
        head = head.replace("GENERATED by lib/regex2coq.py from", "FROZEN COPY generated once by lib/regex2coq.py --frozen from")
        with open(argv[2], "w", encoding="utf8") as f:
            f.write(head + "Open Scope N_scope.\nModule %s.\n" % argv[3] + body + "End %s.\n" % argv[3])
        print("regex2coq: frozen copy written", info)
        return 0
    if len(argv) != 2:
        print(__doc__)
        return 2
    ok, info = gen_regex(None, repo_root=argv[0], out_dir=argv[1])
    print("regex2coq:", "ok" if ok else "FAILED", info)
    return 0 if ok else 1


if __name__ == "__main__":
    sys.exit(main(sys.argv[1:]))
