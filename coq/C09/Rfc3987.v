(* C09/Rfc3987.v -- SPECIFICATION: the grammar of RFC 3987 section 2.2 (with the rules it imports from
   RFC 3986: IPv6address, IPvFuture, IPv4address, dec-octet, h16, ls32, pct-encoded, unreserved,
   sub-delims, scheme, port), transcribed BY HAND rule by rule as regular expressions whose leaves
   are code point ranges.  ABNF string literals are case-insensitive (RFC 5234 2.3): this matters
   for HEXDIG ("A".."F") and for the "v" of IPvFuture.
   Definitions only; nothing here is generated. *)
From Coq Require Import NArith List.
From Sophia.C09 Require Import Regex.
Import ListNotations.
Open Scope N_scope.

(* Rules that are a plain choice between characters are written as ONE character class (a list of
   code point ranges); `++` is the union of classes. *)
Definition one (c : N) : cclass := [(c, c)].

(* RFC 5234 core rules *)
Definition ALPHA_c : cclass := [(0x41, 0x5A); (0x61, 0x7A)].                  (* %x41-5A / %x61-7A *)
Definition DIGIT_c : cclass := [(0x30, 0x39)].                                (* %x30-39 *)
Definition HEXDIG_c : cclass := DIGIT_c ++ [(0x41, 0x46); (0x61, 0x66)].      (* DIGIT / "A".."F", either case *)
Definition ALPHA : rex cclass := Lf ALPHA_c.
Definition DIGIT : rex cclass := Lf DIGIT_c.
Definition HEXDIG : rex cclass := Lf HEXDIG_c.

Definition c_colon := chr 0x3A.   Definition c_slash := chr 0x2F.   Definition c_qmark := chr 0x3F.
Definition c_hash := chr 0x23.    Definition c_at := chr 0x40.      Definition c_dot := chr 0x2E.
Definition c_lbrack := chr 0x5B.  Definition c_rbrack := chr 0x5D.  Definition c_percent := chr 0x25.

(* RFC 3986 *)
Definition sub_delims_c : cclass :=                           (* "!" "$" "&" "'" "(" ")" "*" "+" "," ";" "=" *)
  one 0x21 ++ one 0x24 ++ one 0x26 ++ one 0x27 ++ one 0x28 ++ one 0x29 ++ one 0x2A ++ one 0x2B ++ one 0x2C
  ++ one 0x3B ++ one 0x3D.
Definition unreserved_c : cclass :=                           (* ALPHA / DIGIT / "-" / "." / "_" / "~" *)
  ALPHA_c ++ DIGIT_c ++ one 0x2D ++ one 0x2E ++ one 0x5F ++ one 0x7E.
Definition sub_delims : rex cclass := Lf sub_delims_c.
Definition unreserved : rex cclass := Lf unreserved_c.
Definition pct_encoded : rex cclass := cats [c_percent; HEXDIG; HEXDIG].
Definition scheme : rex cclass :=                             (* ALPHA *( ALPHA / DIGIT / "+" / "-" / "." ) *)
  Cat ALPHA (Star (Lf (ALPHA_c ++ DIGIT_c ++ one 0x2B ++ one 0x2D ++ one 0x2E))).
Definition port : rex cclass := Star DIGIT.
Definition dec_octet : rex cclass :=
  alts [ DIGIT                                                (* 0-9 *)
       ; Cat (rng 0x31 0x39) DIGIT                            (* 10-99 *)
       ; cats [chr 0x31; DIGIT; DIGIT]                        (* 100-199 *)
       ; cats [chr 0x32; rng 0x30 0x34; DIGIT]                (* 200-249 *)
       ; cats [chr 0x32; chr 0x35; rng 0x30 0x35] ].          (* 250-255 *)
Definition IPv4address : rex cclass :=
  cats [dec_octet; c_dot; dec_octet; c_dot; dec_octet; c_dot; dec_octet].
Definition h16 : rex cclass := Cat HEXDIG (rep_le 3 HEXDIG).  (* 1*4HEXDIG *)
Definition ls32 : rex cclass := Alt (cats [h16; c_colon; h16]) IPv4address.
Definition h16c : rex cclass := Cat h16 c_colon.              (* ( h16 ":" ) *)
Definition dcolon : rex cclass := Cat c_colon c_colon.        (* "::" *)
Definition IPv6address : rex cclass :=
  alts [ cats [                                         rep 6 h16c; ls32]
       ; cats [                                 dcolon; rep 5 h16c; ls32]
       ; cats [ opt h16;                        dcolon; rep 4 h16c; ls32]
       ; cats [ opt (Cat (rep_le 1 h16c) h16);  dcolon; rep 3 h16c; ls32]
       ; cats [ opt (Cat (rep_le 2 h16c) h16);  dcolon; rep 2 h16c; ls32]
       ; cats [ opt (Cat (rep_le 3 h16c) h16);  dcolon; h16c;       ls32]
       ; cats [ opt (Cat (rep_le 4 h16c) h16);  dcolon;             ls32]
       ; cats [ opt (Cat (rep_le 5 h16c) h16);  dcolon;             h16 ]
       ; cats [ opt (Cat (rep_le 6 h16c) h16);  dcolon                  ] ].
Definition IPvFuture : rex cclass :=                          (* "v" 1*HEXDIG "." 1*( unreserved / sub-delims / ":" ) *)
  cats [Alt (chr 0x76) (chr 0x56); plus HEXDIG; c_dot; plus (Lf (unreserved_c ++ sub_delims_c ++ one 0x3A))].
Definition IP_literal : rex cclass := cats [c_lbrack; Alt IPv6address IPvFuture; c_rbrack].

(* RFC 3987 *)
Definition ucschar_c : cclass :=
  [ (0xA0, 0xD7FF); (0xF900, 0xFDCF); (0xFDF0, 0xFFEF)
  ; (0x10000, 0x1FFFD); (0x20000, 0x2FFFD); (0x30000, 0x3FFFD)
  ; (0x40000, 0x4FFFD); (0x50000, 0x5FFFD); (0x60000, 0x6FFFD)
  ; (0x70000, 0x7FFFD); (0x80000, 0x8FFFD); (0x90000, 0x9FFFD)
  ; (0xA0000, 0xAFFFD); (0xB0000, 0xBFFFD); (0xC0000, 0xCFFFD)
  ; (0xD0000, 0xDFFFD); (0xE1000, 0xEFFFD) ].
Definition iprivate_c : cclass := [(0xE000, 0xF8FF); (0xF0000, 0xFFFFD); (0x100000, 0x10FFFD)].
Definition iunreserved_c : cclass :=                          (* ALPHA / DIGIT / "-" / "." / "_" / "~" / ucschar *)
  ALPHA_c ++ DIGIT_c ++ one 0x2D ++ one 0x2E ++ one 0x5F ++ one 0x7E ++ ucschar_c.
Definition ucschar : rex cclass := Lf ucschar_c.
Definition iprivate : rex cclass := Lf iprivate_c.
Definition iunreserved : rex cclass := Lf iunreserved_c.
Definition ipchar : rex cclass := alts [iunreserved; pct_encoded; sub_delims; c_colon; c_at].
Definition isegment : rex cclass := Star ipchar.
Definition isegment_nz : rex cclass := plus ipchar.
Definition isegment_nz_nc : rex cclass := plus (alts [iunreserved; pct_encoded; sub_delims; c_at]).
Definition ipath_abempty : rex cclass := Star (Cat c_slash isegment).
Definition ipath_absolute : rex cclass := Cat c_slash (opt (Cat isegment_nz (Star (Cat c_slash isegment)))).
Definition ipath_noscheme : rex cclass := Cat isegment_nz_nc (Star (Cat c_slash isegment)).
Definition ipath_rootless : rex cclass := Cat isegment_nz (Star (Cat c_slash isegment)).
Definition ipath_empty : rex cclass := Eps.
Definition iuserinfo : rex cclass := Star (alts [iunreserved; pct_encoded; sub_delims; c_colon]).
Definition ireg_name : rex cclass := Star (alts [iunreserved; pct_encoded; sub_delims]).
Definition ihost : rex cclass := alts [IP_literal; IPv4address; ireg_name].
Definition iauthority : rex cclass := cats [opt (Cat iuserinfo c_at); ihost; opt (Cat c_colon port)].
Definition iquery : rex cclass := Star (alts [ipchar; iprivate; c_slash; c_qmark]).
Definition ifragment : rex cclass := Star (alts [ipchar; c_slash; c_qmark]).
Definition ihier_part : rex cclass :=
  alts [cats [c_slash; c_slash; iauthority; ipath_abempty]; ipath_absolute; ipath_rootless; ipath_empty].
Definition irelative_part : rex cclass :=
  alts [cats [c_slash; c_slash; iauthority; ipath_abempty]; ipath_absolute; ipath_noscheme; ipath_empty].

Definition IRI : rex cclass :=
  cats [scheme; c_colon; ihier_part; opt (Cat c_qmark iquery); opt (Cat c_hash ifragment)].
Definition irelative_ref : rex cclass :=
  cats [irelative_part; opt (Cat c_qmark iquery); opt (Cat c_hash ifragment)].
Definition IRI_reference : rex cclass := Alt IRI irelative_ref.
Definition absolute_IRI : rex cclass := cats [scheme; c_colon; ihier_part; opt (Cat c_qmark iquery)].
