(* C03/Adapters.v -- what sits BETWEEN the serialiser / the parser and the user of C03's round trip.
   Definitions only (proofs: AdaptersProofs.v).

   Part 1, the writing end.  NtSerializer / NqSerializer hand their text, buffer after buffer, to
   `std::io::Write::write_all` of whatever target they were given.  `write` may accept only a
   prefix of the buffer it is offered (pipes, sockets, encoders, size-capped targets), may be
   interrupted, may fail.  Transcribed here:
     std::io::Write::write_all      while !buf.is_empty() { match self.write(buf) {
                                      Ok(0) => return Err(WriteZero), Ok(n) => buf = &buf[n..],
                                      Err(e) if e.is_interrupted() => {}, Err(e) => return Err(e) } } Ok(())
     the serialisers' closures      every `w.write_all(..)?` in program order: the first error ends the call
   The target is a probe described by data: its answers call after call (`Take k`: at most k bytes
   of what is offered, `Intr`: ErrorKind::Interrupted, `Fail`: any other error; after the list it takes
   everything it is offered) and an optional total budget of bytes after which every call fails
   (by an error or by Ok(0), which write_all turns into WriteZero: the same for the caller).
   Nothing is assumed about HOW the text is cut into buffers (`bufs` is any list of buffers): the
   theorems hold for every chunking, in particular for the one of nt.rs (C15/SerializerSink.v
   transcribes that one) and for any coarser one a serialiser may adopt.

   Part 2, the reading end.  A parser is a `Source`: every call of `try_for_some_item` delivers some
   items (possibly none) and answers Ok(true) (call again), Ok(false) (no more items) or Err.
   Transcribed here from api/src/source.rs, api/src/source/{filter,filter_map,map}.rs:
     Source::try_for_each_item         while self.try_for_some_item(&mut f)? {}
     FilterSource::try_for_some_item   the same call, the sink is given the items that satisfy the predicate
     {Map,FilterMap}SourceIterator::next
                                       let mut remaining = true; (buffer taken out of self)
                                       while buffer.is_empty() && remaining {
                                         match self.source.for_some_item(|i| push Ok(map(i)) if kept) {
                                           Ok(b) => remaining = b, Err(e) => { push Err(e); remaining = false } } }
                                       (buffer put back) self.buffer.pop_front()
     Iterator::collect::<Result<Vec<_>, _>>   next() until None or the first Err
   A source is described by data: the list of its rounds (items delivered, answer); after the list
   it delivers nothing and answers Ok(false), for ever. *)
From Sophia.Common Require Import Prelude Term.
From Sophia.C03 Require Import Model.

(* ================================ Part 1: io::Write targets ================================ *)
Inductive wout := Take (k : N) | Intr | Fail.

Definition cap (bud : option nat) (n : nat) : nat :=
  match bud with None => n | Some b => Nat.min b n end.
Definition spend (bud : option nat) (n : nat) : option nat :=
  match bud with None => None | Some b => Some (b - n)%nat end.
Definition broke (bud : option nat) : bool :=
  match bud with Some O => true | _ => false end.

(* the state of a target: answers left, budget left, bytes received; plus the verdict of the call *)
Definition wstate := (list wout * option nat * list N * bool)%type.

Fixpoint write_all (ans : list wout) (bud : option nat) (buf got : list N) {struct ans} : wstate :=
  match buf with
  | [] => (ans, bud, got, true)
  | _ :: _ =>
      if broke bud then (ans, bud, got, false)
      else match ans with
           | [] =>
               (* takes all it can, call after call: the whole buffer, or what is left of the
                  budget and then a failing call *)
               let n := cap bud (length buf) in
               ([], spend bud n, got ++ firstn n buf, Nat.eqb n (length buf))
           | Take k :: ans' =>
               let n := Nat.min (N.to_nat k) (cap bud (length buf)) in
               match n with
               | O => (ans', bud, got, false)   (* Ok(0) on a non-empty buffer: WriteZero *)
               | S _ => write_all ans' (spend bud n) (skipn n buf) (got ++ firstn n buf)
               end
           | Intr :: ans' => write_all ans' bud buf got
           | Fail :: ans' => (ans', bud, got, false)
           end
  end.

(* the buffers of one call of serialize_triples / serialize_quads, in program order *)
Fixpoint write_bufs (ans : list wout) (bud : option nat) (bufs : list (list N)) (got : list N) : wstate :=
  match bufs with
  | [] => (ans, bud, got, true)
  | b :: bs =>
      match write_all ans bud b got with
      | (ans', bud', got', true) => write_bufs ans' bud' bs got'
      | st => st
      end
  end.

Definition received (st : wstate) : list N := let '(_, _, got, _) := st in got.
Definition verdict (st : wstate) : bool := let '(_, _, _, ok) := st in ok.

(* a target that never gives up: no failing answer, no Ok(0) *)
Definition patient1 (a : wout) : bool :=
  match a with Take k => negb (k =? 0) | Intr => true | Fail => false end.
Definition patient (ans : list wout) : bool := forallb patient1 ans.

(* any way of cutting the statements into buffers *)
Definition chunking := quad -> list (list N).
Definition faithful_on (ch : chunking) (qs : list quad) : Prop :=
  forall q, In q qs -> concat (ch q) = nq_write_quad q.
(* coarsest and finest chunkings: one buffer per statement, one buffer per byte *)
Definition per_statement : chunking := fun q => [nq_write_quad q].
Definition per_byte : chunking := fun q => map (fun b => [b]) (nq_write_quad q).
(* a serialiser that assembles its text in memory and hands it over in blocks of sz+1 bytes, the
   remainder at the end: still a chunking of the same text *)
Fixpoint blocks_f (fuel sz : nat) (txt : list N) : list (list N) :=
  match fuel with
  | O => [txt]
  | S f => if (length txt <=? sz)%nat then [txt] else firstn (S sz) txt :: blocks_f f sz (skipn (S sz) txt)
  end.
Definition blocks (sz : nat) (txt : list N) : list (list N) := blocks_f (length txt) sz txt.

(* ---- harness-facing ----
   The text of `qs` was written in ONE call to a target with patient answers and the given total
   budget (None: unlimited): `nrecv` bytes arrived and the serialiser answered `ok`. *)
Definition model_text (nq : bool) (qs : list quad) : list N :=
  if nq then nq_write qs else nt_write (nt_of qs).
Definition obudget (bud : option N) : option nat :=
  match bud with None => None | Some b => Some (N.to_nat b) end.
Definition sink_ok (nq : bool) (qs : list quad) (bud : option N) (nrecv : N) (ok : bool) : bool :=
  let st := write_bufs [] (obudget bud) [model_text nq qs] [] in
  (N.of_nat (length (received st)) =? nrecv) && Bool.eqb (verdict st) ok.
(* several targets for the same text (the text is computed once) *)
Definition sink_text_ok (text : list N) (o : option N * N * bool) : bool :=
  let '(bud, nrecv, ok) := o in
  let st := write_bufs [] (obudget bud) [text] [] in
  (N.of_nat (length (received st)) =? nrecv) && Bool.eqb (verdict st) ok.
Definition sinks_ok (nq : bool) (qs : list quad) (obs : list (option N * N * bool)) : bool :=
  let text := model_text nq qs in forallb (sink_text_ok text) obs.
(* the same with the bytes that arrived *)
Definition sink_bytes_ok (nq : bool) (qs : list quad) (bud : option N) (recv : list N) (ok : bool) : bool :=
  let st := write_bufs [] (obudget bud) [model_text nq qs] [] in
  bytes_eqb (received st) recv && Bool.eqb (verdict st) ok.

(* ================================ Part 2: sources and their adapters ================================ *)
Inductive answer := More | Done | Broke.       (* Ok(true) | Ok(false) | Err(source error) *)
Definition round (A : Type) := (list A * answer)%type.

(* Source::try_for_each_item with a sink that never fails: the items delivered, and Ok / Err *)
Fixpoint for_each {A} (rs : list (round A)) : list A * bool :=
  match rs with
  | [] => ([], true)
  | (xs, More) :: rs' => let (ys, ok) := for_each rs' in (xs ++ ys, ok)
  | (xs, Done) :: _ => (xs, true)
  | (xs, Broke) :: _ => (xs, false)
  end.

(* FilterSource: the same rounds, the sink sees the items that satisfy the predicate *)
Definition filter_rounds {A} (p : A -> bool) (rs : list (round A)) : list (round A) :=
  map (fun r : round A => (filter p (fst r), snd r)) rs.
(* MapSource as a Source *)
Definition map_rounds {A B} (g : A -> B) (rs : list (round A)) : list (round B) :=
  map (fun r : round A => (map g (fst r), snd r)) rs.

(* what the iterators keep in their buffer: Ok(t) | Err(e) *)
Inductive item (B : Type) := Got (y : B) | Failed.
Arguments Got {B} y.
Arguments Failed {B}.

Definition pushes {A B} (f : A -> option B) (xs : list A) : list (item B) :=
  flat_map (fun x => match f x with Some y => [Got y] | None => [] end) xs.

(* the `while buffer.is_empty() && remaining` loop of next(), entered with an empty buffer:
   the buffer it leaves and the rounds not yet played *)
Fixpoint fill {A B} (f : A -> option B) (rs : list (round A)) : list (item B) * list (round A) :=
  match rs with
  | [] => ([], [])
  | (xs, a) :: rs' =>
      let buf := pushes f xs ++ match a with Broke => [Failed] | _ => [] end in
      match buf, a with
      | [], More => fill f rs'
      | _, _ => (buf, rs')
      end
  end.

(* FilterMapSourceIterator::next (MapSourceIterator::next is the case f = Some o g) *)
Definition next {A B} (f : A -> option B) (st : list (item B) * list (round A))
  : option (item B) * (list (item B) * list (round A)) :=
  let (buffer, rs) := st in
  match buffer with
  | y :: b' => (Some y, (b', rs))
  | [] => match fill f rs with
          | (y :: b', rs') => (Some y, (b', rs'))
          | ([], rs') => (None, ([], rs'))
          end
  end.

(* collect::<Result<Vec<_>, _>>() *)
Fixpoint iter_run {A B} (fuel : nat) (f : A -> option B) (st : list (item B) * list (round A))
  : list B * bool :=
  match fuel with
  | O => ([], true)
  | S n =>
      match next f st with
      | (None, _) => ([], true)
      | (Some (Got y), st') => let (ys, ok) := iter_run n f st' in (y :: ys, ok)
      | (Some Failed, _) => ([], false)
      end
  end.
Definition items_of {A} (rs : list (round A)) : nat := length (concat (map fst rs)).
Definition iter_collect {A B} (f : A -> option B) (rs : list (round A)) : list B * bool :=
  iter_run (S (items_of rs + length rs)) f ([], rs).

(* a source that is really over once it has answered Ok(false) *)
Fixpoint settled {A} (rs : list (round A)) : bool :=
  match rs with
  | [] => true
  | (_, More) :: rs' => settled rs'
  | (_, Done) :: rs' => forallb (fun r : round A => match r with ([], Done) => true | _ => false end) rs'
  | (_, Broke) :: _ => true
  end.

Definition filter_map {A B} (f : A -> option B) (xs : list A) : list B :=
  flat_map (fun x => match f x with Some y => [y] | None => [] end) xs.

(* ---- harness-facing ----
   `tr`: what the calls of try_for_some_item of the real parser did on a text (items delivered,
   answer), observed step by step.  The items are numbered in order of delivery. *)
Fixpoint number_rounds (from : N) (tr : list (N * answer)) : list (round N) :=
  match tr with
  | [] => []
  | (n, a) :: tr' =>
      (map (fun i => from + N.of_nat i) (seq 0 (N.to_nat n)), a) :: number_rounds (from + n) tr'
  end.
(* keep everything (m = 0) or the items whose number is not a multiple of m *)
Definition keep (m : N) (i : N) : option N :=
  if m =? 0 then Some i else if (i mod m) =? 0 then None else Some i.
Definition nlist_eqb (a b : list N) : bool := list_eqb N.eqb a b.
(* the real iterator (filter_map_* + into_iter, closure `keep m` on the running number) gave the
   items numbered `got` and then ended (ok) or produced an Err (not ok) *)
Definition iter_trace_ok (m : N) (tr : list (N * answer)) (got : list N) (ok : bool) : bool :=
  let r := iter_collect (keep m) (number_rounds 0 tr) in
  nlist_eqb (fst r) got && Bool.eqb (snd r) ok.
(* the real for_each_* (through filter_* with the same predicate) delivered the items numbered `got` *)
Definition each_trace_ok (m : N) (tr : list (N * answer)) (got : list N) (ok : bool) : bool :=
  let r := for_each (filter_rounds (fun i => match keep m i with Some _ => true | None => false end) (number_rounds 0 tr)) in
  nlist_eqb (fst r) got && Bool.eqb (snd r) ok.
(* the trace is the one of a source that is over once it says so, and it delivered `n` items *)
Definition trace_ok (tr : list (N * answer)) (n : N) : bool :=
  settled (number_rounds 0 tr) && (N.of_nat (length (fst (for_each (number_rounds 0 tr)))) =? n).
