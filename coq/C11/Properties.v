(* C11/Properties.v -- the pinned statements of property C11 and their assumptions.
   Nothing else lives here: each statement is re-stated in full with [Check ... : ...]
   so that it cannot be quietly weakened in Proofs.v. *)
From Sophia.C11 Require Import Model Proofs.

Section Pins.
Variable T : Type.
Variable eqb : T -> T -> bool.
Hypothesis eqb_spec : forall x y, eqb x y = true <-> x = y.

(* 1. union graph: content and queries *)
Check (union_content T : forall d, union_triples T d = map qt d).
Check (union_query_is_filter T : forall d sm pm om,
  union_matching T d sm pm om = filter (triple_matches T sm pm om) (union_triples T d)).
(* 2. partial union graph *)
Check (punion_content T : forall d m,
  punion_triples T d m = map qt (filter (fun q => m (qg q)) d)).
Check (punion_query_is_filter T : forall d m sm pm om,
  punion_matching T d m sm pm om = filter (triple_matches T sm pm om) (punion_triples T d m)).
(* 3. one graph of a dataset *)
Check (dg_member T eqb eqb_spec : forall d g t, In t (dg_triples T eqb d g) <-> In (mkQ t g) d).
Check (dg_query_is_filter T eqb : forall d g sm pm om,
  dg_matching T eqb d g sm pm om = filter (triple_matches T sm pm om) (dg_triples T eqb d g)).
Check (dg_nodup T eqb eqb_spec : forall d g, NoDup d -> NoDup (dg_triples T eqb d g)).
(* 4. mutation through a view *)
Check (dg_insert_is_direct T eqb : forall d g t, dg_insert T eqb d g t = ds_insert T eqb d (mkQ t g)).
Check (dg_remove_is_direct T eqb : forall d g t, dg_remove T eqb d g t = ds_remove T eqb d (mkQ t g)).
Check (dg_insert_effect T eqb eqb_spec : forall d g t d' b,
  dg_insert T eqb d g t = (d', b) ->
  b = negb (existsb (triple_eqb T eqb t) (dg_triples T eqb d g))
  /\ (forall t', In t' (dg_triples T eqb d' g) <-> In t' (dg_triples T eqb d g) \/ t' = t)
  /\ (forall g', g' <> g -> dg_triples T eqb d' g' = dg_triples T eqb d g')
  /\ (NoDup d -> NoDup d')).
Check (dg_remove_effect T eqb eqb_spec : forall d g t d' b,
  dg_remove T eqb d g t = (d', b) ->
  b = existsb (triple_eqb T eqb t) (dg_triples T eqb d g)
  /\ (forall t', In t' (dg_triples T eqb d' g) <-> In t' (dg_triples T eqb d g) /\ t' <> t)
  /\ (forall g', g' <> g -> dg_triples T eqb d' g' = dg_triples T eqb d g')
  /\ (NoDup d -> NoDup d')).
(* 4b. bulk mutation through a view touches the viewed graph only *)
Check (dg_remove_matching_effect T eqb eqb_spec : forall d g sm pm om,
  let d' := fst (dg_remove_matching T eqb d g sm pm om) in
  (forall t, In t (dg_triples T eqb d' g) <->
             In t (dg_triples T eqb d g) /\ triple_matches T sm pm om t = false)
  /\ (forall g', g' <> g -> dg_triples T eqb d' g' = dg_triples T eqb d g')
  /\ (NoDup d -> NoDup d')).
Check (dg_retain_matching_effect T eqb eqb_spec : forall d g sm pm om,
  let d' := dg_retain_matching T eqb d g sm pm om in
  (forall t, In t (dg_triples T eqb d' g) <->
             In t (dg_triples T eqb d g) /\ triple_matches T sm pm om t = true)
  /\ (forall g', g' <> g -> dg_triples T eqb d' g' = dg_triples T eqb d g')
  /\ (NoDup d -> NoDup d')).
(* 5. graph as dataset *)
Check (gad_content T : forall g, gad_quads T g = map (fun t => mkQ t None) g).
Check (gad_query_is_filter T : forall g sm pm om gm,
  gad_quads_matching T g sm pm om gm =
  filter (fun q => triple_matches T sm pm om (qt q) && gm (qg q)) (gad_quads T g)).
Check (gad_contains_spec T eqb eqb_spec : forall g q,
  gad_contains T eqb g q = true <-> In q (gad_quads T g)).
Check (gad_insert_effect T eqb eqb_spec : forall g q g' r,
  gad_insert T eqb g q = (g', r) ->
  match qg q with
  | None => r = GadOk (negb (gad_contains T eqb g q))
            /\ (forall x, In x (gad_quads T g') <-> In x (gad_quads T g) \/ x = q)
            /\ (NoDup g -> NoDup g')
  | Some _ => r = GadOnlyDefaultGraph /\ g' = g
  end).
Check (gad_remove_effect T eqb eqb_spec : forall g q g' r,
  gad_remove T eqb g q = (g', r) ->
  r = GadOk (gad_contains T eqb g q)
  /\ (forall x, In x (gad_quads T g') <-> In x (gad_quads T g) /\ x <> q)
  /\ (NoDup g -> NoDup g')).
End Pins.

(* 6. every reachable state / whole histories *)
Check (reachable_nodup : forall pl ops, NoDup (final pl [] ops)).
Check (history_devirt : forall pl d ops, run pl d ops = run pl d (map devirt ops)).

Print Assumptions union_content.
Print Assumptions union_query_is_filter.
Print Assumptions punion_content.
Print Assumptions punion_query_is_filter.
Print Assumptions dg_member.
Print Assumptions dg_query_is_filter.
Print Assumptions dg_nodup.
Print Assumptions dg_insert_is_direct.
Print Assumptions dg_remove_is_direct.
Print Assumptions dg_insert_effect.
Print Assumptions dg_remove_effect.
Print Assumptions dg_remove_matching_effect.
Print Assumptions dg_retain_matching_effect.
Print Assumptions gad_content.
Print Assumptions gad_query_is_filter.
Print Assumptions gad_contains_spec.
Print Assumptions gad_insert_effect.
Print Assumptions gad_remove_effect.
Print Assumptions reachable_nodup.
Print Assumptions history_devirt.
