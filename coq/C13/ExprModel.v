(* C13/ExprModel.v -- the EXPRESSION layer of property C13, definitions only.

   Two executable evaluators over the same expression syntax [expr] (spargebra's Expression for
   the fragment: constants, variables, || && !, = sameTerm < <= > >=, IN, + - * / unary + -,
   BOUND, IF, COALESCE, STR LANG DATATYPE isIRI isBlank isLiteral isNumeric; `!=` and NOT IN are
   Not(Equal), Not(In) in spargebra's algebra):

   * [s_eval]  SPEC: SPARQL 1.1 section 17 written from the Recommendation (17.2 filter
     evaluation and three-valued logic, 17.2.2 effective boolean value, 17.3 operator mapping
     with numeric type promotion and subtype substitution, 17.4.1 functional forms, 17.4.2
     functions on RDF terms), XSD lexical-to-value mappings for the datatypes of 17.1, and the
     XPath F&O operators the table refers to.  A [dialect] switches on three operator
     extensions in the sense of 17.3.1 and the one genuine difference the crate's tests pin.

   * [i_eval]  IMPLEMENTATION: sparql/src/expression.rs (ArcExpression::eval, EvalResult),
     value.rs (SparqlValue), value/_number.rs (through NumModel.v), function.rs, stash.rs
     (value_to_term), function by function.  A [cfg] says which of the proposed repairs
     build/proposed/C13e-<n>.diff are applied ([cfg_head] = none, [cfg_fixed] = all).

   What is abstract (record [xlib], shared by both evaluators; ExprConcrete.v gives the
   instance used to run the model against the engine): the IEEE-754 operations, casts, lexical
   mapping, Rust parser and formatter of xsd:float / xsd:double; the rounding of decimal
   division (F&O: implementation-defined precision); the lexical mapping and order of
   xsd:dateTime.  Integers, decimals (exact, normalised mantissa/scale pairs; BigDecimal's own
   arithmetic is third-party and modelled by value), strings, booleans, terms, every error
   rule and every dispatch on types are concrete. *)
From Coq Require Import String Ascii.
From Sophia.C13 Require Export Model NumModel.

(* ------------------------------------------------------------------------------------ *)
(* 0. strings                                                                            *)
(* ------------------------------------------------------------------------------------ *)
Fixpoint L (s : String.string) : str :=
  match s with
  | String.EmptyString => []
  | String.String c r => Ascii.N_of_ascii c :: L r
  end.
Definition xsd_ns : str := Eval vm_compute in L "http://www.w3.org/2001/XMLSchema#"%string.
Definition xsd (local : String.string) : str := xsd_ns ++ L local.
Definition xsd_integer_iri : str := Eval vm_compute in xsd "integer"%string.
Definition xsd_decimal_iri : str := Eval vm_compute in xsd "decimal"%string.
Definition xsd_float_iri : str := Eval vm_compute in xsd "float"%string.
Definition xsd_double_iri : str := Eval vm_compute in xsd "double"%string.
Definition xsd_string_iri : str := Eval vm_compute in xsd "string"%string.
Definition xsd_boolean_iri : str := Eval vm_compute in xsd "boolean"%string.
Definition xsd_dateTime_iri : str := Eval vm_compute in xsd "dateTime"%string.
Definition l_true : str := Eval vm_compute in L "true"%string.
Definition l_false : str := Eval vm_compute in L "false"%string.
Definition l_illformed : str := Eval vm_compute in L "ill-formed"%string.
Definition eqs (a : str) (b : String.string) : bool := str_eqb a (L b).

Fixpoint strip_pre (p s : str) : option str :=
  match p, s with
  | [], _ => Some s
  | x :: p', y :: s' => if N.eqb x y then strip_pre p' s' else None
  | _ :: _, [] => None
  end.
Definition is_nil {A} (l : list A) : bool := match l with [] => true | _ => false end.
Definition is_some {A} (o : option A) : bool := match o with Some _ => true | None => false end.
Definition bind {A B} (o : option A) (f : A -> option B) : option B :=
  match o with Some x => f x | None => None end.

Definition is_digit (c : N) : bool := (48 <=? c) && (c <=? 57).
Definition dval (c : N) : Z := Z.of_N (c - 48).
(* value of a (possibly empty) sequence of ASCII digits, continuing from [acc] *)
Fixpoint digits_val (acc : Z) (s : str) : option Z :=
  match s with
  | [] => Some acc
  | c :: r => if is_digit c then digits_val (10 * acc + dval c)%Z r else None
  end.
Definition all_digits (s : str) : bool := forallb is_digit s.
Definition sgn (neg : bool) (z : Z) : Z := if neg then (- z)%Z else z.
(* split at the first character satisfying p (which is dropped) *)
Fixpoint split_first (p : N -> bool) (s : str) : str * option str :=
  match s with
  | [] => ([], None)
  | c :: r => if p c then ([], Some r) else let '(a, b) := split_first p r in (c :: a, b)
  end.
Definition is_dot (c : N) : bool := c =? 46.
Definition is_e (c : N) : bool := (c =? 101) || (c =? 69).
Definition is_us (c : N) : bool := c =? 95.
Definition is_alpha (c : N) : bool := ((65 <=? c) && (c <=? 90)) || ((97 <=? c) && (c <=? 122)).

(* ------------------------------------------------------------------------------------ *)
(* 1. decimals: m * 10^-s, normalised (s = 0 or m not divisible by 10)                   *)
(* ------------------------------------------------------------------------------------ *)
Definition dec := (Z * N)%type.
Definition pow10 (n : N) : Z := (10 ^ Z.of_N n)%Z.
Fixpoint dnorm_fuel (fuel : nat) (m : Z) (s : N) : dec :=
  match fuel with
  | O => (m, s)
  | S f => if (s =? 0) then (m, s)
           else if (m mod 10 =? 0)%Z then dnorm_fuel f (m / 10)%Z (s - 1) else (m, s)
  end.
Definition dnorm (d : dec) : dec :=
  if (fst d =? 0)%Z then (0%Z, 0) else dnorm_fuel (N.to_nat (snd d)) (fst d) (snd d).
Definition dalign (a b : dec) : Z * Z * N :=
  let sc := N.max (snd a) (snd b) in
  ((fst a * pow10 (sc - snd a))%Z, (fst b * pow10 (sc - snd b))%Z, sc).
Definition dadd (a b : dec) : dec := let '(x, y, sc) := dalign a b in dnorm ((x + y)%Z, sc).
Definition dsub (a b : dec) : dec := let '(x, y, sc) := dalign a b in dnorm ((x - y)%Z, sc).
Definition dmul (a b : dec) : dec := dnorm ((fst a * fst b)%Z, snd a + snd b).
Definition dneg (a : dec) : dec := ((- fst a)%Z, snd a).
Definition dabs (a : dec) : dec := (Z.abs (fst a), snd a).
Definition dcmp (a b : dec) : comparison := let '(x, y, _) := dalign a b in (x ?= y)%Z.
Definition dis_zero (a : dec) : bool := (fst a =? 0)%Z.
Definition dec_of_int (z : Z) : dec := (z, 0).
(* BigDecimal { int_val, scale : i64 } -> its value *)
Definition dec_of_big (p : Z * Z) : dec :=
  let '(m, sc) := p in
  if (0 <=? sc)%Z then dnorm (m, Z.to_N sc) else ((m * 10 ^ (- sc))%Z, 0).

(* ------------------------------------------------------------------------------------ *)
(* 2. what stays abstract                                                                *)
(* ------------------------------------------------------------------------------------ *)
Record xlib := mkX {
  flt : Type; dbl : Type; dtv : Type;
  (* xsd:float = f32 *)
  f_lex : str -> option flt;        (* XSD lexical-to-value mapping; None outside the lexical space *)
  f_rust : str -> option flt;       (* str::parse::<f32>() *)
  f_print : flt -> str;             (* format!("{f:e}") *)
  f_add : flt -> flt -> flt; f_sub : flt -> flt -> flt; f_mul : flt -> flt -> flt;
  f_div : flt -> flt -> flt; f_neg : flt -> flt; f_abs : flt -> flt;
  f_cmp : flt -> flt -> option comparison;   (* partial_cmp: None iff a NaN is involved *)
  f_is_zero : flt -> bool; f_is_nan : flt -> bool;
  f_of_Z : Z -> flt; f_of_dec : dec -> flt; f_of_dbl : dbl -> flt;
  (* xsd:double = f64 *)
  d_lex : str -> option dbl; d_rust : str -> option dbl; d_print : dbl -> str;
  d_add : dbl -> dbl -> dbl; d_sub : dbl -> dbl -> dbl; d_mul : dbl -> dbl -> dbl;
  d_div : dbl -> dbl -> dbl; d_neg : dbl -> dbl; d_abs : dbl -> dbl;
  d_cmp : dbl -> dbl -> option comparison;
  d_is_zero : dbl -> bool; d_is_nan : dbl -> bool;
  d_of_Z : Z -> dbl; d_of_dec : dec -> dbl; d_of_flt : flt -> dbl;
  (* decimal division: the rounding of a non-terminating quotient is implementation-defined *)
  x_ddiv : dec -> dec -> dec;
  (* xsd:dateTime: lexical mapping (= XsdDateTime::new) and the order relation of XSD 3.2.7.4
     (None = indeterminate), which sophia uses instead of an implicit timezone *)
  dt_lex : str -> option dtv;
  dt_cmp : dtv -> dtv -> option comparison;
  dt_print : dtv -> str
}.

(* ------------------------------------------------------------------------------------ *)
(* 3. XSD lexical-to-value mappings (XML Schema part 2), written from the Recommendation *)
(* ------------------------------------------------------------------------------------ *)
Definition is_minus (c : N) : bool := c =? 45.
Definition is_plus (c : N) : bool := c =? 43.
Definition strip_sign (s : str) : bool * str :=
  match s with
  | c :: r => if is_minus c then (true, r) else if is_plus c then (false, r) else (false, s)
  | [] => (false, s)
  end.
(* integer: optional sign, then at least one digit *)
Definition xsd_integer (s : str) : option Z :=
  let '(neg, r) := strip_sign s in
  match r with [] => None | _ => option_map (sgn neg) (digits_val 0 r) end.
(* decimal: optional sign, then digits with an optional point; at least one digit *)
Definition xsd_decimal (s : str) : option dec :=
  let '(neg, r) := strip_sign s in
  let '(i, fo) := split_first is_dot r in
  let f := match fo with Some f => f | None => [] end in
  if all_digits i && all_digits f && negb (is_nil i && is_nil f) then
    option_map (fun m => dnorm (sgn neg m, N.of_nat (length f))) (digits_val 0 (i ++ f))
  else None.
(* membership in the lexical spaces (used by repair C13e-6) *)
Definition int_syntax (s : str) : bool :=
  let '(_, r) := strip_sign s in negb (is_nil r) && all_digits r.
Definition dec_syntax (s : str) : bool :=
  let '(_, r) := strip_sign s in
  let '(i, fo) := split_first is_dot r in
  let f := match fo with Some f => f | None => [] end in
  all_digits i && all_digits f && negb (is_nil i && is_nil f).
(* float, double: INF, +INF, -INF, NaN, or a decimal with an optional integer exponent *)
Definition float_syntax (s : str) : bool :=
  eqs s "INF" || eqs s "+INF" || eqs s "-INF" || eqs s "NaN"
  || (let '(m, eo) := split_first is_e s in
      dec_syntax m && match eo with None => true | Some ex => int_syntax ex end).
(* boolean: true | false | 1 | 0 *)
Definition xsd_boolean (s : str) : option bool :=
  if str_eqb s l_true || str_eqb s [49] then Some true
  else if str_eqb s l_false || str_eqb s [48] then Some false else None.

(* the numeric datatypes of SPARQL 17.1: the four primitive ones and the types derived from
   xsd:integer, with their value ranges *)
Inductive numtype := TInteger | TDecimal | TFloat | TDouble | TDerived (lo hi : option Z).
Definition numtype_of (local : str) : option numtype :=
  if eqs local "integer" then Some TInteger
  else if eqs local "decimal" then Some TDecimal
  else if eqs local "float" then Some TFloat
  else if eqs local "double" then Some TDouble
  else if eqs local "nonPositiveInteger" then Some (TDerived None (Some 0%Z))
  else if eqs local "negativeInteger" then Some (TDerived None (Some (-1)%Z))
  else if eqs local "long" then Some (TDerived (Some (- 2 ^ 63)%Z) (Some (2 ^ 63 - 1)%Z))
  else if eqs local "int" then Some (TDerived (Some (- 2 ^ 31)%Z) (Some (2 ^ 31 - 1)%Z))
  else if eqs local "short" then Some (TDerived (Some (- 2 ^ 15)%Z) (Some (2 ^ 15 - 1)%Z))
  else if eqs local "byte" then Some (TDerived (Some (-128)%Z) (Some 127%Z))
  else if eqs local "nonNegativeInteger" then Some (TDerived (Some 0%Z) None)
  else if eqs local "unsignedLong" then Some (TDerived (Some 0%Z) (Some (2 ^ 64 - 1)%Z))
  else if eqs local "unsignedInt" then Some (TDerived (Some 0%Z) (Some (2 ^ 32 - 1)%Z))
  else if eqs local "unsignedShort" then Some (TDerived (Some 0%Z) (Some (2 ^ 16 - 1)%Z))
  else if eqs local "unsignedByte" then Some (TDerived (Some 0%Z) (Some 255%Z))
  else if eqs local "positiveInteger" then Some (TDerived (Some 1%Z) None)
  else None.
Definition in_range (lo hi : option Z) (z : Z) : bool :=
  match lo with Some l => (l <=? z)%Z | None => true end &&
  match hi with Some h => (z <=? h)%Z | None => true end.

(* ------------------------------------------------------------------------------------ *)
(* 4. the Rust parsers the implementation calls (core, num-bigint 0.4, bigdecimal 0.4)   *)
(* ------------------------------------------------------------------------------------ *)
(* <iN/uN as FromStr>: one optional sign ('-' only for signed types), at least one digit,
   no overflow *)
Definition rust_prim (signed : bool) (lo hi : Z) (s : str) : option Z :=
  let '(neg, r) := match s with
                   | c :: r => if is_plus c then (false, r)
                               else if is_minus c && signed then (true, r) else (false, s)
                   | [] => (false, s)
                   end in
  match r with
  | [] => None
  | _ => match digits_val 0 r with
         | Some m => let z := sgn neg m in if (lo <=? z)%Z && (z <=? hi)%Z then Some z else None
         | None => None
         end
  end.
(* BigUint::from_str_radix(s, 10): underscores are skipped, but not in first position *)
Fixpoint biguint_digits (acc : Z) (s : str) : option Z :=
  match s with
  | [] => Some acc
  | c :: r => if is_us c then biguint_digits acc r
              else if is_digit c then biguint_digits (10 * acc + dval c)%Z r else None
  end.
Definition rust_biguint (s : str) : option Z :=
  let s := match s with
           | c :: t => if is_plus c then match t with
                                         | c' :: _ => if is_plus c' then s else t
                                         | [] => t
                                         end
                       else s
           | [] => s
           end in
  match s with
  | [] => None
  | c :: _ => if is_us c then None else biguint_digits 0 s
  end.
(* BigInt::from_str *)
Definition rust_bigint (s : str) : option Z :=
  match s with
  | c :: t =>
      if is_minus c then
        match t with
        | c' :: _ => if is_plus c' then None    (* "-+..." goes unchanged to BigUint, which rejects '-' *)
                     else option_map Z.opp (rust_biguint t)
        | [] => option_map Z.opp (rust_biguint t)
        end
      else rust_biguint s
  | [] => rust_biguint s
  end.
(* BigDecimal::from_str: (int_val, scale) *)
Definition in_i64 (z : Z) : bool := ((- 2 ^ 63 <=? z) && (z <=? 2 ^ 63 - 1))%Z.
Definition rust_bigdecimal (s : str) : option (Z * Z) :=
  let '(base, eo) := split_first is_e s in
  match (match eo with
         | None => Some 0%Z
         | Some ex => rust_prim true (- 2 ^ 127)%Z (2 ^ 127 - 1)%Z ex      (* i128::from_str *)
         end) with
  | None => None
  | Some ev =>
      match base with
      | [] => None
      | _ =>
          let '(lead, tr) := split_first is_dot base in
          let '(digits, off) :=
            match tr with
            | None => (base, 0%Z)
            | Some [] => (lead, 0%Z)                       (* the dot is the last character *)
            | Some trail => (lead ++ trail,
                             Z.of_nat (length (filter (fun c => negb (is_us c)) trail)))
            end in
          let scale := (off - ev)%Z in
          (* to_i64: without exponent the scale is a count of characters, which always fits *)
          if in_i64 scale || negb (is_some eo)
          then option_map (fun m => (m, scale)) (rust_bigint digits) else None
      end
  end.

(* ------------------------------------------------------------------------------------ *)
(* 5. formatters                                                                         *)
(* ------------------------------------------------------------------------------------ *)
(* <isize / BigInt as Display> *)
Fixpoint nat_digits (fuel : nat) (n : Z) (acc : str) : str :=
  match fuel with
  | O => acc
  | S f => let acc' := (48 + Z.to_N (n mod 10)) :: acc in
           if (n / 10 =? 0)%Z then acc' else nat_digits f (n / 10)%Z acc'
  end.
Definition nat_str (n : Z) : str := nat_digits (S (Z.to_nat (Z.log2 n))) n [].
Definition z_to_str (z : Z) : str := if (z <? 0)%Z then 45 :: nat_str (- z) else nat_str z.
(* value.rs dec2string on a normalised decimal with positive scale:
   BigDecimal's Display switches to scientific notation when more than 5 zeros follow the
   decimal point (EXPONENTIAL_FORMAT_LEADING_ZERO_THRESHOLD); to_plain_string never does *)
Definition dec_plain (m : Z) (s : N) : str :=
  let ds := nat_str (Z.abs m) in
  let L := N.of_nat (length ds) in
  (if (m <? 0)%Z then [45] else []) ++
  (if s <? L then firstn (N.to_nat (L - s)) ds ++ [46] ++ skipn (N.to_nat (L - s)) ds
   else [48; 46] ++ repeat 48 (N.to_nat (s - L)) ++ ds).
Definition dec_sci (m : Z) (s : N) : str :=
  let ds := nat_str (Z.abs m) in
  let L := Z.of_nat (length ds) in
  (if (m <? 0)%Z then [45] else []) ++
  (match ds with c :: (_ :: _) as r => c :: 46 :: r | _ => ds end) ++
  [69] ++ (let ex := (L - Z.of_N s - 1)%Z in
           if (0 <=? ex)%Z then 43 :: z_to_str ex else z_to_str ex).
Definition dec2string (plain : bool) (d : dec) : str :=
  let '(m, s) := dnorm d in                                   (* d.normalized() *)
  if s =? 0 then z_to_str m ++ [46; 48]                       (* "{}.0" of with_scale(0) *)
  else
    let L := N.of_nat (length (nat_str (Z.abs m))) in
    if negb plain && (5 <? s - L) then dec_sci m s else dec_plain m s.

(* ------------------------------------------------------------------------------------ *)
(* 6. expressions                                                                        *)
(* ------------------------------------------------------------------------------------ *)
Inductive fn1 := FStr | FLang | FDatatype | FIsIri | FIsBlank | FIsLiteral | FIsNumeric.
Inductive expr :=
| EConst (t : term)                    (* NamedNode / Literal *)
| EVar (v : str)
| EBound (v : str)
| EOr (a b : expr) | EAnd (a b : expr) | ENot (a : expr)
| EEq (a b : expr) | ESameTerm (a b : expr)
| EGt (a b : expr) | EGe (a b : expr) | ELt (a b : expr) | ELe (a b : expr)
| EIn (a : expr) (l : list expr)
| EAdd (a b : expr) | ESub (a b : expr) | EMul (a b : expr) | EDiv (a b : expr)
| EPlus (a : expr) | EMinus (a : expr)
| EIf (c t e : expr)
| ECoalesce (l : list expr)
| EFn (f : fn1) (a : expr).

Definition is_lit (t : term) : bool :=
  match t with LitDt _ _ | LitLang _ _ => true | _ => false end.
Definition cmp_bool (a b : bool) : comparison :=
  match a, b with false, true => Lt | true, false => Gt | _, _ => Eq end.
Definition p_gt (c : comparison) : bool := match c with Gt => true | _ => false end.
Definition p_ge (c : comparison) : bool := match c with Lt => false | _ => true end.
Definition p_lt (c : comparison) : bool := match c with Lt => true | _ => false end.
Definition p_le (c : comparison) : bool := match c with Gt => false | _ => true end.
Definition p_eq (c : comparison) : bool := match c with Eq => true | _ => false end.
(* 17.2: logical-or / logical-and over {true, false, error} *)
Definition or3 (a b : option bool) : option bool :=
  match a, b with
  | Some x, Some y => Some (x || y)
  | Some true, None | None, Some true => Some true
  | _, _ => None
  end.
Definition and3 (a b : option bool) : option bool :=
  match a, b with
  | Some x, Some y => Some (x && y)
  | Some false, None | None, Some false => Some false
  | _, _ => None
  end.
Fixpoint first_some {A} (l : list (option A)) : option A :=
  match l with [] => None | Some x :: _ => Some x | None :: r => first_some r end.

(* where sophia deliberately differs from the bare operator table *)
Record dialect := mkD {
  x_lang_eq : bool;       (* 17.3.1 extension: `=` on two language-tagged strings that are not
                             the same term is false (RDFterm-equal: type error) *)
  x_lang_cmp : bool;      (* 17.3.1 extension: < <= > >= on two language-tagged strings
                             (by lower-cased tag, then lexical form) *)
  x_same_lit_cmp : bool;  (* 17.3.1 extension: < <= > >= on one and the same literal of an
                             unsupported datatype / ill-formed number see it as equal to itself *)
  x_in_first_error : bool (* NOT an extension (a value is replaced by an error): IN stops at the
                             first comparison that raises an error (the crate's test
                             "in with error" pins this) *)
}.
Definition strict : dialect := mkD false false false false.
Definition sophia_dialect : dialect := mkD true true true true.
Definition extensions_only : dialect := mkD true true true false.

Section WithLib.
Variable X : xlib.

(* ==================================================================================== *)
(* 7. SPEC                                                                               *)
(* ==================================================================================== *)
Inductive xnum := XI (z : Z) | XD (d : dec) | XF (f : flt X) | XDb (d : dbl X).

(* numeric type promotion (17.3: integer < decimal < float < double): both operands are
   converted to the least type that holds both; casts are those of XPath F&O 17.1.3 *)
Definition x2dec (n : xnum) : dec := match n with XI z => dec_of_int z | XD d => d | _ => (0%Z, 0) end.
Definition x2flt (n : xnum) : flt X :=
  match n with XI z => f_of_Z X z | XD d => f_of_dec X d | XF f => f | XDb d => f_of_dbl X d end.
Definition x2dbl (n : xnum) : dbl X :=
  match n with XI z => d_of_Z X z | XD d => d_of_dec X d | XF f => d_of_flt X f | XDb d => d end.
Definition xbin {O : Type} (fi : Z -> Z -> O) (fd : dec -> dec -> O)
           (ff : flt X -> flt X -> O) (fdb : dbl X -> dbl X -> O) (a b : xnum) : O :=
  match a, b with
  | XDb _, _ | _, XDb _ => fdb (x2dbl a) (x2dbl b)
  | XF _, _ | _, XF _ => ff (x2flt a) (x2flt b)
  | XD _, _ | _, XD _ => fd (x2dec a) (x2dec b)
  | XI x, XI y => fi x y
  end.
(* op:numeric-add / -subtract / -multiply / -divide / -unary-minus / -equal / -less-than *)
Definition x_add : xnum -> xnum -> option xnum :=
  xbin (fun x y => Some (XI (x + y)%Z)) (fun x y => Some (XD (dadd x y)))
       (fun x y => Some (XF (f_add X x y))) (fun x y => Some (XDb (d_add X x y))).
Definition x_sub : xnum -> xnum -> option xnum :=
  xbin (fun x y => Some (XI (x - y)%Z)) (fun x y => Some (XD (dsub x y)))
       (fun x y => Some (XF (f_sub X x y))) (fun x y => Some (XDb (d_sub X x y))).
Definition x_mul : xnum -> xnum -> option xnum :=
  xbin (fun x y => Some (XI (x * y)%Z)) (fun x y => Some (XD (dmul x y)))
       (fun x y => Some (XF (f_mul X x y))) (fun x y => Some (XDb (d_mul X x y))).
(* integer / integer is a decimal; a zero divisor is an error (FOAR0001) for integers and
   decimals, and gives +-INF or NaN for float and double *)
Definition x_div : xnum -> xnum -> option xnum :=
  xbin (fun x y => if (y =? 0)%Z then None else Some (XD (x_ddiv X (dec_of_int x) (dec_of_int y))))
       (fun x y => if dis_zero y then None else Some (XD (x_ddiv X x y)))
       (fun x y => Some (XF (f_div X x y))) (fun x y => Some (XDb (d_div X x y))).
Definition x_neg (n : xnum) : xnum :=
  match n with
  | XI z => XI (- z)%Z | XD d => XD (dneg d) | XF f => XF (f_neg X f) | XDb d => XDb (d_neg X d)
  end.
Definition x_cmp : xnum -> xnum -> option comparison :=
  xbin (fun x y => Some (x ?= y)%Z) (fun x y => Some (dcmp x y)) (f_cmp X) (d_cmp X).
Definition x_zero_or_nan (n : xnum) : bool :=
  match n with
  | XI z => (z =? 0)%Z | XD d => dis_zero d
  | XF f => f_is_zero X f || f_is_nan X f | XDb d => d_is_zero X d || d_is_nan X d
  end.

(* 17.1: what an RDF term is for the operators *)
Inductive tclass :=
| KNum (n : xnum)           (* numeric datatype, lexical form in its lexical space *)
| KBadNum                   (* numeric datatype, ill-formed *)
| KStr (s : str)            (* simple literal = xsd:string *)
| KLang (s tag : str)
| KBool (b : bool) | KBadBool
| KDT (d : dtv X) | KBadDT
| KOtherLit                 (* literal of any other datatype *)
| KIri (i : str) | KBlank | KOther.
Definition l2v_num (ty : numtype) (lex : str) : option xnum :=
  match ty with
  | TInteger => option_map XI (xsd_integer lex)
  | TDecimal => option_map XD (xsd_decimal lex)
  | TFloat => option_map XF (f_lex X lex)
  | TDouble => option_map XDb (d_lex X lex)
  | TDerived lo hi =>
      match xsd_integer lex with
      | Some z => if in_range lo hi z then Some (XI z) else None
      | None => None
      end
  end.
Definition classify (t : term) : tclass :=
  match t with
  | Iri i => KIri i
  | Bnode _ => KBlank
  | LitLang s tag => KLang s tag
  | LitDt lex dt =>
      match strip_pre xsd_ns dt with
      | None => KOtherLit
      | Some local =>
          match numtype_of local with
          | Some ty => match l2v_num ty lex with Some n => KNum n | None => KBadNum end
          | None =>
              if eqs local "string" then KStr lex
              else if eqs local "boolean" then
                match xsd_boolean lex with Some b => KBool b | None => KBadBool end
              else if eqs local "dateTime" then
                match dt_lex X lex with Some d => KDT d | None => KBadDT end
              else KOtherLit
          end
      end
  | _ => KOther
  end.

(* the result of an expression: an RDF term, or a computed number / boolean, i.e. a literal
   whose VALUE is fixed by the specification while its lexical form is not *)
Inductive sres := ST (t : term) | SN (n : xnum) | SB (b : bool).
Definition s_class (r : sres) : tclass :=
  match r with ST t => classify t | SN n => KNum n | SB b => KBool b end.
(* the choice of lexical forms for computed numbers ("printer") *)
Variable P : xnum -> str.
Definition xnum_dt (n : xnum) : str :=
  match n with
  | XI _ => xsd_integer_iri | XD _ => xsd_decimal_iri
  | XF _ => xsd_float_iri | XDb _ => xsd_double_iri
  end.
Definition s_term (r : sres) : term :=
  match r with
  | ST t => t
  | SN n => LitDt (P n) (xnum_dt n)
  | SB b => LitDt (if b then l_true else l_false) xsd_boolean_iri
  end.

(* 17.2.2 effective boolean value *)
Definition ebv (r : sres) : option bool :=
  match s_class r with
  | KBool b => Some b
  | KBadBool | KBadNum => Some false
  | KStr s | KLang s _ => Some (negb (is_nil s))
  | KNum n => Some (negb (x_zero_or_nan n))
  | _ => None
  end.

(* 17.4.1.7 RDFterm-equal *)
Definition rdfterm_equal (a b : term) : option bool :=
  if term_eqb a b then Some true else if is_lit a && is_lit b then None else Some false.

Variable D : dialect.
(* 17.3 operator mapping, `=` *)
Definition s_eq (a b : sres) : option bool :=
  match s_class a, s_class b with
  | KNum x, KNum y => Some (match x_cmp x y with Some Eq => true | _ => false end)
  | KStr s1, KStr s2 => Some (str_eqb s1 s2)
  | KBool b1, KBool b2 => Some (Bool.eqb b1 b2)
  | KDT d1, KDT d2 =>
      match dt_cmp X d1 d2 with
      | Some c => Some (p_eq c)
      | None => rdfterm_equal (s_term a) (s_term b)
      end
  | KLang s1 t1, KLang s2 t2 =>
      if x_lang_eq D then Some (str_eqb_ci t1 t2 && str_eqb s1 s2)
      else rdfterm_equal (s_term a) (s_term b)
  | _, _ => rdfterm_equal (s_term a) (s_term b)
  end.
(* 17.3 operator mapping, < <= > >= (pred reads the order; a NaN makes all four false) *)
(* classes for which no typed operator exists at all *)
Definition no_value (k : tclass) : bool :=
  match k with KBadNum | KOtherLit | KIri _ | KBlank | KOther => true | _ => false end.
Definition s_rel (pred : comparison -> bool) (a b : sres) : option bool :=
  match s_class a, s_class b with
  | KNum x, KNum y => Some (match x_cmp x y with Some c => pred c | None => false end)
  | KStr s1, KStr s2 => Some (pred (str_cmp s1 s2))
  | KBool b1, KBool b2 => Some (pred (cmp_bool b1 b2))
  | KDT d1, KDT d2 => option_map pred (dt_cmp X d1 d2)
  | KLang s1 t1, KLang s2 t2 =>
      if x_lang_cmp D
      then Some (pred (then_cmp (str_cmp (lower t1) (lower t2)) (str_cmp s1 s2)))
      else None
  | ka, kb =>
      if x_same_lit_cmp D && (no_value ka || no_value kb)
         && is_lit (s_term a) && is_lit (s_term b) && term_eqb (s_term a) (s_term b)
      then Some (pred Eq) else None
  end.
Definition s_num (r : sres) : option xnum :=
  match s_class r with KNum n => Some n | _ => None end.
Definition s_arith (op : xnum -> xnum -> option xnum) (a b : option sres) : option sres :=
  match a, b with
  | Some x, Some y =>
      match s_num x, s_num y with
      | Some n, Some m => option_map SN (op n m)
      | _, _ => None
      end
  | _, _ => None
  end.
Definition s_rel2 (pred : comparison -> bool) (a b : option sres) : option sres :=
  match a, b with Some x, Some y => option_map SB (s_rel pred x y) | _, _ => None end.
(* 17.4.1.9 IN: (lhs = e1) || (lhs = e2) || ... *)
Definition in_strict (x : sres) (rs : list (option sres)) : option bool :=
  fold_right (fun r acc => or3 (bind r (s_eq x)) acc) (Some false) rs.
Fixpoint in_first_error (x : sres) (rs : list (option sres)) : option bool :=
  match rs with
  | [] => Some false
  | r :: rs' => match bind r (s_eq x) with
                | Some false => in_first_error x rs'
                | o => o
                end
  end.
Definition s_in (x : sres) (rs : list (option sres)) : option bool :=
  if x_in_first_error D then in_first_error x rs else in_strict x rs.
(* 17.4.2 functions on RDF terms (an argument that raises an error is an error) *)
Definition s_fn1 (f : fn1) (r : sres) : option sres :=
  let t := s_term r in
  match f with
  | FStr => match t with
            | Iri i => Some (ST (LitDt i xsd_string_iri))
            | LitDt lex _ | LitLang lex _ => Some (ST (LitDt lex xsd_string_iri))
            | _ => None
            end
  | FLang => match t with
             | LitLang _ tag => Some (ST (LitDt tag xsd_string_iri))
             | LitDt _ _ => Some (ST (LitDt [] xsd_string_iri))
             | _ => None
             end
  | FDatatype => match t with
                 | LitDt _ dt => Some (ST (Iri dt))
                 | LitLang _ _ => Some (ST (Iri rdf_langString))
                 | _ => None
                 end
  | FIsIri => Some (SB (match t with Iri _ => true | _ => false end))
  | FIsBlank => Some (SB (match t with Bnode _ => true | _ => false end))
  | FIsLiteral => Some (SB (is_lit t))
  | FIsNumeric => Some (SB (match s_class r with KNum _ => true | _ => false end))
  end.

Fixpoint s_eval (e : expr) (mu : amap) : option sres :=
  match e with
  | EConst t => Some (ST t)
  | EVar v => option_map ST (lookup v mu)
  | EBound v => Some (SB (is_some (lookup v mu)))
  | EOr a b => option_map SB (or3 (bind (s_eval a mu) ebv) (bind (s_eval b mu) ebv))
  | EAnd a b => option_map SB (and3 (bind (s_eval a mu) ebv) (bind (s_eval b mu) ebv))
  | ENot a => option_map (fun b => SB (negb b)) (bind (s_eval a mu) ebv)
  | EEq a b => match s_eval a mu, s_eval b mu with
               | Some x, Some y => option_map SB (s_eq x y)
               | _, _ => None
               end
  | ESameTerm a b => match s_eval a mu, s_eval b mu with
                     | Some x, Some y => Some (SB (term_eqb (s_term x) (s_term y)))
                     | _, _ => None
                     end
  | EGt a b => s_rel2 p_gt (s_eval a mu) (s_eval b mu)
  | EGe a b => s_rel2 p_ge (s_eval a mu) (s_eval b mu)
  | ELt a b => s_rel2 p_lt (s_eval a mu) (s_eval b mu)
  | ELe a b => s_rel2 p_le (s_eval a mu) (s_eval b mu)
  | EIn a l => match s_eval a mu with
               | Some x => option_map SB (s_in x (map (fun e => s_eval e mu) l))
               | None => None        (* no term to look for *)
               end
  | EAdd a b => s_arith x_add (s_eval a mu) (s_eval b mu)
  | ESub a b => s_arith x_sub (s_eval a mu) (s_eval b mu)
  | EMul a b => s_arith x_mul (s_eval a mu) (s_eval b mu)
  | EDiv a b => s_arith x_div (s_eval a mu) (s_eval b mu)
  | EPlus a => option_map SN (bind (s_eval a mu) s_num)
  | EMinus a => option_map (fun n => SN (x_neg n)) (bind (s_eval a mu) s_num)
  | EIf c t e => match bind (s_eval c mu) ebv with          (* 17.4.1.2 *)
                 | Some true => s_eval t mu
                 | Some false => s_eval e mu
                 | None => None
                 end
  | ECoalesce l => first_some (map (fun e => s_eval e mu) l)          (* 17.4.1.3 *)
  | EFn f a => bind (s_eval a mu) (s_fn1 f)
  end.
(* FILTER keeps a solution iff the EBV is true (17.2: errors eliminate the solution);
   BIND leaves the variable unbound on error (18.5 Extend) *)
Definition s_filter (e : expr) (mu : amap) : bool :=
  match bind (s_eval e mu) ebv with Some true => true | _ => false end.
Definition s_bind (e : expr) (mu : amap) : option term := option_map s_term (s_eval e mu).

End WithLib.
