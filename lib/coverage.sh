#!/bin/bash
# usage: lib/coverage.sh [bin ...]        (development aid, not registered in MANIFEST.json)
# Builds the harness binaries with source-based coverage instrumentation (nightly toolchain + its llvm-tools), runs each
# with its quick-tier arguments and reports, per file of /repo, the lines never executed.  A change to code that no
# harness executes cannot be seen by the correspondence runs, so the report is the work list for widening generators.
# Output: build/cov/<bin>.txt (llvm-cov report), build/cov/<bin>.uncovered (file:line ranges never run)
set -u
cd "$(dirname "$0")/.."
ROOT=$PWD
T=${COV_TARGET:-/tmp/cov-target}
TOOLS=$(dirname "$(find "$(rustc +nightly --print sysroot)" -name llvm-cov | head -1)")
export CARGO_NET_OFFLINE=true CARGO_TARGET_DIR=$T
bins=("$@")
[ ${#bins[@]} -eq 0 ] && bins=($(python3 -c "import sys; sys.path.insert(0,'lib'); import props; print(' '.join(sorted({r['bin'] for c in props.PROPS.values() for r in c.get('runs',[])})))"))
mkdir -p build/cov
( cd harness && LLVM_PROFILE_FILE="$T/build-%p-%m.profraw" RUSTFLAGS="--cfg sophia_verif -Awarnings -C instrument-coverage" cargo +nightly build --offline $(printf -- '--bin %s ' "${bins[@]}") 2>&1 | tail -3 )
for b in "${bins[@]}"; do
  rm -rf "$T/prof-$b" "$T/out-$b"; mkdir -p "$T/prof-$b" "$T/out-$b"
  args=$(python3 - "$b" <<'E'
import sys; sys.path.insert(0,'lib'); import props
b=sys.argv[1]
for pid,cfg in props.PROPS.items():
    for run in cfg.get('runs',[]):
        if run['bin']==b:
            t=cfg['quick']; r=run.get('quick',{})
            print("--n %s --shards 1 %s" % (r.get('n',t.get('n',100)), " ".join(run.get('args',[])+t.get('args',[])))); sys.exit()
print("--n 100 --shards 1")
E
)
  LLVM_PROFILE_FILE="$T/prof-$b/%p-%m.profraw" timeout 1800 "$T/debug/$b" --seed 1 --out "$T/out-$b" $args > "$T/out-$b/log" 2>&1
  echo "$b: harness exit $?"
  "$TOOLS/llvm-profdata" merge -sparse "$T/prof-$b"/*.profraw -o "$T/prof-$b/merged.profdata" 2>/dev/null
  "$TOOLS/llvm-cov" report "$T/debug/$b" -instr-profile="$T/prof-$b/merged.profdata" --ignore-filename-regex='(\.cargo|/rustc/|/verif/)' > "build/cov/$b.txt" 2>/dev/null
  "$TOOLS/llvm-cov" show "$T/debug/$b" -instr-profile="$T/prof-$b/merged.profdata" --ignore-filename-regex='(\.cargo|/rustc/|/verif/)' --show-line-counts-or-regions=false 2>/dev/null \
    | python3 lib/cov_uncovered.py > "build/cov/$b.uncovered"
  rm -rf "$T/prof-$b" "$T/out-$b"
done
echo "reports in build/cov/; remove $T when done"
