//! C20: native Rust values (i32/isize/usize/bool/str/f64) as typed literals and back, and
//! TryFromTerm on arbitrary literals, against the Coq model (C20/Model.v) and against the property
//! itself (oracle: lexical form valid for the XSD datatype, exact round trip through every term
//! representation and every serialisation, conversion never panics and only ever returns the
//! value the lexical form denotes in the stated datatype).
//!
//! Every native value is looked at through the whole Term API (accessors, provided methods, borrow_term,
//! the component iterators), copied to every other term representation (SimpleTerm owned and borrowed,
//! CmpTerm, ArcTerm, RcTerm, GenericLiteral over four string types, ResultTerm, rio literals, the terms of
//! the in-memory graphs and datasets it is inserted into) and written + read back in N-Triples, N-Quads,
//! Turtle, TriG (both plain and pretty) and RDF/XML; in each of these places the literal must still be the
//! same literal and convert back (try_from_term, try_into_term, CmpTerm<N>::try_from_term) to the value.
//! Arbitrary terms are converted to all five native types in every representation they can be copied to.
use rio_api::model as rio;
use sophia_api::dataset::{Dataset, MutableDataset};
use sophia_api::graph::{Graph, MutableGraph};
use sophia_api::quad::{Quad, Spog};
use sophia_api::serializer::{QuadSerializer, Stringifier, TripleSerializer};
use sophia_api::source::{QuadSource, TripleSource};
use sophia_api::term::{CmpTerm, FromTerm, SimpleTerm, Term, TermKind, TryFromTerm};
use sophia_api::triple::Triple;
use sophia_inmem::dataset::{FastDataset, LightDataset};
use sophia_inmem::graph::{FastGraph, LightGraph};
use sophia_rio::model::Trusted;
use sophia_sparql::ResultTerm;
use sophia_term::{ArcTerm, GenericLiteral, RcTerm};
use sophia_turtle::serializer::nq::NqSerializer;
use sophia_turtle::serializer::nt::NtSerializer;
use sophia_turtle::serializer::trig::{TrigConfig, TrigSerializer};
use sophia_turtle::serializer::turtle::{TurtleConfig, TurtleSerializer};
use sophia_xml::serializer::RdfXmlSerializer;
use std::collections::{BTreeSet, HashSet};
use std::num::IntErrorKind;
use std::panic::AssertUnwindSafe;
use std::rc::Rc;
use std::sync::Arc;
use std::sync::atomic::{AtomicBool, Ordering};
use verif_harness::*;

// ---------------- XSD lexical spaces, written as plain scanners (the oracle's own) ----------------
fn eat_digits(b: &[u8], mut i: usize) -> usize { while i < b.len() && b[i].is_ascii_digit() { i += 1 } i }
fn eat_sign(b: &[u8], i: usize) -> usize { if i < b.len() && (b[i] == b'+' || b[i] == b'-') { i + 1 } else { i } }
fn lex_integer(s: &str) -> bool { let b = s.as_bytes(); let i = eat_sign(b, 0); let j = eat_digits(b, i); j > i && j == b.len() }
fn lex_boolean(s: &str) -> bool { matches!(s, "true" | "false" | "1" | "0") }
/// position after an unsigned decimal numeral starting at i, if there is one
fn eat_unsigned_decimal(b: &[u8], i: usize) -> Option<usize> {
    let j = eat_digits(b, i);
    if j < b.len() && b[j] == b'.' { let k = eat_digits(b, j + 1); if (j - i) + (k - j - 1) > 0 { Some(k) } else { None } }
    else if j > i { Some(j) } else { None }
}
fn lex_decimal(s: &str) -> bool { let b = s.as_bytes(); eat_unsigned_decimal(b, eat_sign(b, 0)) == Some(b.len()) }
fn lex_double(s: &str) -> bool {
    if matches!(s, "INF" | "+INF" | "-INF" | "NaN") { return true; }
    let b = s.as_bytes();
    let Some(j) = eat_unsigned_decimal(b, eat_sign(b, 0)) else { return false };
    if j == b.len() { return true; }
    if b[j] != b'e' && b[j] != b'E' { return false; }
    let k = eat_sign(b, j + 1); let l = eat_digits(b, k); l > k && l == b.len()
}
fn xml_char(c: char) -> bool { matches!(c as u32, 0x9 | 0xA | 0xD | 0x20..=0xD7FF | 0xE000..=0xFFFD | 0x10000..=0x10FFFF) }
fn lex_string(s: &str) -> bool { s.chars().all(xml_char) }
/// the integer an xsd:integer lexical form denotes (None: not a numeral, or beyond 10^38)
fn int_value(s: &str) -> Option<i128> {
    if !lex_integer(s) { return None; }
    let neg = s.starts_with('-'); let d = s.trim_start_matches(['+', '-']).trim_start_matches('0');
    if d.len() > 38 { return None; }
    let m: i128 = if d.is_empty() { 0 } else { d.parse::<u128>().ok()? as i128 };
    Some(if neg { -m } else { m })
}
const INT_FAMILY: [(&str, Option<i128>, Option<i128>); 13] = [
    ("integer", None, None), ("nonPositiveInteger", None, Some(0)), ("negativeInteger", None, Some(-1)),
    ("long", Some(i64::MIN as i128), Some(i64::MAX as i128)), ("int", Some(i32::MIN as i128), Some(i32::MAX as i128)),
    ("short", Some(-32768), Some(32767)), ("byte", Some(-128), Some(127)),
    ("nonNegativeInteger", Some(0), None), ("unsignedLong", Some(0), Some(u64::MAX as i128)), ("unsignedInt", Some(0), Some(u32::MAX as i128)),
    ("unsignedShort", Some(0), Some(65535)), ("unsignedByte", Some(0), Some(255)), ("positiveInteger", Some(1), None),
];
fn int_facets(dt: &str) -> Option<(Option<i128>, Option<i128>)> { let l = dt.strip_prefix(XSD)?; INT_FAMILY.iter().find(|f| f.0 == l).map(|f| (f.1, f.2)) }

// ---------------- helpers ----------------
static QUIET: AtomicBool = AtomicBool::new(false);
/// catch_unwind that keeps the panic message of the code under test off the terminal
fn catch_unwind<R>(f: impl FnOnce() -> R + std::panic::UnwindSafe) -> std::thread::Result<R> {
    QUIET.store(true, Ordering::SeqCst); let r = std::panic::catch_unwind(f); QUIET.store(false, Ordering::SeqCst); r
}
fn z(v: i128) -> String { if v < 0 { format!("({v})%Z") } else { format!("{v}%Z") } }
fn lex_bits(s: &str) -> String { format!("lex_ok {} {} {} {} {} {}", coq_str(s), coq_bool(lex_integer(s)), coq_bool(lex_boolean(s)), coq_bool(lex_decimal(s)), coq_bool(lex_double(s)), coq_bool(lex_string(s))) }
fn int_code(r: &Result<i128, std::num::ParseIntError>) -> (u64, i128) {
    match r { Ok(v) => (0, *v), Err(e) => (match e.kind() { IntErrorKind::Empty => 1, IntErrorKind::InvalidDigit => 2, IntErrorKind::PosOverflow => 3, IntErrorKind::NegOverflow => 4, _ => 9 }, 0) }
}
fn special_body(lex: &str) -> String { lex.strip_prefix(['+', '-']).unwrap_or(lex).to_ascii_lowercase() }
/// class of an f64 conversion result as the model reports it (99 = inconsistent with the spelling)
fn f64_class(lex: &str, r: &Result<f64, std::num::ParseFloatError>) -> u64 {
    match r {
        Err(_) => 0,
        Ok(v) => { let b = special_body(lex);
            if b == "nan" { if v.is_nan() { 1 } else { 99 } }
            else if b == "inf" || b == "infinity" { if !v.is_infinite() { 99 } else if v.is_sign_negative() { 3 } else { 2 } }
            else if v.is_nan() { 99 } else if v.is_sign_negative() { 5 } else { 4 } }
    }
}
fn same_f64(a: f64, b: f64) -> bool { if a.is_nan() { b.is_nan() } else { a.to_bits() == b.to_bits() } }
fn show_f64(v: f64) -> String { format!("{v:?} (bits {:#018x})", v.to_bits()) }
/// the object of a one-line N-Triples document written with the crate's own writer and read back
fn nt_roundtrip<T: Term>(t: T) -> Result<ST, String> {
    let mut buf: Vec<u8> = b"<tag:s> <tag:p> ".to_vec();
    sophia_turtle::serializer::nt::write_term(&mut buf, t).map_err(|e| format!("write_term: {e}"))?;
    buf.extend_from_slice(b" .\n");
    let text = String::from_utf8(buf).map_err(|e| format!("serializer wrote invalid UTF-8: {e}"))?;
    let g: Vec<[ST; 3]> = sophia_turtle::parser::nt::parse_str(&text).collect_triples().map_err(|e| format!("the document {text:?} does not parse: {e}"))?;
    if g.len() != 1 { return Err(format!("{} triples read back from {text:?}", g.len())); }
    Ok(g.into_iter().next().unwrap()[2].clone())
}
/// every representation a native term is copied to: (name, copy)
fn reps<T: Term + Copy>(t: T) -> Vec<(&'static str, Result<ST, String>)> {
    let arc: ArcTerm = ArcTerm::from_term(t); let rc: RcTerm = RcTerm::from_term(t);
    vec![("SimpleTerm", Ok(SimpleTerm::from_term(t))), ("ArcTerm", Ok(SimpleTerm::from_term(arc.borrow_term()))), ("RcTerm", Ok(SimpleTerm::from_term(rc.borrow_term()))), ("N-Triples", nt_roundtrip(t))]
}

// ---------------- every place a term can be copied to ----------------
/// the bytes Term::hash feeds to a Hasher
#[derive(Default)]
struct Rec(Vec<u8>);
impl std::hash::Hasher for Rec {
    fn finish(&self) -> u64 { 0 }
    fn write(&mut self, b: &[u8]) { self.0.extend_from_slice(b) }
}
fn hash_bytes<T: Term + ?Sized>(t: &T) -> Vec<u8> { let mut h = Rec::default(); Term::hash(t, &mut h); h.0 }
fn kind_rank(k: TermKind) -> u64 { match k { TermKind::BlankNode => 0, TermKind::Iri => 1, TermKind::Literal => 2, TermKind::Triple => 3, TermKind::Variable => 4 } }

/// what is done with each copy
trait Visit {
    fn visit<T: Term + ?Sized>(&mut self, name: &str, t: &T);
    fn problem(&mut self, msg: String);
    fn note(&mut self, key: &str);
}
/// (lexical form, datatype, language tag) as the accessors give them
fn face_of<T: Term + ?Sized>(t: &T) -> (Option<String>, Option<String>, Option<String>) {
    (t.lexical_form().map(|l| l.to_string()), t.datatype().map(|d| d.as_str().to_string()), t.language_tag().map(|l| l.as_str().to_string()))
}
/// the contract of the Term trait for a literal, through every accessor and provided method (None = respected)
fn literal_contract<T: Term + ?Sized>(t: &T) -> Option<String> {
    let mut p: Vec<String> = vec![];
    if t.kind() != TermKind::Literal { p.push(format!("kind() = {:?}", t.kind())); }
    if !t.is_literal() { p.push("is_literal() = false".into()); }
    if !t.is_atom() { p.push("is_atom() = false".into()); }
    if t.is_iri() || t.is_blank_node() || t.is_variable() || t.is_triple() { p.push(format!("is_iri/is_blank_node/is_variable/is_triple = {}/{}/{}/{}", t.is_iri(), t.is_blank_node(), t.is_variable(), t.is_triple())); }
    if t.iri().is_some() || t.bnode_id().is_some() || t.variable().is_some() || t.triple().is_some() { p.push("iri(), bnode_id(), variable() or triple() is Some on a literal".into()); }
    let face = face_of(t);
    if face.0.is_none() || face.1.is_none() { p.push(format!("lexical_form() / datatype() = {:?} / {:?}", face.0, face.1)); return Some(p.join("; ")); }
    // borrow_term and everything derived from it denote the same literal
    let b = t.borrow_term();
    if face_of(&b) != face || b.kind() != TermKind::Literal { p.push(format!("borrow_term() is {:?}", b)); }
    if face_of(&b.borrow_term()) != face { p.push("borrow_term().borrow_term() differs".into()); }
    let s = t.as_simple();
    if face_of(&s) != face || s.kind() != TermKind::Literal { p.push(format!("as_simple() is {s:?}")); }
    if b.to_triple().is_some() { p.push("to_triple() is Some".into()); }
    let one = |what: &str, v: Vec<T::BorrowTerm<'_>>, p: &mut Vec<String>| { if v.len() != 1 { p.push(format!("{what} yields {} terms", v.len())); } else if face_of(&v[0]) != face || !Term::eq(&v[0], b) { p.push(format!("{what} yields {:?}", v[0])); } };
    one("constituents()", t.constituents().collect(), &mut p);
    one("atoms()", t.atoms().collect(), &mut p);
    one("to_constituents()", b.to_constituents().collect(), &mut p);
    one("to_atoms()", b.to_atoms().collect(), &mut p);
    // eq / cmp / hash between the term, what it lends and its SimpleTerm copy
    if !Term::eq(t, b) || !Term::eq(&b, s.borrow_term()) || !Term::eq(&s, b) { p.push("the term, borrow_term() and as_simple() are not Term::eq".into()); }
    if Term::cmp(t, s.borrow_term()) != std::cmp::Ordering::Equal || Term::cmp(&s, b) != std::cmp::Ordering::Equal { p.push("Term::cmp with its own SimpleTerm copy is not Equal".into()); }
    if hash_bytes(t) != hash_bytes(&s) || hash_bytes(&b) != hash_bytes(&s) { p.push("Term::hash differs from the hash of its SimpleTerm copy".into()); }
    if p.is_empty() { None } else { Some(p.join("; ")) }
}

fn rio_literal<'a>(lex: &'a str, dt: &'a str, tag: Option<&'a str>) -> rio::Literal<'a> {
    match tag { Some(language) => rio::Literal::LanguageTaggedString { value: lex, language },
        None => if dt.strip_prefix(XSD) == Some("string") { rio::Literal::Simple { value: lex } } else { rio::Literal::Typed { value: lex, datatype: rio::NamedNode { iri: dt } } } }
}
fn the_object_of_graph<G: Graph, V: Visit>(name: &str, g: &G, v: &mut V) {
    let mut n = 0;
    for t in g.triples() { match t { Ok(t) => { n += 1; v.visit(name, &t.o()); } Err(e) => v.problem(format!("{name}: iterating the graph fails: {e}")) } }
    if n != 1 { v.problem(format!("{name}: {n} triples after inserting one")); }
}
fn the_object_of_dataset<D: Dataset, V: Visit>(name: &str, d: &D, v: &mut V) {
    let mut n = 0;
    for q in d.quads() { match q { Ok(q) => { n += 1; v.visit(name, &q.o()); } Err(e) => v.problem(format!("{name}: iterating the dataset fails: {e}")) } }
    if n != 1 { v.problem(format!("{name}: {n} quads after inserting one")); }
}
/// the in-memory copies of any term: the wrappers, the owned terms, the adapters
fn memory_reps<X: Term + Copy, V: Visit>(x: X, v: &mut V) {
    v.visit("borrow_term()", &x.borrow_term());
    let c = CmpTerm(x);
    v.visit("CmpTerm(term)", &c);
    v.visit("CmpTerm(term).borrow_term()", &c.borrow_term());
    let st = SimpleTerm::from_term(x);
    v.visit("SimpleTerm::from_term", &st);
    v.visit("&SimpleTerm", &&st);
    let s2 = x.as_simple();
    v.visit("as_simple() = SimpleTerm::from_term_ref", &s2);
    match SimpleTerm::try_from_term(x) { Ok(s) => v.visit("SimpleTerm::try_from_term", &s), Err(e) => v.problem(format!("SimpleTerm::try_from_term fails: {e}")) }
    let s3: ST = x.into_term(); v.visit("into_term::<SimpleTerm>", &s3);
    match x.try_into_term::<ST>() { Ok(s) => v.visit("try_into_term::<SimpleTerm>", &s), Err(e) => v.problem(format!("try_into_term::<SimpleTerm> fails: {e}")) }
    let c2 = CmpTerm::<ST>::from_term(x); v.visit("CmpTerm<SimpleTerm>::from_term", &c2);
    let arc = ArcTerm::from_term(x); v.visit("ArcTerm::from_term", &arc); v.visit("&ArcTerm", &&arc);
    let rc = RcTerm::from_term(x); v.visit("RcTerm::from_term", &rc);
    let a2: ArcTerm = x.into_term(); v.visit("into_term::<ArcTerm>", &a2);
    let c3 = CmpTerm::<ArcTerm>::from_term(st.borrow_term()); v.visit("CmpTerm<ArcTerm>::from_term(SimpleTerm)", &c3);
    let r2 = RcTerm::from_term(arc.borrow_term()); v.visit("RcTerm::from_term(ArcTerm)", &r2);
    let rt = ResultTerm::from(arc.clone()); v.visit("ResultTerm", &rt);
    if x.kind() != TermKind::Literal { if let Ok(l) = GenericLiteral::<Box<str>>::try_from_term(x) { v.problem(format!("GenericLiteral::try_from_term makes the literal {l:?} of a term that is not one")); } }
    if x.kind() == TermKind::Literal {
        match GenericLiteral::<Box<str>>::try_from_term(x) { Ok(l) => v.visit("GenericLiteral<Box<str>>", &l), Err(e) => v.problem(format!("GenericLiteral<Box<str>>::try_from_term fails: {e}")) }
        match GenericLiteral::<Arc<str>>::try_from_term(x) { Ok(l) => { v.visit("GenericLiteral<Arc<str>>", &l); v.visit("&GenericLiteral<Arc<str>>", &&l); } Err(e) => v.problem(format!("GenericLiteral<Arc<str>>::try_from_term fails: {e}")) }
        match GenericLiteral::<Rc<str>>::try_from_term(st.borrow_term()) { Ok(l) => v.visit("GenericLiteral<Rc<str>>", &l), Err(e) => v.problem(format!("GenericLiteral<Rc<str>>::try_from_term fails: {e}")) }
        match GenericLiteral::<String>::try_from_term(arc.borrow_term()) { Ok(l) => v.visit("GenericLiteral<String>", &l), Err(e) => v.problem(format!("GenericLiteral<String>::try_from_term fails: {e}")) }
        // rio's literal (what the parsers hand out); rio's own types are only trusted with absolute datatype IRIs
        let (lex, dt, tag) = face_of(&x);
        if let (Some(lex), Some(dt)) = (lex, dt) { if tag.is_some() || sophia_iri::Iri::new(dt.as_str()).is_ok() {
            let rl = rio_literal(&lex, &dt, tag.as_deref());
            v.visit("rio Literal", &Trusted(rl)); v.visit("rio Term", &Trusted(rio::Term::Literal(rl))); v.visit("rio GeneralizedTerm", &Trusted(rio::GeneralizedTerm::Literal(rl)));
        } }
    }
}
/// the term as the object of a statement of every kind of in-memory graph and dataset
fn container_reps<X: Term + Copy, V: Visit>(x: X, v: &mut V) {
    let (s, p, gn) = (iri("tag:s"), iri("tag:p"), iri("tag:g"));
    macro_rules! graph { ($name:expr, $g:expr) => {{ let mut g = $g; match MutableGraph::insert(&mut g, &s, &p, x) { Ok(_) => { the_object_of_graph($name, &g, v); the_object_of_graph(concat!("&", $name), &&g, v); } Err(e) => v.problem(format!("{}: insert fails: {e}", $name)) } }}; }
    macro_rules! dataset { ($name:expr, $d:expr, $gname:expr) => {{ let mut d = $d; match MutableDataset::insert(&mut d, &s, &p, x, $gname) { Ok(_) => the_object_of_dataset($name, &d, v), Err(e) => v.problem(format!("{}: insert fails: {e}", $name)) } }}; }
    graph!("Vec<[SimpleTerm; 3]>", Vec::<[ST; 3]>::new());
    graph!("Vec<[ArcTerm; 3]>", Vec::<[ArcTerm; 3]>::new());
    graph!("HashSet<[SimpleTerm; 3]>", HashSet::<[ST; 3]>::new());
    graph!("BTreeSet<[ArcTerm; 3]>", BTreeSet::<[ArcTerm; 3]>::new());
    graph!("LightGraph", LightGraph::new());
    graph!("FastGraph", FastGraph::new());
    dataset!("Vec<Spog<SimpleTerm>>", Vec::<Spog<ST>>::new(), Some(&gn));
    dataset!("HashSet<Spog<RcTerm>>", HashSet::<Spog<RcTerm>>::new(), None::<&ST>);
    dataset!("LightDataset", LightDataset::new(), Some(&gn));
    dataset!("FastDataset", FastDataset::new(), None::<&ST>);
}
/// what a serialisation of one statement with the term as object reads back to; `refusable`: the format may refuse the term
#[derive(Default)]
struct SerOut { pretty_bare: Vec<bool> }
fn serialisation_reps<X: Term + Copy, V: Visit>(x: X, xml: bool, xml_may_refuse: bool, v: &mut V) -> SerOut {
    let mut out = SerOut::default();
    let (s, p, gn) = (iri("tag:s"), iri("tag:p"), iri("tag:g"));
    let mut g: Vec<[ST; 3]> = vec![]; let _ = MutableGraph::insert(&mut g, &s, &p, x);
    let mut d: Vec<Spog<ST>> = vec![]; let _ = MutableDataset::insert(&mut d, &s, &p, x, Some(&gn));
    macro_rules! triples { ($name:expr, $ser:expr, $parse:path, $may_refuse:expr, $pretty:expr) => {{
        let mut ser = $ser;
        match ser.serialize_graph(&g).map(|s| s.to_string()) {
            Err(e) => if $may_refuse { v.note(concat!("refused-by:", $name)) } else { v.problem(format!("{} serializer fails: {e}", $name)) },
            Ok(text) => {
                if $pretty { out.pretty_bare.push(!text.contains('"')); }
                let mut n = 0;
                if let Err(e) = $parse(&text).for_each_triple(|t| { n += 1; v.visit(concat!($name, " (the parser's own term)"), &t.o()); }) { v.problem(format!("{}: the document {text:?} does not parse: {e}", $name)); }
                else if n != 1 { v.problem(format!("{}: {n} statements read back from {text:?}", $name)); }
                let back: Result<Vec<[ST; 3]>, _> = $parse(&text).collect_triples();
                if let Ok(back) = back { if back.len() == 1 { v.visit(concat!($name, " (collected)"), &back[0][2]); } }
            }
        }
    }}; }
    macro_rules! quads { ($name:expr, $ser:expr, $parse:path, $pretty:expr) => {{
        let mut ser = $ser;
        match ser.serialize_dataset(&d).map(|s| s.to_string()) {
            Err(e) => v.problem(format!("{} serializer fails: {e}", $name)),
            Ok(text) => {
                if $pretty { out.pretty_bare.push(!text.contains('"')); }
                let mut n = 0;
                if let Err(e) = $parse(&text).for_each_quad(|q| { n += 1; v.visit(concat!($name, " (the parser's own term)"), &q.o()); }) { v.problem(format!("{}: the document {text:?} does not parse: {e}", $name)); }
                else if n != 1 { v.problem(format!("{}: {n} statements read back from {text:?}", $name)); }
                let back: Result<Vec<Spog<ST>>, _> = $parse(&text).collect_quads();
                if let Ok(back) = back { if back.len() == 1 { v.visit(concat!($name, " (collected)"), &back[0].0[2]); } }
            }
        }
    }}; }
    triples!("N-Triples", NtSerializer::new_stringifier(), sophia_turtle::parser::nt::parse_str, false, false);
    triples!("Turtle", TurtleSerializer::new_stringifier(), sophia_turtle::parser::turtle::parse_str, false, false);
    triples!("pretty Turtle", TurtleSerializer::new_stringifier_with_config(TurtleConfig::new().with_pretty(true)), sophia_turtle::parser::turtle::parse_str, false, true);
    // C18's recorded finding rdfxml-whitespace-only-literal (third-party rio_xml reader): a literal made of XML white space only is
    // written correctly and read back as ""; that class is left to C18 (set C20_RDFXML_WS=1 to run it here too)
    let ws_only = face_of(&x).0.is_some_and(|l| !l.is_empty() && l.chars().all(|c| matches!(c, ' ' | '\t' | '\n' | '\r')));
    if xml && ws_only && std::env::var_os("C20_RDFXML_WS").is_none() { v.note("rdfxml-leg-skipped:whitespace-only-literal(C18 finding)"); }
    else if xml { triples!("RDF/XML", RdfXmlSerializer::new_stringifier(), sophia_xml::parser::parse_str, xml_may_refuse, false); }
    quads!("N-Quads", NqSerializer::new_stringifier(), sophia_turtle::parser::nq::parse_str, false);
    quads!("TriG", TrigSerializer::new_stringifier(), sophia_turtle::parser::trig::parse_str, false);
    quads!("pretty TriG", TrigSerializer::new_stringifier_with_config(TrigConfig::new().with_pretty(true)), sophia_turtle::parser::trig::parse_str, true);
    // the Turtle-family readers also take N-Triples, and the generalized readers take everything
    if let Ok(text) = NtSerializer::new_stringifier().serialize_graph(&g).map(|s| s.to_string()) {
        let _ = sophia_turtle::parser::turtle::parse_str(&text).for_each_triple(|t| v.visit("N-Triples read as Turtle", &t.o()));
        let _ = sophia_turtle::parser::gtrig::parse_str(&text).for_each_quad(|q| v.visit("N-Triples read as generalized TriG", &q.o()));
        let _ = sophia_turtle::parser::gnq::parse_str(&text).for_each_quad(|q| v.visit("N-Triples read as generalized N-Quads", &q.o()));
    }
    out
}

// ---------------- the five native types behind one interface ----------------
trait Nat: Clone + std::fmt::Debug {
    /// every public way of converting a term back to this type
    fn back<T: Term + Copy>(t: T) -> Vec<(&'static str, Result<Self, String>)>;
    fn same(&self, o: &Self) -> bool;
}
macro_rules! nat_via_try_from_term { ($ty:ty, $same:expr) => {
    impl Nat for $ty {
        fn back<T: Term + Copy>(t: T) -> Vec<(&'static str, Result<Self, String>)> {
            let flat = |r: std::thread::Result<Result<$ty, String>>| r.unwrap_or_else(|_| Err("a panic".to_string()));
            vec![("try_from_term", flat(catch_unwind(AssertUnwindSafe(|| <$ty>::try_from_term(t).map_err(|e| format!("Err({e:?})")))))),
                 ("try_into_term", flat(catch_unwind(AssertUnwindSafe(|| t.try_into_term::<$ty>().map_err(|e| format!("Err({e:?})")))))),
                 ("CmpTerm<native>::try_from_term", flat(catch_unwind(AssertUnwindSafe(|| CmpTerm::<$ty>::try_from_term(t).map(|c| c.0).map_err(|e| format!("Err({e:?})")))))),
                 ("try_from_term(CmpTerm(term))", flat(catch_unwind(AssertUnwindSafe(|| <$ty>::try_from_term(CmpTerm(t)).map_err(|e| format!("Err({e:?})"))))))]
        }
        fn same(&self, o: &Self) -> bool { let f: fn(&$ty, &$ty) -> bool = $same; f(self, o) }
    }
}; }
nat_via_try_from_term!(i32, |a, b| a == b);
nat_via_try_from_term!(isize, |a, b| a == b);
nat_via_try_from_term!(usize, |a, b| a == b);
nat_via_try_from_term!(bool, |a, b| a == b);
nat_via_try_from_term!(f64, |a, b| same_f64(*a, *b));
/// strings have no TryFromTerm: the way back is the lexical form of an untagged xsd:string literal
impl Nat for String {
    fn back<T: Term + Copy>(t: T) -> Vec<(&'static str, Result<Self, String>)> {
        let (lex, dt, tag) = face_of(&t);
        vec![("lexical_form() of the xsd:string literal", match (lex, dt, tag) { (Some(l), Some(d), None) if d.strip_prefix(XSD) == Some("string") => Ok(l), other => Err(format!("{other:?}")) })]
    }
    fn same(&self, o: &Self) -> bool { self == o }
}

/// checks one copy of a native value: still the same literal, still converts back to the value
struct NativeVisitor<'a, N: Nat> { cx: &'a mut Ctx, idx: usize, what: &'a str, x: &'a N, face: (Option<String>, Option<String>, Option<String>), home: &'a ST, images: BTreeSet<String>, kinds: BTreeSet<u64>, visited: u64 }
impl<N: Nat> Visit for NativeVisitor<'_, N> {
    fn visit<T: Term + ?Sized>(&mut self, name: &str, t: &T) {
        self.visited += 1;
        let r = catch_unwind(AssertUnwindSafe(|| {
            let mut fails: Vec<String> = vec![];
            if let Some(p) = literal_contract(t) { fails.push(format!("{} as {name} breaks the Term contract of a literal: {p}", self.what)); }
            if face_of(t) != self.face { fails.push(format!("{} copied to {name} reads back as {t:?}", self.what)); }
            let b = t.borrow_term();
            if !Term::eq(t, self.home.borrow_term()) || !Term::eq(self.home, b) || Term::cmp(self.home, b) != std::cmp::Ordering::Equal || hash_bytes(t) != hash_bytes(self.home) { fails.push(format!("{} copied to {name} ({t:?}) is not Term::eq / cmp-Equal / hash-equal to its SimpleTerm copy {:?}", self.what, self.home)); }
            for (how, r) in N::back(b) { match &r { Ok(y) if y.same(self.x) => {}, other => fails.push(format!("{} copied to {name} ({t:?}) converts back ({how}) to {other:?}", self.what)) } }
            (fails, if t.kind() == TermKind::Literal && t.lexical_form().is_some() && t.datatype().is_some() { Some(coq_term(b)) } else { None }, kind_rank(t.kind()))
        }));
        match r {
            Err(_) => self.cx.fail(self.idx, format!("{} copied to {name}: a panic while using the Term API on the copy", self.what)),
            Ok((fails, image, kind)) => { for f in fails { self.cx.fail(self.idx, f); } if let Some(i) = image { self.images.insert(i); } self.kinds.insert(kind); }
        }
    }
    fn problem(&mut self, msg: String) { self.cx.fail(self.idx, format!("{}: {msg}", self.what)); }
    fn note(&mut self, key: &str) { self.cx.sum.bump(key); }
}
/// runs a native value through every copy; returns (the Coq lists of kinds and images, was it written bare in pretty Turtle/TriG)
fn native_everywhere<X: Term + Copy, N: Nat>(cx: &mut Ctx, idx: usize, what: &str, x: X, n: &N, full: bool, xml_may_refuse: bool, extra: &dyn for<'b> Fn(&mut NativeVisitor<'b, N>)) -> (String, String, Option<bool>) {
    let home = match catch_unwind(AssertUnwindSafe(|| SimpleTerm::from_term(x))) { Ok(h) => h, Err(_) => { cx.fail(idx, format!("{what}: SimpleTerm::from_term panics")); return ("[]".into(), "[]".into(), None); } };
    let face = face_of(&x);
    let mut v = NativeVisitor { cx, idx, what, x: n, face, home: &home, images: BTreeSet::new(), kinds: BTreeSet::new(), visited: 0 };
    v.visit("the native value itself", &x);
    let r = catch_unwind(AssertUnwindSafe(|| {
        extra(&mut v);
        memory_reps(x, &mut v);
        if full { container_reps(x, &mut v); let o = serialisation_reps(x, true, xml_may_refuse, &mut v); Some(o.pretty_bare) } else { None }
    }));
    let (images, kinds, visited) = (coq_list(v.images.iter().cloned()), coq_list(v.kinds.iter().map(|k| k.to_string())), v.visited);
    cx.sum.bump_by(if full { "copies-checked:full" } else { "copies-checked:memory-only" }, visited);
    match r {
        Err(_) => { cx.fail(idx, format!("{what}: a panic while copying the term")); (kinds, images, None) }
        Ok(None) => (kinds, images, None),
        Ok(Some(bare)) => {
            if bare.len() != 2 || bare[0] != bare[1] { cx.fail(idx, format!("{what}: pretty Turtle and pretty TriG disagree on writing the literal bare: {bare:?}")); }
            (kinds, images, bare.first().copied())
        }
    }
}

// ---------------- the five conversions on one term, in every representation of it ----------------
/// (type, way) -> printed result; the same list for every faithful copy of a term
fn five<T: Term + Copy>(t: T) -> Vec<String> {
    fn show<N: Nat>(t: impl Term + Copy, f: impl Fn(&N) -> String) -> Vec<String> { N::back(t).into_iter().map(|(how, r)| format!("{how} -> {}", match r { Ok(v) => format!("Ok({})", f(&v)), Err(e) => e })).collect() }
    let mut o = vec![];
    o.extend(show::<i32>(t, |v| v.to_string()).into_iter().map(|s| format!("i32 {s}")));
    o.extend(show::<isize>(t, |v| v.to_string()).into_iter().map(|s| format!("isize {s}")));
    o.extend(show::<usize>(t, |v| v.to_string()).into_iter().map(|s| format!("usize {s}")));
    o.extend(show::<bool>(t, |v| v.to_string()).into_iter().map(|s| format!("bool {s}")));
    o.extend(show::<f64>(t, |v| if v.is_nan() { "NaN".to_string() } else { format!("{:#018x}", v.to_bits()) }).into_iter().map(|s| format!("f64 {s}")));
    o
}
/// try_from_term only: what every copy of a term is asked (the other ways are asked of the term itself)
fn five_lean<T: Term + Copy>(t: T) -> Vec<String> {
    fn one<N: TryFromTerm>(t: impl Term + Copy, f: impl Fn(&N) -> String) -> String { match catch_unwind(AssertUnwindSafe(|| N::try_from_term(t))) { Err(_) => "a panic".into(), Ok(Ok(v)) => format!("Ok({})", f(&v)), Ok(Err(e)) => format!("Err({e:?})") } }
    vec![format!("i32 try_from_term -> {}", one::<i32>(t, |v| v.to_string())), format!("isize try_from_term -> {}", one::<isize>(t, |v| v.to_string())), format!("usize try_from_term -> {}", one::<usize>(t, |v| v.to_string())),
         format!("bool try_from_term -> {}", one::<bool>(t, |v| v.to_string())), format!("f64 try_from_term -> {}", one::<f64>(t, |v| if v.is_nan() { "NaN".to_string() } else { format!("{:#018x}", v.to_bits()) }))]
}
/// the ways of one type agree with each other (try_from_term = try_into_term = through CmpTerm)
fn ways_agree(results: &[String]) -> Option<String> {
    for ty in ["i32 ", "isize ", "usize ", "bool ", "f64 "] {
        let rs: Vec<&str> = results.iter().filter(|r| r.starts_with(ty)).map(|r| r.split(" -> ").nth(1).unwrap_or("")).collect();
        if rs.windows(2).any(|w| w[0] != w[1]) { return Some(format!("{}: {:?}", ty.trim(), results.iter().filter(|r| r.starts_with(ty)).collect::<Vec<_>>())); }
    }
    None
}
struct ConvVisitor<'a> { cx: &'a mut Ctx, idx: usize, shown: &'a str, base: &'a ST, expect: &'a [String], visited: u64 }
impl Visit for ConvVisitor<'_> {
    fn visit<T: Term + ?Sized>(&mut self, name: &str, t: &T) {
        self.visited += 1;
        let r = catch_unwind(AssertUnwindSafe(|| {
            let mut fails = vec![];
            let b = t.borrow_term();
            if !Term::eq(t, self.base.borrow_term()) || !Term::eq(self.base, b) { fails.push(format!("{} copied to {name} is the different term {t:?}", self.shown)); }
            let got = five_lean(b);
            if got != self.expect { let d: Vec<String> = got.iter().zip(self.expect).filter(|(a, b)| a != b).map(|(a, b)| format!("{a} (on the SimpleTerm: {b})")).collect(); fails.push(format!("conversions of {} differ on its copy {name}: {}", self.shown, d.join(", "))); }
            fails
        }));
        match r { Err(_) => self.cx.fail(self.idx, format!("{} copied to {name}: a panic", self.shown)), Ok(fails) => for f in fails { self.cx.fail(self.idx, f); } }
    }
    fn problem(&mut self, msg: String) { self.cx.fail(self.idx, format!("{}: {msg}", self.shown)); }
    fn note(&mut self, key: &str) { self.cx.sum.bump(key); }
}
/// can the statement <tag:s> <tag:p> t be written in the concrete syntaxes at all
fn serialisable(t: &ST) -> bool {
    match t { SimpleTerm::LiteralDatatype(_, dt) => sophia_iri::Iri::new(dt.as_str()).is_ok(), SimpleTerm::LiteralLanguage(_, tag) => sophia_api::term::LanguageTag::new(tag.as_str()).is_ok(),
        SimpleTerm::Iri(i) => sophia_iri::Iri::new(i.as_str()).is_ok(), SimpleTerm::BlankNode(b) => sophia_api::term::BnodeId::new(b.as_str()).is_ok(), _ => false }
}

#[derive(Clone, Debug)]
enum Native { I32(i32), Isize(isize), Usize(usize), Bool(bool), Str(String), F64(f64) }
#[derive(Clone, Debug)]
enum Case { Native(Native), Conv(ST), F64Batch(Vec<f64>), DtProbes(usize) }

struct Ctx { sum: Summary, cases: Vec<(usize, String)>, seen: std::collections::HashSet<String>, verbose: bool }
impl Ctx {
    /// at most three descriptions per case, but every failing case is listed
    fn fail(&mut self, idx: usize, msg: String) {
        if self.verbose { println!("ORACLE FAILURE: {msg}"); }
        let id = idx.to_string();
        if self.sum.oracle_failures.iter().rev().take_while(|f| f.0 == id).count() < 3 { self.sum.oracle_failures.push((id, msg)); } else { self.sum.bump("oracle-failures-not-listed"); }
    }
}

/// lexical form, datatype and the general term contract of a native value
fn native_face<T: Term + Copy>(cx: &mut Ctx, idx: usize, what: &str, t: T, dt_local: &str, valid: fn(&str) -> bool) -> (String, String) {
    let lex = t.lexical_form().map(|l| l.to_string()).unwrap_or_default();
    let dt = t.datatype().map(|d| d.as_str().to_string()).unwrap_or_default();
    if t.kind() != TermKind::Literal || t.lexical_form().is_none() || t.language_tag().is_some() || dt != format!("{XSD}{dt_local}") {
        cx.fail(idx, format!("{what} as a term: kind {:?}, datatype <{dt}>, language tag {:?}; expected a plain literal typed xsd:{dt_local}", t.kind(), t.language_tag().map(|l| l.as_str().to_string())));
    }
    if !valid(&lex) {
        let class = if dt_local == "string" { "xsd:string lexical space: a Rust str holding a code point outside the XML Char production gives an ill-typed literal".to_string() } else { format!("xsd:{dt_local} lexical space") };
        cx.fail(idx, format!("{class}: {what} has lexical form {lex:?}, which is not a valid xsd:{dt_local}"));
    }
    (lex, dt)
}

fn run_native(cx: &mut Ctx, idx: usize, v: &Native) {
    let mut body: Vec<String> = vec![];
    macro_rules! int_case { ($x:expr, $ty:ty, $k:expr, $name:expr) => {{
        let x: $ty = $x; let what = format!("{}{}", x, $name);
        let (lex, dt) = native_face(cx, idx, &what, x, "integer", lex_integer);
        if int_value(&lex) != Some(x as i128) { cx.fail(idx, format!("{what}: lexical form {lex:?} does not denote {x}")); }
        body.push(format!("int_term_ok {} {} {} {}", $k, z(x as i128), coq_str(&lex), coq_str(&dt)));
        let direct = catch_unwind(AssertUnwindSafe(|| <$ty>::try_from_term(x)));
        match &direct { Ok(Ok(y)) if *y == x => {}, other => cx.fail(idx, format!("{what}: try_from_term on the native term itself gives {other:?}")) }
        for (name, rep) in reps(x) {
            match rep {
                Err(e) => cx.fail(idx, format!("{what} through {name}: {e}")),
                Ok(st) => {
                    let back = catch_unwind(AssertUnwindSafe(|| <$ty>::try_from_term(st.borrow_term())));
                    match &back { Ok(Ok(y)) if *y == x => {}, other => cx.fail(idx, format!("{what} copied to {name} ({st:?}) converts back to {other:?}")) }
                    if name == "N-Triples" { let r = back.unwrap_or_else(|_| "x".parse::<$ty>()); let (code, val) = int_code(&r.map(|v| v as i128)); body.push(format!("try_int_ok {} {} {code} {}", $k, coq_term(st.borrow_term()), z(val))); }
                }
            }
        }
        let (kinds, images, bare) = native_everywhere(cx, idx, &what, x, &x, true, false, &|_| {});
        body.push(format!("int_reps_ok {} {} {kinds} {images}", $k, z(x as i128)));
        if let Some(b) = bare { body.push(format!("bare_ok (LitDt {} {}) {}", coq_str(&lex), coq_str(&dt), coq_bool(b))); }
        cross(cx, idx, &what, x, &mut body);
        cx.sum.bump(concat!("native:", stringify!($ty)));
    }}; }
    match v {
        Native::I32(x) => int_case!(*x, i32, 0, "i32"),
        Native::Isize(x) => int_case!(*x, isize, 1, "isize"),
        Native::Usize(x) => int_case!(*x, usize, 2, "usize"),
        Native::Bool(b) => {
            let what = format!("{b}");
            let (lex, dt) = native_face(cx, idx, &what, *b, "boolean", lex_boolean);
            if (lex == "true" || lex == "1") != *b { cx.fail(idx, format!("{what}: lexical form {lex:?} does not denote it")); }
            body.push(format!("bool_term_ok {} {} {}", coq_bool(*b), coq_str(&lex), coq_str(&dt)));
            match catch_unwind(AssertUnwindSafe(|| bool::try_from_term(*b))) { Ok(Ok(y)) if y == *b => {}, other => cx.fail(idx, format!("{what}: try_from_term on the native term itself gives {other:?}")) }
            for (name, rep) in reps(*b) {
                match rep { Err(e) => cx.fail(idx, format!("{what} through {name}: {e}")), Ok(st) => {
                    let back = catch_unwind(AssertUnwindSafe(|| bool::try_from_term(st.borrow_term())));
                    match &back { Ok(Ok(y)) if y == b => {}, other => cx.fail(idx, format!("{what} copied to {name} converts back to {other:?}")) }
                    if name == "N-Triples" { body.push(format!("try_bool_ok {} {}", coq_term(st.borrow_term()), coq_opt(back.ok().and_then(|r| r.ok()).map(|b| coq_bool(b).to_string())))); }
                } }
            }
            let (kinds, images, bare) = native_everywhere(cx, idx, &what, *b, b, true, false, &|_| {});
            body.push(format!("bool_reps_ok {} {kinds} {images}", coq_bool(*b)));
            if let Some(w) = bare { body.push(format!("bare_ok (LitDt {} {}) {}", coq_str(&lex), coq_str(&dt), coq_bool(w))); }
            cross(cx, idx, &what, *b, &mut body);
            cx.sum.bump("native:bool");
        }
        Native::Str(s) => {
            let what = format!("the str {s:?}");
            let (lex, dt) = native_face(cx, idx, &what, s.as_str(), "string", lex_string);
            if lex != *s { cx.fail(idx, format!("{what}: lexical form {lex:?} differs from the string")); }
            body.push(format!("str_term_ok {} {} {}", coq_str(s), coq_str(&lex), coq_str(&dt)));
            for (name, rep) in reps(s.as_str()) {
                match rep { Err(e) => cx.fail(idx, format!("{what} through {name}: {e}")), Ok(st) => {
                    let ok = st.lexical_form().map(|l| *l == **s).unwrap_or(false) && st.datatype().map(|d| d.as_str() == format!("{XSD}string")).unwrap_or(false) && st.language_tag().is_none();
                    if !ok { cx.fail(idx, format!("{what} copied to {name} reads back as {st:?}")); }
                } }
            }
            body.push(lex_bits(s));
            // the impl is on the unsized str: used directly (by reference) and through the forwarding impl for &str
            { let (by_ref, unsized_) = (face_of::<&str>(&s.as_str()), face_of::<str>(s.as_str())); if by_ref != unsized_ || unsized_ != (Some(lex.clone()), Some(dt.clone()), None) { cx.fail(idx, format!("{what}: <str as Term> gives {unsized_:?} and <&str as Term> gives {by_ref:?}")); } }
            let sref: &str = s.as_str();
            let (kinds, images, bare) = native_everywhere(cx, idx, &what, sref, s, true, !lex_string(s), &|v| v.visit::<str>("str (the unsized type itself)", sref));
            body.push(format!("str_reps_ok {} {kinds} {images}", coq_str(s)));
            if let Some(w) = bare { body.push(format!("bare_ok (LitDt {} {}) {}", coq_str(&lex), coq_str(&dt), coq_bool(w))); }
            cross(cx, idx, &what, sref, &mut body);
            cx.sum.bump("native:str");
        }
        Native::F64(x) => { run_f64(cx, idx, *x, Some(&mut body), true); }
    }
    cx.cases.push((idx, body.join(" && ")));
}

/// one double: validity of the lexical form and exact round trip through every representation
fn run_f64(cx: &mut Ctx, idx: usize, x: f64, body: Option<&mut Vec<String>>, full: bool) {
    let what = format!("the f64 {}", show_f64(x));
    let (lex, dt) = native_face(cx, idx, &what, x, "double", lex_double);
    match catch_unwind(AssertUnwindSafe(|| f64::try_from_term(x))) { Ok(Ok(y)) if same_f64(x, y) => {}, other => cx.fail(idx, format!("{what}: try_from_term on the native term itself gives {other:?}")) }
    let mut class = 98;
    for (name, rep) in reps(x) {
        match rep { Err(e) => cx.fail(idx, format!("{what} through {name}: {e}")), Ok(st) => {
            let back = catch_unwind(AssertUnwindSafe(|| f64::try_from_term(st.borrow_term())));
            match &back { Ok(Ok(y)) if same_f64(x, *y) => {}, Ok(Ok(y)) => cx.fail(idx, format!("{what} (lexical form {lex:?}) copied to {name} converts back to {}", show_f64(*y))), other => cx.fail(idx, format!("{what} (lexical form {lex:?}) copied to {name} converts back to {other:?}")) }
            if name == "N-Triples" { if let Ok(r) = &back { class = f64_class(&st.lexical_form().unwrap(), r); } }
        } }
    }
    // every double goes through the copies above; those marked `full` also through every other representation, container and syntax
    let (kinds, images, bare) = if full { native_everywhere(cx, idx, &what, x, &x, true, false, &|_| {}) } else { ("[]".to_string(), "[]".to_string(), None) };
    let sig = lex.chars().filter(|c| c.is_ascii_digit()).collect::<String>().trim_start_matches('0').trim_end_matches('0').len();
    cx.sum.bump(if x.is_nan() { "f64:nan" } else if x.is_infinite() { "f64:infinite" } else if x == 0.0 { "f64:zero" } else if x.is_subnormal() { "f64:subnormal" } else if sig >= 17 { "f64:17-significant-digits" } else if lex.len() > 25 { "f64:huge-or-tiny-magnitude" } else if x.fract() == 0.0 { "f64:integral" } else { "f64:other-finite" });
    if let Some(body) = body {
        let code = if x.is_nan() { Some(0) } else if x == f64::INFINITY { Some(1) } else if x == f64::NEG_INFINITY { Some(2) } else if x == 0.0 { Some(if x.is_sign_negative() { 4 } else { 3 }) } else { None };
        if let Some(c) = code { body.push(format!("f64_term_ok {c} {} {}", coq_str(&lex), coq_str(&dt))); body.push(format!("f64_reps_ok {c} {kinds} {images}")); }
        body.push(format!("reps_ok (LitDt {} {}) {kinds} {images}", coq_str(&lex), coq_str(&dt)));
        if let Some(w) = bare { body.push(format!("bare_ok (LitDt {} {}) {}", coq_str(&lex), coq_str(&dt), coq_bool(w))); }
        cross(cx, idx, &what, x, body);
        // the model's reader on the text the implementation wrote
        body.push(format!("try_f64_ok (LitDt {} {}) {class}", coq_str(&lex), coq_str(&dt)));
        body.push(lex_bits(&lex));
    }
}

/// a native term handed directly to the conversions of the OTHER native types: same answers as on its SimpleTerm copy,
/// whose answers are then checked by the oracle and the model like those of any other term
fn cross<X: Term + Copy>(cx: &mut Ctx, idx: usize, what: &str, x: X, body: &mut Vec<String>) {
    let st = SimpleTerm::from_term(x);
    let (direct, on_copy) = (five(x), five(st.borrow_term()));
    if direct != on_copy { let d: Vec<String> = direct.iter().zip(&on_copy).filter(|(a, b)| a != b).map(|(a, b)| format!("{a} (on its SimpleTerm copy: {b})")).collect(); cx.fail(idx, format!("{what} handed to the native conversions directly: {}", d.join(", "))); }
    if let Some(d) = ways_agree(&direct) { cx.fail(idx, format!("{what}: try_from_term, try_into_term and the CmpTerm detours disagree: {d}")); }
    body.extend(conv_body(cx, idx, &st));
}

/// TryFromTerm of the five native types on an arbitrary term, in every representation of it
fn run_conv(cx: &mut Ctx, idx: usize, t: &ST) {
    let mut body = conv_body(cx, idx, t);
    let lit = t.is_literal();
    let shown = format!("{t:?}");
    let expect = five(t.borrow_term());
    if let Some(d) = ways_agree(&expect) { cx.fail(idx, format!("{shown}: try_from_term, try_into_term and the CmpTerm detours disagree: {d}")); }
    let written = lit && serialisable(t);
    let xml = written && t.lexical_form().is_some_and(|l| lex_string(&l));
    let lean: Vec<String> = expect.iter().filter(|r| r.contains(" try_from_term -> ")).cloned().collect();
    if lean != five_lean(t.borrow_term()) { cx.fail(idx, format!("{shown}: try_from_term gives different answers when asked twice")); }
    let mut v = ConvVisitor { cx, idx, shown: &shown, base: t, expect: &lean, visited: 0 };
    let r = catch_unwind(AssertUnwindSafe(|| {
        memory_reps(t, &mut v);
        if written { container_reps(t, &mut v); Some(serialisation_reps(t, xml, false, &mut v).pretty_bare) } else { None }
    }));
    let visited = v.visited;
    cx.sum.bump_by(if written { "conv-copies-checked:full" } else { "conv-copies-checked:memory-only" }, visited);
    match r {
        Err(_) => cx.fail(idx, format!("{shown}: a panic while copying the term")),
        Ok(None) => {}
        Ok(Some(bare)) => {
            if bare.len() != 2 || bare[0] != bare[1] { cx.fail(idx, format!("{shown}: pretty Turtle and pretty TriG disagree on writing the literal bare: {bare:?}")); }
            if let Some(b) = bare.first() { body.push(format!("bare_ok {} {}", coq_term(t.borrow_term()), coq_bool(*b))); cx.sum.bump(if *b { "conv-pretty:bare" } else { "conv-pretty:quoted" }); }
        }
    }
    let dt = t.datatype().map(|d| d.as_str().to_string()).unwrap_or_default();
    cx.sum.bump(&format!("conv:{}", if !lit { "not-a-literal".to_string() } else if t.language_tag().is_some() { "language-tagged".into() } else { dt.strip_prefix(XSD).unwrap_or("other-datatype").to_string() }));
    cx.cases.push((idx, body.join(" && ")));
}

/// oracle and model cases for TryFromTerm of the five native types on one term
fn conv_body(cx: &mut Ctx, idx: usize, t: &ST) -> Vec<String> {
    let lit = t.is_literal();
    let lex = t.lexical_form().map(|l| l.to_string()).unwrap_or_default();
    let dt = t.datatype().map(|d| d.as_str().to_string()).unwrap_or_default();
    let shown = format!("{t:?}");
    let mut body: Vec<String> = vec![];
    let ct = coq_term(t.borrow_term());
    macro_rules! int_conv { ($ty:ty, $k:expr) => {{
        let mut first: Option<Result<$ty, std::num::ParseIntError>> = None;
        for arc in [false, true] {
            let r = if arc { let a = ArcTerm::from_term(t.borrow_term()); catch_unwind(AssertUnwindSafe(|| <$ty>::try_from_term(a.borrow_term()))) } else { catch_unwind(AssertUnwindSafe(|| <$ty>::try_from_term(t.borrow_term()))) };
            match r {
                Err(_) => cx.fail(idx, format!("{}::try_from_term({shown}) panics", stringify!($ty))),
                Ok(r) if arc => { if first.as_ref() != Some(&r) { cx.fail(idx, format!("{}::try_from_term({shown}) = {first:?} on a SimpleTerm but {r:?} on its ArcTerm copy", stringify!($ty))); } }
                Ok(r) => {
                    first = Some(r.clone());
                    if let Ok(v) = &r {
                        let v = *v as i128;
                        let why = if !lit { Some("the term is not a literal".to_string()) }
                            else { match int_facets(&dt) {
                                None => Some(format!("<{dt}> is not an integer datatype")),
                                Some((lo, hi)) => if !lex_integer(&lex) { Some(format!("{lex:?} is not in the lexical space of xsd:integer")) }
                                    else if int_value(&lex) != Some(v) { Some(format!("{lex:?} denotes {:?}", int_value(&lex))) }
                                    else if lo.is_some_and(|lo| v < lo) || hi.is_some_and(|hi| v > hi) { Some(format!("derived integer datatype range: {v} is not in the value space of <{dt}>, the literal is ill-typed and denotes nothing")) }
                                    else { None } } };
                        if let Some(why) = why { cx.fail(idx, format!("{}::try_from_term({shown}) = Ok({v}) but {why}", stringify!($ty))); }
                        cx.sum.bump(concat!("conv-ok:", stringify!($ty)));
                    }
                    { let (code, val) = int_code(&r.map(|v| v as i128)); body.push(format!("try_int_ok {} {ct} {code} {}", $k, z(val))); }
                }
            }
        }
    }}; }
    int_conv!(i32, 0); int_conv!(isize, 1); int_conv!(usize, 2);
    match catch_unwind(AssertUnwindSafe(|| f64::try_from_term(t.borrow_term()))) {
        Err(_) => cx.fail(idx, format!("f64::try_from_term({shown}) panics")),
        Ok(r) => {
            if let Ok(v) = &r {
                let l = dt.strip_prefix(XSD).unwrap_or("");
                let why = if !lit { Some("the term is not a literal".to_string()) }
                    else if !matches!(l, "double" | "float" | "decimal") { Some(format!("<{dt}> is not a floating point or decimal datatype")) }
                    else if !(if l == "decimal" { lex_decimal(&lex) } else { lex_double(&lex) }) { Some(format!("{lex:?} is not in the lexical space of xsd:{l}")) }
                    else {
                        let expect = match lex.as_str() { "INF" | "+INF" => f64::INFINITY, "-INF" => f64::NEG_INFINITY, "NaN" => f64::NAN,
                            _ => if l == "float" { lex.parse::<f32>().map(f64::from).unwrap_or(f64::NAN) } else { lex.parse::<f64>().unwrap_or(f64::NAN) } };
                        if same_f64(expect, *v) { None } else { Some(format!("{lex:?} denotes {} in xsd:{l}{}", show_f64(expect), if l == "float" { " (the value space of xsd:float is that of f32)" } else { "" })) }
                    };
                if let Some(why) = why { cx.fail(idx, format!("f64::try_from_term({shown}) = Ok({}) but {why}", show_f64(*v))); }
                cx.sum.bump("conv-ok:f64");
            }
            body.push(format!("try_f64_ok {ct} {}", f64_class(&lex, &r)));
        }
    }
    match catch_unwind(AssertUnwindSafe(|| bool::try_from_term(t.borrow_term()))) {
        Err(_) => cx.fail(idx, format!("bool::try_from_term({shown}) panics")),
        Ok(r) => {
            if let Ok(v) = &r {
                let why = if !lit { Some("the term is not a literal") } else if dt != format!("{XSD}boolean") { Some("the datatype is not xsd:boolean") } else if !lex_boolean(&lex) { Some("the lexical form is not in the lexical space of xsd:boolean") } else if (lex == "true" || lex == "1") != *v { Some("the lexical form denotes the other value") } else { None };
                if let Some(why) = why { cx.fail(idx, format!("bool::try_from_term({shown}) = Ok({v}) but {why}")); }
                cx.sum.bump("conv-ok:bool");
            }
            body.push(format!("try_bool_ok {ct} {}", coq_opt(r.ok().map(|b| coq_bool(b).to_string()))));
        }
    }
    if lit { body.push(lex_bits(&lex)); }
    body
}

// ---------------- datatype IRIs next to the ones the conversions look for ----------------
/// the IRI constants the conversions (and the code they call) compare a datatype with
fn dt_constants() -> Vec<String> { let mut v: Vec<String> = CONV_DTS[..18].iter().map(|d| xsd(d)).collect(); v.push(format!("{RDF}langString")); v }
/// the same constants as sophia_api::ns spells them (same order as dt_constants)
fn ns_constants() -> Vec<sophia_api::ns::NsTerm<'static>> {
    use sophia_api::ns::{rdf, xsd as x};
    vec![x::integer, x::nonPositiveInteger, x::negativeInteger, x::long, x::int, x::short, x::byte, x::nonNegativeInteger, x::unsignedLong, x::unsignedInt, x::unsignedShort, x::unsignedByte, x::positiveInteger,
         x::decimal, x::double, x::float, x::boolean, x::string, rdf::langString]
}
/// a lexical form the real datatype accepts (so that a wrong match would show as Ok)
fn valid_lex_for(c: &str) -> &'static str { match c.rsplit('#').next().unwrap_or("") { "boolean" => "true", "negativeInteger" => "-1", "nonPositiveInteger" => "0", _ => "1" } }
fn iri_ref_ok(s: &str) -> bool { sophia_api::term::IriRef::new(s).is_ok() }
/// IRI references that are not the (ASCII) constant `c` but close to it in every way a comparison could cut corners:
/// (family, IRI); families: same byte length with one character / the whole tail / the whole head replaced at every offset,
/// one byte longer or shorter, a 2-, 3- or 4-byte character lying across every byte offset (in the constant's own text and in a filler of
/// the same byte length), every proper tail and every proper head of the constant, IRIs that start or end with the whole constant
fn iri_neighbours(c: &str) -> Vec<(String, String)> {
    assert!(c.is_ascii());
    let l = c.len(); let mut v: Vec<(String, String)> = vec![];
    let other = |b: u8| if b == b'x' { 'y' } else { 'x' };
    for k in 0..l {
        v.push((format!("same-length:char-replaced@{k}"), format!("{}{}{}", &c[..k], other(c.as_bytes()[k]), &c[k + 1..])));
        v.push((format!("same-length:tail-replaced@{k}"), format!("{}{}", &c[..k], "x".repeat(l - k))));
        if k >= 2 { v.push((format!("same-length:head-replaced@{k}"), format!("x:{}{}", "a".repeat(k - 2), &c[k..]))); }
        if k > 0 { v.push((format!("tail@{k}"), c[k..].to_string())); v.push((format!("head@{k}"), c[..k].to_string())); }
    }
    v.push(("tail@end (empty reference)".into(), String::new()));
    for (n, ch) in [(2usize, '\u{e9}'), (3, '\u{20ac}'), (4, '\u{10000}')] {
        for p in 0..=l - n {
            v.push((format!("same-length:{n}-byte-char@{p}"), format!("{}{ch}{}", &c[..p], &c[p + n..])));
            v.push((format!("same-length-filler:{n}-byte-char@{p}"), if p >= 2 { format!("x:{}{ch}{}", "a".repeat(p - 2), "a".repeat(l - p - n)) } else { format!("{}{ch}{}", "a".repeat(p), "a".repeat(l - p - n)) }));
        }
        // one byte more / less than the constant, the character across the namespace boundary
        let ns = c.find('#').map(|i| i + 1).unwrap_or(l / 2);
        v.push((format!("longer:{n}-byte-char@{}", ns - 1), format!("{}{ch}{}", &c[..ns - 1], &c[ns + n - 2..])));
        if ns + n <= l { v.push((format!("shorter:{n}-byte-char@{}", ns - 1), format!("{}{ch}{}", &c[..ns - 1], &c[ns + n..]))); }
    }
    v.push(("longer:char-appended".into(), format!("{c}x"))); v.push(("longer:char-prepended".into(), format!("x{c}")));
    v.push(("shorter:last-char-dropped".into(), c[..l - 1].to_string())); v.push(("shorter:first-char-dropped".into(), c[1..].to_string()));
    v.push(("ends-with-the-constant".into(), format!("x:{c}"))); v.push(("ends-with-the-constant".into(), format!("http://a/{c}")));
    v.push(("starts-with-the-constant".into(), format!("{c}/x"))); v.push(("starts-with-the-constant".into(), format!("{c}\u{e9}")));
    v.push(("other-case".into(), c.to_ascii_uppercase())); v.push(("other-case".into(), c.to_ascii_lowercase()));
    v.retain(|(_, i)| i != c);
    v
}
/// the few neighbours of each constant that also run as full cases (every representation, every syntax, the Coq model)
fn chosen_neighbours(c: &str) -> Vec<String> {
    let l = c.len(); let ns = c.find('#').map(|i| i + 1).unwrap_or(l / 2);
    let want = [format!("same-length:2-byte-char@{}", ns - 1), format!("same-length:3-byte-char@{}", ns - 1), format!("same-length:3-byte-char@{}", ns - 2), format!("same-length:4-byte-char@{}", ns - 2),
        format!("same-length-filler:2-byte-char@{}", ns - 1), format!("same-length:2-byte-char@{}", l - 2), format!("same-length:char-replaced@{}", l - 1), format!("same-length:char-replaced@{}", ns - 1), "same-length:char-replaced@0".to_string(),
        format!("tail@{}", ns - 1), format!("tail@{ns}"), format!("head@{ns}"), "longer:char-appended".to_string(), "shorter:last-char-dropped".to_string(), "ends-with-the-constant".to_string(), "starts-with-the-constant".to_string()];
    let all = iri_neighbours(c);
    want.iter().filter_map(|w| all.iter().find(|(f, i)| f == w && iri_ref_ok(i)).map(|(_, i)| i.clone())).collect()
}
/// every neighbour of the k-th constant as the datatype of a literal whose lexical form the real datatype accepts, handed to the five conversions
/// in five representations: never a panic, never Ok (the datatype is not one the conversion lists), never Term::eq to the real literal
fn run_dt_probes(cx: &mut Ctx, idx: usize, k: usize) -> u64 {
    let consts = dt_constants(); let c = &consts[k]; let lex = valid_lex_for(c);
    let real = lit_dt(lex, c);
    let nst = ns_constants()[k];
    // the constant itself, as the ns module spells it and as `lexical * datatype` builds the literal
    match catch_unwind(AssertUnwindSafe(|| {
        let mut bad: Vec<String> = vec![];
        if nst.iri().map(|i| i.as_str().to_string()).as_deref() != Some(c.as_str()) || nst.iriref().as_str() != c || nst.kind() != TermKind::Iri { bad.push(format!("the ns module spells it {nst:?}")); }
        if !Term::eq(&nst, iri(c)) || !Term::eq(&iri(c), nst) || !(nst == iri(c)) { bad.push("NsTerm and the IRI are not Term::eq".into()); }
        let built = lex * nst;
        if !Term::eq(&built, &real) || five(&built) != five(&real) { bad.push(format!("\"{lex}\" * datatype builds {built:?}")); }
        if c.starts_with(XSD) { let via_ns = sophia_api::ns::Namespace::new(XSD).ok().and_then(|n| n.get(&c[XSD.len()..]).ok().map(|t| Term::eq(&t, nst) && t == iri(c))); if via_ns != Some(true) { bad.push("Namespace::get gives another term".into()); } }
        bad
    })) { Err(_) => cx.fail(idx, format!("datatype constant <{c}>: a panic while comparing the NsTerm with its own IRI")), Ok(bad) => if !bad.is_empty() { cx.fail(idx, format!("datatype constant <{c}>: {}", bad.join("; "))); } }
    let mut n = 0;
    for (family, i) in iri_neighbours(c) {
        if consts.contains(&i) { cx.sum.bump("datatype-neighbour:is-another-constant"); continue; }
        if !iri_ref_ok(&i) { cx.sum.bump("datatype-neighbour:not-an-IRI-reference"); continue; }
        n += 1;
        cx.sum.bump(&format!("datatype-neighbour:{}", family.split('@').next().unwrap_or("")));
        let r = catch_unwind(AssertUnwindSafe(|| {
            let t = lit_dt(lex, &i);
            let mut bad: Vec<String> = vec![];
            fn ask_in(bad: &mut Vec<String>, name: &str, res: Vec<String>) { for r in res { if !r.contains("-> Err(") { bad.push(format!("{r} in {name}")); } } }
            macro_rules! ask { ($n:expr, $r:expr) => { ask_in(&mut bad, $n, $r) }; }
            ask!("SimpleTerm", five_lean(&t));
            ask!("CmpTerm<&SimpleTerm>", five_lean(CmpTerm(&t)));
            let arc = ArcTerm::from_term(&t); ask!("ArcTerm", five_lean(&arc));
            match GenericLiteral::<Box<str>>::try_from_term(&t) { Ok(g) => ask!("GenericLiteral<Box<str>>", five_lean(&g)), Err(e) => bad.push(format!("GenericLiteral::try_from_term fails: {e}")) }
            if sophia_iri::Iri::new(i.as_str()).is_ok() { ask!("rio Literal", five_lean(Trusted(rio_literal(lex, &i, None)))); }
            if Term::eq(&t, &real) || Term::eq(&real, &t) || Term::eq(&arc, &real) || Term::cmp(&t, &real) == std::cmp::Ordering::Equal { bad.push("Term::eq / Term::cmp take it for the real literal".into()); }
            // the comparison the conversions are built on, in both directions and through the operators
            let d = t.datatype().unwrap();
            if Term::eq(&d, nst) || Term::eq(&nst, d.borrow_term()) || nst == d || nst == arc.datatype().unwrap() { bad.push("the datatype IRI compares equal to the NsTerm constant".into()); }
            bad
        }));
        match r {
            Err(_) => cx.fail(idx, format!("datatype IRI next to <{c}> ({family}): a panic while copying \"{lex}\"^^<{i}>")),
            Ok(bad) => if !bad.is_empty() { cx.fail(idx, format!("datatype IRI next to <{c}> ({family}): \"{lex}\"^^<{i}> (a datatype no conversion lists; conversions must refuse it and never panic): {}", bad.join("; "))); }
        }
    }
    n
}

// ---------------- generators ----------------
/// doubles of a batch that also go through the containers and the serialisations (all of them go through the in-memory copies)
const FULL_PER_BATCH: usize = 3;
const FLOAT_FORMS: [&str; 62] = ["0", "-0", "+0", "1", "-1", "1.5", "-1.5", "+1.5", ".5", "-.5", "5.", "+5.", "1e5", "1E5", "1e+5", "1E-5", "-1.5e-3", ".5e1", "5.e1", "1e400", "-1e400", "1e-400", "-1e-400",
    "0.1", "0.3", "16777217", "3.4028235e38", "3.4028236e38", "1e39", "1e-46", "0.30000000000000004", "1.7976931348623157e308", "1.7976931348623159e308", "4.9e-324", "2e-324",
    "INF", "+INF", "-INF", "NaN", "inf", "-inf", "+inf", "Inf", "infinity", "-Infinity", "INFINITY", "nan", "NAN", "+NaN", "-NaN", "-nan",
    "", ".", "+", "-", "e5", "1e", "1e+", "1.2.3", "0x10", "1_000", "1f"];
const INT_MALFORMED: [&str; 22] = ["", "+", "-", "--1", "+-1", "-+1", "1-", "1.0", "1.", ".1", "1e3", "0x10", "1_000", "1,000", "\u{0661}\u{0662}", "\u{ff11}", "१२", "one", "1 2", "-", "+ 1", "１"];
const PADS: [(&str, &str); 7] = [(" ", ""), ("", " "), (" ", " "), ("\t", ""), ("", "\n"), ("\u{a0}", ""), ("", "\r\n")];
const CONV_DTS: [&str; 20] = ["integer", "nonPositiveInteger", "negativeInteger", "long", "int", "short", "byte", "nonNegativeInteger", "unsignedLong", "unsignedInt", "unsignedShort", "unsignedByte", "positiveInteger",
    "decimal", "double", "float", "boolean", "string", "dateTime", "anyURI"];
fn xsd(l: &str) -> String { format!("{XSD}{l}") }
fn int_boundaries(dt: &str) -> Vec<i128> {
    let mut v: Vec<i128> = vec![0, 1, -1, 127, 128, -128, -129, 255, 256, 32767, 32768, -32768, -32769, 65535, 65536,
        i32::MAX as i128, i32::MAX as i128 + 1, i32::MIN as i128, i32::MIN as i128 - 1, u32::MAX as i128, u32::MAX as i128 + 1,
        i64::MAX as i128, i64::MAX as i128 + 1, i64::MIN as i128, i64::MIN as i128 - 1, u64::MAX as i128, u64::MAX as i128 + 1, 10i128.pow(30), -(10i128.pow(30))];
    if let Some((lo, hi)) = int_facets(&xsd(dt)) { for b in [lo, hi].into_iter().flatten() { v.extend([b - 1, b, b + 1]); } }
    v.sort(); v.dedup(); v
}
fn fixed_cases() -> Vec<Case> {
    let mut c = vec![];
    for x in [i32::MIN, i32::MIN + 1, -2147483647, -1000000000, -10, -9, -1, 0, 1, 9, 10, 99, 100, 1000000000, i32::MAX - 1, i32::MAX] { c.push(Case::Native(Native::I32(x))); }
    for x in [isize::MIN, isize::MIN + 1, i32::MIN as isize - 1, i32::MIN as isize, -1, 0, 1, i32::MAX as isize, i32::MAX as isize + 1, u32::MAX as isize, 999999999999999999, 1000000000000000000, isize::MAX - 1, isize::MAX] { c.push(Case::Native(Native::Isize(x))); }
    for x in [0usize, 1, 9, 10, i32::MAX as usize, i32::MAX as usize + 1, u32::MAX as usize, u32::MAX as usize + 1, i64::MAX as usize, i64::MAX as usize + 1, 9999999999999999999, 10000000000000000000, usize::MAX - 1, usize::MAX] { c.push(Case::Native(Native::Usize(x))); }
    for b in [true, false] { c.push(Case::Native(Native::Bool(b))); }
    for s in ["", "hello world", "true", "1", "42", "INF", " ", "\n", "\t\r", "say \"hi\" \\ back", "é€😀", "\u{d7ff}\u{e000}", "\u{fffd}", "\u{10000}\u{10ffff}", "\u{7f}\u{80}\u{85}",
              "\u{0}", "a\u{1}b", "\u{8}\u{b}\u{c}\u{e}\u{1f}", "\u{fffe}", "\u{ffff}"] { c.push(Case::Native(Native::Str(s.to_string()))); }
    let bits = |b: u64| f64::from_bits(b);
    for x in [f64::NAN, -f64::NAN, bits(0x7ff0000000000001), bits(0xfff8000000000123), f64::INFINITY, f64::NEG_INFINITY, 0.0, -0.0,
              f64::MIN_POSITIVE, -f64::MIN_POSITIVE, bits(1), -bits(1), bits(2), bits(0x000fffffffffffff), bits(0x0008000000000000), bits(0x0010000000000001),
              f64::MAX, f64::MIN, bits(0x7feffffffffffffe), f64::EPSILON, 1.0, -1.0, 1.0 + f64::EPSILON, 1.0 - f64::EPSILON / 2.0, 0.1, 0.2, 0.1 + 0.2, 1.0 / 3.0, 2.0 / 3.0, 100.0, 1.5, -2.5e-5,
              9007199254740991.0, 9007199254740992.0, 9007199254740994.0, 9007199254740993.0, 123456789012345680.0, 1e15, 1e16, 1e17, 1e21, 1e22, 1e23, 1e-5, 1e-6, 1e-7, 1e100, 1e300, 1e308, 1e-300, 1e-308, 1e-320,
              1.7976931348623157e308, 2.2250738585072014e-308, 2.225073858507201e-308, 4.9e-324, 5e-324, 0.30000000000000004, 8.41e21, 2.0f64.powi(63), 2.0f64.powi(64), -(2.0f64.powi(31)), 2.0f64.powi(-1074), 2.0f64.powi(1023),
              f64::from(f32::MAX), f64::from(0.1f32), f64::from(f32::MIN_POSITIVE), std::f64::consts::PI, std::f64::consts::E] { c.push(Case::Native(Native::F64(x))); }
    // literals: every integer datatype with every boundary, plain
    for dt in &CONV_DTS[..13] { for v in int_boundaries(dt) { c.push(Case::Conv(lit_dt(&v.to_string(), &xsd(dt)))); } }
    // signed / padded / malformed forms on a few datatypes
    for dt in ["integer", "unsignedByte", "negativeInteger", "nonPositiveInteger", "positiveInteger", "long"] {
        for f in ["+0", "-0", "+1", "-1", "007", "+007", "-007", "000", "-000", "+255", "+256", "0255", "00000000000000000000000000000000000000000001", "-00000000000000000000000000000000000000000001", "99999999999999999999999999999999999999999"] { c.push(Case::Conv(lit_dt(f, &xsd(dt)))); }
        for f in INT_MALFORMED { c.push(Case::Conv(lit_dt(f, &xsd(dt)))); }
        for (a, b) in PADS { c.push(Case::Conv(lit_dt(&format!("{a}7{b}"), &xsd(dt)))); }
    }
    // the other integer datatypes: a shorter list of signed / padded / malformed forms
    for dt in ["nonNegativeInteger", "int", "short", "byte", "unsignedLong", "unsignedInt", "unsignedShort"] {
        for f in ["+0", "-0", "+1", "-1", "007", "-007", " 7", "7 ", "", "1.0", "1e3", "0x10", "\u{0663}", "+", "-"] { c.push(Case::Conv(lit_dt(f, &xsd(dt)))); }
    }
    // near misses of every datatype IRI the white-lists name (a valid lexical form of the real datatype each time):
    // other case, one character more or less, another namespace spelling
    for dt in &CONV_DTS[..17] {
        let f = match *dt { "boolean" => "true", "negativeInteger" => "-1", "nonPositiveInteger" => "0", _ => "1" };
        let mut up = dt.to_string(); up[..1].make_ascii_uppercase();
        for near in [format!("{XSD}{up}"), format!("{XSD}{}", dt.to_ascii_lowercase()), format!("{XSD}{dt}s"), format!("{XSD}{}", &dt[..dt.len() - 1]), format!("{XSD}{dt}%20"), format!("{XSD}{dt}/"), format!("{XSD}?{dt}"),
                     format!("https://www.w3.org/2001/XMLSchema#{dt}"), format!("http://www.w3.org/2001/XMLSchema{dt}"), format!("http://www.w3.org/2001/XMLSchema/{dt}"), format!("http://www.w3.org/2001/xmlschema#{dt}"),
                     format!("{RDF}{dt}"), format!("xsd:{dt}"), dt.to_string()] {
            if near != xsd(dt) { c.push(Case::Conv(lit_dt(f, &near))); }
        }
    }
    // the white-listed datatypes with the forms of the OTHER families (an integer datatype on "true", "1.5", "NaN"; xsd:boolean on numerals ...)
    for dt in &CONV_DTS[..17] { for f in ["true", "false", "1.5", "NaN", "INF", "-INF", "1e0", "0", "1", "-1", "+1", "00", " ", "१"] { c.push(Case::Conv(lit_dt(f, &xsd(dt)))); } }
    for f in ["1", "true", "1.5", "INF"] { for tag in ["en", "EN-us", "x-integer"] { c.push(Case::Conv(lit_lang(f, tag))); } }
    for dt in ["double", "float", "decimal"] { for f in FLOAT_FORMS { c.push(Case::Conv(lit_dt(f, &xsd(dt)))); } for (a, b) in PADS { c.push(Case::Conv(lit_dt(&format!("{a}1.5{b}"), &xsd(dt)))); } }
    for f in ["true", "false", "1", "0", "TRUE", "True", " true", "true ", "", "yes", "01", "+1"] { c.push(Case::Conv(lit_dt(f, &xsd("boolean")))); }
    for dt in ["string", "dateTime", "anyURI", "Integer", "INTEGER", "integer%20", "doubl", "doublee"] { for f in ["5", "true", "1.5", "NaN"] { c.push(Case::Conv(lit_dt(f, &xsd(dt)))); } }
    for f in ["5", "true", "1.5"] { c.push(Case::Conv(lit_dt(f, "http://www.w3.org/2001/XMLSchema/integer"))); c.push(Case::Conv(lit_dt(f, "integer"))); c.push(Case::Conv(lit_dt(f, ""))); c.push(Case::Conv(lit_lang(f, "en"))); }
    for (k, c0) in dt_constants().iter().enumerate() { c.push(Case::DtProbes(k)); for i in chosen_neighbours(c0) { c.push(Case::Conv(lit_dt(valid_lex_for(c0), &i))); } }
    for t in [iri(&xsd("integer")), iri("5"), iri(""), bnode("b5"), bnode("5"), var("v"), triple(iri("tag:s"), iri("tag:p"), lit_dt("5", &xsd("integer"))), triple(lit_dt("5", &xsd("integer")), lit_dt("true", &xsd("boolean")), lit_dt("1.5", &xsd("double")))] { c.push(Case::Conv(t)); }
    c
}
fn random_f64(r: &mut Rng) -> f64 {
    match r.below(10) {
        0 | 1 | 2 => f64::from_bits(r.next()),                                              // anything, mostly huge or tiny magnitudes
        3 => f64::from_bits(r.next() & 0x800f_ffff_ffff_ffff),                              // subnormal
        4 => { let e = r.range(1000, 1060) as u64; f64::from_bits((r.next() & 0x800f_ffff_ffff_ffff) | (e << 52)) } // around 1 .. 2^37: 17 digits with a point inside
        5 => (r.next() >> r.below(64)) as f64 * if r.chance(1, 2) { -1.0 } else { 1.0 },      // integral
        6 => { let m = (r.next() % 1_000_000) as f64; let e = r.range(0, 60) as i32 - 30; m * 10f64.powi(e) } // short decimal
        7 => { let e = r.range(0, 640) as i32 - 330; let m = 1.0 + (r.next() % 9000) as f64 / 1000.0; m * 10f64.powi(e) } // all decimal exponents
        8 => { let base = f64::from_bits(r.next() & 0x7fff_ffff_ffff_ffff); let n = r.below(3); let mut x = base; for _ in 0..n { x = f64::from_bits(x.to_bits().wrapping_add(1)); } if r.chance(1, 2) { -x } else { x } } // neighbours
        _ => f64::from((r.next() as u32 as f32) / (1u32 << r.below(31)) as f32),            // exactly representable in f32
    }
}
/// a decimal numeral at, just above or just below the midpoint of two adjacent values of the datatype's value
/// space (f32 for xsd:float, f64 otherwise): rounding it in two steps, or from a truncated prefix, gives the wrong neighbour
fn midpoint_lex(r: &mut Rng, float32: bool) -> String {
    let digits = if float32 {
        let e = r.range(127 - 40, 127 + 60) as u32; let x = f32::from_bits((e << 23) | (r.next() as u32 & 0x007f_ffff)); let y = f32::from_bits(x.to_bits() + 1);
        let m = (f64::from(x) + f64::from(y)) / 2.0; // exact: both have 24-bit significands
        let s = format!("{m:.120}"); s.trim_end_matches('0').to_string() + if s.trim_end_matches('0').ends_with('.') { "0" } else { "" }
    } else {
        let k = r.range(1, 40) as u32; let m = (r.next() >> 11) | (1 << 52); let x = (m as u128) << k; let mid = x + (1u128 << (k - 1));
        format!("{mid}.0")
    };
    let s = match r.below(4) {
        0 => digits,                                   // the tie itself (round half to even)
        1 => format!("{digits}{}1", "0".repeat(r.below(30))), // just above
        _ => { // just below: decrement the last non-zero digit and append nines
            let mut ch: Vec<char> = digits.trim_end_matches('0').trim_end_matches('.').chars().collect();
            let had_point = ch.contains(&'.');
            if let Some(p) = ch.iter().rposition(|c| c.is_ascii_digit() && *c != '0') { ch[p] = char::from(ch[p] as u8 - 1); for q in p + 1..ch.len() { if ch[q] == '0' { ch[q] = '9'; } } }
            let t: String = ch.into_iter().collect(); format!("{t}{}{}", if had_point { "" } else { "." }, "9".repeat(r.range(12, 40)))
        }
    };
    if r.chance(1, 2) { format!("-{s}") } else { s }
}
fn random_int_lex(r: &mut Rng, dt: &str) -> String {
    let v: i128 = match r.below(4) {
        0 => *r.pick(&int_boundaries(dt)),
        1 => { let w = r.range(1, 70) as u32; let m = ((r.next() as u128) << 64 | r.next() as u128) >> (128 - w); if r.chance(1, 2) { -(m as i128) } else { m as i128 } }
        2 => r.below(300) as i128 - 150,
        _ => { let b = *r.pick(&int_boundaries(dt)); b + r.below(5) as i128 - 2 }
    };
    let mut s = v.abs().to_string();
    if r.chance(1, 5) { s = format!("{}{s}", "0".repeat(r.range(1, 25))); }
    let mut s = if v < 0 { format!("-{s}") } else if r.chance(1, 5) { format!("+{s}") } else if v == 0 && r.chance(1, 3) { format!("-{s}") } else { s };
    if r.chance(1, 12) { let (a, b) = *r.pick(&PADS); s = format!("{a}{s}{b}"); }
    if r.chance(1, 12) { let pos = r.below(s.chars().count() + 1); let ins = *r.pick(&["x", ".", "e", "-", "+", " ", "_", "٣", "\u{0}"]); let mut t: Vec<char> = s.chars().collect(); for (k, ch) in ins.chars().enumerate() { t.insert(pos + k, ch); } s = t.into_iter().collect(); }
    s
}
fn random_case(r: &mut Rng) -> Case {
    match r.below(12) {
        0 => Case::Native(match r.below(3) { 0 => Native::I32((r.next() as i32) >> r.below(32)), 1 => Native::Isize((r.next() as isize) >> r.below(64)), _ => Native::Usize((r.next() as usize) >> r.below(64)) }),
        1 => { let n = r.below(8); let pool = ['a', 'Z', '0', ' ', '"', '\\', '\n', '\r', '\t', '\u{0}', '\u{1f}', '\u{7f}', 'é', '\u{d7ff}', '\u{e000}', '\u{fffd}', '\u{fffe}', '\u{ffff}', '\u{10000}', '\u{10ffff}', '<', '>', '^', '@', '.']; Case::Native(Native::Str((0..n).map(|_| *r.pick(&pool)).collect())) }
        2 | 3 => Case::Native(Native::F64(random_f64(r))),
        4 | 5 => Case::F64Batch((0..500).map(|_| random_f64(r)).collect()),
        6 if r.chance(1, 2) => { let cs = dt_constants(); let c0 = r.pick(&cs).clone(); let nb: Vec<(String, String)> = iri_neighbours(&c0).into_iter().filter(|(_, i)| iri_ref_ok(i)).collect();
            let i = &r.pick(&nb).1; let lex = if r.chance(3, 4) { valid_lex_for(&c0).to_string() } else { r.pick(&["5", "-5", "true", "1.5", "NaN", ""]).to_string() }; Case::Conv(lit_dt(&lex, i)) }
        6 | 7 | 8 => { let dt = *r.pick(&CONV_DTS[..16]); Case::Conv(lit_dt(&random_int_lex(r, if int_facets(&xsd(dt)).is_some() { dt } else { "integer" }), &xsd(dt))) }
        9 | 10 => { let dt = *r.pick(&["double", "float", "decimal", "double", "float", "decimal", "integer", "string"]);
            let lex = if matches!(dt, "double" | "float") && r.chance(1, 4) { midpoint_lex(r, dt == "float") } else if r.chance(1, 3) { r.pick(&FLOAT_FORMS).to_string() } else { let x = random_f64(r); let mut s = match r.below(4) { 0 => format!("{x}"), 1 => format!("{x:e}"), 2 => format!("{x:E}"), _ => format!("{:.*}", r.below(20), x) };
                if r.chance(1, 6) { s = format!("+{s}"); } if r.chance(1, 10) { let (a, b) = *r.pick(&PADS); s = format!("{a}{s}{b}"); } if r.chance(1, 10) { s = s.replace('.', ""); } if r.chance(1, 12) { s.push_str(*r.pick(&["e", "e+", "f", "d", ".", "e1.5", "_0"])); } s };
            Case::Conv(lit_dt(&lex, &xsd(dt))) }
        _ => { let dt = *r.pick(&CONV_DTS); let lex = r.pick(&["5", "-5", "true", "false", "1", "0", "1.5", "NaN", "", "2024-01-01T00:00:00Z"]).to_string(); if r.chance(1, 4) { Case::Conv(lit_lang(&lex, "en")) } else { Case::Conv(lit_dt(&lex, &xsd(dt))) } }
    }
}

fn main() {
    let a = parse_args();
    let default_hook = std::panic::take_hook();
    std::panic::set_hook(Box::new(move |info| { if !QUIET.load(Ordering::SeqCst) { default_hook(info) } }));
    let mut cx = Ctx { sum: Summary::default(), cases: vec![], seen: Default::default(), verbose: a.only.is_some() };
    cx.sum.rule = "case = either a native value (i32/isize/usize/bool/str/f64: every extreme, zero and negative zero, subnormals, infinities, NaNs, 17-digit and huge/tiny-exponent doubles, strings with control and non-characters) checked through the whole Term API (accessors, provided methods, borrow_term, component iterators, eq/cmp/hash), \
every in-memory representation (SimpleTerm owned/borrowed, CmpTerm, ArcTerm, RcTerm, GenericLiteral over Box/Arc/Rc<str>/String, ResultTerm, rio literals), the terms of ten kinds of graphs/datasets it is inserted into, and a write+read in N-Triples, N-Quads, Turtle, TriG, pretty Turtle, pretty TriG and RDF/XML (parser's own terms and collected terms), converting back with try_from_term, try_into_term and CmpTerm<native> in each place, and handed to the conversions of the other native types, \
or a term (literals of the 13 integer datatypes, decimal, double, float, boolean, other datatypes, near-miss datatype IRIs, language-tagged, non-literals; lexical forms at and around every datatype and native bound, signed, zero-padded, whitespace-padded, malformed, of another family) converted with try_from_term to all five native types in every representation and syntax it can be copied to, \
or a batch of 500 random doubles (oracle only), or the batch of all neighbours of one datatype IRI constant (same length with one character / the tail / the head replaced at every offset, multi-byte characters across every byte offset, every head and tail, one byte more or less; oracle only: no panic, no Ok); \
non-trivial = everything except literals whose datatype no conversion accepts and that is not next to a constant (byte length within 1, contains or is contained in one); distinct = distinct (kind, value/term)".into();
    let fixed = fixed_cases();
    let consts = dt_constants();
    let base = Rng::new(a.seed);
    let range: Vec<usize> = match a.only { Some(i) => vec![i], None => (0..a.n).collect() };
    for idx in range {
        let case = if idx < fixed.len() { fixed[idx].clone() } else { random_case(&mut base.fork(idx as u64)) };
        if a.only.is_some() { println!("CASE {idx}: {case:?}"); }
        let key = format!("{case:?}");
        let trivial = matches!(&case, Case::Conv(t) if t.is_literal() && t.language_tag().is_none() && !CONV_DTS[..17].iter().any(|d| t.datatype().unwrap().as_str() == xsd(d))
            && { let d = t.datatype().unwrap(); let d = d.as_str(); !consts.iter().any(|c| d.len().abs_diff(c.len()) <= 1 || (!d.is_empty() && c.contains(d)) || d.contains(c.as_str())) });
        let before = cx.sum.oracle_failures.len();
        match &case {
            Case::Native(v) => { run_native(&mut cx, idx, v); cx.sum.evaluations += 1; }
            Case::Conv(t) => { run_conv(&mut cx, idx, t); cx.sum.evaluations += 1; }
            Case::DtProbes(k) => { let n = run_dt_probes(&mut cx, idx, *k); cx.sum.evaluations += n; cx.sum.bump("datatype-neighbour-batches"); }
            Case::F64Batch(xs) => { for (k, x) in xs.iter().enumerate() { run_f64(&mut cx, idx, *x, None, k < FULL_PER_BATCH); } cx.sum.evaluations += xs.len() as u64; cx.sum.bump("f64-batches"); }
        }
        if cx.seen.insert(key.clone()) && !trivial { cx.sum.distinct_nontrivial += 1; }
        if a.only.is_some() { if let Some((_, b)) = cx.cases.last() { println!("COQ: {b}"); } println!("oracle failures on this case: {}", cx.sum.oracle_failures.len() - before); }
        if cx.sum.samples.len() < 6 && idx % 97 == 5 { cx.sum.samples.push(format!("case {idx}: {key}")); }
    }
    if a.only.is_none() {
        let header = "From Sophia.C20 Require Import Model.\nOpen Scope N_scope.\n";
        cx.sum.shards = write_shards(&a.out, header, &cx.cases, a.shards);
        cx.sum.extra.push(("coq_cases".into(), cx.cases.len().to_string()));
        cx.sum.extra.push(("fixed_boundary_cases".into(), fixed.len().to_string()));
        if a.n < fixed.len() { eprintln!("c20: --n {} is smaller than the {} fixed boundary cases; some boundaries were not run", a.n, fixed.len()); }
        std::fs::write(format!("{}/summary.json", a.out), cx.sum.to_json()).unwrap();
    }
    println!("c20: {} evaluations, {} coq cases, {} distinct non-trivial, {} oracle failures", cx.sum.evaluations, cx.cases.len(), cx.sum.distinct_nontrivial, cx.sum.oracle_failures.len());
    for (k, v) in &cx.sum.dist { if a.only.is_none() { println!("  {k}: {v}"); } }
}
