(* C09/SchemeAscii.v -- the part of an RFC 3987 IRI before its first ":" is a scheme, and a scheme is made of
   ASCII characters only (RFC 3986 3.1: ALPHA *( ALPHA / DIGIT / "+" / "-" / "." )).  Together with the
   equivalence of EquivIri.v: no character outside ASCII -- in particular none of the characters that Unicode
   case folding ties to an ASCII letter, U+017F and U+212A -- can occur in the scheme of a text that Iri::new,
   the serde entry point or any other validating constructor accepts. *)
From RelationAlgebra Require Import lattice monoid kleene kat_tac lang.
From Coq Require Import NArith List Lia.
From Sophia.C09 Require Import Regex Rfc3987 Eval AtomsProofs Lang Classify.
Import ListNotations.
Close Scope N_scope.

Definition is_ascii (c : N) : Prop := (c < 128)%N.
Definition scheme_rest_c : cclass := (ALPHA_c ++ DIGIT_c ++ one 0x2B ++ one 0x2D ++ one 0x2E)%N.

Lemma alpha_ascii c : inr c ALPHA_c = true -> is_ascii c.
Proof.
  unfold inr, ALPHA_c, in_range, is_ascii. simpl.
  rewrite !Bool.orb_true_iff, !Bool.andb_true_iff, !N.leb_le. lia.
Qed.
Lemma scheme_rest_ascii c : inr c scheme_rest_c = true -> is_ascii c.
Proof.
  unfold inr, scheme_rest_c, ALPHA_c, DIGIT_c, one, in_range, is_ascii. simpl.
  rewrite !Bool.orb_true_iff, !Bool.andb_true_iff, !N.leb_le. lia.
Qed.

Lemma scheme_ascii u : langc scheme u -> Forall is_ascii u.
Proof.
  intros [a [d [-> Hd]] [r Hr ->]]. simpl. constructor; [exact (alpha_ascii d Hd)|].
  apply star_class_forall in Hr. revert Hr. apply Forall_impl. exact scheme_rest_ascii.
Qed.

(* an IRI is a scheme, a colon, and the rest *)
Lemma IRI_split w : langc IRI w -> exists u v, w = u ++ 0x3A%N :: v /\ langc scheme u.
Proof.
  intros [u Hu [x [c [d [-> Hd]] [v _ ->]] ->]].
  assert (d = 0x3A%N).
  { unfold inr, in_range in Hd. simpl in Hd. rewrite Bool.orb_false_r in Hd.
    apply Bool.andb_true_iff in Hd. rewrite !N.leb_le in Hd. lia. }
  subst d. exists u, v. split; [reflexivity | exact Hu].
Qed.

Theorem iri_scheme_is_ascii : forall s, matchb IRI s = true ->
  exists sch rest, s = sch ++ 0x3A%N :: rest /\ matchb scheme sch = true /\ Forall is_ascii sch.
Proof.
  intros s H. apply matchb_spec in H. destruct (IRI_split s H) as [u [v [-> Hu]]].
  exists u, v. split; [reflexivity|]. split; [apply matchb_spec; exact Hu | exact (scheme_ascii u Hu)].
Qed.

(* a text with a non-ASCII character before its first colon is not an IRI *)
Theorem non_ascii_before_colon_not_iri : forall pre c rest,
  Forall (fun x => x <> 0x3A%N) pre -> (128 <= c)%N -> matchb IRI (pre ++ c :: rest) = false.
Proof.
  intros pre c rest Hpre Hc. apply Bool.not_true_is_false. intro H.
  destruct (iri_scheme_is_ascii _ H) as [sch [r [E [_ Hs]]]].
  (* the first colon of both decompositions is at the same place *)
  clear H. revert sch E Hs. induction pre as [|p pre IH]; intros sch E Hs.
  - destruct sch as [|x sch]; simpl in E.
    + inversion E. subst c. lia.
    + inversion E. subst x. inversion Hs. subst. unfold is_ascii in *. lia.
  - destruct sch as [|x sch]; simpl in E.
    + inversion E. subst p. inversion Hpre. congruence.
    + inversion E. subst x. inversion Hpre. inversion Hs. subst. eapply IH; eassumption.
Qed.
