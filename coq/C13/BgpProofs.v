(* C13/BgpProofs.v -- the recursive pattern matcher of bgp.rs enumerates, each exactly once,
   the pattern instance mappings of SPARQL 1.1 section 18.3. *)
From Sophia.C13 Require Import Model Maps.
From Coq Require Import Permutation.

(* ---------- matcher.rs ---------- *)
Definition trip_of (ms mp mo : matcher) : matcher :=
  match ms, mp, mo with
  | MBound s', MBound p', MBound o' => MBound (Triple s' p' o')
  | _, _, _ => MTrip ms mp mo
  end.
Lemma build_trip s p o b : build (PTrip s p o) b = trip_of (build s b) (build p b) (build o b).
Proof. simpl. unfold trip_of. destruct (build s b), (build p b), (build o b); reflexivity. Qed.
Lemma trip_of_matches ms mp mo t :
  m_matches (trip_of ms mp mo) t =
  match t with Triple s p o => m_matches ms s && m_matches mp p && m_matches mo o | _ => false end.
Proof. destruct ms, mp, mo, t; reflexivity. Qed.
Lemma trip_of_bound ms mp mo :
  is_bound (trip_of ms mp mo) = is_bound ms && is_bound mp && is_bound mo.
Proof. destruct ms, mp, mo; reflexivity. Qed.

Lemma inst_ext p : forall b r t, ext b r -> inst p b = Some t -> inst p r = Some t.
Proof.
  induction p as [c|a|s IHs p IHp o IHo]; intros b r t He; simpl.
  - auto.
  - apply He.
  - destruct (inst s b) as [s'|] eqn:Es; [|discriminate].
    destruct (inst p b) as [p'|] eqn:Ep; [|discriminate].
    destruct (inst o b) as [o'|] eqn:Eo; [|discriminate].
    rewrite (IHs _ _ _ He Es), (IHp _ _ _ He Ep), (IHo _ _ _ He Eo). auto.
Qed.

(* a matcher built under b accepts every instance of the pattern under an extension of b *)
Lemma build_matches p : forall b r t, ext b r -> inst p r = Some t -> m_matches (build p b) t = true.
Proof.
  induction p as [c|a|s IHs p IHp o IHo]; intros b r t He.
  - simpl. intros E. injection E as <-. apply teq_refl.
  - simpl. intros E. destruct (get a b) as [t'|] eqn:G; simpl; [|reflexivity].
    apply He in G. rewrite G in E. injection E as <-. apply teq_refl.
  - rewrite build_trip, trip_of_matches. simpl.
    destruct (inst s r) as [s'|] eqn:Es; [|discriminate].
    destruct (inst p r) as [p'|] eqn:Ep; [|discriminate].
    destruct (inst o r) as [o'|] eqn:Eo; [|discriminate].
    intros E. injection E as <-.
    rewrite (IHs _ _ _ He Es), (IHp _ _ _ He Ep), (IHo _ _ _ He Eo). reflexivity.
Qed.
(* ... and only terms of the right shape: the unwrap / debug_assert of populate_bindings_term
   cannot fail on a term that the matcher accepted *)
Lemma matches_shape p : forall b t, m_matches (build p b) t = true -> shape_ok p t = true.
Proof.
  induction p as [c|a|s IHs p IHp o IHo]; intros b t.
  - simpl. auto.
  - reflexivity.
  - rewrite build_trip, trip_of_matches. destruct t; try discriminate.
    rewrite !andb_true_iff. intros [[H1 H2] H3]. simpl.
    rewrite (IHs _ _ H1), (IHp _ _ H2), (IHo _ _ H3). reflexivity.
Qed.
(* a Bound matcher: every atom of the pattern is bound, the matcher is the instance *)
Lemma bound_inst p : forall b, is_bound (build p b) = true ->
  exists t, build p b = MBound t /\ inst p b = Some t /\ (forall a, In a (atoms p) -> get a b <> None).
Proof.
  induction p as [c|a|s IHs p IHp o IHo]; intros b.
  - simpl. intros _. exists c. split; [reflexivity|]. split; [reflexivity|]. intros a [].
  - simpl. destruct (get a b) as [t|] eqn:G; simpl; [|discriminate]. intros _.
    exists t. split; [reflexivity|]. split; [reflexivity|]. intros a' [<-|[]]. congruence.
  - rewrite build_trip, trip_of_bound, !andb_true_iff. intros [[H1 H2] H3].
    destruct (IHs _ H1) as [ts [B1 [I1 A1]]], (IHp _ H2) as [tp [B2 [I2 A2]]],
             (IHo _ H3) as [to [B3 [I3 A3]]].
    exists (Triple ts tp to). rewrite B1, B2, B3. simpl. rewrite I1, I2, I3.
    split; [reflexivity|]. split; [reflexivity|].
    intros a. rewrite !in_app_iff. intros [H|[H|H]]; auto.
Qed.

(* ---------- binding.rs: populate_bindings ---------- *)
Lemma populate_wf p : forall t b b', populate p t b = Some b' -> wfbind b = true -> wfbind b' = true.
Proof.
  induction p as [c|a|s IHs p IHp o IHo]; intros t b b'; simpl.
  - intros E; injection E as <-; auto.
  - destruct (get a b) as [t'|].
    + destruct (teq t' t); [intros E; injection E as <-; auto | discriminate].
    + intros E; injection E as <-. apply wfbind_set.
  - destruct t; try discriminate.
    destruct (populate s t1 b) as [b1|] eqn:E1; [|discriminate].
    destruct (populate p t2 b1) as [b2|] eqn:E2; [|discriminate].
    intros E3 H. eapply IHo; eauto.
Qed.

Definition dom_add (b b' : binding) (l : list atom) : Prop :=
  forall a, get a b' <> None <-> (get a b <> None \/ In a l).

Lemma populate_sound p : forall t b b',
  populate p t b = Some b' -> shape_ok p t = true ->
  ext b b' /\ inst p b' = Some t /\ dom_add b b' (atoms p).
Proof.
  induction p as [c|a|s IHs p IHp o IHo]; intros t b b'; simpl.
  - intros E Hs. injection E as <-. apply teq_eq in Hs. subst. repeat split.
    + apply ext_refl.
    + tauto.
    + intros [H|[]]; auto.
  - intros E _. destruct (get a b) as [t'|] eqn:G.
    + destruct (teq t' t) eqn:T; [|discriminate]. injection E as <-. apply teq_eq in T. subst t'.
      repeat split; auto using ext_refl. intros [H|[<-|[]]]; congruence.
    + injection E as <-. split; [apply ext_set; auto|]. split; [apply get_set_eq|].
      intros a'. rewrite get_set. destruct (atom_eqb a' a) eqn:E.
      * apply atom_eqb_eq in E. subst. split; [right; left; reflexivity | congruence].
      * split; [tauto|]. intros [H|[<-|[]]]; auto.
        assert (atom_eqb a a = true) by (apply atom_eqb_eq; reflexivity). congruence.
  - destruct t; try discriminate.
    destruct (populate s t1 b) as [b1|] eqn:E1; [|discriminate].
    destruct (populate p t2 b1) as [b2|] eqn:E2; [|discriminate].
    intros E3. rewrite !andb_true_iff. intros [[S1 S2] S3].
    destruct (IHs _ _ _ E1 S1) as [X1 [I1 D1]], (IHp _ _ _ E2 S2) as [X2 [I2 D2]],
             (IHo _ _ _ E3 S3) as [X3 [I3 D3]].
    split; [eauto using ext_trans|]. split.
    + rewrite (inst_ext s b1 b' t1), (inst_ext p b2 b' t2), I3; eauto using ext_trans.
    + unfold dom_add in *. intros a. rewrite D3, D2, D1, !in_app_iff. tauto.
Qed.

Lemma populate_complete p : forall t b r,
  ext b r -> inst p r = Some t -> exists b', populate p t b = Some b' /\ ext b' r.
Proof.
  induction p as [c|a|s IHs p IHp o IHo]; intros t b r He; simpl.
  - intros _. exists b. auto.
  - intros E. destruct (get a b) as [t'|] eqn:G.
    + apply He in G. rewrite G in E. injection E as ->. rewrite teq_refl. exists b. auto.
    + exists (set a t b). split; auto. intros a' t'. rewrite get_set.
      destruct (atom_eqb a' a) eqn:Ea; [|apply He].
      apply atom_eqb_eq in Ea. subst. congruence.
  - destruct (inst s r) as [s'|] eqn:Es; [|discriminate].
    destruct (inst p r) as [p'|] eqn:Ep; [|discriminate].
    destruct (inst o r) as [o'|] eqn:Eo; [|discriminate].
    intros E. injection E as <-.
    destruct (IHs _ _ _ He Es) as [b1 [P1 X1]]. rewrite P1.
    destruct (IHp _ _ _ X1 Ep) as [b2 [P2 X2]]. rewrite P2.
    apply (IHo _ _ _ X2 Eo).
Qed.

(* the value of an atom of the pattern is a subterm of the instance *)
Lemma inst_subterm p : forall b u a t,
  inst p b = Some u -> In a (atoms p) -> get a b = Some t -> In t (subterms u).
Proof.
  induction p as [c|a0|s IHs p IHp o IHo]; intros b u a t; simpl.
  - intros _ [].
  - intros E [<-|[]] G. rewrite G in E. injection E as <-. destruct t; simpl; auto.
  - destruct (inst s b) as [s'|] eqn:Es; [|discriminate].
    destruct (inst p b) as [p'|] eqn:Ep; [|discriminate].
    destruct (inst o b) as [o'|] eqn:Eo; [|discriminate].
    intros E. injection E as <-. rewrite !in_app_iff. intros H G. simpl. right.
    rewrite !in_app_iff. destruct H as [H|[H|H]]; eauto.
Qed.

(* ---------- the same for whole triple patterns ---------- *)
Definition all_bound3 (m : matcher3) : bool :=
  let '(sm, pm, om) := m in is_bound sm && is_bound pm && is_bound om.

Lemma inst3_ext tp b r m : ext b r -> inst3 tp b = Some m -> inst3 tp r = Some m.
Proof.
  destruct tp as [[s p] o]. simpl. intros He.
  destruct (inst s b) as [s'|] eqn:Es; [|discriminate].
  destruct (inst p b) as [p'|] eqn:Ep; [|discriminate].
  destruct (inst o b) as [o'|] eqn:Eo; [|discriminate].
  rewrite (inst_ext _ _ _ _ He Es), (inst_ext _ _ _ _ He Ep), (inst_ext _ _ _ _ He Eo). auto.
Qed.
Lemma build3_matches tp b r m : ext b r -> inst3 tp r = Some m -> matches3 (build3 tp b) m = true.
Proof.
  destruct tp as [[s p] o]. simpl. intros He.
  destruct (inst s r) as [s'|] eqn:Es; [|discriminate].
  destruct (inst p r) as [p'|] eqn:Ep; [|discriminate].
  destruct (inst o r) as [o'|] eqn:Eo; [|discriminate].
  intros E. injection E as <-.
  rewrite (build_matches _ _ _ _ He Es), (build_matches _ _ _ _ He Ep), (build_matches _ _ _ _ He Eo).
  reflexivity.
Qed.
Lemma matches3_shape tp b m : matches3 (build3 tp b) m = true -> shape_ok3 tp m = true.
Proof.
  destruct tp as [[s p] o], m as [[ms mp] mo]. simpl. rewrite !andb_true_iff. intros [[H1 H2] H3].
  rewrite (matches_shape _ _ _ H1), (matches_shape _ _ _ H2), (matches_shape _ _ _ H3). auto.
Qed.
Lemma populate3_wf tp m b b' : populate3 tp m b = Some b' -> wfbind b = true -> wfbind b' = true.
Proof.
  destruct tp as [[s p] o], m as [[ms mp] mo]. simpl.
  destruct (populate s ms b) as [b1|] eqn:E1; [|discriminate].
  destruct (populate p mp b1) as [b2|] eqn:E2; [|discriminate].
  intros E3 H. eauto using populate_wf.
Qed.
Lemma populate3_sound tp m b b' :
  populate3 tp m b = Some b' -> shape_ok3 tp m = true ->
  ext b b' /\ inst3 tp b' = Some m /\ dom_add b b' (atoms3 tp).
Proof.
  destruct tp as [[s p] o], m as [[ms mp] mo]. simpl.
  destruct (populate s ms b) as [b1|] eqn:E1; [|discriminate].
  destruct (populate p mp b1) as [b2|] eqn:E2; [|discriminate].
  intros E3. rewrite !andb_true_iff. intros [[S1 S2] S3].
  destruct (populate_sound _ _ _ _ E1 S1) as [X1 [I1 D1]],
           (populate_sound _ _ _ _ E2 S2) as [X2 [I2 D2]],
           (populate_sound _ _ _ _ E3 S3) as [X3 [I3 D3]].
  split; [eauto using ext_trans|]. split.
  - rewrite (inst_ext s b1 b' ms), (inst_ext p b2 b' mp), I3; eauto using ext_trans.
  - unfold dom_add in *. intros a. rewrite D3, D2, D1, !in_app_iff. tauto.
Qed.
Lemma populate3_complete tp m b r :
  ext b r -> inst3 tp r = Some m -> exists b', populate3 tp m b = Some b' /\ ext b' r.
Proof.
  destruct tp as [[s p] o]. simpl. intros He.
  destruct (inst s r) as [s'|] eqn:Es; [|discriminate].
  destruct (inst p r) as [p'|] eqn:Ep; [|discriminate].
  destruct (inst o r) as [o'|] eqn:Eo; [|discriminate].
  intros E. injection E as <-.
  destruct (populate_complete _ _ _ _ He Es) as [b1 [P1 X1]]. rewrite P1.
  destruct (populate_complete _ _ _ _ X1 Ep) as [b2 [P2 X2]]. rewrite P2.
  apply (populate_complete _ _ _ _ X2 Eo).
Qed.
Lemma bound3_inst tp b : all_bound3 (build3 tp b) = true ->
  exists m0, inst3 tp b = Some m0
    /\ (forall m, matches3 (build3 tp b) m = true -> m = m0)
    /\ (forall a, In a (atoms3 tp) -> get a b <> None).
Proof.
  destruct tp as [[s p] o]. simpl. rewrite !andb_true_iff. intros [[H1 H2] H3].
  destruct (bound_inst _ _ H1) as [ts [B1 [I1 A1]]], (bound_inst _ _ H2) as [tp [B2 [I2 A2]]],
           (bound_inst _ _ H3) as [to [B3 [I3 A3]]].
  exists (ts, tp, to). rewrite I1, I2, I3, B1, B2, B3. split; [reflexivity|]. split.
  - intros [[ms mp] mo]. simpl. rewrite !andb_true_iff, !teq_eq. intros [[-> ->] ->]. reflexivity.
  - intros a. rewrite !in_app_iff. intros [H|[H|H]]; auto.
Qed.
Lemma inst3_subterm tp b s p o a t :
  inst3 tp b = Some (s, p, o) -> In a (atoms3 tp) -> get a b = Some t ->
  In t (subterms s ++ subterms p ++ subterms o).
Proof.
  destruct tp as [[ps pp] po]. simpl.
  destruct (inst ps b) as [s'|] eqn:Es; [|discriminate].
  destruct (inst pp b) as [p'|] eqn:Ep; [|discriminate].
  destruct (inst po b) as [o'|] eqn:Eo; [|discriminate].
  intros E. injection E as <- <- <-. rewrite !in_app_iff. intros [H|[H|H]] G; eauto using inst_subterm.
Qed.

(* ---------- bgp.rs: bgp_rec ---------- *)
Lemma split_last_spec {A} (l : list A) :
  match split_last l with None => l = [] | Some (f, z) => l = f ++ [z] end.
Proof.
  induction l as [|x l IH]; simpl; [reflexivity|].
  destruct (split_last l) as [[f z]|]; subst; reflexivity.
Qed.
Lemma flat_map_app' {A B} (f : A -> list B) l1 l2 :
  flat_map f (l1 ++ l2) = flat_map f l1 ++ flat_map f l2.
Proof. induction l1 as [|x l1 IH]; simpl; [reflexivity|]. rewrite IH, app_assoc. reflexivity. Qed.

(* the first/last split (which only saves one clone of the binding) is a plain loop *)
Lemma split_last_loop {A B} (F : A -> list B) (c : bool) (X : list B) (l : list A) :
  match split_last l with
  | None => []
  | Some (f, z) => if c then X else flat_map F f ++ F z
  end = match l with [] => [] | _ :: _ => if c then X else flat_map F l end.
Proof.
  pose proof (split_last_spec l) as H. destruct (split_last l) as [[f z]|]; subst l.
  - destruct (f ++ [z]) eqn:E; [destruct f; discriminate|]. rewrite <- E.
    destruct c; [reflexivity|]. rewrite flat_map_app'. simpl. rewrite app_nil_r. reflexivity.
  - reflexivity.
Qed.
Definition bgp_step qm (first : tp3) (rest : list tp3) (b : binding) (gm : list (option term))
  (m : triple) : list binding :=
  match populate3 first m b with
  | Some b' => bgp_rec qm rest b' gm
  | None => []
  end.
Lemma bgp_rec_cons qm first rest b gm :
  bgp_rec qm (first :: rest) b gm =
  match qm (build3 first b) gm with
  | [] => []
  | _ :: _ =>
      if all_bound3 (build3 first b) then bgp_rec qm rest b gm
      else flat_map (bgp_step qm first rest b gm) (qm (build3 first b) gm)
  end.
Proof.
  cbn [bgp_rec]. destruct (build3 first b) as [[sm pm] om]. cbn [all_bound3].
  exact (split_last_loop (bgp_step qm first rest b gm) _ _ _).
Qed.

Lemma bgp_rec_ext qm1 qm2 gm : (forall m, qm1 m gm = qm2 m gm) ->
  forall ps b, bgp_rec qm1 ps b gm = bgp_rec qm2 ps b gm.
Proof.
  intros H ps. induction ps as [|tp ps IH]; intros b; [reflexivity|].
  rewrite !bgp_rec_cons, H. destruct (qm2 (build3 tp b) gm) eqn:E; [reflexivity|]. rewrite <- E.
  rewrite IH. destruct (all_bound3 (build3 tp b)); [reflexivity|].
  apply flat_map_ext. intros m. unfold bgp_step. destruct (populate3 tp m b); auto.
Qed.

Section OneGraph.
Variable G : list triple.              (* the triples of the active graph *)
Hypothesis G_nodup : NoDup G.
Variable gm : list (option term).
Definition qmG : matcher3 -> list (option term) -> list triple := fun m _ => filter (matches3 m) G.

(* every triple pattern has an instance in the graph *)
Definition sat (ps : list tp3) (r : binding) : Prop :=
  forall tp, In tp ps -> exists m, inst3 tp r = Some m /\ In m G.

Lemma in_match_nonempty {A B} (l : list A) (X : list B) r :
  In r (match l with [] => [] | _ :: _ => X end) <-> (l <> [] /\ In r X).
Proof.
  destruct l; simpl.
  - split; [intros [] | intros [H _]; congruence].
  - split; [intros H; split; [discriminate | auto] | tauto].
Qed.

Lemma bgp_rec_spec ps : forall b, wfbind b = true -> forall r,
  In r (bgp_rec qmG ps b gm) <->
  (wfbind r = true /\ ext b r /\ dom_add b r (flat_map atoms3 ps) /\ sat ps r).
Proof.
  induction ps as [|tp ps IH]; intros b Hb r.
  - simpl. split.
    + intros [<-|[]]. split; [auto|]. split; [apply ext_refl|]. split.
      * intros a. tauto.
      * intros tp [].
    + intros [Hr [He [Hd _]]]. left. apply binding_ext; auto. intros a.
      destruct (get a b) as [t|] eqn:E; [symmetry; apply He; auto|].
      destruct (get a r) eqn:E'; [|reflexivity].
      exfalso. assert (H : get a r <> None) by congruence. apply Hd in H. destruct H as [H|[]]. congruence.
  - rewrite bgp_rec_cons, in_match_nonempty. unfold qmG at 1 2.
    set (matches := filter (matches3 (build3 tp b)) G).
    assert (Hm : forall m, In m matches <-> In m G /\ matches3 (build3 tp b) m = true)
      by (intros; apply filter_In).
    split.
    + (* soundness *)
      intros [Hne Hin].
      destruct (all_bound3 (build3 tp b)) eqn:AB.
      * apply (IH b Hb) in Hin as [Hr [He [Hd Hs]]].
        destruct (bound3_inst _ _ AB) as [m0 [I0 [U0 A0]]].
        split; [auto|]. split; [auto|]. split.
        -- intros a. rewrite (Hd a). simpl. rewrite in_app_iff. split; [tauto|].
           intros [H|[H|H]]; auto.
        -- intros tp' [<-|Hin]; [|auto]. exists m0. split; [eapply inst3_ext; eauto|].
           destruct matches as [|m1 ms] eqn:EM; [congruence|].
           assert (Hin1 : In m1 (m1 :: ms)) by (left; reflexivity).
           apply Hm in Hin1 as [HG HM]. rewrite <- (U0 _ HM). exact HG.
      * apply in_flat_map in Hin as [m [Hmin Hin]].
        apply Hm in Hmin as [HG HM]. unfold bgp_step in Hin.
        destruct (populate3 tp m b) as [b'|] eqn:P; [|destruct Hin].
        destruct (populate3_sound _ _ _ _ P (matches3_shape _ _ _ HM)) as [X [I D]].
        apply (IH b' (populate3_wf _ _ _ _ P Hb)) in Hin as [Hr [He [Hd Hs]]].
        split; [auto|]. split; [eauto using ext_trans|]. split.
        -- unfold dom_add in *. intros a. rewrite (Hd a), (D a). simpl. rewrite in_app_iff. tauto.
        -- intros tp' [<-|Hin]; [|auto]. exists m. split; [eapply inst3_ext; eauto | auto].
    + (* completeness *)
      intros [Hr [He [Hd Hs]]].
      destruct (Hs tp (or_introl eq_refl)) as [m [Im HG]].
      assert (Hmin : In m matches) by (apply Hm; split; [auto | eapply build3_matches; eauto]).
      split; [intros E; rewrite E in Hmin; destruct Hmin|].
      destruct (all_bound3 (build3 tp b)) eqn:AB.
      * destruct (bound3_inst _ _ AB) as [m0 [I0 [U0 A0]]].
        apply (IH b Hb). split; [auto|]. split; [auto|]. split.
        -- intros a. rewrite (Hd a). simpl. rewrite in_app_iff. split; [|tauto].
           intros [H|[H|H]]; auto.
        -- intros tp' Hin. apply Hs. right. exact Hin.
      * apply in_flat_map. exists m. split; [auto|]. unfold bgp_step.
        destruct (populate3_complete _ _ _ _ He Im) as [b' [P X]]. rewrite P.
        apply Hm in Hmin as [_ HM].
        destruct (populate3_sound _ _ _ _ P (matches3_shape _ _ _ HM)) as [X0 [I D]].
        apply (IH b' (populate3_wf _ _ _ _ P Hb)). split; [auto|]. split; [auto|]. split.
        -- unfold dom_add in *. intros a. rewrite (Hd a), (D a). simpl. rewrite in_app_iff. tauto.
        -- intros tp' Hin. apply Hs. right. exact Hin.
Qed.

Lemma bgp_rec_NoDup ps : forall b, wfbind b = true -> NoDup (bgp_rec qmG ps b gm).
Proof.
  induction ps as [|tp ps IH]; intros b Hb.
  - simpl. constructor; [intros [] | constructor].
  - rewrite bgp_rec_cons. unfold qmG at 1 2.
    set (matches := filter (matches3 (build3 tp b)) G).
    assert (Hm : forall m, In m matches -> In m G /\ matches3 (build3 tp b) m = true)
      by (intros; apply filter_In; auto).
    assert (Hnd : NoDup matches) by (apply NoDup_filter; exact G_nodup).
    destruct matches as [|m1 ms] eqn:EM; [constructor|]. rewrite <- EM in *. clear EM m1 ms.
    destruct (all_bound3 (build3 tp b)); [apply IH; auto|].
    (* a row found through the match m instantiates the pattern to m *)
    assert (Hi : forall m r, In m matches -> In r (bgp_step qmG tp ps b gm m) -> inst3 tp r = Some m).
    { intros m r Hmin Hin. apply Hm in Hmin as [_ HM]. unfold bgp_step in Hin.
      destruct (populate3 tp m b) as [b'|] eqn:P; [|destruct Hin].
      destruct (populate3_sound _ _ _ _ P (matches3_shape _ _ _ HM)) as [_ [I _]].
      apply (bgp_rec_spec ps b' (populate3_wf _ _ _ _ P Hb)) in Hin as [_ [He _]].
      eapply inst3_ext; eauto. }
    apply NoDup_flat_map; auto.
    + intros m Hmin. unfold bgp_step. destruct (populate3 tp m b) as [b'|] eqn:P; [|constructor].
      apply IH. eapply populate3_wf; eauto.
    + intros m m' r H1 H2 R1 R2. pose proof (Hi _ _ H1 R1). pose proof (Hi _ _ H2 R2). congruence.
Qed.
End OneGraph.

(* ---------- 18.3: the enumeration of all pattern instance mappings ---------- *)
Lemma NoDup_map_inj_on {A B} (f : A -> B) l :
  (forall x y, In x l -> In y l -> f x = f y -> x = y) -> NoDup l -> NoDup (map f l).
Proof.
  intros Hf. induction 1 as [|x l Hx Hl IH]; simpl; constructor.
  - rewrite in_map_iff. intros [y [E Hy]]. apply Hf in E; [subst; contradiction | right; auto | left; auto].
  - apply IH. intros; apply Hf; auto; right; auto.
Qed.

Lemma assigns_spec U xs : NoDup xs -> forall r,
  In r (assigns xs U) <->
  (wfbind r = true /\ (forall a, get a r <> None <-> In a xs)
   /\ (forall a t, get a r = Some t -> In t U)).
Proof.
  induction 1 as [|a xs Ha Hxs IH]; intros r.
  - simpl. split.
    + intros [<-|[]]. split; [reflexivity|]. split.
      * intros a. destruct a; simpl; tauto.
      * intros a t. destruct a; discriminate.
    + intros [Hr [Hd _]]. left. apply binding_ext; auto. intros a.
      destruct (get a r) eqn:E; [|destruct a; reflexivity].
      exfalso. apply (proj1 (Hd a)). congruence.
  - simpl. rewrite in_flat_map. split.
    + intros [t [Ht Hin]]. apply in_map_iff in Hin as [r' [<- Hin]].
      apply IH in Hin as [Hr [Hd Hu]]. split; [apply wfbind_set; auto|]. split.
      * intros a'. rewrite get_set. destruct (atom_eqb a' a) eqn:E.
        -- apply atom_eqb_eq in E. split; [auto | congruence].
        -- rewrite Hd. split; [auto|]. intros [->|H]; auto.
           assert (atom_eqb a' a' = true) by (apply atom_eqb_eq; reflexivity). congruence.
      * intros a' t'. rewrite get_set. destruct (atom_eqb a' a); [congruence | apply Hu].
    + intros [Hr [Hd Hu]].
      destruct (get a r) as [t|] eqn:G; [|exfalso; apply (proj2 (Hd a)); [left; reflexivity | exact G]].
      exists t. split; [eauto|]. apply in_map_iff. exists (unset a r). split.
      * apply binding_ext; auto using wfbind_set, wfbind_unset. intros a'.
        rewrite get_set, get_unset. destruct (atom_eqb a' a) eqn:E.
        -- apply atom_eqb_eq in E. subst. auto.
        -- destruct (atom_eqb a a') eqn:E'; [|reflexivity].
           apply atom_eqb_eq in E'. subst.
           assert (atom_eqb a' a' = true) by (apply atom_eqb_eq; reflexivity). congruence.
      * apply IH. split; [apply wfbind_unset; auto|]. split.
        -- intros a'. rewrite get_unset. destruct (atom_eqb a a') eqn:E.
           ++ apply atom_eqb_eq in E. subst. split; [congruence | intros; contradiction].
           ++ rewrite Hd. split; [intros [->|H]; auto | auto].
              assert (atom_eqb a' a' = true) by (apply atom_eqb_eq; reflexivity). congruence.
        -- intros a' t'. rewrite get_unset. destruct (atom_eqb a a'); [discriminate | apply Hu].
Qed.

Lemma assigns_NoDup U xs : NoDup xs -> NoDup U -> NoDup (assigns xs U).
Proof.
  intros Hxs HU. induction Hxs as [|a xs Ha Hxs IH]; simpl.
  - constructor; [intros [] | constructor].
  - apply NoDup_flat_map; auto.
    + intros t _. apply NoDup_map_inj_on; auto.
      intros r1 r2 H1 H2 E. apply (assigns_spec U xs Hxs) in H1 as [W1 [D1 _]].
      apply (assigns_spec U xs Hxs) in H2 as [W2 [D2 _]].
      apply binding_ext; auto. intros a'.
      destruct (atom_eqb a' a) eqn:Ea.
      * apply atom_eqb_eq in Ea. subst.
        destruct (get a r1) eqn:G1; [exfalso; apply Ha, D1; congruence|].
        destruct (get a r2) eqn:G2; [exfalso; apply Ha, D2; congruence|]. reflexivity.
      * assert (H : get a' (set a t r1) = get a' (set a t r2)) by (rewrite E; reflexivity).
        rewrite !get_set, Ea in H. exact H.
    + intros t1 t2 z _ _ H1 H2. apply in_map_iff in H1 as [r1 [<- _]].
      apply in_map_iff in H2 as [r2 [E _]].
      assert (H : get a (set a t2 r2) = get a (set a t1 r1)) by (rewrite E; reflexivity).
      rewrite !get_set_eq in H. congruence.
Qed.

(* ---------- the BGP theorem ---------- *)
Lemma forallb_sat3 G ps r :
  forallb (sat3 G r) ps = true <-> sat G ps r.
Proof.
  unfold sat. rewrite forallb_forall. split; intros H tp Hin; specialize (H tp Hin); unfold sat3 in *.
  - destruct (inst3 tp r) as [m|]; [|discriminate]. exists m. split; auto.
    apply (memb_In _ triple_eqb_eq). exact H.
  - destruct H as [m [-> H]]. apply (memb_In _ triple_eqb_eq). exact H.
Qed.

Theorem bgp_rec_is_spec G gm ps : NoDup G ->
  Permutation (bgp_rec (qmG G) ps empty_binding gm) (spec_bgp_full G ps).
Proof.
  intros HG. apply NoDup_Permutation.
  - apply bgp_rec_NoDup; auto.
  - unfold spec_bgp_full. apply NoDup_filter. apply assigns_NoDup.
    + apply (dedupb_NoDup _ atom_eqb_eq).
    + apply (dedupb_NoDup _ teq_eq).
  - intros r. rewrite (bgp_rec_spec G gm ps empty_binding wfbind_empty).
    unfold spec_bgp_full, bgp_atoms. rewrite filter_In, forallb_sat3.
    rewrite (assigns_spec _ _ (dedupb_NoDup _ atom_eqb_eq _)).
    unfold dom_add.
    assert (He : forall a, get a empty_binding = None) by (intros [?|?]; reflexivity).
    split.
    + intros [Hr [_ [Hd Hs]]]. split; [|auto]. split; [auto|]. split.
      * intros a. rewrite (dedupb_In _ atom_eqb_eq), (Hd a), He. split; [intros [H|H]; congruence || auto | auto].
      * intros a t Ga.
        assert (Hin : In a (flat_map atoms3 ps)).
        { assert (H : get a r <> None) by congruence. apply Hd in H. rewrite He in H.
          destruct H; [congruence | auto]. }
        apply in_flat_map in Hin as [tp [Htp Hat]].
        destruct (Hs tp Htp) as [[[s p] o] [Im Hm]].
        unfold universe. apply (dedupb_In _ teq_eq). apply in_flat_map.
        exists (s, p, o). split; [auto|]. eapply inst3_subterm; eauto.
    + intros [[Hr [Hd Hu]] Hs]. split; [auto|]. split; [intros a t; rewrite He; discriminate|].
      split; [|auto]. intros a. rewrite (Hd a), (dedupb_In _ atom_eqb_eq), He. split; [auto|].
      intros [H|H]; [congruence | auto].
Qed.
